import AtomicaModel.Basic
import AtomicaModel.Grid
import AtomicaModel.Engine
import AtomicaModel.EngineIO
import AtomicaModel.Series
import AtomicaModel.Coverage
import AtomicaModel.Covout
import AtomicaModel.Expr
