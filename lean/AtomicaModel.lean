import AtomicaModel.Basic
import AtomicaModel.Grid
