import AtomicaModel
open Atomica

/-- handlers: first token selects the model module; the rest are its arguments -/
def handlers : List (String × (List String → Option String)) :=
  [ ("grid", Grid.handle), ("gridops", Grid.handleOps),
    ("estep", Engine.handleStep), ("eflush", Engine.handleFlush), ("ewf", Engine.handleWf),
    ("estepref", Engine.handleStepRef), ("eflushref", Engine.handleFlushRef), ("egroupj", Engine.handleGroupJ),
    ("interp-linear", Series.handleLinear), ("interp-previous", Series.handlePrevious), ("series-insert", Series.handleInsert),
    ("capacity", Coverage.handleCapacity), ("propcov", Coverage.handlePropcov), ("effcov", Coverage.handleEffcov),
    ("covout", Covout.handle),
    ("expr-accept", Expr.handle "expr-accept"), ("expr-eval", Expr.handle "expr-eval"), ("plotstr", Expr.handle "plotstr"),
    ("rng", Rng.handle),
    ("agg", Aggregate.handle), ("cascade", Cascade.handle),
    ("constrain", Alloc.handle), ("hardcon", Alloc.handleHardcon), ("package", Alloc.handlePackageKind),
    ("asd", Protocol.handle), ("objective", Protocol.Objective.handle), ("calobj", Protocol.Objective.handleCal),
    ("bracket", Protocol.Bracket.handle), ("skeleton", Protocol.Skeletons.handle),
    ("trows", Timed.handleRows), ("tkey", Timed.handleKey),
    ("init-table", InitTable.handleTable), ("init-untable", InitTable.handleUntable), ("init-apply", InitTable.handleApply), ("init-save", InitTable.handleSave),
    ("init-accept", Init.handleAccept), ("init-rhs", Init.handleRhs), ("charac", Init.handleCharac), ("init-saved", Init.handleSaved),
    ("relink", Protocol.Graph.handle),
    ("par-eval", Params.handleEval), ("prog-cov", Params.handleProgCov), ("par-order", Params.handleOrder),
    ("c09-gate", Scenario.handleGate), ("c09-evalone", Scenario.handleEvalOne), ("c09-scen", Scenario.handleScen),
    ("rules", Rules.handle),
    ("tdve", Tables.handleTdve), ("yfac", Tables.YF.handle), ("cache", Protocol.Cache.handle),
    ("csim", Closed.handleSim), ("csimref", Closed.handleSimRef), ("cwf", Closed.handleWf), ("cpars", Closed.handleParsRef),
    ("cpsim", ClosedProg.handleSim), ("cpsimref", ClosedProg.handleSimRef), ("cpwf", ClosedProg.handleWf), ("cppars", ClosedProg.handleParsRef) ]

/-- One request per line: `<kind> <args…>`; one canonical reply per line. -/
def dispatch (line : String) : String :=
  match (line.trimAscii.toString.splitOn " ").filter (· ≠ "") with
  | [] => "err empty"
  | "ping" :: rest => "pong " ++ " ".intercalate rest
  | k :: args =>
      match handlers.lookup k with
      | some h => (h args).getD ("err bad-request " ++ k)
      | none => "err unknown-kind " ++ k

partial def loop (h : IO.FS.Stream) (out : IO.FS.Stream) : IO Unit := do
  let line ← h.getLine
  if line.isEmpty then return ()
  out.putStrLn (dispatch line)
  loop h out

def main : IO Unit := do
  let out ← IO.getStdout
  loop (← IO.getStdin) out
  out.flush
