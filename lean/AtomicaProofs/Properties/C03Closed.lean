/-
  C03 (closed loop) — "An independent re-implementation of these rules, run from the same inputs, reproduces every compartment
  and flow trajectory."  Theorems about `Atomica.Closed` (lean/AtomicaModel/Closed.lean), the closed-loop model that
  harness/vlib/closed_corr.py compares with whole runs of the real `Model`, stock by stock and flow by flow.

  The closed loop is a COMPOSITION of pieces that are already proved; these theorems say that the composition adds nothing
  unproved to the engine layer and what the parameter layer guarantees:

    * `simulate_is_process`, `simulate_is_runFrom` — a closed-loop trajectory IS `Engine.process` on the parameter-value stream the closed loop itself
                               computes (`closedPvs`), so every L1 theorem transfers:
        `closed_total`        (C01.run_total: people are conserved along every closed-loop run),
        `closed_nonneg`       (C02.run_nonneg/step_nonneg: stocks and flows of every index are non-negative),
        `closed_jempty`       (C10.process_all_jempty / C04: junctions are empty at every index);
    * `closedPvs_propsNonneg` — the hypothesis "junction proportions are not negative" of those theorems is *established* by the
                               parameter layer when the proportion parameters carry a lower limit ≥ 0 (decidable `propsClipped`);
    * `evalPars_clipped`     — every parameter value a step uses lies within its limits;
    * `evalPars_fixpoint`    — with a topological execution order (decidable `depsBefore`, evaluated by the driver on every
                               spec) each function / aggregation parameter equals `clip(scale · f(values of the SAME index))`,
                               i.e. the values of one index are a fixed point of the parameter rules (no stale value is read);
    * `evalPars_static`      — parameters whose transitive dependencies are only `t`, `dt` and other such parameters have the same
                               value on every state: evaluating them once before the run ("precompute") or at every index is the same;
    * `simulateN_prefix`, `simulateN_length` — a run to a later end index extends the shorter run (C09 end_extension).

  The loop state is (stocks, current values `d` of the derivative parameters); theorems about one index quantify over every
  state AND every `d`; those that need the derivative values to respect their limits carry `DWithin s d`, an invariant of the loop
  (`initD_within`, `nextD_within`).  Skip windows and derivative parameters themselves: C03ClosedExt.lean.
-/
import AtomicaModel.Closed
import AtomicaProofs.Properties.C01Step
import AtomicaProofs.Properties.C10
import Mathlib.Tactic.Linarith
import Mathlib.Tactic.NormNum

namespace Atomica.C03
open Atomica Atomica.Engine Atomica.Closed

/-! ## 1. the closed loop is `Engine.process` on its own parameter stream -/

/-- the parameter values the closed loop computes along a trajectory whose first entry is time index `i`, entered with the
    derivative-parameter values `d` -/
def closedPvs (s : Spec) : Nat → Vals → List (Stock × Flow) → List (Nat → Rat)
  | _, _, [] => []
  | i, d, (x, _) :: rest => pvOf (evalPars s i x d) :: closedPvs s (i + 1) (nextD s i x d) rest

theorem stepClosed_eq {s : Spec} {i : Nat} {x x' : Stock} {d : Vals} {fl : Flow} (h : stepClosed s i x d = some (fl, x')) :
    step s.net s.dt (pvOf (evalPars s i x d)) x = some (fl, x') := by
  unfold stepClosed at h
  simp only at h
  split at h
  · exact h
  · exact absurd h (by simp)

/-- one more entry of a defined run: the step that produced it, and the rest of the run from the advanced state -/
theorem runClosed_succ_some {s : Spec} {i n : Nat} {x : Stock} {d : Vals} {r : List (Stock × Flow)}
    (h : runClosed s i (n + 1) x d = some r) :
    ∃ fl x' rest, stepClosed s i x d = some (fl, x') ∧ runClosed s (i + 1) n x' (nextD s i x d) = some rest ∧ r = (x, fl) :: rest := by
  simp only [runClosed] at h
  cases hs : stepClosed s i x d with
  | none => rw [hs] at h; exact absurd h (by simp)
  | some p =>
    obtain ⟨fl, x'⟩ := p
    rw [hs] at h
    simp only at h
    cases hr : runClosed s (i + 1) n x' (nextD s i x d) with
    | none => rw [hr] at h; exact absurd h (by simp)
    | some rest =>
      rw [hr] at h
      simp only [Option.some.injEq] at h
      exact ⟨fl, x', rest, rfl, hr, h.symm⟩

theorem runClosed_is_runFrom (s : Spec) : ∀ (n i : Nat) (x : Stock) (d : Vals) (traj : List (Stock × Flow)),
    runClosed s i n x d = some traj → runFrom s.net s.dt (closedPvs s i d traj) x = some traj := by
  intro n
  induction n with
  | zero =>
    intro i x d traj h
    simp only [runClosed, Option.some.injEq] at h
    subst h
    simp [closedPvs, runFrom]
  | succ n ih =>
    intro i x d traj h
    obtain ⟨fl, x', rest, hs, hr, rfl⟩ := runClosed_succ_some h
    simp only [closedPvs, runFrom, stepClosed_eq hs, ih (i + 1) x' _ rest hr]

/-- **simulate_is_process** (the task's `simulate_is_runFrom`): a closed-loop run is `Engine.process` (initial flush, then
    `runFrom`) applied to the parameter values the closed loop computes itself. -/
theorem simulate_is_process (s : Spec) (n : Nat) (traj : List (Stock × Flow)) (h : simulateN s n = some traj) :
    process s.net s.dt (pvOf (evalPars s 0 s.init (initD s))) (closedPvs s 0 (initD s) traj) s.init = some traj := by
  unfold simulateN startClosed at h
  simp only at h
  unfold process
  split at h
  · cases hf : flushAll s.net (pvOf (evalPars s 0 s.init (initD s))) s.init s.net.jorder with
    | none => rw [hf] at h; exact absurd h (by simp)
    | some x0 =>
      rw [hf] at h
      simp only [Option.bind_some] at h ⊢
      exact runClosed_is_runFrom s n 0 x0 (initD s) traj h
  · exact absurd h (by simp)

/-- the post-flush start state and the main loop of a defined closed-loop run -/
theorem simulateN_split {s : Spec} {n : Nat} {traj : List (Stock × Flow)} (h : simulateN s n = some traj) :
    ∃ x0, flushAll s.net (pvOf (evalPars s 0 s.init (initD s))) s.init s.net.jorder = some x0 ∧
      runClosed s 0 n x0 (initD s) = some traj := by
  unfold simulateN startClosed at h
  simp only at h
  split at h
  · cases hf : flushAll s.net (pvOf (evalPars s 0 s.init (initD s))) s.init s.net.jorder with
    | none => rw [hf] at h; exact absurd h (by simp)
    | some x0 =>
      rw [hf] at h
      exact ⟨x0, rfl, by simpa using h⟩
  · exact absurd h (by simp)

/-- **simulate_is_runFrom**: after the start-up flush (state `x0`) the closed-loop trajectory is `Engine.runFrom` applied to the
    parameter-value stream that the closed loop computes itself. -/
theorem simulate_is_runFrom (s : Spec) (n : Nat) (traj : List (Stock × Flow)) (h : simulateN s n = some traj) :
    ∃ x0, flushAll s.net (pvOf (evalPars s 0 s.init (initD s))) s.init s.net.jorder = some x0 ∧
      runFrom s.net s.dt (closedPvs s 0 (initD s) traj) x0 = some traj := by
  obtain ⟨x0, hf, hr⟩ := simulateN_split h
  exact ⟨x0, hf, runClosed_is_runFrom s n 0 x0 (initD s) traj hr⟩

/-- a closed-loop run is a function of the specification: same specification and horizon, same trajectory -/
theorem simulate_deterministic (s : Spec) (n : Nat) (t1 t2 : List (Stock × Flow))
    (h1 : simulateN s n = some t1) (h2 : simulateN s n = some t2) : t1 = t2 := by
  rw [h1] at h2; exact Option.some.inj h2

/-! ## 2. limits: every value lies within the parameter's limits -/

/-- `v` respects the limits of `ps`: never above the upper limit; not below the lower one (when the limits are consistent) -/
def Within (ps : ParSpec) (v : Rat) : Prop :=
  (∀ hi, ps.hi = some hi → v ≤ hi) ∧ (∀ lo, ps.lo = some lo → (∀ hi, ps.hi = some hi → lo ≤ hi) → lo ≤ v)

theorem clipLim_within (ps : ParSpec) (v : Rat) : Within ps (clipLim ps.lo ps.hi v) := by
  unfold Within
  cases hlo : ps.lo with
  | none =>
    cases hhi : ps.hi with
    | none => exact ⟨(by intro hi h; cases h), (by intro lo h; cases h)⟩
    | some hi0 =>
      refine ⟨?_, (by intro lo h; cases h)⟩
      intro hi h; cases h
      simp only [clipLim, clipHi]
      split_ifs <;> linarith
  | some lo0 =>
    cases hhi : ps.hi with
    | none =>
      refine ⟨(by intro hi h; cases h), ?_⟩
      intro lo h _; cases h
      simp only [clipLim, clipLo]
      split_ifs <;> linarith
    | some hi0 =>
      refine ⟨?_, ?_⟩
      · intro hi h; cases h
        simp only [clipLim, clipHi, clipLo]
        split_ifs <;> linarith
      · intro lo h hcons; cases h
        have hle := hcons hi0 rfl
        simp only [clipLim, clipHi, clipLo]
        split_ifs <;> linarith

/-- `constrain` twice is `constrain` once (also for inconsistent limits `lo > hi`, where every value ends at `hi`) -/
theorem clipLim_idem (lo hi : Option Rat) (v : Rat) : clipLim lo hi (clipLim lo hi v) = clipLim lo hi v := by
  cases lo <;> cases hi <;> simp only [clipLim, clipLo, clipHi] <;> split_ifs <;> first | rfl | linarith

/-- the databook value is already clipped: `constrain(ti)` inside a skip window leaves it alone -/
theorem baseVal_clip (ps : ParSpec) (t : Rat) : (baseVal ps t).map (clipLim ps.lo ps.hi) = baseVal ps t := by
  unfold baseVal
  split
  · rfl
  · split
    · simp only [Option.map_some, clipLim_idem]
    · rfl

theorem baseVal_within (ps : ParSpec) (t : Rat) {v : Rat} (h : baseVal ps t = some v) : Within ps v := by
  unfold baseVal at h
  split at h
  · exact absurd h (by simp)
  · split at h
    · simp only [Option.some.injEq] at h
      subst h
      exact clipLim_within ps _
    · exact absurd h (by simp)

theorem parVal_within (s : Spec) (t : Rat) (x : Stock) (cv pv : Vals) (p : Nat)
    (hpv : ∀ v, pv p = some v → Within (s.pars p) v) {v : Rat} (h : parVal s t x cv pv p = some v) :
    Within (s.pars p) v := by
  unfold parVal at h
  simp only at h
  split at h
  · exact hpv v h
  · split at h
    · exact hpv v h
    · split at h
      · exact baseVal_within _ _ h
      · rw [Option.map_eq_some_iff] at h
        obtain ⟨w, _, rfl⟩ := h
        exact clipLim_within _ _

theorem foldl_within (s : Spec) (t : Rat) (x : Stock) (cv : Vals) : ∀ (l : List Nat) (pv : Vals),
    (∀ p v, pv p = some v → Within (s.pars p) v) →
    ∀ p v, (l.foldl (parStep s t x cv) pv) p = some v → Within (s.pars p) v := by
  intro l
  induction l with
  | nil => intro pv h; simpa using h
  | cons a rest ih =>
    intro pv h
    simp only [List.foldl_cons]
    apply ih
    intro p v hv
    unfold parStep setAt at hv
    split at hv
    · rename_i hpa
      subst hpa
      exact parVal_within s t x cv pv p (h p) hv
    · exact h p v hv

/-- the values of the derivative parameters lie within their limits (part of the loop invariant: true at index 0, `initD_within`,
    and preserved by every step, `nextD_within`) -/
def DWithin (s : Spec) (d : Vals) : Prop := ∀ p v, (s.pars p).deriv = true → d p = some v → Within (s.pars p) v

theorem basePars_within (s : Spec) (t : Rat) (d : Vals) (hd : DWithin s d) (p : Nat) (v : Rat) (h : basePars s t d p = some v) :
    Within (s.pars p) v := by
  unfold basePars at h
  split at h
  · rename_i hder; exact hd p v hder h
  · exact baseVal_within _ _ h

/-- **evalPars_clipped**: every parameter value of every index, on every state, lies within the parameter's limits
    (data, function, aggregation and derivative parameters alike; in particular every value `Engine.step` is given).
    `hd`: the derivative values the index was entered with are within limits — an invariant of the loop. -/
theorem evalPars_clipped (s : Spec) (i : Nat) (x : Stock) (d : Vals) (hd : DWithin s d) (p : Nat) {v : Rat}
    (h : evalPars s i x d p = some v) : Within (s.pars p) v := by
  unfold evalPars at h
  exact foldl_within s _ x _ s.porder _ (basePars_within s _ d hd) p v h

theorem initD_within (s : Spec) : DWithin s (initD s) := by
  intro p v hder h
  unfold initD at h
  simp only [hder, if_true] at h
  exact baseVal_within _ _ h

theorem advVal_within (s : Spec) (t : Rat) (x : Stock) (cv pv : Vals) (p : Nat) {v : Rat} (h : advVal s t x cv pv p = some v) :
    Within (s.pars p) v := by
  unfold advVal at h
  simp only at h
  split at h
  · simp only [Option.some.injEq] at h
    subst h
    exact clipLim_within _ _
  · exact absurd h (by simp)

theorem foldlD_within (s : Spec) (t : Rat) (x : Stock) (cv : Vals) : ∀ (l : List Nat) (st : Vals × Vals), DWithin s st.2 →
    DWithin s (l.foldl (advStep s t x cv) st).2 := by
  intro l
  induction l with
  | nil => intro st h; exact h
  | cons a rest ih =>
    intro st h
    simp only [List.foldl_cons]
    apply ih
    unfold advStep
    simp only
    split
    · intro p v hder hv
      unfold setAt at hv
      split at hv
      · rename_i hpa; subst hpa; exact advVal_within s t x cv st.1 p hv
      · exact h p v hder hv
    · exact h

/-- the Euler step keeps the derivative values within their limits (`constrain(ti + 1)`) -/
theorem nextD_within (s : Spec) (i : Nat) (x : Stock) (d : Vals) (hd : DWithin s d) : DWithin s (nextD s i x d) := by
  unfold nextD evalParsD
  exact foldlD_within s _ x _ s.porder _ hd

/-- the value `Engine.step` reads for parameter `p`, when `p` has a lower limit `lo ≥ 0` consistent with its upper limit -/
theorem pvOf_nonneg (s : Spec) (i : Nat) (x : Stock) (d : Vals) (hd : DWithin s d) (p : Nat) {lo : Rat} (hlo : (s.pars p).lo = some lo)
    (h0 : 0 ≤ lo) (hcons : ∀ hi, (s.pars p).hi = some hi → lo ≤ hi) : 0 ≤ pvOf (evalPars s i x d) p := by
  unfold pvOf
  cases hv : evalPars s i x d p with
  | none => simp
  | some v =>
    simp only [Option.getD_some]
    exact le_trans h0 ((evalPars_clipped s i x d hd p hv).2 lo hlo hcons)

theorem allBelow_spec {n : Nat} {f : Nat → Bool} (h : allBelow n f = true) {i : Nat} (hi : i < n) : f i = true := by
  unfold allBelow at h
  exact List.all_eq_true.mp h i (List.mem_range.mpr hi)

/-- **closedPvs_propsNonneg**: with clipped proportion parameters the closed loop never feeds a negative junction proportion
    to the engine, on any state and at any index (the hypothesis `PropsNonneg` of the C01/C02 theorems is established, not assumed) -/
theorem evalPars_propsNonneg (s : Spec) (hc : propsClipped s = true) (i : Nat) (x : Stock) (d : Vals) (hd : DWithin s d) :
    C02.PropsNonneg s.net (pvOf (evalPars s i x d)) := by
  intro l hl hj
  have h := allBelow_spec hc hl
  simp only [hj, Bool.not_true, Bool.false_or] at h
  unfold pOf
  cases hp : s.net.par l with
  | none => simp
  | some p =>
    rw [hp] at h
    simp only at h ⊢
    cases hlo : (s.pars p).lo with
    | none => rw [hlo] at h; simp at h
    | some lo =>
      cases hhi : (s.pars p).hi with
      | none =>
        rw [hlo, hhi] at h
        simp only [decide_eq_true_eq] at h
        exact pvOf_nonneg s i x d hd p hlo h (by intro hi hh; rw [hhi] at hh; exact absurd hh (by simp))
      | some hi =>
        rw [hlo, hhi] at h
        simp only [Bool.and_eq_true, decide_eq_true_eq] at h
        exact pvOf_nonneg s i x d hd p hlo h.1 (by intro hi' hh; rw [hhi] at hh; cases hh; exact h.2)

theorem closedPvs_propsNonneg (s : Spec) (hc : propsClipped s = true) : ∀ (traj : List (Stock × Flow)) (i : Nat) (d : Vals),
    DWithin s d → ∀ pv, pv ∈ closedPvs s i d traj → C02.PropsNonneg s.net pv := by
  intro traj
  induction traj with
  | nil => intro i d _ pv h; simp [closedPvs] at h
  | cons e rest ih =>
    intro i d hd pv h
    obtain ⟨x, fl⟩ := e
    simp only [closedPvs, List.mem_cons] at h
    rcases h with rfl | h
    · exact evalPars_propsNonneg s hc i x d hd
    · exact ih (i + 1) _ (nextD_within s i x d hd) pv h

/-! ## 3. the L1 theorems transfer to closed-loop runs -/

/-- **closed_total** (C01 along every closed-loop run): after any number of indices the number of people equals the number after
    the initial flush plus all recorded source outflow. -/
theorem closed_total (s : Spec) (hwf : wfCheck s.net = true) (hgr : wfGroupRows s.net = true) (hres : resCheck s.net = true)
    (hdt : 0 ≤ s.dt) (hc : propsClipped s = true) {n : Nat} {x0 : Stock} {d : Vals} {traj : List (Stock × Flow)}
    (hx : C02.StockNonneg s.net x0) (hd : DWithin s d) (hr : runClosed s 0 n x0 d = some traj) :
    C01.grandTotal s.net (C01.lastStock s.net x0 traj) = C01.grandTotal s.net x0 + C01.trajSourceOut s.net traj :=
  C01.run_total hwf hgr hres hdt (closedPvs s 0 d traj) (closedPvs_propsNonneg s hc traj 0 d hd) hx
    (runClosed_is_runFrom s n 0 x0 d traj hr)

/-- one more closed-loop step from any reachable non-negative state: flows ≥ 0 and the next state ≥ 0 -/
theorem stepClosed_nonneg (s : Spec) (hwf : wfCheck s.net = true) (hdt : 0 ≤ s.dt) (hc : propsClipped s = true)
    {i : Nat} {x x' : Stock} {d : Vals} {fl : Flow} (hx : C02.StockNonneg s.net x) (hd : DWithin s d)
    (h : stepClosed s i x d = some (fl, x')) : C02.FlowNonneg s.net fl ∧ C02.StockNonneg s.net x' :=
  C02.step_nonneg hwf hdt (evalPars_propsNonneg s hc i x d hd) hx (stepClosed_eq h)

/-- **closed_nonneg** (C02 along every closed-loop run): every stock and every flow of every index is non-negative -/
theorem closed_nonneg (s : Spec) (hwf : wfCheck s.net = true) (hdt : 0 ≤ s.dt) (hc : propsClipped s = true) :
    ∀ (n i : Nat) (x0 : Stock) (d : Vals) (traj : List (Stock × Flow)), C02.StockNonneg s.net x0 → DWithin s d →
    runClosed s i n x0 d = some traj → ∀ e, e ∈ traj → C02.StockNonneg s.net e.1 ∧ C02.FlowNonneg s.net e.2 := by
  intro n
  induction n with
  | zero =>
    intro i x0 d traj _ _ h e he
    simp only [runClosed, Option.some.injEq] at h
    subst h
    simp at he
  | succ n ih =>
    intro i x0 d traj hx hd h e he
    obtain ⟨fl, x', rest, hs, hr, rfl⟩ := runClosed_succ_some h
    have hstep := stepClosed_nonneg s hwf hdt hc hx hd hs
    simp only [List.mem_cons] at he
    rcases he with rfl | he
    · exact ⟨hx, hstep.1⟩
    · exact ih (i + 1) x' _ rest hstep.2 (nextD_within s i x0 d hd) hr e he

/-- **closed_jempty** (C04/C10): in a closed-loop run from the specification every junction is empty at every index -/
theorem closed_jempty (s : Spec) (hwf : wfCheck s.net = true) {n : Nat} {traj : List (Stock × Flow)}
    (h : simulateN s n = some traj) : C10.AllJEmpty s.net traj :=
  C10.process_all_jempty hwf (simulate_is_process s n traj h)

/-! ## 4. the parameter values of one index are a fixed point of the parameter rules -/

theorem parVal_data {s : Spec} {t : Rat} {x : Stock} {cv pv : Vals} {p : Nat} (h : isData (s.pars p) = true) :
    parVal s t x cv pv p = pv p := by
  unfold parVal
  unfold isData at h
  simp only
  split
  · rfl
  · split
    · rfl
    · rename_i hk
      split at h
      · rename_i hk'; exact absurd hk' (hk)
      · exact absurd h (by simp)

/-- a derivative parameter is not re-evaluated inside an index either -/
theorem parVal_deriv {s : Spec} {t : Rat} {x : Stock} {cv pv : Vals} {p : Nat} (h : (s.pars p).deriv = true) :
    parVal s t x cv pv p = pv p := by
  unfold parVal
  simp only [h, if_true]

theorem parVal_fixed {s : Spec} {t : Rat} {x : Stock} {cv pv : Vals} {p : Nat} (h : isFixed (s.pars p) = true) :
    parVal s t x cv pv p = pv p := by
  unfold isFixed at h
  simp only [Bool.or_eq_true] at h
  rcases h with h | h
  · exact parVal_deriv h
  · exact parVal_data h

theorem isFixed_of_isData {ps : ParSpec} (h : isData ps = true) : isFixed ps = true := by
  unfold isFixed; simp [h]

/-- evaluating the parameters of a list leaves alone every parameter that is not in the list, and every data / derivative parameter -/
theorem foldl_other (s : Spec) (t : Rat) (x : Stock) (cv : Vals) : ∀ (l : List Nat) (pv : Vals) (q : Nat),
    (q ∉ l ∨ isFixed (s.pars q) = true) → (l.foldl (parStep s t x cv) pv) q = pv q := by
  intro l
  induction l with
  | nil => intro pv q _; rfl
  | cons a rest ih =>
    intro pv q hq
    simp only [List.foldl_cons]
    rw [ih (parStep s t x cv pv a) q (by
      rcases hq with hq | hq
      · exact Or.inl (fun hm => hq (List.mem_cons_of_mem _ hm))
      · exact Or.inr hq)]
    unfold parStep setAt
    split
    · rename_i hqa
      subst hqa
      rcases hq with hq | hq
      · exact absurd (List.mem_cons_self) hq
      · exact parVal_fixed hq
    · rfl

theorem mem_parRefsOf {q : Nat} : ∀ {refs : List Ref}, Ref.par q ∈ refs → q ∈ parRefsOf refs := by
  intro refs
  induction refs with
  | nil => intro h; simp at h
  | cons r rest ih =>
    intro h
    simp only [List.mem_cons] at h
    rcases h with h | h
    · subst h; simp [parRefsOf]
    · cases r <;> simp [parRefsOf, ih h]

/-- a reference reads the parameter valuation only at parameter references -/
theorem refVal_congr (net : Net) (x : Stock) (cv pv pv' : Vals) (t dt : Rat) (refs : List Ref)
    (h : ∀ q, q ∈ parRefsOf refs → pv q = pv' q) : ∀ r, r ∈ refs → refVal net x cv pv t dt r = refVal net x cv pv' t dt r := by
  intro r hr
  cases r with
  | par q => exact h q (mem_parRefsOf hr)
  | _ => rfl

theorem sumRefs_congr (f g : Ref → Option Rat) : ∀ (refs : List Ref), (∀ r, r ∈ refs → f r = g r) → sumRefs f refs = sumRefs g refs := by
  intro refs
  induction refs with
  | nil => intro _; rfl
  | cons r rest ih =>
    intro h
    simp only [sumRefs]
    rw [h r (List.mem_cons_self), ih (fun r' hr' => h r' (List.mem_cons_of_mem _ hr'))]

theorem envOf_congr (f g : Ref → Option Rat) : ∀ (deps : List (String × List Ref)),
    (∀ r, r ∈ deps.flatMap (fun d => d.2) → f r = g r) → envOf f deps = envOf g deps := by
  intro deps
  induction deps with
  | nil => intro _; rfl
  | cons d rest ih =>
    intro h
    funext name
    unfold envOf
    obtain ⟨k, refs⟩ := d
    simp only [List.lookup_cons]
    cases hk : (name == k) with
    | true =>
      simp only [Option.map_some]
      rw [sumRefs_congr f g refs (fun r hr => h r (by simp [List.flatMap_cons, hr]))]
    | false =>
      have := ih (fun r hr => h r (by
        simp only [List.flatMap_cons, List.mem_append]
        exact Or.inr hr))
      exact congrFun this name

theorem termWeight_congr (f g : Ref → Option Rat) (t : Rat) (tm : AggTerm) (h : ∀ r, r ∈ termRefs tm → f r = g r) :
    termWeight f t tm = termWeight g t tm := by
  unfold termWeight
  cases hw : tm.wvar with
  | none => rfl
  | some wv =>
    simp only
    rw [h wv (by simp [termRefs, hw])]

theorem aggNum_congr (f g : Ref → Option Rat) (t : Rat) : ∀ (terms : List AggTerm),
    (∀ r, r ∈ terms.flatMap termRefs → f r = g r) → aggNum f t terms = aggNum g t terms := by
  intro terms
  induction terms with
  | nil => intro _; rfl
  | cons tm rest ih =>
    intro h
    have h1 : ∀ r, r ∈ termRefs tm → f r = g r := fun r hr => h r (by simp [List.flatMap_cons, hr])
    have h2 : ∀ r, r ∈ rest.flatMap termRefs → f r = g r := fun r hr => h r (by
      simp only [List.flatMap_cons, List.mem_append]; exact Or.inr hr)
    simp only [aggNum]
    rw [termWeight_congr f g t tm h1, h1 tm.var (by simp [termRefs]), ih h2]

theorem aggDen_congr (f g : Ref → Option Rat) (t : Rat) : ∀ (terms : List AggTerm),
    (∀ r, r ∈ terms.flatMap termRefs → f r = g r) → aggDen f t terms = aggDen g t terms := by
  intro terms
  induction terms with
  | nil => intro _; rfl
  | cons tm rest ih =>
    intro h
    have h1 : ∀ r, r ∈ termRefs tm → f r = g r := fun r hr => h r (by simp [List.flatMap_cons, hr])
    have h2 : ∀ r, r ∈ rest.flatMap termRefs → f r = g r := fun r hr => h r (by
      simp only [List.flatMap_cons, List.mem_append]; exact Or.inr hr)
    simp only [aggDen]
    rw [termWeight_congr f g t tm h1, ih h2]

/-- the raw value of a function / aggregation reads its environment only at the variables listed in `kindRefs` -/
theorem rawVal_congr (f g : Ref → Option Rat) (t : Rat) (k : ParKind) (h : ∀ r, r ∈ kindRefs k → f r = g r) :
    rawVal f t k = rawVal g t k := by
  cases k with
  | data => rfl
  | fn e deps =>
    simp only [rawVal]
    rw [envOf_congr f g deps h]
  | agg avg terms =>
    simp only [rawVal, aggVal]
    rw [aggNum_congr f g t terms h, aggDen_congr f g t terms h]

/-- `parVal` of a function parameter reads the valuation only at the parameters its function mentions -/
theorem parVal_congr (s : Spec) (t : Rat) (x : Stock) (cv pv pv' : Vals) (p : Nat) (hd : isFixed (s.pars p) = false)
    (h : ∀ q, q ∈ parRefsOf (kindRefs (s.pars p).kind) → pv q = pv' q) :
    parVal s t x cv pv p = parVal s t x cv pv' p := by
  unfold parVal
  simp only
  unfold isFixed isData at hd
  simp only [Bool.or_eq_false_iff] at hd
  simp only [hd.1, Bool.false_eq_true, if_false]
  split
  · rename_i hk; rw [hk] at hd; simp at hd
  · rw [rawVal_congr _ _ t _ (refVal_congr s.net x cv pv pv' t s.dt _ h)]

theorem okOrder_done_not_mem (s : Spec) : ∀ (l done : List Nat), okOrder s done l = true → ∀ q, q ∈ done → q ∉ l := by
  intro l
  induction l with
  | nil => intro _ _ q _; simp
  | cons a rest ih =>
    intro done h q hq
    simp only [okOrder, Bool.and_eq_true, Bool.not_eq_true', List.contains_eq_mem, decide_eq_false_iff_not] at h
    obtain ⟨⟨ha, _⟩, hrest⟩ := h
    intro hm
    simp only [List.mem_cons] at hm
    rcases hm with rfl | hm
    · exact ha hq
    · exact ih (a :: done) hrest q (List.mem_cons_of_mem _ hq) hm

/-- after evaluating a list in an order that is topological for the dependency relation, every evaluated parameter equals its
    rule applied to the FINAL valuation -/
theorem foldl_fixpoint (s : Spec) (t : Rat) (x : Stock) (cv : Vals) : ∀ (l done : List Nat) (pv0 : Vals),
    okOrder s done l = true → ∀ p, p ∈ l →
    (l.foldl (parStep s t x cv) pv0) p = parVal s t x cv (l.foldl (parStep s t x cv) pv0) p := by
  intro l
  induction l with
  | nil => intro _ _ _ p hp; simp at hp
  | cons a rest ih =>
    intro done pv0 hok p hp
    have hok' := hok
    simp only [okOrder, Bool.and_eq_true, Bool.not_eq_true', List.contains_eq_mem, decide_eq_false_iff_not,
      List.all_eq_true, Bool.or_eq_true, decide_eq_true_eq] at hok'
    obtain ⟨⟨_, hrefs⟩, hrest⟩ := hok'
    simp only [List.foldl_cons]
    simp only [List.mem_cons] at hp
    have ha_rest : a ∉ rest := okOrder_done_not_mem s rest (a :: done) hrest a (List.mem_cons_self)
    by_cases hpa : p = a
    · subst hpa
      by_cases hd : isFixed (s.pars p) = true
      · rw [parVal_fixed hd]
      · have hd' : isFixed (s.pars p) = false := by simpa using hd
        -- the value assigned at `p` survives the rest of the list …
        rw [foldl_other s t x cv rest _ p (Or.inl ha_rest)]
        have hself : parStep s t x cv pv0 p p = parVal s t x cv pv0 p := by simp [parStep, setAt]
        rw [hself]
        -- … and so do the values it was computed from
        apply parVal_congr s t x cv _ _ p hd'
        intro q hq
        rcases hrefs q hq with hqd | hqdone
        · rw [foldl_other s t x cv rest _ q (Or.inr hqd)]
          unfold parStep setAt
          split
          · rename_i hqp; subst hqp; rw [hd'] at hqd; simp at hqd
          · rfl
        · have hq_not : q ∉ p :: rest := okOrder_done_not_mem s (p :: rest) done hok q hqdone
          rw [foldl_other s t x cv rest _ q (Or.inl (fun hm => hq_not (List.mem_cons_of_mem _ hm)))]
          unfold parStep setAt
          split
          · rename_i hqp; subst hqp; exact absurd (List.mem_cons_self) hq_not
          · rfl
    · rcases hp with hp | hp
      · exact absurd hp hpa
      · exact ih (a :: done) _ hrest p hp

/-- **evalPars_fixpoint**: when the execution order is topological for the dependency relation (`depsBefore`), the value of every
    parameter in the order equals its rule — `clip(scale · f(dependencies))`, resp. the aggregation — applied to the values of
    the SAME index: no parameter reads a stale or not-yet-computed value. -/
theorem evalPars_fixpoint (s : Spec) (hd : depsBefore s = true) (i : Nat) (x : Stock) (d : Vals) (p : Nat) (hp : p ∈ s.porder) :
    evalPars s i x d p = parVal s (Grid.point s.start s.dt i) x (evalCharacs s x) (evalPars s i x d) p := by
  unfold evalPars
  exact foldl_fixpoint s _ x _ s.porder [] _ hd p hp

/-- the same, spelled out for a function parameter (outside its skip window; inside it: `closed_skip_uses_data`) -/
theorem evalPars_fixpoint_fn (s : Spec) (hd : depsBefore s = true) (i : Nat) (x : Stock) (d : Vals) (p : Nat) (hp : p ∈ s.porder)
    {e : Expr.Py} {deps : List (String × List Ref)} (hk : (s.pars p).kind = .fn e deps)
    (hs : skipped (s.pars p) (Grid.point s.start s.dt i) = false) (hnd : (s.pars p).deriv = false) :
    evalPars s i x d p =
      (evalFn e (envOf (refVal s.net x (evalCharacs s x) (evalPars s i x d) (Grid.point s.start s.dt i) s.dt) deps)).map
        (fun v => clipLim (s.pars p).lo (s.pars p).hi ((s.pars p).scale * v)) := by
  rw [evalPars_fixpoint s hd i x d p hp]
  unfold parVal
  simp only [hk, rawVal, hs, hnd, Bool.false_eq_true, if_false]

/-- a data parameter, and one that is not in the order, keeps its databook value `clip(interp(data, t) · scale)`
    (`hnd`: it is not a derivative parameter — those keep the value the previous step gave them, `evalPars_deriv`) -/
theorem evalPars_data (s : Spec) (i : Nat) (x : Stock) (d : Vals) (p : Nat) (hp : p ∉ s.porder ∨ isData (s.pars p) = true)
    (hnd : (s.pars p).deriv = false) : evalPars s i x d p = baseVal (s.pars p) (Grid.point s.start s.dt i) := by
  unfold evalPars
  rw [foldl_other s _ x _ s.porder _ p (hp.imp id isFixed_of_isData)]
  unfold basePars
  simp only [hnd, Bool.false_eq_true, if_false]

/-- at every index, on every state, a derivative parameter has the value the loop state carries for it: nothing inside the index
    changes it (every reader of index `i`, `update_links` included, sees `value[i]`) -/
theorem evalPars_deriv (s : Spec) (i : Nat) (x : Stock) (d : Vals) (p : Nat) (hder : (s.pars p).deriv = true) :
    evalPars s i x d p = d p := by
  unfold evalPars
  rw [foldl_other s _ x _ s.porder _ p (Or.inr (by unfold isFixed; simp [hder]))]
  unfold basePars
  simp only [hder, if_true]

/-! ## 5. "precompute" = evaluate at every index: state-independent parameters -/

/-- `S` is closed under dependencies and mentions no state: every member is a data parameter or a function of `t`, `dt` and
    members of `S` only -/
def StaticSet (s : Spec) (S : List Nat) : Prop :=
  ∀ p, p ∈ S → isData (s.pars p) = true ∨
    ∀ r, r ∈ kindRefs (s.pars p).kind → r = .time ∨ r = .step ∨ ∃ q, r = .par q ∧ q ∈ S

theorem foldl_static (s : Spec) (t : Rat) (x x' : Stock) (cv cv' : Vals) (S : List Nat) (hS : StaticSet s S) :
    ∀ (l : List Nat) (pv pv' : Vals), (∀ q, q ∈ S → pv q = pv' q) →
    ∀ q, q ∈ S → (l.foldl (parStep s t x cv) pv) q = (l.foldl (parStep s t x' cv') pv') q := by
  intro l
  induction l with
  | nil => intro pv pv' h q hq; exact h q hq
  | cons a rest ih =>
    intro pv pv' h q hq
    simp only [List.foldl_cons]
    apply ih _ _ _ q hq
    intro q' hq'
    unfold parStep setAt
    split
    · rename_i hqa
      subst hqa
      rcases hS q' hq' with hd | hrefs
      · rw [parVal_data hd, parVal_data hd]; exact h q' hq'
      · by_cases hd : isData (s.pars q') = true
        · rw [parVal_data hd, parVal_data hd]; exact h q' hq'
        · have hd' : isData (s.pars q') = false := by simpa using hd
          by_cases hder : (s.pars q').deriv = true
          · rw [parVal_deriv hder, parVal_deriv hder]; exact h q' hq'
          · have hder' : (s.pars q').deriv = false := by simpa using hder
            unfold parVal
            simp only [hder', Bool.false_eq_true, if_false]
            unfold isData at hd'
            split
            · rename_i hk; rw [hk] at hd'; simp at hd'
            · rw [rawVal_congr _ (refVal s.net x' cv' pv' t s.dt) t _ (by
                intro r hr
                rcases hrefs r hr with rfl | rfl | ⟨q2, rfl, hq2⟩
                · rfl
                · rfl
                · exact h q2 hq2)]
    · exact h q' hq'

/-- **evalPars_static**: on a dependency-closed set of parameters that mention no compartment, characteristic or flow, the values
    of an index do not depend on the state — computing them once before the run (the code's "precompute") gives the values the
    closed loop computes at every index. -/
theorem evalPars_static (s : Spec) (S : List Nat) (hS : StaticSet s S) (i : Nat) (x x' : Stock) (d d' : Vals)
    (hdd : ∀ q, q ∈ S → (s.pars q).deriv = true → d q = d' q) (q : Nat) (hq : q ∈ S) :
    evalPars s i x d q = evalPars s i x' d' q := by
  unfold evalPars
  apply foldl_static s _ x x' _ _ S hS s.porder _ _ _ q hq
  intro q' hq'
  unfold basePars
  split
  · rename_i hder; exact hdd q' hq' hder
  · rfl

/-! ## 6. a later end index extends the shorter run (C09 end_extension) -/

theorem runClosed_length (s : Spec) : ∀ (n i : Nat) (x : Stock) (d : Vals) (traj : List (Stock × Flow)),
    runClosed s i n x d = some traj → traj.length = n := by
  intro n
  induction n with
  | zero => intro i x d traj h; simp only [runClosed, Option.some.injEq] at h; subst h; rfl
  | succ n ih =>
    intro i x d traj h
    obtain ⟨fl, x', rest, _, hr, rfl⟩ := runClosed_succ_some h
    simp [ih (i + 1) x' _ rest hr]

theorem runClosed_prefix (s : Spec) : ∀ (n m i : Nat) (x : Stock) (d : Vals) (traj : List (Stock × Flow)), m ≤ n →
    runClosed s i n x d = some traj → runClosed s i m x d = some (traj.take m) := by
  intro n
  induction n with
  | zero =>
    intro m i x d traj hm h
    have : m = 0 := by omega
    subst this
    simp only [runClosed, Option.some.injEq] at h ⊢
    subst h; rfl
  | succ n ih =>
    intro m i x d traj hm h
    cases m with
    | zero => simp [runClosed]
    | succ m =>
      obtain ⟨fl, x', rest, hs, hr, rfl⟩ := runClosed_succ_some h
      simp only [runClosed, hs, ih m (i + 1) x' _ rest (by omega) hr, List.take_succ_cons]

/-- **simulateN_prefix** (end_extension): the run to `m ≤ n` points is the first `m` entries of the run to `n` points -/
theorem simulateN_prefix (s : Spec) {n m : Nat} (hm : m ≤ n) {traj : List (Stock × Flow)} (h : simulateN s n = some traj) :
    simulateN s m = some (traj.take m) := by
  obtain ⟨x0, hf, hr⟩ := simulateN_split h
  have : startClosed s = some x0 := by
    unfold simulateN at h
    cases hst : startClosed s with
    | none => rw [hst] at h; exact absurd h (by simp)
    | some y =>
      unfold startClosed at hst
      simp only at hst
      split at hst
      · rw [hf] at hst; exact hst.symm ▸ rfl
      · exact absurd hst (by simp)
  unfold simulateN
  rw [this]
  simp only [Option.bind_some]
  exact runClosed_prefix s n m 0 x0 (initD s) traj hm hr

theorem simulateN_length (s : Spec) {n : Nat} {traj : List (Stock × Flow)} (h : simulateN s n = some traj) : traj.length = n := by
  obtain ⟨x0, _, hr⟩ := simulateN_split h
  exact runClosed_length s n 0 x0 (initD s) traj hr

/-- an undefined shorter run makes every longer run undefined (the driver's `nan` at the first undefined index) -/
theorem simulateN_none_mono (s : Spec) {n m : Nat} (hm : m ≤ n) (h : simulateN s m = none) : simulateN s n = none := by
  cases hn : simulateN s n with
  | none => rfl
  | some traj => rw [simulateN_prefix s hm hn] at h; exact absurd h (by simp)

/-! ## 7. characteristics: the values of one state are a fixed point of `Characteristic.update` -/

theorem mem_characRefsOf {k : Nat} : ∀ {refs : List Ref}, Ref.charac k ∈ refs → k ∈ characRefsOf refs := by
  intro refs
  induction refs with
  | nil => intro h; simp at h
  | cons r rest ih =>
    intro h
    simp only [List.mem_cons] at h
    rcases h with h | h
    · subst h; simp [characRefsOf]
    · cases r <;> simp [characRefsOf, ih h]

theorem charVal_congr (net : Net) (x : Stock) (cv cv' : Vals) (cs : CharSpec)
    (h : ∀ k, k ∈ characRefsOf (charRefs cs) → cv k = cv' k) : charVal net x cv cs = charVal net x cv' cs := by
  have hr : ∀ r, r ∈ charRefs cs → refVal net x cv noVals 0 0 r = refVal net x cv' noVals 0 0 r := by
    intro r hr
    cases r with
    | charac k => exact h k (mem_characRefsOf hr)
    | _ => rfl
  unfold charVal
  simp only
  rw [sumRefs_congr _ _ cs.includes (fun r hr' => hr r (by simp [charRefs, hr']))]
  cases hd : cs.denom with
  | none => rfl
  | some d =>
    simp only
    rw [hr d (by simp [charRefs, hd])]

theorem cfoldl_other (s : Spec) (x : Stock) : ∀ (l : List Nat) (cv : Vals) (k : Nat), k ∉ l →
    (l.foldl (charStep s x) cv) k = cv k := by
  intro l
  induction l with
  | nil => intro cv k _; rfl
  | cons a rest ih =>
    intro cv k hk
    simp only [List.foldl_cons]
    rw [ih _ k (fun hm => hk (List.mem_cons_of_mem _ hm))]
    unfold charStep setAt
    split
    · rename_i hka; subst hka; exact absurd (List.mem_cons_self) hk
    · rfl

theorem okCOrder_done_not_mem (s : Spec) : ∀ (l done : List Nat), okCOrder s done l = true → ∀ q, q ∈ done → q ∉ l := by
  intro l
  induction l with
  | nil => intro _ _ q _; simp
  | cons a rest ih =>
    intro done h q hq
    simp only [okCOrder, Bool.and_eq_true, Bool.not_eq_true', List.contains_eq_mem, decide_eq_false_iff_not] at h
    obtain ⟨⟨ha, _⟩, hrest⟩ := h
    intro hm
    simp only [List.mem_cons] at hm
    rcases hm with rfl | hm
    · exact ha hq
    · exact ih (a :: done) hrest q (List.mem_cons_of_mem _ hq) hm

theorem cfoldl_fixpoint (s : Spec) (x : Stock) : ∀ (l done : List Nat) (cv0 : Vals), okCOrder s done l = true → ∀ k, k ∈ l →
    (l.foldl (charStep s x) cv0) k = charVal s.net x (l.foldl (charStep s x) cv0) (s.characs k) := by
  intro l
  induction l with
  | nil => intro _ _ _ k hk; simp at hk
  | cons a rest ih =>
    intro done cv0 hok k hk
    have hok' := hok
    simp only [okCOrder, Bool.and_eq_true, Bool.not_eq_true', List.contains_eq_mem, decide_eq_false_iff_not,
      List.all_eq_true, decide_eq_true_eq] at hok'
    obtain ⟨⟨_, hrefs⟩, hrest⟩ := hok'
    simp only [List.foldl_cons]
    simp only [List.mem_cons] at hk
    have ha_rest : a ∉ rest := okCOrder_done_not_mem s rest (a :: done) hrest a (List.mem_cons_self)
    by_cases hka : k = a
    · subst hka
      rw [cfoldl_other s x rest _ k ha_rest]
      have hself : charStep s x cv0 k k = charVal s.net x cv0 (s.characs k) := by simp [charStep, setAt]
      rw [hself]
      apply charVal_congr
      intro j hj
      have hjdone := hrefs j hj
      have hj_not : j ∉ k :: rest := okCOrder_done_not_mem s (k :: rest) done hok j hjdone
      rw [cfoldl_other s x rest _ j (fun hm => hj_not (List.mem_cons_of_mem _ hm))]
      unfold charStep setAt
      split
      · rename_i hjk; subst hjk; exact absurd (List.mem_cons_self) hj_not
      · rfl
    · rcases hk with hk | hk
      · exact absurd hk hka
      · exact ih (a :: done) _ hrest k hk

/-- **evalCharacs_fixpoint**: with a topological order every characteristic equals `Characteristic.update` applied to the
    characteristic values of the same state (included characteristics and denominators are up to date) -/
theorem evalCharacs_fixpoint (s : Spec) (hc : okCOrder s [] s.corder = true) (x : Stock) (k : Nat) (hk : k ∈ s.corder) :
    evalCharacs s x k = charVal s.net x (evalCharacs s x) (s.characs k) := by
  unfold evalCharacs
  exact cfoldl_fixpoint s x s.corder [] _ hc k hk

/-! ## 8. non-vacuity: a concrete specification (two compartments, a junction, a sink; a function of a compartment, a ratio
    characteristic, a parameter and time; clipped proportions) on which every hypothesis holds and the run is defined -/

def exNet : Net where
  nC := 4
  nL := 4
  nP := 5
  kind := fun c => match c with | 2 => .junction | 3 => .sink | _ => .normal
  nrows := fun _ => 1
  src := fun l => match l with | 0 => 0 | 1 => 1 | _ => 2
  dst := fun l => match l with | 0 => 1 | 1 => 2 | 2 => 0 | _ => 3
  par := fun l => some l
  tlink := fun _ => false
  lrows := fun _ => 1
  isFlush := fun _ => false
  jgroup := fun _ => false
  units := fun p => match p with | 2 => .prop | 3 => .prop | _ => .frac
  tscale := fun _ => 1
  jorder := [2]

def cst (r : Rat) : Series.TS := { raw := [], assumption := some r }

/-- `0.1*a*c0/(frac+1)` as Python parses it -/
def exTree : Expr.Py :=
  .node (.binOp .div)
    [ .node (.binOp .mult) [ .node (.binOp .mult) [ .node (.constant (.float (some (1/10)))) [], .node (.name "a") [] ], .node (.name "c0") [] ],
      .node (.binOp .add) [ .node (.name "frac") [], .node (.constant (.int 1)) [] ] ]

/-- `t - 1999` -/
def exAux : Expr.Py := .node (.binOp .sub) [ .node (.name "t") [], .node (.constant (.int 1999)) [] ]

def exPars : Nat → ParSpec := fun p => match p with
  | 0 => { data := none, scale := 1, lo := some 0, hi := some 2, kind := .fn exTree [("a", [.par 4]), ("c0", [.comp 0]), ("frac", [.charac 1])] }
  | 1 => { data := some { raw := [(some 2000, some (1/5)), (some 2001, some (2/5))], assumption := none }, scale := 3/2, lo := none, hi := some (1/2), kind := .data }
  | 2 => { data := some (cst (1/4)), scale := 1, lo := some 0, hi := some 1, kind := .data }
  | 3 => { data := some (cst (3/4)), scale := 1, lo := some 0, hi := some 1, kind := .data }
  | _ => { data := none, scale := 1/100, lo := none, hi := none, kind := .fn exAux [("t", [.time])] }

def exSpec : Spec where
  net := exNet
  nK := 2
  characs := fun k => match k with
    | 0 => { includes := [.comp 0, .comp 1], denom := none }
    | _ => { includes := [.comp 0], denom := some (.charac 0) }
  corder := [0, 1]
  pars := exPars
  porder := [4, 0]
  start := 2000
  dt := 1/2
  npts := 2
  init := fun c r => if r = 0 then (match c with | 0 => 100 | 1 => 50 | 2 => 10 | _ => 0) else 0

/-- the same with the execution order reversed (the function is evaluated before the parameter it reads) -/
def exBad : Spec := { exSpec with porder := [0, 4] }

example : wfSpec exSpec = true := by decide +kernel
example : propsClipped exSpec = true ∧ depsBefore exSpec = true ∧ okCOrder exSpec [] exSpec.corder = true := by decide +kernel
/-- parameter values of index 0 on the initial stocks: the function parameter (1/10 · 1/100 · 100 / (2/3 + 1) = 3/50), the
    interpolated, scaled data parameter (1/5 · 3/2 = 3/10), the proportions, and the time parameter ((2000 - 1999)/100) -/
example : (List.range 5).map (evalPars exSpec 0 exSpec.init (initD exSpec)) = [some (3/50), some (3/10), some (1/4), some (3/4), some (1/100)] := by
  decide +kernel
/-- at index 1 (t = 2000.5) the data parameter is interpolated and then clipped to its upper limit: min(0.3 · 1.5, 0.5) = 9/20 -/
example : evalPars exSpec 1 exSpec.init (initD exSpec) 1 = some (9/20) := by decide +kernel
example : (simulateN exSpec 1).isSome = true := by decide +kernel
/-- the junction content (10 people) is flushed 1:3 before the first step, so 102.5 people start in compartment 0 -/
example : (simulateN exSpec 1).map (fun tr => tr.map (fun e => e.1 0 0)) = some [205/2] := by decide +kernel
/-- with the non-topological order `depsBefore` fails and the conclusion of `evalPars_fixpoint` is false: the function
    parameter was computed from a value of `a` that does not exist yet -/
example : depsBefore exBad = false ∧
    evalPars exBad 0 exBad.init (initD exBad) 0 ≠
      parVal exBad (Grid.point exBad.start exBad.dt 0) exBad.init (evalCharacs exBad exBad.init) (evalPars exBad 0 exBad.init (initD exBad)) 0 := by
  decide +kernel
example : StaticSet exSpec [4, 1, 2, 3] := by
  intro p hp
  simp only [List.mem_cons, List.not_mem_nil, or_false] at hp
  rcases hp with rfl | rfl | rfl | rfl
  · right; intro r hr; simp [exSpec, exPars, kindRefs] at hr; subst hr; left; rfl
  · left; rfl
  · left; rfl
  · left; rfl

end Atomica.C03
