/-
  C01, composition.  The per-compartment balance and the grand-total theorem of `C01.lean` are stated for any flow with the
  facts packaged in `GoodFlow` + `Passthrough`.  Here those facts are *discharged* for the flows the engine model itself computes
  (`C02.flows_facts`: non-negativity, no over-draw, row 0 emptied, time-preserving links silent in row 0;
   `C04.balance_chain`: every junction passes on exactly what it receives, chains/fans/diamonds of any depth), giving

    * `step_balance_model`, `step_total` — one step of `Engine.step`, any well-formed net, any parameter values,
    * `run_total`                        — every reachable state of `Engine.runFrom`, by induction over the number of steps,
    * `process_total`                    — including the start-up junction flush.

  Hypotheses: `wfCheck`/`wfGroupRows`/`resCheck` (decidable; evaluated by the driver on every extracted net), a non-negative
  step, non-negative stocks, non-negative junction proportions.  The property's own domain restriction (a plain junction that
  receives people has a positive proportion sum) is what makes `step … = some _` (otherwise the model step is undefined = NaN).
-/
import AtomicaProofs.Properties.C01
import AtomicaProofs.Properties.C02
import AtomicaProofs.Properties.C04

namespace Atomica.C01
open Atomica Atomica.Engine

variable {net : Net}

/-- row-wise pass-through (what `balanceAll` establishes) gives pass-through of recorded values -/
theorem passthrough_of_rowwise (hwf : wfCheck net = true) (fl : Flow) (hrows : C04.RowsOk net fl)
    (h : ∀ j, j < net.nC → isJunction net j = true → ∀ r, outRow net fl j r = jInflow net fl j r) :
    Passthrough net fl := by
  intro j hj hjn
  -- a common bound on the number of rows
  let M := 1 + ∑ l ∈ Finset.range net.nL, net.lrows l
  have hM : ∀ l, l < net.nL → net.lrows l ≤ M := by
    intro l hl
    have := Finset.single_le_sum (f := net.lrows) (s := Finset.range net.nL) (fun _ _ => Nat.zero_le _) (Finset.mem_range.mpr hl)
    omega
  have hrec : ∀ l, l < net.nL → recorded net fl l = sumTo M (fl l) := by
    intro l hl
    unfold recorded
    exact (sumTo_of_le (hM l hl) (fl l) (fun r hr _ => hrows l hl r hr)).symm
  have hout : outTot net fl j = sumTo M (fun r => outRow net fl j r) := by
    unfold outTot outRow
    rw [sumTo_comm]
    apply sumTo_congr; intro l hl
    by_cases hs : net.src l = j
    · simp only [hs, if_true]; exact hrec l hl
    · simp only [hs, if_false]; exact (sumTo_zero (fun _ _ => rfl)).symm
  have hin : inAll net fl j = sumTo M (fun r => jInflow net fl j r) := by
    unfold inAll jInflow
    by_cases hg : net.jgroup j = true
    · simp only [hg, if_true]
      rw [sumTo_comm]
      apply sumTo_congr; intro l hl
      by_cases hs : net.dst l = j
      · simp only [hs, if_true]; exact hrec l hl
      · simp only [hs, if_false]; exact (sumTo_zero (fun _ _ => rfl)).symm
    · simp only [hg]
      have : ∀ r, (if r = 0 then sumTo net.nL (fun l => if net.dst l = j then recorded net fl l else 0) else 0)
          = (if r = 0 then sumTo net.nL (fun l => if net.dst l = j then recorded net fl l else 0) else (0 : Rat)) := fun _ => rfl
      symm
      have hM0 : 0 < M := by omega
      simpa using sumTo_single (n := M) 0 hM0 (sumTo net.nL (fun l => if net.dst l = j then recorded net fl l else 0))
  rw [hout, hin]
  exact sumTo_congr (fun r _ => h j hj hjn r)

/-- the flows of a model step satisfy every fact the conservation theorems need -/
theorem step_good (hwf : wfCheck net = true) (hgr : wfGroupRows net = true) (hres : resCheck net = true)
    {dt : Rat} (hdt : 0 ≤ dt) {pv : Nat → Rat} (hp : C02.PropsNonneg net pv) {x : Stock} (hx : C02.StockNonneg net x)
    {fl : Flow} {x' : Stock} (hs : step net dt pv x = some (fl, x')) :
    GoodFlow net x fl ∧ Passthrough net fl ∧ x' = updateComps net x fl := by
  have hf : flows net dt pv x = some fl := by
    unfold step at hs
    cases hfl : flows net dt pv x with
    | none => rw [hfl] at hs; exact absurd hs (by simp)
    | some fl0 =>
      rw [hfl] at hs
      simp only [Option.map_some, Option.some.injEq, Prod.mk.injEq] at hs
      rw [hs.1]
  obtain ⟨h1, h2, h3, h4⟩ := C02.flows_facts hwf hdt hp hx hf
  refine ⟨⟨h1, h2, h3, h4⟩, ?_, (C04.step_eq hs).2⟩
  exact passthrough_of_rowwise hwf fl (C04.step_rowsOk hwf hgr hs) (C04.balance_chain hwf hgr hres hs)

/-- **C01 for one model step, per compartment**: every ordinary, timed or sink compartment changes by exactly its recorded
    outflow and inflow, for every well-formed net and all parameter values. -/
theorem step_balance_model (hwf : wfCheck net = true) (hgr : wfGroupRows net = true) (hres : resCheck net = true)
    {dt : Rat} (hdt : 0 ≤ dt) {pv : Nat → Rat} (hp : C02.PropsNonneg net pv) {x : Stock} (hx : C02.StockNonneg net x)
    {fl : Flow} {x' : Stock} (hs : step net dt pv x = some (fl, x'))
    (c : Nat) (hc : c < net.nC) (hk : net.kind c = .normal ∨ net.kind c = .timed ∨ net.kind c = .sink) :
    stockTotal net x' c = stockTotal net x c - outTot net fl c + inAll net fl c := by
  obtain ⟨g, _, rfl⟩ := step_good hwf hgr hres hdt hp hx hs
  exact step_balance hwf x fl g c hc hk

/-- **C01 for one model step, junctions**: a junction passes on exactly what it receives -/
theorem step_junction_passthrough (hwf : wfCheck net = true) (hgr : wfGroupRows net = true) (hres : resCheck net = true)
    {dt : Rat} (hdt : 0 ≤ dt) {pv : Nat → Rat} (hp : C02.PropsNonneg net pv) {x : Stock} (hx : C02.StockNonneg net x)
    {fl : Flow} {x' : Stock} (hs : step net dt pv x = some (fl, x'))
    (j : Nat) (hj : j < net.nC) (hjn : isJunction net j = true) : outTot net fl j = inAll net fl j :=
  (step_good hwf hgr hres hdt hp hx hs).2.1 j hj hjn

/-- **C01 for one model step, total**: people are neither created nor lost; the total over all non-source compartments changes
    only by the recorded outflow of source compartments. -/
theorem step_total (hwf : wfCheck net = true) (hgr : wfGroupRows net = true) (hres : resCheck net = true)
    {dt : Rat} (hdt : 0 ≤ dt) {pv : Nat → Rat} (hp : C02.PropsNonneg net pv) {x : Stock} (hx : C02.StockNonneg net x)
    {fl : Flow} {x' : Stock} (hs : step net dt pv x = some (fl, x')) :
    grandTotal net x' = grandTotal net x + sourceOut net fl := by
  obtain ⟨g, hpass, rfl⟩ := step_good hwf hgr hres hdt hp hx hs
  exact update_total hwf x fl g hpass

/-- sum of the recorded source outflow over a trajectory -/
def trajSourceOut (net : Net) : List (Stock × Flow) → Rat
  | [] => 0
  | (_, fl) :: rest => sourceOut net fl + trajSourceOut net rest

/-- the stock after the last entry of a trajectory produced by `runFrom` -/
def lastStock (net : Net) (x : Stock) : List (Stock × Flow) → Stock
  | [] => x
  | (x, fl) :: rest => lastStock net (updateComps net x fl) rest

/-- **C01 along every run**: after any number of steps the total equals the initial total plus all recorded source outflow
    (induction over the list of per-step parameter values: "at every time step"). -/
theorem run_total (hwf : wfCheck net = true) (hgr : wfGroupRows net = true) (hres : resCheck net = true)
    {dt : Rat} (hdt : 0 ≤ dt) (pvs : List (Nat → Rat)) (hp : ∀ pv, pv ∈ pvs → C02.PropsNonneg net pv)
    {x : Stock} (hx : C02.StockNonneg net x) {traj : List (Stock × Flow)} (hr : runFrom net dt pvs x = some traj) :
    grandTotal net (lastStock net x traj) = grandTotal net x + trajSourceOut net traj := by
  induction pvs generalizing x traj with
  | nil =>
    simp only [runFrom, Option.some.injEq] at hr
    subst hr
    simp [lastStock, trajSourceOut]
  | cons pv pvs ih =>
    simp only [runFrom] at hr
    cases hs : step net dt pv x with
    | none => rw [hs] at hr; exact absurd hr (by simp)
    | some p =>
      obtain ⟨fl, x'⟩ := p
      rw [hs] at hr
      simp only at hr
      cases hrest : runFrom net dt pvs x' with
      | none => rw [hrest] at hr; exact absurd hr (by simp)
      | some rest =>
        rw [hrest] at hr
        simp only [Option.some.injEq] at hr
        subst hr
        have hpv := hp pv (List.mem_cons_self)
        have hx' : C02.StockNonneg net x' := (C02.step_nonneg hwf hdt hpv hx hs).2
        have hstep := step_total hwf hgr hres hdt hpv hx hs
        have hupd : x' = updateComps net x fl := (C04.step_eq hs).2
        have := ih (fun pv' h' => hp pv' (List.mem_cons_of_mem _ h')) hx' hrest
        simp only [lastStock, trajSourceOut]
        rw [← hupd, this, hstep]; ring

/-! ### non-vacuity: on the concrete net of C02 (ordinary compartment, two-row timed compartment, junction, sink, source; rescale
    branch active) all hypotheses hold, the step is defined, and the totals are as the theorem says: 110 people, 7 born -/

example : wfCheck C02.exNet = true ∧ wfGroupRows C02.exNet = true ∧ resCheck C02.exNet = true := by decide +kernel

example : ∃ fl x', step C02.exNet 1 C02.exPv C02.exX = some (fl, x') ∧
    grandTotal C02.exNet x' = grandTotal C02.exNet C02.exX + sourceOut C02.exNet fl := by
  cases hs : step C02.exNet 1 C02.exPv C02.exX with
  | none => exact absurd hs (C02.step_defined 1 C02.exPv_wellPosed C02.exX)
  | some s =>
    obtain ⟨fl, x'⟩ := s
    exact ⟨fl, x', rfl, step_total C02.exNet_wf (by decide +kernel) (by decide +kernel) (by decide +kernel) C02.exPv_props C02.exX_nonneg hs⟩

example : grandTotal C02.exNet C02.exX = 110 := by decide +kernel
example : (step C02.exNet 1 C02.exPv C02.exX).map (fun p => (grandTotal C02.exNet p.2, sourceOut C02.exNet p.1)) = some (117, 7) := by
  decide +kernel

end Atomica.C01
