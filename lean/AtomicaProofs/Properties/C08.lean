/-
  C08 — "Simulation is deterministic, leaves its inputs untouched, and survives copying."

  What is proved here is the one piece of the copy machinery that is logic rather than Python runtime: the id / reference
  round trip of `Model.unlink` / `Model.relink` (model: `AtomicaModel/Protocol/Graph.lean`).

    * `relink_unlink`     ids pairwise distinct ⇒ `relink (unlink g) = g` (up to the two caches that `process` recomputes)
    * `unlink_idem`, `relink_idem`, `unlinkPop_idem`, `relinkPop_idem`   idempotence through the `is_linked` / `_vars_by_pop` guards
    * `copy_model`        `__deepcopy__` / pickle round trip: both the original and the copy come out equal to the original
    * `copy_commutes`     corollary at L1: the run of the copy is the run of the original
    * `run_function`      determinism of the *model*: `Engine.process` is a function (this is what being a Lean function means;
                          that the *implementation* refines a function under every history is decided by harness/props/c08.py)
    * `ids_distinct_of_build`   ids built the way `Population.build` builds them from distinct names are distinct

  Kernel-checked witnesses next to the theorems show that the hypotheses are needed: with a duplicated id the round trip
  redirects references to the later object; without the guards a second `unlink` / `relink` raises.
-/
import AtomicaModel.Protocol.Graph
import AtomicaModel.Engine
import Mathlib.Data.List.Nodup

namespace Atomica.C08
open Atomica.Protocol.Graph

/-! ### `mapOpt` -/

theorem mapOpt_eq_some {α β} (f : α → Option β) (g : α → β) (l : List α) (h : ∀ a ∈ l, f a = some (g a)) :
    mapOpt f l = some (l.map g) := by
  induction l with
  | nil => rfl
  | cons a as ih =>
      have h1 := h a (by simp)
      have h2 := ih (fun b hb => h b (by simp [hb]))
      simp [mapOpt, h1, h2]

theorem mapOpt_map_eq_some {α β} (f : β → Option α) (g : α → β) (l : List α) (h : ∀ a ∈ l, f (g a) = some a) :
    mapOpt f (l.map g) = some l := by
  induction l with
  | nil => rfl
  | cons a as ih =>
      have h1 := h a (by simp)
      have h2 := ih (fun b hb => h b (by simp [hb]))
      simp [mapOpt, h1, h2]

/-! ### the dict built by `relink` -/

theorem dictGet_none (t : List (Key × Target)) (k : Key) (h : k ∉ t.map Prod.fst) : dictGet t k = none := by
  induction t with
  | nil => rfl
  | cons e rest ih =>
      obtain ⟨k', v⟩ := e
      simp only [List.map_cons, List.mem_cons, not_or] at h
      simp [dictGet, ih h.2, Ne.symm h.1]

/-- with distinct keys the dict returns what was inserted, wherever it was inserted -/
theorem dictGet_of_mem (t : List (Key × Target)) (hn : (t.map Prod.fst).Nodup) (k : Key) (v : Target) (h : (k, v) ∈ t) :
    dictGet t k = some v := by
  induction t with
  | nil => simp at h
  | cons e rest ih =>
      obtain ⟨k', v'⟩ := e
      simp only [List.map_cons, List.nodup_cons] at hn
      rcases List.mem_cons.mp h with h | h
      · have hk : k = k' := congrArg Prod.fst h
        have hv : v = v' := congrArg Prod.snd h
        subst hk; subst hv
        simp [dictGet, dictGet_none rest k hn.1]
      · simp [dictGet, ih hn.2 h]

theorem mem_allTargets (m : Model) (t : Target) (h : validTarget m t = true) : t ∈ allTargets m := by
  unfold validTarget at h
  unfold allTargets
  rw [List.mem_flatMap]
  cases t with
  | pop p =>
      refine ⟨p, ?_, by simp⟩
      simp only [keyOf, Option.isSome_map] at h
      rw [List.mem_range]
      by_contra hlt
      simp [List.getElem?_eq_none (Nat.le_of_not_lt hlt)] at h
  | var p i =>
      simp only [keyOf] at h
      cases hP : m.pops[p]? with
      | none => simp [hP] at h
      | some P =>
          have hp : p < m.pops.length := by
            by_contra hlt
            simp [List.getElem?_eq_none (Nat.le_of_not_lt hlt)] at hP
          refine ⟨p, List.mem_range.mpr hp, ?_⟩
          simp only [hP, Option.bind_some, Option.isSome_map] at h
          have hi : i < P.objs.length := by
            by_contra hlt
            simp [List.getElem?_eq_none (Nat.le_of_not_lt hlt)] at h
          simp [hP, hi]

/-- looking up the id of a live object finds that object, if ids are distinct -/
theorem lookup_id (m : Model) (hn : idsNodup m = true) (t : Target) (k : Key) (hk : keyOf m t = some k) :
    dictGet (table m) k = some t := by
  have hn' : ((table m).map Prod.fst).Nodup := of_decide_eq_true hn
  apply dictGet_of_mem _ hn'
  unfold table
  rw [List.mem_filterMap]
  exact ⟨t, mem_allTargets m t (by simp [validTarget, hk]), by simp [hk]⟩

/-! ### `unlink` of a linked model, in closed form -/

def uRef (m : Model) : Ref → Ref
  | .ptr t => match keyOf m t with
      | some k => .key k
      | none => .ptr t
  | .key k => .key k

def uObj (m : Model) (o : Obj) : Obj :=
  { o with pop := uRef m o.pop, fields := o.fields.map (fun f => f.map (uRef m)), fcnCached := false }

def uPop (m : Model) (P : Pop) : Pop :=
  { P with objs := P.objs.map (uObj m), isLinked := false, lookups := false }

def uModel (m : Model) : Model :=
  { pops := m.pops.map (uPop m), varsByPop := false, execOrder := false, programCache := false }

theorem unlinkRef_linked (m : Model) (r : Ref) (h : refLinked m r = true) : unlinkRef m r = some (uRef m r) := by
  cases r with
  | key k => simp [refLinked] at h
  | ptr t =>
      simp only [refLinked, validTarget] at h
      obtain ⟨k, hk⟩ := Option.isSome_iff_exists.mp h
      simp [unlinkRef, uRef, hk]

theorem objLinked_pop (m : Model) (o : Obj) (h : objLinked m o = true) : refLinked m o.pop = true := by
  unfold objLinked at h
  simp only [Bool.and_eq_true] at h
  obtain ⟨⟨h1, _⟩, _⟩ := h
  cases hp : o.pop with
  | key k => simp [hp] at h1
  | ptr t =>
      cases t with
      | pop p => simpa [hp, refLinked] using h1
      | var p i => simp [hp] at h1

theorem unlinkObj_linked (m : Model) (o : Obj) (h : objLinked m o = true) : unlinkObj m o = some (uObj m o) := by
  have hp := unlinkRef_linked m o.pop (objLinked_pop m o h)
  have hf : mapOpt (mapOpt (unlinkRef m)) o.fields = some (o.fields.map (fun f => f.map (uRef m))) := by
    apply mapOpt_eq_some
    intro f hfm
    apply mapOpt_eq_some
    intro r hr
    apply unlinkRef_linked
    unfold objLinked at h
    simp only [Bool.and_eq_true, List.all_eq_true] at h
    exact h.1.2 f hfm r hr
  simp [unlinkObj, uObj, hp, hf]

theorem unlinkPop_linked (m : Model) (P : Pop) (h : popLinked m P = true) : unlinkPop m P = some (uPop m P) := by
  unfold popLinked at h
  simp only [Bool.and_eq_true, List.all_eq_true] at h
  have ho : mapOpt (unlinkObj m) P.objs = some (P.objs.map (uObj m)) :=
    mapOpt_eq_some _ _ _ (fun o hom => unlinkObj_linked m o (h.2 o hom))
  simp [unlinkPop, unlinkPopRaw, uPop, h.1.1, ho]

theorem unlink_linked (m : Model) (h : linked m = true) : unlink m = some (uModel m) := by
  unfold linked at h
  simp only [Bool.and_eq_true, List.all_eq_true] at h
  have hp : mapOpt (unlinkPop m) m.pops = some (m.pops.map (uPop m)) :=
    mapOpt_eq_some _ _ _ (fun P hP => unlinkPop_linked m P (h.2 P hP))
  simp [unlink, uModel, h.1, hp]

/-! ### ids survive `unlink`, so `relink` builds the same dict -/

theorem keyOf_uModel (m : Model) (t : Target) : keyOf (uModel m) t = keyOf m t := by
  cases t with
  | pop p =>
      simp only [keyOf, uModel, List.getElem?_map, Option.map_map]
      cases m.pops[p]? <;> simp [uPop]
  | var p i =>
      simp only [keyOf, uModel, List.getElem?_map]
      cases m.pops[p]? with
      | none => simp
      | some P =>
          simp only [Option.map_some, Option.bind_some, uPop, List.getElem?_map, Option.map_map]
          cases P.objs[i]? <;> simp [uObj]

theorem allTargets_uModel (m : Model) : allTargets (uModel m) = allTargets m := by
  unfold allTargets
  simp only [uModel, List.length_map, List.getElem?_map, Option.map_map]
  congr 1
  funext p
  cases m.pops[p]? <;> simp [uPop]

theorem table_uModel (m : Model) : table (uModel m) = table m := by
  unfold table
  rw [allTargets_uModel]
  congr 1
  funext t
  rw [keyOf_uModel]

/-! ### `relink` undoes it -/

theorem relinkRef_uRef (m : Model) (hn : idsNodup m = true) (r : Ref) (h : refLinked m r = true) :
    relinkRef (table m) (uRef m r) = some r := by
  cases r with
  | key k => simp [refLinked] at h
  | ptr t =>
      simp only [refLinked, validTarget] at h
      obtain ⟨k, hk⟩ := Option.isSome_iff_exists.mp h
      simp [uRef, hk, relinkRef, lookup_id m hn t k hk]

theorem relinkObj_uObj (m : Model) (hn : idsNodup m = true) (o : Obj) (h : objLinked m o = true) :
    relinkObj (table m) (uObj m o) = some o := by
  have hp := relinkRef_uRef m hn o.pop (objLinked_pop m o h)
  unfold objLinked at h
  simp only [Bool.and_eq_true, List.all_eq_true, beq_iff_eq] at h
  have hf : mapOpt (mapOpt (relinkRef (table m))) (o.fields.map (fun f => f.map (uRef m))) = some o.fields := by
    apply mapOpt_map_eq_some
    intro f hfm
    apply mapOpt_map_eq_some
    intro r hr
    exact relinkRef_uRef m hn r (h.1.2 f hfm r hr)
  obtain ⟨id, pop, fields, hasFcn, fcnCached⟩ := o
  simp only at h hp hf
  simp [relinkObj, uObj, hp, hf, h.2]

theorem relinkPop_uPop (m : Model) (hn : idsNodup m = true) (P : Pop) (h : popLinked m P = true) :
    relinkPop (table m) (uPop m P) = some P := by
  unfold popLinked at h
  simp only [Bool.and_eq_true, List.all_eq_true] at h
  have ho : mapOpt (relinkObj (table m)) (P.objs.map (uObj m)) = some P.objs :=
    mapOpt_map_eq_some _ _ _ (fun o hom => relinkObj_uObj m hn o (h.2 o hom))
  obtain ⟨name, objs, isLinked, lookups⟩ := P
  simp only at h ho
  simp [relinkPop, relinkPopRaw, uPop, ho, h.1.1, h.1.2]

/-- **Round trip.**  For a built (linked) model whose population names and variable ids are pairwise distinct,
    `Model.unlink()` followed by `Model.relink()` raises nothing and restores every reference, every lookup table and every parsed
    function; only `_exec_order` and `_program_cache` are gone (they are recomputed by `Model.process`). -/
theorem relink_unlink (m : Model) (hl : linked m = true) (hn : idsNodup m = true) :
    (unlink m).bind relink = some (dropCaches m) := by
  rw [unlink_linked m hl]
  unfold linked at hl
  simp only [Bool.and_eq_true, List.all_eq_true] at hl
  have hp : mapOpt (relinkPop (table m)) (m.pops.map (uPop m)) = some m.pops :=
    mapOpt_map_eq_some _ _ _ (fun P hP => relinkPop_uPop m hn P (hl.2 P hP))
  have hv : m.varsByPop = true := hl.1
  simp only [Option.bind_some, relink]
  rw [table_uModel]
  obtain ⟨pops, varsByPop, execOrder, programCache⟩ := m
  simp only at hp hv
  subst hv
  simp [uModel, dropCaches, hp]

/-- the unlinked form contains no object reference at all (so it can be pickled / deep-copied as plain data) -/
theorem unlink_no_refs (m : Model) (hl : linked m = true) (u : Model) (hu : unlink m = some u) :
    ∀ P ∈ u.pops, ∀ o ∈ P.objs, (∃ k, o.pop = .key k) ∧ ∀ f ∈ o.fields, ∀ r ∈ f, ∃ k, r = .key k := by
  rw [unlink_linked m hl] at hu
  have hu' : u = uModel m := (Option.some.inj hu).symm
  subst hu'
  unfold linked at hl
  simp only [Bool.and_eq_true, List.all_eq_true] at hl
  intro P hP o ho
  simp only [uModel, List.mem_map] at hP
  obtain ⟨P0, hP0, rfl⟩ := hP
  simp only [uPop, List.mem_map] at ho
  obtain ⟨o0, ho0, rfl⟩ := ho
  have hPl := hl.2 P0 hP0
  unfold popLinked at hPl
  simp only [Bool.and_eq_true, List.all_eq_true] at hPl
  have hol := hPl.2 o0 ho0
  have key_of_linked : ∀ r, refLinked m r = true → ∃ k, uRef m r = .key k := by
    intro r hr
    cases r with
    | key k => exact ⟨k, rfl⟩
    | ptr t =>
        simp only [refLinked, validTarget] at hr
        obtain ⟨k, hk⟩ := Option.isSome_iff_exists.mp hr
        exact ⟨k, by simp [uRef, hk]⟩
  refine ⟨key_of_linked _ (objLinked_pop m o0 hol), ?_⟩
  intro f hf r hr
  simp only [uObj, List.mem_map] at hf
  obtain ⟨f0, hf0, rfl⟩ := hf
  simp only [List.mem_map] at hr
  obtain ⟨r0, hr0, rfl⟩ := hr
  unfold objLinked at hol
  simp only [Bool.and_eq_true, List.all_eq_true] at hol
  exact key_of_linked r0 (hol.1.2 f0 hf0 r0 hr0)

/-! ### idempotence under the guards -/

/-- a second `Model.unlink()` does nothing (guard `_vars_by_pop is None`) -/
theorem unlink_idem (m u : Model) (h : unlink m = some u) : unlink u = some u := by
  unfold unlink at h
  by_cases hv : m.varsByPop = true
  · simp only [hv, if_true] at h
    cases hp : mapOpt (unlinkPop m) m.pops with
    | none => simp [hp] at h
    | some pops =>
        simp only [hp, Option.map_some] at h
        have := Option.some.inj h
        subst this
        simp [unlink]
  · simp only [hv] at h
    have := Option.some.inj h
    subst this
    simp [unlink, hv]

/-- a second `Model.relink()` does nothing (guard `_vars_by_pop is not None`) -/
theorem relink_idem (m r : Model) (h : relink m = some r) : relink r = some r := by
  unfold relink at h
  by_cases hv : m.varsByPop = true
  · simp only [hv, if_true] at h
    have := Option.some.inj h
    subst this
    simp [relink, hv]
  · simp only [hv] at h
    cases hp : mapOpt (relinkPop (table m)) m.pops with
    | none => simp [hp] at h
    | some pops =>
        simp only [hp, Option.map_some] at h
        have := Option.some.inj h
        subst this
        simp [relink]

/-- `Population.unlink` is idempotent through `is_linked` (whatever heap `m'` the second call sees) -/
theorem unlinkPop_idem (m m' : Model) (P P' : Pop) (h : unlinkPop m P = some P') : unlinkPop m' P' = some P' := by
  unfold unlinkPop at h
  by_cases hv : P.isLinked = true
  · simp only [hv, if_true, unlinkPopRaw] at h
    cases hp : mapOpt (unlinkObj m) P.objs with
    | none => simp [hp] at h
    | some objs =>
        simp only [hp, Option.map_some] at h
        have := Option.some.inj h
        subst this
        simp [unlinkPop]
  · simp only [hv] at h
    have := Option.some.inj h
    subst this
    simp [unlinkPop, hv]

/-- `Population.relink` is idempotent through `is_linked` -/
theorem relinkPop_idem (tbl tbl' : List (Key × Target)) (P P' : Pop) (h : relinkPop tbl P = some P') :
    relinkPop tbl' P' = some P' := by
  unfold relinkPop at h
  by_cases hv : P.isLinked = true
  · simp only [hv, if_true] at h
    have := Option.some.inj h
    subst this
    simp [relinkPop, hv]
  · simp only [hv, relinkPopRaw] at h
    cases hp : mapOpt (relinkObj tbl) P.objs with
    | none => simp [hp] at h
    | some objs =>
        simp only [hp, Option.map_some] at h
        have := Option.some.inj h
        subst this
        simp [relinkPop]

/-! ### the copy protocols -/

/-- **`__deepcopy__` / pickle round trip.**  Both the original (afterwards) and the copy equal the original (before), up to the
    two dropped caches. -/
theorem copy_model (m : Model) (hl : linked m = true) (hn : idsNodup m = true) :
    copyModel m = some (dropCaches m, dropCaches m) := by
  have h := relink_unlink m hl hn
  unfold copyModel
  cases hu : unlink m with
  | none => simp [hu] at h
  | some u =>
      simp only [hu, Option.bind_some] at h
      simp [h]

theorem dropCaches_idem (m : Model) : dropCaches (dropCaches m) = dropCaches m := rfl

/-- **Copy commutes with running (L1).**  `Model.process` starts by recomputing `_exec_order` and `_program_cache`, so whatever
    it extracts from the object graph (`extract`: net, initial stocks, …) does not depend on those two flags.  For any such
    `extract`, running the copy is running the original — for every time step, parameter stream and start-up parameters.
    (This is a congruence: it says that nothing *else* of the graph changes under copying.) -/
theorem copy_commutes (extract : Model → Engine.Net × Engine.Stock)
    (hx : ∀ g, extract (dropCaches g) = extract g)
    (m : Model) (hl : linked m = true) (hn : idsNodup m = true) :
    ∃ orig copy, copyModel m = some (orig, copy) ∧
      ∀ (dt : Rat) (pvPre : Nat → Rat) (pvs : List (Nat → Rat)),
        Engine.process (extract copy).1 dt pvPre pvs (extract copy).2 = Engine.process (extract m).1 dt pvPre pvs (extract m).2
        ∧ Engine.process (extract orig).1 dt pvPre pvs (extract orig).2 = Engine.process (extract m).1 dt pvPre pvs (extract m).2 := by
  refine ⟨dropCaches m, dropCaches m, copy_model m hl hn, ?_⟩
  intro dt pvPre pvs
  rw [hx m]
  exact ⟨rfl, rfl⟩

/-- **Determinism of the model**, stated as what it is: `Engine.process` (start-up flush + `runFrom`) is a function of the net,
    the step, the parameter values of every step and the initial stocks, so equal inputs give the same trajectory.  That the
    Python implementation behaves like a function of its inputs under every history of calls is not a theorem; it is checked
    by the history harness. -/
theorem run_function (net net' : Engine.Net) (dt dt' : Rat) (pvPre pvPre' : Nat → Rat) (pvs pvs' : List (Nat → Rat))
    (x x' : Engine.Stock) (h1 : net = net') (h2 : dt = dt') (h3 : pvPre = pvPre') (h4 : pvs = pvs') (h5 : x = x') :
    Engine.process net dt pvPre pvs x = Engine.process net' dt' pvPre' pvs' x'
    ∧ Engine.runFrom net dt pvs x = Engine.runFrom net' dt' pvs' x' := by
  subst h1 h2 h3 h4 h5
  exact ⟨rfl, rfl⟩

/-! ### where distinct ids come from -/

/-- ids as `Population.build` / `Link.__init__` form them: per population, `(pop, name)` for every compartment, characteristic
    and parameter, and `(pop, source, dest, link name)` for every link -/
def buildIds (pops : List String) (names : List String) (links : List (String × String × String)) : List (List String) :=
  pops.flatMap (fun p => names.map (fun n => [p, n]) ++ links.map (fun l => [p, l.1, l.2.1, l.2.2]))

/-- If population names are distinct, code names are distinct (the framework validator enforces one namespace for
    compartments, characteristics and parameters; transfer parameters are named `name_src_to_dst`), and no link
    `(source, dest, link name)` occurs twice (a parameter leaves a compartment at most once; parameter-less links get a random
    8-hex-digit name), then all variable ids are distinct.  The hypotheses are checked on every extracted model (`hyp idsNodup`). -/
theorem ids_distinct_of_build (pops names : List String) (links : List (String × String × String))
    (hp : pops.Nodup) (hnm : names.Nodup) (hl : links.Nodup) : (buildIds pops names links).Nodup := by
  unfold buildIds
  rw [List.nodup_flatMap]
  constructor
  · intro p _
    rw [List.nodup_append]
    refine ⟨?_, ?_, ?_⟩
    · exact hnm.map (fun a b h => by simpa using h)
    · refine hl.map (fun a b h => ?_)
      obtain ⟨a1, a2, a3⟩ := a
      obtain ⟨b1, b2, b3⟩ := b
      simp only [List.cons.injEq, and_true, true_and] at h
      simp [h.1, h.2.1, h.2.2]
    · intro a ha b hb
      simp only [List.mem_map] at ha hb
      obtain ⟨n, _, rfl⟩ := ha
      obtain ⟨l, _, rfl⟩ := hb
      simp
  · apply List.Pairwise.imp_of_mem _ hp
    intro p q _ _ hpq a ha hb
    simp only [List.mem_append, List.mem_map] at ha hb
    apply hpq
    rcases ha with ⟨n, _, rfl⟩ | ⟨l, _, rfl⟩ <;> rcases hb with ⟨n', _, h⟩ | ⟨l', _, h⟩ <;> simp at h <;> exact h.1.symm

/-! ### non-vacuity and witnesses -/

/-- two compartments, one link between them, one characteristic and a function parameter depending on it, one population -/
def g0 : Model :=
  { pops := [{ name := "adults", isLinked := true, lookups := true,
               objs := [ { id := ["adults", "sus"], pop := .ptr (.pop 0), fields := [[.ptr (.var 0 4)], []], hasFcn := false, fcnCached := false },
                         { id := ["adults", "inf"], pop := .ptr (.pop 0), fields := [[], [.ptr (.var 0 4)]], hasFcn := false, fcnCached := false },
                         { id := ["adults", "alive"], pop := .ptr (.pop 0), fields := [[.ptr (.var 0 0), .ptr (.var 0 1)], []], hasFcn := false, fcnCached := false },
                         { id := ["adults", "foi"], pop := .ptr (.pop 0), fields := [[.ptr (.var 0 4)], [.ptr (.var 0 2)]], hasFcn := true, fcnCached := true },
                         { id := ["adults", "sus", "inf", "foi:flow"], pop := .ptr (.pop 0), fields := [[.ptr (.var 0 3)], [.ptr (.var 0 0)], [.ptr (.var 0 1)]], hasFcn := false, fcnCached := false } ] }],
    varsByPop := true, execOrder := true, programCache := false }

example : linked g0 = true ∧ idsNodup g0 = true := by decide
example : (unlink g0).bind relink = some (dropCaches g0) := relink_unlink g0 (by decide) (by decide)
example : unlink g0 ≠ some g0 := by decide

/-- the characteristic is (wrongly) given the id of the compartment "sus" -/
def gDup : Model :=
  { g0 with pops := g0.pops.map (fun P => { P with objs := P.objs.map (fun o => if o.id = ["adults", "alive"] then { o with id := ["adults", "sus"] } else o) }) }

/-- **the hypothesis is needed**: with a duplicated id nothing raises, but the round trip is not the identity — the link's
    `source` now points to the characteristic (the later object with that id) -/
theorem dup_id_breaks_round_trip : linked gDup = true ∧ idsNodup gDup = false ∧
    (∃ g', (unlink gDup).bind relink = some g' ∧ g' ≠ dropCaches gDup) := by
  refine ⟨by decide, by decide, ?_⟩
  cases h : (unlink gDup).bind relink with
  | none => exact absurd h (by decide)
  | some g' => exact ⟨g', rfl, fun hg => absurd (hg ▸ h) (by decide)⟩

/-- **the guards are needed**: unlinking what is already unlinked, or relinking what is linked, raises without them -/
theorem guards_needed : (unlinkRaw g0).bind unlinkRaw = none ∧ relinkRaw g0 = none
    ∧ (unlink g0).bind unlink = unlink g0 ∧ relink g0 = some g0 := by decide

example : (buildIds ["a", "b"] ["sus", "inf", "foi"] [("sus", "inf", "foi:flow")]).Nodup := by decide

end Atomica.C08
