/-
  C03 (closed loop, extensions) — theorems about the features `Atomica.Closed` gained after the first version:
  skip windows of parameter scenarios (A), derivative parameters (B).  Several population types (C) need no new
  definition: a specification is flat (global indices), every theorem quantifies over every `Spec`.

  A. skip windows (`Parameter.skip_function`, written by `ParameterScenario.get_parset` for FUNCTION parameters)
    * `closed_skip_uses_data`          inside its window a parameter has the databook (scenario) value `clip(interp(data, t) · scale)`,
                                       on every state, whatever its function / aggregation says;
    * `closed_before_window_unchanged` (C09) a specification whose databook series / windows were changed (a parameter scenario)
                                       so that nothing that is USED at the indices `< m` differs — windows not yet open, series of data
                                       parameters equal on those grid points — has the same first `m` trajectory entries, and the
                                       same stocks at index `m` (`closed_stock_at_window_start`).
  B. derivative parameters (`Parameter.derivative`): the loop state carries their current values `d`
    * `closed_derivative_step`         `nextD s i x d p = clip(d p + scale · f(values of index i) · dt)` with `f` evaluated on the FINAL values
                                       of index `i` (what the code computes at the parameter's place in the execution order, given a
                                       topological order), for every index, state and derivative state; `_val` spells it out;
                                       `closed_derivative_value`: every reader of index `i` sees `d p`; `closed_derivative_run`: … along a run;
    * `closed_derivative_constant`     `f ≡ 0` ⇒ the parameter keeps its initial value at every index of every run;
    * `closed_derivative_linear`       `f ≡ c`, no limits ⇒ the value at the k-th entry is `v0 + k · (scale · c · dt)`.
  The theorems of C03Closed.lean (`simulate_is_process`, `closed_total`, `closed_nonneg`, `closed_jempty`, `simulateN_prefix`, …) are
  stated and proved there for the extended model (loop state = stocks and derivative values).
-/
import AtomicaModel.Closed
import AtomicaProofs.Properties.C03Closed
import Mathlib.Tactic.Linarith
import Mathlib.Tactic.NormNum
import Mathlib.Tactic.Ring

namespace Atomica.C03
open Atomica Atomica.Engine Atomica.Closed

/-! ## A. skip windows -/

theorem foldl_skipped (s : Spec) (t : Rat) (x : Stock) (cv : Vals) (p : Nat) (hs : skipped (s.pars p) t = true)
    (hnd : (s.pars p).deriv = false) :
    ∀ (l : List Nat) (pv : Vals), pv p = baseVal (s.pars p) t → (l.foldl (parStep s t x cv) pv) p = baseVal (s.pars p) t := by
  intro l
  induction l with
  | nil => intro pv h; exact h
  | cons a rest ih =>
    intro pv h
    simp only [List.foldl_cons]
    apply ih
    unfold parStep setAt
    split
    · rename_i hpa
      subst hpa
      unfold parVal
      simp only [hnd, Bool.false_eq_true, if_false]
      split
      · exact h
      · simp only [hs, if_true]
    · exact h

/-- **closed_skip_uses_data**: at an index inside the skip window of a parameter (`lo ≤ t ≤ hi`) its value is the databook value of
    that time — `clip(interp(data, t) · scale)`, for a parameter scenario the pre-interpolated scenario series — on every state:
    neither the function nor the aggregation is evaluated (dynamic, precompute and postcompute parameters alike).
    (`hnd`: not a derivative parameter; `wfSpec` refuses a window on those.) -/
theorem closed_skip_uses_data (s : Spec) (i : Nat) (x : Stock) (d : Vals) (p : Nat)
    (hs : skipped (s.pars p) (Grid.point s.start s.dt i) = true) (hnd : (s.pars p).deriv = false) :
    evalPars s i x d p = baseVal (s.pars p) (Grid.point s.start s.dt i) := by
  unfold evalPars
  apply foldl_skipped s _ x _ p hs hnd s.porder _
  unfold basePars
  simp only [hnd, Bool.false_eq_true, if_false]

/-- … spelled out: with a databook series that has a value `r` at that time, the parameter is `clip(r · scale)` -/
theorem closed_skip_uses_data_val (s : Spec) (i : Nat) (x : Stock) (d : Vals) (p : Nat)
    (hs : skipped (s.pars p) (Grid.point s.start s.dt i) = true) (hnd : (s.pars p).deriv = false)
    {ts : Series.TS} (hd : (s.pars p).data = some ts) {r : Rat}
    (hr : Series.interpLinear ts (Grid.point s.start s.dt i) = .val r) :
    evalPars s i x d p = some (clipLim (s.pars p).lo (s.pars p).hi (r * (s.pars p).scale)) := by
  rw [closed_skip_uses_data s i x d p hs hnd]
  unfold baseVal
  simp only [hd, hr]

/-- the window test of the code: `skip_function[0] <= t <= skip_function[1]` (closed on both sides; `none` = `+inf`) -/
theorem skipped_iff (ps : ParSpec) (t : Rat) :
    skipped ps t = true ↔ ∃ w, ps.skip = some w ∧ w.lo ≤ t ∧ ∀ h, w.hi = some h → t ≤ h := by
  unfold skipped Params.inWin
  cases hsk : ps.skip with
  | none => simp
  | some w =>
    simp only [Params.Window.has, Bool.and_eq_true, decide_eq_true_eq, Option.some.injEq, exists_eq_left']
    cases hh : w.hi with
    | none => simp
    | some h => simp

/-! ### the two folds of one index: values, and (values, next derivative values) -/

theorem foldl_advStep_fst (s : Spec) (t : Rat) (x : Stock) (cv : Vals) : ∀ (l : List Nat) (st : Vals × Vals),
    (l.foldl (advStep s t x cv) st).1 = l.foldl (parStep s t x cv) st.1 := by
  intro l
  induction l with
  | nil => intro st; rfl
  | cons a rest ih => intro st; simp only [List.foldl_cons]; rw [ih]; rfl

/-- the values `update_pars` leaves at index `i` are the first component of the pass that also takes the Euler steps -/
theorem evalParsD_fst (s : Spec) (i : Nat) (x : Stock) (d : Vals) : (evalParsD s i x d).1 = evalPars s i x d := by
  unfold evalParsD evalPars
  exact foldl_advStep_fst s _ x _ s.porder _

/-! ### a scenario leaves everything before the window unchanged (C09) -/

/-- the same specification with other databook series / skip windows (what `ParameterScenario.get_parset` changes) -/
def withPars (s : Spec) (pars' : Nat → ParSpec) : Spec := { s with pars := pars' }

/-- the rules of the parameters are the same: scale factor, limits, function / aggregation, derivative flag -/
def SameRules (s : Spec) (pars' : Nat → ParSpec) : Prop :=
  ∀ p, (pars' p).scale = (s.pars p).scale ∧ (pars' p).lo = (s.pars p).lo ∧ (pars' p).hi = (s.pars p).hi ∧
    (pars' p).kind = (s.pars p).kind ∧ (pars' p).deriv = (s.pars p).deriv

/-- at time `t` nothing that is used differs: the windows contain `t` for the same parameters, and the databook values agree
    wherever they are read (data parameters, parameters inside their window, parameters the execution order never visits) -/
def AgreeAt (s : Spec) (pars' : Nat → ParSpec) (t : Rat) : Prop :=
  ∀ p, skipped (pars' p) t = skipped (s.pars p) t ∧
    ((isData (s.pars p) = true ∨ skipped (s.pars p) t = true ∨ p ∉ s.porder) → baseVal (pars' p) t = baseVal (s.pars p) t)

theorem evalCharacs_withPars (s : Spec) (pars' : Nat → ParSpec) (x : Stock) : evalCharacs (withPars s pars') x = evalCharacs s x := rfl

theorem parVal_agree (s : Spec) (pars' : Nat → ParSpec) (h : SameRules s pars') (t : Rat) (ha : AgreeAt s pars' t) (x : Stock) (cv : Vals)
    (pv pv' : Vals) (a : Nat) (hself : isFixed (s.pars a) = true → pv' a = pv a)
    (hrefs : ∀ r, r ∈ parRefsOf (kindRefs (s.pars a).kind) → pv' r = pv r) :
    parVal (withPars s pars') t x cv pv' a = parVal s t x cv pv a := by
  obtain ⟨hsc, hlo, hhi, hkd, hdv⟩ := h a
  obtain ⟨hsk, hbv⟩ := ha a
  by_cases hfx : isFixed (s.pars a) = true
  · have hfx' : isFixed ((withPars s pars').pars a) = true := by
      unfold isFixed isData at hfx ⊢
      simp only [withPars]
      rw [hkd, hdv]; exact hfx
    rw [parVal_fixed hfx', parVal_fixed hfx]
    exact hself hfx
  · have hfx0 : isFixed (s.pars a) = false := by simpa using hfx
    unfold isFixed isData at hfx0
    simp only [Bool.or_eq_false_iff] at hfx0
    obtain ⟨hder, hnotdata⟩ := hfx0
    unfold parVal
    simp only [withPars]
    simp only [hkd, hsk, hsc, hlo, hhi, hdv, hder, Bool.false_eq_true, if_false]
    split
    · rename_i hk; rw [hk] at hnotdata; simp at hnotdata
    · by_cases hs : skipped (s.pars a) t = true
      · simp only [hs, if_true]
        exact hbv (Or.inr (Or.inl hs))
      · have hs' : skipped (s.pars a) t = false := by simpa using hs
        simp only [hs', Bool.false_eq_true, if_false]
        rw [rawVal_congr _ (refVal s.net x cv pv t s.dt) t _ (refVal_congr s.net x cv pv' pv t s.dt _ hrefs)]

theorem advVal_agree (s : Spec) (pars' : Nat → ParSpec) (h : SameRules s pars') (t : Rat) (x : Stock) (cv : Vals)
    (pv pv' : Vals) (a : Nat) (hself : pv' a = pv a) (hrefs : ∀ r, r ∈ parRefsOf (kindRefs (s.pars a).kind) → pv' r = pv r) :
    advVal (withPars s pars') t x cv pv' a = advVal s t x cv pv a := by
  obtain ⟨hsc, hlo, hhi, hkd, _⟩ := h a
  unfold advVal
  simp only [withPars]
  rw [hkd, hsc, hlo, hhi, hself, rawVal_congr _ (refVal s.net x cv pv t s.dt) t _ (refVal_congr s.net x cv pv' pv t s.dt _ hrefs)]

/-- one index of the scenario specification and of the baseline, visit by visit: whatever is not pending agrees, and so do the
    next derivative values -/
theorem foldlD_agree (s : Spec) (pars' : Nat → ParSpec) (h : SameRules s pars') (t : Rat) (ha : AgreeAt s pars' t) (x : Stock) (cv : Vals) :
    ∀ (l done : List Nat) (st st' : Vals × Vals), okOrder s done l = true →
    (∀ q, q ∉ l ∨ isFixed (s.pars q) = true → st'.1 q = st.1 q) → st'.2 = st.2 →
    (∀ q, (l.foldl (advStep (withPars s pars') t x cv) st').1 q = (l.foldl (advStep s t x cv) st).1 q) ∧
    (l.foldl (advStep (withPars s pars') t x cv) st').2 = (l.foldl (advStep s t x cv) st).2 := by
  intro l
  induction l with
  | nil => intro _ st st' _ hinv h2; exact ⟨fun q => hinv q (Or.inl (by simp)), h2⟩
  | cons a rest ih =>
    intro done st st' hok hinv h2
    have hok' := hok
    simp only [okOrder, Bool.and_eq_true, Bool.not_eq_true', List.contains_eq_mem, decide_eq_false_iff_not,
      List.all_eq_true, Bool.or_eq_true, decide_eq_true_eq] at hok'
    obtain ⟨⟨_, hrefs⟩, hrest⟩ := hok'
    simp only [List.foldl_cons]
    have hrefs' : ∀ r, r ∈ parRefsOf (kindRefs (s.pars a).kind) → st'.1 r = st.1 r := by
      intro r hr
      rcases hrefs r hr with hrd | hrdone
      · exact hinv r (Or.inr hrd)
      · exact hinv r (Or.inl (okOrder_done_not_mem s (a :: rest) done hok r hrdone))
    apply ih (a :: done) _ _ hrest
    · intro q' hq'
      unfold advStep parStep setAt
      simp only
      by_cases hqa : q' = a
      · subst hqa
        simp only [if_true]
        exact parVal_agree s pars' h t ha x cv st.1 st'.1 q' (fun hfx => hinv q' (Or.inr hfx)) hrefs'
      · simp only [hqa, if_false]
        rcases hq' with hq' | hq'
        · exact hinv q' (Or.inl (by
            intro hm
            simp only [List.mem_cons] at hm
            rcases hm with hm | hm
            · exact hqa hm
            · exact hq' hm))
        · exact hinv q' (Or.inr hq')
    · unfold advStep
      simp only
      have hdv : ((withPars s pars').pars a).deriv = (s.pars a).deriv := (h a).2.2.2.2
      rw [hdv]
      by_cases hder : (s.pars a).deriv = true
      · simp only [hder, if_true]
        rw [h2, advVal_agree s pars' h t x cv st.1 st'.1 a (hinv a (Or.inr (by unfold isFixed; simp [hder]))) hrefs']
      · simp only [hder, if_false]
        exact h2

theorem basePars_agree (s : Spec) (pars' : Nat → ParSpec) (h : SameRules s pars') (t : Rat) (ha : AgreeAt s pars' t) (d : Vals) (q : Nat)
    (hq : q ∉ s.porder ∨ isFixed (s.pars q) = true) : basePars (withPars s pars') t d q = basePars s t d q := by
  unfold basePars
  simp only [withPars, (h q).2.2.2.2]
  by_cases hder : (s.pars q).deriv = true
  · simp only [hder, if_true]
  · have hder' : (s.pars q).deriv = false := by simpa using hder
    simp only [hder', Bool.false_eq_true, if_false]
    rcases hq with hq | hq
    · exact (ha q).2 (Or.inr (Or.inr hq))
    · unfold isFixed at hq
      simp only [hder', Bool.false_or] at hq
      exact (ha q).2 (Or.inl hq)

/-- values and next derivative values of an index agree when nothing that is used at that time differs -/
theorem evalParsD_agree (s : Spec) (pars' : Nat → ParSpec) (h : SameRules s pars') (hd : depsBefore s = true) (i : Nat)
    (ha : AgreeAt s pars' (Grid.point s.start s.dt i)) (x : Stock) (d : Vals) :
    evalParsD (withPars s pars') i x d = evalParsD s i x d := by
  have key := foldlD_agree s pars' h _ ha x (evalCharacs s x) s.porder []
    (basePars s (Grid.point s.start s.dt i) d, d) (basePars (withPars s pars') (Grid.point s.start s.dt i) d, d) hd
    (fun q hq => basePars_agree s pars' h _ ha d q hq) rfl
  unfold evalParsD
  simp only [evalCharacs_withPars]
  show s.porder.foldl (advStep (withPars s pars') (Grid.point s.start s.dt i) x (evalCharacs s x))
      (basePars (withPars s pars') (Grid.point s.start s.dt i) d, d) = _
  exact Prod.ext (funext key.1) key.2

theorem evalPars_agree (s : Spec) (pars' : Nat → ParSpec) (h : SameRules s pars') (hd : depsBefore s = true) (i : Nat)
    (ha : AgreeAt s pars' (Grid.point s.start s.dt i)) (x : Stock) (d : Vals) :
    evalPars (withPars s pars') i x d = evalPars s i x d := by
  rw [← evalParsD_fst, ← evalParsD_fst, evalParsD_agree s pars' h hd i ha x d]

theorem nextD_agree (s : Spec) (pars' : Nat → ParSpec) (h : SameRules s pars') (hd : depsBefore s = true) (i : Nat)
    (ha : AgreeAt s pars' (Grid.point s.start s.dt i)) (x : Stock) (d : Vals) :
    nextD (withPars s pars') i x d = nextD s i x d := by
  unfold nextD
  rw [evalParsD_agree s pars' h hd i ha x d]

theorem stepClosed_agree (s : Spec) (pars' : Nat → ParSpec) (h : SameRules s pars') (hd : depsBefore s = true) (i : Nat)
    (ha : AgreeAt s pars' (Grid.point s.start s.dt i)) (x : Stock) (d : Vals) :
    stepClosed (withPars s pars') i x d = stepClosed s i x d := by
  unfold stepClosed
  rw [evalPars_agree s pars' h hd i ha x d]
  rfl

theorem runClosed_agree (s : Spec) (pars' : Nat → ParSpec) (h : SameRules s pars') (hd : depsBefore s = true) :
    ∀ (n i : Nat) (x : Stock) (d : Vals),
    (∀ j, i ≤ j → j < i + n → AgreeAt s pars' (Grid.point s.start s.dt j)) →
    runClosed (withPars s pars') i n x d = runClosed s i n x d := by
  intro n
  induction n with
  | zero => intro i x d _; rfl
  | succ n ih =>
    intro i x d hag
    have hi := hag i (le_refl _) (by omega)
    simp only [runClosed, stepClosed_agree s pars' h hd i hi x d, nextD_agree s pars' h hd i hi x d]
    cases stepClosed s i x d with
    | none => rfl
    | some p =>
      obtain ⟨fl, x'⟩ := p
      simp only
      rw [ih (i + 1) x' _ (fun j h1 h2 => hag j (by omega) (by omega))]

/-- the derivative parameters start from the same values when their databook values of index 0 agree -/
theorem initD_agree (s : Spec) (pars' : Nat → ParSpec) (h : SameRules s pars')
    (h0 : ∀ p, (s.pars p).deriv = true → baseVal (pars' p) (Grid.point s.start s.dt 0) = baseVal (s.pars p) (Grid.point s.start s.dt 0)) :
    initD (withPars s pars') = initD s := by
  funext p
  unfold initD
  simp only [withPars, (h p).2.2.2.2]
  by_cases hder : (s.pars p).deriv = true
  · simp only [hder, if_true]; exact h0 p hder
  · simp only [hder, Bool.false_eq_true, if_false]

/-- **closed_before_window_unchanged** (C09): let `pars'` be the parameters of a scenario on the specification `s` — other databook
    series, skip windows on function parameters — with the same rules.  If at every index `i < m` nothing that is used differs
    (`AgreeAt`: in particular, every window of the scenario starts at index `m` or later and the scenario series state the baseline
    values before it; `h0`: the derivative parameters start from the same values), the run of the scenario IS the baseline run on
    the first `m` entries — stocks, flows and definedness. -/
theorem closed_before_window_unchanged (s : Spec) (pars' : Nat → ParSpec) (h : SameRules s pars') (hd : depsBefore s = true)
    (h0 : ∀ p, (s.pars p).deriv = true → baseVal (pars' p) (Grid.point s.start s.dt 0) = baseVal (s.pars p) (Grid.point s.start s.dt 0))
    (m : Nat) (hm : 0 < m) (hag : ∀ i, i < m → AgreeAt s pars' (Grid.point s.start s.dt i)) :
    simulateN (withPars s pars') m = simulateN s m := by
  unfold simulateN
  have hD := initD_agree s pars' h h0
  have hst : startClosed (withPars s pars') = startClosed s := by
    have e : evalPars (withPars s pars') 0 s.init (initD s) = evalPars s 0 s.init (initD s) :=
      evalPars_agree s pars' h hd 0 (hag 0 hm) s.init _
    unfold startClosed
    rw [hD]
    show (if linkParsDefined s.net (evalPars (withPars s pars') 0 s.init (initD s)) then
        flushAll s.net (pvOf (evalPars (withPars s pars') 0 s.init (initD s))) s.init s.net.jorder else none) = _
    rw [e]
  rw [hst, hD]
  congr 1
  funext x0
  exact runClosed_agree s pars' h hd m 0 x0 _ (fun j _ hj => hag j (by omega))

theorem runClosed_stock_agree (s : Spec) (pars' : Nat → ParSpec) (h : SameRules s pars') (hd : depsBefore s = true) :
    ∀ (k i : Nat) (y : Stock) (d : Vals) (r r' : List (Stock × Flow)),
    (∀ j, i ≤ j → j < i + k → AgreeAt s pars' (Grid.point s.start s.dt j)) →
    runClosed (withPars s pars') i (k + 1) y d = some r' → runClosed s i (k + 1) y d = some r →
    ∀ e e', r'[k]? = some e' → r[k]? = some e → e'.1 = e.1 := by
  intro k
  induction k with
  | zero =>
    intro i y d r r' _ hr' hr e e' he' he
    obtain ⟨fl, y1, rest, _, _, rfl⟩ := runClosed_succ_some hr
    obtain ⟨fl', y1', rest', _, _, rfl⟩ := runClosed_succ_some hr'
    simp only [List.getElem?_cons_zero, Option.some.injEq] at he he'
    rw [← he, ← he']
  | succ k ih =>
    intro i y d r r' hag hr' hr e e' he' he
    obtain ⟨fl, y1, rest, hst, hrest, rfl⟩ := runClosed_succ_some hr
    obtain ⟨fl', y1', rest', hst', hrest', rfl⟩ := runClosed_succ_some hr'
    have hi := hag i (le_refl _) (by omega)
    rw [stepClosed_agree s pars' h hd i hi y d, hst] at hst'
    simp only [Option.some.injEq, Prod.mk.injEq] at hst'
    obtain ⟨_, rfl⟩ := hst'
    rw [nextD_agree s pars' h hd i hi y d] at hrest'
    simp only [List.getElem?_cons_succ] at he he'
    exact ih (i + 1) y1 _ rest rest' (fun j h1 h2 => hag j (by omega) (by omega)) hrest' hrest e e' he' he

/-- **closed_stock_at_window_start** (C09): the stocks of index `m` — the first index at which the scenario may differ — coincide
    as well (they were produced by the last step before the window) -/
theorem closed_stock_at_window_start (s : Spec) (pars' : Nat → ParSpec) (h : SameRules s pars') (hd : depsBefore s = true)
    (h0 : ∀ p, (s.pars p).deriv = true → baseVal (pars' p) (Grid.point s.start s.dt 0) = baseVal (s.pars p) (Grid.point s.start s.dt 0))
    (m : Nat) (hm : 0 < m) (hag : ∀ i, i < m → AgreeAt s pars' (Grid.point s.start s.dt i))
    {traj traj' : List (Stock × Flow)} (h' : simulateN (withPars s pars') (m + 1) = some traj') (hb : simulateN s (m + 1) = some traj)
    {e e' : Stock × Flow} (he' : traj'[m]? = some e') (he : traj[m]? = some e) : e'.1 = e.1 := by
  obtain ⟨x0, hf, hr⟩ := simulateN_split hb
  obtain ⟨x0', hf', hr'⟩ := simulateN_split h'
  have hD := initD_agree s pars' h h0
  rw [hD] at hf' hr'
  have hev : evalPars (withPars s pars') 0 s.init (initD s) = evalPars s 0 s.init (initD s) :=
    evalPars_agree s pars' h hd 0 (hag 0 hm) s.init _
  have hx0 : x0' = x0 := by
    have hf'' : flushAll s.net (pvOf (evalPars (withPars s pars') 0 s.init (initD s))) s.init s.net.jorder = some x0' := hf'
    rw [hev, hf] at hf''
    exact (Option.some.inj hf'').symm
  subst hx0
  exact runClosed_stock_agree s pars' h hd m 0 x0' _ traj traj' (fun j _ hj => hag j (by omega)) hr' hr e e' he' he

/-! ## B. derivative parameters -/

/-- **closed_derivative_value**: at every index, on every state, a derivative parameter has the value the loop state carries for it —
    the Euler step of index `i` writes index `i+1`; every reader of index `i` (`update_links` included) sees `value[i]` -/
theorem closed_derivative_value (s : Spec) (i : Nat) (x : Stock) (d : Vals) (p : Nat) (hder : (s.pars p).deriv = true) :
    evalPars s i x d p = d p := evalPars_deriv s i x d p hder

theorem advVal_congr (s : Spec) (t : Rat) (x : Stock) (cv pv pv' : Vals) (p : Nat) (hself : pv p = pv' p)
    (h : ∀ q, q ∈ parRefsOf (kindRefs (s.pars p).kind) → pv q = pv' q) : advVal s t x cv pv p = advVal s t x cv pv' p := by
  unfold advVal
  simp only
  rw [hself, rawVal_congr _ _ t _ (refVal_congr s.net x cv pv pv' t s.dt _ h)]

theorem foldlD_snd_other (s : Spec) (t : Rat) (x : Stock) (cv : Vals) : ∀ (l : List Nat) (st : Vals × Vals) (q : Nat),
    (q ∉ l ∨ (s.pars q).deriv = false) → (l.foldl (advStep s t x cv) st).2 q = st.2 q := by
  intro l
  induction l with
  | nil => intro st q _; rfl
  | cons a rest ih =>
    intro st q hq
    simp only [List.foldl_cons]
    rw [ih _ q (hq.imp (fun hn hm => hn (List.mem_cons_of_mem _ hm)) id)]
    unfold advStep
    simp only
    split
    · rename_i hder
      unfold setAt
      split
      · rename_i hqa
        subst hqa
        rcases hq with hq | hq
        · exact absurd List.mem_cons_self hq
        · rw [hq] at hder; exact absurd hder (by simp)
      · rfl
    · rfl

/-- the Euler step taken when `update_pars` visits a derivative parameter equals the step computed from the FINAL values of the index -/
theorem foldlD_fixpoint (s : Spec) (t : Rat) (x : Stock) (cv : Vals) : ∀ (l done : List Nat) (st : Vals × Vals),
    okOrder s done l = true → ∀ p, p ∈ l → (s.pars p).deriv = true →
    (l.foldl (advStep s t x cv) st).2 p = advVal s t x cv (l.foldl (parStep s t x cv) st.1) p := by
  intro l
  induction l with
  | nil => intro _ _ _ p hp; simp at hp
  | cons a rest ih =>
    intro done st hok p hp hder
    have hok' := hok
    simp only [okOrder, Bool.and_eq_true, Bool.not_eq_true', List.contains_eq_mem, decide_eq_false_iff_not,
      List.all_eq_true, Bool.or_eq_true, decide_eq_true_eq] at hok'
    obtain ⟨⟨_, hrefs⟩, hrest⟩ := hok'
    simp only [List.foldl_cons]
    have ha_rest : a ∉ rest := okOrder_done_not_mem s rest (a :: done) hrest a (List.mem_cons_self)
    by_cases hpa : p = a
    · subst hpa
      rw [foldlD_snd_other s t x cv rest _ p (Or.inl ha_rest)]
      have hself : (advStep s t x cv st p).2 p = advVal s t x cv st.1 p := by simp [advStep, hder, setAt]
      rw [hself]
      have hfx : isFixed (s.pars p) = true := by unfold isFixed; simp [hder]
      apply advVal_congr
      · rw [foldl_other s t x cv rest _ p (Or.inr hfx)]
        simp only [parStep, setAt, if_true, parVal_fixed hfx]
      · intro q hq
        rcases hrefs q hq with hqd | hqdone
        · rw [foldl_other s t x cv rest _ q (Or.inr hqd)]
          unfold parStep setAt
          split
          · rename_i hqp; subst hqp; rw [parVal_fixed hqd]
          · rfl
        · have hq_not : q ∉ p :: rest := okOrder_done_not_mem s (p :: rest) done hok q hqdone
          rw [foldl_other s t x cv rest _ q (Or.inl (fun hm => hq_not (List.mem_cons_of_mem _ hm)))]
          unfold parStep setAt
          split
          · rename_i hqp; subst hqp; exact absurd (List.mem_cons_self) hq_not
          · rfl
    · simp only [List.mem_cons] at hp
      rcases hp with hp | hp
      · exact absurd hp hpa
      · exact ih (a :: done) _ hrest p hp hder

/-- **closed_derivative_step**: the value a derivative parameter has at index `i+1` is the Euler step
    `clip(value[i] + scale · f(values of index i) · dt)` (`advVal`), where `f` reads the FINAL parameter values of index `i` on the
    state of index `i` — for every index, every state and every derivative state.  With a topological execution order this is what
    the code computes when `update_pars` reaches the parameter (its non-derivative dependencies have been evaluated, derivative
    ones — itself included — still hold `value[i]`). -/
theorem closed_derivative_step (s : Spec) (hd : depsBefore s = true) (i : Nat) (x : Stock) (d : Vals) (p : Nat) (hp : p ∈ s.porder)
    (hder : (s.pars p).deriv = true) :
    nextD s i x d p = advVal s (Grid.point s.start s.dt i) x (evalCharacs s x) (evalPars s i x d) p := by
  unfold nextD evalParsD evalPars
  exact foldlD_fixpoint s _ x _ s.porder [] _ hd p hp hder

/-- … spelled out: the recurrence `value[i+1] = clip(value[i] + scale · f · dt)` -/
theorem closed_derivative_step_val (s : Spec) (hd : depsBefore s = true) (i : Nat) (x : Stock) (d : Vals) (p : Nat) (hp : p ∈ s.porder)
    (hder : (s.pars p).deriv = true) {e : Expr.Py} {deps : List (String × List Ref)} (hk : (s.pars p).kind = .fn e deps)
    {v f : Rat} (hv : d p = some v)
    (hf : evalFn e (envOf (refVal s.net x (evalCharacs s x) (evalPars s i x d) (Grid.point s.start s.dt i) s.dt) deps) = some f) :
    nextD s i x d p = some (clipLim (s.pars p).lo (s.pars p).hi (v + (s.pars p).scale * f * s.dt)) := by
  rw [closed_derivative_step s hd i x d p hp hder]
  unfold advVal
  simp only [hk, rawVal, hf, evalPars_deriv s i x d p hder, hv]

/-- … and that IS the parameter's value at the next index, whatever the next state is -/
theorem closed_derivative_next_value (s : Spec) (i : Nat) (x x' : Stock) (d : Vals) (p : Nat) (hder : (s.pars p).deriv = true) :
    evalPars s (i + 1) x' (nextD s i x d) p = nextD s i x d p := evalPars_deriv s (i + 1) x' _ p hder

/-- the values of the derivative parameters at the entries of a trajectory whose first entry has index `i` and derivative values `d` -/
def closedDs (s : Spec) : Nat → Vals → List (Stock × Flow) → List Vals
  | _, _, [] => []
  | i, d, (x, _) :: rest => d :: closedDs s (i + 1) (nextD s i x d) rest

/-- **closed_derivative_run**: along every run, consecutive entries `k`, `k+1` satisfy the recurrence — entry `k` = (stocks `x`, flows)
    entered with the derivative values `dk`, entry `k+1` with `dk'`: `dk' p = clip(dk p + scale · f(values of index i+k on x) · dt)` -/
theorem closed_derivative_run (s : Spec) (hd : depsBefore s = true) (p : Nat) (hp : p ∈ s.porder) (hder : (s.pars p).deriv = true) :
    ∀ (traj : List (Stock × Flow)) (i : Nat) (d : Vals) (k : Nat) (x : Stock) (fl : Flow) (dk dk' : Vals),
    traj[k]? = some (x, fl) → (closedDs s i d traj)[k]? = some dk → (closedDs s i d traj)[k + 1]? = some dk' →
    dk' p = advVal s (Grid.point s.start s.dt (i + k)) x (evalCharacs s x) (evalPars s (i + k) x dk) p := by
  intro traj
  induction traj with
  | nil => intro i d k x fl dk dk' h; simp at h
  | cons e rest ih =>
    intro i d k x fl dk dk' hx hk hk'
    obtain ⟨x0, fl0⟩ := e
    cases k with
    | zero =>
      simp only [List.getElem?_cons_zero, Option.some.injEq, Prod.mk.injEq] at hx
      obtain ⟨rfl, rfl⟩ := hx
      simp only [closedDs, List.getElem?_cons_zero, Option.some.injEq] at hk
      subst hk
      simp only [closedDs, List.getElem?_cons_succ] at hk'
      cases rest with
      | nil => simp [closedDs] at hk'
      | cons e2 rest2 =>
        obtain ⟨x2, fl2⟩ := e2
        simp only [closedDs, List.getElem?_cons_zero, Option.some.injEq] at hk'
        subst hk'
        exact closed_derivative_step s hd i x0 d p hp hder
    | succ k =>
      simp only [List.getElem?_cons_succ] at hx
      simp only [closedDs, List.getElem?_cons_succ] at hk hk'
      have := ih (i + 1) (nextD s i x0 d) k x fl dk dk' hx hk hk'
      rw [show i + (k + 1) = i + 1 + k by omega]
      exact this

/-- the Euler step of a visited derivative parameter is `advVal` on SOME valuation that holds `d p` at `p`
    (no hypothesis on the order: enough for rates that do not depend on anything) -/
theorem foldlD_visit (s : Spec) (t : Rat) (x : Stock) (cv : Vals) (p : Nat) (hder : (s.pars p).deriv = true) (v0 : Option Rat) :
    ∀ (l : List Nat) (st : Vals × Vals), st.1 p = v0 → p ∈ l →
    ∃ pv', pv' p = v0 ∧ (l.foldl (advStep s t x cv) st).2 p = advVal s t x cv pv' p := by
  have hfx : isFixed (s.pars p) = true := by unfold isFixed; simp [hder]
  intro l
  induction l with
  | nil => intro _ _ hp; simp at hp
  | cons a rest ih =>
    intro st h1 hp
    simp only [List.foldl_cons]
    have h1' : (advStep s t x cv st a).1 p = v0 := by
      show parStep s t x cv st.1 a p = v0
      unfold parStep setAt
      split
      · rename_i hpa; subst hpa; rw [parVal_fixed hfx]; exact h1
      · exact h1
    by_cases hin : p ∈ rest
    · exact ih _ h1' hin
    · simp only [List.mem_cons] at hp
      rcases hp with hpa | hp
      · subst hpa
        refine ⟨st.1, h1, ?_⟩
        rw [foldlD_snd_other s t x cv rest _ p (Or.inl hin)]
        simp [advStep, hder, setAt]
      · exact absurd hp hin

theorem nextD_visit (s : Spec) (i : Nat) (x : Stock) (d : Vals) (p : Nat) (hp : p ∈ s.porder) (hder : (s.pars p).deriv = true) :
    ∃ pv', pv' p = d p ∧ nextD s i x d p = advVal s (Grid.point s.start s.dt i) x (evalCharacs s x) pv' p := by
  unfold nextD evalParsD
  apply foldlD_visit s _ x _ p hder (d p) s.porder _ _ hp
  show basePars s _ d p = d p
  unfold basePars
  simp only [hder, if_true]

/-- one step with a rate that is the constant `c` whatever it reads -/
theorem nextD_const_rate (s : Spec) (i : Nat) (x : Stock) (d : Vals) (p : Nat) (hp : p ∈ s.porder) (hder : (s.pars p).deriv = true)
    {e : Expr.Py} {deps : List (String × List Ref)} (hk : (s.pars p).kind = .fn e deps) {c : Rat} (hc : ∀ env, evalFn e env = some c)
    {v : Rat} (hv : d p = some v) :
    nextD s i x d p = some (clipLim (s.pars p).lo (s.pars p).hi (v + (s.pars p).scale * c * s.dt)) := by
  obtain ⟨pv', hpv', hn⟩ := nextD_visit s i x d p hp hder
  rw [hn]
  unfold advVal
  simp only [hk, rawVal, hc, hpv', hv]

/-- **closed_derivative_constant**: a derivative parameter whose function is identically 0 keeps, at every entry of every run, the
    value it was entered with (a value that came out of `constrain`, as every value the loop produces does) -/
theorem closed_derivative_constant (s : Spec) (p : Nat) (hp : p ∈ s.porder) (hder : (s.pars p).deriv = true)
    {e : Expr.Py} {deps : List (String × List Ref)} (hk : (s.pars p).kind = .fn e deps) (hz : ∀ env, evalFn e env = some 0) :
    ∀ (traj : List (Stock × Flow)) (i : Nat) (d : Vals) (w : Rat), d p = some (clipLim (s.pars p).lo (s.pars p).hi w) →
    ∀ d', d' ∈ closedDs s i d traj → d' p = d p := by
  intro traj
  induction traj with
  | nil => intro i d w _ d' h; simp [closedDs] at h
  | cons e0 rest ih =>
    intro i d w hw d' hd'
    obtain ⟨x, fl⟩ := e0
    simp only [closedDs, List.mem_cons] at hd'
    rcases hd' with rfl | hd'
    · rfl
    · have hn : nextD s i x d p = d p := by
        rw [nextD_const_rate s i x d p hp hder hk hz hw, hw]
        simp only [mul_zero, zero_mul, add_zero, clipLim_idem]
      have := ih (i + 1) (nextD s i x d) w (by rw [hn]; exact hw) d' hd'
      rw [this, hn]

/-- … for a whole simulation: the parameter has its (clipped) databook value of index 0 at every index -/
theorem closed_derivative_constant_sim (s : Spec) (p : Nat) (hp : p ∈ s.porder) (hder : (s.pars p).deriv = true)
    {e : Expr.Py} {deps : List (String × List Ref)} (hk : (s.pars p).kind = .fn e deps) (hz : ∀ env, evalFn e env = some 0)
    {v0 : Rat} (hv0 : baseVal (s.pars p) (Grid.point s.start s.dt 0) = some v0) (traj : List (Stock × Flow)) :
    ∀ d', d' ∈ closedDs s 0 (initD s) traj → d' p = some v0 := by
  have hi : initD s p = some v0 := by unfold initD; simp only [hder, if_true]; exact hv0
  have hw : ∃ w, v0 = clipLim (s.pars p).lo (s.pars p).hi w := by
    unfold baseVal at hv0
    split at hv0
    · exact absurd hv0 (by simp)
    · split at hv0
      · exact ⟨_, (Option.some.inj hv0).symm⟩
      · exact absurd hv0 (by simp)
  obtain ⟨w, hw⟩ := hw
  intro d' hd'
  rw [closed_derivative_constant s p hp hder hk hz traj 0 (initD s) w (by rw [hi, hw]) d' hd', hi]

/-- **closed_derivative_linear**: a derivative parameter whose function is the constant `c`, without limits, grows linearly: at the
    k-th entry of every run its value is `v0 + k · (scale · c · dt)` -/
theorem closed_derivative_linear (s : Spec) (p : Nat) (hp : p ∈ s.porder) (hder : (s.pars p).deriv = true)
    {e : Expr.Py} {deps : List (String × List Ref)} (hk : (s.pars p).kind = .fn e deps) {c : Rat} (hc : ∀ env, evalFn e env = some c)
    (hlo : (s.pars p).lo = none) (hhi : (s.pars p).hi = none) :
    ∀ (traj : List (Stock × Flow)) (i : Nat) (d : Vals) (v0 : Rat), d p = some v0 →
    ∀ (k : Nat) (d' : Vals), (closedDs s i d traj)[k]? = some d' → d' p = some (v0 + (k : Rat) * ((s.pars p).scale * c * s.dt)) := by
  intro traj
  induction traj with
  | nil => intro i d v0 _ k d' h; simp [closedDs] at h
  | cons e0 rest ih =>
    intro i d v0 hv k d' hk'
    obtain ⟨x, fl⟩ := e0
    cases k with
    | zero =>
      simp only [closedDs, List.getElem?_cons_zero, Option.some.injEq] at hk'
      subst hk'
      rw [hv]; simp
    | succ k =>
      simp only [closedDs, List.getElem?_cons_succ] at hk'
      have hn : nextD s i x d p = some (v0 + (s.pars p).scale * c * s.dt) := by
        rw [nextD_const_rate s i x d p hp hder hk hc hv, hlo, hhi]
        rfl
      rw [ih (i + 1) (nextD s i x d) _ hn k d' hk']
      congr 1
      push_cast
      ring

/-! ### non-vacuity -/

/-- A. `exSpec` with a scenario on the function parameter `a` (parameter 4) from t = 2000.5 on:
    baseline value at index 0 (pre-interpolated), 1/2 from the scenario start on -/
def exScenPars : Nat → ParSpec := fun p =>
  if p = 4 then { exPars 4 with data := some { raw := [(some 2000, some (1/100)), (some (4001/2), some (1/2))], assumption := none },
                                skip := some ⟨4001/2, none⟩ }
  else exPars p

def exScen : Spec := withPars exSpec exScenPars

example : wfSpec exScen = true := by decide +kernel
/-- index 1 (t = 2000.5) is inside the window: `a` has the scenario value times its scale factor, not `(t-1999)/100` -/
example : skipped (exScen.pars 4) (Grid.point exScen.start exScen.dt 1) = true
    ∧ evalPars exScen 1 exScen.init (initD exScen) 4 = some (1/200) := by
  decide +kernel
example : evalPars exSpec 1 exSpec.init (initD exSpec) 4 = some (3/200) := by decide +kernel
/-- … and the transition function that reads `a` follows -/
example : evalPars exScen 1 exScen.init (initD exScen) 0 ≠ evalPars exSpec 1 exSpec.init (initD exSpec) 0 := by decide +kernel
/-- index 0 lies before the window: the hypotheses of `closed_before_window_unchanged` hold with m = 1 -/
example : simulateN exScen 1 = simulateN exSpec 1 := by
  apply closed_before_window_unchanged exSpec exScenPars _ (by decide +kernel) _ 1 (by decide)
  · intro i hi
    have : i = 0 := by omega
    subst this
    intro p
    by_cases hp : p = 4
    · subst hp
      exact ⟨by decide +kernel, by intro hh; rcases hh with hh | hh | hh <;> exact absurd hh (by decide +kernel)⟩
    · have : exScenPars p = exSpec.pars p := by simp [exScenPars, hp, exSpec]
      rw [this]
      exact ⟨rfl, fun _ => rfl⟩
  · intro p
    by_cases hp : p = 4
    · subst hp; exact ⟨rfl, rfl, rfl, rfl, rfl⟩
    · have : exScenPars p = exSpec.pars p := by simp [exScenPars, hp, exSpec]
      rw [this]
      exact ⟨rfl, rfl, rfl, rfl, rfl⟩
  · intro p hder
    by_cases hp : p = 4
    · subst hp; exact absurd hder (by decide +kernel)
    · have : exScenPars p = exSpec.pars p := by simp [exScenPars, hp, exSpec]
      rw [this]

/-- B. `exSpec` where `a` (parameter 4, read by the transition function of parameter 0) is a DERIVATIVE parameter: databook value
    1/100, rate `2/100` per year (constant function), upper limit 1/20; dt = 1/2, so a = 1/100, 2/100, 3/100, 4/100, 5/100, 5/100, … -/
def exRate : Expr.Py := .node (.constant (.float (some (2/100)))) []

def exDerPars : Nat → ParSpec := fun p =>
  if p = 4 then { data := some (cst (1/100)), scale := 1, lo := none, hi := some (1/20), kind := .fn exRate [], deriv := true }
  else exPars p

def exDer : Spec := { exSpec with pars := exDerPars, npts := 3 }

/-- the same without the upper limit (for `closed_derivative_linear`) -/
def exDerFree : Spec :=
  { exDer with pars := fun p => if p = 4 then { exDerPars 4 with hi := none } else exDerPars p }

/-- a rate that reads the parameter itself and a compartment: `acc*0.01 + c0` with `acc` = the parameter (self-reference allowed) -/
def exSelfTree : Expr.Py :=
  .node (.binOp .add) [ .node (.binOp .mult) [ .node (.name "acc") [], .node (.constant (.float (some (1/100)))) [] ], .node (.name "c0") [] ]

def exDerSelf : Spec :=
  { exDer with pars := fun p => if p = 4 then { exDerPars 4 with hi := none, kind := .fn exSelfTree [("acc", [.par 4]), ("c0", [.comp 0])] }
                                else exDerPars p }

example : wfSpec exDer = true ∧ wfSpec exDerFree = true ∧ wfSpec exDerSelf = true := by decide +kernel
example : depsBefore exDer = true ∧ depsBefore exDerSelf = true := by decide +kernel
/-- the value of index 0 is the databook value; the Euler step gives 1/100 + 2/100 · 1/2 = 2/100 for index 1, on any state -/
example : evalPars exDer 0 exDer.init (initD exDer) 4 = some (1/100) ∧ nextD exDer 0 exDer.init (initD exDer) 4 = some (2/100) := by
  decide +kernel
/-- `closed_derivative_step_val` applies (all hypotheses hold) and gives the same number -/
example : nextD exDer 0 exDer.init (initD exDer) 4 = some (clipLim none (some (1/20)) (1/100 + 1 * (2/100) * (1/2))) :=
  closed_derivative_step_val exDer (by decide +kernel) 0 exDer.init (initD exDer) 4 (by decide +kernel) (by decide +kernel)
    (e := exRate) (deps := []) rfl (by decide +kernel) (by decide +kernel)
/-- the transition function (parameter 0) reads the derivative parameter: its value of index 1 uses a = 2/100, not the databook 1/100 -/
example : evalPars exDer 1 exDer.init (nextD exDer 0 exDer.init (initD exDer)) 0 = some (3/25)
    ∧ evalPars exDer 1 exDer.init (initD exDer) 0 = some (3/50) := by
  decide +kernel
/-- the whole run is defined (3 points) -/
example : (simulateN exDer 3).isSome = true := by decide +kernel
/-- the upper limit bites from the fifth value on: four Euler steps from 1/100 reach 5/100 = 1/20, the fifth is clipped -/
example : let d1 := nextD exDer 0 exDer.init (initD exDer)
          let d2 := nextD exDer 1 exDer.init d1
          let d3 := nextD exDer 2 exDer.init d2
          let d4 := nextD exDer 3 exDer.init d3
          let d5 := nextD exDer 4 exDer.init d4
          [d1 4, d2 4, d3 4, d4 4, d5 4] = [some (2/100), some (3/100), some (4/100), some (5/100), some (5/100)] := by
  decide +kernel
theorem exRate_const : ∀ env, evalFn exRate env = some (2/100) := by
  intro env
  rfl
/-- `closed_derivative_linear` applies to `exDerFree`: the k-th entry of any run holds 1/100 + k · (1 · 2/100 · 1/2) -/
example (traj : List (Stock × Flow)) (k : Nat) (d' : Vals) (h : (closedDs exDerFree 0 (initD exDerFree) traj)[k]? = some d') :
    d' 4 = some (1/100 + (k : Rat) * (1 * (2/100) * (1/2))) :=
  closed_derivative_linear exDerFree 4 (by decide +kernel) (by decide +kernel) (e := exRate) (deps := []) rfl
    exRate_const (by decide +kernel) (by decide +kernel) traj 0 (initD exDerFree) (1/100) (by decide +kernel) k d' h
/-- self-reference: the rate of index 0 is `a·0.01 + c0` = 1/10000 + 100 on the initial stocks, so a(1) = 1/100 + (1/10000 + 100)/2 -/
example : nextD exDerSelf 0 exDerSelf.init (initD exDerSelf) 4 = some (1/100 + (1/10000 + 100) * (1/2)) := by decide +kernel

end Atomica.C03
