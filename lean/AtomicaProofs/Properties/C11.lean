/-
  C11 — "Program coverage is a bounded, monotone function of spending."

  Theorems about `Atomica.Coverage` (the executable model that harness/props/c11.py compares, value by
  value, with `Program.get_capacity`, `Program.get_prop_covered`, `ProgramSet.get_alloc /
  get_capacities / get_prop_coverage` and `Result.get_coverage`).

  `E` is the abstract exponential: every theorem assumes `ExpLike E` (positive, monotone, `E 0 = 1`);
  only `cov_le_capcon` / `cov_le_raw` additionally assume the Padé bound `PadeBound E`.  Both are proved
  for `Real.exp` in `AtomicaProofs/Properties/C11Real.lean` (`satcurve_real`), and a rational `E`
  satisfying both is exhibited below (`Eq`), so no theorem is vacuous.
-/
import AtomicaModel.Coverage
import AtomicaProofs.Lemmas.Coverage
import Mathlib.Algebra.Order.Field.Rat
import Mathlib.Tactic.NormNum

namespace Atomica.C11
open Atomica Atomica.Coverage Atomica.CoverageLemmas

/-! ### Bridges between the executable definitions and the order-theoretic vocabulary -/

theorem minQ_eq_min (a b : ℚ) : minQ a b = min a b := by
  unfold minQ; rw [min_def]

theorem divQ_ne {a b : ℚ} (hb : b ≠ 0) : divQ a b = some (a / b) := by
  unfold divQ; rw [if_neg hb]

/-- spending per timestep-compatible unit divided by the unit cost -/
def rawCap (spend uc dt : ℚ) (oneOff : Bool) : ℚ := (if oneOff then spend * dt else spend) / uc

/-- the capacity constraint in people -/
def conEff (k dt : ℚ) (perYear : Bool) : ℚ := if perYear then k * dt else k

theorem capacity_none {spend uc dt : ℚ} (huc : uc ≠ 0) (oneOff perYear : Bool) :
    capacity spend uc dt oneOff none perYear = some (rawCap spend uc dt oneOff) := by
  unfold capacity rawCap; rw [divQ_ne huc]

theorem capacity_some {spend uc dt : ℚ} (huc : uc ≠ 0) (oneOff perYear : Bool) (k : ℚ) :
    capacity spend uc dt oneOff (some k) perYear
      = some (min (conEff k dt perYear) (rawCap spend uc dt oneOff)) := by
  unfold capacity rawCap conEff; rw [divQ_ne huc]; simp only [minQ_eq_min]

theorem rawCap_nonneg {spend uc dt : ℚ} (hs : 0 ≤ spend) (huc : 0 < uc) (hdt : 0 ≤ dt) (oneOff : Bool) :
    0 ≤ rawCap spend uc dt oneOff := by
  unfold rawCap; cases oneOff <;> simp <;> positivity

theorem rawCap_mono_spend {a b uc dt : ℚ} (hab : a ≤ b) (huc : 0 < uc) (hdt : 0 ≤ dt) (oneOff : Bool) :
    rawCap a uc dt oneOff ≤ rawCap b uc dt oneOff := by
  unfold rawCap
  apply div_le_div_of_nonneg_right _ huc.le
  cases oneOff <;> simp
  · exact hab
  · exact mul_le_mul_of_nonneg_right hab hdt

theorem rawCap_anti_unitcost {spend u v dt : ℚ} (hs : 0 ≤ spend) (hu : 0 < u) (huv : u ≤ v) (hdt : 0 ≤ dt)
    (oneOff : Bool) : rawCap spend v dt oneOff ≤ rawCap spend u dt oneOff := by
  unfold rawCap
  apply div_le_div_of_nonneg_left _ hu huv
  cases oneOff <;> simp <;> positivity

theorem conEff_nonneg {k dt : ℚ} (hk : 0 ≤ k) (hdt : 0 ≤ dt) (perYear : Bool) : 0 ≤ conEff k dt perYear := by
  unfold conEff; cases perYear <;> simp <;> positivity

/-- well-formedness of the optional values: capacity constraint `≥ 0`, saturation `> 0` -/
def OptNonneg : Option ℚ → Prop
  | none => True
  | some k => 0 ≤ k

def OptPos : Option ℚ → Prop
  | none => True
  | some s => 0 < s

/-- **capacity is defined, non-negative and below the constraint** (spend ≥ 0, unit cost > 0) -/
theorem capacity_spec {spend uc dt : ℚ} (hs : 0 ≤ spend) (huc : 0 < uc) (hdt : 0 ≤ dt) (oneOff perYear : Bool)
    (capCon : Option ℚ) (hk : OptNonneg capCon) :
    ∃ c, capacity spend uc dt oneOff capCon perYear = some c ∧ 0 ≤ c ∧ c ≤ rawCap spend uc dt oneOff ∧
      ∀ k, capCon = some k → c ≤ conEff k dt perYear := by
  cases capCon with
  | none =>
    exact ⟨_, capacity_none huc.ne' _ _, rawCap_nonneg hs huc hdt _, le_refl _, by intro k hk; cases hk⟩
  | some k =>
    refine ⟨_, capacity_some huc.ne' _ _ k, le_min (conEff_nonneg hk hdt _) (rawCap_nonneg hs huc hdt _),
      min_le_right _ _, ?_⟩
    intro k' hk'; cases hk'; exact min_le_left _ _

/-! ### The fraction covered, in closed form -/

theorem prop_nosat_lt {E : ℚ → ℚ} {cap elig : ℚ} (h0 : 0 ≤ cap) (h : cap < elig) :
    propCovered E cap elig none = some (cap / elig) := by
  have : elig ≠ 0 := by intro h'; rw [h'] at h; linarith
  simp only [propCovered, gt_iff_lt, h, if_true, divQ_ne this]

theorem prop_nosat_ge {E : ℚ → ℚ} {cap elig : ℚ} (h : elig ≤ cap) :
    propCovered E cap elig none = some 1 := by
  simp only [propCovered, gt_iff_lt, not_lt.mpr h, if_false]

theorem prop_sat_zero {E : ℚ → ℚ} {cap s : ℚ} (hs : 0 < s) :
    propCovered E cap 0 (some s) = some (min s 1) := by
  simp only [propCovered, not_le.mpr hs, if_false, if_true, minQ_eq_min]

theorem prop_sat_pos {E : ℚ → ℚ} (hE : ExpLike E) {cap elig s : ℚ} (hs : 0 < s) (he : elig ≠ 0) :
    propCovered E cap elig (some s) = some (min (curve E s (cap / elig)) 1) := by
  have h1 : (1 : ℚ) + E (-2 * (cap / elig) / s) ≠ 0 := by
    have := hE.pos (-2 * (cap / elig) / s); linarith
  simp only [propCovered, not_le.mpr hs, if_false, he, satCurve, divQ_ne h1, Option.map_some, minQ_eq_min,
    curve]

/-! ### Bounds -/

/-- **cov_bounds** — the fraction covered is defined and lies in `[0,1]`
    (capacity ≥ 0, eligible ≥ 0 including 0, saturation > 0 when present). -/
theorem cov_bounds {E : ℚ → ℚ} (hE : ExpLike E) {cap elig : ℚ} (hc : 0 ≤ cap) (he : 0 ≤ elig)
    (sat : Option ℚ) (hsat : OptPos sat) :
    ∃ v, propCovered E cap elig sat = some v ∧ 0 ≤ v ∧ v ≤ 1 := by
  cases sat with
  | none =>
    rcases lt_or_ge cap elig with h | h
    · have hpos : 0 < elig := lt_of_le_of_lt hc h
      refine ⟨_, prop_nosat_lt hc h, by positivity, ?_⟩
      rw [div_le_one hpos]; exact h.le
    · exact ⟨1, prop_nosat_ge h, by norm_num, le_refl _⟩
  | some s =>
    have hs : 0 < s := hsat
    rcases eq_or_ne elig 0 with h | h
    · subst h
      exact ⟨_, prop_sat_zero hs, le_min hs.le (by norm_num), min_le_right _ _⟩
    · have hpos : 0 < elig := lt_of_le_of_ne he (Ne.symm h)
      refine ⟨_, prop_sat_pos hE hs h, le_min (curve_nonneg hE hs (by positivity)) (by norm_num),
        min_le_right _ _⟩

/-- **cov_le_sat** — with a saturation value the fraction covered never exceeds it -/
theorem cov_le_sat {E : ℚ → ℚ} (hE : ExpLike E) {cap elig s : ℚ} (hs : 0 < s) :
    ∃ v, propCovered E cap elig (some s) = some v ∧ v ≤ s := by
  rcases eq_or_ne elig 0 with h | h
  · subst h; exact ⟨_, prop_sat_zero hs, min_le_left _ _⟩
  · exact ⟨_, prop_sat_pos hE hs h, le_trans (min_le_left _ _) (curve_lt_sat hE _ hs).le⟩

/-- **cov_le_raw** — somebody eligible: the fraction covered never exceeds capacity / eligible -/
theorem cov_le_raw {E : ℚ → ℚ} (hE : ExpLike E) (hP : PadeBound E) {cap elig : ℚ} (hc : 0 ≤ cap)
    (he : 0 < elig) (sat : Option ℚ) (hsat : OptPos sat) :
    ∃ v, propCovered E cap elig sat = some v ∧ v ≤ cap / elig := by
  cases sat with
  | none =>
    rcases lt_or_ge cap elig with h | h
    · exact ⟨_, prop_nosat_lt hc h, le_refl _⟩
    · refine ⟨1, prop_nosat_ge h, ?_⟩
      rw [le_div_iff₀ he]; linarith
  | some s =>
    have hs : 0 < s := hsat
    exact ⟨_, prop_sat_pos hE hs he.ne', le_trans (min_le_left _ _) (curve_le_raw hP hE hs (by positivity))⟩

/-! ### Monotonicity in the capacity -/

/-- the fraction covered is monotone in the capacity -/
theorem cov_mono_cap {E : ℚ → ℚ} (hE : ExpLike E) {c₁ c₂ elig : ℚ} (h0 : 0 ≤ c₁) (h12 : c₁ ≤ c₂)
    (he : 0 ≤ elig) (sat : Option ℚ) (hsat : OptPos sat) :
    ∃ v₁ v₂, propCovered E c₁ elig sat = some v₁ ∧ propCovered E c₂ elig sat = some v₂ ∧ v₁ ≤ v₂ := by
  have h0' : 0 ≤ c₂ := le_trans h0 h12
  cases sat with
  | none =>
    rcases lt_or_ge c₂ elig with h | h
    · have h1 : c₁ < elig := lt_of_le_of_lt h12 h
      have hpos : 0 < elig := lt_of_le_of_lt h0' h
      exact ⟨_, _, prop_nosat_lt h0 h1, prop_nosat_lt h0' h, div_le_div_of_nonneg_right h12 hpos.le⟩
    · obtain ⟨v, hv, _, hv1⟩ := cov_bounds hE h0 he none trivial
      exact ⟨v, 1, hv, prop_nosat_ge h, hv1⟩
  | some s =>
    have hs : 0 < s := hsat
    rcases eq_or_ne elig 0 with h | h
    · subst h; exact ⟨_, _, prop_sat_zero hs, prop_sat_zero hs, le_refl _⟩
    · have hpos : 0 < elig := lt_of_le_of_ne he (Ne.symm h)
      refine ⟨_, _, prop_sat_pos hE hs h, prop_sat_pos hE hs h, min_le_min_right _ ?_⟩
      exact curve_mono hE hs (div_le_div_of_nonneg_right h12 hpos.le)

/-! ### The whole pipeline of one program at one time point -/

/-- no overwrite in the instructions -/
def noOv : InstrAt := ⟨none, none, none⟩

/-- hypotheses of the property on the program-book values -/
structure WellFormed (p : ProgAt) : Prop where
  spend : 0 ≤ p.spend
  unitCost : 0 < p.unitCost
  capCon : OptNonneg p.capCon
  sat : OptPos p.sat

theorem effective_noOv (E : ℚ → ℚ) (p : ProgAt) (dt elig : ℚ) :
    effective E noOv p dt elig =
      (capacity p.spend p.unitCost dt p.oneOff p.capCon p.capPerYear).bind
        (fun cap => (propCovered E cap elig p.sat).map (minQ · 1)) := by
  simp only [effective, noOv, capacityAt, allocAt, Option.getD_none]
  cases capacity p.spend p.unitCost dt p.oneOff p.capCon p.capPerYear <;> rfl

/-- unfolding lemma: with well-formed inputs the pipeline is capacity then fraction covered,
    and the final `min(·,1)` changes nothing -/
theorem effective_spec {E : ℚ → ℚ} (hE : ExpLike E) {p : ProgAt} (hp : WellFormed p) {dt elig : ℚ}
    (hdt : 0 ≤ dt) (he : 0 ≤ elig) :
    ∃ cap v, capacity p.spend p.unitCost dt p.oneOff p.capCon p.capPerYear = some cap ∧ 0 ≤ cap ∧
      propCovered E cap elig p.sat = some v ∧ 0 ≤ v ∧ v ≤ 1 ∧ effective E noOv p dt elig = some v := by
  obtain ⟨cap, hcap, hc0, _, _⟩ := capacity_spec hp.spend hp.unitCost hdt p.oneOff p.capPerYear p.capCon hp.capCon
  obtain ⟨v, hv, hv0, hv1⟩ := cov_bounds hE hc0 he p.sat hp.sat
  refine ⟨cap, v, hcap, hc0, hv, hv0, hv1, ?_⟩
  rw [effective_noOv, hcap, Option.bind_some, hv, Option.map_some, minQ_eq_min, min_eq_left hv1]

/-- **cov_bounds_effective** — whatever non-negative overwrites the instructions hold, the coverage
    returned by `get_prop_coverage` is defined and lies in `[0,1]`. -/
theorem cov_bounds_effective {E : ℚ → ℚ} (hE : ExpLike E) {p : ProgAt} (hp : WellFormed p) (i : InstrAt)
    (ha : OptNonneg i.alloc) (hk : OptNonneg i.capacity) (hc : OptNonneg i.coverage) {dt elig : ℚ}
    (hdt : 0 ≤ dt) (he : 0 ≤ elig) :
    ∃ v, effective E i p dt elig = some v ∧ 0 ≤ v ∧ v ≤ 1 := by
  obtain ⟨ia, ik, ic⟩ := i
  cases ic with
  | some c =>
    have hc0 : 0 ≤ c := hc
    refine ⟨_, rfl, ?_, ?_⟩ <;> rw [minQ_eq_min]
    · apply le_min _ (by norm_num); cases p.oneOff <;> simp <;> positivity
    · exact min_le_right _ _
  | none =>
    have key : ∀ cap, 0 ≤ cap → ∃ v, (propCovered E cap elig p.sat).map (minQ · 1) = some v ∧ 0 ≤ v ∧ v ≤ 1 := by
      intro cap h0
      obtain ⟨v, hv, hv0, hv1⟩ := cov_bounds hE h0 he p.sat hp.sat
      exact ⟨v, by rw [hv, Option.map_some, minQ_eq_min, min_eq_left hv1], hv0, hv1⟩
    cases ik with
    | some k =>
      have hk0 : 0 ≤ k := hk
      have h0 : 0 ≤ (if p.oneOff then k * dt else k) := by cases p.oneOff <;> simp <;> positivity
      obtain ⟨v, hv, hv0, hv1⟩ := key _ h0
      exact ⟨v, by simpa only [effective, capacityAt] using hv, hv0, hv1⟩
    | none =>
      have hsp : 0 ≤ allocAt ⟨ia, none, none⟩ p := by
        cases ia with
        | none => exact hp.spend
        | some a => exact ha
      obtain ⟨cap, hcap, hc0, _, _⟩ :=
        capacity_spec hsp hp.unitCost hdt p.oneOff p.capPerYear p.capCon hp.capCon
      obtain ⟨v, hv, hv0, hv1⟩ := key _ hc0
      refine ⟨v, ?_, hv0, hv1⟩
      simp only [effective, capacityAt, hcap]
      exact hv

/-- **cov_mono_spend** — raising the spending (everything else fixed: unit cost, step, capacity
    constraint of either kind, saturation or none, one-off or continuous, eligible ≥ 0) never lowers
    the fraction covered. -/
theorem cov_mono_spend {E : ℚ → ℚ} (hE : ExpLike E) {p : ProgAt} (hp : WellFormed p) {a b dt elig : ℚ}
    (ha : 0 ≤ a) (hab : a ≤ b) (hdt : 0 ≤ dt) (he : 0 ≤ elig) :
    ∃ v₁ v₂, effective E noOv { p with spend := a } dt elig = some v₁ ∧
      effective E noOv { p with spend := b } dt elig = some v₂ ∧ v₁ ≤ v₂ := by
  have hpa : WellFormed { p with spend := a } := ⟨ha, hp.unitCost, hp.capCon, hp.sat⟩
  have hpb : WellFormed { p with spend := b } := ⟨le_trans ha hab, hp.unitCost, hp.capCon, hp.sat⟩
  obtain ⟨c₁, v₁, hc₁, h0₁, hv₁, _, _, e₁⟩ := effective_spec hE hpa hdt he
  obtain ⟨c₂, v₂, hc₂, _, hv₂, _, _, e₂⟩ := effective_spec hE hpb hdt he
  refine ⟨v₁, v₂, e₁, e₂, ?_⟩
  have hcc : c₁ ≤ c₂ := by
    have hr := rawCap_mono_spend hab hp.unitCost hdt p.oneOff
    cases hcon : p.capCon with
    | none =>
      simp only [hcon, capacity_none hp.unitCost.ne'] at hc₁ hc₂
      cases hc₁; cases hc₂; exact hr
    | some k =>
      simp only [hcon, capacity_some hp.unitCost.ne'] at hc₁ hc₂
      cases hc₁; cases hc₂; exact min_le_min_left _ hr
  obtain ⟨w₁, w₂, hw₁, hw₂, hww⟩ := cov_mono_cap hE h0₁ hcc he p.sat hp.sat
  simp only at hv₁ hv₂
  rw [hv₁] at hw₁; rw [hv₂] at hw₂; cases hw₁; cases hw₂; exact hww

/-- **cov_anti_unitcost** — lowering the unit cost never lowers the fraction covered -/
theorem cov_anti_unitcost {E : ℚ → ℚ} (hE : ExpLike E) {p : ProgAt} (hp : WellFormed p) {u v dt elig : ℚ}
    (hu : 0 < u) (huv : u ≤ v) (hdt : 0 ≤ dt) (he : 0 ≤ elig) :
    ∃ v₁ v₂, effective E noOv { p with unitCost := v } dt elig = some v₁ ∧
      effective E noOv { p with unitCost := u } dt elig = some v₂ ∧ v₁ ≤ v₂ := by
  have hpv : WellFormed { p with unitCost := v } := ⟨hp.spend, lt_of_lt_of_le hu huv, hp.capCon, hp.sat⟩
  have hpu : WellFormed { p with unitCost := u } := ⟨hp.spend, hu, hp.capCon, hp.sat⟩
  obtain ⟨c₁, v₁, hc₁, h0₁, hv₁, _, _, e₁⟩ := effective_spec hE hpv hdt he
  obtain ⟨c₂, v₂, hc₂, _, hv₂, _, _, e₂⟩ := effective_spec hE hpu hdt he
  refine ⟨v₁, v₂, e₁, e₂, ?_⟩
  have hcc : c₁ ≤ c₂ := by
    have hr := rawCap_anti_unitcost hp.spend hu huv hdt p.oneOff
    cases hcon : p.capCon with
    | none =>
      simp only [hcon, capacity_none hpv.unitCost.ne', capacity_none hu.ne'] at hc₁ hc₂
      cases hc₁; cases hc₂; exact hr
    | some k =>
      simp only [hcon, capacity_some hpv.unitCost.ne', capacity_some hu.ne'] at hc₁ hc₂
      cases hc₁; cases hc₂; exact min_le_min_left _ hr
  obtain ⟨w₁, w₂, hw₁, hw₂, hww⟩ := cov_mono_cap hE h0₁ hcc he p.sat hp.sat
  simp only at hv₁ hv₂
  rw [hv₁] at hw₁; rw [hv₂] at hw₂; cases hw₁; cases hw₂; exact hww

/-- **cov_le_capcon** — with a capacity constraint `k` (people, or people/year × dt) and somebody
    eligible, the fraction covered never exceeds `k / eligible`, with or without saturation. -/
theorem cov_le_capcon {E : ℚ → ℚ} (hE : ExpLike E) (hP : PadeBound E) {p : ProgAt} (hp : WellFormed p)
    {k dt elig : ℚ} (hk : p.capCon = some k) (hdt : 0 ≤ dt) (he : 0 < elig) :
    ∃ v, effective E noOv p dt elig = some v ∧ v ≤ conEff k dt p.capPerYear / elig := by
  obtain ⟨cap, v, hcap, hc0, hv, _, _, e⟩ := effective_spec hE hp hdt he.le
  obtain ⟨_, hcap', _, _, hle⟩ :=
    capacity_spec hp.spend hp.unitCost hdt p.oneOff p.capPerYear p.capCon hp.capCon
  rw [hcap] at hcap'; cases hcap'
  obtain ⟨w, hw, hwle⟩ := cov_le_raw hE hP hc0 he p.sat hp.sat
  rw [hv] at hw; cases hw
  exact ⟨v, e, le_trans hwle (div_le_div_of_nonneg_right (hle k hk) he.le)⟩

/-- **cov_le_sat_effective** — and never exceeds the saturation level -/
theorem cov_le_sat_effective {E : ℚ → ℚ} (hE : ExpLike E) {p : ProgAt} (hp : WellFormed p)
    {s dt elig : ℚ} (hs : p.sat = some s) (hdt : 0 ≤ dt) (he : 0 ≤ elig) :
    ∃ v, effective E noOv p dt elig = some v ∧ v ≤ s := by
  obtain ⟨cap, v, _, _, hv, _, _, e⟩ := effective_spec hE hp hdt he
  have hs0 : 0 < s := by have := hp.sat; rw [hs] at this; exact this
  obtain ⟨w, hw, hws⟩ := cov_le_sat (cap := cap) (elig := elig) hE hs0
  rw [hs] at hv; rw [hv] at hw; cases hw
  exact ⟨v, e, hws⟩

/-- **cov_linear** — no saturation and capacity below the number eligible: the fraction covered is
    exactly capacity / eligible; unconstrained, that is `spending(·dt)/unit cost/eligible`. -/
theorem cov_linear {E : ℚ → ℚ} (hE : ExpLike E) {p : ProgAt} (hp : WellFormed p) {dt elig : ℚ}
    (hsat : p.sat = none) (hdt : 0 ≤ dt) (he : 0 ≤ elig) :
    ∃ cap, capacity p.spend p.unitCost dt p.oneOff p.capCon p.capPerYear = some cap ∧
      (cap < elig → effective E noOv p dt elig = some (cap / elig)) ∧
      (p.capCon = none → cap = rawCap p.spend p.unitCost dt p.oneOff) := by
  obtain ⟨cap, v, hcap, hc0, hv, _, _, e⟩ := effective_spec hE hp hdt he
  refine ⟨cap, hcap, ?_, ?_⟩
  · intro hlt
    rw [hsat, prop_nosat_lt hc0 hlt] at hv
    cases hv; exact e
  · intro hnone
    rw [hnone, capacity_none hp.unitCost.ne'] at hcap
    cases hcap; rfl

/-- **cov_nobody** — nobody eligible: coverage is 1 without saturation, `min 1 sat` with it -/
theorem cov_nobody {E : ℚ → ℚ} (hE : ExpLike E) {p : ProgAt} (hp : WellFormed p) {dt : ℚ} (hdt : 0 ≤ dt) :
    effective E noOv p dt 0 = some (match p.sat with | none => 1 | some s => min 1 s) := by
  obtain ⟨cap, v, _, hc0, hv, _, _, e⟩ := effective_spec hE hp hdt (le_refl 0)
  rw [e]
  cases hs : p.sat with
  | none =>
    rw [hs, prop_nosat_ge hc0] at hv; cases hv; rfl
  | some s =>
    have hs0 : 0 < s := by have := hp.sat; rw [hs] at this; exact this
    rw [hs, prop_sat_zero hs0] at hv; cases hv
    simp only [min_comm]

/-! ### One-off programs: annual reach does not depend on the step -/

/-- **oneoff_dt_free** — the annualised capacity of a one-off program (what `Result.get_coverage
    ('capacity')` reports, capacity/dt) is `spending / unit cost`, whatever the step; with a per-year
    capacity constraint `k` it is `min k (spending / unit cost)`. -/
theorem oneoff_dt_free {spend uc dt : ℚ} (huc : uc ≠ 0) (hdt : 0 < dt) (perYear : Bool) :
    (∃ c, capacity spend uc dt true none perYear = some c ∧ c / dt = spend / uc) ∧
    ∀ k, ∃ c, capacity spend uc dt true (some k) true = some c ∧ c / dt = min k (spend / uc) := by
  have hraw : rawCap spend uc dt true / dt = spend / uc := by
    unfold rawCap; simp only [if_true]; field_simp
  refine ⟨⟨_, capacity_none huc _ _, hraw⟩, fun k => ⟨_, capacity_some huc _ _ k, ?_⟩⟩
  have hcon : conEff k dt true = k * dt := by simp [conEff]
  have hr : rawCap spend uc dt true = spend / uc * dt := by rw [← hraw]; field_simp
  rw [hcon, hr, ← min_mul_of_nonneg _ _ hdt.le]
  field_simp

/-- corollary in the property's wording: two step sizes give the same annual reach -/
theorem oneoff_dt_free_steps {spend uc d₁ d₂ : ℚ} (huc : uc ≠ 0) (h₁ : 0 < d₁) (h₂ : 0 < d₂) (capCon : Option ℚ) :
    ∃ c₁ c₂, capacity spend uc d₁ true capCon true = some c₁ ∧ capacity spend uc d₂ true capCon true = some c₂ ∧
      c₁ / d₁ = c₂ / d₂ := by
  cases capCon with
  | none =>
    obtain ⟨⟨c₁, e₁, r₁⟩, _⟩ := oneoff_dt_free (spend := spend) huc h₁ true
    obtain ⟨⟨c₂, e₂, r₂⟩, _⟩ := oneoff_dt_free (spend := spend) huc h₂ true
    exact ⟨c₁, c₂, e₁, e₂, by rw [r₁, r₂]⟩
  | some k =>
    obtain ⟨c₁, e₁, r₁⟩ := (oneoff_dt_free (spend := spend) huc h₁ true).2 k
    obtain ⟨c₂, e₂, r₂⟩ := (oneoff_dt_free (spend := spend) huc h₂ true).2 k
    exact ⟨c₁, c₂, e₁, e₂, by rw [r₁, r₂]⟩

/-! ### Overwrite precedence: coverage ≻ capacity ≻ spending -/

/-- **overwrite_precedence** —
    (1) a coverage overwrite decides the result whatever the other overwrites and the program book say;
    (2) otherwise a capacity overwrite decides the capacity whatever spending overwrite / spending /
        unit cost / capacity constraint say;
    (3) otherwise a spending overwrite acts exactly like program-book spending of that amount. -/
theorem overwrite_precedence (E : ℚ → ℚ) (p : ProgAt) (dt elig : ℚ) :
    (∀ a k c, effective E ⟨a, k, some c⟩ p dt elig = some (min (if p.oneOff then c * dt else c) 1)) ∧
    (∀ a k, effective E ⟨a, some k, none⟩ p dt elig
        = (propCovered E (if p.oneOff then k * dt else k) elig p.sat).map (min · 1)) ∧
    (∀ a, effective E ⟨some a, none, none⟩ p dt elig = effective E noOv { p with spend := a } dt elig) := by
  refine ⟨?_, ?_, ?_⟩
  · intro a k c; simp only [effective, minQ_eq_min]
  · intro a k; simp only [effective, capacityAt]
    congr 1
  · intro a; simp only [effective, noOv, capacityAt, allocAt, Option.getD_some, Option.getD_none]

/-- the coverage overwrite really is independent of everything else (two arbitrary contexts agree) -/
theorem coverage_overwrite_decides (E E' : ℚ → ℚ) (p p' : ProgAt) (h : p.oneOff = p'.oneOff)
    (a a' k k' : Option ℚ) (c dt elig elig' : ℚ) :
    effective E ⟨a, k, some c⟩ p dt elig = effective E' ⟨a', k', some c⟩ p' dt elig' := by
  simp only [effective, h]

/-- the capacity overwrite is independent of spending, spending overwrite, unit cost and constraint -/
theorem capacity_overwrite_decides (E : ℚ → ℚ) (p p' : ProgAt) (h : p.oneOff = p'.oneOff) (hs : p.sat = p'.sat)
    (a a' : Option ℚ) (k dt elig : ℚ) :
    effective E ⟨a, some k, none⟩ p dt elig = effective E ⟨a', some k, none⟩ p' dt elig := by
  simp only [effective, capacityAt, h, hs]

/-! ### Time-varying series with stepped interpolation -/

theorem stepPrev_mem (l : List (ℚ × ℚ)) (cur t : ℚ) :
    stepPrev l cur t = cur ∨ stepPrev l cur t ∈ l.map Prod.snd := by
  induction l generalizing cur with
  | nil => left; rfl
  | cons hd tl ih =>
    obtain ⟨ti, vi⟩ := hd
    simp only [stepPrev]
    split
    · rcases ih vi with h | h
      · right; rw [h]; simp
      · right; simp only [List.map_cons, List.mem_cons]; right; exact h
    · left; rfl

/-- **interp_mem** — stepped interpolation returns one of the entered values (so a non-negative
    spending series is non-negative at every time, a positive unit-cost series positive, …) -/
theorem interp_mem (s : Series) (t v : ℚ) (h : s.at t = some v) :
    (s.pts = [] ∧ s.assump = some v) ∨ v ∈ s.pts.map Prod.snd := by
  unfold Series.at at h
  cases hp : s.pts with
  | nil => rw [hp] at h; left; exact ⟨rfl, h⟩
  | cons hd tl =>
    rw [hp] at h
    obtain ⟨t0, v0⟩ := hd
    simp only [Option.some.injEq] at h
    right
    rcases stepPrev_mem tl v0 t with h' | h'
    · rw [h'] at h; rw [← h]; simp
    · rw [h] at h'; simp only [List.map_cons, List.mem_cons]; right; exact h'

/-- the scan stops at the first point later than `t` -/
theorem stepPrev_before (l : List (ℚ × ℚ)) (cur t : ℚ) (h : ∀ p ∈ l, t < p.1) : stepPrev l cur t = cur := by
  cases l with
  | nil => rfl
  | cons hd tl =>
    obtain ⟨ti, vi⟩ := hd
    have : ¬ ti ≤ t := not_le.mpr (h (ti, vi) (by simp))
    simp only [stepPrev, this, if_false]

theorem stepPrev_split (l₁ l₂ : List (ℚ × ℚ)) (ti vi cur t : ℚ) (h1 : ∀ p ∈ l₁, p.1 ≤ t) (hti : ti ≤ t)
    (h2 : ∀ p ∈ l₂, t < p.1) : stepPrev (l₁ ++ (ti, vi) :: l₂) cur t = vi := by
  induction l₁ generalizing cur with
  | nil => simp only [List.nil_append, stepPrev, hti, if_true]; exact stepPrev_before l₂ vi t h2
  | cons hd tl ih =>
    obtain ⟨tj, vj⟩ := hd
    have hj : tj ≤ t := h1 (tj, vj) (by simp)
    simp only [List.cons_append, stepPrev, hj, if_true]
    exact ih vj (fun p hp => h1 p (by simp [hp]))

/-- **interp_previous** — `Series.at` is stepped ("previous") interpolation with constant extrapolation:
    the value of the last entered point at or before `t`; the first value before the first point. -/
theorem interp_previous (a : Option ℚ) (t0 v0 : ℚ) (t : ℚ) :
    (∀ l, (∀ p ∈ l, t < p.1) → (Series.mk a ((t0, v0) :: l)).at t = some v0) ∧
    (∀ l₁ l₂ ti vi, (∀ p ∈ l₁, p.1 ≤ t) → ti ≤ t → (∀ p ∈ l₂, t < p.1) →
        (Series.mk a ((t0, v0) :: (l₁ ++ (ti, vi) :: l₂))).at t = some vi) := by
  refine ⟨fun l h => ?_, fun l₁ l₂ ti vi h1 hti h2 => ?_⟩
  · simp only [Series.at, stepPrev_before l v0 t h]
  · simp only [Series.at, stepPrev_split l₁ l₂ ti vi v0 t h1 hti h2]

example : (Series.mk none [(2000, 5), (2010, 7), (2020, 9)]).at 2015 = some 7 :=
  (interp_previous none 2000 5 2015).2 [] [(2020, 9)] 2010 7 (by simp) (by norm_num) (by simp; norm_num)

/-- pointwise order of two series entered at the same times -/
inductive PtsLE : List (ℚ × ℚ) → List (ℚ × ℚ) → Prop
  | nil : PtsLE [] []
  | cons {t a b : ℚ} {l₁ l₂} : a ≤ b → PtsLE l₁ l₂ → PtsLE ((t, a) :: l₁) ((t, b) :: l₂)

theorem stepPrev_mono {l₁ l₂ : List (ℚ × ℚ)} (h : PtsLE l₁ l₂) {c₁ c₂ : ℚ} (hc : c₁ ≤ c₂) (t : ℚ) :
    stepPrev l₁ c₁ t ≤ stepPrev l₂ c₂ t := by
  induction h generalizing c₁ c₂ with
  | nil => exact hc
  | cons hab _ ih =>
    simp only [stepPrev]
    split
    · exact ih hab
    · exact hc

/-- **interp_mono** — raising the entered values of a series (same time points) raises the stepped
    interpolant at every time; with `cov_mono_spend` this lifts monotonicity to time-varying spending. -/
theorem interp_mono {l₁ l₂ : List (ℚ × ℚ)} (h : PtsLE l₁ l₂) (a : Option ℚ) (t : ℚ) (hne : l₁ ≠ []) :
    ∃ v₁ v₂, (Series.mk a l₁).at t = some v₁ ∧ (Series.mk a l₂).at t = some v₂ ∧ v₁ ≤ v₂ := by
  cases h with
  | nil => exact absurd rfl hne
  | cons hab htl => exact ⟨_, _, rfl, rfl, stepPrev_mono htl hab t⟩

/-! ### Non-vacuity: a rational `E` with all assumed properties, and concrete instances -/

/-- `E x = 1/(1-x)` for `x ≤ 0`, `1 + x` for `x ≥ 0` -/
def Eq (x : ℚ) : ℚ := if x ≤ 0 then 1 / (1 - x) else 1 + x

theorem Eq_expLike : ExpLike Eq := by
  refine ⟨?_, ?_, ?_⟩
  · intro x; unfold Eq; split
    · have : 0 < 1 - x := by linarith
      positivity
    · linarith
  · intro x y hxy; unfold Eq
    by_cases hx : x ≤ 0 <;> by_cases hy : y ≤ 0 <;> simp only [hx, hy, if_true, if_false]
    · have h1 : 0 < 1 - x := by linarith
      have h2 : 0 < 1 - y := by linarith
      exact one_div_le_one_div_of_le h2 (by linarith)
    · have h1 : 0 < 1 - x := by linarith
      have : 1 / (1 - x) ≤ 1 := by rw [div_le_one h1]; linarith
      linarith
    · linarith
    · linarith
  · simp [Eq]

theorem Eq_pade : PadeBound Eq := by
  intro u hu
  have h : -u ≤ 0 := by linarith
  unfold Eq; rw [if_pos h]
  have h1 : 0 < 1 - -u := by linarith
  rw [div_mul_eq_mul_div, le_div_iff₀ h1]
  nlinarith [mul_nonneg hu hu]

/-- a concrete well-formed program: one-off, $1000/year at $10/person, per-year constraint 80, saturation 9/10 -/
def pEx : ProgAt := ⟨1000, 10, true, some 80, true, some (9/10)⟩

theorem pEx_wf : WellFormed pEx := ⟨by norm_num [pEx], by norm_num [pEx], by norm_num [pEx, OptNonneg], by norm_num [pEx, OptPos]⟩

example : ∃ v, effective Eq noOv pEx (1/4) 100 = some v ∧ 0 ≤ v ∧ v ≤ 1 :=
  cov_bounds_effective Eq_expLike pEx_wf noOv trivial trivial trivial (by norm_num) (by norm_num)

example : ∃ v, effective Eq noOv pEx (1/4) 100 = some v ∧ v ≤ conEff 80 (1/4) true / 100 :=
  cov_le_capcon Eq_expLike Eq_pade pEx_wf rfl (by norm_num) (by norm_num)

example : ∃ v₁ v₂, effective Eq noOv { pEx with spend := 500 } (1/4) 100 = some v₁ ∧
    effective Eq noOv { pEx with spend := 700 } (1/4) 100 = some v₂ ∧ v₁ ≤ v₂ :=
  cov_mono_spend Eq_expLike pEx_wf (by norm_num) (by norm_num) (by norm_num) (by norm_num)

example : ∃ v₁ v₂, effective Eq noOv { pEx with unitCost := 20 } (1/4) 100 = some v₁ ∧
    effective Eq noOv { pEx with unitCost := 5 } (1/4) 100 = some v₂ ∧ v₁ ≤ v₂ :=
  cov_anti_unitcost Eq_expLike pEx_wf (by norm_num) (by norm_num) (by norm_num) (by norm_num)

example : effective Eq noOv pEx (1/4) 0 = some (min 1 (9/10)) := cov_nobody Eq_expLike pEx_wf (by norm_num)

/-- concrete values: the model computes what the documentation's example says (1000/10 → 100/year,
    25 per quarter; constraint 80/year → 20 per quarter; 20 of 100 eligible → 0.2 without saturation) -/
example : capacity 1000 10 (1/4) true none false = some 25 := by
  rw [capacity_none (by norm_num)]; norm_num [rawCap]
example : capacity 1000 10 (1/4) true (some 80) true = some 20 := by
  rw [capacity_some (by norm_num)]; norm_num [rawCap, conEff]
example : propCovered Eq 20 100 none = some (1/5) := by
  rw [prop_nosat_lt (by norm_num) (by norm_num)]; norm_num

/-- the order of precedence is strict: the three overwrites give three different results -/
example : effective Eq ⟨some 10, some 40, some (1/2)⟩ ⟨1000, 10, false, none, false, none⟩ 1 100 = some (1/2) := by
  rw [(overwrite_precedence Eq _ 1 100).1]; norm_num
example : effective Eq ⟨some 10, some 40, none⟩ ⟨1000, 10, false, none, false, none⟩ 1 100 = some (2/5) := by
  rw [(overwrite_precedence Eq _ 1 100).2.1]
  simp only [Bool.false_eq_true, if_false]
  rw [prop_nosat_lt (by norm_num) (by norm_num)]; norm_num
example : effective Eq ⟨some 10, none, none⟩ ⟨1000, 10, false, none, false, none⟩ 1 100 = some (1/100) := by
  rw [(overwrite_precedence Eq _ 1 100).2.2, effective_noOv]
  simp only [capacity_none (show (10:ℚ) ≠ 0 by norm_num), Option.bind_some]
  rw [prop_nosat_lt (by norm_num [rawCap]) (by norm_num [rawCap])]; norm_num [rawCap, minQ_eq_min]

end Atomica.C11
