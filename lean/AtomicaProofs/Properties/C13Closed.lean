/-
  C13 / C09 / C06 on WHOLE closed-loop runs with programs — theorems about `Atomica.ClosedProg`
  (lean/AtomicaModel/ClosedProg.lean), the model that harness/vlib/closedprog_corr.py compares with whole runs of the real
  `Model(settings, framework, parset, progset, instructions).process()`, stock by stock, flow by flow, parameter by parameter.

  Unbounded in the number of steps (induction over the run) and for every state (stocks `x` and derivative-parameter values `d`):

    * `closed_is_ev`                          `Closed.simulateN` is the instance `ev = Closed.evalPars` of the generic loop;
    * `closedprog_is_closed_before_start`     (C09) while `t < start_year` the run WITH programs is the run of the same
                                              specification WITHOUT programs, entry by entry; `closedprog_stock_at_start`: the
                                              stocks of the first active index coincide as well; `closedprog_instructions_agree_before`:
                                              two instruction sets that agree before year Y give the same trajectory prefix;
                                              `closedprog_after_stop`: after the stop year every parameter follows the program-free rule;
    * `closedprog_sets_targets`               (C13) at every active index a targeted parameter is exactly
                                              `clip(convert(outcome(coverages of the same-index state)))`; `_number`, `_perTime`,
                                              `_other` spell the conversion out; `coverage_of_state` spells the coverage out;
                                              `closedprog_sets_targets_run`: … along a defined run, and it is the value the step used;
    * `closedprog_untargeted_rule`            (C06) an untargeted parameter equals the program-free rule `clip(scale · f(…))` applied
                                              to the values of the SAME index (which contain the overwritten ones: execution order);
    * `closedprog_untargeted_unchanged_rule`  (C06/C13 frame) a parameter that is neither targeted nor (transitively) dependent on
                                              a targeted one has the value the program-free closed loop gives on the same state;
    * `closedprog_is_process`, `closedprog_total`, `closedprog_nonneg`, `closedprog_jempty`, `evalParsP_clipped`
                                              conservation / non-negativity / empty junctions / limits lifted to runs with programs
                                              (the L1 theorems hold for any parameter stream).
-/
import AtomicaModel.ClosedProg
import AtomicaProofs.Properties.C03Closed
import AtomicaProofs.Properties.C13
import Mathlib.Tactic.Linarith
import Mathlib.Tactic.NormNum

namespace Atomica.C13
open Atomica Atomica.Engine Atomica.Closed Atomica.ClosedProg

/-! ## 1. the generic loop -/

theorem stepClosed_is_stepEv (s : Spec) (i : Nat) (x : Stock) (d : Vals) :
    stepClosed s i x d = stepEv s.net s.dt (evalPars s) i x d := rfl

theorem runClosed_is_runEv (s : Spec) : ∀ (n i : Nat) (x : Stock) (d : Vals),
    runClosed s i n x d = runEv s.net s.dt (evalPars s) (nextD s) i n x d := by
  intro n
  induction n with
  | zero => intro i x d; rfl
  | succ n ih =>
    intro i x d
    simp only [runClosed, runEv, stepClosed_is_stepEv]
    cases stepEv s.net s.dt (evalPars s) i x d with
    | none => rfl
    | some p =>
      obtain ⟨fl, x'⟩ := p
      simp only [ih]
      cases runEv s.net s.dt (evalPars s) (nextD s) (i + 1) n x' (nextD s i x d) <;> rfl

/-- **closed_is_ev**: the program-free closed loop of `Closed` is the generic loop run with the policy `Closed.evalPars`
    (values) / `Closed.nextD` (Euler step of the derivative parameters) -/
theorem closed_is_ev (s : Spec) (n : Nat) :
    Closed.simulateN s n = simulateEv s.net s.dt (evalPars s) (nextD s) s.init (initD s) n := by
  unfold Closed.simulateN simulateEv startClosed startEv
  simp only
  congr 1
  funext x0
  exact runClosed_is_runEv s n 0 x0 (initD s)

section Generic
variable (net : Net) (dt : Rat)

theorem stepEv_eq {ev : Policy} {i : Nat} {x x' : Stock} {d : Vals} {fl : Flow} (h : stepEv net dt ev i x d = some (fl, x')) :
    step net dt (pvOf (ev i x d)) x = some (fl, x') := by
  unfold stepEv at h
  split at h
  · exact h
  · exact absurd h (by simp)

theorem runEv_succ_some {ev adv : Policy} {i n : Nat} {x : Stock} {d : Vals} {r : Trajectory}
    (h : runEv net dt ev adv i (n + 1) x d = some r) :
    ∃ fl x' rest, stepEv net dt ev i x d = some (fl, x') ∧ runEv net dt ev adv (i + 1) n x' (adv i x d) = some rest ∧
      r = (x, fl) :: rest := by
  simp only [runEv] at h
  cases hs : stepEv net dt ev i x d with
  | none => rw [hs] at h; exact absurd h (by simp)
  | some p =>
    obtain ⟨fl, x'⟩ := p
    rw [hs] at h
    simp only at h
    cases hr : runEv net dt ev adv (i + 1) n x' (adv i x d) with
    | none => rw [hr] at h; exact absurd h (by simp)
    | some rest =>
      rw [hr] at h
      simp only [Option.some.injEq] at h
      exact ⟨fl, x', rest, rfl, hr, h.symm⟩

/-- the parameter values the loop computes along a trajectory whose first entry is time index `i`, entered with the derivative values `d` -/
def pvsEv (ev adv : Policy) : Nat → Vals → Trajectory → List (Nat → Rat)
  | _, _, [] => []
  | i, d, (x, _) :: rest => pvOf (ev i x d) :: pvsEv ev adv (i + 1) (adv i x d) rest

theorem runEv_is_runFrom (ev adv : Policy) : ∀ (n i : Nat) (x : Stock) (d : Vals) (traj : Trajectory),
    runEv net dt ev adv i n x d = some traj → runFrom net dt (pvsEv ev adv i d traj) x = some traj := by
  intro n
  induction n with
  | zero =>
    intro i x d traj h
    simp only [runEv, Option.some.injEq] at h
    subst h
    simp [pvsEv, runFrom]
  | succ n ih =>
    intro i x d traj h
    obtain ⟨fl, x', rest, hs, hr, rfl⟩ := runEv_succ_some net dt h
    simp only [pvsEv, runFrom, stepEv_eq net dt hs, ih (i + 1) x' _ rest hr]

theorem runEv_length (ev adv : Policy) : ∀ (n i : Nat) (x : Stock) (d : Vals) (traj : Trajectory),
    runEv net dt ev adv i n x d = some traj → traj.length = n := by
  intro n
  induction n with
  | zero => intro i x d traj h; simp only [runEv, Option.some.injEq] at h; subst h; rfl
  | succ n ih =>
    intro i x d traj h
    obtain ⟨fl, x', rest, _, hr, rfl⟩ := runEv_succ_some net dt h
    simp [ih (i + 1) x' _ rest hr]

/-- a shorter run is the prefix of a longer one -/
theorem runEv_prefix (ev adv : Policy) : ∀ (n m i : Nat) (x : Stock) (d : Vals) (traj : Trajectory), m ≤ n →
    runEv net dt ev adv i n x d = some traj → runEv net dt ev adv i m x d = some (traj.take m) := by
  intro n
  induction n with
  | zero =>
    intro m i x d traj hm h
    have : m = 0 := by omega
    subst this
    simp only [runEv, Option.some.injEq] at h ⊢
    subst h; rfl
  | succ n ih =>
    intro m i x d traj hm h
    cases m with
    | zero => simp [runEv]
    | succ m =>
      obtain ⟨fl, x', rest, hs, hr, rfl⟩ := runEv_succ_some net dt h
      simp only [runEv, hs, ih m (i + 1) x' _ rest (by omega) hr, List.take_succ_cons]

/-- two policies that agree at the indices `i, …, i+n-1` (on every state) give the same `n` entries -/
theorem runEv_congr (ev ev' adv adv' : Policy) : ∀ (n i : Nat) (x : Stock) (d : Vals),
    (∀ j, i ≤ j → j < i + n → ∀ y e, ev j y e = ev' j y e ∧ adv j y e = adv' j y e) →
    runEv net dt ev adv i n x d = runEv net dt ev' adv' i n x d := by
  intro n
  induction n with
  | zero => intro i x d _; rfl
  | succ n ih =>
    intro i x d h
    have hstep : stepEv net dt ev i x d = stepEv net dt ev' i x d := by
      unfold stepEv
      rw [(h i (le_refl _) (by omega) x d).1]
    simp only [runEv, hstep]
    cases stepEv net dt ev' i x d with
    | none => rfl
    | some p =>
      obtain ⟨fl, x'⟩ := p
      simp only
      rw [(h i (le_refl _) (by omega) x d).2, ih (i + 1) x' _ (fun j hj1 hj2 y e => h j (by omega) (by omega) y e)]

/-- the state after `m` steps: where the next entry of a longer run starts -/
def stateAfter (x0 : Stock) : Trajectory → Stock
  | [] => x0
  | (x, fl) :: rest => stateAfter (updateComps net x fl) rest

theorem simulateEv_split {ev adv : Policy} {init : Stock} {d0 : Vals} {n : Nat} {traj : Trajectory}
    (h : simulateEv net dt ev adv init d0 n = some traj) :
    ∃ x0, startEv net ev init d0 = some x0 ∧ runEv net dt ev adv 0 n x0 d0 = some traj := by
  unfold simulateEv at h
  cases hs : startEv net ev init d0 with
  | none => rw [hs] at h; exact absurd h (by simp)
  | some x0 => rw [hs] at h; exact ⟨x0, rfl, by simpa using h⟩

theorem simulateEv_prefix (ev adv : Policy) (init : Stock) (d0 : Vals) {n m : Nat} (hm : m ≤ n) {traj : Trajectory}
    (h : simulateEv net dt ev adv init d0 n = some traj) : simulateEv net dt ev adv init d0 m = some (traj.take m) := by
  obtain ⟨x0, hs, hr⟩ := simulateEv_split net dt h
  unfold simulateEv
  rw [hs]
  exact runEv_prefix net dt ev adv n m 0 x0 d0 traj hm hr

theorem simulateEv_length (ev adv : Policy) (init : Stock) (d0 : Vals) {n : Nat} {traj : Trajectory}
    (h : simulateEv net dt ev adv init d0 n = some traj) : traj.length = n := by
  obtain ⟨x0, _, hr⟩ := simulateEv_split net dt h
  exact runEv_length net dt ev adv n 0 x0 d0 traj hr

/-- two policies that agree at every index `< m` (with `0 < m`, so that the start-up flush uses index 0) give the same first `m` entries -/
theorem simulateEv_congr (ev ev' adv adv' : Policy) (init : Stock) (d0 : Vals) (m : Nat) (hm : 0 < m)
    (h : ∀ j, j < m → ∀ y e, ev j y e = ev' j y e ∧ adv j y e = adv' j y e) :
    simulateEv net dt ev adv init d0 m = simulateEv net dt ev' adv' init d0 m := by
  unfold simulateEv startEv
  rw [(h 0 hm init d0).1]
  congr 1
  funext x0
  exact runEv_congr net dt ev ev' adv adv' m 0 x0 d0 (fun j _ hj y e => h j (by omega) y e)

/-- the generic loop is `Engine.process` on the parameter stream it computes itself -/
theorem simulateEv_is_process (ev adv : Policy) (init : Stock) (d0 : Vals) (n : Nat) (traj : Trajectory)
    (h : simulateEv net dt ev adv init d0 n = some traj) :
    process net dt (pvOf (ev 0 init d0)) (pvsEv ev adv 0 d0 traj) init = some traj := by
  obtain ⟨x0, hs, hr⟩ := simulateEv_split net dt h
  unfold startEv at hs
  unfold process
  split at hs
  · rw [hs]
    exact runEv_is_runFrom net dt ev adv n 0 x0 d0 traj hr
  · exact absurd hs (by simp)

/-- a property of the values that holds whenever the derivative values satisfy an invariant which every step preserves holds for
    every member of the parameter stream of a run -/
theorem pvsEv_mem (ev adv : Policy) (Inv : Vals → Prop) (hadv : ∀ i x d, Inv d → Inv (adv i x d)) (Q : (Nat → Rat) → Prop)
    (hQ : ∀ i x d, Inv d → Q (pvOf (ev i x d))) :
    ∀ (traj : Trajectory) (i : Nat) (d : Vals), Inv d → ∀ pv, pv ∈ pvsEv ev adv i d traj → Q pv := by
  intro traj
  induction traj with
  | nil => intro i d _ pv h; simp [pvsEv] at h
  | cons e rest ih =>
    intro i d hd pv h
    obtain ⟨x, fl⟩ := e
    simp only [pvsEv, List.mem_cons] at h
    rcases h with rfl | h
    · exact hQ i x d hd
    · exact ih (i + 1) _ (hadv i x d hd) pv h

/-- entry `k` of a run that starts at index `i`: the step that produced it (with the derivative values `d'` the run had reached) -/
theorem runEv_entry (ev adv : Policy) (Inv : Vals → Prop) (hadv : ∀ i x d, Inv d → Inv (adv i x d)) :
    ∀ (n i : Nat) (x0 : Stock) (d : Vals) (traj : Trajectory), Inv d →
    runEv net dt ev adv i n x0 d = some traj → ∀ (k : Nat) (x : Stock) (fl : Flow), traj[k]? = some (x, fl) →
    ∃ d' x', Inv d' ∧ stepEv net dt ev (i + k) x d' = some (fl, x') := by
  intro n
  induction n with
  | zero =>
    intro i x0 d traj _ h k x fl hk
    simp only [runEv, Option.some.injEq] at h
    subst h
    simp at hk
  | succ n ih =>
    intro i x0 d traj hd h k x fl hk
    obtain ⟨fl0, x1, rest, hs, hr, rfl⟩ := runEv_succ_some net dt h
    cases k with
    | zero =>
      simp only [List.getElem?_cons_zero, Option.some.injEq, Prod.mk.injEq] at hk
      obtain ⟨rfl, rfl⟩ := hk
      exact ⟨d, x1, hd, by simpa using hs⟩
    | succ k =>
      simp only [List.getElem?_cons_succ] at hk
      obtain ⟨d', x', hd', hx'⟩ := ih (i + 1) x1 _ rest (hadv i x0 d hd) hr k x fl hk
      exact ⟨d', x', hd', by rw [show i + (k + 1) = i + 1 + k by omega]; exact hx'⟩

/-- two pairs of policies that agree at the indices `i, …, i+k-1`: the stocks of entry `k` (produced by the last agreeing step) coincide -/
theorem runEv_stock_congr (ev ev' adv adv' : Policy) : ∀ (k i : Nat) (y : Stock) (d : Vals) (r r' : Trajectory),
    (∀ j, i ≤ j → j < i + k → ∀ z e, ev j z e = ev' j z e ∧ adv j z e = adv' j z e) →
    runEv net dt ev adv i (k + 1) y d = some r → runEv net dt ev' adv' i (k + 1) y d = some r' →
    ∀ e e', r[k]? = some e → r'[k]? = some e' → e.1 = e'.1 := by
  intro k
  induction k with
  | zero =>
    intro i y d r r' _ hr hr' e e' he he'
    obtain ⟨fl, y1, rest, _, _, rfl⟩ := runEv_succ_some _ _ hr
    obtain ⟨fl', y1', rest', _, _, rfl⟩ := runEv_succ_some _ _ hr'
    simp only [List.getElem?_cons_zero, Option.some.injEq] at he he'
    rw [← he, ← he']
  | succ k ih =>
    intro i y d r r' hag hr hr' e e' he he'
    obtain ⟨fl, y1, rest, hst, hrest, rfl⟩ := runEv_succ_some _ _ hr
    obtain ⟨fl', y1', rest', hst', hrest', rfl⟩ := runEv_succ_some _ _ hr'
    have : stepEv net dt ev i y d = stepEv net dt ev' i y d := by
      unfold stepEv
      rw [(hag i (le_refl _) (by omega) y d).1]
    rw [this, hst'] at hst
    simp only [Option.some.injEq, Prod.mk.injEq] at hst
    obtain ⟨_, rfl⟩ := hst
    simp only [List.getElem?_cons_succ] at he he'
    rw [(hag i (le_refl _) (by omega) y d).2] at hrest
    exact ih (i + 1) y1' _ rest rest' (fun j h1 h2 z e => hag j (by omega) (by omega) z e) hrest hrest' e e' he he'

end Generic


/-! ## 2. the parameter layer: inactive programs (C09) -/

theorem point_mono (start dt : Rat) (hdt : 0 ≤ dt) {i j : Nat} (hij : i ≤ j) : Grid.point start dt i ≤ Grid.point start dt j := by
  unfold Grid.point
  have h : (i : Rat) ≤ (j : Rat) := by exact_mod_cast hij
  have := mul_le_mul_of_nonneg_right h hdt
  linarith

theorem activeAt_before_start (s : PSpec) (t : Rat) (h : t < s.start) : activeAt s t = false := by
  unfold activeAt Params.Window.has
  have : ¬ s.start ≤ t := not_le.mpr h
  simp [this]

theorem activeAt_after_stop (s : PSpec) (t : Rat) {e : Rat} (he : s.stop = some e) (h : e < t) : activeAt s t = false := by
  unfold activeAt Params.Window.has
  have : ¬ t ≤ e := not_le.mpr h
  simp [he, this]

theorem progOutC_inactive (s : PSpec) (covs : List (Option Rat)) (p : Nat) : progOutC s false covs p = none := by
  simp [progOutC]

theorem parStepP_none (s : PSpec) (t : Rat) (x : Stock) (cv : Vals) (out : Nat → Option (Option Rat)) (hout : ∀ p, out p = none) :
    parStepP s t x cv out = parStep s.base t x cv := by
  funext pv p
  unfold parStepP parStep
  rw [hout p]
  rfl

theorem advStepP_none (s : PSpec) (t : Rat) (x : Stock) (cv : Vals) (out : Nat → Option (Option Rat)) (hout : ∀ p, out p = none) :
    advStepP s t x cv out = advStep s.base t x cv := by
  funext st p
  unfold advStepP advStep
  rw [parStepP_none s t x cv out hout]

theorem progOut_inactive (s : PSpec) (t : Rat) (x : Stock) (h : activeAt s t = false) (p : Nat) : progOut s (layerAt s t) x p = none := by
  unfold progOut layerAt
  simp only [h]
  exact progOutC_inactive s _ p

/-- while the programs are not active the parameter values of an index are the program-free ones, on every state -/
theorem evalParsP_inactive (s : PSpec) (i : Nat) (x : Stock) (d : Vals) (h : activeAt s (Grid.point s.base.start s.base.dt i) = false) :
    evalParsP s i x d = evalPars s.base i x d := by
  unfold evalParsP evalPars
  simp only
  rw [parStepP_none]
  exact progOut_inactive s _ x h

/-- … and so is the Euler step of the derivative parameters -/
theorem nextDP_inactive (s : PSpec) (i : Nat) (x : Stock) (d : Vals) (h : activeAt s (Grid.point s.base.start s.base.dt i) = false) :
    nextDP s i x d = nextD s.base i x d := by
  unfold nextDP nextD evalParsPD evalParsD
  simp only
  rw [advStepP_none]
  exact progOut_inactive s _ x h

/-- **closedprog_is_closed_before_start** (C09): if every index `i < m` lies strictly before the start year, the first `m` entries
    (stocks and flows of the indices `0..m-1`) of the run WITH programs are the run of the same specification WITHOUT programs —
    including definedness. -/
theorem closedprog_is_closed_before_start (s : PSpec) (m : Nat) (hm : 0 < m)
    (hpre : ∀ i, i < m → Grid.point s.base.start s.base.dt i < s.start) :
    ClosedProg.simulateN s m = Closed.simulateN s.base m := by
  rw [closed_is_ev]
  unfold ClosedProg.simulateN
  exact simulateEv_congr _ _ _ _ _ _ _ _ m hm
    (fun j hj y e => ⟨evalParsP_inactive s j y e (activeAt_before_start s _ (hpre j hj)),
                      nextDP_inactive s j y e (activeAt_before_start s _ (hpre j hj))⟩)

/-- with a positive step it is enough that the LAST of the `m` indices lies before the start year -/
theorem closedprog_is_closed_before_start' (s : PSpec) (m : Nat) (hdt : 0 ≤ s.base.dt)
    (hlast : Grid.point s.base.start s.base.dt m < s.start) :
    ClosedProg.simulateN s (m + 1) = Closed.simulateN s.base (m + 1) :=
  closedprog_is_closed_before_start s (m + 1) (by omega)
    (fun i hi => lt_of_le_of_lt (point_mono _ _ hdt (by omega)) hlast)

/-- the same for the prefixes of two longer runs (any two horizons) -/
theorem closedprog_prefix_before_start (s : PSpec) {n n' m : Nat} (hm : 0 < m) (hmn : m ≤ n) (hmn' : m ≤ n')
    (hpre : ∀ i, i < m → Grid.point s.base.start s.base.dt i < s.start)
    {traj traj' : Trajectory} (h : ClosedProg.simulateN s n = some traj) (h' : Closed.simulateN s.base n' = some traj') :
    traj.take m = traj'.take m := by
  have h1 := simulateEv_prefix _ _ _ _ _ _ hmn h
  have h2 := C03.simulateN_prefix s.base hmn' h'
  have h3 := closedprog_is_closed_before_start s m hm hpre
  unfold ClosedProg.simulateN at h3
  rw [h1, h2] at h3
  exact Option.some.inj h3

/-- the stocks of the FIRST index at or after the start year coincide as well (they are produced by the last program-free step) -/
theorem closedprog_stock_at_start (s : PSpec) (m : Nat) (hm : 0 < m)
    (hpre : ∀ i, i < m → Grid.point s.base.start s.base.dt i < s.start)
    {traj traj' : Trajectory} (h : ClosedProg.simulateN s (m + 1) = some traj) (h' : Closed.simulateN s.base (m + 1) = some traj')
    {e e' : Stock × Flow} (he : traj[m]? = some e) (he' : traj'[m]? = some e') : e.1 = e'.1 := by
  rw [closed_is_ev] at h'
  unfold ClosedProg.simulateN at h
  obtain ⟨x0, hs, hr⟩ := simulateEv_split _ _ h
  obtain ⟨x0', hs', hr'⟩ := simulateEv_split _ _ h'
  have hev0 : evalParsP s 0 s.base.init (initD s.base) = evalPars s.base 0 s.base.init (initD s.base) :=
    evalParsP_inactive s 0 _ _ (activeAt_before_start s _ (hpre 0 hm))
  have hx0 : x0 = x0' := by
    unfold startEv at hs hs'
    rw [hev0] at hs
    rw [hs] at hs'
    exact Option.some.inj hs'
  subst hx0
  exact runEv_stock_congr _ _ _ _ _ _ m 0 x0 _ traj traj'
    (fun j _ hj z e => ⟨evalParsP_inactive s j z e (activeAt_before_start s _ (hpre j (by omega))),
                        nextDP_inactive s j z e (activeAt_before_start s _ (hpre j (by omega)))⟩) hr hr' e e' he he'

/-- **closedprog_after_stop** (C09, last clause): at an index after the stop year every parameter — in particular a data-driven
    targeted one — has its program-free value on the same state -/
theorem closedprog_after_stop (s : PSpec) (i : Nat) (x : Stock) (d : Vals) {e : Rat} (he : s.stop = some e)
    (h : e < Grid.point s.base.start s.base.dt i) : evalParsP s i x d = evalPars s.base i x d :=
  evalParsP_inactive s i x d (activeAt_after_stop s _ he h)

theorem closedprog_after_stop_data (s : PSpec) (i : Nat) (x : Stock) (d : Vals) {e : Rat} (he : s.stop = some e)
    (h : e < Grid.point s.base.start s.base.dt i) (p : Nat) (hp : isData (s.base.pars p) = true) (hnd : (s.base.pars p).deriv = false) :
    evalParsP s i x d p = baseVal (s.base.pars p) (Grid.point s.base.start s.base.dt i) := by
  rw [closedprog_after_stop s i x d he h]
  exact C03.evalPars_data s.base i x d p (Or.inr hp) hnd


/-! ## 3. two instruction sets that agree before year Y -/

/-- the program layers of two specifications are interchangeable at a time point: both inactive, or both active with the same
    program-book values, overwrites and targets -/
def LayerEquiv (L L' : LayerAt) : Prop := L.active = L'.active ∧ (L.active = true → L.progs = L'.progs)

/-- the same model, covouts and parameter flags; only the instructions (start / stop year, overwrites) and program-book series may differ -/
def SameModel (s s' : PSpec) : Prop :=
  s.base = s'.base ∧ s.covouts = s'.covouts ∧ s.punits = s'.punits ∧ s.inLoop = s'.inLoop ∧ s.post = s'.post

/-- `evalOne` looks at the activity window only through `t ∈ window` -/
theorem evalOne_window (i : Params.Inp) (w w' : Params.Window) (h : w.has i.t = w'.has i.t) :
    Params.evalOne { i with active := some w } = Params.evalOne { i with active := some w' } := by
  unfold Params.evalOne Params.afterPost Params.afterAgg Params.afterProg Params.progApplies Params.base Params.ownFcn Params.skipped
    Params.convert
  simp only [Params.inWin, h]

theorem parValO_sameModel (s s' : PSpec) (h : SameModel s s') (t : Rat) (x : Stock) (cv pv : Vals) (ov : Option (Option Rat)) (p : Nat)
    (hact : ov ≠ none → activeAt s t = activeAt s' t) :
    parValO s t x cv pv ov p = parValO s' t x cv pv ov p := by
  obtain ⟨hb, _, hu, hl, hpo⟩ := h
  unfold parValO
  cases ov with
  | none => simp only [hb]
  | some o =>
    cases o with
    | none => rfl
    | some o =>
      simp only
      have hw := hact (by simp)
      unfold activeAt at hw
      have e1 : inpOf s t x cv pv p o = { inpOf s' t x cv pv p o with active := some ⟨s.start, s.stop⟩ } := by
        unfold inpOf
        simp only [hb, hu, hl, hpo]
      rw [e1]
      exact evalOne_window (inpOf s' t x cv pv p o) ⟨s.start, s.stop⟩ ⟨s'.start, s'.stop⟩ hw

theorem progOut_congr (s s' : PSpec) (h : SameModel s s') (L L' : LayerAt) (hL : LayerEquiv L L') (x : Stock) (p : Nat) :
    progOut s L x p = progOut s' L' x p := by
  obtain ⟨hb, hc, _, hl, _⟩ := h
  obtain ⟨ha, hp⟩ := hL
  unfold progOut progOutC
  cases hact : L.active with
  | false =>
    rw [← ha, hact]
    simp
  | true =>
    have hpr := hp hact
    rw [← ha, hact]
    unfold coverages
    rw [hpr, hb, hc, hl]

theorem progOut_some_active (s : PSpec) (L : LayerAt) (x : Stock) (p : Nat) (h : progOut s L x p ≠ none) : L.active = true := by
  unfold progOut progOutC at h
  cases hL : L.active with
  | true => rfl
  | false => rw [hL] at h; simp at h

theorem parStepP_congr (s s' : PSpec) (h : SameModel s s') (i : Nat) (x : Stock)
    (hL : LayerEquiv (layerAt s (Grid.point s.base.start s.base.dt i)) (layerAt s' (Grid.point s'.base.start s'.base.dt i))) :
    parStepP s (Grid.point s.base.start s.base.dt i) x (evalCharacs s.base x)
        (progOut s (layerAt s (Grid.point s.base.start s.base.dt i)) x)
      = parStepP s' (Grid.point s'.base.start s'.base.dt i) x (evalCharacs s'.base x)
        (progOut s' (layerAt s' (Grid.point s'.base.start s'.base.dt i)) x) := by
  have hb := h.1
  funext pv p
  unfold parStepP
  rw [progOut_congr s s' h _ _ hL x p, ← hb]
  congr 1
  apply parValO_sameModel s s' h
  intro hne
  have hL' := hL
  rw [← hb] at hL'
  exact hL'.1

/-- parameter values of an index agree when the program layers are interchangeable at that time -/
theorem evalParsP_congr (s s' : PSpec) (h : SameModel s s') (i : Nat) (x : Stock) (d : Vals)
    (hL : LayerEquiv (layerAt s (Grid.point s.base.start s.base.dt i)) (layerAt s' (Grid.point s'.base.start s'.base.dt i))) :
    evalParsP s i x d = evalParsP s' i x d := by
  have hb := h.1
  unfold evalParsP
  simp only
  rw [parStepP_congr s s' h i x hL, hb]

/-- … and so do the next values of the derivative parameters -/
theorem nextDP_congr (s s' : PSpec) (h : SameModel s s') (i : Nat) (x : Stock) (d : Vals)
    (hL : LayerEquiv (layerAt s (Grid.point s.base.start s.base.dt i)) (layerAt s' (Grid.point s'.base.start s'.base.dt i))) :
    nextDP s i x d = nextDP s' i x d := by
  have hb := h.1
  unfold nextDP evalParsPD
  simp only
  have hadv : advStepP s (Grid.point s.base.start s.base.dt i) x (evalCharacs s.base x)
        (progOut s (layerAt s (Grid.point s.base.start s.base.dt i)) x)
      = advStepP s' (Grid.point s'.base.start s'.base.dt i) x (evalCharacs s'.base x)
        (progOut s' (layerAt s' (Grid.point s'.base.start s'.base.dt i)) x) := by
    funext st p
    unfold advStepP
    rw [parStepP_congr s s' h i x hL, hb]
  rw [hadv, hb]

/-- **closedprog_instructions_agree_before**: two instruction sets (start / stop year, spending / capacity / coverage overwrites,
    program-book series) whose program layers are interchangeable at every index `i < m` — in particular when both are inactive
    there, or when their series state the same values before year Y — give the same first `m` trajectory entries. -/
theorem closedprog_instructions_agree_before (s s' : PSpec) (h : SameModel s s') (m : Nat) (hm : 0 < m)
    (hagree : ∀ i, i < m → LayerEquiv (layerAt s (Grid.point s.base.start s.base.dt i)) (layerAt s' (Grid.point s'.base.start s'.base.dt i))) :
    ClosedProg.simulateN s m = ClosedProg.simulateN s' m := by
  unfold ClosedProg.simulateN
  rw [← h.1]
  exact simulateEv_congr _ _ _ _ _ _ _ _ m hm
    (fun j hj y e => ⟨evalParsP_congr s s' h j y e (hagree j hj), nextDP_congr s s' h j y e (hagree j hj)⟩)

/-- instance: the start year moved between two values that both lie after the first `m` indices (everything else equal) -/
theorem closedprog_start_year_moved (s : PSpec) (start' : Rat) (m : Nat) (hm : 0 < m)
    (h1 : ∀ i, i < m → Grid.point s.base.start s.base.dt i < s.start)
    (h2 : ∀ i, i < m → Grid.point s.base.start s.base.dt i < start') :
    ClosedProg.simulateN s m = ClosedProg.simulateN { s with start := start' } m := by
  apply closedprog_instructions_agree_before s { s with start := start' } ⟨rfl, rfl, rfl, rfl, rfl⟩ m hm
  intro i hi
  have a1 := activeAt_before_start s _ (h1 i hi)
  have a2 : activeAt { s with start := start' } (Grid.point s.base.start s.base.dt i) = false :=
    activeAt_before_start { s with start := start' } _ (h2 i hi)
  refine ⟨?_, ?_⟩
  · show activeAt s _ = activeAt { s with start := start' } _
    rw [a1, a2]
  · intro hact
    have : activeAt s (Grid.point s.base.start s.base.dt i) = true := hact
    rw [a1] at this
    exact absurd this (by simp)

/-- instance: an overwrite series replaced by one that states the same values before year Y (`Series.at` agrees for `t < Y`),
    e.g. a spending change dated Y appended to a series that also states the value in force before Y -/
theorem progNow_congr_before (p p' : ProgSpec) (Y : Rat)
    (hfix : p.targets = p'.targets ∧ p.oneOff = p'.oneOff ∧ p.capPerYear = p'.capPerYear)
    (hs : ∀ t, t < Y → p.spend.at t = p'.spend.at t) (hu : ∀ t, t < Y → p.unitCost.at t = p'.unitCost.at t)
    (hc : ∀ t, t < Y → p.capCon.bind (fun sr => sr.at t) = p'.capCon.bind (fun sr => sr.at t))
    (ha : ∀ t, t < Y → ovAt p.allocOv t = ovAt p'.allocOv t) (hk : ∀ t, t < Y → ovAt p.capOv t = ovAt p'.capOv t)
    (hv : ∀ t, t < Y → ovAt p.covOv t = ovAt p'.covOv t) (t : Rat) (ht : t < Y) : progNow p t = progNow p' t := by
  unfold progNow
  rw [hs t ht, hu t ht, hc t ht, ha t ht, hk t ht, hv t ht, hfix.1, hfix.2.1, hfix.2.2]



/-! ## 4. active programs set targeted parameters exactly (C13) -/

theorem okOrderP_okOrder (s : PSpec) : ∀ (l done : List Nat), okOrderP s done l = true → okOrder s.base done l = true := by
  intro l
  induction l with
  | nil => intro _ _; rfl
  | cons a rest ih =>
    intro done h
    simp only [okOrderP, Bool.and_eq_true] at h
    obtain ⟨⟨h1, h2⟩, h3⟩ := h
    simp only [okOrder, Bool.and_eq_true]
    refine ⟨⟨h1, ?_⟩, ih _ h3⟩
    rw [List.all_eq_true] at h2 ⊢
    intro q hq
    have := h2 q hq
    simp only [Bool.or_eq_true, Bool.and_eq_true] at this ⊢
    rcases this with ⟨hd, _⟩ | hdone
    · exact Or.inl hd
    · exact Or.inr hdone

theorem depsBeforeP_depsBefore (s : PSpec) (h : depsBeforeP s = true) : depsBefore s.base = true :=
  okOrderP_okOrder s _ _ h

/-- visiting the parameters of a list leaves alone every parameter that is not in the list, and every data / derivative parameter without an overwrite -/
theorem foldlP_other (s : PSpec) (t : Rat) (x : Stock) (cv : Vals) (out : Nat → Option (Option Rat)) :
    ∀ (l : List Nat) (pv : Vals) (q : Nat), (q ∉ l ∨ (isFixed (s.base.pars q) = true ∧ out q = none)) →
    (l.foldl (parStepP s t x cv out) pv) q = pv q := by
  intro l
  induction l with
  | nil => intro pv q _; rfl
  | cons a rest ih =>
    intro pv q hq
    simp only [List.foldl_cons]
    rw [ih (parStepP s t x cv out pv a) q (by
      rcases hq with hq | hq
      · exact Or.inl (fun hm => hq (List.mem_cons_of_mem _ hm))
      · exact Or.inr hq)]
    unfold parStepP setAt
    split
    · rename_i hqa
      subst hqa
      rcases hq with hq | ⟨hd, ho⟩
      · exact absurd (List.mem_cons_self) hq
      · rw [ho]
        exact C03.parVal_fixed hd
    · rfl

/-- the value a visited parameter ends up with is its rule applied to the valuation at the moment it was visited -/
theorem foldlP_at (s : PSpec) (t : Rat) (x : Stock) (cv : Vals) (out : Nat → Option (Option Rat)) :
    ∀ (l done : List Nat) (pv0 : Vals), okOrder s.base done l = true → ∀ p, p ∈ l →
    ∃ pv', (l.foldl (parStepP s t x cv out) pv0) p = parValO s t x cv pv' (out p) p := by
  intro l
  induction l with
  | nil => intro _ _ _ p hp; simp at hp
  | cons a rest ih =>
    intro done pv0 hok p hp
    have hok' := hok
    simp only [okOrder, Bool.and_eq_true] at hok'
    obtain ⟨_, hrest⟩ := hok'
    have ha_rest : a ∉ rest := C03.okOrder_done_not_mem s.base rest (a :: done) hrest a (List.mem_cons_self)
    simp only [List.foldl_cons]
    by_cases hpa : p = a
    · subst hpa
      refine ⟨pv0, ?_⟩
      rw [foldlP_other s t x cv out rest _ p (Or.inl ha_rest)]
      simp [parStepP, setAt]
    · simp only [List.mem_cons] at hp
      rcases hp with hp | hp
      · exact absurd hp hpa
      · exact ih (a :: done) _ hrest p hp

theorem clipQ_eq_clipLim (lo hi : Option Rat) (v : Rat) : Params.clipQ ⟨lo, hi⟩ v = clipLim lo hi v := rfl

/-- the program outcome of the index for a targeted parameter that the loop visits -/
theorem progOut_targeted (s : PSpec) (t : Rat) (x : Stock) (p : Nat) (c : CovoutP) (hact : activeAt s t = true)
    (hl : s.inLoop p = true) (hc : findCovout s.covouts p = some c) :
    progOut s (layerAt s t) x p = some (Params.outcomeFrom (coverages s.base.net s.base.dt (layerAt s t) x) c.spec) := by
  unfold progOut progOutC
  have : (layerAt s t).active = true := hact
  simp [this, hl, hc]

/-- the converted program outcome: number `· source_popsize / dt`, probability / rate `/ dt`, anything else unchanged (`none` = NaN) -/
def converted (s : PSpec) (x : Stock) (p : Nat) (o : Rat) : Option Rat :=
  match s.punits p with
  | .number => divQ (o * Engine.popsize s.base.net x p) s.base.dt
  | .perTime => divQ o s.base.dt
  | .other => some o

/-- **closedprog_sets_targets** (C13): at every active index, on every state `x`, a parameter that has a covout, is visited by the
    loop, is not output-only and not a population aggregation has EXACTLY the value
    `clip(convert(outcome(coverages of the same-index state)))`. -/
theorem closedprog_sets_targets (s : PSpec) (hd : depsBeforeP s = true) (i : Nat) (x : Stock) (d : Vals) (p : Nat) (hp : p ∈ s.base.porder)
    (c : CovoutP) (hc : findCovout s.covouts p = some c) (hl : s.inLoop p = true) (hpost : s.post p = false)
    (hagg : isAgg (s.base.pars p).kind = false)
    (hact : activeAt s (Grid.point s.base.start s.base.dt i) = true) (o : Rat)
    (ho : Params.outcomeFrom (coverages s.base.net s.base.dt (layerAt s (Grid.point s.base.start s.base.dt i)) x) c.spec = some o) :
    evalParsP s i x d p = (converted s x p o).map (clipLim (s.base.pars p).lo (s.base.pars p).hi) := by
  unfold evalParsP
  try simp only
  obtain ⟨pv', hpv'⟩ := foldlP_at s _ x (evalCharacs s.base x)
    (progOut s (layerAt s (Grid.point s.base.start s.base.dt i)) x) s.base.porder [] (basePars s.base _ d)
    (depsBeforeP_depsBefore s hd) p hp
  rw [hpv', progOut_targeted s _ x p c hact hl hc, ho]
  unfold parValO
  simp only
  rw [C06.precedence_program (inpOf s _ x (evalCharacs s.base x) pv' p o) o (by simp [inpOf, hl])
    (by simpa [inpOf, Params.inWin, activeAt] using hact) (by simp [inpOf]) (by simp [inpOf, hagg])
    (by simp [inpOf, hpost])]
  unfold converted Params.convert Params.clipV
  simp only [inpOf]
  cases s.punits p <;> rfl

/-- the three conversions spelled out (`dt ≠ 0`) -/
theorem closedprog_sets_targets_number (s : PSpec) (hd : depsBeforeP s = true) (hdt : s.base.dt ≠ 0) (i : Nat) (x : Stock) (d : Vals) (p : Nat)
    (hp : p ∈ s.base.porder) (c : CovoutP) (hc : findCovout s.covouts p = some c) (hl : s.inLoop p = true) (hpost : s.post p = false)
    (hagg : isAgg (s.base.pars p).kind = false) (hu : s.punits p = .number)
    (hact : activeAt s (Grid.point s.base.start s.base.dt i) = true) (o : Rat)
    (ho : Params.outcomeFrom (coverages s.base.net s.base.dt (layerAt s (Grid.point s.base.start s.base.dt i)) x) c.spec = some o) :
    evalParsP s i x d p = some (clipLim (s.base.pars p).lo (s.base.pars p).hi (o * Engine.popsize s.base.net x p / s.base.dt)) := by
  rw [closedprog_sets_targets s hd i x d p hp c hc hl hpost hagg hact o ho]
  simp [converted, hu, divQ, hdt]

theorem closedprog_sets_targets_perTime (s : PSpec) (hd : depsBeforeP s = true) (hdt : s.base.dt ≠ 0) (i : Nat) (x : Stock) (d : Vals) (p : Nat)
    (hp : p ∈ s.base.porder) (c : CovoutP) (hc : findCovout s.covouts p = some c) (hl : s.inLoop p = true) (hpost : s.post p = false)
    (hagg : isAgg (s.base.pars p).kind = false) (hu : s.punits p = .perTime)
    (hact : activeAt s (Grid.point s.base.start s.base.dt i) = true) (o : Rat)
    (ho : Params.outcomeFrom (coverages s.base.net s.base.dt (layerAt s (Grid.point s.base.start s.base.dt i)) x) c.spec = some o) :
    evalParsP s i x d p = some (clipLim (s.base.pars p).lo (s.base.pars p).hi (o / s.base.dt)) := by
  rw [closedprog_sets_targets s hd i x d p hp c hc hl hpost hagg hact o ho]
  simp [converted, hu, divQ, hdt]

theorem closedprog_sets_targets_other (s : PSpec) (hd : depsBeforeP s = true) (i : Nat) (x : Stock) (d : Vals) (p : Nat)
    (hp : p ∈ s.base.porder) (c : CovoutP) (hc : findCovout s.covouts p = some c) (hl : s.inLoop p = true) (hpost : s.post p = false)
    (hagg : isAgg (s.base.pars p).kind = false) (hu : s.punits p = .other)
    (hact : activeAt s (Grid.point s.base.start s.base.dt i) = true) (o : Rat)
    (ho : Params.outcomeFrom (coverages s.base.net s.base.dt (layerAt s (Grid.point s.base.start s.base.dt i)) x) c.spec = some o) :
    evalParsP s i x d p = some (clipLim (s.base.pars p).lo (s.base.pars p).hi o) := by
  rw [closedprog_sets_targets s hd i x d p hp c hc hl hpost hagg hact o ho]
  simp [converted, hu]

/-- the number eligible of a program in a step is the sum of its target compartments ON THE STATE OF THAT STEP -/
theorem eligible_of_state (net : Net) (x : Stock) (pn : ProgNow) :
    Params.eligUsed (stepOf net x pn) = listSum (pn.targets.map (stockTotal net x)) := by
  unfold Params.eligUsed stepOf
  simp only [List.map_map]
  rfl

/-- **coverage_of_state**: without overwrites the coverage of a program in a step is `get_prop_covered` of this step's
    `spending (·dt if one-off) / unit cost` (capped by the constraint) and the current sizes of its target compartments -/
theorem coverage_of_state (net : Net) (dt : Rat) (x : Stock) (pn : ProgNow) (hi : pn.instr = ⟨none, none, none⟩)
    (huc : pn.book.unitCost ≠ 0) :
    covOf net dt x (some pn) =
      Coverage.propCovered (fun _ => 1)
        (let c := (if pn.book.oneOff then pn.book.spend * dt else pn.book.spend) / pn.book.unitCost
         match pn.book.capCon with
         | none => c
         | some k => Coverage.minQ (if pn.book.capPerYear then k * dt else k) c)
        (listSum (pn.targets.map (stockTotal net x))) pn.book.sat := by
  unfold covOf
  simp only [Option.bind_some]
  rw [coverage_from_spending (fun _ => 1) dt (stepOf net x pn) hi huc]
  have := eligible_of_state net x pn
  unfold Params.eligUsed at this
  rw [this]
  rfl

/-- a coverage overwrite decides (`·dt` for one-off programs, at most 1), whatever the state -/
theorem coverage_of_overwrite (net : Net) (dt : Rat) (x : Stock) (pn : ProgNow) (c : Rat) (hc : pn.instr.coverage = some c) :
    covOf net dt x (some pn) = some (Coverage.minQ (if pn.book.oneOff then c * dt else c) 1) := by
  unfold covOf
  simp only [Option.bind_some]
  exact coverage_overwrite (fun _ => 1) dt (stepOf net x pn) c hc

/-- **closedprog_sets_targets_run**: along a defined run with programs, entry `k` = (stocks `x`, flows `fl`) of the trajectory was
    produced by `Engine.step` from the parameter values `evalParsP s k x` of the same index and state — and a targeted parameter
    among them has exactly the value `clip(convert(outcome(coverages on x)))`. -/
theorem closedprog_sets_targets_run (s : PSpec) (hd : depsBeforeP s = true) {n : Nat} {traj : Trajectory}
    (h : ClosedProg.simulateN s n = some traj) (k : Nat) (x : Stock) (fl : Flow) (hk : traj[k]? = some (x, fl))
    (p : Nat) (hp : p ∈ s.base.porder) (c : CovoutP) (hc : findCovout s.covouts p = some c) (hl : s.inLoop p = true)
    (hpost : s.post p = false) (hagg : isAgg (s.base.pars p).kind = false)
    (hact : activeAt s (Grid.point s.base.start s.base.dt k) = true) (o : Rat)
    (ho : Params.outcomeFrom (coverages s.base.net s.base.dt (layerAt s (Grid.point s.base.start s.base.dt k)) x) c.spec = some o) :
    ∃ d, (∃ x', step s.base.net s.base.dt (pvOf (evalParsP s k x d)) x = some (fl, x')) ∧
      evalParsP s k x d p = (converted s x p o).map (clipLim (s.base.pars p).lo (s.base.pars p).hi) := by
  unfold ClosedProg.simulateN at h
  obtain ⟨x0, _, hr⟩ := simulateEv_split _ _ h
  obtain ⟨d, x', _, hx'⟩ := runEv_entry _ _ _ _ (fun _ => True) (fun _ _ _ _ => trivial) n 0 x0 _ traj trivial hr k x fl hk
  rw [Nat.zero_add] at hx'
  exact ⟨d, ⟨x', stepEv_eq _ _ hx'⟩, closedprog_sets_targets s hd k x d p hp c hc hl hpost hagg hact o ho⟩


/-- the program-free rule of the closed loop IS the C06 pipeline `Params.evalOne` on the inputs the closed loop computes
    (no covout; the skip window of the specification): so `parValO` is `Params.evalOne` in every case — the program layer adds
    only the `outcome` input (`hnd`: not a derivative parameter — those are advanced by the Euler step, not by this pipeline) -/
theorem parVal_is_evalOne (s : PSpec) (t : Rat) (x : Stock) (cv pv : Vals) (p : Nat)
    (hpv : isData (s.base.pars p) = true → (pv p).map (clipLim (s.base.pars p).lo (s.base.pars p).hi) = pv p)
    (hnd : (s.base.pars p).deriv = false) :
    Closed.parVal s.base t x cv pv p = Params.evalOne { inpOf s t x cv pv p 0 with outcome := none } := by
  have hb : (baseVal (s.base.pars p) t).map (Params.clipQ ⟨(s.base.pars p).lo, (s.base.pars p).hi⟩) = baseVal (s.base.pars p) t :=
    C03.baseVal_clip (s.base.pars p) t
  unfold Closed.parVal Params.evalOne Params.afterPost Params.afterAgg Params.afterProg Params.base Params.progApplies
    Params.ownFcn Params.skipped inpOf scaledRaw Closed.skipped
  simp only [hnd, Bool.false_eq_true, if_false]
  cases hk : (s.base.pars p).kind with
  | data =>
    have hd : isData (s.base.pars p) = true := by simp [isData, hk]
    have := hpv hd
    simp only [isData, hk, isAgg, Params.clipV]
    simp only [Bool.not_true, Bool.false_and, Bool.and_false, Option.isSome_none, if_false, Bool.false_eq_true, if_true]
    exact this.symm
  | fn e deps =>
    cases hsk : Params.inWin (s.base.pars p).skip t <;> cases s.post p <;>
      simp [isData, hk, isAgg, hsk, Params.clipV, Option.map_map, Function.comp_def, clipQ_eq_clipLim] <;> exact hb.symm
  | agg avg terms =>
    cases hsk : Params.inWin (s.base.pars p).skip t <;>
      simp [isData, hk, isAgg, hsk, Params.clipV, Option.map_map, Function.comp_def, clipQ_eq_clipLim] <;> exact hb.symm

/-! ## 5. untargeted parameters follow the program-free rule (C06 / frame) -/

theorem progOut_untargeted (s : PSpec) (L : LayerAt) (x : Stock) (p : Nat) (h : targeted s p = false) : progOut s L x p = none := by
  unfold targeted at h
  have hf : findCovout s.covouts p = none := by
    cases hh : findCovout s.covouts p with
    | none => rfl
    | some c => rw [hh] at h; simp at h
  unfold progOut progOutC
  rw [hf]
  simp

theorem okOrderP_done_not_mem (s : PSpec) (l done : List Nat) (h : okOrderP s done l = true) : ∀ q, q ∈ done → q ∉ l :=
  C03.okOrder_done_not_mem s.base l done (okOrderP_okOrder s l done h)

/-- after visiting a list in an order that is topological for the dependency relation (targeted data parameters included), every
    visited parameter WITHOUT an overwrite equals the program-free rule applied to the FINAL valuation -/
theorem foldlP_fixpoint (s : PSpec) (t : Rat) (x : Stock) (cv : Vals) (out : Nat → Option (Option Rat))
    (hout : ∀ q, targeted s q = false → out q = none) :
    ∀ (l done : List Nat) (pv0 : Vals), okOrderP s done l = true → ∀ p, p ∈ l → out p = none →
    (l.foldl (parStepP s t x cv out) pv0) p = Closed.parVal s.base t x cv (l.foldl (parStepP s t x cv out) pv0) p := by
  intro l
  induction l with
  | nil => intro _ _ _ p hp; simp at hp
  | cons a rest ih =>
    intro done pv0 hok p hp hop
    have hok' := hok
    simp only [okOrderP, Bool.and_eq_true, List.all_eq_true, Bool.or_eq_true, Bool.not_eq_true'] at hok'
    obtain ⟨⟨_, hrefs⟩, hrest⟩ := hok'
    simp only [List.foldl_cons]
    simp only [List.mem_cons] at hp
    have ha_rest : a ∉ rest := okOrderP_done_not_mem s rest (a :: done) hrest a (List.mem_cons_self)
    by_cases hpa : p = a
    · subst hpa
      by_cases hd : isFixed (s.base.pars p) = true
      · rw [C03.parVal_fixed hd]
      · have hd' : isFixed (s.base.pars p) = false := by simpa using hd
        rw [foldlP_other s t x cv out rest _ p (Or.inl ha_rest)]
        have hself : parStepP s t x cv out pv0 p p = Closed.parVal s.base t x cv pv0 p := by
          simp [parStepP, setAt, hop, parValO]
        rw [hself]
        apply C03.parVal_congr s.base t x cv _ _ p hd'
        intro q hq
        rcases hrefs q hq with hqd | hqdone
        · rw [foldlP_other s t x cv out rest _ q (Or.inr ⟨hqd.1, hout q hqd.2⟩)]
          unfold parStepP setAt
          split
          · rename_i hqp; subst hqp; rw [hd'] at hqd; exact absurd hqd.1 (by simp)
          · rfl
        · have hqdone' : q ∈ done := by simpa using hqdone
          have hq_not : q ∉ p :: rest := okOrderP_done_not_mem s (p :: rest) done hok q hqdone'
          rw [foldlP_other s t x cv out rest _ q (Or.inl (fun hm => hq_not (List.mem_cons_of_mem _ hm)))]
          unfold parStepP setAt
          split
          · rename_i hqp; subst hqp; exact absurd (List.mem_cons_self) hq_not
          · rfl
    · rcases hp with hp | hp
      · exact absurd hp hpa
      · exact ih (a :: done) _ hrest p hp hop

/-- **closedprog_untargeted_rule** (C06, execution order): a parameter without a covout equals the program-free rule —
    `clip(scale · f(dependencies))`, the aggregation, or its databook value — applied to the parameter values of the SAME index,
    which contain the program-set values of the targeted parameters it reads (no stale value is read). -/
theorem closedprog_untargeted_rule (s : PSpec) (hd : depsBeforeP s = true) (i : Nat) (x : Stock) (d : Vals) (p : Nat) (hp : p ∈ s.base.porder)
    (ht : targeted s p = false) :
    evalParsP s i x d p = Closed.parVal s.base (Grid.point s.base.start s.base.dt i) x (evalCharacs s.base x) (evalParsP s i x d) p := by
  unfold evalParsP
  simp only
  exact foldlP_fixpoint s _ x _ _ (fun q hq => progOut_untargeted s _ x q hq) s.base.porder [] _ hd p hp
    (progOut_untargeted s _ x p ht)

/-- the same holds for a targeted parameter whenever the programs are not active or the loop does not visit it -/
theorem closedprog_inactive_rule (s : PSpec) (hd : depsBeforeP s = true) (i : Nat) (x : Stock) (d : Vals) (p : Nat) (hp : p ∈ s.base.porder)
    (h : activeAt s (Grid.point s.base.start s.base.dt i) = false) :
    evalParsP s i x d p = Closed.parVal s.base (Grid.point s.base.start s.base.dt i) x (evalCharacs s.base x) (evalParsP s i x d) p := by
  rw [evalParsP_inactive s i x d h]
  exact C03.evalPars_fixpoint s.base (depsBeforeP_depsBefore s hd) i x d p hp

/-- `U` contains no targeted parameter and is closed under "reads the parameter" -/
def UntargetedClosed (s : PSpec) (U : List Nat) : Prop :=
  ∀ p, p ∈ U → targeted s p = false ∧ ∀ q, q ∈ parRefsOf (kindRefs (s.base.pars p).kind) → q ∈ U

theorem foldlP_untargeted (s : PSpec) (t : Rat) (x : Stock) (cv : Vals) (out : Nat → Option (Option Rat))
    (U : List Nat) (hU : UntargetedClosed s U) (hout : ∀ q, targeted s q = false → out q = none) :
    ∀ (l : List Nat) (pv pv' : Vals), (∀ q, q ∈ U → pv q = pv' q) →
    ∀ q, q ∈ U → (l.foldl (parStepP s t x cv out) pv) q = (l.foldl (parStep s.base t x cv) pv') q := by
  intro l
  induction l with
  | nil => intro pv pv' h q hq; exact h q hq
  | cons a rest ih =>
    intro pv pv' h q hq
    simp only [List.foldl_cons]
    apply ih _ _ _ q hq
    intro q' hq'
    unfold parStepP parStep setAt
    split
    · rename_i hqa
      subst hqa
      obtain ⟨hut, hclosed⟩ := hU q' hq'
      rw [hout q' hut]
      show Closed.parVal s.base t x cv pv q' = Closed.parVal s.base t x cv pv' q'
      by_cases hd : isFixed (s.base.pars q') = true
      · rw [C03.parVal_fixed hd, C03.parVal_fixed hd]; exact h q' hq'
      · have hd' : isFixed (s.base.pars q') = false := by simpa using hd
        exact C03.parVal_congr s.base t x cv pv pv' q' hd' (fun r hr => h r (hclosed r hr))
    · exact h q' hq'

/-- **closedprog_untargeted_unchanged_rule** (C06 / C13 frame): a parameter that is neither targeted nor (transitively) dependent
    on a targeted parameter has, at every index and on every state, the value the program-free closed loop gives on the same state —
    programs change it only through the model dynamics (the state). -/
theorem closedprog_untargeted_unchanged_rule (s : PSpec) (U : List Nat) (hU : UntargetedClosed s U) (i : Nat) (x : Stock) (d : Vals)
    (q : Nat) (hq : q ∈ U) : evalParsP s i x d q = evalPars s.base i x d q := by
  unfold evalParsP evalPars
  try simp only
  exact foldlP_untargeted s _ x _ _ U hU (fun r hr => progOut_untargeted s _ x r hr) s.base.porder _ _ (fun _ _ => rfl) q hq

/-- without covouts the run with programs is the program-free run -/
theorem closedprog_no_covouts (s : PSpec) (h : s.covouts = []) (n : Nat) : ClosedProg.simulateN s n = Closed.simulateN s.base n := by
  have hout : ∀ t x p, progOut s (layerAt s t) x p = none := fun t x p =>
    progOut_untargeted s _ x p (by simp [targeted, findCovout, h])
  have hev : evalParsP s = evalPars s.base := by
    funext i x d
    unfold evalParsP evalPars
    simp only
    rw [parStepP_none]
    exact hout _ x
  have hadv : nextDP s = nextD s.base := by
    funext i x d
    unfold nextDP nextD evalParsPD evalParsD
    simp only
    rw [advStepP_none]
    exact hout _ x
  rw [closed_is_ev]
  unfold ClosedProg.simulateN
  rw [hev, hadv]

/-! ## 6. limits, and the L1 theorems on runs with programs -/

theorem parValO_within (s : PSpec) (t : Rat) (x : Stock) (cv pv : Vals) (ov : Option (Option Rat)) (p : Nat)
    (hpv : ∀ v, pv p = some v → C03.Within (s.base.pars p) v) {v : Rat} (h : parValO s t x cv pv ov p = some v) :
    C03.Within (s.base.pars p) v := by
  unfold parValO at h
  cases ov with
  | none => exact C03.parVal_within s.base t x cv pv p hpv h
  | some o =>
    cases o with
    | none => exact absurd h (by simp)
    | some o =>
      simp only at h
      unfold Params.evalOne Params.clipV at h
      rw [Option.map_eq_some_iff] at h
      obtain ⟨w, _, rfl⟩ := h
      exact C03.clipLim_within _ _

theorem foldlP_within (s : PSpec) (t : Rat) (x : Stock) (cv : Vals) (out : Nat → Option (Option Rat)) : ∀ (l : List Nat) (pv : Vals),
    (∀ p v, pv p = some v → C03.Within (s.base.pars p) v) →
    ∀ p v, (l.foldl (parStepP s t x cv out) pv) p = some v → C03.Within (s.base.pars p) v := by
  intro l
  induction l with
  | nil => intro pv h; simpa using h
  | cons a rest ih =>
    intro pv h
    simp only [List.foldl_cons]
    apply ih
    intro p v hv
    unfold parStepP setAt at hv
    split at hv
    · rename_i hpa
      subst hpa
      exact parValO_within s t x cv pv _ p (h p) hv
    · exact h p v hv

/-- **evalParsP_clipped**: with programs, too, every parameter value of every index on every state lies within its limits
    (`hd`: the derivative values the index was entered with are — an invariant of the loop, `nextDP_within`) -/
theorem evalParsP_clipped (s : PSpec) (i : Nat) (x : Stock) (d : Vals) (hd : C03.DWithin s.base d) (p : Nat) {v : Rat}
    (h : evalParsP s i x d p = some v) : C03.Within (s.base.pars p) v := by
  unfold evalParsP at h
  exact foldlP_within s _ x _ _ s.base.porder _ (C03.basePars_within s.base _ d hd) p v h

theorem foldlPD_within (s : PSpec) (t : Rat) (x : Stock) (cv : Vals) (out : Nat → Option (Option Rat)) :
    ∀ (l : List Nat) (st : Vals × Vals), C03.DWithin s.base st.2 → C03.DWithin s.base (l.foldl (advStepP s t x cv out) st).2 := by
  intro l
  induction l with
  | nil => intro st h; exact h
  | cons a rest ih =>
    intro st h
    simp only [List.foldl_cons]
    apply ih
    unfold advStepP
    simp only
    split
    · intro p v hder hv
      unfold setAt at hv
      split at hv
      · rename_i hpa; subst hpa; exact C03.advVal_within s.base t x cv st.1 p hv
      · exact h p v hder hv
    · exact h

theorem nextDP_within (s : PSpec) (i : Nat) (x : Stock) (d : Vals) (hd : C03.DWithin s.base d) : C03.DWithin s.base (nextDP s i x d) := by
  unfold nextDP evalParsPD
  exact foldlPD_within s _ x _ _ s.base.porder _ hd

theorem evalParsP_propsNonneg (s : PSpec) (hc : propsClipped s.base = true) (i : Nat) (x : Stock) (d : Vals) (hd : C03.DWithin s.base d) :
    C02.PropsNonneg s.base.net (pvOf (evalParsP s i x d)) := by
  intro l hl hj
  have h := C03.allBelow_spec hc hl
  simp only [hj, Bool.not_true, Bool.false_or] at h
  unfold pOf
  cases hp : s.base.net.par l with
  | none => simp
  | some p =>
    rw [hp] at h
    simp only at h ⊢
    have key : ∀ lo, (s.base.pars p).lo = some lo → 0 ≤ lo → (∀ hi, (s.base.pars p).hi = some hi → lo ≤ hi) →
        0 ≤ pvOf (evalParsP s i x d) p := by
      intro lo hlo h0 hcons
      unfold pvOf
      cases hv : evalParsP s i x d p with
      | none => simp
      | some v =>
        simp only [Option.getD_some]
        exact le_trans h0 ((evalParsP_clipped s i x d hd p hv).2 lo hlo hcons)
    cases hlo : (s.base.pars p).lo with
    | none => rw [hlo] at h; simp at h
    | some lo =>
      cases hhi : (s.base.pars p).hi with
      | none =>
        rw [hlo, hhi] at h
        simp only [decide_eq_true_eq] at h
        exact key lo hlo h (by intro hi hh; rw [hhi] at hh; exact absurd hh (by simp))
      | some hi =>
        rw [hlo, hhi] at h
        simp only [Bool.and_eq_true, decide_eq_true_eq] at h
        exact key lo hlo h.1 (by intro hi' hh; rw [hhi] at hh; cases hh; exact h.2)

/-- **closedprog_is_process**: a defined run with programs IS `Engine.process` (initial flush, then `runFrom`) on the parameter
    stream the loop computes itself — so every L1 theorem transfers -/
theorem closedprog_is_process (s : PSpec) (n : Nat) (traj : Trajectory) (h : ClosedProg.simulateN s n = some traj) :
    process s.base.net s.base.dt (pvOf (evalParsP s 0 s.base.init (initD s.base)))
      (pvsEv (evalParsP s) (nextDP s) 0 (initD s.base) traj) s.base.init = some traj :=
  simulateEv_is_process _ _ _ _ _ _ n traj h

/-- **closedprog_total** (C01 on runs with programs): people after any number of indices = people after the flush + recorded source outflow -/
theorem closedprog_total (s : PSpec) (hwf : wfCheck s.base.net = true) (hgr : wfGroupRows s.base.net = true)
    (hres : resCheck s.base.net = true) (hdt : 0 ≤ s.base.dt) (hc : propsClipped s.base = true) {n : Nat} {x0 : Stock} {d : Vals}
    {traj : Trajectory} (hx : C02.StockNonneg s.base.net x0) (hd : C03.DWithin s.base d)
    (hr : runEv s.base.net s.base.dt (evalParsP s) (nextDP s) 0 n x0 d = some traj) :
    C01.grandTotal s.base.net (C01.lastStock s.base.net x0 traj) = C01.grandTotal s.base.net x0 + C01.trajSourceOut s.base.net traj :=
  C01.run_total hwf hgr hres hdt (pvsEv (evalParsP s) (nextDP s) 0 d traj)
    (pvsEv_mem (evalParsP s) (nextDP s) (C03.DWithin s.base) (nextDP_within s) (C02.PropsNonneg s.base.net)
      (evalParsP_propsNonneg s hc) traj 0 d hd) hx
    (runEv_is_runFrom _ _ _ _ n 0 x0 d traj hr)

/-- **closedprog_nonneg** (C02 on runs with programs): every stock and every flow of every index is non-negative -/
theorem closedprog_nonneg (s : PSpec) (hwf : wfCheck s.base.net = true) (hdt : 0 ≤ s.base.dt) (hc : propsClipped s.base = true) :
    ∀ (n i : Nat) (x0 : Stock) (d : Vals) (traj : Trajectory), C02.StockNonneg s.base.net x0 → C03.DWithin s.base d →
    runEv s.base.net s.base.dt (evalParsP s) (nextDP s) i n x0 d = some traj →
    ∀ e, e ∈ traj → C02.StockNonneg s.base.net e.1 ∧ C02.FlowNonneg s.base.net e.2 := by
  intro n
  induction n with
  | zero =>
    intro i x0 d traj _ _ h e he
    simp only [runEv, Option.some.injEq] at h
    subst h
    simp at he
  | succ n ih =>
    intro i x0 d traj hx hd h e he
    obtain ⟨fl, x', rest, hs, hr, rfl⟩ := runEv_succ_some _ _ h
    have hstep := C02.step_nonneg hwf hdt (evalParsP_propsNonneg s hc i x0 d hd) hx (stepEv_eq _ _ hs)
    simp only [List.mem_cons] at he
    rcases he with rfl | he
    · exact ⟨hx, hstep.1⟩
    · exact ih (i + 1) x' _ rest hstep.2 (nextDP_within s i x0 d hd) hr e he

/-- **closedprog_jempty** (C04/C10): junctions are empty at every index of a run with programs -/
theorem closedprog_jempty (s : PSpec) (hwf : wfCheck s.base.net = true) {n : Nat} {traj : Trajectory}
    (h : ClosedProg.simulateN s n = some traj) : C10.AllJEmpty s.base.net traj :=
  C10.process_all_jempty hwf (closedprog_is_process s n traj h)

/-- end_extension with programs: the run to `m ≤ n` points is the first `m` entries of the run to `n` points -/
theorem closedprog_prefix (s : PSpec) {n m : Nat} (hm : m ≤ n) {traj : Trajectory} (h : ClosedProg.simulateN s n = some traj) :
    ClosedProg.simulateN s m = some (traj.take m) :=
  simulateEv_prefix _ _ _ _ _ _ hm h



/-! ## 7. non-vacuity: a concrete specification with two programs on which every hypothesis holds

  `C03.exSpec` (two compartments, a junction, a sink; `a = (t-1999)/100` read by the transition function `0.1·a·c0/(frac+1)`),
  all parameters in the execution order, plus
    P0 (continuous, targets c0): spending 60, unit cost 1;
    P1 (one-off, targets c0 and c1): spending 40 from 2000 / 80 from 2001, unit cost 2, capacity constraint 15 people/year;
    covout on `a` (parameter 4, a non-transition FUNCTION parameter that the transition function reads): additive, baseline 1/100, P0 ↦ 3/100;
    covout on the probability parameter 1 (upper limit 1/2): nested, baseline 1/10, P0 ↦ 1/5, P1 ↦ 3/10, explicit P0+P1 ↦ 2/5;
    programs active from 2000.5 to 2001: index 0 inactive, indices 1 and 2 active, index 3 inactive again. -/

def exBase : Spec := { C03.exSpec with porder := [4, 1, 2, 3, 0], npts := 2 }

def exProg0 : ProgSpec :=
  { targets := [0], oneOff := false, capPerYear := false, spend := ⟨some 60, []⟩, unitCost := ⟨some 1, []⟩, capCon := none,
    allocOv := none, capOv := none, covOv := none }
def exProg1 : ProgSpec :=
  { targets := [0, 1], oneOff := true, capPerYear := true, spend := ⟨none, [(2000, 40), (2001, 80)]⟩, unitCost := ⟨some 2, []⟩,
    capCon := some ⟨some 15, []⟩, allocOv := none, capOv := none, covOv := none }
def exProgs : List ProgSpec := [exProg0, exProg1]

def exCovA : CovoutP := { par := 4, spec := { inter := .additive, baseline := 1/100, progs := [(0, 3/100)], ex := [] } }
def exCovB : CovoutP := { par := 1, spec := { inter := .nested, baseline := 1/10, progs := [(0, 1/5), (1, 3/10)], ex := [(3, 2/5)] } }

def exP : PSpec where
  base := exBase
  progs := exProgs
  covouts := [exCovA, exCovB]
  start := 4001/2
  stop := some 2001
  punits := fun p => if p = 1 then .perTime else .other
  inLoop := fun p => p = 0 || p = 1 || p = 4
  post := fun _ => false

/-- a state: 100 people in c0, 50 in c1 -/
def exX : Stock := fun c r => if r = 0 then (match c with | 0 => 100 | 1 => 50 | _ => 0) else 0

/-- the derivative-parameter component of the loop state (`exP` has no derivative parameter: any value will do) -/
def exD : Vals := initD exP.base

example : wfPSpec exP = true := by decide +kernel
example : depsBeforeP exP = true ∧ propsClipped exP.base = true := by decide +kernel
example : (List.range 4).map (fun i => activeAt exP (Grid.point exP.base.start exP.base.dt i)) = [false, true, true, false] := by
  decide +kernel
/-- coverages at index 1 on `exX`: P0 60/100; P1 min(15·½, 40·½/2)/150 -/
example : coverages exP.base.net exP.base.dt (layerAt exP (4001/2)) exX = [some (3/5), some (1/20)] := by decide +kernel
/-- … as `coverage_of_state` says: capacity / (c0 + c1) on THIS state -/
example : listSum ([0, 1].map (stockTotal exP.base.net exX)) = 150 := by decide +kernel
/-- outcomes: additive single program 1/100 + 3/5·2/100; nested with the explicit P0+P1 value: 1/10 + 1/20·3/10 + 11/20·1/10 -/
example : Params.outcomeFrom (coverages exP.base.net exP.base.dt (layerAt exP (4001/2)) exX) exCovA.spec = some (11/500)
    ∧ Params.outcomeFrom (coverages exP.base.net exP.base.dt (layerAt exP (4001/2)) exX) exCovB.spec = some (17/100) := by
  decide +kernel
/-- all parameter values of index 1 on `exX`, with programs: the probability is 17/100 / dt = 17/50 (below its limit 1/2), `a` is the
    outcome 11/500, and the transition function is evaluated FROM THE OVERWRITTEN `a`: 0.1 · 11/500 · 100 / (2/3 + 1) = 33/250 … -/
example : (List.range 5).map (evalParsP exP 1 exX exD) = [some (33/250), some (17/50), some (1/4), some (3/4), some (11/500)] := by
  decide +kernel
/-- … and without programs -/
example : (List.range 5).map (evalPars exP.base 1 exX exD) = [some (9/100), some (9/20), some (1/4), some (3/4), some (3/200)] := by
  decide +kernel
/-- `closedprog_sets_targets_perTime` applies to the probability parameter (all hypotheses hold) and gives the kernel-checked value -/
example : evalParsP exP 1 exX exD 1 = some (clipLim none (some (1/2)) ((17/100) / (1/2))) := by
  have h := closedprog_sets_targets_perTime exP (by decide +kernel) (by decide +kernel) 1 exX exD 1 (by decide) exCovB rfl
    (by decide) (by decide) (by decide +kernel) (by decide) (by decide +kernel) (17/100) (by decide +kernel)
  rw [h]
  decide +kernel
/-- `closedprog_sets_targets_other` applies to the function parameter `a` -/
example : evalParsP exP 1 exX exD 4 = some (11/500) := by
  have h := closedprog_sets_targets_other exP (by decide +kernel) 1 exX exD 4 (by decide) exCovA rfl
    (by decide) (by decide) (by decide +kernel) (by decide) (by decide +kernel) (11/500) (by decide +kernel)
  rw [h]
  decide +kernel
/-- the junction proportions are neither targeted nor dependent on a targeted parameter: `closedprog_untargeted_unchanged_rule` applies -/
example : UntargetedClosed exP [2, 3] := by
  intro p hp
  simp only [List.mem_cons, List.not_mem_nil, or_false] at hp
  rcases hp with rfl | rfl
  · exact ⟨by decide +kernel, by intro q hq; simp [exP, exBase, C03.exSpec, C03.exPars, kindRefs, parRefsOf] at hq⟩
  · exact ⟨by decide +kernel, by intro q hq; simp [exP, exBase, C03.exSpec, C03.exPars, kindRefs, parRefsOf] at hq⟩
/-- the transition function (parameter 0) is untargeted but reads a targeted parameter: `closedprog_untargeted_rule` applies and its value
    differs from the program-free one — the hypothesis "not dependent on a targeted one" of the unchanged rule is needed -/
example : targeted exP 0 = false ∧ evalParsP exP 1 exX exD 0 ≠ evalPars exP.base 1 exX exD 0 := by decide +kernel
/-- index 0 lies before the start year: `closedprog_is_closed_before_start` applies with m = 1 … -/
example : ClosedProg.simulateN exP 1 = Closed.simulateN exP.base 1 :=
  closedprog_is_closed_before_start exP 1 (by decide) (by
    intro i hi
    have : i = 0 := by omega
    subst this
    decide +kernel)
/-- … the run is defined, and the junction content is flushed before the first step as without programs -/
example : (ClosedProg.simulateN exP 1).map (fun tr => tr.map (fun e => (List.range 4).map (fun c => e.1 c 0))) = some [[205/2, 50, 0, 15/2]] := by
  decide +kernel
/-- after the stop year (index 3, t = 2001.5 > 2001) the probability parameter has its databook value again (clipped to 1/2) -/
example : evalParsP exP 3 exX exD 1 = some (1/2) := by
  rw [closedprog_after_stop_data exP 3 exX exD (e := 2001) rfl (by decide +kernel) 1 (by decide +kernel) (by decide +kernel)]
  decide +kernel
/-- a spending overwrite that changes at Y = 2001 only: the layers are interchangeable at index 0 and 1 (t < 2001) … -/
def exP' : PSpec :=
  { exP with progs := [ { exProg0 with allocOv := some ⟨none, [(1999, 60), (2001, 500)]⟩ }, exProg1 ] }
example : ClosedProg.simulateN exP 1 = ClosedProg.simulateN exP' 1 :=
  closedprog_instructions_agree_before exP exP' ⟨rfl, rfl, rfl, rfl, rfl⟩ 1 (by decide) (by
    intro i hi
    have : i = 0 := by omega
    subst this
    exact ⟨by decide +kernel, by intro h; exact absurd h (by decide +kernel)⟩)
/-- … and the coverage at index 1 (t = 2000.5 < Y) is the same although the overwrite is present, while at t = 2001 it differs -/
example : coverages exP'.base.net exP'.base.dt (layerAt exP' (4001/2)) exX = coverages exP.base.net exP.base.dt (layerAt exP (4001/2)) exX
    ∧ coverages exP'.base.net exP'.base.dt (layerAt exP' 2001) exX ≠ coverages exP.base.net exP.base.dt (layerAt exP 2001) exX := by
  decide +kernel

end Atomica.C13
