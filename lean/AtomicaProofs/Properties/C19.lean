/-
  C19 — "Parameter functions can only do arithmetic with whitelisted functions."

  Theorems about `Atomica.Expr` (lean/AtomicaModel/Expr.lean), the model `parse_function` and
  `evaluate_plot_string` are compared with, string by string, by harness/props/c19.py.

  `accepts` is the SPECIFICATION-shaped acceptance (node-kind whitelist).  The walk of `parse_function` as
  written is `acceptsCurrent`; it does not satisfy `accepts_safe` (defect D1, witnesses at the end).
-/
import AtomicaModel.Expr
import AtomicaProofs.Lemmas.Expr

namespace Atomica.C19
open Atomica Atomica.Expr

/-! ## 1. Acceptance -/

/-- The node kinds the property allows, spelled as a proposition (independent of the Boolean `safeNode`). -/
inductive Safe (wl : List String) : Py → Prop
  | int (v : Int) : Safe wl (.node (.constant (.int v)) [])
  | float (v : Option Rat) : Safe wl (.node (.constant (.float v)) [])
  | name (x : String) : Safe wl (.node (.name x) [])
  | binOp (op : BinOpK) (l r : Py) (h : op ∈ [BinOpK.add, .sub, .mult, .div, .pow]) : Safe wl (.node (.binOp op) [l, r])
  | unaryOp (op : UnOpK) (a : Py) (h : op ∈ [UnOpK.uAdd, .uSub]) : Safe wl (.node (.unaryOp op) [a])
  | compare (ops : List CmpOpK) (cs : List Py) (h : ∀ o ∈ ops, o ∈ [CmpOpK.eq, .notEq, .lt, .ltE, .gt, .gtE])
      (hne : ops ≠ []) (hl : cs.length = ops.length + 1) : Safe wl (.node (.compare ops) cs)
  | call (f : String) (args : List Py) (h : f ∈ wl) :
      Safe wl (.node (.call args.length []) (.node (.name f) [] :: args))

theorem safeNode_iff (wl : List String) (t : Py) : safeNode wl t = true ↔ Safe wl t := by
  constructor
  · intro h
    unfold safeNode at h
    split at h
    · rename_i c cs
      simp only [Bool.and_eq_true, List.isEmpty_iff] at h
      obtain ⟨hc, rfl⟩ := h
      cases c <;> simp [numConst] at hc
      · exact Safe.int _
      · exact Safe.float _
    · rename_i x cs
      simp only [List.isEmpty_iff] at h
      subst h
      exact Safe.name _
    · rename_i op cs
      simp only [Bool.and_eq_true, beq_iff_eq] at h
      obtain ⟨hop, hl⟩ := h
      match cs, hl with
      | [l, r], _ =>
        refine Safe.binOp op l r ?_
        cases op <;> simp [arithOp] at hop ⊢
    · rename_i op cs
      simp only [Bool.and_eq_true, beq_iff_eq] at h
      obtain ⟨hop, hl⟩ := h
      match cs, hl with
      | [a], _ =>
        refine Safe.unaryOp op a ?_
        cases op <;> simp [signOp] at hop ⊢
    · rename_i ops cs
      simp only [Bool.and_eq_true, beq_iff_eq, List.all_eq_true, Bool.not_eq_true', List.isEmpty_eq_false_iff] at h
      obtain ⟨⟨hops, hne⟩, hl⟩ := h
      refine Safe.compare ops cs ?_ hne hl
      intro o ho
      have := hops o ho
      cases o <;> simp [orderOp] at this ⊢
    · rename_i n kws f args
      simp only [Bool.and_eq_true, beq_iff_eq, List.contains_eq_mem, decide_eq_true_eq, List.isEmpty_iff] at h
      obtain ⟨⟨hf, rfl⟩, rfl⟩ := h
      exact Safe.call f args hf
    · exact absurd h (by simp)
  · intro h
    cases h with
    | int v => simp [safeNode, numConst]
    | float v => simp [safeNode, numConst]
    | name x => simp [safeNode]
    | binOp op l r h =>
      simp only [List.mem_cons, List.not_mem_nil, or_false] at h
      rcases h with rfl | rfl | rfl | rfl | rfl <;> simp [safeNode, arithOp]
    | unaryOp op a h =>
      simp only [List.mem_cons, List.not_mem_nil, or_false] at h
      rcases h with rfl | rfl <;> simp [safeNode, signOp]
    | compare ops cs h hne hl =>
      simp only [safeNode, Bool.and_eq_true, beq_iff_eq, List.all_eq_true, Bool.not_eq_true', List.isEmpty_eq_false_iff]
      refine ⟨⟨?_, hne⟩, hl⟩
      intro o ho
      have := h o ho
      simp only [List.mem_cons, List.not_mem_nil, or_false] at this
      rcases this with rfl | rfl | rfl | rfl | rfl | rfl <;> rfl
    | call f args h => simp [safeNode, h]

theorem accepts_iff_forall (wl : List String) (e : Py) :
    accepts wl e = true ↔ ∀ t ∈ subterms e, safeNode wl t = true := by
  simp [accepts, List.all_eq_true]

/-- **accepts_safe.**  An accepted string consists, at every depth, of safe node kinds only. -/
theorem accepts_safe (wl : List String) (e : Py) (h : accepts wl e = true) :
    ∀ t, Sub t e → Safe wl t := by
  intro t ht
  exact (safeNode_iff wl t).mp ((accepts_iff_forall wl e).mp h t (mem_subterms_iff.mpr ht))

/-- … and conversely: `accepts` is exactly "every sub-term is of a safe kind". -/
theorem accepts_iff_safe (wl : List String) (e : Py) :
    accepts wl e = true ↔ ∀ t, Sub t e → Safe wl t := by
  constructor
  · exact accepts_safe wl e
  · intro h
    rw [accepts_iff_forall]
    intro t ht
    exact (safeNode_iff wl t).mpr (h t (mem_subterms_iff.mp ht))

/-- node kinds able to reach Python internals, objects or the file system, or simply not arithmetic -/
def forbiddenKind : Kind → Bool
  | .attribute _ | .subscript | .lambda | .listComp | .setComp | .dictComp | .generatorExp
  | .formattedValue | .joinedStr | .starred | .namedExpr | .ifExp | .boolOp _ | .dict _ | .set | .list | .tuple
  | .await | .yield | .yieldFrom | .slice | .other _ => true
  | .constant .str | .constant .bytes | .constant .none | .constant (.bool _) | .constant .complex
  | .constant .ellipsis | .constant .unknown => true
  | .unaryOp .not | .unaryOp .invert | .unaryOp .unknown => true
  | .binOp .floorDiv | .binOp .mod | .binOp .matMult | .binOp .lShift | .binOp .rShift | .binOp .bitOr
  | .binOp .bitXor | .binOp .bitAnd | .binOp .unknown => true
  | _ => false

/-- **accepts_excludes.**  No attribute access, subscript, lambda, comprehension, f-string, starred, walrus,
  conditional, boolean operator, container, await/yield, slice, unknown node class, non-numeric constant or
  non-arithmetic operator occurs anywhere in an accepted string. -/
theorem accepts_excludes (wl : List String) (e : Py) (h : accepts wl e = true) :
    ∀ t, Sub t e → forbiddenKind t.kind = false := by
  intro t ht
  have hs := accepts_safe wl e h t ht
  cases hs with
  | int v => rfl
  | float v => rfl
  | name x => rfl
  | binOp op l r h =>
    simp only [List.mem_cons, List.not_mem_nil, or_false] at h
    rcases h with rfl | rfl | rfl | rfl | rfl <;> rfl
  | unaryOp op a h =>
    simp only [List.mem_cons, List.not_mem_nil, or_false] at h
    rcases h with rfl | rfl <;> rfl
  | compare ops cs h hne hl => rfl
  | call f args h => rfl

/-- **accepts_call_whitelisted.**  Every call in an accepted string is a call of a bare whitelisted name with
  positional arguments only (no method call, no call of a computed object, no keyword). -/
theorem accepts_call_whitelisted (wl : List String) (e : Py) (h : accepts wl e = true)
    (n : Nat) (kws : List String) (cs : List Py) (ht : Sub (.node (.call n kws) cs) e) :
    ∃ f args, cs = .node (.name f) [] :: args ∧ f ∈ wl ∧ kws = [] ∧ n = args.length := by
  have hs := accepts_safe wl e h _ ht
  cases hs with
  | call f args hf => exact ⟨f, args, rfl, hf, rfl, rfl⟩

/-! ## 2. The specification only shrinks what the code accepts today -/

theorem divTransform_name (f : String) : divTransform (.node (.name f) []) = .node (.name f) [] := by
  rw [divTransform_other _ _ (by simp)]; rfl

theorem current_of_safe (wl : List String) (hs : "sdiv" ∈ wl) (e : Py)
    (h : ∀ t ∈ subterms e, safeNode wl t = true) : ∀ t ∈ subterms (divTransform e), currentOk wl t = true := by
  induction e using Py.ind with
  | h k cs ih =>
    rw [forall_subterms_node] at h
    obtain ⟨h0, hc⟩ := h
    have hch : ∀ c ∈ cs.map divTransform, ∀ t ∈ subterms c, currentOk wl t = true := by
      intro c hc'
      obtain ⟨d, hd, rfl⟩ := List.mem_map.mp hc'
      exact ih d hd (hc d hd)
    by_cases hk : k = .binOp .div
    · subst hk
      rw [divTransform_div, forall_subterms_node]
      refine ⟨by simp [currentOk, hs], ?_⟩
      intro c hc'
      rcases List.mem_cons.mp hc' with rfl | hc''
      · intro t ht
        simp [subterms_node, subtermsL] at ht
        subst ht; rfl
      · exact hch c hc''
    · rw [divTransform_other _ _ hk, forall_subterms_node]
      refine ⟨?_, hch⟩
      have hsafe := (safeNode_iff wl _).mp h0
      cases hsafe with
      | call f args hf =>
        simp only [List.map_cons, divTransform_name, currentOk, List.contains_eq_mem, decide_eq_true_eq]
        exact hf
      | _ => simp [currentOk]

theorem compileOk_of_safe (wl : List String) (e : Py) (h : accepts wl e = true) : compileOk e = true := by
  simp only [compileOk, List.all_eq_true]
  intro t ht
  have := accepts_excludes wl e h t (mem_subterms_iff.mp ht)
  cases hk : t.kind <;> simp_all [forbiddenKind]

/-- **accepts_imp_acceptsCurrent.**  Whatever the specification accepts, the code as written accepts too: replacing
  the walk by the node-kind whitelist can only reject more strings, never admit a new one. -/
theorem accepts_imp_acceptsCurrent (wl : List String) (hs : "sdiv" ∈ wl) (e : Py) (h : accepts wl e = true) :
    acceptsCurrent wl e = true := by
  simp only [acceptsCurrent, Bool.and_eq_true, List.all_eq_true]
  exact ⟨current_of_safe wl hs e ((accepts_iff_forall wl e).mp h), compileOk_of_safe wl e h⟩

/-! ## 3. The whitelist (regenerated from the source on every run) -/

/-- the mathematical names the property lists -/
def allowedNames : List String :=
  ["max", "min", "exp", "floor", "SRC_POP_AVG", "TGT_POP_AVG", "SRC_POP_SUM", "TGT_POP_SUM", "STITCH_AVG",
   "STITCH_SUM", "pi", "cos", "sin", "sqrt", "ln", "rand", "randn", "sdiv"]

/-- **whitelist_safe.**  Every key of `supported_functions` is one of the listed mathematical names, and `sdiv`
  (which `/` is rewritten to) is among them.  Adding, say, `eval` or `open` to the dict breaks this obligation. -/
theorem whitelist_safe : (∀ f ∈ Generated.whitelist, f ∈ allowedNames) ∧ "sdiv" ∈ Generated.whitelist := by
  decide

/-! ## 4. The guards on the string -/

theorem hasDunder_iff : ∀ l : List Char, hasDunder l = true ↔ ['_', '_'] <:+: l
  | [] => by simp [hasDunder]
  | [a] => by
      simp only [hasDunder, Bool.false_eq_true, false_iff]
      intro h
      have := h.length_le
      simp at this
  | a :: b :: cs => by
      have h1 : ['_', '_'] <:+: a :: b :: cs ↔ ['_', '_'] <+: a :: b :: cs ∨ ['_', '_'] <:+: b :: cs :=
        List.infix_cons_iff
      rw [hasDunder, Bool.or_eq_true, hasDunder_iff (b :: cs), h1]
      simp only [List.cons_prefix_cons, List.nil_prefix, and_true, Bool.and_eq_true, beq_iff_eq]
      constructor
      · rintro (⟨h2, h3⟩ | h2)
        · exact Or.inl ⟨h2.symm, h3.symm⟩
        · exact Or.inr h2
      · rintro (⟨h2, h3⟩ | h2)
        · exact Or.inl ⟨h2.symm, h3.symm⟩
        · exact Or.inr h2

/-- **guards_iff.**  The guards hold exactly when the string has no two consecutive underscores and fewer than
  1800 characters. -/
theorem guards_iff (s : String) : guards s = true ↔ ¬ (['_', '_'] <:+: s.toList) ∧ s.length < 1800 := by
  simp only [guards, Bool.and_eq_true, Bool.not_eq_true', decide_eq_true_eq]
  rw [← hasDunder_iff]
  simp

/-! ## 5. Division is rewritten to safe division, everywhere, without changing the value -/

/-- **divTransform_noDiv.**  After `_DivTransformer` no `/` operator node is left at any depth: Python's own
  division (ZeroDivisionError / NaN at 0/0) never runs. -/
theorem divTransform_noDiv (e : Py) : noDiv (divTransform e) = true := by
  simp only [noDiv, List.all_eq_true, decide_eq_true_eq]
  induction e using Py.ind with
  | h k cs ih =>
    have hch : ∀ c ∈ cs.map divTransform, ∀ t ∈ subterms c, t.kind ≠ .binOp .div := by
      intro c hc
      obtain ⟨d, hd, rfl⟩ := List.mem_map.mp hc
      exact ih d hd
    by_cases hk : k = .binOp .div
    · subst hk
      rw [divTransform_div, forall_subterms_node]
      refine ⟨by simp [Py.kind], ?_⟩
      intro c hc
      rcases List.mem_cons.mp hc with rfl | hc'
      · intro t ht
        simp [subterms_node, subtermsL] at ht
        subst ht; simp [Py.kind]
      · exact hch c hc'
    · rw [divTransform_other _ _ hk, forall_subterms_node]
      exact ⟨by simpa [Py.kind] using hk, hch⟩

theorem headName_map_divTransform (cs : List Py) : headName (cs.map divTransform) = headName cs := by
  cases cs with
  | nil => rfl
  | cons c rest =>
    cases c with
    | node k cs' =>
      by_cases hk : k = .binOp .div
      · subst hk
        simp [divTransform_div, headName]
      · rw [List.map_cons, divTransform_other _ _ hk]
        cases cs' <;> cases k <;> simp_all [headName]

theorem sequence_length {α : Type} : ∀ {vs : List (Option α)} {l : List α}, sequence vs = some l → l.length = vs.length
  | [], l, h => by simp [sequence] at h; subst h; rfl
  | none :: _, l, h => by simp [sequence] at h
  | some a :: r, l, h => by
      simp only [sequence] at h
      split at h
      · rename_i l' hl'
        simp at h; subst h
        simp [sequence_length hl']
      · simp at h

theorem callFn_sdiv_pair (a b : Val El) : callFn "sdiv" [a, b] = lift2 sdivE a b := by
  simp [callFn]

theorem callFn_sdiv_length (l : List (Val El)) (h : l.length ≠ 2) : callFn "sdiv" l = none := by
  match l, h with
  | [], _ => simp [callFn]
  | [_], _ => simp [callFn]
  | _ :: _ :: _ :: _, _ => simp [callFn]

theorem combine_binOp_length (wl : List String) (env : Env) (op : BinOpK) (hn : Option String)
    (vs : List (Option (Val El))) (h : vs.length ≠ 2) : combine wl env (.binOp op) hn vs = none := by
  match vs, h with
  | [], _ => simp [combine]
  | [_], _ => simp [combine]
  | _ :: _ :: _ :: _, _ => simp [combine]

theorem sdiv_call_eq (wl : List String) (env : Env) (hn : Option String) (vs : List (Option (Val El))) :
    (match sequence vs with
      | some l => callFn "sdiv" l
      | none => none) = combine wl env (.binOp .div) hn vs := by
  by_cases h : vs.length = 2
  · match vs, h with
    | [a, b], _ =>
      cases a <;> cases b <;> simp [sequence, combine, binFn, callFn_sdiv_pair]
  · rw [combine_binOp_length _ _ _ _ _ h]
    split
    · rename_i l hl
      exact callFn_sdiv_length l (by rw [sequence_length hl]; exact h)
    · rfl

/-- **eval_divTransform.**  Evaluating the rewritten tree (what the code does) gives the value of the original
  expression with `/` read as safe division (what the property says). -/
theorem eval_divTransform (wl : List String) (hs : "sdiv" ∈ wl) (env : Env) (e : Py) :
    eval wl env (divTransform e) = eval wl env e := by
  induction e using Py.ind with
  | h k cs ih =>
    have hmap : (cs.map divTransform).map (eval wl env) = cs.map (eval wl env) := by
      rw [List.map_map]
      exact List.map_congr_left (fun c hc => ih c hc)
    by_cases hk : k = .binOp .div
    · subst hk
      rw [divTransform_div, eval_node, eval_node, List.map_cons, hmap]
      have hc : wl.contains "sdiv" = true := by simpa using hs
      simp only [headName, combine, hc, List.length_map, beq_self_eq_true, Bool.and_self, if_true]
      exact sdiv_call_eq wl env (headName cs) _
    · rw [divTransform_other _ _ hk, eval_node, eval_node, hmap, headName_map_divTransform]

/-! ## 6. Evaluation is ordinary rational arithmetic; division by a zero numerator is 0 -/

/-- `a op b` and `-a` as trees -/
def bin (op : BinOpK) (a b : Py) : Py := .node (.binOp op) [a, b]
def neg (a : Py) : Py := .node (.unaryOp .uSub) [a]

/-- **eval_arith.**  On defined scalars, evaluation is a homomorphism into ℚ: `+ - *` and unary minus are the
  field operations, `/` is the quotient when the denominator is non-zero, *undefined* (not a number) when only the
  denominator is zero, and `**` with a natural exponent is the power. -/
theorem eval_arith (wl : List String) (env : Env) (a b : Py) (x y : Rat)
    (ha : eval wl env a = some (.sc (some x))) (hb : eval wl env b = some (.sc (some y))) :
    eval wl env (bin .add a b) = some (.sc (some (x + y))) ∧
    eval wl env (bin .sub a b) = some (.sc (some (x - y))) ∧
    eval wl env (bin .mult a b) = some (.sc (some (x * y))) ∧
    (y ≠ 0 → eval wl env (bin .div a b) = some (.sc (some (x / y)))) ∧
    (y = 0 → x ≠ 0 → eval wl env (bin .div a b) = some (.sc none)) ∧
    eval wl env (neg a) = some (.sc (some (-x))) ∧
    (∀ n : Nat, n ≤ powLimit → y = (n : Rat) → eval wl env (bin .pow a b) = some (.sc (some (x ^ n)))) := by
  refine ⟨?_, ?_, ?_, ?_, ?_, ?_, ?_⟩
  · simp [bin, eval_node, ha, hb, combine, binFn, lift2, addE]
  · simp [bin, eval_node, ha, hb, combine, binFn, lift2, subE]
  · simp [bin, eval_node, ha, hb, combine, binFn, lift2, mulE]
  · intro hy
    simp only [bin, eval_node, List.map_cons, List.map_nil, ha, hb, combine, binFn, lift2, sdivE, divQ, hy, if_false]
    by_cases hx : x = 0
    · simp [hx, Rat.div_def, Rat.zero_mul]
    · simp [hx]
  · intro hy hx
    simp [bin, eval_node, ha, hb, combine, binFn, lift2, sdivE, divQ, hy, hx]
  · simp [neg, eval_node, ha, combine, map1, negE]
  · intro n hn hy
    subst hy
    have h1 : ((n : Rat)).den = 1 := by simp
    have h2 : ((n : Rat)).num = (n : Int) := by simp
    simp [bin, eval_node, ha, hb, combine, binFn, lift2, powE, h1, h2, hn]

/-- **eval_sdiv.**  A zero numerator gives 0 whatever the denominator is — zero, undefined (`none`) or anything. -/
theorem eval_sdiv (wl : List String) (env : Env) (a b : Py) (d : El)
    (ha : eval wl env a = some (.sc (some 0))) (hb : eval wl env b = some (.sc d)) :
    eval wl env (bin .div a b) = some (.sc (some 0)) := by
  simp [bin, eval_node, ha, hb, combine, binFn, lift2, sdivE]

@[simp] theorem at_sc {ε : Type} (i : Nat) (a : ε) : (Val.sc a).at i = some a := rfl
@[simp] theorem at_arr {ε : Type} (i : Nat) (l : List ε) : (Val.arr l).at i = l[i]? := rfl

/-- broadcasting is element-by-element: an element of the result is `f` of the elements of the operands -/
theorem lift2_at {ε : Type} (f : ε → ε → ε) (va vb v : Val ε) (i : Nat) (r : ε)
    (h : lift2 f va vb = some v) (hr : v.at i = some r) :
    ∃ ra rb, va.at i = some ra ∧ vb.at i = some rb ∧ r = f ra rb := by
  cases va with
  | sc a =>
    cases vb with
    | sc b =>
      simp only [lift2, Option.some.injEq] at h; subst h
      simp only [at_sc, Option.some.injEq] at hr
      exact ⟨a, b, rfl, rfl, hr.symm⟩
    | arr m =>
      simp only [lift2, Option.some.injEq] at h; subst h
      simp only [at_arr, List.getElem?_map, Option.map_eq_some_iff] at hr
      obtain ⟨rb, hrb, rfl⟩ := hr
      exact ⟨a, rb, rfl, hrb, rfl⟩
  | arr l =>
    cases vb with
    | sc b =>
      simp only [lift2, Option.some.injEq] at h; subst h
      simp only [at_arr, List.getElem?_map, Option.map_eq_some_iff] at hr
      obtain ⟨ra, hra, rfl⟩ := hr
      exact ⟨ra, b, hra, rfl, rfl⟩
    | arr m =>
      simp only [lift2] at h
      split at h
      · simp only [Option.some.injEq] at h; subst h
        simp only [at_arr, List.getElem?_zipWith] at hr
        cases hl : l[i]? with
        | none => simp [hl] at hr
        | some ra =>
          cases hm : m[i]? with
          | none => simp [hl, hm] at hr
          | some rb =>
            simp [hl, hm] at hr
            exact ⟨ra, rb, by simp [hl], by simp [hm], hr.symm⟩
      · simp at h

/-- **eval_sdiv_array.**  Element-wise on arrays (and under broadcasting): wherever the numerator element is 0,
  the quotient element is 0. -/
theorem eval_sdiv_array (wl : List String) (env : Env) (a b : Py) (v va : Val El) (i : Nat) (r : El)
    (h : eval wl env (bin .div a b) = some v) (ha : eval wl env a = some va)
    (h0 : va.at i = some (some 0)) (hr : v.at i = some r) : r = some 0 := by
  rw [bin, eval_node] at h
  simp only [List.map_cons, List.map_nil, ha] at h
  cases hb : eval wl env b with
  | none => simp [hb, combine] at h
  | some vb =>
    simp only [hb, combine, binFn] at h
    obtain ⟨ra, rb, hra, _, rfl⟩ := lift2_at sdivE va vb v i r h hr
    rw [h0] at hra
    simp only [Option.some.injEq] at hra
    subst hra
    simp [sdivE]

/-! ## 7. Scalars and arrays alike: array evaluation is scalar evaluation, element by element -/

/-- `R i ov ov'`: whenever `ov` is a value with an `i`-th element `a`, `ov'` is the scalar `a` -/
def R (i : Nat) (ov ov' : Option (Val El)) : Prop :=
  ∀ v, ov = some v → ∀ a, v.at i = some a → ov' = some (.sc a)

/-- two lists related element by element -/
inductive Forall2 {α β : Type} (p : α → β → Prop) : List α → List β → Prop
  | nil : Forall2 p [] []
  | cons {a : α} {b : β} {l : List α} {m : List β} : p a b → Forall2 p l m → Forall2 p (a :: l) (b :: m)

theorem map1_at {ε : Type} (f : ε → ε) (v : Val ε) (i : Nat) : (map1 f v).at i = (v.at i).map f := by
  cases v <;> simp [map1]

theorem lift2_R (f : El → El → El) (va vb v : Val El) (i : Nat) (r : El) (x' y' : Option (Val El))
    (h : lift2 f va vb = some v) (hr : v.at i = some r) (hx : R i (some va) x') (hy : R i (some vb) y') :
    ∃ ra rb, x' = some (.sc ra) ∧ y' = some (.sc rb) ∧ r = f ra rb := by
  obtain ⟨ra, rb, hra, hrb, rfl⟩ := lift2_at f va vb v i r h hr
  exact ⟨ra, rb, hx va rfl ra hra, hy vb rfl rb hrb, rfl⟩

theorem reduceV_at (f : El → El → El) (i : Nat) : ∀ (ws : List (Val El)) (acc v : Val El) (a : El),
    reduceV f acc ws = some v → v.at i = some a →
    ∃ r0 rs, acc.at i = some r0 ∧ Forall2 (fun w r => w.at i = some r) ws rs ∧
      reduceV f (.sc r0) (rs.map .sc) = some (.sc a)
  | [], acc, v, a, h, ha => by
      simp only [reduceV, Option.some.injEq] at h; subst h
      exact ⟨a, [], ha, Forall2.nil, by simp [reduceV]⟩
  | w :: ws, acc, v, a, h, ha => by
      simp only [reduceV] at h
      split at h
      · rename_i u hu
        obtain ⟨r1, rs, hr1, hrs, hred⟩ := reduceV_at f i ws u v a h ha
        obtain ⟨ra, rb, hra, hrb, rfl⟩ := lift2_at f acc w u i r1 hu hr1
        exact ⟨ra, rb :: rs, hra, Forall2.cons hrb hrs, by simp [reduceV, lift2, hred]⟩
      · simp at h

theorem callFn_at (f : String) (l : List (Val El)) (v : Val El) (i : Nat) (a : El)
    (h : callFn f l = some v) (ha : v.at i = some a) :
    ∃ rs, Forall2 (fun w r => w.at i = some r) l rs ∧ callFn f (rs.map .sc) = some (.sc a) := by
  by_cases h1 : f = "min"
  · subst h1
    cases l with
    | nil => simp [callFn] at h
    | cons w ws =>
      simp only [callFn, if_true] at h
      obtain ⟨r0, rs, hr0, hrs, hred⟩ := reduceV_at minE i ws w v a h ha
      exact ⟨r0 :: rs, Forall2.cons hr0 hrs, by simp [callFn, hred]⟩
  by_cases h2 : f = "max"
  · subst h2
    cases l with
    | nil => simp [callFn] at h
    | cons w ws =>
      simp [callFn] at h
      obtain ⟨r0, rs, hr0, hrs, hred⟩ := reduceV_at maxE i ws w v a h ha
      exact ⟨r0 :: rs, Forall2.cons hr0 hrs, by simp [callFn, hred]⟩
  by_cases h3 : f = "floor"
  · subst h3
    match l, h with
    | [w], h =>
      simp [callFn] at h
      subst h
      rw [map1_at, Option.map_eq_some_iff] at ha
      obtain ⟨r, hr, rfl⟩ := ha
      exact ⟨[r], Forall2.cons hr Forall2.nil, by simp [callFn, map1]⟩
    | [], h => simp [callFn] at h
    | _ :: _ :: _, h => simp [callFn] at h
  by_cases h4 : f = "sdiv"
  · subst h4
    match l, h with
    | [x, y], h =>
      rw [callFn_sdiv_pair] at h
      obtain ⟨ra, rb, hra, hrb, rfl⟩ := lift2_at sdivE x y v i a h ha
      exact ⟨[ra, rb], Forall2.cons hra (Forall2.cons hrb Forall2.nil), by simp [callFn, lift2]⟩
    | [], h => simp [callFn] at h
    | [_], h => simp [callFn] at h
    | _ :: _ :: _ :: _, h => simp [callFn] at h
  · simp [callFn, h1, h2, h3, h4] at h

theorem sequence_at (i : Nat) : ∀ (vs vs' : List (Option (Val El))) (l : List (Val El)) (rs : List El),
    Forall2 (R i) vs vs' → sequence vs = some l → Forall2 (fun w r => w.at i = some r) l rs →
    sequence vs' = some (rs.map .sc)
  | [], vs', l, rs, hR, hs, hl => by
      cases hR
      simp only [sequence, Option.some.injEq] at hs; subst hs
      cases hl
      simp [sequence]
  | none :: _, _, _, _, _, hs, _ => by simp [sequence] at hs
  | some w :: xs, vs', l, rs, hR, hs, hl => by
      cases hR with
      | cons hx hxs =>
        rename_i x' xs'
        simp only [sequence] at hs
        split at hs
        · rename_i l1 hl1
          simp only [Option.some.injEq] at hs; subst hs
          cases hl with
          | cons hr hrs =>
            rename_i r rs1
            have := sequence_at i xs xs' l1 rs1 hxs hl1 hrs
            rw [hx w rfl r hr]
            simp [sequence, this]
        · simp at hs

theorem forall2_length {α β : Type} {p : α → β → Prop} {l : List α} {m : List β} (h : Forall2 p l m) :
    l.length = m.length := by
  induction h with
  | nil => rfl
  | cons _ _ ih => simp [ih]

theorem combine_at (wl : List String) (env : Env) (i : Nat) (k : Kind) (hn : Option String)
    (vs vs' : List (Option (Val El))) (hvs : Forall2 (R i) vs vs') :
    R i (combine wl env k hn vs) (combine wl (envAt env i) k hn vs') := by
  intro v hv a ha
  unfold combine at hv
  split at hv
  · -- int constant
    cases hvs
    simp only [Option.some.injEq] at hv; subst hv
    simp only [at_sc, Option.some.injEq] at ha; subst ha
    simp [combine]
  · -- float constant
    cases hvs
    simp only [Option.some.injEq] at hv; subst hv
    simp only [at_sc, Option.some.injEq] at ha; subst ha
    simp [combine]
  · -- name
    cases hvs
    rename_i x
    cases hc : wl.contains x with
    | true => rw [hc] at hv; simp at hv
    | false =>
      simp only [hc, Bool.false_eq_true, if_false] at hv
      simp only [combine, hc, Bool.false_eq_true, if_false, envAt, hv, ha, Option.map_some]
  · -- binary operator
    rename_i op va vb
    cases hvs with
    | cons h1 t1 =>
      cases t1 with
      | cons h2 t2 =>
        cases t2
        cases op <;> simp only [binFn] at hv <;> first
          | (exact absurd hv (by simp))
          | (obtain ⟨ra, rb, rfl, rfl, rfl⟩ := lift2_R _ va vb v i a _ _ hv ha h1 h2
             simp [combine, binFn, lift2])
  · -- unary minus
    rename_i va
    cases hvs with
    | cons h1 t1 =>
      cases t1
      simp only [Option.some.injEq] at hv; subst hv
      rw [map1_at, Option.map_eq_some_iff] at ha
      obtain ⟨r, hr, rfl⟩ := ha
      rw [h1 va rfl r hr]
      simp [combine, map1]
  · -- unary plus
    rename_i va
    cases hvs with
    | cons h1 t1 =>
      cases t1
      simp only [Option.some.injEq] at hv; subst hv
      rw [h1 _ rfl a ha]
      simp [combine]
  · -- comparison
    rename_i op va vb
    cases hvs with
    | cons h1 t1 =>
      cases t1 with
      | cons h2 t2 =>
        cases t2
        split at hv
        · rename_i f hf
          obtain ⟨ra, rb, rfl, rfl, rfl⟩ := lift2_R _ va vb v i a _ _ hv ha h1 h2
          simp [combine, hf, lift2]
        · simp at hv
  · -- call of a whitelisted name
    rename_i n f x vargs
    cases hvs with
    | cons h1 t1 =>
      rename_i x' vargs'
      split at hv
      · rename_i hc
        split at hv
        · rename_i l hl
          obtain ⟨rs, hrs, hcall⟩ := callFn_at f l v i a hv ha
          have hseq := sequence_at i vargs vargs' l rs t1 hl hrs
          have hlen := forall2_length t1
          simp only [combine, ← hlen, hc, if_true, hseq, hcall]
        · simp at hv
      · simp at hv
  · simp at hv

/-- **eval_scalar_array.**  If an expression evaluates to a value on an environment of scalars and arrays, then
  each element of that value is what the expression evaluates to on the scalar environment holding the
  corresponding elements: arrays are handled exactly like scalars, element by element (with broadcasting). -/
theorem eval_scalar_array (wl : List String) (env : Env) (i : Nat) (e : Py) (v : Val El) (a : El)
    (h : eval wl env e = some v) (ha : v.at i = some a) :
    eval wl (envAt env i) e = some (.sc a) := by
  have key : ∀ e, R i (eval wl env e) (eval wl (envAt env i) e) := by
    intro e
    induction e using Py.ind with
    | h k cs ih =>
      rw [eval_node, eval_node]
      apply combine_at
      clear h ha
      induction cs with
      | nil => exact Forall2.nil
      | cons c cs ihc =>
        exact Forall2.cons (ih c (List.mem_cons_self ..)) (ihc (fun d hd => ih d (List.mem_cons_of_mem _ hd)))
  exact key e v h a ha

/-! ## 8. Only accepted trees have a value; dependencies are exactly the free names -/

theorem accepts_node (wl : List String) (k : Kind) (cs : List Py) :
    accepts wl (.node k cs) = true ↔ safeNode wl (.node k cs) = true ∧ ∀ c ∈ cs, accepts wl c = true := by
  rw [accepts_iff_forall, forall_subterms_node]
  simp only [accepts_iff_forall]

theorem sequence_some {α : Type} : ∀ {vs : List (Option α)} {l : List α}, sequence vs = some l →
    ∀ x ∈ vs, ∃ w, x = some w
  | [], _, _ => by simp
  | none :: _, _, h => by simp [sequence] at h
  | some a :: r, l, h => by
      simp only [sequence] at h
      split at h
      · rename_i l' hl'
        intro x hx
        rcases List.mem_cons.mp hx with rfl | hx'
        · exact ⟨a, rfl⟩
        · exact sequence_some hl' x hx'
      · simp at h

theorem headName_some {cs : List Py} {f : String} (h : headName cs = some f) :
    ∃ args, cs = .node (.name f) [] :: args := by
  unfold headName at h
  split at h
  · simp only [Option.some.injEq] at h; subst h; exact ⟨_, rfl⟩
  · simp at h

theorem map_eq_pair {α β : Type} {f : α → β} {cs : List α} {x y : β} (h : cs.map f = [x, y]) :
    ∃ c1 c2, cs = [c1, c2] ∧ f c1 = x ∧ f c2 = y := by
  match cs, h with
  | [c1, c2], h => simp at h; exact ⟨c1, c2, rfl, h.1, h.2⟩

theorem map_eq_single {α β : Type} {f : α → β} {cs : List α} {x : β} (h : cs.map f = [x]) :
    ∃ c1, cs = [c1] ∧ f c1 = x := by
  match cs, h with
  | [c1], h => simp at h; exact ⟨c1, rfl, h⟩

/-- **eval_defined_accepts.**  Only accepted trees have a value: whatever contains a node outside the safe kinds
  evaluates to nothing in the model (the code refuses it before evaluating anything). -/
theorem eval_defined_accepts (wl : List String) (env : Env) (e : Py) (v : Val El)
    (h : eval wl env e = some v) : accepts wl e = true := by
  induction e using Py.ind generalizing v with
  | h k cs ih =>
    rw [eval_node] at h
    rw [accepts_node]
    unfold combine at h
    split at h
    · rename_i hvs
      have : cs = [] := by simpa using hvs
      subst this; simp [safeNode, numConst]
    · rename_i hvs
      have : cs = [] := by simpa using hvs
      subst this; simp [safeNode, numConst]
    · rename_i hvs
      have : cs = [] := by simpa using hvs
      subst this; simp [safeNode]
    · rename_i op a b hvs
      obtain ⟨c1, c2, rfl, hv1, hv2⟩ := map_eq_pair hvs
      have hvs := And.intro hv1 hv2
      · refine ⟨?_, ?_⟩
        · cases op <;> simp [binFn] at h <;> simp [safeNode, arithOp]
        · intro c hc
          simp only [List.mem_cons, List.not_mem_nil, or_false] at hc
          rcases hc with rfl | rfl
          · exact ih _ (by simp) a hvs.1
          · exact ih _ (by simp) b hvs.2
    · rename_i a hvs
      obtain ⟨c1, rfl, hv1⟩ := map_eq_single hvs
      · refine ⟨by simp [safeNode, signOp], ?_⟩
        intro c hc
        simp only [List.mem_cons, List.not_mem_nil, or_false] at hc
        subst hc
        exact ih _ (by simp) a hv1
    · rename_i a hvs
      obtain ⟨c1, rfl, hv1⟩ := map_eq_single hvs
      · refine ⟨by simp [safeNode, signOp], ?_⟩
        intro c hc
        simp only [List.mem_cons, List.not_mem_nil, or_false] at hc
        subst hc
        exact ih _ (by simp) a hv1
    · rename_i op a b hvs
      obtain ⟨c1, c2, rfl, hv1, hv2⟩ := map_eq_pair hvs
      have hvs := And.intro hv1 hv2
      · refine ⟨?_, ?_⟩
        · cases op <;> simp [cmpFn] at h <;> simp [safeNode, orderOp]
        · intro c hc
          simp only [List.mem_cons, List.not_mem_nil, or_false] at hc
          rcases hc with rfl | rfl
          · exact ih _ (by simp) a hvs.1
          · exact ih _ (by simp) b hvs.2
    · rename_i n f x vargs hhn hvs
      obtain ⟨args, rfl⟩ := headName_some hhn
      simp only [List.map_cons, List.cons.injEq] at hvs
      obtain ⟨_, hvargs⟩ := hvs
      split at h
      · rename_i hc
        simp only [Bool.and_eq_true, beq_iff_eq] at hc
        split at h
        · rename_i l hl
          refine ⟨?_, ?_⟩
          · have hlen : args.length = n := by rw [← hc.2, ← hvargs]; simp
            have hf : f ∈ wl := by simpa using hc.1
            simp [safeNode, hf, hlen]
          · intro c hc'
            rcases List.mem_cons.mp hc' with rfl | hc''
            · simp [accepts, subterms_node, subtermsL, safeNode]
            · have hx : eval wl env c ∈ vargs := by rw [← hvargs]; exact List.mem_map.mpr ⟨c, hc'', rfl⟩
              obtain ⟨w, hw⟩ := sequence_some hl _ hx
              exact ih c hc' w hw
        · simp at h
      · simp at h
    · simp at h

theorem depName_eq_some (wl : List String) (t : Py) (x : String) :
    depName wl t = some x ↔ (∃ cs, t = .node (.name x) cs) ∧ x ∉ wl := by
  cases t with
  | node k cs =>
    cases k <;> simp [depName]
    rename_i y
    constructor
    · rintro ⟨h1, rfl⟩; exact ⟨rfl, h1⟩
    · rintro ⟨rfl, h1⟩; exact ⟨h1, rfl⟩

/-- **deps_exact.**  The reported dependencies are exactly the names occurring (at any depth) in the string that
  are not whitelisted function names. -/
theorem deps_exact (wl : List String) (e : Py) (x : String) :
    x ∈ deps wl e ↔ (∃ cs, Sub (.node (.name x) cs) e) ∧ x ∉ wl := by
  simp only [deps, List.mem_filterMap, depName_eq_some]
  constructor
  · rintro ⟨t, ht, ⟨cs, rfl⟩, hx⟩
    exact ⟨⟨cs, mem_subterms_iff.mp ht⟩, hx⟩
  · rintro ⟨⟨cs, hs⟩, hx⟩
    exact ⟨_, mem_subterms_iff.mpr hs, ⟨cs, rfl⟩, hx⟩

theorem filterMap_subtermsL {β : Type} (f : Py → Option β) (cs : List Py) :
    (subtermsL cs).filterMap f = cs.flatMap (fun c => (subterms c).filterMap f) := by
  induction cs with
  | nil => simp [subtermsL]
  | cons c cs ih => simp [subtermsL, List.filterMap_append, ih]

theorem deps_node (wl : List String) (k : Kind) (cs : List Py) :
    deps wl (.node k cs) = (depName wl (.node k cs)).toList ++ cs.flatMap (deps wl) := by
  simp only [deps, subterms_node, List.filterMap_cons, filterMap_subtermsL]
  cases depName wl (.node k cs) <;> rfl

/-- **deps_divTransform.**  The walk runs on the rewritten tree; it reports the same names, in the same order,
  as the original expression has (the inserted `sdiv` is a whitelisted name, not a dependency). -/
theorem deps_divTransform (wl : List String) (hs : "sdiv" ∈ wl) (e : Py) :
    depsCurrent wl e = deps wl e := by
  unfold depsCurrent
  induction e using Py.ind with
  | h k cs ih =>
    have hflat : (cs.map divTransform).flatMap (deps wl) = cs.flatMap (deps wl) := by
      rw [List.flatMap_map]
      clear hs
      induction cs with
      | nil => rfl
      | cons c cs ihc =>
        simp only [List.flatMap_cons]
        rw [ih c (by simp), ihc (fun d hd => ih d (List.mem_cons_of_mem _ hd))]
    by_cases hk : k = .binOp .div
    · subst hk
      have hc : wl.contains "sdiv" = true := by simpa using hs
      rw [divTransform_div, deps_node, deps_node, List.flatMap_cons, hflat]
      simp [depName, deps, subterms_node, subtermsL, hs]
    · rw [divTransform_other _ _ hk, deps_node, deps_node, hflat]
      cases k <;> simp [depName]

theorem combine_congr (wl : List String) (env1 env2 : Env) (k : Kind) (hn : Option String)
    (vs : List (Option (Val El))) (h : ∀ x, k = .name x → wl.contains x = false → env1 x = env2 x) :
    combine wl env1 k hn vs = combine wl env2 k hn vs := by
  unfold combine
  split <;> try rfl
  rename_i x
  show (if wl.contains x = true then none else env1 x) = (if wl.contains x = true then none else env2 x)
  cases hc : wl.contains x with
  | true => simp
  | false => simp [h x rfl hc]

/-- **eval_congr_deps.**  The value depends on the environment only through the reported dependencies. -/
theorem eval_congr_deps (wl : List String) (env1 env2 : Env) (e : Py)
    (h : ∀ x ∈ deps wl e, env1 x = env2 x) : eval wl env1 e = eval wl env2 e := by
  induction e using Py.ind with
  | h k cs ih =>
    rw [eval_node, eval_node]
    have hmap : cs.map (eval wl env1) = cs.map (eval wl env2) := by
      apply List.map_congr_left
      intro c hc
      apply ih c hc
      intro x hx
      apply h x
      rw [deps_node]
      exact List.mem_append_right _ (List.mem_flatMap.mpr ⟨c, hc, hx⟩)
    rw [hmap]
    apply combine_congr
    intro x hk hc
    subst hk
    apply h x
    rw [deps_node]
    apply List.mem_append_left
    have hx : x ∉ wl := by simpa using hc
    simp [depName, hx]

/-! ## 9. Plot strings are literal trees -/

/-- a tree of dict / list displays whose leaves are string constants -/
inductive Literal : Py → Prop
  | str : Literal (.node (.constant .str) [])
  | list (cs : List Py) (h : ∀ c ∈ cs, Literal c) : Literal (.node .list cs)
  | dict (u : Nat) (cs : List Py) (h : ∀ c ∈ cs, Literal c) : Literal (.node (.dict u) cs)

/-- **plot_string_literal.**  `evaluate_plot_string`'s node check accepts exactly the trees made of dict displays,
  list displays and string constants — nothing that can compute, call or look anything up. -/
theorem plot_string_literal (e : Py) : plotAccepts e = true ↔ Literal e := by
  have hnode : ∀ k cs, plotAccepts (.node k cs) = true ↔
      plotNodeOk (.node k cs) = true ∧ ∀ c ∈ cs, plotAccepts c = true := by
    intro k cs
    simp only [plotAccepts, List.all_eq_true]
    exact forall_subterms_node k cs
  induction e using Py.ind with
  | h k cs ih =>
    rw [hnode]
    constructor
    · rintro ⟨h0, hc⟩
      have hl : ∀ c ∈ cs, Literal c := fun c hcm => (ih c hcm).mp (hc c hcm)
      unfold plotNodeOk at h0
      split at h0
      · rename_i u cs' heq
        cases heq; exact Literal.dict _ _ hl
      · rename_i cs' heq
        cases heq; exact Literal.list _ hl
      · rename_i cs' heq
        cases heq
        simp only [List.isEmpty_iff] at h0
        subst h0; exact Literal.str
      · simp at h0
    · intro hL
      cases hL with
      | str => simp [plotNodeOk]
      | list _ h => exact ⟨by simp [plotNodeOk], fun c hc => (ih c hc).mpr (h c hc)⟩
      | dict _ _ h => exact ⟨by simp [plotNodeOk], fun c hc => (ih c hc).mpr (h c hc)⟩

/-! ## 10. Kernel-checked witnesses

  The walk of `parse_function` as written (`acceptsCurrent`) does **not** satisfy `accepts_safe`: defect D1.
  Non-vacuity examples for the theorems above follow. -/

def nm (x : String) : Py := .node (.name x) []
def strC : Py := .node (.constant .str) []
def num (n : Int) : Py := .node (.constant (.int n)) []
def call (f : String) (args : List Py) : Py := .node (.call args.length []) (nm f :: args)

/-- `x.tofile('p')` — a method call that writes a file -/
def wTofile : Py := .node (.call 1 []) [.node (.attribute "tofile") [nm "x"], strC]
/-- `x.real` -/
def wAttr : Py := .node (.attribute "real") [nm "x"]
/-- `x[0]` -/
def wSub : Py := .node .subscript [nm "x", num 0]
/-- `[open][0]('p','w')` — a builtin reached through a subscript, then called -/
def wOpen : Py := .node (.call 2 []) [.node .subscript [.node .list [nm "open"], num 0], strC, strC]
/-- `[y for y in x]` -/
def wComp : Py := .node .listComp [nm "y", nm "y", nm "x"]
/-- `x if y else 1` -/
def wIf : Py := .node .ifExp [nm "y", nm "x", num 1]
/-- `max(x, key='k')`-style keyword argument -/
def wKw : Py := .node (.call 1 ["out"]) [nm "max", nm "x", nm "y"]

example : acceptsCurrent wl wTofile = true ∧ accepts wl wTofile = false := by decide
example : acceptsCurrent wl wAttr = true ∧ accepts wl wAttr = false := by decide
example : acceptsCurrent wl wSub = true ∧ accepts wl wSub = false := by decide
example : acceptsCurrent wl wOpen = true ∧ accepts wl wOpen = false := by decide
example : acceptsCurrent wl wComp = true ∧ accepts wl wComp = false := by decide
example : acceptsCurrent wl wIf = true ∧ accepts wl wIf = false := by decide
example : acceptsCurrent wl strC = true ∧ accepts wl strC = false := by decide
example : acceptsCurrent wl wKw = true ∧ accepts wl wKw = false := by decide
/-- both reject a call of an unlisted name: `open('p','w')` -/
example : acceptsCurrent wl (call "open" [strC, strC]) = false ∧ accepts wl (call "open" [num 1]) = false := by decide

/-- `max(x,1)/y` — accepted by both, dependencies `x, y`, `/` rewritten -/
def good : Py := bin .div (call "max" [nm "x", num 1]) (nm "y")
example : accepts wl good = true ∧ acceptsCurrent wl good = true := by decide
example : deps wl good = ["x", "y"] ∧ depsCurrent wl good = ["x", "y"] := by decide
example : noDiv good = false ∧ noDiv (divTransform good) = true := by decide

/-- environment `x = [0, 3]`, `y = 0`, `z = 2` -/
def envEx : Env := fun s =>
  if s = "x" then some (.arr [some 0, some 3]) else if s = "y" then some (.sc (some 0))
  else if s = "z" then some (.sc (some 2)) else none

/-- `x/y` with `x = [0,3]`, `y = 0`: 0 where the numerator is 0, undefined (not a number) elsewhere -/
example : eval wl envEx (bin .div (nm "x") (nm "y")) = some (.arr [some 0, none]) := by decide +kernel
/-- `max(x,1)/z` = `[1/2, 3/2]`, and element 1 is the scalar evaluation on `x = 3` (`eval_scalar_array`) -/
example : eval wl envEx (bin .div (call "max" [nm "x", num 1]) (nm "z")) = some (.arr [some (1/2), some (3/2)]) := by
  decide +kernel
example : eval wl (envAt envEx 1) (bin .div (call "max" [nm "x", num 1]) (nm "z")) = some (.sc (some (3/2))) := by
  decide +kernel
/-- a rejected tree has no value: `x.real` -/
example : eval wl envEx wAttr = none := by decide +kernel
example : evalCurrent wl envEx good = eval wl envEx good := eval_divTransform wl (by decide) envEx good

example : guards "x__y" = false ∧ guards "a:b" = true ∧ preprocess "a:b" = "a___b" := by decide
/-- `{'a': ['b']}` is a literal tree, `['a'][0]` and `[f('a')]` are not -/
example : plotAccepts (.node (.dict 0) [strC, .node .list [strC]]) = true := by decide
example : plotAccepts (.node .subscript [.node .list [strC], num 0]) = false := by decide
example : plotAccepts (.node .list [call "f" [strC]]) = false := by decide

end Atomica.C19
