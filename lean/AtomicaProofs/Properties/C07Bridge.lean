/-
  AtomicaProofs.Properties.C07Bridge — the two models of a ratio characteristic are the same rule (C07, used by C03/C06/C13's closed loop).

  `Atomica.Init` (C07) models `Characteristic.vals` (`value`, the REPORTED form: numerator below 1e-6 → 0 whatever the denominator)
  and `Characteristic.update` (`valueStep`, the IN-RUN form: divide whenever the denominator is positive).  `Atomica.Closed`
  (the closed loop of C03/C06/C13) has its own `charVal`, tied to the code separately (whole trajectories).  Nothing so far said
  that the two model files state the same rule; a change of one of them (or of the code, followed by a repair of only one model)
  could make C07's theorems talk about a different characteristic than the one the closed loop runs.  This file closes that gap:

  * `closed_tol_eq`               — the two tolerances are the same number;
  * `charVal_ratio`               — `Closed.charVal` of a characteristic with a denominator is `ratioRule` of numerator and denominator;
  * `ratioRule_eq_valueStep`      — `ratioRule` is `Init.valueStep` (undefined = `inf`);
  * `ratioRule_eq_value_of`       — it is also the reported form `Init.value` when the numerator is at least 1e-6 or the denominator is not positive;
  * `ratioRule_ne_value_iff`      — and differs from the reported form EXACTLY when 0 ≠ numerator < 1e-6 with a positive denominator: the
                                    window that `closed_corr.ambiguity` reports as `ratio_reported_form` (postcompute parameters read the reported
                                    form there) is the whole disagreement, not a sample of it;
  * `charVal_plain`               — without a denominator `charVal` is the plain sum, as `Init.value _ none`.
-/
import AtomicaModel.Init
import AtomicaModel.Closed
import Mathlib.Tactic.NormNum
import Mathlib.Tactic.Linarith

namespace Atomica.C07Bridge
open Atomica

/-- a reported value as the closed loop sees it: `inf` and `cyclic` are "no value" -/
def repOpt : Init.Rep → Option Rat
  | .val r => some r
  | .inf => none
  | .cyclic => none

/-- the division rule of `Closed.charVal`, on numerator and denominator value -/
def ratioRule (num dv : Rat) : Option Rat :=
  if dv > 0 then some (num / dv) else if num < Closed.tol then some 0 else none

theorem closed_tol_eq : Closed.tol = Init.tol := rfl

/-- `Closed.charVal` with a denominator is `ratioRule` applied to the summed members and the denominator's value -/
theorem charVal_ratio (net : Engine.Net) (x : Engine.Stock) (cv : Closed.Vals) (cs : Closed.CharSpec) (d : Closed.Ref) (num dv : Rat)
    (hs : Closed.sumRefs (Closed.refVal net x cv Closed.noVals 0 0) cs.includes = some num)
    (hd : cs.denom = some d) (hf : Closed.refVal net x cv Closed.noVals 0 0 d = some dv) :
    Closed.charVal net x cv cs = ratioRule num dv := by
  simp only [Closed.charVal, hs, hd, hf, ratioRule]

/-- without a denominator the value is the plain sum (both forms) -/
theorem charVal_plain (net : Engine.Net) (x : Engine.Stock) (cv : Closed.Vals) (cs : Closed.CharSpec) (num : Rat)
    (hs : Closed.sumRefs (Closed.refVal net x cv Closed.noVals 0 0) cs.includes = some num) (hd : cs.denom = none) :
    Closed.charVal net x cv cs = repOpt (Init.value num none) ∧ Closed.charVal net x cv cs = repOpt (Init.valueStep num none) := by
  simp only [Closed.charVal, hs, hd, Init.value, Init.valueStep, repOpt, and_self]

/-- the closed loop's rule IS the in-run form of C07's model -/
theorem ratioRule_eq_valueStep (num dv : Rat) : ratioRule num dv = repOpt (Init.valueStep num (some dv)) := by
  unfold ratioRule Init.valueStep
  rw [closed_tol_eq]
  by_cases h1 : dv > 0
  · simp [h1, repOpt]
  · by_cases h2 : num < Init.tol <;> simp [h1, h2, repOpt]

/-- ... and the reported form outside the window `numerator < 1e-6, denominator > 0` -/
theorem ratioRule_eq_value_of (num dv : Rat) (h : Init.tol ≤ num ∨ dv ≤ 0) : ratioRule num dv = repOpt (Init.value num (some dv)) := by
  unfold ratioRule Init.value
  rw [closed_tol_eq]
  rcases h with h | h
  · have h2 : ¬ num < Init.tol := not_lt.mpr h
    by_cases h1 : dv > 0 <;> simp [h1, h2, repOpt]
  · have h1 : ¬ dv > 0 := not_lt.mpr h
    by_cases h2 : num < Init.tol <;> simp [h1, h2, repOpt]

/-- the two forms differ exactly on: positive denominator, numerator below the tolerance and not 0 -/
theorem ratioRule_ne_value_iff (num dv : Rat) :
    ratioRule num dv ≠ repOpt (Init.value num (some dv)) ↔ (dv > 0 ∧ num < Init.tol ∧ num ≠ 0) := by
  unfold ratioRule Init.value
  rw [closed_tol_eq]
  by_cases h1 : dv > 0
  · by_cases h2 : num < Init.tol
    · have hne : dv ≠ 0 := ne_of_gt h1
      simp [h1, h2, repOpt, div_eq_zero_iff, hne]
    · simp [h1, h2, repOpt]
  · by_cases h2 : num < Init.tol <;> simp [h1, h2, repOpt]

/-- non-vacuity: a point inside the window (numerator 5e-7, denominator 1): in-run 5e-7, reported 0 -/
example : ratioRule (1 / 2000000) 1 = some (1 / 2000000) ∧ repOpt (Init.value (1 / 2000000) (some 1)) = some 0 := by
  constructor
  · simp [ratioRule]
  · simp [Init.value, Init.tol, repOpt]
    norm_num

/-- non-vacuity: a point outside the window where both forms divide -/
example : ratioRule 3 4 = some (3 / 4) ∧ repOpt (Init.value 3 (some 4)) = some (3 / 4) := by
  constructor
  · simp [ratioRule]
  · simp [Init.value, Init.tol, repOpt]
    norm_num

end Atomica.C07Bridge
