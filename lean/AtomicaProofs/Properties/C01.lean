/-
  C01 — People are conserved: stocks change only by recorded flows.

  "In every simulation, at every time step, the size of every non-source compartment at the next step equals its current size
   plus all flows recorded into it minus all flows recorded out of it for that step, and a junction passes on exactly what it
   receives.  Consequently the total number of people over all populations (sinks included, sources excluded) changes only by the
   recorded outflow of source compartments."

  Theorems about `Atomica.Engine.updateComps` / `step` (AtomicaModel/Engine.lean), for every net accepted by `wfCheck`, every
  number of compartments, links, rows, every flow assignment satisfying the facts that `resolveFlow`/`balanceAll` establish
  (packaged as `GoodFlow`; discharged for the flows the model computes in C02.lean/C04.lean and combined in `step_total`).
-/
import AtomicaModel.Engine
import AtomicaProofs.Lemmas.Sums
import AtomicaProofs.Lemmas.EngineWF

namespace Atomica.C01
open Atomica Atomica.Engine

variable {net : Net}

/-- total recorded outflow of compartment `c` -/
def outTot (net : Net) (fl : Flow) (c : Nat) : Rat :=
  sumTo net.nL (fun l => if net.src l = c then recorded net fl l else 0)

/-- facts about a state/flow pair under which the stock update is exact (no clip is ever active).
    `resolveFlow` and `balanceAll` establish all of them (C02, C04). -/
structure GoodFlow (net : Net) (x : Stock) (fl : Flow) : Prop where
  fl_nonneg : ∀ l, l < net.nL → ∀ r, 0 ≤ fl l r
  /-- nobody is over-drawn from any row of an ordinary or timed compartment -/
  no_overdraw : ∀ c, c < net.nC → (net.kind c = .normal ∨ net.kind c = .timed) → ∀ r, r < net.nrows c → outRow net fl c r ≤ x c r
  /-- row 0 of a timed compartment is emptied (ordinary outflows + flush) -/
  row0_emptied : ∀ c, c < net.nC → net.kind c = .timed → outRow net fl c 0 = x c 0
  /-- time-preserving links carry nobody in row 0 -/
  tlink_row0 : ∀ l, l < net.nL → net.tlink l = true → fl l 0 = 0

/-! ### small helpers -/

theorem recorded_one {fl : Flow} {l : Nat} (h : net.lrows l = 1) : recorded net fl l = fl l 0 := by
  simp [recorded, h, sumTo]

theorem clip0_of_nonneg {v : Rat} (h : 0 ≤ v) : clip0 v = v := by
  unfold clip0
  split
  · rfl
  · have : v = 0 := le_antisymm (not_lt.mp ‹_›) h
    simp [this]

theorem clipneg_of_nonneg {v : Rat} (h : 0 ≤ v) : (if v < 0 then 0 else v) = v := by
  split
  · rename_i hneg; exact absurd h (not_le.mpr hneg)
  · rfl

theorem inAll_nonneg {fl : Flow} (hf : ∀ l, l < net.nL → ∀ r, 0 ≤ fl l r) (c : Nat) : 0 ≤ inAll net fl c := by
  unfold inAll
  apply sumTo_nonneg; intro l hl
  split
  · exact sumTo_nonneg (fun r _ => hf l hl r)
  · exact le_refl 0

theorem inUntimed_nonneg {fl : Flow} (hf : ∀ l, l < net.nL → ∀ r, 0 ≤ fl l r) (c : Nat) : 0 ≤ inUntimed net fl c := by
  unfold inUntimed
  apply sumTo_nonneg; intro l hl
  split
  · exact sumTo_nonneg (fun r _ => hf l hl r)
  · exact le_refl 0

theorem tlinkInto_nonneg {fl : Flow} (l : Nat) (hf : ∀ r, 0 ≤ fl l r) (n r : Nat) : 0 ≤ tlinkInto net fl l n r := by
  unfold tlinkInto
  simp only
  split
  · split
    · exact hf r
    · exact le_refl 0
  · apply add_nonneg
    · split
      · exact hf r
      · exact le_refl 0
    · split
      · exact sumTo_nonneg (fun k _ => hf _)
      · exact le_refl 0

theorem inTimedRow_nonneg {fl : Flow} (hf : ∀ l, l < net.nL → ∀ r, 0 ≤ fl l r) (c r : Nat) : 0 ≤ inTimedRow net fl c r := by
  unfold inTimedRow
  apply sumTo_nonneg; intro l hl
  split
  · exact tlinkInto_nonneg l (hf l hl) _ r
  · exact le_refl 0

/-- a timed link delivers exactly its total, whatever the row counts of source and destination
    (equal, longer or shorter destination: the three branches of `TimedCompartment.update`) -/
theorem timed_transfer_total (fl : Flow) (l n : Nat) (hn : 1 ≤ n) :
    sumTo n (fun r => tlinkInto net fl l n r) = recorded net fl l := by
  unfold tlinkInto recorded
  simp only
  by_cases hL : net.lrows l ≤ n
  · simp only [hL, if_true]
    exact sumTo_ite_lt hL (fl l)
  · simp only [hL, if_false]
    rw [sumTo_add]
    have h1 : sumTo n (fun r => if r < n then fl l r else 0) = sumTo n (fl l) :=
      sumTo_congr (fun r hr => by simp [hr])
    have h2 : sumTo n (fun r => if r + 1 = n then sumTo (net.lrows l - n) (fun k => fl l (n + k)) else 0)
        = sumTo (net.lrows l - n) (fun k => fl l (n + k)) := by
      have : ∀ r, (r + 1 = n) ↔ (r = n - 1) := by intro r; omega
      simp only [this]
      exact sumTo_single (n - 1) (by omega) _
    rw [h1, h2]
    have : net.lrows l = n + (net.lrows l - n) := by omega
    conv_rhs => rw [this]
    rw [sumTo_split]

/-- with no flow in row 0, a timed link puts nothing into row 0 of a destination with at least two rows -/
theorem tlinkInto_row0 (fl : Flow) (l n : Nat) (hn : 2 ≤ n) (h0 : fl l 0 = 0) : tlinkInto net fl l n 0 = 0 := by
  unfold tlinkInto
  simp only
  split
  · split <;> simp [h0]
  · have : ¬ (0 + 1 = n) := by omega
    simp [h0, this]

/-! ### the per-compartment balance -/

/-- ordinary compartment: next stock = stock − recorded outflow + recorded inflow (the tiny-negative clip is never active) -/
theorem balance_normal (hwf : wfCheck net = true) (x : Stock) (fl : Flow) (g : GoodFlow net x fl)
    (c : Nat) (hc : c < net.nC) (hk : net.kind c = .normal) :
    stockTotal net (updateComps net x fl) c = stockTotal net x c - outTot net fl c + inAll net fl c := by
  have hn : net.nrows c = 1 := wf_nrows_one hwf c hc (by simp [hk])
  have hout : outTot net fl c = outRow net fl c 0 := by
    unfold outTot outRow
    apply sumTo_congr; intro l hl
    by_cases h : net.src l = c
    · simp only [h, if_true]
      exact recorded_one ((wf_link hwf l hl).lrows_plain (Or.inl (h ▸ hk)))
    · simp [h]
  simp only [stockTotal, hn, sumTo, zero_add, updateComps, hk, if_true]
  rw [hout]
  have h1 := g.no_overdraw c hc (Or.inl hk) 0 (by omega)
  have h2 := inAll_nonneg (net := net) g.fl_nonneg c
  rw [clip0_of_nonneg (by linarith)]

/-- sink: next stock = stock + recorded inflow (nothing leaves a sink) -/
theorem balance_sink (hwf : wfCheck net = true) (x : Stock) (fl : Flow)
    (c : Nat) (hc : c < net.nC) (hk : net.kind c = .sink) :
    stockTotal net (updateComps net x fl) c = stockTotal net x c - outTot net fl c + inAll net fl c := by
  have hn : net.nrows c = 1 := wf_nrows_one hwf c hc (by simp [hk])
  have hout : outTot net fl c = 0 := by
    unfold outTot
    apply sumTo_zero; intro l hl
    by_cases h : net.src l = c
    · exact absurd (h ▸ hk) (wf_link hwf l hl).src_not_sink
    · simp [h]
  simp only [stockTotal, hn, sumTo, zero_add, updateComps, hk, if_true]
  rw [hout]; ring

/-- timed compartment (any number of rows): the total over rows changes by recorded outflow and inflow only —
    subtracting per-row outflows, adding time-preserving inflows row by row, advancing the keyring and adding the other
    inflows to the last row neither loses nor duplicates anyone -/
theorem balance_timed (hwf : wfCheck net = true) (x : Stock) (fl : Flow) (g : GoodFlow net x fl)
    (c : Nat) (hc : c < net.nC) (hk : net.kind c = .timed) :
    stockTotal net (updateComps net x fl) c = stockTotal net x c - outTot net fl c + inAll net fl c := by
  have hn : 1 ≤ net.nrows c := wf_nrows_pos hwf c hc
  set n := net.nrows c with hndef
  -- the pre-shift rows
  set y : Nat → Rat := fun r => x c r - outRow net fl c r + inTimedRow net fl c r with hy
  have hy_nonneg : ∀ r, r < n → 0 ≤ y r := by
    intro r hr
    have h1 := g.no_overdraw c hc (Or.inr hk) r hr
    have h2 := inTimedRow_nonneg (net := net) g.fl_nonneg c r
    simp only [hy]; linarith
  set z : Nat → Rat := fun r => if n ≤ 1 then y r else if r + 1 < n then y (r + 1) else 0 with hz
  have hz_nonneg : ∀ r, r < n → 0 ≤ z r := by
    intro r hr; simp only [hz]
    split
    · exact hy_nonneg r hr
    · split
      · rename_i h2; exact hy_nonneg _ h2
      · exact le_refl 0
  have hU := inUntimed_nonneg (net := net) g.fl_nonneg c
  -- the new rows, clip removed
  have hrow : ∀ r, r < n → updateComps net x fl c r = z r + (if r + 1 = n then inUntimed net fl c else 0) := by
    intro r hr
    simp only [updateComps, hk]
    rw [← hndef]
    simp only [hr, if_true]
    have hv : 0 ≤ z r + (if r + 1 = n then inUntimed net fl c else 0) := by
      apply add_nonneg (hz_nonneg r hr)
      split
      · exact hU
      · exact le_refl 0
    exact clipneg_of_nonneg hv
  have hsum1 : stockTotal net (updateComps net x fl) c = sumTo n z + inUntimed net fl c := by
    unfold stockTotal
    rw [← hndef, sumTo_congr hrow, sumTo_add]
    congr 1
    have : ∀ r, (r + 1 = n) ↔ (r = n - 1) := by intro r; omega
    simp only [this]
    exact sumTo_single (n - 1) (by omega) _
  -- shifting does not lose anyone because row 0 is empty before the shift
  have hy0 : 2 ≤ n → y 0 = 0 := by
    intro h2
    have h0 := g.row0_emptied c hc hk
    have hT : inTimedRow net fl c 0 = 0 := by
      unfold inTimedRow
      apply sumTo_zero; intro l hl
      split
      · rename_i hcond
        rw [← hndef]
        exact tlinkInto_row0 fl l n h2 (g.tlink_row0 l hl hcond.2)
      · rfl
    simp only [hy, h0, hT]; ring
  have hsumz : sumTo n z = sumTo n y := by
    by_cases h1 : n ≤ 1
    · apply sumTo_congr; intro r _; simp [hz, h1]
    · have h2 : 2 ≤ n := by omega
      obtain ⟨m, hm⟩ : ∃ m, n = m + 1 := ⟨n - 1, by omega⟩
      have : sumTo n z = sumTo m (fun r => y (r + 1)) := by
        rw [hm]
        simp only [sumTo]
        have hlast : z m = 0 := by
          have h3 : ¬ (m + 1 < n) := by omega
          simp only [hz]
          rw [if_neg h1, if_neg h3]
        rw [hlast, add_zero]
        apply sumTo_congr; intro r hr
        have : r + 1 < n := by omega
        simp [hz, h1, this]
      rw [this, sumTo_shift, ← hm, hy0 h2]; ring
  -- recorded outflow = sum over rows of the per-row outflow
  have hout : outTot net fl c = sumTo n (fun r => outRow net fl c r) := by
    unfold outTot outRow
    rw [sumTo_comm]
    apply sumTo_congr; intro l hl
    by_cases h : net.src l = c
    · simp only [h, if_true]
      unfold recorded
      rw [(wf_link hwf l hl).lrows_timed (h ▸ hk), h]
    · simp only [h, if_false]
      exact (sumTo_zero (fun _ _ => rfl)).symm
  -- recorded time-preserving inflow = sum over rows of what lands in each row
  have hinT : sumTo n (fun r => inTimedRow net fl c r)
      = sumTo net.nL (fun l => if net.dst l = c ∧ net.tlink l = true then recorded net fl l else 0) := by
    unfold inTimedRow
    rw [sumTo_comm]
    apply sumTo_congr; intro l _
    by_cases h : net.dst l = c ∧ net.tlink l = true
    · simp only [h, and_self, if_true]
      rw [← hndef]
      exact timed_transfer_total fl l n hn
    · simp only [h, if_false]
      exact sumTo_zero (fun _ _ => rfl)
  have hin : inAll net fl c
      = sumTo net.nL (fun l => if net.dst l = c ∧ net.tlink l = true then recorded net fl l else 0) + inUntimed net fl c := by
    unfold inAll inUntimed
    rw [← sumTo_add]
    apply sumTo_congr; intro l _
    by_cases h1 : net.dst l = c <;> by_cases h2 : net.tlink l = true <;> simp [h1, h2]
  have hsumy : sumTo n y = stockTotal net x c - sumTo n (fun r => outRow net fl c r) + sumTo n (fun r => inTimedRow net fl c r) := by
    simp only [hy]
    rw [sumTo_add, sumTo_sub]
    rfl
  rw [hsum1, hsumz, hsumy, hout, hin, hinT]; ring

/-- **C01, per compartment.**  Every ordinary, timed or sink compartment: next size = size − recorded out + recorded in. -/
theorem step_balance (hwf : wfCheck net = true) (x : Stock) (fl : Flow) (g : GoodFlow net x fl)
    (c : Nat) (hc : c < net.nC) (hk : net.kind c = .normal ∨ net.kind c = .timed ∨ net.kind c = .sink) :
    stockTotal net (updateComps net x fl) c = stockTotal net x c - outTot net fl c + inAll net fl c := by
  rcases hk with hk | hk | hk
  · exact balance_normal hwf x fl g c hc hk
  · exact balance_timed hwf x fl g c hc hk
  · exact balance_sink hwf x fl c hc hk

/-! ### the grand total -/

/-- a junction passes on exactly what it receives (recorded values) -/
def Passthrough (net : Net) (fl : Flow) : Prop :=
  ∀ j, j < net.nC → isJunction net j = true → outTot net fl j = inAll net fl j

/-- people in all non-source compartments -/
def grandTotal (net : Net) (x : Stock) : Rat :=
  sumTo net.nC (fun c => if net.kind c = .source then 0 else stockTotal net x c)

/-- recorded outflow of all source compartments -/
def sourceOut (net : Net) (fl : Flow) : Rat :=
  sumTo net.nL (fun l => if net.kind (net.src l) = .source then recorded net fl l else 0)

theorem junction_unchanged (x : Stock) (fl : Flow) (c : Nat) (h : isJunction net c = true) (r : Nat) :
    updateComps net x fl c r = x c r := by
  unfold isJunction at h
  unfold updateComps
  cases hk : net.kind c <;> simp_all

/-- **C01, total.**  The number of people over all non-source compartments changes only by the recorded outflow of the
    source compartments: transitions, transfers, junction splitting, timed flushing never create, lose or duplicate anyone. -/
theorem update_total (hwf : wfCheck net = true) (x : Stock) (fl : Flow) (g : GoodFlow net x fl) (hp : Passthrough net fl) :
    grandTotal net (updateComps net x fl) = grandTotal net x + sourceOut net fl := by
  -- per compartment: T' c = T c − out c + in c  (junctions: stock unchanged and out = in)
  have hper : ∀ c, c < net.nC → net.kind c ≠ .source →
      stockTotal net (updateComps net x fl) c = stockTotal net x c - outTot net fl c + inAll net fl c := by
    intro c hc hs
    cases hk : net.kind c with
    | source => exact absurd hk hs
    | normal => exact step_balance hwf x fl g c hc (Or.inl hk)
    | timed => exact step_balance hwf x fl g c hc (Or.inr (Or.inl hk))
    | sink => exact step_balance hwf x fl g c hc (Or.inr (Or.inr hk))
    | junction =>
        have hj : isJunction net c = true := by simp [isJunction, hk]
        have : stockTotal net (updateComps net x fl) c = stockTotal net x c := by
          unfold stockTotal; exact sumTo_congr (fun r _ => junction_unchanged x fl c hj r)
        rw [this, hp c hc hj]; ring
    | resjunction =>
        have hj : isJunction net c = true := by simp [isJunction, hk]
        have : stockTotal net (updateComps net x fl) c = stockTotal net x c := by
          unfold stockTotal; exact sumTo_congr (fun r _ => junction_unchanged x fl c hj r)
        rw [this, hp c hc hj]; ring
  have h1 : grandTotal net (updateComps net x fl)
      = grandTotal net x
        - sumTo net.nC (fun c => if net.kind c = .source then 0 else outTot net fl c)
        + sumTo net.nC (fun c => if net.kind c = .source then 0 else inAll net fl c) := by
    unfold grandTotal
    rw [← sumTo_sub, ← sumTo_add]
    apply sumTo_congr; intro c hc
    by_cases hs : net.kind c = .source
    · simp [hs]
    · simp only [hs, if_false]; exact hper c hc hs
  -- every link leaves exactly one compartment and enters exactly one
  have hout : sumTo net.nC (fun c => if net.kind c = .source then 0 else outTot net fl c)
      = sumTo net.nL (fun l => if net.kind (net.src l) = .source then 0 else recorded net fl l) := by
    have := sumTo_fiber_filter net.nC net.nL net.src (recorded net fl) (fun c => ¬ net.kind c = .source)
      (fun l hl => (wf_link hwf l hl).src_lt)
    simp only [ite_not] at this
    exact this
  have hin : sumTo net.nC (fun c => if net.kind c = .source then 0 else inAll net fl c)
      = sumTo net.nL (fun l => recorded net fl l) := by
    have := sumTo_fiber_filter net.nC net.nL net.dst (recorded net fl) (fun c => ¬ net.kind c = .source)
      (fun l hl => (wf_link hwf l hl).dst_lt)
    simp only [ite_not] at this
    unfold inAll
    rw [this]
    apply sumTo_congr; intro l hl
    simp [(wf_link hwf l hl).dst_not_source]
  rw [h1, hout, hin]
  unfold sourceOut
  have : sumTo net.nL (fun l => recorded net fl l)
      = sumTo net.nL (fun l => if net.kind (net.src l) = .source then 0 else recorded net fl l)
        + sumTo net.nL (fun l => if net.kind (net.src l) = .source then recorded net fl l else 0) := by
    rw [← sumTo_add]
    apply sumTo_congr; intro l _
    by_cases h : net.kind (net.src l) = .source <;> simp [h]
  rw [this]; ring

end Atomica.C01
