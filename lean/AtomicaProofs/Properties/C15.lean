/-
  C15 — "Optimization and calibration never make things worse and never leak side effects."

  Theorems about the protocol models in `AtomicaModel/Protocol/{Asd,Objective,Bracket}.lean` and the generated
  skeletons in `AtomicaModel/Generated/Brackets.lean`.  The models are tied to the Python code by
  harness/props/c15.py (logged ASD traces replayed through `Protocol.replay`, `compute_objective` against
  `Spec.objective`, skeletons regenerated from the AST, crash injection at every simulation).
-/
import AtomicaModel.Protocol.Asd
import AtomicaModel.Protocol.Objective
import AtomicaModel.Protocol.Bracket
import AtomicaModel.Generated.Brackets
import AtomicaProofs.Lemmas.Asd
import AtomicaProofs.Lemmas.Objective
import AtomicaProofs.Lemmas.Bracket
import Mathlib.Tactic.NormNum

namespace Atomica.C15
open Atomica Atomica.Protocol Atomica.Protocol.Objective Atomica.Protocol.Bracket

/-! ## 1. The accept loop: any random path, any iteration budget -/

/-- For every sequence of proposals of every length (and whatever values the objective returns for them): the
    objective of the returned point is no worse than the start's, and a start inside the bounds gives a result
    inside the bounds. -/
theorem asd_invariant (box : List Bound) (s : St) (es : List Eval) :
    Obj.le (run box s es).f s.f = true ∧ (inBox box s.x → inBox box (run box s es).x) :=
  ⟨run_le box es s, run_inBox box es s⟩

/-- non-vacuity: a start inside a box, a clipped accepted proposal, a rejected proposal -/
example : inBox [⟨some 0, some 5⟩, ⟨none, none⟩] [1, 2] := by
  refine ⟨rfl, ?_⟩
  intro i hx hb
  match i, hx, hb with
  | 0, _, _ => exact ⟨fun l hl => by simp at hl; subst hl; norm_num, fun h hh => by simp at hh; subst hh; norm_num⟩
  | 1, _, _ => exact ⟨fun l hl => by simp at hl, fun h hh => by simp at hh⟩

example : run [⟨some 0, some 5⟩, ⟨none, none⟩] ⟨[1, 2], .fin 10⟩ [⟨0, 7, .fin 9⟩, ⟨1, 3, .fin 9⟩, ⟨1, 4, .inf⟩]
    = ⟨[5, 2], .fin 9⟩ := by decide +kernel

/-- The returned point is the start or one of the evaluated points; its value is the minimum of everything that was
    evaluated; and when nothing evaluated was strictly better the start itself is returned (ties never move). -/
theorem asd_returns_best (box : List Bound) (s : St) (es : List Eval) :
    run box s es ∈ s :: evaluated box s es
    ∧ (∀ p ∈ s :: evaluated box s es, Obj.le (run box s es).f p.f = true)
    ∧ ((∀ e ∈ es, Obj.lt e.f s.f = false) → run box s es = s) := by
  refine ⟨run_mem box es s, ?_, run_stays box es s⟩
  intro p hp
  rcases List.mem_cons.mp hp with h | h
  · subst h; exact run_le box es _
  · exact run_le_evaluated box es s p h

/-- The loop driven by a (deterministic) objective function `F`: the value reported is `F` of the point reported,
    it is no worse than `F x0`, and bounds are kept. -/
theorem asd_fun (F : List Rat → Obj) (box : List Bound) (x0 : List Rat) (ps : List (Nat × Rat)) :
    (runF F box x0 ps).f = F (runF F box x0 ps).x
    ∧ Obj.le (runF F box x0 ps).f (F x0) = true
    ∧ (inBox box x0 → inBox box (runF F box x0 ps).x) := by
  have key : ∀ (ps : List (Nat × Rat)) (s : St), s.f = F s.x →
      (ps.foldl (stepF F box) s).f = F (ps.foldl (stepF F box) s).x
      ∧ Obj.le (ps.foldl (stepF F box) s).f s.f = true
      ∧ (inBox box s.x → inBox box (ps.foldl (stepF F box) s).x) := by
    intro ps
    induction ps with
    | nil => intro s hs; exact ⟨hs, Obj.le_refl _, id⟩
    | cons p ps ih =>
      intro s hs
      have hs' : (stepF F box s p).f = F (stepF F box s p).x := by
        unfold stepF step
        split_ifs
        · rfl
        · exact hs
      obtain ⟨h1, h2, h3⟩ := ih (stepF F box s p) hs'
      refine ⟨h1, Obj.le_trans h2 (step_le box s _), fun hb => h3 (step_inBox hb _)⟩
  exact key ps ⟨x0, F x0⟩ rfl

/-! ## 2. The objective is the documented sum -/

/-- `Optimization.compute_objective` (loops, accumulators, boolean time filter) equals
    `Σ_m weight_m · Σ_{pop requested} Σ_{var} Σ_{t ∈ window} value` (links annualised; `0/∞` for hard targets),
    including which error is raised when a quantity is missing. -/
theorem objective_is_sum (t : List Rat) (dt : Rat) (ms : List Measurable) :
    objective t dt ms = Spec.objective t dt ms := by
  unfold objective Spec.objective
  rw [objLoop_eq]
  cases Spec.terms t dt ms with
  | error e => rfl
  | ok vs => simp [ObjL.zero_add]

/-- one measurable: the value is the windowed sum over the requested populations -/
theorem measure_is_sum (t : List Rat) (dt : Rat) (m : Measurable) : measure t dt m = Spec.measure t dt m :=
  measure_eq_spec t dt m

/-- The loop as written today (`pop not in self.pop_names` on a `Population` object) is *not* that sum: with a
    population selection nothing is ever matched. -/
theorem current_selection_differs :
    measureCurrent [2020] 1 ⟨.plain, 1, .at 2020, some ["adults"], .vars [⟨"adults", some [⟨false, [5]⟩]⟩]⟩
      ≠ measure [2020] 1 ⟨.plain, 1, .at 2020, some ["adults"], .vars [⟨"adults", some [⟨false, [5]⟩]⟩]⟩ := by
  decide +kernel

/-! ## 3. Hard targets met at the start are met at the end -/

/-- the hard target of `m` (if it is one) is met: its term is not `∞` -/
def met (t : List Rat) (dt : Rat) (m : Measurable) : Prop :=
  ∀ v, Spec.measure t dt m = .ok v → hard m.kind v ≠ .inf

theorem sumObj_finite (vs : List Obj) : (Spec.sumObj vs).isFinite = true ↔ ∀ v ∈ vs, v.isFinite = true := by
  induction vs with
  | nil => simp [Spec.sumObj, Obj.isFinite]
  | cons a as ih =>
    simp only [Spec.sumObj, List.mem_cons, forall_eq_or_imp, ← ih]
    cases a <;> cases h : Spec.sumObj as <;> simp [Obj.add, Obj.isFinite]

theorem terms_finite_iff (t : List Rat) (dt : Rat) : ∀ (ms : List Measurable) (vs : List Obj),
    Spec.terms t dt ms = .ok vs → ((∀ v ∈ vs, v.isFinite = true) ↔ ∀ m ∈ ms, met t dt m) := by
  intro ms
  induction ms with
  | nil => intro vs h; simp [Spec.terms] at h; subst h; simp
  | cons m ms ih =>
    intro vs h
    simp only [Spec.terms] at h
    cases hm : Spec.term t dt m with
    | error e => simp [hm] at h
    | ok v =>
      cases hms : Spec.terms t dt ms with
      | error e => simp [hm, hms] at h
      | ok vs' =>
        simp only [hm, hms, Except.ok.injEq] at h
        subst h
        have ih' := ih vs' hms
        simp only [List.mem_cons, forall_eq_or_imp, ih']
        refine and_congr_left' ?_
        unfold Spec.term at hm
        cases hv : Spec.measure t dt m with
        | error e => simp [hv] at hm
        | ok x =>
          simp only [hv, Except.ok.injEq] at hm
          subst hm
          unfold met
          simp only [hv, Except.ok.injEq, forall_eq']
          cases hard m.kind x <;> simp [Obj.scale, Obj.isFinite]

/-- the objective is finite exactly when every hard target is met -/
theorem finite_iff_met (t : List Rat) (dt : Rat) (ms : List Measurable) (o : Obj)
    (h : objective t dt ms = .ok o) : o.isFinite = true ↔ ∀ m ∈ ms, met t dt m := by
  rw [objective_is_sum] at h
  unfold Spec.objective at h
  cases hts : Spec.terms t dt ms with
  | error e => simp [hts] at h
  | ok vs =>
    simp only [hts, Except.ok.injEq] at h
    subst h
    rw [sumObj_finite]
    exact terms_finite_iff t dt ms vs hts

/-- `outs x` = the measurables with the outputs of the simulation at `x`; `F x` = what `_objective_fcn` returns
    (`∞` when the evaluation was rejected).  If the start meets every hard target, so does the result, for every
    proposal path. -/
theorem hard_targets_kept (F : List Rat → Obj) (box : List Bound) (x0 : List Rat) (ps : List (Nat × Rat))
    (t : List Rat → List Rat) (dt : Rat) (outs : List Rat → List Measurable)
    (hF : ∀ x, objective (t x) dt (outs x) = .ok (F x) ∨ F x = .inf)
    (h0 : objective (t x0) dt (outs x0) = .ok (F x0))
    (hmet0 : ∀ m ∈ outs x0, met (t x0) dt m) :
    ∀ m ∈ outs (runF F box x0 ps).x, met (t (runF F box x0 ps).x) dt m := by
  obtain ⟨hval, hle, _⟩ := asd_fun F box x0 ps
  have hfin0 : (F x0).isFinite = true := (finite_iff_met _ _ _ _ h0).mpr hmet0
  have hfinb : (F (runF F box x0 ps).x).isFinite = true := by
    rw [← hval]; exact Obj.finite_of_le hle hfin0
  rcases hF (runF F box x0 ps).x with h | h
  · exact (finite_iff_met _ _ _ _ h).mp hfinb
  · rw [h] at hfinb; simp [Obj.isFinite] at hfinb

/-- non-vacuity of `met` / `finite_iff_met`: an at-most target that is met, and one that is missed -/
example : objective [2020, 2021] 1 [⟨.atMost 10, 1, .range 2020 none, none, .vars [⟨"a", some [⟨false, [3, 4]⟩]⟩]⟩]
    = .ok (.fin 0) := by decide +kernel
example : objective [2020, 2021] 1 [⟨.atMost 5, 1, .range 2020 none, none, .vars [⟨"a", some [⟨false, [3, 4]⟩]⟩]⟩]
    = .ok .inf := by decide +kernel

/-! ## 4. Settings are put back on every path -/

/-- If the static check accepts a skeleton then, whichever dynamic call raises (any `k`), whatever the branches,
    loop counts and stored values: every settings field has its entry value at exit (normal, exception or return). -/
theorem restores_sound (s : Stmt) (h : restores s = true) (o : Oracle) (σ : State) :
    ∀ f, (exec o s σ).2.settings f = σ.settings f := by
  intro f
  by_cases hf : f ∈ assignedFields s
  · have hr : restoresField f s = true := by
      unfold restores at h
      exact List.all_eq_true.mp h f hf
    have hg : Gam f (σ.settings f) ⟨true, []⟩ σ := ⟨fun _ => rfl, fun v hv => by simp at hv⟩
    obtain ⟨a, ha, hga⟩ := absExec_sound f (σ.settings f) o s ⟨true, []⟩ σ hg
    simp only [restoresField, Bool.and_eq_true] at hr
    obtain ⟨⟨hn, he⟩, hrt⟩ := hr
    have hclean : a.clean = true := by
      rcases hout : (exec o s σ).1 with _ | _ | _ <;> rw [hout] at ha <;> simp only [Res.sel] at ha
      · rw [ha] at hn; exact hn
      · rw [ha] at he; exact he
      · rw [ha] at hrt; exact hrt
    exact hga.1 hclean
  · exact exec_unassigned o f s hf σ

/-- the counter-example search only returns genuine leaks of the model: raising at the reported dynamic call leaves
    some assigned settings field different from its entry value -/
theorem witness_sound (s : Stmt) (k c : Nat) (h : witness s = some (k, c)) :
    ∃ f, (exec (crashOracle k c) s σ0).2.settings f ≠ σ0.settings f := by
  unfold witness at h
  have := List.find?_some h
  simp only [leaksAt, List.any_eq_true, decide_eq_true_eq] at this
  obtain ⟨f, _, hf⟩ := this
  exact ⟨f, hf⟩

/-- every generated skeleton is classified: it provably restores the settings on all paths, or the model has a
    concrete crash point at which it does not (which the harness replays on the real code) -/
theorem skeletons_classified :
    ∀ p ∈ Generated.all, restores p.2 = true ∨ (witness p.2).isSome = true := by decide +kernel

/-- `calibrate` (calibration.py) assigns `project.settings.sim_end` and restores it in `finally` -/
theorem calibrate_restores : restores Generated.calibrate = true ∧ 1 ∈ assignedFields Generated.calibrate := by
  decide +kernel

theorem calibrate_settings_restored (o : Oracle) (σ : State) :
    ∀ f, (exec o Generated.calibrate σ).2.settings f = σ.settings f :=
  restores_sound _ calibrate_restores.1 o σ

/-- `reconcile` and `optimize` never assign a settings field -/
theorem reconcile_optimize_no_settings :
    assignedFields Generated.reconcile = [] ∧ assignedFields Generated.optimize = []
    ∧ restores Generated.reconcile = true ∧ restores Generated.optimize = true := by decide +kernel

/-- non-vacuity for `restores_sound` and `witness_sound`: the unprotected pattern `save; set; call; restore` leaks
    when the call raises, the protected one does not -/
example : restores (.seq (.save 0 1) (.seq (.setNew 1) (.tryFinally (.call "f") (.restore 1 0)))) = true := by
  decide +kernel
example : witness (.seq (.save 0 1) (.seq (.setNew 1) (.seq (.call "f") (.restore 1 0)))) = some (0, 1) := by
  decide +kernel

/-! ## 5. Work is done on copies -/

/-- Only caller-owned objects named by `writesTo` are ever modified in place, on every path. -/
theorem works_on_copy_sound (s : Stmt) (o : Oracle) (σ : State) :
    ∃ ws, (exec o s σ).2.written = σ.written ++ ws ∧ ∀ w ∈ ws, w ∈ writesTo s :=
  exec_writes o s σ

theorem no_writes_sound (s : Stmt) (h : writesTo s = []) (o : Oracle) (σ : State) :
    (exec o s σ).2.written = σ.written := by
  obtain ⟨ws, e, m⟩ := exec_writes o s σ
  cases ws with
  | nil => simpa using e
  | cons w ws => have := m w (by simp); rw [h] at this; simp at this

/-- `calibrate`, `reconcile` and `optimize` modify no object owned by the caller: every in-place modification goes
    to the copy made at entry (`parset.copy()`, `_convert_to_single_year` → `sc.dcp`) or to a fresh object -/
theorem calibrate_works_on_copy :
    writesTo Generated.calibrate = [] ∧ writesTo Generated.reconcile = [] ∧ writesTo Generated.optimize = [] := by
  decide +kernel

end Atomica.C15
