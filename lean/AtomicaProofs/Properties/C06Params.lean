/-
  C06 (parameter-pipeline half) — "… multiplied by the population's and the all-population calibration factors; replaced by
  its function of the same-step values of its dependencies when a function is defined (dependencies evaluated first); replaced
  by the program outcome while programs are active and target it; and finally clipped into the framework's minimum/maximum
  before it drives any flow or feeds any dependent parameter."

  Theorems about `Atomica.Params.evalOne` (one parameter, one population, one time index) and `Atomica.Params.evalStep`
  (one pass over an execution order), the model that harness/vlib/params_corr.py compares every `par.vals[ti]` of processed
  models against.  `none : V` is NaN.
-/
import AtomicaModel.Params
import Mathlib.Tactic.Linarith
import Mathlib.Tactic.NormNum
import Mathlib.Algebra.Order.Ring.Rat

namespace Atomica.C06
open Atomica Atomica.Params

/-! ## clipping -/

theorem clipLo_ge (l x : Rat) : l ≤ clipLo l x := by
  unfold clipLo; split
  · exact le_refl _
  · exact not_lt.mp ‹_›

theorem clipHi_le (h x : Rat) : clipHi h x ≤ h := by
  unfold clipHi; split
  · exact le_refl _
  · exact not_lt.mp ‹_›

theorem clipHi_ge {l h x : Rat} (hlh : l ≤ h) (hx : l ≤ x) : l ≤ clipHi h x := by
  unfold clipHi; split
  · exact hlh
  · exact hx

/-- inside the limits nothing is changed -/
theorem clipQ_of_mem (lim : Limits) (x : Rat) (hlo : ∀ l, lim.lo = some l → l ≤ x) (hhi : ∀ h, lim.hi = some h → x ≤ h) :
    clipQ lim x = x := by
  unfold clipQ
  cases hl : lim.lo with
  | none =>
    cases hh : lim.hi with
    | none => rfl
    | some h => simp only [clipHi]; rw [if_neg (not_lt.mpr (hhi h hh))]
  | some l =>
    have h1 : clipLo l x = x := by unfold clipLo; rw [if_neg (not_lt.mpr (hlo l hl))]
    cases hh : lim.hi with
    | none => simpa using h1
    | some h => simp only [h1, clipHi]; rw [if_neg (not_lt.mpr (hhi h hh))]

/-- the clipped number lies within the limits whenever they are consistent (`lo ≤ hi`) -/
theorem clipQ_mem (lim : Limits) (x : Rat) (hc : ∀ l h, lim.lo = some l → lim.hi = some h → l ≤ h) :
    (∀ l, lim.lo = some l → l ≤ clipQ lim x) ∧ (∀ h, lim.hi = some h → clipQ lim x ≤ h) := by
  unfold clipQ
  cases hl : lim.lo with
  | none =>
    cases hh : lim.hi with
    | none => simp
    | some h => simp [clipHi_le]
  | some l =>
    cases hh : lim.hi with
    | none => simp [clipLo_ge]
    | some h =>
      refine ⟨?_, ?_⟩
      · intro l' e; cases e; exact clipHi_ge (hc l h hl hh) (clipLo_ge l x)
      · intro h' e; cases e; exact clipHi_le h _

/-- `constrain` is idempotent: clipping at build time and again in the loop is one clip -/
theorem clipV_idem (lim : Limits) (hc : ∀ l h, lim.lo = some l → lim.hi = some h → l ≤ h) (v : V) :
    clipV lim (clipV lim v) = clipV lim v := by
  cases v with
  | none => rfl
  | some x =>
    simp only [clipV, Option.map_some]
    congr 1
    exact clipQ_of_mem lim _ (clipQ_mem lim x hc).1 (clipQ_mem lim x hc).2

/-- **clip_before_use** — the stored value, which is what every dependent parameter, `update_links` and the junction balance
    read, lies in `[lo, hi]` (when it is a number at all) -/
theorem clip_before_use (i : Inp) (hc : ∀ l h, i.lim.lo = some l → i.lim.hi = some h → l ≤ h) (v : Rat)
    (hv : evalOne i = some v) :
    (∀ l, i.lim.lo = some l → l ≤ v) ∧ (∀ h, i.lim.hi = some h → v ≤ h) := by
  unfold evalOne clipV at hv
  cases hx : afterPost i with
  | none => simp [hx] at hv
  | some x =>
    simp only [hx, Option.map_some, Option.some.injEq] at hv
    subst hv
    exact clipQ_mem i.lim x hc

/-! ## precedence -/

/-- **precedence_program** — while programs are active, a targeted (parameter, population) that the loop visits takes the
    converted program outcome, clipped — whatever the databook, the function or the skip window say.
    (`agg = none`: an aggregation is written after the program stage; `mode ≠ postcompute`: a targeted function parameter is
    made dynamic or precompute by `Population.build`; both are evaluated on every targeted parameter by the harness.) -/
theorem precedence_program (i : Inp) (o : Rat) (hl : i.inLoop = true) (ha : inWin i.active i.t = true)
    (ho : i.outcome = some o) (hagg : i.agg = none) (hmode : i.mode ≠ .postcompute) :
    evalOne i = clipV i.lim (convert i o) := by
  have hp : progApplies i = true := by simp [progApplies, hl, ha, ho]
  have hm : (i.mode == Mode.postcompute) = false := by simpa using hmode
  simp [evalOne, afterPost, afterAgg, afterProg, hp, hagg, hm, ho]

/-- **precedence_function** — no program overwrite at this step (or an output-only parameter): the value is the clipped
    function of the same-step values of the dependencies, whatever the databook says -/
theorem precedence_function (i : Inp) (hf : i.hasFcn = true) (hagg : i.agg = none) (hs : skipped i = false)
    (hp : progApplies i = false ∨ i.mode = .postcompute) :
    evalOne i = clipV i.lim i.fcn := by
  have hown : ownFcn i = true := by simp [ownFcn, hf, hagg]
  by_cases hm : i.mode = .postcompute
  · simp [evalOne, afterPost, hown, hm, hs]
  · have hp' : progApplies i = false := by
      cases hp with
      | inl h => exact h
      | inr h => exact absurd h hm
    have hm1 : (i.mode == Mode.postcompute) = false := by simpa using hm
    have hm2 : (i.mode != Mode.postcompute) = true := by simp [bne, hm1]
    simp [evalOne, afterPost, afterAgg, afterProg, base, hown, hm1, hm2, hs, hp', hagg]

/-- **precedence_data** — no function, no program overwrite: the clipped databook value -/
theorem precedence_data (i : Inp) (hf : i.hasFcn = false) (hagg : i.agg = none) (hp : progApplies i = false) :
    evalOne i = clipV i.lim i.data := by
  simp [evalOne, afterPost, afterAgg, afterProg, base, ownFcn, hf, hagg, hp]

/-- **precedence_skip** — inside the skip window of a parameter scenario the function (own function or aggregation) is not
    applied and the databook/scenario value stands -/
theorem precedence_skip (i : Inp) (hs : skipped i = true) (hp : progApplies i = false) :
    evalOne i = clipV i.lim i.data := by
  have h1 : afterProg i = i.data := by
    simp [afterProg, hp, base, hs]
  have h2 : afterAgg i = i.data := by
    unfold afterAgg
    cases i.agg with
    | none => simpa using h1
    | some a => simpa [hs] using h1
  simp [evalOne, afterPost, hs, h2]

/-- **data_scaled** — a data parameter: `clip (interp t · y_pop · y_meta)` -/
theorem data_scaled (i : Inp) (x : V) (yPop yMeta : Rat) (hd : i.data = dataValue x yPop yMeta) (hf : i.hasFcn = false)
    (hagg : i.agg = none) (hp : progApplies i = false) :
    evalOne i = x.map (fun v => clipQ i.lim (v * (yMeta * yPop))) := by
  rw [precedence_data i hf hagg hp, hd]
  cases x <;> rfl

/-- the aggregation stage: outside the skip window the aggregated value wins (also over a program outcome) -/
theorem precedence_aggregation (i : Inp) (a : V) (hf : i.hasFcn = true) (hagg : i.agg = some a) (hs : skipped i = false) :
    evalOne i = clipV i.lim a := by
  simp [evalOne, afterPost, afterAgg, ownFcn, hf, hagg, hs]

/-! ## the current code and the specification differ exactly on precompute parameters inside their skip window -/

theorem current_eq_spec (i : Inp) (h : ¬(ownFcn i = true ∧ i.mode = .precompute ∧ skipped i = true ∧ progApplies i = false)) :
    evalOneCurrent i = evalOne i := by
  unfold evalOneCurrent evalOne afterPost afterAgg afterProg baseCurrent base
  by_cases hown : ownFcn i = true <;> by_cases hm : i.mode = .precompute <;> by_cases hs : skipped i = true <;>
    by_cases hp : progApplies i = true <;> simp_all

/-- inside the window the current code stores NaN (and the NaN then drives the transition) -/
theorem current_precompute_skip_nan (i : Inp) (hf : i.hasFcn = true) (hagg : i.agg = none) (hm : i.mode = .precompute)
    (hs : skipped i = true) (hp : progApplies i = false) :
    evalOneCurrent i = none := by
  simp [evalOneCurrent, baseCurrent, ownFcn, hf, hagg, hm, hs, hp, clipV]

/-- witness input: a precompute rate `0.1 + 0*t` with a scenario value 0.3 from 2001 on -/
def skipEx : Inp :=
  { t := 2001, dt := 1/2, data := some (3/10), hasFcn := true, fcn := some (1/10), mode := .precompute, agg := none,
    skip := some ⟨2001, none⟩, active := none, inLoop := false, outcome := none, units := .perTime, popsize := 100,
    lim := ⟨none, none⟩ }

example : evalOne skipEx = some (3/10) := by
  rw [precedence_skip skipEx (by decide) (by decide)]; rfl
example : evalOneCurrent skipEx = none :=
  current_precompute_skip_nan skipEx rfl rfl rfl (by decide) (by decide)
theorem current_ne_spec : evalOneCurrent skipEx ≠ evalOne skipEx := by
  rw [current_precompute_skip_nan skipEx rfl rfl rfl (by decide) (by decide), precedence_skip skipEx (by decide) (by decide)]
  simp [skipEx, clipV]

/-! non-vacuity of the precedence theorems -/
def progEx : Inp :=
  { skipEx with active := some ⟨2000, some 2005⟩, inLoop := true, outcome := some (1/20), lim := ⟨some 0, some (1/20)⟩ }

example : evalOne progEx = some (1/20) := by
  rw [precedence_program progEx (1/20) rfl (by decide) rfl rfl (by decide)]
  simp [progEx, skipEx, convert, divQ, clipV, clipQ, clipLo, clipHi]
  norm_num
example : evalOne { skipEx with t := 2000 } = some (1/10) := by
  rw [precedence_function _ rfl rfl (by decide) (Or.inl (by decide))]; rfl
example : evalOne { skipEx with hasFcn := false } = some (3/10) := by
  rw [precedence_data _ rfl rfl (by decide)]; rfl

/-! ## one pass over the execution order -/

theorem evalStep_not_mem (rule : Nat → Env → V) (ps : List Nat) (e : Env) (q : Nat) (hq : q ∉ ps) :
    evalStep rule ps e q = e q := by
  induction ps generalizing e with
  | nil => rfl
  | cons p ps ih =>
    simp only [evalStep]
    rw [ih _ (fun h => hq (List.mem_cons_of_mem _ h))]
    have : q ≠ p := fun h => hq (h ▸ List.mem_cons_self)
    simp [setEnv, this]

/-- **evalStep_frame** — parameters the pass does not visit keep their value -/
theorem evalStep_frame (rule : Nat → Env → V) (order : List Nat) (e : Env) (q : Nat) (hq : q ∉ order) :
    evalStep rule order e q = e q := evalStep_not_mem rule order e q hq

/-- **evalStep_fixpoint** — if the order visits nobody twice and nobody before one of its dependencies
    (`depsBefore`, evaluated by the driver on every extracted `_exec_order`) and each rule reads only its declared
    dependencies, then after the pass every visited parameter equals its rule applied to the *final* values. -/
theorem evalStep_fixpoint (rule : Nat → Env → V) (deps : Nat → List Nat)
    (hloc : ∀ p e e', (∀ d ∈ deps p, e d = e' d) → rule p e = rule p e')
    (order : List Nat) (hord : depsBefore deps order = true) (e : Env) :
    ∀ p ∈ order, evalStep rule order e p = rule p (evalStep rule order e) := by
  induction order generalizing e with
  | nil => intro p hp; cases hp
  | cons p ps ih =>
    simp only [depsBefore, Bool.and_eq_true, Bool.not_eq_true', List.all_eq_true] at hord
    obtain ⟨⟨hnd, hdeps⟩, hrest⟩ := hord
    have hpn : p ∉ ps := by simpa using hnd
    intro q hq
    simp only [evalStep]
    rcases List.mem_cons.mp hq with rfl | hq'
    · -- the head: its value is final, and so are its dependencies
      rw [evalStep_not_mem rule ps _ q hpn]
      have hsame : ∀ d ∈ deps q, e d = evalStep rule ps (setEnv e q (rule q e)) d := by
        intro d hd
        have hdn := hdeps d hd
        have hd' : d ∉ q :: ps := by simpa [List.mem_cons, not_or] using hdn
        have hdq : d ≠ q := fun h => hd' (h ▸ List.mem_cons_self)
        rw [evalStep_not_mem rule ps _ d (fun h => hd' (List.mem_cons_of_mem _ h))]
        simp [setEnv, hdq]
      simp only [setEnv, if_true]
      exact hloc q _ _ hsame
    · exact ih hrest _ q hq'

/-- the rule of the pipeline reads the environment only through the function value -/
theorem ruleOf_local (inp : Nat → Inp) (f : Nat → Env → V) (deps : Nat → List Nat)
    (hf : ∀ p e e', (∀ d ∈ deps p, e d = e' d) → f p e = f p e') :
    ∀ p e e', (∀ d ∈ deps p, e d = e' d) → ruleOf inp f p e = ruleOf inp f p e' := by
  intro p e e' h
  simp only [ruleOf, hf p e e' h]

/-- **evalStep_function_fixpoint** — the statement of the property: after the pass, every visited function parameter that is
    neither skipped nor overwritten by a program satisfies `val p = clip (scale_p · f_p (val ∘ deps))` with the final,
    clipped, same-step values of its dependencies (`f p` includes the calibration factor). -/
theorem evalStep_function_fixpoint (inp : Nat → Inp) (f : Nat → Env → V) (deps : Nat → List Nat)
    (hf : ∀ p e e', (∀ d ∈ deps p, e d = e' d) → f p e = f p e')
    (order : List Nat) (hord : depsBefore deps order = true) (e : Env) (p : Nat) (hp : p ∈ order)
    (hfcn : (inp p).hasFcn = true) (hagg : (inp p).agg = none) (hs : skipped (inp p) = false)
    (hprog : progApplies (inp p) = false) :
    evalStep (ruleOf inp f) order e p = clipV (inp p).lim (f p (evalStep (ruleOf inp f) order e)) := by
  rw [evalStep_fixpoint (ruleOf inp f) deps (ruleOf_local inp f deps hf) order hord e p hp]
  simp only [ruleOf]
  exact precedence_function _ hfcn hagg hs (Or.inl hprog)

/-- and its values are within the limits when every dependent reads them -/
theorem evalStep_clipped (inp : Nat → Inp) (f : Nat → Env → V) (deps : Nat → List Nat)
    (hf : ∀ p e e', (∀ d ∈ deps p, e d = e' d) → f p e = f p e')
    (order : List Nat) (hord : depsBefore deps order = true) (e : Env) (p : Nat) (hp : p ∈ order)
    (hc : ∀ l h, (inp p).lim.lo = some l → (inp p).lim.hi = some h → l ≤ h) (v : Rat)
    (hv : evalStep (ruleOf inp f) order e p = some v) :
    (∀ l, (inp p).lim.lo = some l → l ≤ v) ∧ (∀ h, (inp p).lim.hi = some h → v ≤ h) := by
  rw [evalStep_fixpoint (ruleOf inp f) deps (ruleOf_local inp f deps hf) order hord e p hp] at hv
  exact clip_before_use { inp p with fcn := f p (evalStep (ruleOf inp f) order e) } hc v hv

/-! non-vacuity: a chain `0 ← 1 ← 2` visited in order satisfies `depsBefore`; the reversed order does not -/
example : depsBefore (fun p => if p = 0 then [] else [p - 1]) [0, 1, 2] = true := by decide
example : depsBefore (fun p => if p = 0 then [] else [p - 1]) [2, 1, 0] = false := by decide
example : depsBefore (fun _ => []) [0, 0] = false := by decide

end Atomica.C06
