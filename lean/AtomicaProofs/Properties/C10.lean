/-
  C10 — Restarting from a saved state continues the original trajectory exactly.

  "Saving the compartment state of a finished run at year Y into the parameter set and starting a new simulation at Y
   reproduces, from Y onward, exactly the trajectories of the original run for all compartments, flows, characteristics and
   parameters, including the elapsed-time structure inside timed compartments.  Writing that saved state to the calibration
   spreadsheet and loading it back gives the same result up to the 16 significant digits a spreadsheet stores.
   (Models with derivative parameters carry extra state and are excluded.)"

  Theorems about `Engine.runFrom` / `Engine.process` (layer L1: the parameter values of every index are inputs, the restarted
  run receives the tail of the stream), about the closed-loop run `InitTable.runEv` / `processEv` (parameters are a function
  of the absolute time index and the current state — exactly what "no derivative parameters" buys), about the saved table
  `InitTable.fromResult` / `applyInit` (the finite table is enough state: `step` only reads the rows inside the net), and
  about the spreadsheet layout `toTable` / `fromTable`.
-/
import AtomicaModel.Engine
import AtomicaModel.InitTable
import AtomicaProofs.Lemmas.Sums
import AtomicaProofs.Lemmas.EngineWF
import AtomicaProofs.Lemmas.EngineCongr
import AtomicaProofs.Lemmas.FlushEmpty
import Mathlib.Tactic.NormNum

namespace Atomica.C10
open Atomica Atomica.Engine Atomica.InitTable

variable {net : Net} {dt : Rat}

/-! ### 1. the trajectory recursion -/

theorem runFrom_cons {pv : Nat → Rat} {pvs : List (Nat → Rat)} {x : Stock} {traj : List (Stock × Flow)}
    (h : runFrom net dt (pv :: pvs) x = some traj) :
    ∃ fl x' rest, step net dt pv x = some (fl, x') ∧ runFrom net dt pvs x' = some rest ∧ traj = (x, fl) :: rest := by
  unfold runFrom at h
  split at h
  · exact absurd h (by simp)
  · rename_i fl x' hs
    split at h
    · exact absurd h (by simp)
    · rename_i rest hr
      exact ⟨fl, x', rest, hs, hr, (Option.some.inj h).symm⟩

theorem runFrom_length : ∀ (pvs : List (Nat → Rat)) (x : Stock) (traj : List (Stock × Flow)),
    runFrom net dt pvs x = some traj → traj.length = pvs.length
  | [], x, traj, h => by simp [runFrom] at h; simp [← h]
  | pv :: pvs, x, traj, h => by
      obtain ⟨fl, x', rest, _, hr, rfl⟩ := runFrom_cons h
      simp [runFrom_length pvs x' rest hr]

/-- the first entry of a trajectory is the start state -/
theorem runFrom_head {pvs : List (Nat → Rat)} {x : Stock} {traj : List (Stock × Flow)} {x0 : Stock} {f0 : Flow}
    (h : runFrom net dt pvs x = some traj) (h0 : traj[0]? = some (x0, f0)) : x0 = x := by
  cases pvs with
  | nil => simp [runFrom] at h; subst h; simp at h0
  | cons pv pvs =>
      obtain ⟨fl, x', rest, _, _, rfl⟩ := runFrom_cons h
      simp at h0; exact h0.1.symm

/-- **runFrom_drop.**  Running the tail of the parameter stream from the state at index `k` reproduces the tail of the
    trajectory: every later stock (row by row — a `Stock` is a function of compartment *and row*) and every later flow. -/
theorem runFrom_drop : ∀ (pvs : List (Nat → Rat)) (x : Stock) (traj : List (Stock × Flow)) (k : Nat) (xk : Stock) (fk : Flow),
    runFrom net dt pvs x = some traj → traj[k]? = some (xk, fk) →
    runFrom net dt (pvs.drop k) xk = some (traj.drop k)
  | [], x, traj, k, xk, fk, h, hk => by simp [runFrom] at h; subst h; simp at hk
  | pv :: pvs, x, traj, 0, xk, fk, h, hk => by
      have := runFrom_head h hk
      subst this; simpa using h
  | pv :: pvs, x, traj, k + 1, xk, fk, h, hk => by
      obtain ⟨fl, x', rest, _, hr, rfl⟩ := runFrom_cons h
      simp only [List.getElem?_cons_succ] at hk
      simpa using runFrom_drop pvs x' rest k xk fk hr hk

/-- the flows recorded at index `k` are the flows the model computes from the state at index `k` with the parameter values of
    index `k` — so a restarted run, given the same parameter values, records the same flows at its index 0 -/
theorem runFrom_flows_at : ∀ (pvs : List (Nat → Rat)) (x : Stock) (traj : List (Stock × Flow)) (k : Nat) (xk : Stock) (fk : Flow)
    (pvk : Nat → Rat), runFrom net dt pvs x = some traj → traj[k]? = some (xk, fk) → pvs[k]? = some pvk →
    flows net dt pvk xk = some fk
  | [], x, traj, k, xk, fk, pvk, h, hk, _ => by simp [runFrom] at h; subst h; simp at hk
  | pv :: pvs, x, traj, 0, xk, fk, pvk, h, hk, hp => by
      obtain ⟨fl, x', rest, hs, _, rfl⟩ := runFrom_cons h
      simp at hk hp
      obtain ⟨rfl, rfl⟩ := hk
      subst hp
      unfold step at hs
      cases hf : flows net dt pv x with
      | none => simp [hf] at hs
      | some f => simp [hf] at hs; rw [hs.1]
  | pv :: pvs, x, traj, k + 1, xk, fk, pvk, h, hk, hp => by
      obtain ⟨fl, x', rest, _, hr, rfl⟩ := runFrom_cons h
      simp only [List.getElem?_cons_succ] at hk hp
      exact runFrom_flows_at pvs x' rest k xk fk pvk hr hk hp

/-! ### 2. the start-up flush does nothing on a state whose junctions are empty -/

/-- no junction of the execution order holds anybody -/
def JEmpty (net : Net) (x : Stock) : Prop := ∀ j, j ∈ net.jorder → ¬ (x j 0 > 0)

theorem flushOne_noop {pv : Nat → Rat} {x : Stock} {j : Nat} (h : ¬ (x j 0 > 0)) : flushOne net pv x j = some x := by
  simp [flushOne, h]

/-- **flush_noop_of_empty.**  `flushAll` is the identity on a state whose junction stocks are all 0, whatever the parameter
    values: the restarted run's `flush_junctions` moves nobody (from the definition of `flushOne`: its guard `vals[0] > 0`). -/
theorem flush_noop_of_empty (pv : Nat → Rat) (x : Stock) : ∀ (js : List Nat), (∀ j, j ∈ js → ¬ (x j 0 > 0)) →
    flushAll net pv x js = some x
  | [], _ => rfl
  | j :: js, h => by
      simp only [flushAll, flushOne_noop (h j (by simp)), Option.bind_some]
      exact flush_noop_of_empty pv x js (fun j' hj' => h j' (by simp [hj']))

/-! ### 3. junction stocks never change during the loop (so they are empty at every saved index if they are at index 0) -/

theorem junction_unchanged (x : Stock) (fl : Flow) (c : Nat) (h : isJunction net c = true) (r : Nat) :
    updateComps net x fl c r = x c r := by
  unfold isJunction at h
  unfold updateComps
  cases hk : net.kind c <;> simp_all

theorem step_junction {pv : Nat → Rat} {x x' : Stock} {fl : Flow} (h : step net dt pv x = some (fl, x'))
    (c : Nat) (hc : isJunction net c = true) (r : Nat) : x' c r = x c r := by
  unfold step at h
  cases hf : flows net dt pv x with
  | none => simp [hf] at h
  | some f =>
      simp [hf] at h
      rw [← h.2]; exact junction_unchanged x f c hc r

theorem runFrom_junction_const : ∀ (pvs : List (Nat → Rat)) (x : Stock) (traj : List (Stock × Flow)) (k : Nat) (xk : Stock) (fk : Flow),
    runFrom net dt pvs x = some traj → traj[k]? = some (xk, fk) →
    ∀ c, isJunction net c = true → ∀ r, xk c r = x c r
  | [], x, traj, k, xk, fk, h, hk => by simp [runFrom] at h; subst h; simp at hk
  | pv :: pvs, x, traj, 0, xk, fk, h, hk => by
      have := runFrom_head h hk
      subst this; intros; rfl
  | pv :: pvs, x, traj, k + 1, xk, fk, h, hk => by
      obtain ⟨fl, x', rest, hs, hr, rfl⟩ := runFrom_cons h
      simp only [List.getElem?_cons_succ] at hk
      intro c hc r
      rw [runFrom_junction_const pvs x' rest k xk fk hr hk c hc r, step_junction hs c hc r]

theorem wf_jorder (hwf : wfCheck net = true) (j : Nat) (hj : j ∈ net.jorder) : j < net.nC ∧ isJunction net j = true := by
  simp only [wfCheck, Bool.and_eq_true, allBelow, List.all_eq_true, List.mem_range] at hwf
  obtain ⟨⟨⟨_, hJ⟩, _⟩, _⟩ := hwf
  have := hJ j hj
  simpa using this

/-- junction emptiness is inherited by every index of a run -/
theorem runFrom_jempty (hwf : wfCheck net = true) {pvs : List (Nat → Rat)} {x : Stock} {traj : List (Stock × Flow)}
    (h : runFrom net dt pvs x = some traj) (h0 : JEmpty net x) {k : Nat} {xk : Stock} {fk : Flow}
    (hk : traj[k]? = some (xk, fk)) : JEmpty net xk := by
  intro j hj
  rw [runFrom_junction_const pvs x traj k xk fk h hk j (wf_jorder hwf j hj).2 0]
  exact h0 j hj

/-! ### 4. restart of `Model.process` -/

/-- **restart_continues.**  Let `traj` be the run `process` produces (start-up flush with parameter values `pvPre`, then one
    entry per time index with the parameter values `pvs`).  Take the state `xk` saved at *any* index `k` whose junctions are
    empty.  A new `process` started from `xk` with the tail `pvs.drop k` of the parameter stream — and *any* parameter values
    `pvPre'` in its own first `update_pars` — produces exactly `traj.drop k`: all stocks row by row and all flows at every
    index ≥ k. -/
theorem restart_continues {pvPre : Nat → Rat} {pvs : List (Nat → Rat)} {xinit : Stock} {traj : List (Stock × Flow)}
    (h : process net dt pvPre pvs xinit = some traj) {k : Nat} {xk : Stock} {fk : Flow} (hk : traj[k]? = some (xk, fk))
    (hJ : JEmpty net xk) (pvPre' : Nat → Rat) :
    process net dt pvPre' (pvs.drop k) xk = some (traj.drop k) := by
  unfold process at h ⊢
  cases hf : flushAll net pvPre xinit net.jorder with
  | none => simp [hf] at h
  | some x0 =>
      simp only [hf, Option.bind_some] at h
      rw [flush_noop_of_empty pvPre' xk net.jorder hJ]
      simp only [Option.bind_some]
      exact runFrom_drop pvs x0 traj k xk fk h hk

/-- the junction hypothesis of `restart_continues` needs to be checked at the post-flush start state only -/
theorem restart_continues_of_start {pvPre : Nat → Rat} {pvs : List (Nat → Rat)} {xinit x0 : Stock} {traj : List (Stock × Flow)}
    (hwf : wfCheck net = true)
    (hfl : flushAll net pvPre xinit net.jorder = some x0) (h0 : JEmpty net x0)
    (h : process net dt pvPre pvs xinit = some traj) {k : Nat} {xk : Stock} {fk : Flow} (hk : traj[k]? = some (xk, fk))
    (pvPre' : Nat → Rat) :
    process net dt pvPre' (pvs.drop k) xk = some (traj.drop k) := by
  have hr : runFrom net dt pvs x0 = some traj := by
    unfold process at h; simpa [hfl] using h
  exact restart_continues h hk (runFrom_jempty hwf hr h0 hk) pvPre'

/-! ### 5. chains of restarts -/

/-- restart repeatedly: at offset `k₁` of the given run, then at offset `k₂` of the restarted run, … -/
def chainFrom (net : Net) (dt : Rat) (pre : Nat → Rat) : List Nat → List (Nat → Rat) → List (Stock × Flow) → Option (List (Stock × Flow))
  | [], _, traj => some traj
  | k :: ks, pvs, traj =>
      match traj[k]? with
      | none => none
      | some (xk, _) =>
          match process net dt pre (pvs.drop k) xk with
          | none => none
          | some t' => chainFrom net dt pre ks (pvs.drop k) t'

/-- every state of the trajectory has empty junctions -/
def AllJEmpty (net : Net) (traj : List (Stock × Flow)) : Prop := ∀ e, e ∈ traj → JEmpty net e.1

/-- **restart_chain.**  A restart of a restart of … (any number of times, at any offsets that stay inside the run) ends with
    the tail of the original trajectory from the summed offset. -/
theorem restart_chain (pre : Nat → Rat) : ∀ (ks : List Nat) (pvPre : Nat → Rat) (pvs : List (Nat → Rat)) (xinit : Stock)
    (traj : List (Stock × Flow)), process net dt pvPre pvs xinit = some traj → AllJEmpty net traj → ks.sum < traj.length →
    chainFrom net dt pre ks pvs traj = some (traj.drop ks.sum)
  | [], _, _, _, traj, _, _, _ => by simp [chainFrom]
  | k :: ks, pvPre, pvs, xinit, traj, h, hJ, hlen => by
      have hk : k < traj.length := by simp at hlen; omega
      have hget : traj[k]? = some (traj[k].1, traj[k].2) := by simp [List.getElem?_eq_getElem hk]
      have hJk : JEmpty net traj[k].1 := hJ _ (List.getElem_mem hk)
      have hres := restart_continues h hget hJk pre
      unfold chainFrom
      simp only [hget, hres]
      have hJ' : AllJEmpty net (traj.drop k) := fun e he => hJ e (List.mem_of_mem_drop he)
      have hlen' : ks.sum < (traj.drop k).length := by simp at hlen ⊢; omega
      rw [restart_chain pre ks pre (pvs.drop k) traj[k].1 (traj.drop k) hres hJ' hlen']
      simp [List.drop_drop]

/-! ### 6. parameters computed from (absolute time index, state): the closed loop -/

theorem runEv_succ {ev : Nat → Stock → Nat → Rat} {n t : Nat} {x : Stock} {traj : List (Stock × Flow)}
    (h : runEv net dt ev (n + 1) t x = some traj) :
    ∃ fl x' rest, step net dt (ev t x) x = some (fl, x') ∧ runEv net dt ev n (t + 1) x' = some rest ∧ traj = (x, fl) :: rest := by
  unfold runEv at h
  split at h
  · exact absurd h (by simp)
  · rename_i fl x' hs
    split at h
    · exact absurd h (by simp)
    · rename_i rest hr
      exact ⟨fl, x', rest, hs, hr, (Option.some.inj h).symm⟩

/-- the closed-loop run is an L1 run on the parameter values it computes itself -/
theorem runEv_drop (ev : Nat → Stock → Nat → Rat) : ∀ (n t : Nat) (x : Stock) (traj : List (Stock × Flow)) (k : Nat) (xk : Stock) (fk : Flow),
    runEv net dt ev n t x = some traj → traj[k]? = some (xk, fk) →
    runEv net dt ev (n - k) (t + k) xk = some (traj.drop k)
  | 0, t, x, traj, k, xk, fk, h, hk => by simp [runEv] at h; subst h; simp at hk
  | n + 1, t, x, traj, 0, xk, fk, h, hk => by
      obtain ⟨fl, x', rest, _, _, rfl⟩ := runEv_succ h
      simp at hk; obtain ⟨rfl, rfl⟩ := hk
      simpa using h
  | n + 1, t, x, traj, k + 1, xk, fk, h, hk => by
      obtain ⟨fl, x', rest, _, hr, rfl⟩ := runEv_succ h
      simp only [List.getElem?_cons_succ] at hk
      have := runEv_drop ev n (t + 1) x' rest k xk fk hr hk
      have e1 : n + 1 - (k + 1) = n - k := by omega
      have e2 : t + (k + 1) = t + 1 + k := by omega
      rw [e1, e2]; simpa using this

/-- **restart_closed_loop.**  If the parameter values of a time index are a function `ev` of the absolute index and of the
    state at that index (data × calibration, functions of compartments/characteristics/time, programs — everything except
    derivative parameters, whose value is state of its own), a run restarted at absolute index `t + k` from the saved state
    reproduces the tail of the original run; since it visits the same states at the same absolute indices it also computes the
    same parameter values `ev (t+k+i) x_{k+i}`. -/
theorem restart_closed_loop {ev : Nat → Stock → Nat → Rat} {n t : Nat} {xinit : Stock} {traj : List (Stock × Flow)}
    (h : processEv net dt ev n t xinit = some traj) {k : Nat} {xk : Stock} {fk : Flow} (hk : traj[k]? = some (xk, fk))
    (hJ : JEmpty net xk) :
    processEv net dt ev (n - k) (t + k) xk = some (traj.drop k) := by
  unfold processEv at h ⊢
  cases hf : flushAll net (ev t xinit) xinit net.jorder with
  | none => simp [hf] at h
  | some x0 =>
      simp only [hf, Option.bind_some] at h
      rw [flush_noop_of_empty (ev (t + k) xk) xk net.jorder hJ]
      simp only [Option.bind_some]
      exact runEv_drop ev n t x0 traj k xk fk h hk

/-! ### 7. the saved table is enough state -/

theorem find_map_key (key : Nat → Key) (v : Nat → Val) (nC : Nat)
    (hkey : ∀ c c', c < nC → c' < nC → key c = key c' → c = c') (c : Nat) (hc : c < nC) :
    ∀ (l : List Nat), (∀ c', c' ∈ l → c' < nC) → c ∈ l →
      (l.map (fun c' => (key c', v c'))).find? (fun e => e.1 == key c) = some (key c, v c)
  | [], _, h => by simp at h
  | a :: l, hl, h => by
      by_cases ha : a = c
      · subst ha; simp
      · have hne : key a ≠ key c := fun e => ha (hkey a c (hl a (by simp)) hc e)
        have hmem : c ∈ l := by
          rcases List.mem_cons.mp h with h' | h'
          · exact absurd h'.symm ha
          · exact h'
        have hb : ((key a, v a).1 == key c) = false := by simpa using hne
        simp only [List.map_cons, List.find?_cons, hb]
        exact find_map_key key v nC hkey c hc l (fun c' h' => hl c' (by simp [h'])) hmem

/-- keys of different compartments differ: `(compartment name, population name)` identifies a compartment -/
def KeyInj (net : Net) (key : Nat → Key) : Prop := ∀ c c', c < net.nC → c' < net.nC → key c = key c' → c = c'

theorem lookup_fromResult (key : Nat → Key) (hkey : KeyInj net key) (x : Stock) (c : Nat) (hc : c < net.nC) :
    lookup (fromResult net key x) (key c)
      = some (if net.kind c = .timed then Val.vec (rowsOf x c (net.nrows c)) else Val.scalar (x c 0)) := by
  unfold lookup fromResult
  rw [find_map_key key (fun c => if net.kind c = .timed then Val.vec (rowsOf x c (net.nrows c)) else Val.scalar (x c 0))
    net.nC hkey c hc (List.range net.nC) (by simp) (by simp [hc])]
  rfl

theorem rowsOf_length (x : Stock) (c n : Nat) : (rowsOf x c n).length = n := by simp [rowsOf]

theorem rowsOf_getD (x : Stock) (c n r : Nat) (hr : r < n) : (rowsOf x c n).getD r 0 = x c r := by
  simp [rowsOf, List.getD_eq_getElem?_getD, hr]

theorem applyOne_fromResult (key : Nat → Key) (hkey : KeyInj net key) (x : Stock) (c : Nat) (hc : c < net.nC) :
    applyOne net key (fromResult net key x) c
      = some (if net.kind c = .timed then (fun r => (rowsOf x c (net.nrows c)).getD r 0) else (fun r => if r = 0 then x c 0 else 0)) := by
  unfold applyOne
  rw [lookup_fromResult key hkey x c hc]
  by_cases hk : net.kind c = .timed
  · simp [hk, applyVal, rowsOf_length]
  · have : (net.kind c == CKind.timed) = false := by simpa using hk
    simp [hk, applyVal, this]

/-- **apply_fromResult.**  `Initialization.apply` of `Initialization.from_result` of a state is defined (no shape mismatch) and
    gives back that state on every row of every compartment of the net. -/
theorem apply_fromResult (hwf : wfCheck net = true) (key : Nat → Key) (hkey : KeyInj net key) (x : Stock) :
    ∃ x', applyInit net key (fromResult net key x) = some x' ∧ StockEq net x' x := by
  have hall : (List.range net.nC).all (fun c => (applyOne net key (fromResult net key x) c).isSome) = true := by
    simp only [List.all_eq_true, List.mem_range]
    intro c hc
    rw [applyOne_fromResult key hkey x c hc]; rfl
  unfold applyInit
  rw [if_pos hall]
  refine ⟨_, rfl, ?_⟩
  intro c hc r hr
  simp only [hc, if_true]
  rw [applyOne_fromResult key hkey x c hc]
  by_cases hk : net.kind c = .timed
  · simp only [hk, if_true, Option.getD_some]
    exact rowsOf_getD x c _ r hr
  · simp only [hk, if_false, Option.getD_some]
    have : net.nrows c = 1 := wf_nrows_one hwf c hc hk
    have : r = 0 := by omega
    simp [this]

/-- **row_structure_kept.**  The elapsed-time rows of a timed compartment are part of the saved state: after save + apply
    every row `r` of every timed compartment holds exactly what it held — not just the compartment total. -/
theorem row_structure_kept (hwf : wfCheck net = true) (key : Nat → Key) (hkey : KeyInj net key) (x : Stock) {x' : Stock}
    (h : applyInit net key (fromResult net key x) = some x') (c : Nat) (hc : c < net.nC) (_hk : net.kind c = .timed)
    (r : Nat) (hr : r < net.nrows c) : x' c r = x c r := by
  obtain ⟨x'', h', heq⟩ := apply_fromResult hwf key hkey x
  rw [h] at h'
  cases h'
  exact heq c hc r hr

theorem trajEq_of_optRel {a : Option (List (Stock × Flow))} {b : List (Stock × Flow)}
    (h : OptRel (TrajEq net) a (some b)) : ∃ a', a = some a' ∧ TrajEq net a' b := OptRel.of_some h

/-- **restart_from_saved.**  The full path of `ParameterSet.set_initialization(res, year=t[k])` + new run: the table saved
    from state `k` is applied without error, the new run's start-up flush moves nobody, and the new run is defined and agrees
    with the tail of the original run on every row of every compartment and every row of every link, at every index ≥ k. -/
theorem restart_from_saved (hwf : wfCheck net = true) (key : Nat → Key) (hkey : KeyInj net key)
    {pvPre : Nat → Rat} {pvs : List (Nat → Rat)} {xinit : Stock} {traj : List (Stock × Flow)}
    (h : process net dt pvPre pvs xinit = some traj) {k : Nat} {xk : Stock} {fk : Flow} (hk : traj[k]? = some (xk, fk))
    (hJ : JEmpty net xk) (pvPre' : Nat → Rat) :
    ∃ x' traj', applyInit net key (fromResult net key xk) = some x'
      ∧ process net dt pvPre' (pvs.drop k) x' = some traj' ∧ TrajEq net traj' (traj.drop k) := by
  obtain ⟨x', hx', heq⟩ := apply_fromResult hwf key hkey xk
  have hJ' : JEmpty net x' := by
    intro j hj
    have hj' := wf_jorder hwf j hj
    rw [heq j hj'.1 0 (wf_nrows_pos hwf j hj'.1)]
    exact hJ j hj
  have h1 := restart_continues h hk hJ pvPre'
  unfold process at h1
  rw [flush_noop_of_empty pvPre' xk net.jorder hJ] at h1
  simp only [Option.bind_some] at h1
  have hc := runFrom_congr hwf dt (pvs.drop k) x' xk heq
  rw [h1] at hc
  obtain ⟨traj', ht, hte⟩ := trajEq_of_optRel hc
  refine ⟨x', traj', hx', ?_, hte⟩
  unfold process
  rw [flush_noop_of_empty pvPre' x' net.jorder hJ']
  simpa using ht

/-! #### the rows are necessary: keeping only compartment sizes changes the continuation -/

/-- a timed compartment with two rows flushing into a sink -/
def exNet : Net where
  nC := 2
  nL := 1
  nP := 0
  kind := fun c => if c = 0 then .timed else .sink
  nrows := fun c => if c = 0 then 2 else 1
  src := fun _ => 0
  dst := fun _ => 1
  par := fun _ => none
  tlink := fun _ => false
  lrows := fun _ => 2
  isFlush := fun _ => true
  jgroup := fun _ => false
  units := fun _ => .frac
  tscale := fun _ => 1
  jorder := []

def exState : Stock := fun c r => if c = 0 then (if r = 0 then 3 else if r = 1 then 1 else 0) else 0

example : wfCheck exNet = true := by decide +kernel

/-- same compartment sizes, different rows ⇒ a different next flow (3 people leave instead of 2):
    a restart that kept only sizes (spreading a timed compartment uniformly, as the `[0]` setter does) would not continue
    the trajectory -/
theorem totals_not_enough :
    stockTotal exNet (applyTotals exNet exState) 0 = stockTotal exNet exState 0
    ∧ (step exNet 1 (fun _ => 0) exState).map (fun p => p.1 0 0)
        ≠ (step exNet 1 (fun _ => 0) (applyTotals exNet exState)).map (fun p => p.1 0 0) := by
  decide +kernel

/-! ### 9. for a well-formed net the junction hypothesis is a theorem -/

/-- the post-flush start state of `process` has empty junctions (C04's conclusion, proved here from `wfCheck`: the junction
    order is duplicate-free and topological) -/
theorem process_start_jempty (hwf : wfCheck net = true) {pvPre : Nat → Rat} {xinit x0 : Stock}
    (hfl : flushAll net pvPre xinit net.jorder = some x0) : JEmpty net x0 :=
  flushAll_jorder_empty hwf pvPre xinit x0 hfl

theorem process_all_jempty (hwf : wfCheck net = true) {pvPre : Nat → Rat} {pvs : List (Nat → Rat)} {xinit : Stock}
    {traj : List (Stock × Flow)} (h : process net dt pvPre pvs xinit = some traj) : AllJEmpty net traj := by
  unfold process at h
  cases hf : flushAll net pvPre xinit net.jorder with
  | none => simp [hf] at h
  | some x0 =>
      simp only [hf, Option.bind_some] at h
      intro e he
      obtain ⟨i, hi⟩ := List.mem_iff_getElem?.mp he
      exact runFrom_jempty hwf h (process_start_jempty hwf hf) (xk := e.1) (fk := e.2) (by simpa using hi)

/-- **restart_continues_wf.**  For every well-formed net, every initial state, every parameter stream and *every* index `k` of
    the run: restarting from the saved state `k` with the tail of the stream gives exactly the tail of the trajectory. -/
theorem restart_continues_wf (hwf : wfCheck net = true) {pvPre : Nat → Rat} {pvs : List (Nat → Rat)} {xinit : Stock}
    {traj : List (Stock × Flow)} (h : process net dt pvPre pvs xinit = some traj) {k : Nat} {xk : Stock} {fk : Flow}
    (hk : traj[k]? = some (xk, fk)) (pvPre' : Nat → Rat) :
    process net dt pvPre' (pvs.drop k) xk = some (traj.drop k) :=
  restart_continues h hk (process_all_jempty hwf h (xk, fk) (List.mem_of_getElem? hk)) pvPre'

/-- the saved-table form, without the junction hypothesis -/
theorem restart_from_saved_wf (hwf : wfCheck net = true) (key : Nat → Key) (hkey : KeyInj net key)
    {pvPre : Nat → Rat} {pvs : List (Nat → Rat)} {xinit : Stock} {traj : List (Stock × Flow)}
    (h : process net dt pvPre pvs xinit = some traj) {k : Nat} {xk : Stock} {fk : Flow} (hk : traj[k]? = some (xk, fk))
    (pvPre' : Nat → Rat) :
    ∃ x' traj', applyInit net key (fromResult net key xk) = some x'
      ∧ process net dt pvPre' (pvs.drop k) x' = some traj' ∧ TrajEq net traj' (traj.drop k) :=
  restart_from_saved hwf key hkey h hk (process_all_jempty hwf h (xk, fk) (List.mem_of_getElem? hk)) pvPre'

/-- chains of restarts, without the junction hypothesis -/
theorem restart_chain_wf (hwf : wfCheck net = true) (pre : Nat → Rat) (ks : List Nat) {pvPre : Nat → Rat} {pvs : List (Nat → Rat)}
    {xinit : Stock} {traj : List (Stock × Flow)} (h : process net dt pvPre pvs xinit = some traj) (hlen : ks.sum < traj.length) :
    chainFrom net dt pre ks pvs traj = some (traj.drop ks.sum) :=
  restart_chain pre ks pvPre pvs xinit traj h (process_all_jempty hwf h) hlen

/-- non-vacuity: the two-row example net runs for three indices and can be restarted in the middle -/
example : ∃ traj, process exNet 1 (fun _ => 0) [fun _ => 0, fun _ => 0, fun _ => 0] exState = some traj ∧ traj.length = 3 := by
  refine ⟨_, rfl, ?_⟩
  rfl

/-! ### 10. closed loop + saved table -/

/-- the parameter pipeline reads the state only inside the net (compartment sizes, characteristics: sums over rows that exist) -/
def EvRespects (net : Net) (ev : Nat → Stock → Nat → Rat) : Prop := ∀ t x y, StockEq net x y → ev t x = ev t y

theorem runEv_congr (hwf : wfCheck net = true) {ev : Nat → Stock → Nat → Rat} (hev : EvRespects net ev) :
    ∀ (n t : Nat) (x y : Stock), StockEq net x y → OptRel (TrajEq net) (runEv net dt ev n t x) (runEv net dt ev n t y)
  | 0, t, x, y, _ => by simp [runEv, OptRel, TrajEq]
  | n + 1, t, x, y, hx => by
      have hs := step_congr hwf hx dt (ev t x)
      unfold runEv
      rw [← hev t x y hx]
      cases h1 : step net dt (ev t x) x <;> cases h2 : step net dt (ev t x) y <;> simp only [h1, h2, OptRel] at hs
      · simp [OptRel]
      · rename_i a b
        obtain ⟨fa, xa⟩ := a
        obtain ⟨fb, xb⟩ := b
        have hr := runEv_congr hwf hev n (t + 1) xa xb hs.2
        simp only
        cases h3 : runEv net dt ev n (t + 1) xa <;> cases h4 : runEv net dt ev n (t + 1) xb <;> simp only [h3, h4, OptRel] at hr
        · simp [OptRel]
        · simp only [OptRel, TrajEq]
          exact ⟨⟨hx, hs.1⟩, hr⟩

/-- **restart_closed_loop_saved.**  The whole property at once, for a model without derivative parameters: parameters are
    computed by `ev` from the absolute time index and the state (inside the net); the state of index `k` is saved as a table,
    applied to a new run that starts at absolute index `t + k`; the new run is defined and agrees with the tail of the original
    on every stock row and every flow — hence also on every parameter value `ev (t+k+i) ·`. -/
theorem restart_closed_loop_saved (hwf : wfCheck net = true) (key : Nat → Key) (hkey : KeyInj net key)
    {ev : Nat → Stock → Nat → Rat} (hev : EvRespects net ev) {n t : Nat} {xinit : Stock} {traj : List (Stock × Flow)}
    (h : processEv net dt ev n t xinit = some traj) {k : Nat} {xk : Stock} {fk : Flow} (hk : traj[k]? = some (xk, fk))
    (hJ : JEmpty net xk) :
    ∃ x' traj', applyInit net key (fromResult net key xk) = some x'
      ∧ processEv net dt ev (n - k) (t + k) x' = some traj' ∧ TrajEq net traj' (traj.drop k) := by
  obtain ⟨x', hx', heq⟩ := apply_fromResult hwf key hkey xk
  have hJ' : JEmpty net x' := by
    intro j hj
    have hj' := wf_jorder hwf j hj
    rw [heq j hj'.1 0 (wf_nrows_pos hwf j hj'.1)]
    exact hJ j hj
  have h1 := restart_closed_loop h hk hJ
  unfold processEv at h1
  rw [flush_noop_of_empty _ xk net.jorder hJ] at h1
  simp only [Option.bind_some] at h1
  have hc := runEv_congr (dt := dt) hwf hev (n - k) (t + k) x' xk heq
  rw [h1] at hc
  obtain ⟨traj', ht, hte⟩ := trajEq_of_optRel hc
  refine ⟨x', traj', hx', ?_, hte⟩
  unfold processEv
  rw [flush_noop_of_empty _ x' net.jorder hJ']
  simpa using ht

/-! #### the code's start-up today (source sizes cached before the flush) does not have the restart property -/

/-- junction 0 (40 people at initialisation) → compartment 1 (empty) → compartment 2, the last link driven by a number-unit
    parameter 1 whose value a programme sets to "a tenth of the source per step" -/
def d14Net : Net where
  nC := 3
  nL := 2
  nP := 2
  kind := fun c => if c = 0 then .junction else .normal
  nrows := fun _ => 1
  src := fun l => if l = 0 then 0 else 1
  dst := fun l => if l = 0 then 1 else 2
  par := fun l => some l
  tlink := fun _ => false
  lrows := fun _ => 1
  isFlush := fun _ => false
  jgroup := fun _ => false
  units := fun p => if p = 0 then .prop else .num
  tscale := fun _ => 1
  jorder := [0]

def d14Init : Stock := fun c r => if r = 0 then (if c = 0 then 40 else if c = 1 then 0 else 50) else 0

/-- proportion 1 out of the junction; number parameter = outcome (1/10 per person reached per step) × cached source size / dt -/
def d14Ev (t : Nat) (xc x : Stock) (p : Nat) : Rat :=
  let _ := t; let _ := x
  if p = 0 then 1 else (1 / 10) * stockTotal d14Net xc 1 / (1 / 4)

example : wfCheck d14Net = true := by decide +kernel

/-- what is observed of a trajectory: the size of compartment 1 and the flow out of it -/
def d14Obs (tr : Option (List (Stock × Flow))) : Option (List (Rat × Rat)) := tr.map (fun l => l.map (fun e => (e.1 1 0, e.2 1 0)))

/-- **stale_cache_breaks_restart.**  With the cache filled before the flush, the original run moves nobody out of compartment 1
    at index 0 (the programme saw an empty source), the run restarted from the saved state of index 0 moves 4 people: the
    code's start-up as it is today does not satisfy `restart_closed_loop`; the specification-shaped `processEv` does. -/
theorem stale_cache_breaks_restart :
    d14Obs (processEvCurrent d14Net (1 / 4) d14Ev 2 0 d14Init) = some [(40, 0), (40, 4)]
    ∧ d14Obs (processEv d14Net (1 / 4) (fun t x => d14Ev t x x) 2 0 d14Init) = some [(40, 4), (36, 18 / 5)]
    ∧ d14Obs (processEvCurrent d14Net (1 / 4) d14Ev 2 0 (fun c r => if r = 0 then (if c = 0 then 0 else if c = 1 then 40 else 50) else 0))
        = some [(40, 4), (36, 18 / 5)] := by
  decide +kernel

/-! ### 8. the spreadsheet layout -/

theorem filterMap_replicate_blank (k : Nat) : (List.replicate k Cell.blank).filterMap numOf = [] := by
  induction k with
  | zero => rfl
  | succ k _ => simp [List.replicate_succ, numOf]

theorem filterMap_pad (n : Nat) (vs : List Rat) : (pad n vs).filterMap numOf = vs := by
  unfold pad
  rw [List.filterMap_append, filterMap_replicate_blank, List.append_nil, List.filterMap_map]
  have : (numOf ∘ Cell.num) = some := by funext q; rfl
  rw [this, List.filterMap_some]

theorem parseKey_keyCell (k : KeyPart) : parseKey (keyCell k) = some k := by
  cases k <;> rfl

theorem mkVal_valList (v : Val) : mkVal (valList v) = normVal v := by
  cases v with
  | scalar v => rfl
  | vec vs =>
      match vs with
      | [] => rfl
      | [_] => rfl
      | _ :: _ :: _ => rfl

theorem parseRow_valueRow (n : Nat) (e : Key × Val) : parseRow (valueRow n e) = some (e.1, normVal e.2) := by
  unfold valueRow parseRow
  simp only [parseKey_keyCell, filterMap_pad, mkVal_valList]
  rfl

theorem mapM_parseRow (n : Nat) : ∀ (l : Init), (l.map (valueRow n)).mapM parseRow = some (normInit l)
  | [] => rfl
  | e :: l => by
      simp only [List.map_cons, List.mapM_cons, parseRow_valueRow, mapM_parseRow n l]
      rfl

theorem splitBlocks_nonblank : ∀ (B : List Row), (∀ r, r ∈ B → isBlankRow r = false) → B ≠ [] → splitBlocks B = [B]
  | [], _, h => absurd rfl h
  | [r], hB, _ => by simp [splitBlocks, hB r (by simp)]
  | r :: r' :: rs, hB, _ => by
      have ih := splitBlocks_nonblank (r' :: rs) (fun q hq => hB q (by simp [hq])) (by simp)
      rw [splitBlocks]
      simp only [hB r (by simp), hB r' (by simp), ih]
      simp

theorem splitBlocks_blank (b : Row) (hb : isBlankRow b = true) (rest : List Row) : splitBlocks (b :: rest) = splitBlocks rest := by
  simp [splitBlocks, hb]

theorem splitBlocks_append : ∀ (A : List Row), (∀ r, r ∈ A → isBlankRow r = false) → A ≠ [] → ∀ (b : Row), isBlankRow b = true →
    ∀ (rest : List Row), splitBlocks (A ++ b :: rest) = A :: splitBlocks rest
  | [], _, h, _, _, _ => absurd rfl h
  | [r], hA, _, b, hb, rest => by
      show splitBlocks (r :: b :: rest) = _
      rw [splitBlocks]
      simp only [hA r (by simp), hb]
      simp [splitBlocks_blank b hb rest]
  | r :: r' :: rs, hA, _, b, hb, rest => by
      have ih := splitBlocks_append (r' :: rs) (fun q hq => hA q (by simp [hq])) (by simp) b hb rest
      show splitBlocks (r :: r' :: (rs ++ b :: rest)) = _
      rw [splitBlocks]
      have ih' : splitBlocks (r' :: (rs ++ b :: rest)) = (r' :: rs) :: splitBlocks rest := ih
      simp only [hA r (by simp), hA r' (by simp), ih']
      simp

theorem parseMeta_metaRows (m : Meta) : parseMeta (metaRows m) = some m := by
  obtain ⟨y, hsh, d⟩ := m
  cases y <;> cases hsh <;> cases d <;> simp [parseMeta, metaRows, numOf, optNum, optHash]

theorem metaRows_nonblank (m : Meta) : ∀ r, r ∈ metaRows m → isBlankRow r = false := by
  intro r hr
  simp only [metaRows, List.mem_cons, List.mem_nil_iff, or_false] at hr
  rcases hr with rfl | rfl | rfl <;> simp [isBlankRow]

theorem valueRow_nonblank (n : Nat) (e : Key × Val) (h : e.1.1.isSome = true) : isBlankRow (valueRow n e) = false := by
  obtain ⟨⟨k1, k2⟩, v⟩ := e
  cases k1 with
  | none => simp at h
  | some a => simp [valueRow, isBlankRow, keyCell]

/-- **table_roundtrip.**  Reading back the sheet `to_excel` is meant to write returns the metadata and every entry under its
    own key; the only change is that a one-element row vector comes back as a scalar (`normInit`).  Values are exact here —
    the 16 significant digits of the xlsx number format are checked on the implementation. -/
theorem table_roundtrip (m : Meta) (init : Init) (hne : init ≠ []) (hkeys : ∀ e, e ∈ init → e.1.1.isSome = true) :
    fromTable (toTable m init) = some (m, normInit init) := by
  have hvne : valueRows init ≠ [] := by
    unfold valueRows; simpa using hne
  have hvnb : ∀ r, r ∈ valueRows init → isBlankRow r = false := by
    intro r hr
    unfold valueRows at hr
    obtain ⟨e, he, rfl⟩ := List.mem_map.mp hr
    exact valueRow_nonblank _ e (hkeys e he)
  have hsplit : splitBlocks (toTable m init) = [metaRows m, valueRows init] := by
    unfold toTable
    rw [splitBlocks_append (metaRows m) (metaRows_nonblank m) (by simp [metaRows]) [] (by simp [isBlankRow]) (valueRows init),
      splitBlocks_nonblank (valueRows init) hvnb hvne]
  unfold fromTable
  rw [hsplit]
  simp only [parseMeta_metaRows, valueRows, mapM_parseRow]
  rfl

theorem applyVal_normVal (t : Bool) (n : Nat) (v : Val) : applyVal t n (some (normVal v)) = applyVal t n (some v) := by
  cases v with
  | scalar v => rfl
  | vec vs =>
      match vs with
      | [] => rfl
      | _ :: _ :: _ => rfl
      | [v] =>
          cases t
          · simp [normVal, applyVal]
          · by_cases hn : n = 1
            · subst hn
              simp only [normVal, applyVal, List.length_singleton, if_true]
              congr 1; funext r
              cases r with
              | zero => simp
              | succ r => simp
            · have : ¬ (1 = n) := fun e => hn e.symm
              simp [normVal, applyVal, this]

theorem lookup_normInit (k : Key) : ∀ (init : Init), lookup (normInit init) k = (lookup init k).map normVal
  | [] => rfl
  | e :: l => by
      have ih := lookup_normInit k l
      unfold lookup normInit at *
      simp only [List.map_cons, List.find?_cons]
      cases h : (e.1 == k)
      · simpa [h] using ih
      · simp

/-- the scalar/vector change of a spreadsheet round trip is invisible to `Initialization.apply` (numpy broadcasting) -/
theorem apply_normInit (key : Nat → Key) (init : Init) : applyInit net key (normInit init) = applyInit net key init := by
  have h1 : ∀ c, applyOne net key (normInit init) c = applyOne net key init c := by
    intro c
    unfold applyOne
    rw [lookup_normInit]
    cases lookup init (key c) with
    | none => rfl
    | some v => exact applyVal_normVal _ _ v
  unfold applyInit
  simp only [h1]

/-- **saved_table_roundtrip.**  Writing the table saved from a state to the spreadsheet layout and reading it back yields a
    table that `apply` turns into the same initial stock. -/
theorem saved_table_roundtrip (m : Meta) (key : Nat → Key) (x : Stock) (hn : 0 < net.nC)
    (hkeys : ∀ c, c < net.nC → (key c).1.isSome = true) :
    ∃ init', fromTable (toTable m (fromResult net key x)) = some (m, init')
      ∧ applyInit net key init' = applyInit net key (fromResult net key x) := by
  refine ⟨normInit (fromResult net key x), table_roundtrip m _ ?_ ?_, apply_normInit key _⟩
  · unfold fromResult
    intro h
    have := congrArg List.length h
    simp at this; omega
  · intro e he
    unfold fromResult at he
    obtain ⟨c, hc, rfl⟩ := List.mem_map.mp he
    exact hkeys c (List.mem_range.mp hc)

/-! #### what pandas writes today (`merge_cells=True`) loses the key of a repeated compartment name -/

def exMeta : Meta := { year := some 2001, hash := none, dt := some (1 / 4) }
/-- one compartment `0` in two populations `0`, `1` -/
def exInit : Init := [((some 0, some 0), .scalar 5), ((some 0, some 1), .scalar 7)]

example : fromTable (toTable exMeta exInit) = some (exMeta, exInit) := by decide +kernel

/-- with merged index cells the second entry comes back under the key `(NaN, 1)`, so `apply` finds nothing for compartment 0 of
    population 1 and initialises it to 0 -/
theorem merged_cells_lose_key :
    fromTable (toTableCurrent exMeta exInit) = some (exMeta, [((some 0, some 0), .scalar 5), ((none, some 1), .scalar 7)])
    ∧ lookup [((some 0, some 0), Val.scalar 5), ((none, some 1), Val.scalar 7)] (some 0, some 1) = none := by
  decide +kernel

end Atomica.C10
