/-
  C04 — "Junctions are always empty and split their inflow by the stated proportions".

  Theorems about `Atomica.Engine` (`balanceOne`, `balanceAll`, `updateComps`, `step`, `flushOne`, `flushAll`), the model that
  `harness/vlib/engine_corr.py` compares every step of the real `atomica.model.Model` against.

  Hypotheses used:
    * `wfCheck net = true`   — evaluated by the driver on every extracted net; gives (via `wf_of_check`) that `jorder` lists every
                               junction exactly once in a topological order of the junction sub-graph (`topoCheck_sound`).
    * `resCheck net = true`  — "every residual junction has exactly one parameter-less out-link" (`Engine.resCheck`, evaluated by the
                               driver; NOT implied by `wfCheck`: `wfCheck_not_passthrough` below is a kernel-checked
                               counterexample).  Only needed where a residual junction with `Σp < 1` must conserve people.
    * `wfGroupRows net = true` and `RowsOk net fl0` (the flow before balancing vanishes beyond the rows of each link; proved for
                               `resolveFlow`: `resolveFlow_rowsOk`) — only needed for the branch "plain junction, `Σp = 0`,
                               nothing flows in" (`not np.any(net_inflow)` looks at the rows that exist).
    * `pTot ≠ 0` for plain junctions — hypothesis of the split rule `balance_plain` (with `Σp = 0` the step is defined only if
                               nothing flows in, and then nothing flows out: `balance_plain_zero`, `balanceOne_fails_iff`), and
                               of the flush (the code divides by Σp: `flush_fails_of_zero`).
    * non-negative proportions / initial junction content — domain restriction of the flush (`flush_empties`): `initial_flush`
                               only acts `if self.vals[0] > 0`.
  All statements are for every net, every size, every parameter stream.  Flows of junction out-links are stated in the FINAL flow
  of the step (after all junctions were balanced), so they hold for chains, fans and diamonds of any depth.
-/
import AtomicaProofs.Lemmas.Junctions
import AtomicaProofs.Lemmas.JunctionFlush
import Mathlib.Tactic.NormNum

namespace Atomica.C04
open Atomica Atomica.Engine

variable {net : Net}

/-! ## junctions are never written by the update: always empty -/

/-- `JunctionCompartment.update` does nothing: `updateComps` never writes a junction -/
theorem junction_unchanged (x : Stock) (fl : Flow) {j : Nat} (hj : isJunction net j = true) (r : Nat) :
    updateComps net x fl j r = x j r := by
  unfold isJunction at hj
  unfold updateComps
  cases hk : net.kind j <;> simp_all

theorem step_eq {dt : Rat} {pv : Nat → Rat} {x x' : Stock} {fl : Flow} (h : step net dt pv x = some (fl, x')) :
    balanceAll net pv (resolveFlow net (convert net dt pv x) x) net.jorder = some fl ∧ x' = updateComps net x fl := by
  simp only [step, flows, Option.map_eq_some_iff, Prod.mk.injEq] at h
  obtain ⟨a, ha, rfl, rfl⟩ := h
  exact ⟨ha, rfl⟩

theorem step_junction_unchanged {dt : Rat} {pv : Nat → Rat} {x x' : Stock} {fl : Flow}
    (h : step net dt pv x = some (fl, x')) {j : Nat} (hj : isJunction net j = true) (r : Nat) : x' j r = x j r := by
  rw [(step_eq h).2]; exact junction_unchanged x fl hj r

/-- the state after stepping through the list of per-step parameter values (`none` when a step fails) -/
def run (net : Net) (dt : Rat) : List (Nat → Rat) → Stock → Option Stock
  | [], x => some x
  | pv :: pvs, x => (step net dt pv x).bind (fun s => run net dt pvs s.2)

theorem run_junction_unchanged {dt : Rat} : ∀ (pvs : List (Nat → Rat)) {x x' : Stock}, run net dt pvs x = some x' →
    ∀ {j : Nat}, isJunction net j = true → ∀ r, x' j r = x j r := by
  intro pvs
  induction pvs with
  | nil => intro x x' h j _ r; simp only [run] at h; cases h; rfl
  | cons pv pvs ih =>
    intro x x' h j hj r
    simp only [run, Option.bind_eq_some_iff] at h
    obtain ⟨⟨fl, x1⟩, h1, h2⟩ := h
    rw [ih h2 hj r]; exact step_junction_unchanged h1 hj r

/-! ## the topological order -/

/-- `wfCheck` makes `jorder` a duplicate-free list of exactly the junctions in which no junction→junction link points backwards -/
theorem topoCheck_sound (hwf : wfCheck net = true) :
    net.jorder.Nodup ∧ (∀ j, j ∈ net.jorder ↔ (j < net.nC ∧ isJunction net j = true)) ∧ NoBack net net.jorder := by
  have w := wf_of_check net hwf
  exact ⟨w.nodup, fun j => ⟨fun h => ⟨w.jorder_lt j h, w.jorder_junction j h⟩, fun h => w.mem_jorder h.1 h.2⟩, w.noBack⟩

/-- each junction is balanced exactly once, on an inflow that is already final, and its out-links are final afterwards -/
theorem balance_final (hwf : wfCheck net = true) {pv : Nat → Rat} {fl0 fl : Flow}
    (h : balanceAll net pv fl0 net.jorder = some fl) {j : Nat} (hj : j < net.nC) (hjn : isJunction net j = true) :
    ∃ fb fa, balanceOne net pv fb j = some fa ∧ (∀ l, net.src l = j → ∀ r, fl l r = fa l r)
      ∧ (∀ r, jInflow net fl j r = jInflow net fb j r) := by
  have w := wf_of_check net hwf
  obtain ⟨fb, fa, _, h1, h2, h3⟩ := balanceAll_at net pv (fun _ => True) net.jorder fl0 fl w.nodup w.noBack
    (fun _ _ _ _ _ _ => trivial) trivial h j (w.mem_jorder hj hjn)
  exact ⟨fb, fa, h1, h2, h3⟩

/-! ## the split rule -/

/-- inflow of a duration-group junction is taken row by row -/
theorem jInflow_group {fl : Flow} {j : Nat} (hg : net.jgroup j = true) (r : Nat) :
    jInflow net fl j r = sumTo net.nL (fun l => if net.dst l = j then fl l r else 0) := by
  simp [jInflow, hg]

/-- inflow of an ordinary junction is the total of the recorded values of its in-links (kept in row 0) -/
theorem jInflow_nogroup {fl : Flow} {j : Nat} (hg : net.jgroup j = false) (r : Nat) :
    jInflow net fl j r = if r = 0 then sumTo net.nL (fun l => if net.dst l = j then recorded net fl l else 0) else 0 := by
  simp [jInflow, hg]

/-- **Plain junction**: with `Σp ≠ 0` every out-link carries `inflow · p_l / Σp` (row by row for a duration-group junction),
    with the inflow evaluated in the final flow. -/
theorem balance_plain (hwf : wfCheck net = true) {pv : Nat → Rat} {fl0 fl : Flow}
    (h : balanceAll net pv fl0 net.jorder = some fl) {j : Nat} (hj : j < net.nC) (hk : net.kind j = .junction)
    (hp : pTot net pv j ≠ 0) :
    ∀ l, net.src l = j → ∀ r, fl l r = jInflow net fl j r * pOf net pv l / pTot net pv j := by
  obtain ⟨fb, fa, h1, hout, hin⟩ := balance_final hwf h hj (by simp [isJunction, hk])
  have hv := balanceOne_plain net hk h1 hp
  exact fun l hl r => by rw [hout l hl r, hv l hl r, hin r]

/-- … hence `Σ out = inflow` -/
theorem balance_plain_sum (hwf : wfCheck net = true) {pv : Nat → Rat} {fl0 fl : Flow}
    (h : balanceAll net pv fl0 net.jorder = some fl) {j : Nat} (hj : j < net.nC) (hk : net.kind j = .junction)
    (hp : pTot net pv j ≠ 0) (r : Nat) :
    outRow net fl j r = jInflow net fl j r := by
  have hjn : isJunction net j = true := by simp [isJunction, hk]
  obtain ⟨fb, fa, h1, hout, hin⟩ := balance_final hwf h hj hjn
  rw [hin r, outRow_congr (fun l _ hs => hout l hs r)]
  exact balanceOne_out net (fun hk' => by rw [hk] at hk'; cases hk') (fun _ hz => absurd hz hp) hjn h1 r

/-- **Plain junction, all proportions zero** (`Σp = 0`): the step is defined only when nothing flows into the junction
    (in the rows that exist), and then nothing flows out. -/
theorem balance_plain_zero (hwf : wfCheck net = true) {pv : Nat → Rat} {fl0 fl : Flow}
    (h : balanceAll net pv fl0 net.jorder = some fl) {j : Nat} (hj : j < net.nC) (hk : net.kind j = .junction)
    (hp : pTot net pv j = 0) :
    (∀ r, r < jRows net j → jInflow net fl j r = 0) ∧ ∀ l, net.src l = j → ∀ r, fl l r = 0 := by
  obtain ⟨fb, fa, h1, hout, hin⟩ := balance_final hwf h hj (by simp [isJunction, hk])
  obtain ⟨hz, hv⟩ := balanceOne_plain_zero net hk h1 hp
  refine ⟨fun r hr => ?_, fun l hl r => by rw [hout l hl r, hv l hl r]⟩
  rw [hin r]
  have := List.all_eq_true.mp hz r (List.mem_range.mpr hr)
  simpa using this

/-- value of every out-link of a residual junction in the final flow -/
theorem balance_residual (hwf : wfCheck net = true) {pv : Nat → Rat} {fl0 fl : Flow}
    (h : balanceAll net pv fl0 net.jorder = some fl) {j : Nat} (hj : j < net.nC) (hk : net.kind j = .resjunction) :
    ∀ l, net.src l = j → ∀ r, fl l r =
      if net.par l = none ∧ pTot net pv j < 1 then
        jInflow net fl j r - sumTo net.nL (fun l' => if net.src l' = j then jInflow net fl j r * resFrac net pv j l' else 0)
      else jInflow net fl j r * resFrac net pv j l := by
  obtain ⟨fb, fa, h1, hout, hin⟩ := balance_final hwf h hj (by simp [isJunction, hk])
  intro l hl r
  rw [hout l hl r, balanceOne_res net hk h1 l hl r, hin r]

theorem balance_residual_sum (hwf : wfCheck net = true) {pv : Nat → Rat} {fl0 fl : Flow}
    (h : balanceAll net pv fl0 net.jorder = some fl) {j : Nat} (hj : j < net.nC) (hk : net.kind j = .resjunction)
    (hres : pTot net pv j < 1 → ResUniqueAt net j) (r : Nat) :
    outRow net fl j r = jInflow net fl j r := by
  have hjn : isJunction net j = true := by simp [isJunction, hk]
  obtain ⟨fb, fa, h1, hout, hin⟩ := balance_final hwf h hj hjn
  rw [hin r, outRow_congr (fun l _ hs => hout l hs r)]
  exact balanceOne_out net (fun _ hlt => hres hlt) (fun hk' => by rw [hk] at hk'; cases hk') hjn h1 r

/-- **Residual junction, Σp < 1**: parameter links carry `inflow · p_l`, the residual link the remainder
    `inflow − inflow·Σp`; with a single residual link `Σ out = inflow`. -/
theorem balance_residual_lt (hwf : wfCheck net = true) (hres : resCheck net = true) {pv : Nat → Rat} {fl0 fl : Flow}
    (h : balanceAll net pv fl0 net.jorder = some fl) {j : Nat} (hj : j < net.nC) (hk : net.kind j = .resjunction)
    (hlt : pTot net pv j < 1) :
    (∀ l, net.src l = j → net.par l ≠ none → ∀ r, fl l r = jInflow net fl j r * pOf net pv l) ∧
    (∀ l, net.src l = j → net.par l = none → ∀ r, fl l r = jInflow net fl j r - jInflow net fl j r * pTot net pv j) ∧
    (∀ r, outRow net fl j r = jInflow net fl j r) := by
  have hv := balance_residual hwf h hj hk
  have hgt : ¬ pTot net pv j > 1 := by intro hh; linarith
  refine ⟨?_, ?_, ?_⟩
  · intro l hl hp r
    rw [hv l hl r]; simp [hp, resFrac, hgt]
  · intro l hl hp r
    rw [hv l hl r, res_sum_le net _ hgt]; simp [hp, hlt]
  · exact balance_residual_sum hwf h hj hk (fun _ => resCheck_sound net hres j hj hk)

/-- **Residual junction, Σp = 1**: every link carries `inflow · p_l`, the residual link nothing, `Σ out = inflow`. -/
theorem balance_residual_eq (hwf : wfCheck net = true) {pv : Nat → Rat} {fl0 fl : Flow}
    (h : balanceAll net pv fl0 net.jorder = some fl) {j : Nat} (hj : j < net.nC) (hk : net.kind j = .resjunction)
    (heq : pTot net pv j = 1) :
    (∀ l, net.src l = j → ∀ r, fl l r = jInflow net fl j r * pOf net pv l) ∧
    (∀ l, net.src l = j → net.par l = none → ∀ r, fl l r = 0) ∧
    (∀ r, outRow net fl j r = jInflow net fl j r) := by
  have hv := balance_residual hwf h hj hk
  have hgt : ¬ pTot net pv j > 1 := by rw [heq]; norm_num
  have hlt : ¬ pTot net pv j < 1 := by rw [heq]; norm_num
  have h1 : ∀ l, net.src l = j → ∀ r, fl l r = jInflow net fl j r * pOf net pv l := by
    intro l hl r
    rw [hv l hl r]; simp [hlt, resFrac, hgt]
  refine ⟨h1, ?_, ?_⟩
  · intro l hl hp r
    rw [h1 l hl r, pOf_none net hp, mul_zero]
  · exact balance_residual_sum hwf h hj hk (fun hh => absurd hh hlt)

/-- **Residual junction, Σp > 1**: proportions are scaled to sum to 1 (`inflow · p_l / Σp`), the residual link gets nothing,
    `Σ out = inflow`. -/
theorem balance_residual_gt (hwf : wfCheck net = true) {pv : Nat → Rat} {fl0 fl : Flow}
    (h : balanceAll net pv fl0 net.jorder = some fl) {j : Nat} (hj : j < net.nC) (hk : net.kind j = .resjunction)
    (hgt : pTot net pv j > 1) :
    (∀ l, net.src l = j → ∀ r, fl l r = jInflow net fl j r * pOf net pv l / pTot net pv j) ∧
    (∀ l, net.src l = j → net.par l = none → ∀ r, fl l r = 0) ∧
    (∀ r, outRow net fl j r = jInflow net fl j r) := by
  have hv := balance_residual hwf h hj hk
  have hlt : ¬ pTot net pv j < 1 := by intro hh; linarith
  have h1 : ∀ l, net.src l = j → ∀ r, fl l r = jInflow net fl j r * pOf net pv l / pTot net pv j := by
    intro l hl r
    rw [hv l hl r]; simp only [hlt, and_false, if_false, resFrac, hgt, if_true]; ring
  refine ⟨h1, ?_, ?_⟩
  · intro l hl hp r
    rw [h1 l hl r, pOf_none net hp, mul_zero, zero_div]
  · exact balance_residual_sum hwf h hj hk (fun hh => absurd hh hlt)

/-- **Zero proportions**: a parameter-driven out-link of a junction whose proportion is 0 carries nothing, whatever the other
    proportions are (some, not all, zero: the others share the inflow by `balance_plain`; all zero: `balance_plain_zero`). -/
theorem balance_zero_some (hwf : wfCheck net = true) {pv : Nat → Rat} {fl0 fl : Flow}
    (h : balanceAll net pv fl0 net.jorder = some fl) {j : Nat} (hj : j < net.nC) (hjn : isJunction net j = true)
    {l : Nat} (hl : net.src l = j) (hpar : net.par l ≠ none) (hz : pOf net pv l = 0) (r : Nat) : fl l r = 0 := by
  unfold isJunction at hjn
  cases hk : net.kind j <;> simp only [hk] at hjn <;> try exact absurd hjn (by decide)
  · by_cases hp : pTot net pv j = 0
    · exact (balance_plain_zero hwf h hj hk hp).2 l hl r
    · rw [balance_plain hwf h hj hk hp l hl r, hz, mul_zero, zero_div]
  · rw [balance_residual hwf h hj hk l hl r]
    simp [hpar, resFrac, hz]

/-- balancing one junction only writes that junction's out-links -/
theorem balanceOne_writes_own_links {pv : Nat → Rat} {fl fl' : Flow} {j : Nat} (h : balanceOne net pv fl j = some fl')
    {l : Nat} (hl : net.src l ≠ j) (r : Nat) : fl' l r = fl l r :=
  balanceOne_frame net h hl r

/-! ## balancing along `jorder` -/

/-- **Pass-through of all junctions simultaneously** (chains, fans, diamonds of any depth).  After `balanceAll` along a
    well-formed `jorder`, for EVERY junction and every row what leaves the junction equals what enters it, both evaluated
    in the FINAL flow.  (`hgr`, `hrows` are only used for a plain junction with `Σp = 0` into which nothing flows.) -/
theorem balanceAll_passthrough (hwf : wfCheck net = true) (hgr : wfGroupRows net = true) (hres : resCheck net = true)
    {pv : Nat → Rat} {fl0 fl : Flow} (hrows : RowsOk net fl0)
    (h : balanceAll net pv fl0 net.jorder = some fl) :
    ∀ j, j < net.nC → isJunction net j = true → ∀ r, outRow net fl j r = jInflow net fl j r := by
  have w := wf_of_check net hwf
  intro j hj hjn r
  exact balanceAll_passthrough_list net w (wfGroupRows_sound net hgr) (resCheck_sound net hres) pv net.jorder fl0 fl w.nodup
    (fun j hj => ⟨w.jorder_lt j hj, w.jorder_junction j hj⟩) w.noBack hrows h j (w.mem_jorder hj hjn) r

/-- the same without the row hypotheses when every plain junction has `Σp ≠ 0` -/
theorem balanceAll_passthrough_of_pTot (hwf : wfCheck net = true) (hres : resCheck net = true)
    {pv : Nat → Rat} {fl0 fl : Flow} (hp : ∀ j, j < net.nC → net.kind j = .junction → pTot net pv j ≠ 0)
    (h : balanceAll net pv fl0 net.jorder = some fl) :
    ∀ j, j < net.nC → isJunction net j = true → ∀ r, outRow net fl j r = jInflow net fl j r := by
  intro j hj hjn r
  obtain ⟨fb, fa, h1, hout, hin⟩ := balance_final hwf h hj hjn
  rw [hin r, outRow_congr (fun l _ hs => hout l hs r)]
  exact balanceOne_out net (fun hk _ => resCheck_sound net hres j hj hk) (fun hk hz => absurd hz (hp j hj hk)) hjn h1 r

/-- the flow a step starts balancing from vanishes beyond the rows of each link, and so does the final flow -/
theorem step_rowsOk (hwf : wfCheck net = true) (hgr : wfGroupRows net = true) {dt : Rat} {pv : Nat → Rat} {x x' : Stock}
    {fl : Flow} (h : step net dt pv x = some (fl, x')) : RowsOk net fl := by
  have w := wf_of_check net hwf
  exact balanceAll_inv net pv (RowsOk net) net.jorder _ fl
    (fun j hj fb fa hi hb => balanceOne_rowsOk net w (wfGroupRows_sound net hgr) (w.jorder_lt j hj) (w.jorder_junction j hj) hi hb)
    (resolveFlow_rowsOk net w _ _) (step_eq h).1

/-- the same as a statement about one `step` (= `balance_chain` of the design): no hypothesis on the flow is left -/
theorem balance_chain (hwf : wfCheck net = true) (hgr : wfGroupRows net = true) (hres : resCheck net = true) {dt : Rat}
    {pv : Nat → Rat} {x x' : Stock} {fl : Flow} (h : step net dt pv x = some (fl, x')) :
    ∀ j, j < net.nC → isJunction net j = true → ∀ r, outRow net fl j r = jInflow net fl j r :=
  balanceAll_passthrough hwf hgr hres (resolveFlow_rowsOk net (wf_of_check net hwf) _ _) (step_eq h).1

/-- links whose source is not a junction keep the value `resolve_outflows` gave them -/
theorem balanceAll_frame {pv : Nat → Rat} {fl0 fl : Flow} (h : balanceAll net pv fl0 net.jorder = some fl) :
    ∀ l, isJunction net (net.src l) = false → ∀ r, fl l r = fl0 l r :=
  balanceAll_frame_nonjunction net pv net.jorder fl0 fl h

/-- balancing succeeds whenever no plain junction has all proportions summing to 0 -/
theorem balanceAll_succeeds (hwf : wfCheck net = true) (pv : Nat → Rat) (fl0 : Flow)
    (hp : ∀ j, j < net.nC → net.kind j = .junction → pTot net pv j ≠ 0) :
    (balanceAll net pv fl0 net.jorder).isSome = true := by
  have w := wf_of_check net hwf
  exact balanceAll_isSome net pv net.jorder fl0 (fun j hj hk => hp j (w.jorder_lt j hj) hk)

/-- the only way balancing a junction fails (Python: `x·0/0 = NaN` in its out-links): a plain junction with `Σp = 0` that
    receives people -/
theorem balanceOne_fails_iff {pv : Nat → Rat} {fl : Flow} {j : Nat} :
    balanceOne net pv fl j = none ↔ net.kind j = .junction ∧ pTot net pv j = 0 ∧ inflowZero net fl j = false :=
  balanceOne_eq_none_iff net

/-! ## the initial flush -/

/-- **After the flush every junction is empty** (initial junction contents and proportions non-negative) -/
theorem flush_empties (hwf : wfCheck net = true) {pv : Nat → Rat} {x x' : Stock}
    (hp : ∀ l, l < net.nL → isJunction net (net.src l) = true → 0 ≤ pOf net pv l)
    (hx : ∀ j, j < net.nC → isJunction net j = true → 0 ≤ x j 0)
    (h : flushAll net pv x net.jorder = some x') :
    ∀ j, j < net.nC → isJunction net j = true → x' j 0 = 0 ∧ stockTotal net x' j = 0 := by
  have w := wf_of_check net hwf
  intro j hj hjn
  have h0 := flushAll_empties_list net pv hp net.jorder x x' w.nodup w.noBack w.jorder_junction
    (fun j hj => hx j (w.jorder_lt j hj) (w.jorder_junction j hj)) h j (w.mem_jorder hj hjn)
  refine ⟨h0, ?_⟩
  unfold stockTotal
  rw [w.nrows_one j hj (isJunction_not_timed net hjn)]
  simp [sumTo, h0]

/-- **The flush preserves the number of people** (`Σp ≠ 0` for plain junctions, one residual link per residual junction) -/
theorem flush_total (hwf : wfCheck net = true) (hres : resCheck net = true) {pv : Nat → Rat} {x x' : Stock}
    (hplain : ∀ j, j < net.nC → net.kind j = .junction → pTot net pv j ≠ 0)
    (h : flushAll net pv x net.jorder = some x') : grandTotal net x' = grandTotal net x := by
  have w := wf_of_check net hwf
  -- `flushAll_total_list` wants the `pTot` hypothesis for the listed junctions only; go through the list version directly
  have key : ∀ (js : List Nat) (x x' : Stock), (∀ j ∈ js, j < net.nC ∧ isJunction net j = true) →
      flushAll net pv x js = some x' → grandTotal net x' = grandTotal net x := by
    intro js
    induction js with
    | nil => intro x x' _ h; simp only [flushAll] at h; cases h; rfl
    | cons j js ih =>
      intro x x' hjs h
      obtain ⟨x1, h1, h2⟩ := flushAll_cons net h
      have hj := hjs j List.mem_cons_self
      rw [ih x1 x' (fun j hj => hjs j (List.mem_cons_of_mem _ hj)) h2]
      exact flushOne_total net w hj.1 hj.2 (hplain j hj.1) (fun hk _ => resCheck_sound net hres j hj.1 hk) h1
  exact key net.jorder x x' (fun j hj => ⟨w.jorder_lt j hj, w.jorder_junction j hj⟩) h

/-- flushing one junction moves its content only to the destinations of its own links -/
theorem flushOne_only_dests {pv : Nat → Rat} {x x' : Stock} {j : Nat} (h : flushOne net pv x j = some x') (c : Nat)
    (hcj : c ≠ j) (hc : ∀ l, l < net.nL → net.src l = j → net.dst l ≠ c) (r : Nat) : x' c r = x c r :=
  flushOne_frame net h c hcj hc r

/-- **The whole flush changes only junctions and compartments directly downstream of a junction** -/
theorem flush_only_downstream (hwf : wfCheck net = true) {pv : Nat → Rat} {x x' : Stock}
    (h : flushAll net pv x net.jorder = some x') (c : Nat) (hcn : isJunction net c = false)
    (hc : ∀ l, l < net.nL → isJunction net (net.src l) = true → net.dst l ≠ c) (r : Nat) : x' c r = x c r := by
  have w := wf_of_check net hwf
  apply flushAll_frame_list net pv net.jorder x x' h c
  · intro hmem; rw [w.jorder_junction c hmem] at hcn; cases hcn
  · intro l hl hs; exact hc l hl (w.jorder_junction _ hs)

/-- `flush_chain` of the design: empty junctions, untouched non-downstream compartments, same total -/
theorem flush_chain (hwf : wfCheck net = true) (hres : resCheck net = true) {pv : Nat → Rat} {x x' : Stock}
    (hp : ∀ l, l < net.nL → isJunction net (net.src l) = true → 0 ≤ pOf net pv l)
    (hx : ∀ j, j < net.nC → isJunction net j = true → 0 ≤ x j 0)
    (hplain : ∀ j, j < net.nC → net.kind j = .junction → pTot net pv j ≠ 0)
    (h : flushAll net pv x net.jorder = some x') :
    (∀ j, j < net.nC → isJunction net j = true → x' j 0 = 0) ∧
    (∀ c, isJunction net c = false → (∀ l, l < net.nL → isJunction net (net.src l) = true → net.dst l ≠ c) →
      ∀ r, x' c r = x c r) ∧
    grandTotal net x' = grandTotal net x :=
  ⟨fun j hj hjn => (flush_empties hwf hp hx h j hj hjn).1, fun c hcn hc r => flush_only_downstream hwf h c hcn hc r,
    flush_total hwf hres hplain h⟩

/-- **No-op on empty junctions** (needed by C10): if no listed junction holds people the flush returns the state unchanged -/
theorem flush_noop_of_empty_jorder (pv : Nat → Rat) {x : Stock} (h : ∀ j, j ∈ net.jorder → x j 0 = 0) :
    flushAll net pv x net.jorder = some x :=
  flushAll_noop net pv net.jorder x (fun j hj => by rw [h j hj]; norm_num)

theorem flush_noop_of_empty (hwf : wfCheck net = true) (pv : Nat → Rat) {x : Stock}
    (h : ∀ j, j < net.nC → isJunction net j = true → x j 0 = 0) : flushAll net pv x net.jorder = some x := by
  have w := wf_of_check net hwf
  exact flush_noop_of_empty_jorder pv (fun j hj => h j (w.jorder_lt j hj) (w.jorder_junction j hj))

/-- flushing twice is the same as flushing once -/
theorem flush_idempotent (hwf : wfCheck net = true) {pv pv' : Nat → Rat} {x x' : Stock}
    (hp : ∀ l, l < net.nL → isJunction net (net.src l) = true → 0 ≤ pOf net pv l)
    (hx : ∀ j, j < net.nC → isJunction net j = true → 0 ≤ x j 0)
    (h : flushAll net pv x net.jorder = some x') : flushAll net pv' x' net.jorder = some x' :=
  flush_noop_of_empty hwf pv' (fun j hj hjn => (flush_empties hwf hp hx h j hj hjn).1)

/-- a plain junction that holds people and has an out-link but `Σp = 0` makes the flush fail (Python: division by zero → NaN) -/
theorem flush_fails_of_zero {pv : Nat → Rat} {x : Stock} {j l : Nat} (hk : net.kind j = .junction) (hpos : x j 0 > 0)
    (hl : l < net.nL) (hs : net.src l = j) (hz : pTot net pv j = 0) : flushOne net pv x j = none := by
  cases h : flushOne net pv x j with
  | none => rfl
  | some x' =>
    exfalso
    obtain ⟨a, ha, _⟩ := flushOne_pos net hpos h
    -- success of `flushLinks` up to `nL` needs `flushFrac j l` to be defined
    have key : ∀ (k : Nat) (x a : Stock), l < k → flushLinks net pv j (x j 0) k x = some a → False := by
      intro k
      induction k with
      | zero => intro _ _ hlk; omega
      | succ k ih =>
        intro x0 a hlk hfl
        obtain ⟨b, hb, h2⟩ := flushLinks_succ net hfl
        by_cases hkl : l = k
        · subst hkl
          rcases h2 with ⟨_, f, hf, _⟩ | ⟨hne, _⟩
          · simp [flushFrac, hk, divQ, hz] at hf
          · exact hne hs
        · exact ih x0 b (by omega) hb
    exact key net.nL x a hl ha

/-! ## always empty along every run -/

/-- **Junctions are empty in every state reached after the start-up flush**, for every list of per-step parameter values
    (every reachable state is the end state of a prefix). -/
theorem junction_always_empty (hwf : wfCheck net = true) {pv0 : Nat → Rat} {x0 x1 : Stock}
    (hp : ∀ l, l < net.nL → isJunction net (net.src l) = true → 0 ≤ pOf net pv0 l)
    (hx : ∀ j, j < net.nC → isJunction net j = true → 0 ≤ x0 j 0)
    (hflush : flushAll net pv0 x0 net.jorder = some x1)
    {dt : Rat} (pvs : List (Nat → Rat)) {xN : Stock} (hrun : run net dt pvs x1 = some xN) :
    ∀ j, j < net.nC → isJunction net j = true → xN j 0 = 0 ∧ stockTotal net xN j = 0 := by
  have w := wf_of_check net hwf
  intro j hj hjn
  have h0 : xN j 0 = 0 := by
    rw [run_junction_unchanged pvs hrun hjn 0]; exact (flush_empties hwf hp hx hflush j hj hjn).1
  refine ⟨h0, ?_⟩
  unfold stockTotal
  rw [w.nrows_one j hj (isJunction_not_timed net hjn)]
  simp [sumTo, h0]

/-- and what enters a junction during a step leaves it in the same step, so its stock stays 0 -/
theorem junction_in_eq_out_every_step (hwf : wfCheck net = true) (hgr : wfGroupRows net = true)
    (hres : resCheck net = true) {dt : Rat}
    {pv : Nat → Rat} {x x' : Stock} {fl : Flow} (h : step net dt pv x = some (fl, x')) {j : Nat} (hj : j < net.nC)
    (hjn : isJunction net j = true) :
    (∀ r, outRow net fl j r = jInflow net fl j r) ∧ (∀ r, x' j r = x j r) :=
  ⟨fun r => balance_chain hwf hgr hres h j hj hjn r, fun r => step_junction_unchanged h hjn r⟩

/-! ## non-vacuity: a concrete chain + fan with a plain and a residual junction

    `0 (normal) → 1 (junction) → {2 (resjunction), 3 (sink)}`, `2 → 4 (sink)` with proportion `p3`, `2 → 5 (normal)` residual.
    All hypotheses of the theorems above hold together on it (kernel-evaluated). -/

def exNet : Net where
  nC := 6
  nL := 5
  nP := 4
  kind := fun c => match c with | 0 => .normal | 1 => .junction | 2 => .resjunction | 3 => .sink | 4 => .sink | _ => .normal
  nrows := fun _ => 1
  src := fun l => match l with | 0 => 0 | 1 => 1 | 2 => 1 | _ => 2
  dst := fun l => match l with | 0 => 1 | 1 => 2 | 2 => 3 | 3 => 4 | _ => 5
  par := fun l => match l with | 0 => some 0 | 1 => some 1 | 2 => some 2 | 3 => some 3 | _ => none
  tlink := fun _ => false
  lrows := fun _ => 1
  isFlush := fun _ => false
  jgroup := fun _ => false
  units := fun p => match p with | 0 => .frac | _ => .prop
  tscale := fun _ => 1
  jorder := [1, 2]

/-- parameter values: transition probability 1/2, junction split 1/4 : 1/4 (one of them may be 0), residual junction `p3 = q` -/
def exPv (q : Rat) : Nat → Rat := fun p => match p with | 0 => 1/2 | 1 => 1/4 | 2 => 1/4 | _ => q

/-- 10 people in compartment 0, 4 people placed in junction 1 by the initial conditions -/
def exX : Stock := fun c r => if r = 0 then (match c with | 0 => 10 | 1 => 4 | _ => 0) else 0

example : wfCheck exNet = true := by decide +kernel
example : resCheck exNet = true ∧ wfGroupRows exNet = true := by decide +kernel
-- the three residual regimes, and a zero proportion next to a non-zero one
example : pTot exNet (exPv (1/3)) 2 < 1 := by decide +kernel
example : pTot exNet (exPv 1) 2 = 1 := by decide +kernel
example : pTot exNet (exPv 2) 2 > 1 := by decide +kernel
example : pOf exNet (fun p => if p = 1 then 0 else 1/2) 1 = 0 ∧ pTot exNet (fun p => if p = 1 then 0 else 1/2) 1 ≠ 0 := by
  decide +kernel
-- the step and the flush succeed; proportions and junction contents are non-negative
example : (step exNet 1 (exPv (1/3)) exX).isSome = true := by decide +kernel
example : (step exNet 1 (exPv 1) exX).isSome = true := by decide +kernel
example : (step exNet 1 (exPv 2) exX).isSome = true := by decide +kernel
example : (flushAll exNet (exPv (1/3)) exX exNet.jorder).isSome = true := by decide +kernel
example : ∀ l, l < exNet.nL → isJunction exNet (exNet.src l) = true → 0 ≤ pOf exNet (exPv (1/3)) l := by decide +kernel
example : ∀ j, j < exNet.nC → isJunction exNet j = true → 0 ≤ exX j 0 := by decide +kernel
example : ∀ j, j < exNet.nC → exNet.kind j = .junction → pTot exNet (exPv (1/3)) j ≠ 0 := by decide +kernel
-- the flush really moves people through the chain: 4 in junction 1 → 2 to sink 3, 2 on to junction 2 → 2/3 to 4, 4/3 to 5
example : (flushAll exNet (exPv (1/3)) exX exNet.jorder).map
      (fun x' => [x' 1 0, x' 2 0, x' 3 0, x' 4 0, x' 5 0, grandTotal exNet x', grandTotal exNet exX])
    = some [0, 0, 2, 2/3, 4/3, 14, 14] := by decide +kernel
-- a run of two steps after the flush exists
example : ((flushAll exNet (exPv (1/3)) exX exNet.jorder).bind
      (fun x1 => run exNet 1 [exPv (1/3), exPv 2] x1)).isSome = true := by decide +kernel
-- `flush_fails_of_zero` / `balanceOne_fails_iff` / `balance_plain_zero`: all proportions of the plain junction 0
example : flushOne exNet (fun _ => 0) exX 1 = none :=
  flush_fails_of_zero (l := 1) (by decide +kernel) (by decide +kernel) (by decide +kernel) (by decide +kernel) (by decide +kernel)
example : (step exNet 1 (fun p => if p = 0 then 1/2 else 0) exX).isSome = false := by decide +kernel  -- people arrive: NaN
example : (step exNet 1 (fun _ => 0) exX).isSome = true ∧ pTot exNet (fun _ => 0) 1 = 0 := by decide +kernel  -- nobody arrives

/-! ## `wfCheck` alone does not give pass-through of a residual junction: two parameter-less out-links -/

def cexNet : Net where
  nC := 4
  nL := 3
  nP := 1
  kind := fun c => match c with | 0 => .normal | 1 => .resjunction | _ => .sink
  nrows := fun _ => 1
  src := fun l => match l with | 0 => 0 | _ => 1
  dst := fun l => match l with | 0 => 1 | 1 => 2 | _ => 3
  par := fun l => match l with | 0 => some 0 | _ => none
  tlink := fun _ => false
  lrows := fun _ => 1
  isFlush := fun _ => false
  jgroup := fun _ => false
  units := fun _ => .frac
  tscale := fun _ => 1
  jorder := [1]

/-- one person flows into the residual junction, two flow out -/
theorem wfCheck_not_passthrough :
    wfCheck cexNet = true ∧ resCheck cexNet = false ∧
    ∃ fl, balanceAll cexNet (fun _ => 0) (fun l r => if l = 0 ∧ r = 0 then 1 else 0) cexNet.jorder = some fl ∧
      outRow cexNet fl 1 0 = 2 ∧ jInflow cexNet fl 1 0 = 1 := by
  refine ⟨by decide +kernel, by decide +kernel, _, rfl, ?_, ?_⟩ <;> decide +kernel

/-! ## non-vacuity of the row-wise case: a duration-group junction between two timed compartments -/

def exTimed : Net where
  nC := 4
  nL := 4
  nP := 2
  kind := fun c => match c with | 0 => .timed | 1 => .junction | 2 => .timed | _ => .sink
  nrows := fun c => match c with | 0 => 2 | 2 => 2 | _ => 1
  src := fun l => match l with | 0 => 0 | 1 => 0 | 2 => 1 | _ => 2
  dst := fun l => match l with | 0 => 3 | 1 => 1 | 2 => 2 | _ => 3
  par := fun l => match l with | 1 => some 0 | 2 => some 1 | _ => none
  tlink := fun l => match l with | 1 => true | 2 => true | _ => false
  lrows := fun _ => 2
  isFlush := fun l => match l with | 0 => true | 3 => true | _ => false
  jgroup := fun c => c == 1
  units := fun p => match p with | 0 => .frac | _ => .prop
  tscale := fun _ => 1
  jorder := [1]

example : wfCheck exTimed = true ∧ wfGroupRows exTimed = true ∧ resCheck exTimed = true ∧ exTimed.jgroup 1 = true := by
  decide +kernel
/-- people leave rows 0 and 1 of the timed compartment separately and stay in their rows through the junction -/
example : (step exTimed 1 (fun p => if p = 0 then 1/2 else 1) (fun c r => if c = 0 then (if r = 0 then 4 else 6) else 0)).map
    (fun s => [s.1 1 0, s.1 1 1, s.1 2 0, s.1 2 1]) = some [0, 3, 0, 3] := by decide +kernel

end Atomica.C04
