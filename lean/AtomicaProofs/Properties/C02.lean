/-
  C02 — "Stocks and flows stay non-negative, finite, and never over-drawn."

  Theorems about the frozen engine model `Atomica.Engine` (`convert`, `resolveFlow`, `balanceAll`, `updateComps`,
  `flows`, `step`), for every net, every size, every stock, every parameter stream.

  Hypotheses used, and where they come from:
    * `wfCheck net = true`     — evaluated by the driver on every net extracted from a real `Model`
                                 (only the facts of `C02.WF` are used; `wf_of_check` derives them);
    * `0 ≤ dt`                 — step size (domain);
    * `StockNonneg net x`      — the current state; established for every reachable state by `run_nonneg`;
    * `PropsNonneg net pv`     — junction proportions are not negative (domain restriction of the junction part; the
                                 property's "negative parameter → zero flow" is about *transition* parameters);
    * `WellPosed net pv`       — no plain junction of the execution order has Σp = 0 (this is *equivalent* to the step being
                                 defined: `flows_defined`, `step_defined`).
  Nothing the code is supposed to establish is assumed: non-negativity of `link._cache`, the no-over-draw bound, the
  emptied row, the common factor are all derived.
-/
import AtomicaModel.Engine
import AtomicaProofs.Lemmas.Sums
import AtomicaProofs.Lemmas.C02Engine
import AtomicaProofs.Lemmas.EngineWF
import Mathlib.Tactic.Linarith
import Mathlib.Tactic.Ring
import Mathlib.Tactic.NormNum

namespace Atomica.C02
open Atomica Atomica.Engine

variable {net : Net}

/-! ## 1. `update_links`, first loop: cached fractions -/

/-- a non-positive transition parameter gives a zero cached fraction ("negative transition value replaced by 0") -/
theorem convert_nonpos_param {dt : Rat} {pv : Nat → Rat} {x : Stock} {l p : Nat}
    (hp : net.par l = some p) (hv : pv p ≤ 0) : convert net dt pv x l = 0 := by
  unfold convert
  simp [hp, hv]

theorem stockTotal_nonneg {x : Stock} (hx : StockNonneg net x) {c : Nat} (hc : c < net.nC) :
    0 ≤ stockTotal net x c :=
  sumTo_nonneg (fun r hr => hx c hc r hr)

theorem popsize_nonneg (wf : WF net) {x : Stock} (hx : StockNonneg net x) (p : Nat) : 0 ≤ popsize net x p := by
  unfold popsize
  apply sumTo_nonneg; intro l hl
  split
  · exact stockTotal_nonneg hx (wf.src_lt l hl)
  · exact le_refl _

/-- `link._cache ≥ 0` whatever the sign or size of the parameter value -/
theorem convert_nonneg (h : wfCheck net = true) {dt : Rat} (hdt : 0 ≤ dt) (pv : Nat → Rat) {x : Stock}
    (hx : StockNonneg net x) {l : Nat} (hl : l < net.nL) : 0 ≤ convert net dt pv x l := by
  have wf := wf_of_check h
  unfold convert
  split
  · exact le_refl _
  · next p hp =>
    have hts : 0 < net.tscale p := wf.tscale_pos p (wf.par_lt l hl p hp)
    simp only
    split
    · exact le_refl _
    · next hv =>
      have hv' : 0 < pv p := not_le.mp hv
      have hamt : 0 ≤ pv p * (dt / net.tscale p) := mul_nonneg hv'.le (div_nonneg hdt hts.le)
      split
      · exact hamt
      · exact div_nonneg hdt (mul_nonneg hv'.le hts.le)
      · split
        · exact hamt
        · split
          · exact le_refl _
          · exact div_nonneg hamt (popsize_nonneg wf hx p)
      · exact le_refl _

/-! ## 2. `resolve_outflows` -/

/-- flows after `resolve_outflows` are non-negative -/
theorem resolve_nonneg (h : wfCheck net = true) {cache : Nat → Rat} (hc : ∀ l, l < net.nL → 0 ≤ cache l)
    {x : Stock} (hx : StockNonneg net x) : FlowNonneg net (resolveFlow net cache x) := by
  have wf := wf_of_check h
  intro l hl r
  rw [resolveFlow_eq]
  apply add_nonneg
  · by_cases h1 : net.kind (net.src l) = .normal ∨ net.kind (net.src l) = .timed
    · rw [baseFlow_nt net h1]
      split
      · next hr =>
        exact mul_nonneg (hc l hl) (mul_nonneg (rescale_pos _).le (hx _ (wf.src_lt l hl) r hr.1))
      · exact le_refl _
    · by_cases h2 : net.kind (net.src l) = .source
      · rw [baseFlow_source net h2]
        split
        · exact hc l hl
        · exact le_refl _
      · rw [baseFlow_other net (fun hh => h1 (Or.inl hh)) (fun hh => h1 (Or.inr hh)) h2]
  · split
    · exact clip0_nonneg _
    · exact le_refl _

/-- NO OVER-DRAW: what leaves row `r` of an ordinary / timed compartment never exceeds what is in that row,
    whatever the requested fractions are (no bound on `cache`, not even its sign). -/
theorem resolve_no_overdraw (h : wfCheck net = true) (cache : Nat → Rat) {x : Stock} {c r : Nat} (hc : c < net.nC)
    (hk : net.kind c = .normal ∨ net.kind c = .timed) (hx : 0 ≤ x c r) :
    outRow net (resolveFlow net cache x) c r ≤ x c r := by
  have wf := wf_of_check h
  rw [outRow_resolve]
  have hb := baseOut_le net (cache := cache) hk hx
  split
  · next ht =>
    obtain ⟨hkt, hr⟩ := ht
    subst hr
    rw [nFlush_one wf hc hkt, clip0_of_nonneg (by linarith)]
    simp
  · linarith

/-- row 0 of a timed compartment is emptied: parameter-driven outflows plus the flush link take exactly its content -/
theorem resolve_row0_emptied (h : wfCheck net = true) (cache : Nat → Rat) {x : Stock} {c : Nat} (hc : c < net.nC)
    (hk : net.kind c = .timed) (hx : 0 ≤ x c 0) :
    outRow net (resolveFlow net cache x) c 0 = x c 0 := by
  have wf := wf_of_check h
  rw [outRow_resolve]
  have hb := baseOut_le net (cache := cache) (Or.inr hk) hx
  rw [if_pos ⟨hk, rfl⟩, nFlush_one wf hc hk, clip0_of_nonneg (by linarith)]
  simp

/-- the flow of a link acting on row `r` is `cache × (common factor of that row) × content of the row` -/
theorem resolve_flow_eq {cache : Nat → Rat} {x : Stock} {l r : Nat}
    (hk : net.kind (net.src l) = .normal ∨ net.kind (net.src l) = .timed)
    (hr : r < net.nrows (net.src l)) (ha : acts net l r = true) :
    resolveFlow net cache x l r = cache l * (rescale (outReq net cache (net.src l) r) * x (net.src l) r) := by
  have hnf : net.isFlush l = false := by
    unfold acts at ha
    cases hf : net.isFlush l <;> simp_all
  rw [resolveFlow_eq, baseFlow_nt net hk]
  simp [hr, ha, hnf]

/-- COMMON FACTOR: all links acting on row `r` of compartment `c` are scaled by one factor `k ∈ (0, 1]`,
    and `k = 1` when the requests do not exceed the content -/
theorem resolve_common_factor (cache : Nat → Rat) (x : Stock) {c : Nat} (r : Nat)
    (hk : net.kind c = .normal ∨ net.kind c = .timed) :
    ∃ k : Rat, 0 < k ∧ k ≤ 1 ∧ (outReq net cache c r ≤ 1 → k = 1) ∧ (1 < outReq net cache c r → k = 1 / outReq net cache c r) ∧
      ∀ l, net.src l = c → r < net.nrows c → acts net l r = true →
        resolveFlow net cache x l r = cache l * (k * x c r) := by
  refine ⟨rescale (outReq net cache c r), rescale_pos _, rescale_le_one _, ?_, ?_, ?_⟩
  · intro h; unfold rescale; rw [if_neg (not_lt.mpr h)]
  · intro h; unfold rescale; rw [if_pos h]
  · intro l hs hr ha
    subst hs
    exact resolve_flow_eq hk hr ha

/-- RATIOS PRESERVED (cross-multiplied, no division): two links acting on the same row of the same compartment -/
theorem resolve_ratio (cache : Nat → Rat) (x : Stock) {l₁ l₂ r : Nat}
    (hk : net.kind (net.src l₁) = .normal ∨ net.kind (net.src l₁) = .timed) (hs : net.src l₂ = net.src l₁)
    (hr : r < net.nrows (net.src l₁)) (h1 : acts net l₁ r = true) (h2 : acts net l₂ r = true) :
    resolveFlow net cache x l₁ r * cache l₂ = resolveFlow net cache x l₂ r * cache l₁ := by
  rw [resolve_flow_eq hk hr h1, resolve_flow_eq (by rw [hs]; exact hk) (by rw [hs]; exact hr) h2, hs]
  ring

/-- RESCALE IS EXACT: when the requests out of a row exceed 1 the row is emptied — not over- and not under-drawn -/
theorem rescale_exact (cache : Nat → Rat) (x : Stock) {c r : Nat}
    (hk : net.kind c = .normal ∨ net.kind c = .timed) (hr : r < net.nrows c) (hreq : 1 < outReq net cache c r) :
    outRow net (resolveFlow net cache x) c r = x c r := by
  rw [outRow_resolve]
  have hb : baseOut net cache x c r = x c r := by
    rw [baseOut_eq net hk, if_pos hr, ← mul_assoc, mul_rescale_of_gt hreq, one_mul]
  rw [hb]
  split
  · next ht =>
    obtain ⟨_, hr0⟩ := ht
    subst hr0
    rw [hb]
    simp [clip0]
  · simp

/-- NEGATIVE PARAMETER → ZERO FLOW (never a reverse flow), after `resolve_outflows`, every row -/
theorem neg_param_zero_flow (h : wfCheck net = true) (dt : Rat) {pv : Nat → Rat} (x : Stock) {l p : Nat}
    (hl : l < net.nL) (hp : net.par l = some p) (hv : pv p ≤ 0) (r : Nat) :
    resolveFlow net (convert net dt pv x) x l r = 0 := by
  have wf := wf_of_check h
  have hc0 : convert net dt pv x l = 0 := convert_nonpos_param hp hv
  have hnf : net.isFlush l = false := by
    cases hf : net.isFlush l
    · rfl
    · have := wf.flush_par l hl hf
      rw [hp] at this
      exact absurd this (by simp)
  rw [resolveFlow_eq]
  have h2 : baseFlow net (convert net dt pv x) x l r = 0 := by
    unfold baseFlow
    simp only [hc0]
    split <;> simp
  rw [h2]
  simp [hnf]

/-! ## 3. junction balancing -/

/-- balancing the junctions keeps all flows non-negative (plain junctions: `Σp ≠ 0` is what makes the result `some`;
    residual junctions: no condition on `Σp`) -/
theorem balance_nonneg {pv : Nat → Rat} (hp : PropsNonneg net pv) (js : List Nat) {fl fl' : Flow}
    (hfl : FlowNonneg net fl) (hb : balanceAll net pv fl js = some fl') : FlowNonneg net fl' := by
  induction js generalizing fl with
  | nil =>
    simp only [balanceAll] at hb
    injection hb with hb; subst hb; exact hfl
  | cons j js ih =>
    simp only [balanceAll] at hb
    cases h1 : balanceOne net pv fl j with
    | none => rw [h1] at hb; exact absurd hb (by simp)
    | some fl1 =>
      rw [h1] at hb
      simp only [Option.bind_some] at hb
      refine ih ?_ hb
      cases hj : isJunction net j
      · rw [balanceOne_unchanged_of_not_junction net h1 hj]; exact hfl
      · exact balanceOne_nonneg net hfl (fun l hl hs => hp l hl (by rw [hs]; exact hj)) h1

/-- balancing does not touch links that leave a non-junction compartment -/
theorem balance_unchanged {pv : Nat → Rat} (js : List Nat) {fl fl' : Flow}
    (hb : balanceAll net pv fl js = some fl') {l : Nat} (hj : isJunction net (net.src l) = false) (r : Nat) :
    fl' l r = fl l r := by
  induction js generalizing fl with
  | nil =>
    simp only [balanceAll] at hb
    injection hb with hb; subst hb; rfl
  | cons j js ih =>
    simp only [balanceAll] at hb
    cases h1 : balanceOne net pv fl j with
    | none => rw [h1] at hb; exact absurd hb (by simp)
    | some fl1 =>
      rw [h1] at hb
      simp only [Option.bind_some] at hb
      rw [ih hb]
      by_cases hs : net.src l = j
      · rw [balanceOne_unchanged_of_not_junction net h1 (by rw [← hs]; exact hj)]
      · exact balanceOne_unchanged net h1 hs r

/-- NEVER NaN, sufficient condition: the junction pass is defined when no plain junction in the list has `Σp = 0` -/
theorem balance_defined_of_wellPosed (pv : Nat → Rat) (js : List Nat) (fl : Flow)
    (hw : ∀ j, j ∈ js → net.kind j = .junction → pTot net pv j ≠ 0) : balanceAll net pv fl js ≠ none := by
  induction js generalizing fl with
  | nil => simp [balanceAll]
  | cons j js ih =>
    simp only [balanceAll]
    cases h1 : balanceOne net pv fl j with
    | none =>
      have := (balanceOne_eq_none_iff net pv fl j).mp h1
      exact absurd this.2.1 (hw j (by simp) this.1)
    | some fl1 =>
      simp only [Option.bind_some]
      exact ih fl1 (fun j' hj' => hw j' (by simp [hj']))

/-- NEVER NaN, exact: the junction pass is undefined iff, at the moment some plain junction `j` of the list is balanced
    (after the junctions `pre` before it), its proportions sum to 0 while somebody flows into it (`inflow · p / 0`) -/
theorem balance_undefined_iff (pv : Nat → Rat) (js : List Nat) (fl : Flow) :
    balanceAll net pv fl js = none ↔
      ∃ pre j post fl1, js = pre ++ j :: post ∧ balanceAll net pv fl pre = some fl1 ∧
        net.kind j = .junction ∧ pTot net pv j = 0 ∧ inflowZero net fl1 j = false := by
  induction js generalizing fl with
  | nil =>
    constructor
    · intro h; simp [balanceAll] at h
    · rintro ⟨pre, j, post, fl1, hjs, _⟩
      exact absurd hjs (by simp)
  | cons j0 js ih =>
    simp only [balanceAll]
    cases h1 : balanceOne net pv fl j0 with
    | none =>
      simp only [Option.bind_none, true_iff]
      have := (balanceOne_eq_none_iff net pv fl j0).mp h1
      exact ⟨[], j0, js, fl, rfl, rfl, this⟩
    | some fl' =>
      simp only [Option.bind_some]
      rw [ih]
      constructor
      · rintro ⟨pre, j, post, fl1, hjs, hb, hrest⟩
        refine ⟨j0 :: pre, j, post, fl1, by simp [hjs], ?_, hrest⟩
        simp only [balanceAll, h1, Option.bind_some]
        exact hb
      · rintro ⟨pre, j, post, fl1, hjs, hb, hrest⟩
        cases pre with
        | nil =>
          simp only [List.nil_append, List.cons.injEq] at hjs
          obtain ⟨rfl, rfl⟩ := hjs
          simp only [balanceAll, Option.some.injEq] at hb
          subst hb
          have := (balanceOne_eq_none_iff net pv fl j0).mpr hrest
          rw [h1] at this
          exact absurd this (by simp)
        | cons j1 pre' =>
          simp only [List.cons_append, List.cons.injEq] at hjs
          obtain ⟨rfl, rfl⟩ := hjs
          simp only [balanceAll, h1, Option.bind_some] at hb
          exact ⟨pre', j, post, fl1, rfl, hb, hrest⟩

/-- `flows` (hence the step) is defined iff every plain junction of the execution order whose proportions sum to 0 has
    zero inflow at the moment it is balanced: this is the model-level "never NaN or infinite" -/
theorem flows_defined (dt : Rat) (pv : Nat → Rat) (x : Stock) :
    flows net dt pv x ≠ none ↔
      ∀ pre j post fl1, net.jorder = pre ++ j :: post →
        balanceAll net pv (resolveFlow net (convert net dt pv x) x) pre = some fl1 →
        net.kind j = .junction → pTot net pv j = 0 → inflowZero net fl1 j = true := by
  unfold flows
  rw [ne_eq, balance_undefined_iff]
  constructor
  · intro hne pre j post fl1 hjs hb hk h0
    cases hz : inflowZero net fl1 j
    · exact absurd ⟨pre, j, post, fl1, hjs, hb, hk, h0, hz⟩ hne
    · rfl
  · rintro hall ⟨pre, j, post, fl1, hjs, hb, hk, h0, hz⟩
    rw [hall pre j post fl1 hjs hb hk h0] at hz
    exact absurd hz (by simp)

theorem flows_defined_of_wellPosed (dt : Rat) {pv : Nat → Rat} (hw : WellPosed net pv) (x : Stock) :
    flows net dt pv x ≠ none := by
  unfold flows
  exact balance_defined_of_wellPosed pv net.jorder _ hw

theorem step_defined_iff (dt : Rat) (pv : Nat → Rat) (x : Stock) :
    step net dt pv x ≠ none ↔ flows net dt pv x ≠ none := by
  unfold step
  cases flows net dt pv x <;> simp

theorem step_defined (dt : Rat) {pv : Nat → Rat} (hw : WellPosed net pv) (x : Stock) :
    step net dt pv x ≠ none :=
  (step_defined_iff dt pv x).mpr (flows_defined_of_wellPosed dt hw x)

/-! ## 4. `update` of the compartments -/

theorem ite_neg_nonneg (v : Rat) : 0 ≤ (if v < 0 then 0 else v) := by
  split
  · exact le_refl _
  · next hv => exact not_lt.mp hv

/-- ordinary and timed compartments: rows are clipped at 0, for *any* flows -/
theorem update_clip_nonneg (x : Stock) (fl : Flow) {c : Nat} (r : Nat)
    (hk : net.kind c = .normal ∨ net.kind c = .timed) : 0 ≤ updateComps net x fl c r := by
  unfold updateComps
  rcases hk with hk | hk <;> simp only [hk]
  · split
    · exact clip0_nonneg _
    · exact le_refl _
  · by_cases hr : r < net.nrows c
    · rw [if_pos hr]
      exact ite_neg_nonneg _
    · rw [if_neg hr]

/-- all compartments: rows stay non-negative when the flows are non-negative (sinks accumulate inflows;
    sources and junctions keep their stored value) -/
theorem update_nonneg (h : wfCheck net = true) {x : Stock} {fl : Flow} (hx : StockNonneg net x)
    (hfl : FlowNonneg net fl) : StockNonneg net (updateComps net x fl) := by
  have wf := wf_of_check h
  intro c hc r hr
  cases hk : net.kind c with
  | normal => exact update_clip_nonneg x fl r (Or.inl hk)
  | timed => exact update_clip_nonneg x fl r (Or.inr hk)
  | sink =>
    unfold updateComps
    simp only [hk]
    split
    · exact add_nonneg (hx c hc 0 (wf.nrows_pos c hc)) (inAll_nonneg net hfl c)
    · exact le_refl _
  | source => unfold updateComps; simp only [hk]; exact hx c hc r hr
  | junction => unfold updateComps; simp only [hk]; exact hx c hc r hr
  | resjunction => unfold updateComps; simp only [hk]; exact hx c hc r hr

/-! ## 5. one step, and every reachable state -/

theorem flows_nonneg (h : wfCheck net = true) {dt : Rat} (hdt : 0 ≤ dt) {pv : Nat → Rat} (hp : PropsNonneg net pv)
    {x : Stock} (hx : StockNonneg net x) {fl : Flow} (hf : flows net dt pv x = some fl) : FlowNonneg net fl := by
  unfold flows at hf
  exact balance_nonneg hp net.jorder (resolve_nonneg h (fun l hl => convert_nonneg h hdt pv hx hl) hx) hf

/-- flows of links leaving non-junction compartments are the `resolve_outflows` values -/
theorem flows_eq_resolve {dt : Rat} {pv : Nat → Rat} {x : Stock} {fl : Flow} (hf : flows net dt pv x = some fl)
    {l : Nat} (hj : isJunction net (net.src l) = false) (r : Nat) :
    fl l r = resolveFlow net (convert net dt pv x) x l r := by
  unfold flows at hf
  exact balance_unchanged net.jorder hf hj r

theorem outRow_flows {dt : Rat} {pv : Nat → Rat} {x : Stock} {fl : Flow} (hf : flows net dt pv x = some fl)
    {c : Nat} (hj : isJunction net c = false) (r : Nat) :
    outRow net fl c r = outRow net (resolveFlow net (convert net dt pv x) x) c r := by
  unfold outRow
  apply sumTo_congr; intro l _
  by_cases hs : net.src l = c
  · rw [if_pos hs, if_pos hs]
    exact flows_eq_resolve hf (by rw [hs]; exact hj) r
  · rw [if_neg hs, if_neg hs]

theorem not_junction_of_nt {c : Nat} (hk : net.kind c = .normal ∨ net.kind c = .timed) : isJunction net c = false := by
  unfold isJunction
  rcases hk with hk | hk <;> simp [hk]

/-- ONE STEP: flows ≥ 0 and next rows ≥ 0 -/
theorem step_nonneg (h : wfCheck net = true) {dt : Rat} (hdt : 0 ≤ dt) {pv : Nat → Rat} (hp : PropsNonneg net pv)
    {x : Stock} (hx : StockNonneg net x) {fl : Flow} {x' : Stock} (hs : step net dt pv x = some (fl, x')) :
    FlowNonneg net fl ∧ StockNonneg net x' := by
  unfold step at hs
  cases hf : flows net dt pv x with
  | none => rw [hf] at hs; exact absurd hs (by simp)
  | some fl0 =>
    rw [hf] at hs
    simp only [Option.map_some, Option.some.injEq, Prod.mk.injEq] at hs
    obtain ⟨rfl, rfl⟩ := hs
    have hfl := flows_nonneg h hdt hp hx hf
    exact ⟨hfl, update_nonneg h hx hfl⟩

/-- ONE STEP, no over-draw: with the final flows of the step (after junction balancing) -/
theorem step_no_overdraw (h : wfCheck net = true) {dt : Rat} {pv : Nat → Rat} {x : Stock} (hx : StockNonneg net x)
    {fl : Flow} {x' : Stock} (hs : step net dt pv x = some (fl, x')) {c r : Nat} (hc : c < net.nC)
    (hk : net.kind c = .normal ∨ net.kind c = .timed) (hr : r < net.nrows c) :
    outRow net fl c r ≤ x c r := by
  unfold step at hs
  cases hf : flows net dt pv x with
  | none => rw [hf] at hs; exact absurd hs (by simp)
  | some fl0 =>
    rw [hf] at hs
    simp only [Option.map_some, Option.some.injEq, Prod.mk.injEq] at hs
    obtain ⟨rfl, _⟩ := hs
    rw [outRow_flows hf (not_junction_of_nt hk)]
    exact resolve_no_overdraw h _ hc hk (hx c hc r hr)

/-- ONE STEP, a negative (or zero) transition parameter gives zero flow on every link it drives (non-junction source) -/
theorem step_neg_param_zero_flow (h : wfCheck net = true) {dt : Rat} {pv : Nat → Rat} {x : Stock}
    {fl : Flow} {x' : Stock} (hs : step net dt pv x = some (fl, x')) {l p : Nat} (hl : l < net.nL)
    (hp : net.par l = some p) (hv : pv p ≤ 0) (hj : isJunction net (net.src l) = false) (r : Nat) :
    fl l r = 0 := by
  unfold step at hs
  cases hf : flows net dt pv x with
  | none => rw [hf] at hs; exact absurd hs (by simp)
  | some fl0 =>
    rw [hf] at hs
    simp only [Option.map_some, Option.some.injEq, Prod.mk.injEq] at hs
    obtain ⟨rfl, _⟩ := hs
    rw [flows_eq_resolve hf hj]
    exact neg_param_zero_flow h dt x hl hp hv r

/-- ONE STEP, ratios: final flows of two links acting on the same row of the same compartment -/
theorem step_ratio {dt : Rat} {pv : Nat → Rat} {x : Stock} {fl : Flow} {x' : Stock}
    (hs : step net dt pv x = some (fl, x')) {l₁ l₂ r : Nat}
    (hk : net.kind (net.src l₁) = .normal ∨ net.kind (net.src l₁) = .timed) (hsrc : net.src l₂ = net.src l₁)
    (hr : r < net.nrows (net.src l₁)) (h1 : acts net l₁ r = true) (h2 : acts net l₂ r = true) :
    fl l₁ r * convert net dt pv x l₂ = fl l₂ r * convert net dt pv x l₁ := by
  unfold step at hs
  cases hf : flows net dt pv x with
  | none => rw [hf] at hs; exact absurd hs (by simp)
  | some fl0 =>
    rw [hf] at hs
    simp only [Option.map_some, Option.some.injEq, Prod.mk.injEq] at hs
    obtain ⟨rfl, _⟩ := hs
    rw [flows_eq_resolve hf (not_junction_of_nt hk), flows_eq_resolve hf (not_junction_of_nt (by rw [hsrc]; exact hk))]
    exact resolve_ratio _ x hk hsrc hr h1 h2

/-- ONE STEP, exact rescale with the final flows -/
theorem step_rescale_exact {dt : Rat} {pv : Nat → Rat} {x : Stock} {fl : Flow} {x' : Stock}
    (hs : step net dt pv x = some (fl, x')) {c r : Nat}
    (hk : net.kind c = .normal ∨ net.kind c = .timed) (hr : r < net.nrows c)
    (hreq : 1 < outReq net (convert net dt pv x) c r) : outRow net fl c r = x c r := by
  unfold step at hs
  cases hf : flows net dt pv x with
  | none => rw [hf] at hs; exact absurd hs (by simp)
  | some fl0 =>
    rw [hf] at hs
    simp only [Option.map_some, Option.some.injEq, Prod.mk.injEq] at hs
    obtain ⟨rfl, _⟩ := hs
    rw [outRow_flows hf (not_junction_of_nt hk)]
    exact rescale_exact _ x hk hr hreq

/-- the state after a list of per-step parameter values (`none` if some step is undefined) -/
def run (net : Net) (dt : Rat) : List (Nat → Rat) → Stock → Option Stock
  | [], x => some x
  | pv :: pvs, x => (step net dt pv x).bind (fun s => run net dt pvs s.2)

/-- EVERY REACHABLE STATE is non-negative -/
theorem run_nonneg (h : wfCheck net = true) {dt : Rat} (hdt : 0 ≤ dt) (pvs : List (Nat → Rat))
    (hp : ∀ pv, pv ∈ pvs → PropsNonneg net pv) {x x' : Stock} (hx : StockNonneg net x)
    (hr : run net dt pvs x = some x') : StockNonneg net x' := by
  induction pvs generalizing x with
  | nil =>
    simp only [run] at hr
    injection hr with hr; subst hr; exact hx
  | cons pv pvs ih =>
    simp only [run] at hr
    cases hs : step net dt pv x with
    | none => rw [hs] at hr; exact absurd hr (by simp)
    | some s =>
      rw [hs] at hr
      simp only [Option.bind_some] at hr
      obtain ⟨fl, x1⟩ := s
      have := step_nonneg h hdt (hp pv (by simp)) hx hs
      exact ih (fun pv' hpv' => hp pv' (by simp [hpv'])) this.2 hr

/-- EVERY STEP FROM A REACHABLE STATE: flows ≥ 0, next state ≥ 0, no compartment row over-drawn -/
theorem run_step_nonneg (h : wfCheck net = true) {dt : Rat} (hdt : 0 ≤ dt) (pvs : List (Nat → Rat))
    (hp : ∀ pv, pv ∈ pvs → PropsNonneg net pv) {x x' : Stock} (hx : StockNonneg net x)
    (hr : run net dt pvs x = some x') {pv : Nat → Rat} (hpv : PropsNonneg net pv) {fl : Flow} {x'' : Stock}
    (hs : step net dt pv x' = some (fl, x'')) :
    FlowNonneg net fl ∧ StockNonneg net x'' ∧
      ∀ c, c < net.nC → (net.kind c = .normal ∨ net.kind c = .timed) → ∀ r, r < net.nrows c → outRow net fl c r ≤ x' c r := by
  have hx' := run_nonneg h hdt pvs hp hx hr
  have := step_nonneg h hdt hpv hx' hs
  exact ⟨this.1, this.2, fun c hc hk r hr' => step_no_overdraw h hx' hs hc hk hr'⟩

/-- the whole run is defined when every step is well-posed -/
theorem run_defined (dt : Rat) (pvs : List (Nat → Rat)) (hw : ∀ pv, pv ∈ pvs → WellPosed net pv) (x : Stock) :
    run net dt pvs x ≠ none := by
  induction pvs generalizing x with
  | nil => simp [run]
  | cons pv pvs ih =>
    simp only [run]
    have hd := step_defined (net := net) dt (hw pv (by simp)) x
    cases hs : step net dt pv x with
    | none => exact absurd hs hd
    | some s =>
      simp only [Option.bind_some]
      exact ih (fun pv' hpv' => hw pv' (by simp [hpv'])) _

/-! ## 5b. time-preserving moves never leave from the final bin; the four facts C01 composes with -/

/-- a `TimedLink` carries nothing out of row 0 (the final subcompartment) after `resolve_outflows` -/
theorem resolve_tlink_row0 (h : wfCheck net = true) (cache : Nat → Rat) (x : Stock) {l : Nat} (hl : l < net.nL)
    (ht : net.tlink l = true) : resolveFlow net cache x l 0 = 0 := by
  have lw := wf_link h l hl
  have hnf : net.isFlush l = false := by
    cases hf : net.isFlush l
    · rfl
    · have := (lw.flush_timed hf).2.1
      rw [ht] at this; exact absurd this (by simp)
  rw [resolveFlow_eq]
  simp only [hnf, Bool.false_eq_true, false_and, and_false, if_false, add_zero]
  rcases lw.tlink_src ht with hk | ⟨hj, _⟩
  · rw [baseFlow_nt net (Or.inr hk)]
    simp [acts, ht]
  · unfold isJunction at hj
    apply baseFlow_other <;> intro hk <;> simp [hk] at hj

/-- inflow into a duration-group junction in row 0 is zero when no timed link carries anything in row 0 -/
theorem jInflow_row0_zero (h : wfCheck net = true) {fl : Flow} (inv : ∀ l, l < net.nL → net.tlink l = true → fl l 0 = 0)
    {j : Nat} (hj : isJunction net j = true) (hg : net.jgroup j = true) : jInflow net fl j 0 = 0 := by
  unfold jInflow
  rw [if_pos hg]
  apply sumTo_zero
  intro l hl
  split
  · next hd =>
    exact inv l hl ((wf_link h l hl).gj_in_tlink (by rw [hd]; exact hj) (by rw [hd]; exact hg))
  · rfl

theorem balanceOne_tlink_row0 (h : wfCheck net = true) {pv : Nat → Rat} {fl fl' : Flow} {j : Nat}
    (inv : ∀ l, l < net.nL → net.tlink l = true → fl l 0 = 0) (hb : balanceOne net pv fl j = some fl') :
    ∀ l, l < net.nL → net.tlink l = true → fl' l 0 = 0 := by
  intro l hl ht
  by_cases hs : net.src l = j
  · cases hj : isJunction net j
    · rw [balanceOne_unchanged_of_not_junction net hb hj]; exact inv l hl ht
    · -- `j` is a junction with an outgoing timed link, hence a duration-group junction
      have hg : net.jgroup j = true := by
        rcases (wf_link h l hl).tlink_src ht with hk | ⟨_, hg⟩
        · rw [hs] at hk; unfold isJunction at hj; simp [hk] at hj
        · rw [hs] at hg; exact hg
      have hin : jInflow net fl j 0 = 0 := jInflow_row0_zero h inv hj hg
      unfold balanceOne at hb
      split at hb
      · split at hb
        · split at hb
          · injection hb with hb; subst hb; simp [hs]
          · exact absurd hb (by simp)
        · injection hb with hb; subst hb; simp [hs, hin]
      · injection hb with hb; subst hb
        have hz : (sumTo net.nL fun _ => (0 : Rat)) = 0 := sumTo_zero (fun _ _ => rfl)
        simp [hs, hin, hz]
      · injection hb with hb; subst hb; exact inv l hl ht
  · rw [balanceOne_unchanged net hb hs]; exact inv l hl ht

/-- … and this survives junction balancing (duration-group junctions pass row 0 through row by row) -/
theorem balance_tlink_row0 (h : wfCheck net = true) {pv : Nat → Rat} (js : List Nat) {fl fl' : Flow}
    (inv : ∀ l, l < net.nL → net.tlink l = true → fl l 0 = 0) (hb : balanceAll net pv fl js = some fl') :
    ∀ l, l < net.nL → net.tlink l = true → fl' l 0 = 0 := by
  induction js generalizing fl with
  | nil =>
    simp only [balanceAll] at hb
    injection hb with hb; subst hb; exact inv
  | cons j js ih =>
    simp only [balanceAll] at hb
    cases h1 : balanceOne net pv fl j with
    | none => rw [h1] at hb; exact absurd hb (by simp)
    | some fl1 =>
      rw [h1] at hb
      simp only [Option.bind_some] at hb
      exact ih (balanceOne_tlink_row0 h inv h1) hb

/-- (a) for *every* link index, with unrestricted hypotheses (no well-formedness needed) -/
theorem resolve_nonneg_all {cache : Nat → Rat} (hc : ∀ l, 0 ≤ cache l) {x : Stock} (hx : ∀ c r, 0 ≤ x c r) :
    ∀ l r, 0 ≤ resolveFlow net cache x l r := by
  intro l r
  rw [resolveFlow_eq]
  apply add_nonneg
  · by_cases h1 : net.kind (net.src l) = .normal ∨ net.kind (net.src l) = .timed
    · rw [baseFlow_nt net h1]
      split
      · exact mul_nonneg (hc l) (mul_nonneg (rescale_pos _).le (hx _ _))
      · exact le_refl _
    · by_cases h2 : net.kind (net.src l) = .source
      · rw [baseFlow_source net h2]
        split
        · exact hc l
        · exact le_refl _
      · rw [baseFlow_other net (fun hh => h1 (Or.inl hh)) (fun hh => h1 (Or.inr hh)) h2]
  · split
    · exact clip0_nonneg _
    · exact le_refl _

/-- the four facts about `fl := resolveFlow net cache x` in the shape used by C01's composition -/
theorem resolve_facts (h : wfCheck net = true) {cache : Nat → Rat} (hc : ∀ l, 0 ≤ cache l) {x : Stock}
    (hx : ∀ c r, 0 ≤ x c r) :
    (∀ l r, 0 ≤ resolveFlow net cache x l r) ∧
    (∀ c, c < net.nC → (net.kind c = .normal ∨ net.kind c = .timed) → ∀ r, outRow net (resolveFlow net cache x) c r ≤ x c r) ∧
    (∀ c, c < net.nC → net.kind c = .timed → outRow net (resolveFlow net cache x) c 0 = x c 0) ∧
    (∀ l, l < net.nL → net.tlink l = true → resolveFlow net cache x l 0 = 0) :=
  ⟨resolve_nonneg_all hc hx,
   fun _ hcc hk r => resolve_no_overdraw h cache hcc hk (hx _ r),
   fun _ hcc hk => resolve_row0_emptied h cache hcc hk (hx _ 0),
   fun _ hl ht => resolve_tlink_row0 h cache x hl ht⟩

theorem outRow_balance {pv : Nat → Rat} (js : List Nat) {fl fl' : Flow} (hb : balanceAll net pv fl js = some fl')
    {c : Nat} (hj : isJunction net c = false) (r : Nat) : outRow net fl' c r = outRow net fl c r := by
  unfold outRow
  apply sumTo_congr; intro l _
  by_cases hs : net.src l = c
  · rw [if_pos hs, if_pos hs]
    exact balance_unchanged js hb (by rw [hs]; exact hj) r
  · rw [if_neg hs, if_neg hs]

/-- the same four facts for the final flows, after `balanceAll` over any junction list -/
theorem balance_resolve_facts (h : wfCheck net = true) {pv : Nat → Rat} (hp : PropsNonneg net pv)
    {cache : Nat → Rat} (hc : ∀ l, 0 ≤ cache l) {x : Stock} (hx : ∀ c r, 0 ≤ x c r) (js : List Nat) {fl : Flow}
    (hb : balanceAll net pv (resolveFlow net cache x) js = some fl) :
    (∀ l, l < net.nL → ∀ r, 0 ≤ fl l r) ∧
    (∀ c, c < net.nC → (net.kind c = .normal ∨ net.kind c = .timed) → ∀ r, outRow net fl c r ≤ x c r) ∧
    (∀ c, c < net.nC → net.kind c = .timed → outRow net fl c 0 = x c 0) ∧
    (∀ l, l < net.nL → net.tlink l = true → fl l 0 = 0) := by
  obtain ⟨ha, hb', hc', hd⟩ := resolve_facts h hc hx
  refine ⟨balance_nonneg hp js (fun l _ r => ha l r) hb, ?_, ?_, balance_tlink_row0 h js hd hb⟩
  · intro c hcc hk r
    rw [outRow_balance js hb (not_junction_of_nt hk)]
    exact hb' c hcc hk r
  · intro c hcc hk
    rw [outRow_balance js hb (not_junction_of_nt (Or.inr hk))]
    exact hc' c hcc hk

/-- … and for `flows` of a step (restricted hypotheses: only in-range rows of the state need to be non-negative) -/
theorem flows_facts (h : wfCheck net = true) {dt : Rat} (hdt : 0 ≤ dt) {pv : Nat → Rat} (hp : PropsNonneg net pv)
    {x : Stock} (hx : StockNonneg net x) {fl : Flow} (hf : flows net dt pv x = some fl) :
    FlowNonneg net fl ∧
    (∀ c, c < net.nC → (net.kind c = .normal ∨ net.kind c = .timed) → ∀ r, r < net.nrows c → outRow net fl c r ≤ x c r) ∧
    (∀ c, c < net.nC → net.kind c = .timed → outRow net fl c 0 = x c 0) ∧
    (∀ l, l < net.nL → net.tlink l = true → fl l 0 = 0) := by
  have wf := wf_of_check h
  refine ⟨flows_nonneg h hdt hp hx hf, ?_, ?_, ?_⟩
  · intro c hc hk r hr
    rw [outRow_flows hf (not_junction_of_nt hk)]
    exact resolve_no_overdraw h _ hc hk (hx c hc r hr)
  · intro c hc hk
    rw [outRow_flows hf (not_junction_of_nt (Or.inr hk))]
    exact resolve_row0_emptied h _ hc hk (hx c hc 0 (wf.nrows_pos c hc))
  · unfold flows at hf
    exact balance_tlink_row0 h net.jorder (fun l hl ht => resolve_tlink_row0 h _ x hl ht) hf

/-! ## 6. the "numerical-artifact clip" is never active in exact arithmetic -/

/-- `updateComps` without the two clips (`if v > 0 … else 0`, `vals[vals < 0] = 0`) -/
def updateNoClip (net : Net) (x : Stock) (fl : Flow) : Stock := fun c r =>
  match net.kind c with
  | .normal => if r = 0 then x c 0 - outRow net fl c 0 + inAll net fl c else 0
  | .sink => if r = 0 then x c 0 + inAll net fl c else 0
  | .timed =>
      let n := net.nrows c
      let y := fun r => x c r - outRow net fl c r + inTimedRow net fl c r
      let z := fun r => if n ≤ 1 then y r else if r + 1 < n then y (r + 1) else 0
      if r < n then z r + (if r + 1 = n then inUntimed net fl c else 0) else 0
  | _ => x c r

theorem ite_neg_of_nonneg {v : Rat} (h : 0 ≤ v) : (if v < 0 then 0 else v) = v := by
  rw [if_neg (not_lt.mpr h)]

/-- whenever no row is over-drawn and flows are non-negative, the clips in `update` do nothing -/
theorem update_eq_noclip (h : wfCheck net = true) {x : Stock} {fl : Flow} (hfl : FlowNonneg net fl)
    (hod : ∀ c, c < net.nC → (net.kind c = .normal ∨ net.kind c = .timed) → ∀ r, r < net.nrows c → outRow net fl c r ≤ x c r)
    {c : Nat} (hc : c < net.nC) (r : Nat) : updateComps net x fl c r = updateNoClip net x fl c r := by
  have wf := wf_of_check h
  unfold updateComps updateNoClip
  cases hk : net.kind c <;> simp only
  · -- normal
    by_cases hr : r = 0
    · rw [if_pos hr, if_pos hr]
      have h1 := hod c hc (Or.inl hk) 0 (wf.nrows_pos c hc)
      have h2 := inAll_nonneg net hfl c
      exact clip0_of_nonneg (by linarith)
    · rw [if_neg hr, if_neg hr]
  · -- timed
    by_cases hr : r < net.nrows c
    · rw [if_pos hr, if_pos hr]
      apply ite_neg_of_nonneg
      have hy : ∀ r', r' < net.nrows c → 0 ≤ x c r' - outRow net fl c r' + inTimedRow net fl c r' := by
        intro r' hr'
        have h1 := hod c hc (Or.inr hk) r' hr'
        have h2 := inTimedRow_nonneg net hfl c r'
        linarith
      apply add_nonneg
      · split
        · exact hy r hr
        · split
          · next h2 => exact hy (r + 1) h2
          · exact le_refl _
      · split
        · exact inUntimed_nonneg net hfl c
        · exact le_refl _
    · rw [if_neg hr, if_neg hr]

/-- ONE STEP: the next state is the un-clipped balance — in exact arithmetic the clip never fires, so it can
    only ever remove floating-point dust -/
theorem step_clip_inactive (h : wfCheck net = true) {dt : Rat} (hdt : 0 ≤ dt) {pv : Nat → Rat} (hp : PropsNonneg net pv)
    {x : Stock} (hx : StockNonneg net x) {fl : Flow} {x' : Stock} (hs : step net dt pv x = some (fl, x'))
    {c : Nat} (hc : c < net.nC) (r : Nat) : x' c r = updateNoClip net x fl c r := by
  have hfl := (step_nonneg h hdt hp hx hs).1
  have hod := fun c hc hk r hr => step_no_overdraw h hx hs (c := c) (r := r) hc hk hr
  unfold step at hs
  cases hf : flows net dt pv x with
  | none => rw [hf] at hs; exact absurd hs (by simp)
  | some fl0 =>
    rw [hf] at hs
    simp only [Option.map_some, Option.some.injEq, Prod.mk.injEq] at hs
    obtain ⟨rfl, rfl⟩ := hs
    exact update_eq_noclip h hfl hod hc r

/-! ## 7. non-vacuity: a concrete well-formed net on which every hypothesis holds and the interesting branches fire

  compartments: 0 ordinary (100 people), 1 timed with 2 rows (4 + 6 people), 2 plain junction, 3 sink, 4 source
  links: 0: 0→1 rate 3/yr,  1: 0→2 duration 1/2 yr,  2: 1→3 flush,  3: 2→0 proportion 1/4,  4: 2→3 proportion 3/4,
         5: 4→0 number 7/yr,  6: 1→3 rate 5/yr (ordinary link out of the timed compartment);   dt = 1 -/

def exNet : Net where
  nC := 5
  nL := 7
  nP := 6
  kind := fun c => match c with | 0 => .normal | 1 => .timed | 2 => .junction | 3 => .sink | 4 => .source | _ => .normal
  nrows := fun c => if c = 1 then 2 else 1
  src := fun l => match l with | 0 => 0 | 1 => 0 | 2 => 1 | 3 => 2 | 4 => 2 | 5 => 4 | 6 => 1 | _ => 0
  dst := fun l => match l with | 0 => 1 | 1 => 2 | 2 => 3 | 3 => 0 | 4 => 3 | 5 => 0 | 6 => 3 | _ => 0
  par := fun l => match l with | 0 => some 0 | 1 => some 1 | 2 => none | 3 => some 2 | 4 => some 3 | 5 => some 4 | 6 => some 5 | _ => none
  tlink := fun _ => false
  lrows := fun l => if l = 2 ∨ l = 6 then 2 else 1
  isFlush := fun l => l == 2
  jgroup := fun _ => false
  units := fun p => match p with | 0 => .frac | 1 => .dur | 2 => .prop | 3 => .prop | 4 => .num | 5 => .frac | _ => .frac
  tscale := fun _ => 1
  jorder := [2]

def exX : Stock := fun c r => match c, r with | 0, 0 => 100 | 1, 0 => 4 | 1, 1 => 6 | _, _ => 0
def exPv : Nat → Rat := fun p => match p with | 0 => 3 | 1 => 1 / 2 | 2 => 1 / 4 | 3 => 3 / 4 | 4 => 7 | 5 => 5 | _ => 0
/-- the same with a negative rate on link 0 -/
def exPvNeg : Nat → Rat := fun p => match p with | 0 => -3 | 1 => 1 / 2 | 2 => 1 / 4 | 3 => 3 / 4 | 4 => 7 | 5 => 5 | _ => 0
/-- all proportions of the junction zero: the known hole D12 (0·p/0 in `JunctionCompartment.balance`) -/
def exPvZero : Nat → Rat := fun p => match p with | 0 => 3 | 1 => 1 / 2 | 4 => 7 | 5 => 5 | _ => 0

example : wfCheck exNet = true := by decide +kernel
theorem exNet_wf : wfCheck exNet = true := by decide +kernel
theorem exX_nonneg : StockNonneg exNet exX := by unfold StockNonneg; decide +kernel
theorem exPv_props : PropsNonneg exNet exPv := by unfold PropsNonneg; decide +kernel
theorem exPv_wellPosed : WellPosed exNet exPv := by unfold WellPosed; decide +kernel

/-- the rescale branch is active in the example: requests out of compartment 0 sum to 3 + 2 = 5 > 1,
    and out of row 1 of the timed compartment to 5 > 1 -/
example : outReq exNet (convert exNet 1 exPv exX) 0 0 = 5 := by decide +kernel
example : outReq exNet (convert exNet 1 exPv exX) 1 1 = 5 := by decide +kernel
/-- … and the flows are 60 and 40 (ratio 3 : 2 kept, compartment emptied), the timed row 1 loses all 6 people,
    row 0 loses 4 through link 6 and nothing is left for the flush link -/
example : resolveFlow exNet (convert exNet 1 exPv exX) exX 0 0 = 60
    ∧ resolveFlow exNet (convert exNet 1 exPv exX) exX 1 0 = 40
    ∧ resolveFlow exNet (convert exNet 1 exPv exX) exX 6 1 = 6
    ∧ resolveFlow exNet (convert exNet 1 exPv exX) exX 6 0 = 4
    ∧ resolveFlow exNet (convert exNet 1 exPv exX) exX 2 0 = 0 := by decide +kernel

/-- the step of the example is defined, so the hypotheses of `step_nonneg`, `step_no_overdraw`, `step_ratio`,
    `step_rescale_exact`, `step_clip_inactive`, `run_nonneg` (one-element stream) are jointly satisfiable -/
example : step exNet 1 exPv exX ≠ none := step_defined 1 exPv_wellPosed exX
example : run exNet 1 [exPv, exPv, exPv] exX ≠ none :=
  run_defined 1 _ (by intro pv hpv; simp at hpv; rcases hpv with rfl; exact exPv_wellPosed) exX
example : ∃ fl x', step exNet 1 exPv exX = some (fl, x') ∧ FlowNonneg exNet fl ∧ StockNonneg exNet x' := by
  cases hs : step exNet 1 exPv exX with
  | none => exact absurd hs (step_defined 1 exPv_wellPosed exX)
  | some s =>
    obtain ⟨fl, x'⟩ := s
    exact ⟨fl, x', rfl, step_nonneg exNet_wf (by decide +kernel) exPv_props exX_nonneg hs⟩

/-- a negative rate: cached fraction 0, flow 0 (hypotheses of `neg_param_zero_flow` satisfiable) -/
example : exNet.par 0 = some 0 ∧ exPvNeg 0 ≤ 0 ∧ resolveFlow exNet (convert exNet 1 exPvNeg exX) exX 0 0 = 0 :=
  ⟨rfl, by decide +kernel, neg_param_zero_flow exNet_wf 1 exX (by decide) rfl (by decide +kernel) 0⟩

/-- all proportions zero while people flow into the junction (link 1 carries 40): the step is undefined (`none`);
    the code computes `40 · 0 / 0`.  Outside the property's domain ("whenever a plain junction receives people the
    sum of its proportions is positive"). -/
example : step exNet 1 exPvZero exX = none := by
  have h : flows exNet 1 exPvZero exX = none := by
    unfold flows
    rw [balance_undefined_iff]
    exact ⟨[], 2, [], _, rfl, rfl, rfl, by decide +kernel, by decide +kernel⟩
  unfold step
  rw [h]; rfl

/-- the same proportions but nobody enters the junction (duration parameter of link 1 is 0 → cached fraction 0):
    the step is defined (the guarded `0 · 0 / 0` case, fix fc608db — formerly D12) -/
def exPvZeroNoIn : Nat → Rat := fun p => match p with | 0 => 3 | 4 => 7 | 5 => 5 | _ => 0
example : (step exNet 1 exPvZeroNoIn exX).isSome = true := by decide +kernel
example : ¬ WellPosed exNet exPvZeroNoIn := by unfold WellPosed; decide +kernel

end Atomica.C02
