/-
  C11 — the saturation curve with the real exponential.
  `Real.exp` satisfies every assumption the C11 theorems make about the abstract `E`
  (positive, monotone, `exp 0 = 1`, and the Padé bound `(2-u)/(2+u) ≤ exp(-u)`, i.e. `tanh y ≤ y`),
  so the curve lemmas hold for the function the code evaluates (up to libm rounding).
  This is the only file importing analysis modules.
-/
import AtomicaProofs.Lemmas.Coverage
import Mathlib.Analysis.SpecialFunctions.ExpDeriv
import Mathlib.Analysis.Calculus.Deriv.MeanValue

namespace Atomica.C11
open Atomica.CoverageLemmas

theorem expLike_real : ExpLike Real.exp :=
  ⟨Real.exp_pos, Real.exp_monotone, Real.exp_zero⟩

/-- `g u = exp(-u)(2+u) + u - 2` has derivative `1 - exp(-u)(1+u) ≥ 0` and `g 0 = 0`. -/
private noncomputable def g (u : ℝ) : ℝ := Real.exp (-u) * (2 + u) + u - 2

private theorem g_hasDeriv (u : ℝ) : HasDerivAt g (1 - Real.exp (-u) * (1 + u)) u := by
  have h1 : HasDerivAt (fun u : ℝ => Real.exp (-u)) (Real.exp (-u) * (-1)) u :=
    (Real.hasDerivAt_exp (-u)).comp u (hasDerivAt_neg u)
  have h2 : HasDerivAt (fun u : ℝ => 2 + u) 1 u := by
    simpa using (hasDerivAt_id u).const_add (2 : ℝ)
  have h3 : HasDerivAt g (Real.exp (-u) * (-1) * (2 + u) + Real.exp (-u) * 1 + 1) u :=
    ((h1.mul h2).add (hasDerivAt_id u)).sub_const (2 : ℝ)
  exact h3.congr_deriv (by ring)

private theorem g_deriv_nonneg (u : ℝ) : 0 ≤ 1 - Real.exp (-u) * (1 + u) := by
  -- exp(u) ≥ 1 + u  ⇒  exp(-u)(1+u) ≤ 1
  have h := Real.add_one_le_exp u
  have hpos := Real.exp_pos (-u)
  have hmul : Real.exp (-u) * Real.exp u = 1 := by rw [← Real.exp_add]; simp
  have : Real.exp (-u) * (1 + u) ≤ Real.exp (-u) * Real.exp u :=
    mul_le_mul_of_nonneg_left (by linarith) hpos.le
  linarith

private theorem g_mono : Monotone g :=
  monotone_of_deriv_nonneg (fun u => (g_hasDeriv u).differentiableAt)
    (fun u => by rw [(g_hasDeriv u).deriv]; exact g_deriv_nonneg u)

theorem pade_real : PadeBound Real.exp := by
  intro u hu
  have h := g_mono hu
  have g0 : g 0 = 0 := by simp [g]
  rw [g0] at h
  unfold g at h
  linarith

/-- **satcurve_real** — the assumptions are discharged for the real exponential -/
theorem satcurve_real : ExpLike Real.exp ∧ PadeBound Real.exp := ⟨expLike_real, pade_real⟩

/-- consequences for the curve the code evaluates (mathematically): `s·tanh(x/s)` written with `exp` -/
theorem satcurve_real_bounds {s x : ℝ} (hs : 0 < s) (hx : 0 ≤ x) :
    0 ≤ curve Real.exp s x ∧ curve Real.exp s x < s ∧ curve Real.exp s x ≤ x :=
  ⟨curve_nonneg expLike_real hs hx, curve_lt_sat expLike_real x hs, curve_le_raw pade_real expLike_real hs hx⟩

theorem satcurve_real_mono {s x y : ℝ} (hs : 0 < s) (hxy : x ≤ y) :
    curve Real.exp s x ≤ curve Real.exp s y :=
  curve_mono expLike_real hs hxy

end Atomica.C11
