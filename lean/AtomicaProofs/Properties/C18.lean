/-
  C18 — Input files are accepted and runnable, or rejected with the dedicated error.

  `Rules.validate` (the rule checker, written branch by branch after `ProjectFramework._validate_*`) accepts a
  framework exactly when it satisfies `Documented`, the same rules stated declaratively; every rejection carries a
  rule of a dedicated class; an accepted framework instantiates to a well-formed net.
-/
import AtomicaProofs.Lemmas.Rules
namespace Atomica.C18
open Atomica.Rules

/-! ## The documented rules, declaratively -/

/-- A compartment row. -/
structure CompOK (fw : FrameworkAbs) (c : Comp) : Prop where
  /-- at most one of sink / source / junction -/
  oneKind : (c.isSink = true → c.isSource = false ∧ c.isJunction = false) ∧ (c.isSource = true → c.isJunction = false)
  /-- only ordinary compartments and junctions can be initialised -/
  swKind : c.sw > 0 → c.isSource = false ∧ c.isSink = false
  /-- a compartment used for initialisation needs a value: a databook page or a default -/
  swData : c.sw > 0 → c.hasPage = true ∨ c.default.isSome = true
  /-- outside the databook the only default is 0 -/
  defaultZero : c.hasPage = false → ∀ d, c.default = some d → d = 0
  /-- sources and sinks do not appear in the databook -/
  pageKind : c.hasPage = true → c.isSource = false ∧ c.isSink = false
  /-- only databook quantities can be calibrated -/
  calibratePage : c.calibrate = true → c.hasPage = true
  popKnown : c.pop ∈ fw.popTypes

theorem checkComp_iff (fw : FrameworkAbs) (c : Comp) : checkComp fw c = none ↔ CompOK fw c := by
  obtain ⟨name, display, isSink, isSource, isJunction, pop, hasPage, dflt, sw, calibrate⟩ := c
  simp only [checkComp, flagCount, seqC_cons_eq_none, seqC_nil, req_eq_none, and_true]
  constructor
  · rintro ⟨h1, h2, h3, h4, h5, h6, h7⟩
    refine ⟨?_, ?_, ?_, ?_, ?_, ?_, ?_⟩
    · clear h2 h3 h4 h5 h6 h7
      revert h1
      cases isSink <;> cases isSource <;> cases isJunction <;> simp
    · intro hsw
      have : decide (sw > 0) = true := by simpa using hsw
      simp [this] at h2
      exact h2
    · intro hsw
      have : decide (sw > 0) = true := by simpa using hsw
      simp [this] at h3
      cases hasPage <;> cases dflt <;> simp_all
    · intro hp d hd
      subst hd
      simp at hp
      subst hp
      simpa using h4
    · intro hp
      simp at hp
      subst hp
      simpa using h5
    · intro hc
      simp at hc
      subst hc
      simpa using h6
    · simpa using h7
  · rintro ⟨h1, h2, h3, h4, h5, h6, h7⟩
    simp only at h1 h2 h3 h4 h5 h6 h7
    refine ⟨?_, ?_, ?_, ?_, ?_, ?_, ?_⟩
    · clear h2 h3 h4 h5 h6 h7
      revert h1
      cases isSink <;> cases isSource <;> cases isJunction <;> simp
    · by_cases hsw : sw > 0
      · have := h2 hsw
        simp [this.1, this.2]
      · simp [hsw]
    · by_cases hsw : sw > 0
      · rcases h3 hsw with h | h
        · simp [h]
        · cases dflt <;> simp_all
      · simp [hsw]
    · cases hasPage
      · cases dflt with
        | none => simp
        | some d => simpa using h4 rfl d rfl
      · simp
    · cases hasPage
      · simp
      · have := h5 rfl
        simp [this.1, this.2]
    · cases calibrate
      · simp
      · simp [h6 rfl]
    · simpa using h7

/-- The denominator `d` of characteristic `h`: defined, of the same population type, itself without denominator, and in
    the databook whenever `h` is used for initialisation. -/
def DenomOK (fw : FrameworkAbs) (h : Charac) (d : String) : Prop :=
  (∃ c, findComp fw d = some c ∧ h.pop = c.pop ∧ (h.sw > 0 → c.hasPage = true)) ∨
  (findComp fw d = none ∧ ∃ g, findCharac fw d = some g ∧ h.pop = g.pop ∧ g.denom = none ∧ (h.sw > 0 → g.hasPage = true))

/-- A component of `h`: a compartment, or a characteristic without denominator (a number of people), of the same population type. -/
def ComponentOK (fw : FrameworkAbs) (h : Charac) (n : String) : Prop :=
  (∃ c, findComp fw n = some c ∧ h.pop = c.pop) ∨ (findComp fw n = none ∧ ∃ g, findCharac fw n = some g ∧ h.pop = g.pop ∧ g.denom = none)

structure CharacOK (fw : FrameworkAbs) (h : Charac) : Prop where
  swData : h.sw > 0 → h.hasPage = true ∨ h.default.isSome = true
  defaultZero : h.hasPage = false → ∀ d, h.default = some d → d = 0
  denom : ∀ d, h.denom = some d → DenomOK fw h d
  calibratePage : h.calibrate = true → h.hasPage = true
  popKnown : h.pop ∈ fw.popTypes
  components : ∀ n ∈ h.components, ComponentOK fw h n

theorem checkDenom_iff (fw : FrameworkAbs) (h : Charac) : checkDenom fw h = none ↔ ∀ d, h.denom = some d → DenomOK fw h d := by
  unfold checkDenom DenomOK
  cases hd : h.denom with
  | none => simp
  | some d =>
      simp only [Option.some.injEq, forall_eq']
      cases hc : findComp fw d with
      | some c =>
          simp only [seqC_cons_eq_none, seqC_nil, req_eq_none, and_true, Option.some.injEq, exists_eq_left', reduceCtorEq, false_and, or_false, beq_iff_eq]
          constructor
          · rintro ⟨h1, h2⟩
            refine ⟨h1, fun hsw => ?_⟩
            have : decide (h.sw > 0) = true := by simpa using hsw
            simpa [this] using h2
          · rintro ⟨h1, h2⟩
            refine ⟨h1, ?_⟩
            by_cases hsw : h.sw > 0
            · simp [h2 hsw]
            · simp [hsw]
      | none =>
          cases hg : findCharac fw d with
          | some g =>
              simp only [seqC_cons_eq_none, seqC_nil, req_eq_none, and_true, Option.some.injEq, exists_eq_left', reduceCtorEq, false_and, exists_false, false_or, true_and, beq_iff_eq, Option.isNone_iff_eq_none]
              constructor
              · rintro ⟨h1, h2, h3⟩
                refine ⟨h1, h2, fun hsw => ?_⟩
                have : decide (h.sw > 0) = true := by simpa using hsw
                simpa [this] using h3
              · rintro ⟨h1, h2, h3⟩
                refine ⟨h1, h2, ?_⟩
                by_cases hsw : h.sw > 0
                · simp [h3 hsw]
                · simp [hsw]
          | none => simp

theorem checkComponent_iff (fw : FrameworkAbs) (h : Charac) (n : String) : checkComponent fw h n = none ↔ ComponentOK fw h n := by
  unfold checkComponent ComponentOK
  cases hc : findComp fw n with
  | some c => simp
  | none =>
      cases hg : findCharac fw n with
      | some g => simp
      | none => simp

theorem checkCharac_iff (fw : FrameworkAbs) (h : Charac) : checkCharac fw h = none ↔ CharacOK fw h := by
  simp only [checkCharac, seqC_cons_eq_none, seqC_nil, req_eq_none, and_true, checkDenom_iff, allC_eq_none, checkComponent_iff]
  constructor
  · rintro ⟨h1, h2, h3, h4, h5, h6⟩
    refine ⟨?_, ?_, h3, ?_, ?_, h6⟩
    · intro hsw
      have : decide (h.sw > 0) = true := by simpa using hsw
      simp [this] at h1
      revert h1
      cases h.hasPage <;> cases h.default <;> simp
    · intro hp d hd
      rw [hp, hd] at h2
      simpa using h2
    · intro hc
      rw [hc] at h4
      simpa using h4
    · simpa using h5
  · rintro ⟨h1, h2, h3, h4, h5, h6⟩
    refine ⟨?_, ?_, h3, ?_, ?_, h6⟩
    · by_cases hsw : h.sw > 0
      · rcases h1 hsw with hp | hp
        · simp [hp]
        · revert hp
          cases h.default <;> simp
      · simp [hsw]
    · cases hp : h.hasPage
      · cases hd : h.default with
        | none => simp
        | some d => simpa using h2 hp d hd
      · simp
    · cases hc : h.calibrate
      · simp
      · simp [h4 hc]
    · simpa using h5

/-- A quantity used for initialisation expands to compartments that can be initialised (no source, no sink). -/
def InitOK (fw : FrameworkAbs) (h : Charac) : Prop :=
  h.hasPage = true → h.sw ≠ 0 → ∀ l, expandName fw (fuel fw) h.name = some l → ∀ c ∈ l, isSinkC fw c = false ∧ isSourceC fw c = false

theorem checkInit_iff (fw : FrameworkAbs) (h : Charac) : checkInit fw h = none ↔ InitOK fw h := by
  unfold checkInit InitOK
  by_cases hp : h.hasPage = true
  · by_cases hs : h.sw = 0
    · simp [hp, hs]
    · cases he : expandName fw (fuel fw) h.name with
      | none => simp [hp, hs]
      | some l => simp [hp, hs, List.all_eq_true]
  · have hp' : h.hasPage = false := by simpa using hp
    simp [hp']

/-- One entry of a transition-matrix cell: a parameter of the matrix's population type, or the residual marker `>` which
    is only meaningful out of a junction and never into a source. -/
def LinkParOK (fw : FrameworkAbs) (m : Matrix) (l : Link) : Option String → Prop
  | none => isJunctionC fw l.src = true ∧ isSourceC fw l.dst = false
  | some n => ∃ par, findPar fw n = some par ∧ par.pop = m.pop

structure MatrixOK (fw : FrameworkAbs) (m : Matrix) : Prop where
  popKnown : m.pop ∈ fw.popTypes
  comps : ∀ n ∈ m.comps, ∃ c, findComp fw n = some c ∧ c.pop = m.pop
  links : ∀ l ∈ m.links, ∀ p ∈ l.pars, LinkParOK fw m l p

theorem checkLinkPar_iff (fw : FrameworkAbs) (m : Matrix) (l : Link) (p : Option String) :
    checkLinkPar fw m l p = none ↔ LinkParOK fw m l p := by
  cases p with
  | none => simp [checkLinkPar, LinkParOK]
  | some n =>
      simp only [checkLinkPar, LinkParOK]
      cases hp : findPar fw n with
      | none => simp
      | some par => simp

theorem checkMatrix_iff (fw : FrameworkAbs) (m : Matrix) : checkMatrix fw m = none ↔ MatrixOK fw m := by
  simp only [checkMatrix, seqC_cons_eq_none, seqC_nil, req_eq_none, and_true, allC_eq_none, checkLink, checkLinkPar_iff]
  constructor
  · rintro ⟨h1, h2, h3⟩
    refine ⟨by simpa using h1, ?_, h3⟩
    intro n hn
    have := h2 n hn
    unfold checkMatComp at this
    cases hc : findComp fw n with
    | none => simp [hc] at this
    | some c => simpa [hc] using this
  · rintro ⟨h1, h2, h3⟩
    refine ⟨by simpa using h1, ?_, h3⟩
    intro n hn
    obtain ⟨c, hc, hpop⟩ := h2 n hn
    simp [checkMatComp, hc, hpop]

/-! ### parameters -/

/-- an end point of a compartment-flow dependency `a:b` -/
def FlowCompOK (fw : FrameworkAbs) (par : Par) (f : Fn) : Option String → Prop
  | none => True
  | some n => ∃ c, findComp fw n = some c ∧ (f.agg.isCross = true ∨ c.pop = par.pop)

/-- A dependency of the function of `par`:
    * `t`, `dt`;
    * a compartment or characteristic of the same population type (any type inside `SRC_POP_*`);
    * an interaction: only inside an aggregation, pointing *to* the parameter's type, every other argument of the *from* type,
      and not `TGT_POP_*` when the interaction crosses types;
    * a parameter of the same population type (any type inside an aggregation), not the parameter itself unless a derivative;
    * a flow rate: never inside an aggregation, never in a transition parameter, and the parameter / compartments must exist. -/
def DepOK (fw : FrameworkAbs) (par : Par) (f : Fn) : Dep → Prop
  | .parFlow q =>
      f.agg.isAgg = false ∧ isTransition fw par.name = false ∧
        ∃ qp, findPar fw q = some qp ∧ (f.agg.isCross = true ∨ qp.pop = par.pop) ∧ isTransition fw q = true
  | .compFlow a b => f.agg.isAgg = false ∧ isTransition fw par.name = false ∧ FlowCompOK fw par f a ∧ FlowCompOK fw par f b
  | .var n =>
      n = "t" ∨ n = "dt" ∨
      (∃ c, findComp fw n = some c ∧ (f.agg.isCross = true ∨ c.pop = par.pop)) ∨
      (findComp fw n = none ∧ ∃ h, findCharac fw n = some h ∧ (f.agg.isCross = true ∨ h.pop = par.pop)) ∨
      (findComp fw n = none ∧ findCharac fw n = none ∧ ∃ i, findInter fw n = some i ∧ f.agg.isAgg = true ∧ i.toPop = par.pop ∧
          (∀ d2 ∈ f.deps, ∃ n2, depName d2 = some n2 ∧ (n2 = n ∨ popOf fw n2 = some i.fromPop)) ∧
          (i.toPop ≠ i.fromPop → f.agg.isTgt = false)) ∨
      (findComp fw n = none ∧ findCharac fw n = none ∧ findInter fw n = none ∧ ∃ q, findPar fw n = some q ∧
          (q.deriv = true ∨ n ≠ par.name) ∧ (f.agg.isAgg = true ∨ q.pop = par.pop))

theorem checkFlowComp_iff (fw : FrameworkAbs) (par : Par) (f : Fn) (c : Option String) :
    checkFlowComp fw par f c = none ↔ FlowCompOK fw par f c := by
  cases c with
  | none => simp [checkFlowComp, FlowCompOK]
  | some n =>
      simp only [checkFlowComp, FlowCompOK]
      cases hc : findComp fw n with
      | none => simp
      | some c => simp

theorem checkDep_iff (fw : FrameworkAbs) (par : Par) (f : Fn) (d : Dep) : checkDep fw par f d = none ↔ DepOK fw par f d := by
  cases d with
  | parFlow q =>
      simp only [checkDep, DepOK, seqC_cons_eq_none, seqC_nil, req_eq_none, and_true, Bool.not_eq_true']
      cases hq : findPar fw q with
      | none => simp
      | some qp => simp
  | compFlow a b =>
      simp only [checkDep, DepOK, seqC_cons_eq_none, seqC_nil, req_eq_none, and_true, Bool.not_eq_true', checkFlowComp_iff]
  | var n =>
      simp only [checkDep, DepOK]
      by_cases ht : n = "t"
      · simp [ht]
      by_cases hdt : n = "dt"
      · simp [hdt]
      have h1 : (n == "t" || n == "dt") = false := by simp [ht, hdt]
      simp only [h1, Bool.false_eq_true, if_false, ht, hdt, false_or]
      cases hc : findComp fw n with
      | some c => simp
      | none =>
        cases hh : findCharac fw n with
        | some h => simp
        | none =>
          cases hi : findInter fw n with
          | some i =>
              simp only [seqC_cons_eq_none, seqC_nil, req_eq_none, and_true, allC_eq_none, reduceCtorEq, false_and, exists_false, or_false, false_or, true_and, Option.some.injEq, exists_eq_left', beq_iff_eq]
              constructor
              · rintro ⟨h1, h2, h3, h4⟩
                refine ⟨h1, h2, ?_, ?_⟩
                · intro d2 hd2
                  have := h3 d2 hd2
                  cases hn : depName d2 with
                  | none => simp [hn] at this
                  | some n2 =>
                      refine ⟨n2, rfl, ?_⟩
                      simp only [hn] at this
                      by_cases he : n2 = n
                      · exact Or.inl he
                      · right
                        simp only [he, ↓reduceIte] at this
                        cases hp : popOf fw n2 with
                        | none => simp [hp] at this
                        | some pt => simpa [hp] using this
                · intro hne
                  have hb : (i.toPop != i.fromPop) = true := by simpa using hne
                  simpa [hb] using h4
              · rintro ⟨h1, h2, h3, h4⟩
                refine ⟨h1, h2, ?_, ?_⟩
                · intro d2 hd2
                  obtain ⟨n2, hn, hor⟩ := h3 d2 hd2
                  simp only [hn]
                  by_cases he : n2 = n
                  · simp [he]
                  · rcases hor with hor | hor
                    · exact absurd hor he
                    · simp [he, hor]
                · by_cases hne : i.toPop = i.fromPop
                  · simp [hne]
                  · have := h4 hne
                    simp [this]
          | none =>
              cases hp : findPar fw n with
              | none => simp
              | some q => simp

/-- the function cell of a parameter -/
def FnOK (fw : FrameworkAbs) (par : Par) : Prop :=
  match par.fn with
  | .none => par.hasPage = true
  | .notString => False
  | .invalid => False
  | .fn f => ∀ d ∈ f.deps, DepOK fw par f d ∧ (f.agg.isAgg = true → isQuantity fw f.first = true)

theorem checkFn_iff (fw : FrameworkAbs) (par : Par) : checkFn fw par = none ↔ FnOK fw par := by
  unfold checkFn FnOK
  cases par.fn with
  | none => simp
  | notString => simp
  | invalid => simp
  | fn f =>
      simp only [allC_eq_none, seqC_cons_eq_none, seqC_nil, req_eq_none, and_true, checkDep_iff]
      constructor
      · intro h d hd
        refine ⟨(h d hd).1, fun ha => ?_⟩
        simpa [ha] using (h d hd).2
      · intro h d hd
        refine ⟨(h d hd).1, ?_⟩
        cases ha : f.agg.isAgg
        · simp
        · simpa using (h d hd).2 ha

/-- The unit rules for the links a parameter drives (`fromComps` / `toComps` = its rows / columns in the transition matrices). -/
structure TransOK (fw : FrameworkAbs) (par : Par) : Prop where
  /-- a number-format parameter can only be targeted by programs if it drives a transition -/
  notTrans : fromComps fw par.name = [] → ¬(par.format = some .number ∧ par.targetable = true)
  /-- transition parameters are in number / probability / rate / duration / proportion units -/
  format : fromComps fw par.name ≠ [] → isTransFmt par.format = true
  /-- a parameter at most once per source compartment -/
  once : (fromComps fw par.name).Nodup
  /-- no outflow from a sink; source outflows in number units; junction outflows in proportion units, and only those -/
  outflow : ∀ c ∈ fromComps fw par.name, isSinkC fw c = false ∧ (isSourceC fw c = true → par.format = some .number) ∧
      (isJunctionC fw c = true → isSourceC fw c = false → par.format = some .proportion) ∧
      (par.format = some .proportion → isJunctionC fw c = true)
  /-- a source outflow parameter drives nothing else -/
  sourceExclusive : (∃ c ∈ fromComps fw par.name, isSourceC fw c = true) → (fromComps fw par.name).length ≤ 1
  /-- no inflow to a source -/
  inflow : ∀ c ∈ toComps fw par.name, isSourceC fw c = false

theorem checkFromComp_iff (fw : FrameworkAbs) (par : Par) (c : String) :
    checkFromComp fw par c = none ↔ (isSinkC fw c = false ∧ (isSourceC fw c = true → par.format = some .number) ∧
      (isJunctionC fw c = true → isSourceC fw c = false → par.format = some .proportion) ∧
      (par.format = some .proportion → isJunctionC fw c = true)) := by
  simp only [checkFromComp, seqC_cons_eq_none, seqC_nil, req_eq_none, and_true]
  cases isSinkC fw c <;> cases isSourceC fw c <;> cases isJunctionC fw c <;> simp

theorem nSourceOut_pos (fw : FrameworkAbs) (l : List String) (hs : ∀ c ∈ l, isSinkC fw c = false) :
    0 < nSourceOut fw l ↔ ∃ c ∈ l, isSourceC fw c = true := by
  unfold nSourceOut
  rw [List.length_pos_iff_exists_mem]
  constructor
  · rintro ⟨c, hc⟩
    rw [List.mem_filter] at hc
    exact ⟨c, hc.1, by simpa using (Bool.and_eq_true _ _ ▸ hc.2).1⟩
  · rintro ⟨c, hc, hsrc⟩
    exact ⟨c, List.mem_filter.2 ⟨hc, by simp [hsrc, hs c hc]⟩⟩

theorem nSourceOut_le_length (fw : FrameworkAbs) (l : List String) : nSourceOut fw l ≤ l.length := by
  unfold nSourceOut
  exact List.length_filter_le _ _

theorem checkTransPar_iff (fw : FrameworkAbs) (par : Par) : checkTransPar fw par = none ↔ TransOK fw par := by
  unfold checkTransPar
  by_cases hfc : fromComps fw par.name = []
  · simp only [hfc, List.isEmpty_nil, if_true, req_eq_none]
    constructor
    · intro h
      refine ⟨fun _ => ?_, fun h' => absurd hfc h', by simp [hfc], by simp [hfc], by simp [hfc], ?_⟩
      · rintro ⟨h1, h2⟩
        simp [h1, h2] at h
      · intro c hc
        have : toComps fw par.name = [] := by
          unfold toComps
          unfold fromComps at hfc
          simp only [List.flatMap_eq_nil_iff, List.map_eq_nil_iff] at hfc ⊢
          exact hfc
        simp [this] at hc
    · intro h
      have := h.notTrans hfc
      cases hf : (par.format == some Fmt.number) <;> cases ht : par.targetable <;> simp
      simp at hf
      exact this ⟨hf, ht⟩
  · have hne : (fromComps fw par.name).isEmpty = false := by simpa using hfc
    simp only [hne, Bool.false_eq_true, if_false, seqC_cons_eq_none, seqC_nil, req_eq_none, and_true, allC_eq_none, checkFromComp_iff, nodupB_iff, decide_eq_true_eq]
    constructor
    · rintro ⟨h1, h2, h3, h4, h5, h6⟩
      refine ⟨fun h => absurd h hfc, fun _ => h1, h2, h3, ?_, fun c hc => by simpa using h6 c hc⟩
      rintro ⟨c, hc, hsrc⟩
      have hpos : 0 < nSourceOut fw (fromComps fw par.name) := (nSourceOut_pos fw _ (fun c hc => (h3 c hc).1)).2 ⟨c, hc, hsrc⟩
      have : decide (nSourceOut fw (fromComps fw par.name) > 0) = true := by simpa using hpos
      simp only [this, Bool.true_and, Bool.not_eq_true', decide_eq_false_iff_not] at h5
      omega
    · intro h
      refine ⟨h.format hfc, h.once, h.outflow, ?_, ?_, fun c hc => by simpa using h.inflow c hc⟩
      · by_cases hpos : 0 < nSourceOut fw (fromComps fw par.name)
        · have := h.sourceExclusive ((nSourceOut_pos fw _ (fun c hc => (h.outflow c hc).1)).1 hpos)
          have := nSourceOut_le_length fw (fromComps fw par.name)
          omega
        · omega
      · by_cases hpos : 0 < nSourceOut fw (fromComps fw par.name)
        · have := h.sourceExclusive ((nSourceOut_pos fw _ (fun c hc => (h.outflow c hc).1)).1 hpos)
          have h2 : decide ((fromComps fw par.name).length > 1) = false := by simpa using this
          simp [h2]
        · have h2 : decide (nSourceOut fw (fromComps fw par.name) > 0) = false := by simpa using hpos
          simp [h2]

/-- A parameter row. -/
structure ParOK (fw : FrameworkAbs) (par : Par) : Prop where
  popKnown : par.pop ∈ fw.popTypes
  /-- a derivative parameter needs a function (the derivative) and a databook page (the initial value) -/
  derivFn : par.deriv = true → fnIsNone par.fn = false
  derivPage : par.deriv = true → par.hasPage = true
  /-- timescale > 0, none for proportions, and only together with units -/
  timescale : ∀ ts, par.timescale = some ts → par.format ≠ some .proportion ∧ ts > 0 ∧ par.format.isSome = true
  /-- a timed parameter is a duration, not a derivative, not targetable -/
  timed : par.timed = true → par.format = some .duration ∧ par.deriv = false ∧ par.targetable = false
  fn : FnOK fw par
  trans : TransOK fw par

theorem checkTimescale_iff (par : Par) :
    checkTimescale par = none ↔ ∀ ts, par.timescale = some ts → par.format ≠ some .proportion ∧ ts > 0 ∧ par.format.isSome = true := by
  unfold checkTimescale
  cases par.timescale with
  | none => simp
  | some ts => simp

theorem checkPar_iff (fw : FrameworkAbs) (par : Par) : checkPar fw par = none ↔ ParOK fw par := by
  simp only [checkPar, seqC_cons_eq_none, seqC_nil, req_eq_none, and_true, checkTimescale_iff, checkFn_iff, checkTransPar_iff]
  constructor
  · rintro ⟨h1, h2, h3, h4, h5, h6, h7, h8, h9⟩
    refine ⟨by simpa using h1, ?_, ?_, h4, ?_, h8, h9⟩
    · intro hd
      simpa [hd] using h2
    · intro hd
      simpa [hd] using h3
    · intro ht
      refine ⟨?_, ?_, ?_⟩
      · simpa [ht] using h5
      · simpa [ht] using h6
      · simpa [ht] using h7
  · intro h
    refine ⟨by simpa using h.popKnown, ?_, ?_, h.timescale, ?_, ?_, ?_, h.fn, h.trans⟩
    · cases hd : par.deriv
      · simp
      · simp [h.derivFn hd]
    · cases hd : par.deriv
      · simp
      · simp [h.derivPage hd]
    · cases ht : par.timed
      · simp
      · simp [(h.timed ht).1]
    · cases ht : par.timed
      · simp
      · simp [(h.timed ht).2.1]
    · cases ht : par.timed
      · simp
      · simp [(h.timed ht).2.2]

/-! ### a timed parameter cannot vary -/

/-- A name whose value changes while the simulation runs: the time, the time step, a compartment, a characteristic. -/
def VaryingName (fw : FrameworkAbs) (n : String) : Prop :=
  n = "t" ∨ n = "dt" ∨ (findComp fw n).isSome = true ∨ (findCharac fw n).isSome = true

/-- Parameter `q` changes during the simulation by itself: it is integrated (a derivative parameter), or its function names
    a varying quantity.  (`Mentions`, `ParDep`, `Reaches` are in `Lemmas/Rules.lean`: `Reaches fw a b` is the
    reflexive-transitive closure of "the function of `a` names the other parameter `b`".) -/
def Varies (fw : FrameworkAbs) (q : Par) : Prop := q.deriv = true ∨ ∃ n, Mentions q n ∧ VaryingName fw n

/-- In a parameter row that passed the dependency checks, a name that is neither a parameter nor an interaction is a varying
    name: what the code calls `varying_pars` is what the documentation means. -/
theorem varies_of_variesImpl (fw : FrameworkAbs) (q : Par) (hfn : FnOK fw q) (h : VariesImpl fw q) : Varies fw q := by
  rcases h with h | ⟨n, ⟨f, hf, hd⟩, hp, hi⟩
  · exact Or.inl h
  · refine Or.inr ⟨n, ⟨f, hf, hd⟩, ?_⟩
    unfold FnOK at hfn
    rw [hf] at hfn
    have hdep := (hfn (.var n) hd).1
    simp only [DepOK] at hdep
    rcases hdep with h1 | h1 | ⟨c, hc, _⟩ | ⟨_, g, hg, _⟩ | ⟨_, _, i, hi', _⟩ | ⟨_, _, _, q', hq', _⟩
    · exact Or.inl h1
    · exact Or.inr (Or.inl h1)
    · exact Or.inr (Or.inr (Or.inl (by simp [hc])))
    · exact Or.inr (Or.inr (Or.inr (by simp [hg])))
    · rw [hi] at hi'; cases hi'
    · rw [hp] at hq'; cases hq'

theorem nodup_append_disjoint {A B : List String} (h : (A ++ B).Nodup) (n : String) (ha : n ∈ A) (hb : n ∈ B) : False :=
  (List.nodup_append.1 h).2.2 n ha n hb rfl

theorem find?_isSome_mem_names {α : Type} (name : α → String) (l : List α) (n : String)
    (h : (l.find? (fun x => name x == n)).isSome = true) : n ∈ l.map name := by
  rw [List.find?_isSome] at h
  obtain ⟨x, hx, he⟩ := h
  exact List.mem_map.2 ⟨x, hx, by simpa using he⟩

theorem find?_ne_none_mem_names {α : Type} (name : α → String) (l : List α) (n : String)
    (h : l.find? (fun x => name x == n) ≠ none) : n ∈ l.map name := by
  apply find?_isSome_mem_names name l n
  cases hf : l.find? (fun x => name x == n) with
  | none => exact absurd hf h
  | some _ => rfl

/-- When the code names are pairwise distinct and none is a reserved keyword, a varying name is neither a parameter nor an
    interaction: the documented notion is what the code evaluates. -/
theorem variesImpl_of_varies (fw : FrameworkAbs) (q : Par)
    (hkw : ∀ n ∈ codeNames fw, reservedKeywords.contains n = false) (hnd : (codeNames fw).Nodup)
    (h : Varies fw q) : VariesImpl fw q := by
  rcases h with h | ⟨n, hm, hv⟩
  · exact Or.inl h
  · refine Or.inr ⟨n, hm, ?_⟩
    have hpar : findPar fw n ≠ none → n ∈ fw.pars.map (·.name) := find?_ne_none_mem_names (fun (x : Par) => x.name) fw.pars n
    have hint : findInter fw n ≠ none → n ∈ fw.inters.map (·.name) := find?_ne_none_mem_names (fun (x : Inter) => x.name) fw.inters n
    have hcode : (findPar fw n ≠ none ∨ findInter fw n ≠ none) → n ∈ fw.pars.map (·.name) ++ (fw.inters.map (·.name) ++ fw.popTypes) := by
      rintro (h1 | h1)
      · exact List.mem_append_left _ (hpar h1)
      · exact List.mem_append_right _ (List.mem_append_left _ (hint h1))
    have hgoal : ¬(findPar fw n ≠ none ∨ findInter fw n ≠ none) → findPar fw n = none ∧ findInter fw n = none := by
      intro hno
      constructor
      · by_contra h1; exact hno (Or.inl h1)
      · by_contra h1; exact hno (Or.inr h1)
    apply hgoal
    intro hor
    have hmem := hcode hor
    unfold codeNames at hkw hnd
    simp only [List.append_assoc] at hkw hnd
    rcases hv with rfl | rfl | hc | hc
    · have := hkw "t" (List.mem_append_right _ (List.mem_append_right _ hmem))
      exact absurd this (by decide)
    · have := hkw "dt" (List.mem_append_right _ (List.mem_append_right _ hmem))
      exact absurd this (by decide)
    · have hc' := find?_isSome_mem_names (fun (x : Comp) => x.name) fw.comps n hc
      exact nodup_append_disjoint hnd n hc' (List.mem_append_right _ hmem)
    · have hc' := find?_isSome_mem_names (fun (x : Charac) => x.name) fw.characs n hc
      exact nodup_append_disjoint (List.nodup_append.1 hnd).2.1 n hc' hmem

/-! ### cascades -/

structure CascadeNameOK (fw : FrameworkAbs) (c : Cascade) : Prop where
  notKeyword : c.name ∉ reservedKeywords
  notCode : c.name ∉ codeNames fw
  notDisplay : c.name ∉ displayNames fw
  stages : ∀ s ∈ c.stages, s.name ∉ reservedKeywords

theorem checkCascadeName_iff (fw : FrameworkAbs) (c : Cascade) : checkCascadeName fw c = none ↔ CascadeNameOK fw c := by
  simp only [checkCascadeName, seqC_cons_eq_none, seqC_nil, req_eq_none, and_true, allC_eq_none]
  constructor
  · rintro ⟨h1, h2, h3, h4⟩
    exact ⟨by simpa using h1, by simpa using h2, by simpa using h3, fun s hs => by simpa using h4 s hs⟩
  · intro h
    exact ⟨by simpa using h.notKeyword, by simpa using h.notCode, by simpa using h.notDisplay, fun s hs => by simpa using h.stages s hs⟩

/-- every stage lists at least one constituent, and constituents are compartments or characteristics -/
def StageOK (fw : FrameworkAbs) (s : Stage) : Prop :=
  s.constituents ≠ [] ∧ ∀ n ∈ s.constituents, (findComp fw n).isSome = true ∨ (findCharac fw n).isSome = true

theorem checkStageDefined_iff (fw : FrameworkAbs) (s : Stage) : checkStageDefined fw s = none ↔ StageOK fw s := by
  simp only [checkStageDefined, StageOK, seqC_cons_eq_none, seqC_nil, req_eq_none, and_true, allC_eq_none]
  constructor
  · rintro ⟨h1, h2⟩
    refine ⟨by simpa using h1, fun n hn => by simpa using h2 n hn⟩
  · rintro ⟨h1, h2⟩
    refine ⟨by simpa using h1, fun n hn => by simpa using h2 n hn⟩

/-- each stage's compartment list is contained in the previous stage's -/
def Nested : List (List String) → Prop
  | [] => True
  | [_] => True
  | a :: b :: rest => (∀ x ∈ b, x ∈ a) ∧ Nested (b :: rest)

theorem nestedB_iff : ∀ (sets : List (List String)), nestedB sets = true ↔ Nested sets
  | [] => by simp [nestedB, Nested]
  | [_] => by simp [nestedB, Nested]
  | a :: b :: rest => by
      simp only [nestedB, Nested, Bool.and_eq_true, nestedB_iff (b :: rest), subsetB, List.all_eq_true]
      constructor
      · rintro ⟨h1, h2⟩
        exact ⟨fun x hx => by simpa using h1 x hx, h2⟩
      · rintro ⟨h1, h2⟩
        exact ⟨fun x hx => by simpa using h1 x hx, h2⟩

/-- `Nested` in index form: stage `i+1` is contained in stage `i` -/
theorem Nested.get : ∀ (sets : List (List String)), Nested sets →
    ∀ (i : Nat) (h : i + 1 < sets.length), ∀ x ∈ sets[i + 1], x ∈ sets[i]
  | [], _, i, h => by simp at h
  | [_], _, i, h => by simp at h
  | a :: b :: rest, hn, i, h => by
      obtain ⟨h1, h2⟩ := hn
      cases i with
      | zero => simpa using h1
      | succ i =>
          intro x hx
          have := Nested.get (b :: rest) h2 i (by simpa using h) x (by simpa using hx)
          simpa using this

theorem allSame_iff : ∀ (l : List String), allSame l = true ↔ ∀ a ∈ l, ∀ b ∈ l, a = b
  | [] => by simp [allSame]
  | x :: xs => by
      simp only [allSame, List.all_eq_true, beq_iff_eq, List.mem_cons]
      constructor
      · intro h a ha b hb
        rcases ha with rfl | ha <;> rcases hb with rfl | hb
        · rfl
        · exact (h b hb).symm
        · exact h a ha
        · rw [h a ha, h b hb]
      · intro h y hy
        exact h y (Or.inr hy) x (Or.inl rfl)

/-- One stage: a number of people (no constituent with a denominator) that expands to compartments counted once. -/
def StageSetOK (fw : FrameworkAbs) (s : Stage) : Prop :=
  ∃ l, expandList fw s.constituents = some l ∧ (∀ n ∈ s.constituents, ∀ h, findCharac fw n = some h → h.denom = none) ∧ l.Nodup

theorem checkStageSet_iff (fw : FrameworkAbs) (s : Stage) : checkStageSet fw s = none ↔ StageSetOK fw s := by
  unfold checkStageSet StageSetOK
  cases expandList fw s.constituents with
  | none => simp
  | some l =>
      simp only [seqC_cons_eq_none, seqC_nil, req_eq_none, and_true, nodupB_iff, List.all_eq_true, Option.some.injEq, exists_eq_left']
      constructor
      · rintro ⟨h1, h2⟩
        refine ⟨fun n hn h hf => ?_, h2⟩
        have := h1 n hn
        simpa [hf] using this
      · rintro ⟨h1, h2⟩
        refine ⟨fun n hn => ?_, h2⟩
        cases hf : findCharac fw n with
        | none => rfl
        | some h => simp [h1 n hn h hf]

/-- A cascade: every stage is a duplicate-free number of people, all compartments belong to one population type, and
    the stages are nested. -/
def CascadeNestedOK (fw : FrameworkAbs) (c : Cascade) : Prop :=
  (∀ s ∈ c.stages, StageSetOK fw s) ∧
  ∃ sets, stageSets fw c = some sets ∧ (∀ a ∈ popTypesOf fw sets.flatten, ∀ b ∈ popTypesOf fw sets.flatten, a = b) ∧ Nested sets

theorem checkCascadeNested_iff (fw : FrameworkAbs) (c : Cascade) : checkCascadeNested fw c = none ↔ CascadeNestedOK fw c := by
  unfold checkCascadeNested CascadeNestedOK
  simp only [seqC_cons_eq_none, seqC_nil, and_true, allC_eq_none, checkStageSet_iff]
  cases stageSets fw c with
  | none => simp
  | some sets => simp [allSame_iff, nestedB_iff]

/-! ## `Documented` -/

/-- The documented rules of a framework file. -/
structure Documented (fw : FrameworkAbs) : Prop where
  comps : ∀ c ∈ fw.comps, CompOK fw c
  characs : ∀ h ∈ fw.characs, CharacOK fw h
  /-- the includes of every characteristic bottom out in compartments (no characteristic includes itself) -/
  characsAcyclic : ∀ h ∈ fw.characs, (expandName fw (fuel fw) h.name).isSome = true
  init : ∀ h ∈ fw.characs, InitOK fw h
  inters : ∀ i ∈ fw.inters, i.fromPop ∈ fw.popTypes ∧ i.toPop ∈ fw.popTypes
  matrices : ∀ m ∈ fw.matrices, MatrixOK fw m
  /-- at most one residual link per junction -/
  residualOne : ∀ l ∈ allLinks fw, none ∈ l.pars → residualCount fw l.src ≤ 1
  /-- timed transitions: one per compartment, not from source/sink/junction, not into the compartment's own duration group -/
  timed : ∀ t ∈ timedLinks fw, TimedOK (isSpecial fw) (timedLinks fw) t
  /-- junction-to-junction flows can be resolved in some order -/
  junctionsAcyclic : ∃ rank, Ranked (junctionEdges fw) (junctionNames fw) rank
  pars : ∀ p ∈ fw.pars, ParOK fw p
  /-- the duration of a timed compartment is fixed when the model is built: a timed parameter does not depend -- directly or
      through other parameters -- on anything that varies during the simulation -/
  timedConstant : ∀ p ∈ fw.pars, p.timed = true → ∀ q ∈ fw.pars, Reaches fw p.name q.name → ¬ Varies fw q
  /-- parameter functions can be evaluated in some order (no circular dependencies, derivatives excepted) -/
  parsAcyclic : ∃ rank, Ranked (parEdges fw) (fw.pars.map (·.name)) rank
  /-- code names: unique across compartments, characteristics, parameters, interactions and population types; no reserved
      symbol, no reserved keyword -/
  codeNames : (∀ n ∈ codeNames fw, hasReservedSymbol n = false ∧ reservedKeywords.contains n = false) ∧ (codeNames fw).Nodup
  displayNames : (displayNames fw).Nodup
  cascadeNames : (fw.cascades.map (·.name)).Nodup ∧ ∀ c ∈ fw.cascades, CascadeNameOK fw c
  cascadeStages : ∀ c ∈ fw.cascades, ∀ s ∈ c.stages, StageOK fw s
  cascadeNested : ∀ c ∈ fw.cascades, CascadeNestedOK fw c

theorem firstError_iff (fw : FrameworkAbs) : firstError fw = none ↔ Documented fw := by
  simp only [firstError, earlierRules, laterRules, List.cons_append, List.nil_append,
    seqC_cons_eq_none, seqC_nil, req_eq_none, and_true, allC_eq_none, checkComp_iff, checkCharac_iff,
    checkInit_iff, checkMatrix_iff, checkPar_iff, checkCascadeName_iff, checkStageDefined_iff, checkCascadeNested_iff,
    acyclicB_iff_ranked, nodupB_iff, checkCodeNames_eq_none, checkDisplayNames_eq_none, checkTimed, timedSpec_eq_none,
    checkCharacAcyclic, checkInter, checkResidualOne, checkTimedVarying_eq_none]
  constructor
  · rintro ⟨h1, h2, h3, h4, h5, h6, h7, h8, h9, h10, hT, h11, h12, h13, h14, h15, h16, h17⟩
    refine ⟨h1, h2, h3, h4, ?_, h6, ?_, h8, h9, h10, ?_, h11, ⟨h12.1, h12.2.1⟩, h13.1, ⟨h14, h15⟩, h16, h17⟩
    · intro i hi
      simpa using h5 i hi
    · intro l hl hn
      have := h7 l hl
      simpa [hn] using this
    · intro p hp ht q hq hr hvar
      exact hT p hp ht q hq hr (variesImpl_of_varies fw q (fun n hn => (h12.1 n hn).2) h12.2.1 hvar)
  · intro h
    refine ⟨h.comps, h.characs, h.characsAcyclic, h.init, ?_, h.matrices, ?_, h.timed, h.junctionsAcyclic, h.pars, ?_, h.parsAcyclic,
      ⟨h.codeNames.1, h.codeNames.2, by simp⟩, ⟨h.displayNames, by simp⟩, h.cascadeNames.1, h.cascadeNames.2, h.cascadeStages, h.cascadeNested⟩
    · intro i hi
      simpa using h.inters i hi
    · intro l hl
      by_cases hn : none ∈ l.pars
      · simpa [hn] using h.residualOne l hl hn
      · simp [hn]
    · intro p hp ht q hq hr hvi
      exact h.timedConstant p hp ht q hq hr (varies_of_variesImpl fw q (h.pars q hq).fn hvi)

/-- **validate_iff_documented.**  The rule checker accepts a framework exactly when the framework satisfies the documented
    rules: no silent acceptance of a rule breach, no rejection of a conforming framework (at the level of the rule model). -/
theorem validate_iff_documented (fw : FrameworkAbs) : validate fw = .ok () ↔ Documented fw := by
  rw [← firstError_iff]
  unfold validate
  cases firstError fw <;> simp

/-- **validate_error_kind.**  Every rejection carries a rule of a dedicated class (`InvalidFramework`, or `InvalidCascade`
    for the two rules of `validate_cascade`) -- never the class of an internal error. -/
theorem validate_error_kind (fw : FrameworkAbs) (r : RuleId) (_h : validate fw = .error r) :
    r.cls = .invalidFramework ∨ r.cls = .invalidCascade := by
  cases r <;> simp [RuleId.cls]

/-- In the code that exists several rules surface as internal errors: the two classifications differ. -/
theorem error_kind_current_differs : ∃ r : RuleId, r.clsCurrent = .internal ∧ r.cls ≠ .internal :=
  ⟨.outflowFromSink, by decide, by decide⟩

/-! ## A timed parameter cannot depend on anything that varies during the simulation (rule `timedVarying`) -/

/-- **timedVarying_sound.**  In an accepted framework no timed parameter reaches -- reflexive-transitive closure of "the
    function of `a` names the other parameter `b`" -- a parameter that varies: a derivative parameter, or one whose function
    names the time, the time step, a compartment or a characteristic. -/
theorem timedVarying_sound (fw : FrameworkAbs) (hv : validate fw = .ok ()) (p : Par) (hp : p ∈ fw.pars) (ht : p.timed = true)
    (q : Par) (hq : q ∈ fw.pars) (hr : Reaches fw p.name q.name) : ¬ Varies fw q :=
  ((validate_iff_documented fw).1 hv).timedConstant p hp ht q hq hr

theorem validate_eq_error_iff (fw : FrameworkAbs) (r : RuleId) : validate fw = .error r ↔ firstError fw = some r := by
  unfold validate
  cases firstError fw <;> simp

/-- **timedVarying_iff.**  The rule's position made explicit: when every rule the implementation checks before it passes
    (`earlierRules`: compartments … the per-row parameter checks), the verdict is `timedVarying` exactly when some timed parameter
    reaches a parameter on which the code's predicate holds (derivative, or its function names something that is neither a
    parameter nor an interaction). -/
theorem timedVarying_iff (fw : FrameworkAbs) (hearlier : seqC (earlierRules fw) = none) :
    validate fw = .error .timedVarying ↔
      ∃ p ∈ fw.pars, p.timed = true ∧ ∃ q ∈ fw.pars, Reaches fw p.name q.name ∧ VariesImpl fw q := by
  rw [validate_eq_error_iff, firstError_of_earlier fw hearlier]
  constructor
  · intro h
    by_contra hno
    have hnone : checkTimedVarying fw = none := by
      rw [checkTimedVarying_eq_none]
      intro p hp ht q hq hr hvar
      exact hno ⟨p, hp, ht, q, hq, hr, hvar⟩
    rw [hnone] at h
    exact laterRules_ne_timedVarying fw h
  · rintro ⟨p, hp, ht, q, hq, hr, hvar⟩
    cases hc : checkTimedVarying fw with
    | none => exact absurd hvar ((checkTimedVarying_eq_none fw).1 hc p hp ht q hq hr)
    | some e =>
        rw [checkTimedVarying_eq_some fw e hc]
        rfl

/-- **timedVarying_complete.**  If every earlier rule passes and some timed parameter reaches a parameter that varies
    (declaratively: derivative, or names `t`, `dt`, a compartment or a characteristic), the verdict is `err timedVarying`.
    The code names must be distinct and not reserved (`_validate_names` runs *after* `_validate_parameters`: with a compartment
    and a constant parameter of the same name the code reads the name as the parameter -- `exCollision` below). -/
theorem timedVarying_complete (fw : FrameworkAbs) (hearlier : seqC (earlierRules fw) = none)
    (hnames : checkCodeNames (codeNames fw) [] = none)
    (p : Par) (hp : p ∈ fw.pars) (ht : p.timed = true) (q : Par) (hq : q ∈ fw.pars) (hr : Reaches fw p.name q.name)
    (hvar : Varies fw q) : validate fw = .error .timedVarying := by
  rw [timedVarying_iff fw hearlier]
  obtain ⟨h1, h2, _⟩ := (checkCodeNames_eq_none _ _).1 hnames
  exact ⟨p, hp, ht, q, hq, hr, variesImpl_of_varies fw q (fun n hn => (h1 n hn).2) h2 hvar⟩

/-- **timedVarying_reported.**  Conversely a framework rejected with `timedVarying` (all earlier rules passing) does contain a
    timed parameter that reaches a varying one, in the documented sense. -/
theorem timedVarying_reported (fw : FrameworkAbs) (hearlier : seqC (earlierRules fw) = none)
    (h : validate fw = .error .timedVarying) :
    ∃ p ∈ fw.pars, p.timed = true ∧ ∃ q ∈ fw.pars, Reaches fw p.name q.name ∧ Varies fw q := by
  obtain ⟨p, hp, ht, q, hq, hr, hvar⟩ := (timedVarying_iff fw hearlier).1 h
  have hpars : allC (checkPar fw) fw.pars = none := by
    simp only [earlierRules, seqC_cons_eq_none] at hearlier
    exact hearlier.2.2.2.2.2.2.2.2.2.1
  have hq' := (checkPar_iff fw q).1 ((allC_eq_none _ _).1 hpars q hq)
  exact ⟨p, hp, ht, q, hq, hr, varies_of_variesImpl fw q hq'.fn hvar⟩

/-! ## Consequences of acceptance -/

/-- **cascade_nested_sound.**  In an accepted framework every cascade expands, and the compartment list of stage `i+1` is
    contained in the list of stage `i`. -/
theorem cascade_nested_sound (fw : FrameworkAbs) (hv : validate fw = .ok ()) (c : Cascade) (hc : c ∈ fw.cascades) :
    ∃ sets, stageSets fw c = some sets ∧ ∀ (i : Nat) (h : i + 1 < sets.length), ∀ x ∈ sets[i + 1], x ∈ sets[i] := by
  obtain ⟨_, sets, h1, _, h3⟩ := ((validate_iff_documented fw).1 hv).cascadeNested c hc
  exact ⟨sets, h1, Nested.get sets h3⟩

/-- **acyclicB_iff_rank.**  The peeling check of the dependency graph succeeds exactly when the parameters can be ordered so
    that every dependency comes first. -/
theorem acyclicB_iff_rank (nodes : List String) (edges : List (String × String)) :
    acyclicB nodes edges = true ↔ ∃ rank : String → Nat, ∀ e ∈ edges, e.1 ∈ nodes → e.2 ∈ nodes → rank e.1 < rank e.2 :=
  acyclicB_iff_ranked nodes edges

/-- **checkCodeNames_iff.**  The loop of `_validate_names` (with its `tmp` set) accepts exactly the duplicate-free lists of
    names without reserved symbols and keywords. -/
theorem checkCodeNames_iff (names : List String) :
    checkCodeNames names [] = none ↔
      (∀ n ∈ names, hasReservedSymbol n = false ∧ reservedKeywords.contains n = false) ∧ names.Nodup := by
  rw [checkCodeNames_eq_none]
  simp

/-- **timed_current_weaker.**  Whatever the documented timed-transition rules accept, the order-dependent bookkeeping of
    `_process_transitions` accepts as well ... -/
theorem timed_current_weaker (fw : FrameworkAbs) (h : checkTimed fw = none) : checkTimedCurrent fw = none :=
  timedCur_weaker _ _ h

/-- a → b and b → c both driven by the timed parameter `p`, rows in the order a, b -/
def orderHole : FrameworkAbs :=
  { popTypes := ["default"], comps := [], characs := [], inters := [],
    pars := [{ name := "p", display := "P", pop := "default", format := some .duration, timescale := none, timed := true, deriv := false,
               targetable := false, hasPage := true, fn := .none }],
    matrices := [{ pop := "default", comps := ["a", "b", "c"],
                   links := [{ src := "a", dst := "b", pars := [some "p"] }, { src := "b", dst := "c", pars := [some "p"] }] }],
    cascades := [] }

/-- **timed_current_differs.**  ... but not conversely: with the rows in the order a, b the code does not notice that `a`
    flushes into `b`, a member of its own duration group (the model then fails to build: "Cannot flush into the same
    duration group"). -/
theorem timed_current_differs : checkTimed orderHole = some .timedSameGroup ∧ checkTimedCurrent orderHole = none := by
  constructor <;> decide +kernel

/-! ### the net of an accepted framework -/

/-- The structural hypotheses of the engine theorems (C01–C05) that come from the framework: link end points exist, sinks
    have no outflow, sources no inflow, residual links leave junctions only, junction outflows are exactly the links in
    proportion units. -/
structure WF (fw : FrameworkAbs) (net : Net) : Prop where
  endpoints : ∀ l ∈ net.links, (∃ c ∈ net.comps, c.pop = l.pop ∧ c.name = l.src) ∧ (∃ c ∈ net.comps, c.pop = l.pop ∧ c.name = l.dst)
  sinkNoOutflow : ∀ l ∈ net.links, ∀ c ∈ net.comps, c.name = l.src → c.kind ≠ .sink
  sourceNoInflow : ∀ l ∈ net.links, ∀ c ∈ net.comps, c.name = l.dst → c.kind ≠ .source
  residualFromJunction : ∀ l ∈ net.links, l.par = none → ∀ c ∈ net.comps, c.name = l.src → c.kind = .junction
  junctionProportion : ∀ l ∈ net.links, ∀ p, l.par = some p → ∀ c ∈ net.comps, c.name = l.src →
      (c.kind = .junction ↔ (findPar fw p).bind (·.format) = some .proportion)

theorem find?_name_of_nodup {α : Type} (name : α → String) : ∀ (l : List α), (l.map name).Nodup → ∀ c ∈ l,
    l.find? (fun x => name x == name c) = some c := by
  intro l
  induction l with
  | nil => intro _ c hc; simp at hc
  | cons x xs ih =>
      intro hnd c hc
      simp only [List.map_cons, List.nodup_cons] at hnd
      simp only [List.mem_cons] at hc
      rcases hc with rfl | hc
      · simp
      · have hne : name x ≠ name c := by
          intro he
          exact hnd.1 (he ▸ List.mem_map_of_mem hc)
        have : (name x == name c) = false := by simpa using hne
        simp only [List.find?_cons, this]
        exact ih hnd.2 c hc

theorem kindOf_sink (c : Comp) : kindOf c = .sink ↔ c.isSink = true := by
  obtain ⟨_, _, isSink, isSource, isJunction, _, _, _, _, _⟩ := c
  cases isSink <;> cases isSource <;> cases isJunction <;> simp [kindOf]

theorem kindOf_source (c : Comp) : kindOf c = .source ↔ c.isSink = false ∧ c.isSource = true := by
  obtain ⟨_, _, isSink, isSource, isJunction, _, _, _, _, _⟩ := c
  cases isSink <;> cases isSource <;> cases isJunction <;> simp [kindOf]

theorem kindOf_junction (c : Comp) : kindOf c = .junction ↔ c.isSink = false ∧ c.isSource = false ∧ c.isJunction = true := by
  obtain ⟨_, _, isSink, isSource, isJunction, _, _, _, _, _⟩ := c
  cases isSink <;> cases isSource <;> cases isJunction <;> simp [kindOf]

theorem comps_names_nodup (fw : FrameworkAbs) (h : Documented fw) : (fw.comps.map (·.name)).Nodup := by
  have := h.codeNames.2
  unfold codeNames at this
  simp only [List.append_assoc] at this
  exact (List.nodup_append.1 this).1

theorem pars_names_nodup (fw : FrameworkAbs) (h : Documented fw) : (fw.pars.map (·.name)).Nodup := by
  have := h.codeNames.2
  unfold codeNames at this
  simp only [List.append_assoc] at this
  exact (List.nodup_append.1 (List.nodup_append.1 (List.nodup_append.1 this).2.1).2.1).1

theorem findComp_of_mem (fw : FrameworkAbs) (h : Documented fw) (c : Comp) (hc : c ∈ fw.comps) : findComp fw c.name = some c :=
  find?_name_of_nodup (fun (x : Comp) => x.name) fw.comps (comps_names_nodup fw h) c hc

theorem mem_net_comps (fw : FrameworkAbs) (pops : List (String × String)) (nc : NComp) :
    nc ∈ (instantiate fw pops).comps ↔ ∃ p ∈ pops, ∃ c ∈ fw.comps, c.pop = p.2 ∧ nc = ⟨p.1, c.name, kindOf c⟩ := by
  simp only [instantiate, List.mem_flatMap, List.mem_map, List.mem_filter, beq_iff_eq]
  constructor
  · rintro ⟨p, hp, c, ⟨hc, hpop⟩, rfl⟩
    exact ⟨p, hp, c, hc, hpop, rfl⟩
  · rintro ⟨p, hp, c, hc, hpop, rfl⟩
    exact ⟨p, hp, c, ⟨hc, hpop⟩, rfl⟩

theorem mem_net_links (fw : FrameworkAbs) (pops : List (String × String)) (nl : NLink) :
    nl ∈ (instantiate fw pops).links ↔ ∃ p ∈ pops, ∃ m ∈ fw.matrices, m.pop = p.2 ∧ ∃ lk ∈ m.links, ∃ q ∈ lk.pars, nl = ⟨p.1, lk.src, lk.dst, q⟩ := by
  simp only [instantiate, List.mem_flatMap, List.mem_map, List.mem_filter, beq_iff_eq]
  constructor
  · rintro ⟨p, hp, m, ⟨hm, hpop⟩, lk, hlk, q, hq, rfl⟩
    exact ⟨p, hp, m, hm, hpop, lk, hlk, q, hq, rfl⟩
  · rintro ⟨p, hp, m, hm, hpop, lk, hlk, q, hq, rfl⟩
    exact ⟨p, hp, m, ⟨hm, hpop⟩, lk, hlk, q, hq, rfl⟩

theorem mem_allLinks (fw : FrameworkAbs) (m : Matrix) (hm : m ∈ fw.matrices) (lk : Link) (hlk : lk ∈ m.links) : lk ∈ allLinks fw := by
  simp only [allLinks, List.mem_flatMap]
  exact ⟨m, hm, hlk⟩

theorem mem_fromComps (fw : FrameworkAbs) (lk : Link) (hlk : lk ∈ allLinks fw) (n : String) (hn : some n ∈ lk.pars) :
    lk.src ∈ fromComps fw n ∧ lk.dst ∈ toComps fw n := by
  simp only [fromComps, toComps, List.mem_flatMap, List.mem_map, List.mem_filter]
  exact ⟨⟨lk, hlk, some n, ⟨hn, by simp⟩, rfl⟩, ⟨lk, hlk, some n, ⟨hn, by simp⟩, rfl⟩⟩

/-- **accepted_gives_WF.**  A framework accepted by `validate`, instantiated with any populations, yields a net that
    satisfies the structural hypotheses `WF`: the validator's soundness is what discharges them.
    (`matricesWF` is the representation invariant of the abstract matrix: a cell's row and column labels are labels of the
    matrix; it is evaluated on every real framework by the correspondence check.) -/
theorem accepted_gives_WF (fw : FrameworkAbs) (hv : validate fw = .ok ()) (hm : matricesWF fw = true)
    (pops : List (String × String)) : WF fw (instantiate fw pops) := by
  have hd := (validate_iff_documented fw).1 hv
  -- every matrix label is a compartment of the matrix's population type
  have hlabel : ∀ m ∈ fw.matrices, ∀ lk ∈ m.links, (∃ c ∈ fw.comps, c.name = lk.src ∧ c.pop = m.pop) ∧ (∃ c ∈ fw.comps, c.name = lk.dst ∧ c.pop = m.pop) := by
    intro m hmm lk hlk
    have hwf : m.comps.contains lk.src = true ∧ m.comps.contains lk.dst = true := by
      have := hm
      simp only [matricesWF, List.all_eq_true, Bool.and_eq_true] at this
      exact this m hmm lk hlk
    have hmo := hd.matrices m hmm
    constructor
    · obtain ⟨c, hc, hpop⟩ := hmo.comps lk.src (by simpa using hwf.1)
      have := List.find?_some hc
      exact ⟨c, List.mem_of_find?_eq_some hc, by simpa using this, hpop⟩
    · obtain ⟨c, hc, hpop⟩ := hmo.comps lk.dst (by simpa using hwf.2)
      have := List.find?_some hc
      exact ⟨c, List.mem_of_find?_eq_some hc, by simpa using this, hpop⟩
  -- the flags of the compartment called `n` in the net are those found by `findComp`
  have hflags : ∀ nc ∈ (instantiate fw pops).comps, ∃ c ∈ fw.comps, findComp fw nc.name = some c ∧ nc.kind = kindOf c := by
    intro nc hnc
    obtain ⟨p, _, c, hc, _, rfl⟩ := (mem_net_comps fw pops nc).1 hnc
    exact ⟨c, hc, findComp_of_mem fw hd c hc, rfl⟩
  -- what the rules say about a link entry
  have hpar : ∀ m ∈ fw.matrices, ∀ lk ∈ m.links, ∀ n, some n ∈ lk.pars → ∃ par, findPar fw n = some par ∧ TransOK fw par ∧ par.name = n := by
    intro m hmm lk hlk n hn
    obtain ⟨par, hpar, _⟩ := (hd.matrices m hmm).links lk hlk (some n) hn
    have hmem := List.mem_of_find?_eq_some hpar
    have hname : par.name = n := by simpa using List.find?_some hpar
    exact ⟨par, hpar, (hd.pars par hmem).trans, hname⟩
  refine ⟨?_, ?_, ?_, ?_, ?_⟩
  · intro l hl
    obtain ⟨p, hp, m, hmm, hpop, lk, hlk, q, _, rfl⟩ := (mem_net_links fw pops l).1 hl
    obtain ⟨⟨c1, hc1, hn1, hp1⟩, ⟨c2, hc2, hn2, hp2⟩⟩ := hlabel m hmm lk hlk
    constructor
    · exact ⟨⟨p.1, c1.name, kindOf c1⟩, (mem_net_comps fw pops _).2 ⟨p, hp, c1, hc1, by rw [hp1, hpop], rfl⟩, rfl, hn1⟩
    · exact ⟨⟨p.1, c2.name, kindOf c2⟩, (mem_net_comps fw pops _).2 ⟨p, hp, c2, hc2, by rw [hp2, hpop], rfl⟩, rfl, hn2⟩
  · intro l hl nc hnc hname
    obtain ⟨p, _, m, hmm, _, lk, hlk, q, hq, rfl⟩ := (mem_net_links fw pops l).1 hl
    obtain ⟨c, _, hfind, hkind⟩ := hflags nc hnc
    simp only at hname
    rw [hkind, Ne, kindOf_sink]
    cases q with
    | none =>
        have := (hd.matrices m hmm).links lk hlk none hq
        simp only [LinkParOK, isJunctionC, ← hname, hfind] at this
        have hk := (hd.comps c (List.mem_of_find?_eq_some hfind)).oneKind
        intro hs
        have := (hk.1 hs).2
        simp_all
    | some n =>
        obtain ⟨par, _, htr, hpn⟩ := hpar m hmm lk hlk n hq
        have := (htr.outflow lk.src (hpn ▸ (mem_fromComps fw lk (mem_allLinks fw m hmm lk hlk) n hq).1)).1
        simp only [isSinkC, ← hname, hfind] at this
        simp [this]
  · intro l hl nc hnc hname
    obtain ⟨p, _, m, hmm, _, lk, hlk, q, hq, rfl⟩ := (mem_net_links fw pops l).1 hl
    obtain ⟨c, _, hfind, hkind⟩ := hflags nc hnc
    simp only at hname
    rw [hkind, Ne, kindOf_source]
    cases q with
    | none =>
        have := ((hd.matrices m hmm).links lk hlk none hq).2
        simp only [isSourceC, ← hname, hfind] at this
        simp [this]
    | some n =>
        obtain ⟨par, _, htr, hpn⟩ := hpar m hmm lk hlk n hq
        have := htr.inflow lk.dst (hpn ▸ (mem_fromComps fw lk (mem_allLinks fw m hmm lk hlk) n hq).2)
        simp only [isSourceC, ← hname, hfind] at this
        simp [this]
  · intro l hl hnone nc hnc hname
    obtain ⟨p, _, m, hmm, _, lk, hlk, q, hq, rfl⟩ := (mem_net_links fw pops l).1 hl
    obtain ⟨c, hc, hfind, hkind⟩ := hflags nc hnc
    simp only at hname hnone
    subst hnone
    have := ((hd.matrices m hmm).links lk hlk none hq).1
    simp only [isJunctionC, ← hname, hfind] at this
    have hk := (hd.comps c hc).oneKind
    rw [hkind, kindOf_junction]
    refine ⟨?_, ?_, this⟩
    · cases hs : c.isSink
      · rfl
      · have := (hk.1 hs).2
        simp_all
    · cases hs : c.isSource
      · rfl
      · have := hk.2 hs
        simp_all
  · intro l hl n hsome nc hnc hname
    obtain ⟨p, _, m, hmm, _, lk, hlk, q, hq, rfl⟩ := (mem_net_links fw pops l).1 hl
    obtain ⟨c, hc, hfind, hkind⟩ := hflags nc hnc
    simp only at hname hsome
    subst hsome
    obtain ⟨par, hfp, htr, hpn⟩ := hpar m hmm lk hlk n hq
    obtain ⟨h1, h2, h3, h4⟩ := htr.outflow lk.src (hpn ▸ (mem_fromComps fw lk (mem_allLinks fw m hmm lk hlk) n hq).1)
    simp only [isSinkC, isSourceC, isJunctionC, ← hname, hfind] at h1 h2 h3 h4
    rw [hkind, kindOf_junction, hfp]
    simp only [Option.bind_some]
    constructor
    · rintro ⟨_, hs, hj⟩
      exact h3 hj hs
    · intro hf
      refine ⟨h1, ?_, h4 hf⟩
      cases hs : c.isSource
      · rfl
      · have := h2 hs
        rw [hf] at this
        simp at this

/-- **accepted_idsNodup.**  In the net of an accepted framework the compartment ids `(population, code name)` are pairwise
    distinct (the hypothesis of the unlink/relink round trip of C08), provided the population code names are. -/
theorem accepted_idsNodup (fw : FrameworkAbs) (hv : validate fw = .ok ()) (pops : List (String × String))
    (hp : (pops.map (·.1)).Nodup) : ((instantiate fw pops).comps.map (fun c => (c.pop, c.name))).Nodup := by
  have hd := (validate_iff_documented fw).1 hv
  have hn := comps_names_nodup fw hd
  simp only [instantiate, List.map_flatMap, List.map_map]
  induction pops with
  | nil => simp
  | cons p rest ih =>
      simp only [List.map_cons, List.nodup_cons] at hp
      simp only [List.flatMap_cons]
      rw [List.nodup_append]
      refine ⟨?_, ih hp.2, ?_⟩
      · have hsub : ((fw.comps.filter (fun c => c.pop == p.2)).map (·.name)).Nodup :=
          (hn.sublist (List.Sublist.map _ List.filter_sublist))
        have : (List.map ((fun c => (c.pop, c.name)) ∘ fun (c : Comp) => (⟨p.1, c.name, kindOf c⟩ : NComp)) (fw.comps.filter (fun c => c.pop == p.2)))
            = ((fw.comps.filter (fun c => c.pop == p.2)).map (·.name)).map (fun n => (p.1, n)) := by
          simp [List.map_map, Function.comp_def]
        rw [this]
        exact List.Nodup.map (f := fun n => (p.1, n)) (fun a b h => by simpa using h) hsub
      · intro a ha b hb
        simp only [List.mem_map, Function.comp_apply, List.mem_flatMap] at ha hb
        obtain ⟨c, _, rfl⟩ := ha
        obtain ⟨p', hp', c', _, rfl⟩ := hb
        intro heq
        have : p.1 = p'.1 := by simpa using congrArg Prod.fst heq
        exact hp.1 (this ▸ List.mem_map_of_mem hp')

/-! ## Non-vacuity: a concrete accepted framework, and concrete rejections -/

def exComp (name display : String) (sink source junction page : Bool) : Comp :=
  { name, display, isSink := sink, isSource := source, isJunction := junction, pop := "default", hasPage := page, default := none,
    sw := if page then 1 else 0, calibrate := page }

def exPar (name display : String) (fmt : Option Fmt) (page : Bool) (fn : FnCell) : Par :=
  { name, display, pop := "default", format := fmt, timescale := none, timed := false, deriv := false, targetable := false, hasPage := page, fn }

/-- births → sus → inf → (junction) → rec | sus, deaths into a sink; force of infection is a function of a prevalence -/
def exFw : FrameworkAbs :=
  { popTypes := ["default"],
    comps := [exComp "sus" "Susceptible" false false false true, exComp "inf" "Infected" false false false true,
              exComp "rec" "Recovered" false false false false, exComp "jn" "Junction" false false true false,
              exComp "born" "Births" false true false false, exComp "dead" "Dead" true false false false],
    characs := [{ name := "alive", display := "Alive", pop := "default", components := ["sus", "inf", "rec"], denom := none, hasPage := true,
                  default := none, sw := 1, calibrate := true },
                { name := "prev", display := "Prevalence", pop := "default", components := ["inf"], denom := some "alive", hasPage := false,
                  default := none, sw := 0, calibrate := false }],
    inters := [],
    pars := [exPar "beta" "Transmissibility" none true .none,
             exPar "foi" "Force of infection" (some .probability) false (.fn { agg := .none, first := "", deps := [.var "prev", .var "beta", .var "t"] }),
             exPar "mort" "Death rate" (some .rate) true .none,
             exPar "births" "Births per year" (some .number) true .none,
             exPar "dur" "Duration of infection" (some .duration) true .none,
             exPar "pcure" "Proportion cured" (some .proportion) true .none,
             exPar "newinf" "New infections" none false (.fn { agg := .none, first := "", deps := [.compFlow (some "sus") (some "inf"), .parFlow "mort"] })],
    matrices := [{ pop := "default", comps := ["sus", "inf", "rec", "jn", "born", "dead"],
                   links := [⟨"sus", "inf", [some "foi"]⟩, ⟨"sus", "dead", [some "mort"]⟩, ⟨"inf", "jn", [some "dur"]⟩, ⟨"inf", "dead", [some "mort"]⟩,
                             ⟨"rec", "dead", [some "mort"]⟩, ⟨"jn", "sus", [none]⟩, ⟨"jn", "rec", [some "pcure"]⟩, ⟨"born", "sus", [some "births"]⟩] }],
    cascades := [{ name := "Care cascade", stages := [⟨"Everyone", ["alive"]⟩, ⟨"Infected or recovered", ["inf", "rec"]⟩, ⟨"Infected", ["inf"]⟩] }] }

theorem exFw_accepted : validate exFw = .ok () := by
  have : firstError exFw = none := by decide +kernel
  simp [validate, this]

theorem exFw_matricesWF : matricesWF exFw = true := by decide +kernel

/-- the hypotheses of `validate_iff_documented` (→), `accepted_gives_WF`, `cascade_nested_sound`, `accepted_idsNodup` are satisfiable -/
example : Documented exFw := (validate_iff_documented exFw).1 exFw_accepted
example : WF exFw (instantiate exFw [("adults", "default"), ("kids", "default")]) := accepted_gives_WF exFw exFw_accepted exFw_matricesWF _
example : ((instantiate exFw [("adults", "default"), ("kids", "default")]).comps.map (fun c => (c.pop, c.name))).Nodup :=
  accepted_idsNodup exFw exFw_accepted _ (by decide)
example : (instantiate exFw [("adults", "default")]).links.length = 8 := by decide +kernel

/-! ### rule `timedVarying`: witnesses -/

def timedPar (fn : FnCell) : Par :=
  { name := "tdur", display := "Protected duration", pop := "default", format := some .duration, timescale := none, timed := true,
    deriv := false, targetable := false, hasPage := false, fn }

def exMatrixTimed : Matrix :=
  { pop := "default", comps := ["sus", "inf", "rec", "jn", "born", "dead"],
    links := [⟨"sus", "inf", [some "foi"]⟩, ⟨"sus", "dead", [some "mort"]⟩, ⟨"inf", "jn", [some "dur"]⟩, ⟨"inf", "dead", [some "mort"]⟩,
              ⟨"rec", "sus", [some "tdur"]⟩, ⟨"rec", "dead", [some "mort"]⟩, ⟨"jn", "sus", [none]⟩, ⟨"jn", "rec", [some "pcure"]⟩,
              ⟨"born", "sus", [some "births"]⟩] }

def basePar : Par := exPar "base" "Base duration" (some .duration) true .none

/-- `exFw` + recovered people lose protection after `tdur = 2*base`, `base` a databook parameter: a CONSTANT function -/
def exTimedConst : FrameworkAbs :=
  { exFw with pars := exFw.pars ++ [basePar, timedPar (.fn { agg := .none, first := "", deps := [.var "base"] })],
              matrices := [exMatrixTimed] }

theorem exTimedConst_accepted : validate exTimedConst = .ok () := by
  have : firstError exTimedConst = none := by decide +kernel
  simp [validate, this]

theorem exTimedConst_reaches : Reaches exTimedConst "tdur" "base" :=
  Relation.ReflTransGen.single ⟨timedPar (.fn { agg := .none, first := "", deps := [.var "base"] }), by simp [exTimedConst], rfl,
    ⟨_, rfl, by simp⟩, by decide, basePar, by simp [exTimedConst], rfl⟩

/-- non-vacuity of `timedVarying_sound`: its hypotheses hold with a timed parameter that has a (constant) function of a
    data parameter, and a non-trivial `Reaches` -/
example : ¬ Varies exTimedConst basePar :=
  timedVarying_sound exTimedConst exTimedConst_accepted (timedPar (.fn { agg := .none, first := "", deps := [.var "base"] }))
    (by simp [exTimedConst]) rfl basePar (by simp [exTimedConst]) exTimedConst_reaches

/-- direct: `tdur = 1 + rec/(rec+1)`, a function of a compartment -/
def exTimedDirect : FrameworkAbs :=
  { exFw with pars := exFw.pars ++ [timedPar (.fn { agg := .none, first := "", deps := [.var "rec", .var "rec"] })], matrices := [exMatrixTimed] }

/-- direct: `tdur = 1 + 0.01*(t - 2000)` -/
def exTimedTime : FrameworkAbs :=
  { exFw with pars := exFw.pars ++ [timedPar (.fn { agg := .none, first := "", deps := [.var "t"] })], matrices := [exMatrixTimed] }

/-- two deep: `tdur = 1 + mid`, `mid = 2*deep`, `deep = prev` (a characteristic) -/
def exTimedTwoDeep : FrameworkAbs :=
  { exFw with pars := exFw.pars ++ [timedPar (.fn { agg := .none, first := "", deps := [.var "mid"] }),
                                    exPar "mid" "Middle" none false (.fn { agg := .none, first := "", deps := [.var "deep"] }),
                                    exPar "deep" "Deep" none false (.fn { agg := .none, first := "", deps := [.var "prev"] })],
              matrices := [exMatrixTimed] }

/-- through a derivative parameter: `tdur = 1 + acc`, `acc' = beta` -/
def exTimedDeriv : FrameworkAbs :=
  { exFw with pars := exFw.pars ++ [timedPar (.fn { agg := .none, first := "", deps := [.var "acc"] }),
                                    { exPar "acc" "Accumulated" none true (.fn { agg := .none, first := "", deps := [.var "beta"] }) with deriv := true }],
              matrices := [exMatrixTimed] }

theorem exTimedDirect_rejected : validate exTimedDirect = .error .timedVarying := by
  have : firstError exTimedDirect = some .timedVarying := by decide +kernel
  simp [validate, this]

theorem exTimedTime_rejected : validate exTimedTime = .error .timedVarying := by
  have : firstError exTimedTime = some .timedVarying := by decide +kernel
  simp [validate, this]

theorem exTimedTwoDeep_rejected : validate exTimedTwoDeep = .error .timedVarying := by
  have : firstError exTimedTwoDeep = some .timedVarying := by decide +kernel
  simp [validate, this]

theorem exTimedDeriv_rejected : validate exTimedDeriv = .error .timedVarying := by
  have : firstError exTimedDeriv = some .timedVarying := by decide +kernel
  simp [validate, this]

/-- non-vacuity of `timedVarying_iff` / `_complete` / `_reported`: every earlier rule passes on the rejected witnesses -/
example : seqC (earlierRules exTimedTwoDeep) = none := by decide +kernel
example : checkCodeNames (codeNames exTimedTwoDeep) [] = none := by decide +kernel
example : ∃ p ∈ exTimedTwoDeep.pars, p.timed = true ∧ ∃ q ∈ exTimedTwoDeep.pars, Reaches exTimedTwoDeep p.name q.name ∧ Varies exTimedTwoDeep q :=
  timedVarying_reported exTimedTwoDeep (by decide +kernel) exTimedTwoDeep_rejected

/-- the names hypothesis of `timedVarying_complete` cannot be dropped: `rec` is a compartment AND a constant parameter; the code
    reads `rec` in `tdur = 2*rec` as the parameter, so the closure check passes and the framework is rejected later, for the
    duplicate name -/
def exCollision : FrameworkAbs :=
  { exFw with pars := exFw.pars ++ [exPar "rec" "Recovery constant" none true .none,
                                    timedPar (.fn { agg := .none, first := "", deps := [.var "rec"] })], matrices := [exMatrixTimed] }

example : seqC (earlierRules exCollision) = none ∧ checkTimedVarying exCollision = none ∧ firstError exCollision = some .nameDuplicate := by
  refine ⟨?_, ?_, ?_⟩ <;> decide +kernel

/-- an outflow from the sink: rejected with a rule of the dedicated class (the code raises `TypeError`, D9) -/
def exSinkOutflow : FrameworkAbs :=
  { exFw with matrices := [{ pop := "default", comps := ["sus", "inf", "rec", "jn", "born", "dead"],
                             links := [⟨"sus", "inf", [some "foi"]⟩, ⟨"dead", "sus", [some "mort"]⟩] }] }

example : validate exSinkOutflow = .error .outflowFromSink := by
  have : firstError exSinkOutflow = some .outflowFromSink := by decide +kernel
  simp [validate, this]

/-- two parameters whose functions refer to each other -/
example : acyclicB ["a", "b"] [("a", "b"), ("b", "a")] = false := by decide +kernel
example : acyclicB ["a", "b", "c"] [("a", "b"), ("b", "c"), ("a", "c")] = true := by decide +kernel

/-- a characteristic that includes itself never expands, whatever the fuel -/
def selfCharac : Charac :=
  { name := "alive", display := "Alive", pop := "default", components := ["sus", "alive"], denom := none, hasPage := true,
    default := none, sw := 1, calibrate := true }

def exSelf : FrameworkAbs := { exFw with characs := [selfCharac] }

theorem exSelf_never_expands : ∀ k, expandName exSelf k "alive" = none := by
  intro k
  induction k with
  | zero => rfl
  | succ k ih =>
      have hf : findCharac exSelf "alive" = some selfCharac := by simp [findCharac, exSelf, selfCharac]
      have hc : selfCharac.components = ["sus", "alive"] := rfl
      simp only [expandName, hf, hc, List.map_cons, List.map_nil, ih]
      cases expandName exSelf k "sus" <;> simp [optConcat]

example : firstError exSelf = some .componentUndefined ∨ firstError exSelf = some .characCyclic := by
  right; decide +kernel

example : checkCodeNames ["sus", "inf", "sus"] [] = some .nameDuplicate := by decide +kernel
example : checkCodeNames ["sus", "in f"] [] = some .nameSymbol := by decide +kernel
example : checkCodeNames ["sus", "inf"] [] = none := by decide +kernel

end Atomica.C18
