/-
  C03 (grid half) — "Output times are exactly start + k*dt, ending at the first grid point at or after
  the requested end year."  Theorems about `Atomica.Grid` (the specification the implementation's
  `ProjectSettings.tvec` is compared against, entry by entry, by harness/props/c03.py).
-/
import AtomicaModel.Grid
import Mathlib.Tactic.Linarith
import Mathlib.Tactic.Ring
import Mathlib.Tactic.FieldSimp
import Mathlib.Tactic.NormNum

namespace Atomica.C03
open Atomica.Grid

/-- every output time is exactly `start + k*dt` -/
theorem grid_exact (s e d : Rat) (k : Nat) (hk : k < (tvec s e d).length) :
    (tvec s e d)[k] = s + k * d := by
  simp [tvec, point]

theorem grid_length (s e d : Rat) : (tvec s e d).length = nSteps s e d + 1 := by
  simp [tvec]

/-- the last point is at or after the requested end year (up to `tol` steps of rounding dust) -/
theorem grid_last_ge (s e d : Rat) (hd : 0 < d) (hse : s ≤ e) :
    e - tol * d ≤ point s d (nSteps s e d) := by
  unfold point nSteps ceilTol
  have hx : 0 ≤ (e - s) / d := div_nonneg (by linarith) hd.le
  have h1 : (e - s) / d - tol ≤ (((e - s) / d - tol).ceil : Rat) := Rat.le_ceil
  by_cases hc : 0 ≤ ((e - s) / d - tol).ceil
  · have : ((((e - s) / d - tol).ceil.toNat : Nat) : Rat) = (((e - s) / d - tol).ceil : Rat) := by
      have := Int.toNat_of_nonneg hc
      exact_mod_cast this
    rw [this]
    have h2 : (e - s) / d * d = e - s := by field_simp
    nlinarith
  · have hneg : ((e - s) / d - tol).ceil ≤ 0 := by omega
    have : ((e - s) / d - tol).ceil.toNat = 0 := Int.toNat_eq_zero.mpr hneg
    rw [this]
    have h2 : (e - s) / d * d = e - s := by field_simp
    have h3 : (((e - s) / d - tol).ceil : Rat) ≤ 0 := by exact_mod_cast hneg
    simp only [Nat.cast_zero, zero_mul, add_zero]
    nlinarith

/-- … and it is the *first* such point: one step earlier is strictly before the end year -/
theorem grid_last_first (s e d : Rat) (hd : 0 < d) (hn : 0 < nSteps s e d) :
    point s d (nSteps s e d - 1) < e := by
  unfold point
  unfold nSteps ceilTol at *
  have hc : 0 < ((e - s) / d - tol).ceil := by
    by_contra h
    have : ((e - s) / d - tol).ceil.toNat = 0 := Int.toNat_eq_zero.mpr (by omega)
    omega
  have hcast : ((((e - s) / d - tol).ceil.toNat : Nat) : Rat) = (((e - s) / d - tol).ceil : Rat) := by
    have := Int.toNat_of_nonneg hc.le
    exact_mod_cast this
  have h1 : (((e - s) / d - tol).ceil : Rat) < (e - s) / d - tol + 1 := Rat.ceil_lt
  have hsub : (((((e - s) / d - tol).ceil.toNat - 1 : Nat)) : Rat)
      = (((e - s) / d - tol).ceil : Rat) - 1 := by
    have h1' : 1 ≤ ((e - s) / d - tol).ceil.toNat := hn
    rw [Nat.cast_sub h1', hcast]; simp
  rw [hsub]
  have h2 : (e - s) / d * d = e - s := by field_simp
  have ht : (0 : Rat) < tol := by unfold tol; norm_num
  nlinarith

/-- extending the end year extends the grid: the shorter grid is a prefix (used by C09) -/
theorem grid_prefix (s e e' d : Rat) (h : nSteps s e d ≤ nSteps s e' d) :
    tvec s e d = (tvec s e' d).take (nSteps s e d + 1) := by
  unfold tvec
  rw [← List.map_take, List.take_range]
  congr 2
  omega

/-! ### settings as a state machine: whatever the history of edits, a newly requested end year is snapped exactly once,
    onto the grid of the start year and step in force after the call -/

/-- after `update_time_vector(start, end = e, dt)` the end is the first grid point ≥ e of the NEW start/step -/
theorem update_end_snapped (st : Settings) (s d : Option Rat) (e : Rat) :
    (st.update s (some e) d).stop
      = snap (s.getD st.start) e (d.getD st.dt) := by
  cases s <;> cases d <;> simp [Settings.update, Settings.setEnd, Settings.setStart]

theorem update_start_dt (st : Settings) (s d : Option Rat) (e : Rat) :
    (st.update s (some e) d).start = s.getD st.start ∧ (st.update s (some e) d).dt = d.getD st.dt := by
  cases s <;> cases d <;> simp [Settings.update, Settings.setEnd, Settings.setStart]

/-- … hence it is at or after `e` and one step earlier is before `e` (first grid point at or after the requested end) -/
theorem update_end_first (st : Settings) (s d : Option Rat) (e : Rat)
    (hd : 0 < d.getD st.dt) (hse : s.getD st.start ≤ e) :
    e - tol * d.getD st.dt ≤ (st.update s (some e) d).stop := by
  rw [update_end_snapped]
  exact grid_last_ge _ _ _ hd hse

/-- setting the end year twice is the same as setting it once (snapping is idempotent up to the grid) -/
theorem setEnd_start_dt (st : Settings) (e : Rat) : (st.setEnd e).start = st.start ∧ (st.setEnd e).dt = st.dt := by
  simp [Settings.setEnd]

/-- non-vacuity: 2000..2035 with dt = 3/10 has 118 points, the last being 2035.1 -/
example : nSteps 2000 2035 (3/10) = 117 ∧ point 2000 (3/10) 117 = 20351/10 := by
  constructor
  · decide +kernel
  · unfold point; norm_num

end Atomica.C03
