/-
  C12 — "Program outcomes are a coverage-weighted average of baseline and combinations."

  Theorems about `Atomica.Covout` (lean/AtomicaModel/Covout.lean), the model that harness/props/c12.py compares
  with the real `atomica.programs.Covout(...).get_outcome(...)`.

  `sumC n f` is `Σ_{m ∈ {0,1}^n} f m` (= `listSum ((combos n).map f)`, `sumC_eq_table`), `margC n i f` the part of
  that sum over the combinations that contain program `i`.  Positions refer to the cached (sorted) programs;
  `sortProgs_perm` says the sorted list is a permutation of the programs, so "every sorted position" is
  "every program".
-/
import AtomicaModel.Covout
import AtomicaProofs.Lemmas.Covout
import AtomicaProofs.Lemmas.CovoutTable
import AtomicaProofs.Lemmas.CovoutMono
import AtomicaProofs.Lemmas.CovoutNested
import AtomicaProofs.Lemmas.CovoutMonoTable

namespace Atomica.C12
open Atomica Atomica.Covout

/-- coverages in [0,1] -/
def CovOK (cov : List Rat) : Prop := ∀ c ∈ cov, 0 ≤ c ∧ c ≤ 1

def ProgsOK (ps : List Prog) : Prop := ∀ p ∈ ps, 0 ≤ p.cov ∧ p.cov ≤ 1

/-- no explicit value is given for a "combination" of one program (such an entry competes with the program's own
    outcome; the code uses it in some branches and not in others — see notes/C12.md) -/
def NoSingleEx (ps : List Prog) (ex : List (Nat × Rat)) : Prop := ∀ p ∈ ps, lookupLast ex (2 ^ p.id) = none

theorem sumC_eq_table (n : Nat) (f : List Bool → Rat) : sumC n f = listSum ((combos n).map f) :=
  (listSum_combos n f).symm

theorem covs_ok {ps : List Prog} (h : ProgsOK ps) : CovOK (covs ps) := by
  intro c hc
  simp only [covs, List.mem_map] at hc
  obtain ⟨p, hp, rfl⟩ := hc
  exact h p hp

/-! ### the weights form a probability distribution with the coverages as marginals -/

theorem weights_nonneg (inter : Interaction) (cov : List Rat) (h : CovOK cov) (m : List Bool) :
    0 ≤ weight inter cov m := by
  cases inter with
  | random => exact randomW_nonneg cov h m
  | nested => exact nestedG_nonneg 0 1 cov m
  | additive =>
    simp only [weight]
    split_ifs with hs
    · exact addW_nonneg _ _ (adds_mem_nonneg 0 cov) (rps_mem_range 0 cov h) m
    · exact lowW_nonneg 1 cov (fun c hc => (h c hc).1) (not_lt.mp hs) m

theorem weight_add_high {cov : List Rat} (h : 1 < listSum cov) :
    weight .additive cov = addW (adds 0 cov) (rps 0 cov) := by
  funext m; simp [weight, h]

theorem weight_add_low {cov : List Rat} (h : ¬ 1 < listSum cov) : weight .additive cov = lowW 1 cov := by
  funext m; simp [weight, h]

theorem weight_nested (cov : List Rat) : weight .nested cov = nestedG 0 1 cov := by
  funext m; simp [weight]

theorem weight_random (cov : List Rat) : weight .random cov = randomW cov := by
  funext m; simp [weight]

/-- the weights of all `2^n` combinations (the empty one included) sum to 1 -/
theorem weights_total (inter : Interaction) (cov : List Rat) (h : CovOK cov) :
    sumC cov.length (weight inter cov) = 1 := by
  cases inter with
  | random => rw [weight_random]; exact sumC_randomW _ cov rfl
  | nested =>
    rw [weight_nested, sumC_nestedG _ 0 1 cov rfl]; norm_num
  | additive =>
    by_cases hs : 1 < listSum cov
    · rw [weight_add_high hs, sumC_addW _ _ _ (adds_length 0 cov) (rps_length 0 cov),
        listSum_adds 0 cov (le_refl _) (fun c hc => (h c hc).1)]
      rw [zero_add, min_eq_left hs.le, min_eq_right (by norm_num : (0 : Rat) ≤ 1)]; ring
    · rw [weight_add_low hs]; exact sumC_lowW _ 1 cov rfl

theorem getD_mem_or {cov : List Rat} {i : Nat} (hi : i < cov.length) : cov.getD i 0 ∈ cov := by
  rw [List.getD_eq_getElem?_getD, List.getElem?_eq_getElem hi]; exact List.getElem_mem hi

/-- the combinations that contain program `i` have total weight `cov i` -/
theorem marginal (inter : Interaction) (cov : List Rat) (h : CovOK cov) (i : Nat) (hi : i < cov.length) :
    margC cov.length i (weight inter cov) = cov.getD i 0 := by
  have hci := h _ (getD_mem_or hi)
  cases inter with
  | random => rw [weight_random]; exact margC_randomW _ i cov rfl hi
  | nested =>
    rw [weight_nested, margC_nestedG _ i 0 1 cov rfl hi, min_eq_right hci.2, sub_zero, max_eq_right hci.1]
  | additive =>
    by_cases hs : 1 < listSum cov
    · rw [weight_add_high hs, margC_addW _ i _ _ (adds_length 0 cov) (rps_length 0 cov) hi,
        listSum_adds 0 cov (le_refl _) (fun c hc => (h c hc).1)]
      rw [zero_add, min_eq_left hs.le, min_eq_right (by norm_num : (0 : Rat) ≤ 1), sub_zero]
      exact adds_rps_getD 0 cov h i hi
    · rw [weight_add_low hs]; exact margC_lowW _ i 1 cov rfl hi

/-! ### `get_outcome` is the baseline plus the weighted sum over the combination table -/

theorem weight_single (inter : Interaction) (c : Rat) (h0 : 0 ≤ c) (h1 : c ≤ 1) : weight inter [c] [true] = c := by
  cases inter with
  | random => simp [weight, randomW]
  | nested =>
    simp only [weight, nestedG, minQ_eq, maxQ_eq]
    rw [min_eq_right h1, sub_zero, max_eq_right h0]
  | additive =>
    simp only [weight, listSum_cons, listSum_nil, add_zero]
    rw [if_neg (not_lt.mpr h1)]
    simp [lowW, allFalse]

theorem ids_noSingle {sp : List Prog} {ex : List (Nat × Rat)} (hex : NoSingleEx sp ex) :
    ∀ i ∈ ids sp, lookupLast ex (2 ^ i) = none := by
  intro i hi
  simp only [ids, List.mem_map] at hi
  obtain ⟨p, hp, rfl⟩ := hi
  exact hex p hp

theorem outcomeSorted_eq_weighted (inter : Interaction) (b : Rat) (sp : List Prog) (ex : List (Nat × Rat))
    (hc : ProgsOK sp) (hex : NoSingleEx sp ex) :
    outcomeSorted inter b sp ex
      = b + sumC sp.length (fun m => weight inter (covs sp) m * comboOut b ex (ids sp) (deltas b sp) m) := by
  match sp, hc, hex with
  | [], _, _ => simp [outcomeSorted, sumC, comboOut, anyTrue]
  | [p], hc, hex =>
    have hp := hc p (by simp)
    have hl := hex p (by simp)
    simp only [outcomeSorted, sumC, covs, deltas, ids, List.map_cons, List.map_nil, List.length_cons,
      List.length_nil]
    rw [comboOut_noTrue b ex _ _ [false] (by simp [anyTrue]), mul_zero, zero_add]
    have := comboOut_true_falses b ex p.id [] (p.out - b) [] 0 hl
    simp only [List.replicate_zero] at this
    rw [this, weight_single inter p.cov hp.1 hp.2]
  | p :: q :: rest, hc, hex =>
    have hids := ids_noSingle hex
    cases inter with
    | random => simp only [outcomeSorted, tableSum_eq, weight]
    | nested => simp only [outcomeSorted, tableSum_eq, weight]
    | additive =>
      simp only [outcomeSorted, tableSum_eq, weight]
      split_ifs with hs
      · rfl
      · rw [sumC_lowW_mul _ 1 (covs (p :: q :: rest)) b ex (ids (p :: q :: rest)) (deltas b (p :: q :: rest))
          (by simp [covs]) (by simp [ids]) (by simp [deltas]) hids]

/-- **weighted average**: the value returned by `get_outcome` is `baseline + Σ_S w(S)·(outcome(S) − baseline)` with the
    weights of `weights_nonneg`, `weights_total`, `marginal` (for 0, 1 and ≥ 2 programs, all three interactions) -/
theorem outcome_eq_weighted (inter : Interaction) (b : Rat) (ps : List Prog) (ex : List (Nat × Rat))
    (hc : ProgsOK ps) (hex : NoSingleEx ps ex) :
    outcome inter b ps ex
      = b + sumC ps.length (fun m => weight inter (covs (sortProgs b ps)) m
            * comboOut b ex (ids (sortProgs b ps)) (deltas b (sortProgs b ps)) m) := by
  have hperm := sortProgs_perm' b ps
  rw [← sortProgs_length b ps]
  exact outcomeSorted_eq_weighted inter b (sortProgs b ps) ex
    (fun p hp => hc p (hperm.mem_iff.mp hp)) (fun p hp => hex p (hperm.mem_iff.mp hp))

/-! ### the combination table: explicit value where given, otherwise the member farthest from baseline -/

/-- **best = farthest**: without an explicit value the outcome of a non-empty combination is the outcome of one
    of its members, and no member is farther from the baseline (`|d| = |outcome − baseline|`) -/
theorem best_is_farthest (b : Rat) (ex : List (Nat × Rat)) (ids : List Nat) (ds : List Rat) (m : List Bool)
    (hl : ds.length = m.length) (ha : anyTrue m = true) (hno : lookupLast ex (maskKey ids m) = none) :
    comboOut b ex ids ds m ∈ members ds m ∧ ∀ d ∈ members ds m, |d| ≤ |comboOut b ex ids ds m| := by
  have : comboOut b ex ids ds m = argmaxAbs (members ds m) := by simp [comboOut, ha, hno]
  rw [this]
  exact argmaxAbs_spec _ (members_ne_nil hl ha)

/-- an explicitly specified value is the outcome of the combination -/
theorem explicit_is_used (b : Rat) (ex : List (Nat × Rat)) (ids : List Nat) (ds : List Rat) (m : List Bool)
    (v : Rat) (ha : anyTrue m = true) (hv : lookupLast ex (maskKey ids m) = some v) :
    b + comboOut b ex ids ds m = v := by
  simp [comboOut, ha, hv]

theorem lookupLast_mem (ex : List (Nat × Rat)) (k : Nat) (v : Rat) (h : lookupLast ex k = some v) :
    (k, v) ∈ ex := by
  unfold lookupLast at h
  have gen : ∀ (l : List (Nat × Rat)) (acc : Option Rat),
      l.foldl (fun acc e => if e.1 = k then some e.2 else acc) acc = some v → acc = some v ∨ (k, v) ∈ l := by
    intro l
    induction l with
    | nil => intro acc h; left; simpa using h
    | cons e l ih =>
      intro acc h
      simp only [List.foldl_cons] at h
      rcases ih _ h with h1 | h1
      · by_cases he : e.1 = k
        · rw [if_pos he] at h1
          right
          have : e = (k, v) := by
            cases e; simp only at he; subst he; simp only [Option.some.injEq] at h1; subst h1; rfl
          simp [this]
        · rw [if_neg he] at h1; left; exact h1
      · right; simp [h1]
  rcases gen ex none h with h1 | h1
  · simp at h1
  · exact h1

theorem mem_of_mem_members {ds : List Rat} {m : List Bool} {d : Rat} (h : d ∈ members ds m) : d ∈ ds :=
  (members_sublist ds m).subset h

/-- every table entry (as an outcome `baseline + delta`) lies between the smallest and largest of baseline,
    single-program outcomes and explicit values -/
theorem table_in_hull (b : Rat) (sp : List Prog) (ex : List (Nat × Rat)) (lo hi : Rat)
    (hb : lo ≤ b ∧ b ≤ hi) (hp : ∀ p ∈ sp, lo ≤ p.out ∧ p.out ≤ hi) (he : ∀ e ∈ ex, lo ≤ e.2 ∧ e.2 ≤ hi)
    (m : List Bool) (hm : m.length = sp.length) :
    lo ≤ b + comboOut b ex (ids sp) (deltas b sp) m ∧ b + comboOut b ex (ids sp) (deltas b sp) m ≤ hi := by
  by_cases ha : anyTrue m = true
  · cases hlk : lookupLast ex (maskKey (ids sp) m) with
    | some v =>
      rw [explicit_is_used b ex _ _ m v ha hlk]
      exact he _ (lookupLast_mem ex _ v hlk)
    | none =>
      have hmem := (best_is_farthest b ex (ids sp) (deltas b sp) m (by simp [deltas, hm]) ha hlk).1
      have hd := mem_of_mem_members hmem
      simp only [deltas, List.mem_map] at hd
      obtain ⟨p, hpm, hpe⟩ := hd
      have hpe' : comboOut b ex (ids sp) (deltas b sp) m = p.out - b := hpe.symm
      rw [hpe']
      have := hp p hpm
      constructor <;> linarith
  · rw [comboOut_noTrue b ex _ _ m (by simpa using ha), add_zero]; exact hb

/-! ### convexity -/

/-- **convexity**: if every combination outcome (the empty combination is the baseline) lies in `[lo, hi]`, so does
    the value returned by `get_outcome` -/
theorem outcome_convex (inter : Interaction) (b : Rat) (ps : List Prog) (ex : List (Nat × Rat))
    (hc : ProgsOK ps) (hex : NoSingleEx ps ex) (lo hi : Rat)
    (hg : ∀ m, m.length = ps.length →
      lo ≤ b + comboOut b ex (ids (sortProgs b ps)) (deltas b (sortProgs b ps)) m ∧
      b + comboOut b ex (ids (sortProgs b ps)) (deltas b (sortProgs b ps)) m ≤ hi) :
    lo ≤ outcome inter b ps ex ∧ outcome inter b ps ex ≤ hi := by
  rw [outcome_eq_weighted inter b ps ex hc hex]
  have hperm := sortProgs_perm' b ps
  have hcov : CovOK (covs (sortProgs b ps)) := covs_ok (fun p hp => hc p (hperm.mem_iff.mp hp))
  have hlen : (covs (sortProgs b ps)).length = ps.length := by simp [covs, sortProgs_length]
  have hb := sumC_weighted_bounds (n := ps.length) (w := weight inter (covs (sortProgs b ps)))
    (g := comboOut b ex (ids (sortProgs b ps)) (deltas b (sortProgs b ps))) (lo := lo - b) (hi := hi - b)
    (fun m _ => weights_nonneg inter _ hcov m)
    (by rw [← hlen]; exact weights_total inter _ hcov)
    (fun m hm => ⟨by linarith [(hg m hm).1], by linarith [(hg m hm).2]⟩)
  constructor <;> linarith [hb.1, hb.2]

/-- … in particular the value lies between the smallest and the largest of baseline, single outcomes and explicit values -/
theorem outcome_hull (inter : Interaction) (b : Rat) (ps : List Prog) (ex : List (Nat × Rat))
    (hc : ProgsOK ps) (hex : NoSingleEx ps ex) (lo hi : Rat)
    (hb : lo ≤ b ∧ b ≤ hi) (hp : ∀ p ∈ ps, lo ≤ p.out ∧ p.out ≤ hi) (he : ∀ e ∈ ex, lo ≤ e.2 ∧ e.2 ≤ hi) :
    lo ≤ outcome inter b ps ex ∧ outcome inter b ps ex ≤ hi := by
  have hperm := sortProgs_perm' b ps
  apply outcome_convex inter b ps ex hc hex lo hi
  intro m hm
  exact table_in_hull b (sortProgs b ps) ex lo hi hb (fun p hp' => hp p (hperm.mem_iff.mp hp')) he m
    (by rw [hm, sortProgs_length])

/-! ### zero coverage, one covered program -/

theorem dot_zero (cs ds : List Rat) (h : ∀ c ∈ cs, c = 0) : dot cs ds = 0 := by
  induction cs generalizing ds with
  | nil => simp [dot]
  | cons c cs ih =>
    cases ds with
    | nil => simp [dot]
    | cons d ds =>
      simp only [dot]
      rw [h c (by simp), ih ds (fun x hx => h x (by simp [hx]))]; ring

theorem listSum_zero (cs : List Rat) (h : ∀ c ∈ cs, c = 0) : listSum cs = 0 := by
  induction cs with
  | nil => rfl
  | cons c cs ih => rw [listSum_cons, h c (by simp), ih (fun x hx => h x (by simp [hx]))]; ring

theorem getD_zero_of_all_zero {cs : List Rat} (h : ∀ c ∈ cs, c = 0) (i : Nat) : cs.getD i 0 = 0 := by
  by_cases hi : i < cs.length
  · exact h _ (getD_mem_or hi)
  · rw [List.getD_eq_getElem?_getD, List.getElem?_eq_none (by omega)]; rfl

/-- **zero coverage**: all coverages 0 ⇒ the baseline (no hypothesis on the explicit values) -/
theorem outcome_zero_cov (inter : Interaction) (b : Rat) (ps : List Prog) (ex : List (Nat × Rat))
    (h0 : ∀ p ∈ ps, p.cov = 0) : outcome inter b ps ex = b := by
  have hperm := sortProgs_perm' b ps
  unfold outcome
  generalize hsp : sortProgs b ps = sp
  have hz : ∀ c ∈ covs sp, c = 0 := by
    intro c hc
    simp only [covs, List.mem_map] at hc
    obtain ⟨p, hp, rfl⟩ := hc
    exact h0 p (hperm.mem_iff.mp (hsp ▸ hp))
  have hcov : CovOK (covs sp) := fun c hc => by rw [hz c hc]; norm_num
  have hlen : (covs sp).length = sp.length := by simp [covs]
  have hg : ∀ m, anyTrue m = false → comboOut b ex (ids sp) (deltas b sp) m = 0 :=
    fun m hm => comboOut_noTrue b ex _ _ m hm
  have key : ∀ (it : Interaction), sumC sp.length (fun m => weight it (covs sp) m
      * comboOut b ex (ids sp) (deltas b sp) m) = 0 := by
    intro it
    apply sumC_all_marg_zero (fun m _ => weights_nonneg it _ hcov m) _ hg
    intro i hi
    rw [← hlen, marginal it (covs sp) hcov i (by rw [hlen]; exact hi)]
    exact getD_zero_of_all_zero hz i
  match sp, key, hz with
  | [], _, _ => rfl
  | [p], _, hz =>
    have : p.cov = 0 := hz p.cov (by simp [covs])
    simp [outcomeSorted, this]
  | p :: q :: rest, key, hz =>
    cases inter with
    | random =>
      have := key .random
      rw [weight_random] at this
      simp only [outcomeSorted, tableSum_eq, this, add_zero]
    | nested =>
      have := key .nested
      rw [weight_nested] at this
      simp only [outcomeSorted, tableSum_eq, this, add_zero]
    | additive =>
      simp only [outcomeSorted]
      rw [if_neg (by rw [listSum_zero _ hz]; norm_num), dot_zero _ _ hz, add_zero]

theorem outcomeSorted_single (inter : Interaction) (b : Rat) (sp : List Prog) (ex : List (Nat × Rat))
    (hc : ProgsOK sp) (hex : NoSingleEx sp ex) (i : Nat) (hi : i < sp.length)
    (h0 : ∀ j, j < sp.length → j ≠ i → (covs sp).getD j 0 = 0) :
    outcomeSorted inter b sp ex = b + (covs sp).getD i 0 * (deltas b sp).getD i 0 := by
  rw [outcomeSorted_eq_weighted inter b sp ex hc hex]
  have hcov : CovOK (covs sp) := covs_ok hc
  have hlen : (covs sp).length = sp.length := by simp [covs]
  rw [sumC_single_program hi (fun m _ => weights_nonneg inter _ hcov m) _
    (fun m hm => comboOut_noTrue b ex _ _ m hm)]
  · rw [← hlen, marginal inter (covs sp) hcov i (by rw [hlen]; exact hi), hlen]
    rw [comboOut_unit b ex (ids sp) (deltas b sp) sp.length i hi (by simp [ids]) (by simp [deltas])]
    apply ids_noSingle hex
    have : i < (ids sp).length := by simpa [ids] using hi
    rw [List.getD_eq_getElem?_getD, List.getElem?_eq_getElem this]; exact List.getElem_mem this
  · intro j hj hji
    rw [← hlen, marginal inter (covs sp) hcov j (by rw [hlen]; exact hj)]
    exact h0 j hj hji

/-- **one covered program**: if only program `p` has non-zero coverage the value is
    `baseline + c·(outcome_p − baseline)` -/
theorem outcome_single (inter : Interaction) (b : Rat) (ps : List Prog) (ex : List (Nat × Rat))
    (hc : ProgsOK ps) (hex : NoSingleEx ps ex) (hnd : ps.Nodup) (p : Prog) (hp : p ∈ ps)
    (h0 : ∀ q ∈ ps, q ≠ p → q.cov = 0) :
    outcome inter b ps ex = b + p.cov * (p.out - b) := by
  have hperm := sortProgs_perm' b ps
  unfold outcome
  generalize hsp : sortProgs b ps = sp at hperm
  have hnd' : sp.Nodup := hperm.nodup_iff.mpr hnd
  obtain ⟨i, hi, hpi⟩ := List.mem_iff_getElem.mp (hperm.mem_iff.mpr hp)
  have hget : ∀ j (hj : j < sp.length), (covs sp).getD j 0 = sp[j].cov := by
    intro j hj
    have : j < (covs sp).length := by simpa [covs] using hj
    rw [List.getD_eq_getElem?_getD, List.getElem?_eq_getElem this]; simp [covs]
  have hgetd : (deltas b sp).getD i 0 = sp[i].out - b := by
    have : i < (deltas b sp).length := by simpa [deltas] using hi
    rw [List.getD_eq_getElem?_getD, List.getElem?_eq_getElem this]; simp [deltas]
  rw [outcomeSorted_single inter b sp ex (fun q hq => hc q (hperm.mem_iff.mp hq))
    (fun q hq => hex q (hperm.mem_iff.mp hq)) i hi, hget i hi, hgetd, hpi]
  intro j hj hji
  rw [hget j hj]
  apply h0 _ (hperm.mem_iff.mp (List.getElem_mem hj))
  intro heq
  apply hji
  exact (List.getElem_inj hnd').mp (heq.trans hpi.symm)

/-! ### the cached order -/

theorem sortProgs_perm (b : Rat) (ps : List Prog) : (sortProgs b ps).Perm ps := sortProgs_perm' b ps

/-- programs are cached by decreasing `|outcome − baseline|` -/
theorem sortProgs_sorted (b : Rat) (ps : List Prog) :
    (sortProgs b ps).Pairwise (fun p q => |q.out - b| ≤ |p.out - b|) := sortProgs_sorted' b ps

/-! ### monotonicity in the coverages (no explicit interaction values) -/

theorem dec_deltas_pos (b : Rat) (sp : List Prog) (hs : MagSorted b sp) (hpos : ∀ p ∈ sp, b ≤ p.out) :
    Dec (deltas b sp) := by
  constructor
  · unfold deltas; rw [List.pairwise_map]
    refine List.Pairwise.imp_of_mem ?_ hs
    intro p q hp hq h
    rw [abs_of_nonneg (show 0 ≤ q.out - b by linarith [hpos q hq]),
      abs_of_nonneg (show 0 ≤ p.out - b by linarith [hpos p hp])] at h
    exact h
  · intro d hd
    simp only [deltas, List.mem_map] at hd
    obtain ⟨p, hp, rfl⟩ := hd
    linarith [hpos p hp]

theorem dec_deltas_neg (b : Rat) (sp : List Prog) (hs : MagSorted b sp) (hneg : ∀ p ∈ sp, p.out ≤ b) :
    Dec ((deltas b sp).map (fun d => -d)) := by
  constructor
  · unfold deltas; rw [List.pairwise_map, List.pairwise_map]
    refine List.Pairwise.imp_of_mem ?_ hs
    intro p q hp hq h
    rw [abs_of_nonpos (show q.out - b ≤ 0 by linarith [hneg q hq]),
      abs_of_nonpos (show p.out - b ≤ 0 by linarith [hneg p hp])] at h
    exact h
  · intro d hd
    simp only [deltas, List.mem_map] at hd
    obtain ⟨d', ⟨p, hp, rfl⟩, rfl⟩ := hd
    linarith [hneg p hp]

/-- **monotone, all programs raise the parameter**: with the 'best' impact interaction, raising any coverages
    (same programs, same outcomes) does not lower the value — random, nested and additive (below and above 100 %) -/
theorem outcome_mono_best (inter : Interaction) (b : Rat) (ps ps' : List Prog)
    (hrel : List.Forall₂ CovLe ps ps') (hc : ProgsOK ps) (hc' : ProgsOK ps') (hpos : ∀ p ∈ ps, b ≤ p.out) :
    outcome inter b ps [] ≤ outcome inter b ps' [] := by
  have hperm := sortProgs_perm' b ps
  have hperm' := sortProgs_perm' b ps'
  have hr := sortProgs_rel b ps ps' hrel
  have hcs : ProgsOK (sortProgs b ps) := fun p hp => hc p (hperm.mem_iff.mp hp)
  have hcs' : ProgsOK (sortProgs b ps') := fun p hp => hc' p (hperm'.mem_iff.mp hp)
  unfold outcome
  rw [outcomeSorted_best_eq inter b _ hcs (sortProgs_sorted' b ps),
    outcomeSorted_best_eq inter b _ hcs' (sortProgs_sorted' b ps'), ← rel_deltas b _ _ hr]
  have := bestVal_mono inter _ _ (deltas b (sortProgs b ps)) (rel_covs _ _ hr) (covs_ok hcs) (covs_ok hcs')
    (dec_deltas_pos b _ (sortProgs_sorted' b ps) (fun p hp => hpos p (hperm.mem_iff.mp hp)))
  linarith

/-- **monotone, all programs lower the parameter**: raising any coverages does not raise the value -/
theorem outcome_mono_best_neg (inter : Interaction) (b : Rat) (ps ps' : List Prog)
    (hrel : List.Forall₂ CovLe ps ps') (hc : ProgsOK ps) (hc' : ProgsOK ps') (hneg : ∀ p ∈ ps, p.out ≤ b) :
    outcome inter b ps' [] ≤ outcome inter b ps [] := by
  have hperm := sortProgs_perm' b ps
  have hperm' := sortProgs_perm' b ps'
  have hr := sortProgs_rel b ps ps' hrel
  have hcs : ProgsOK (sortProgs b ps) := fun p hp => hc p (hperm.mem_iff.mp hp)
  have hcs' : ProgsOK (sortProgs b ps') := fun p hp => hc' p (hperm'.mem_iff.mp hp)
  unfold outcome
  rw [outcomeSorted_best_eq inter b _ hcs (sortProgs_sorted' b ps),
    outcomeSorted_best_eq inter b _ hcs' (sortProgs_sorted' b ps'), ← rel_deltas b _ _ hr]
  have hdd : deltas b (sortProgs b ps) = ((deltas b (sortProgs b ps)).map (fun d => -d)).map (fun d => -d) := by
    rw [List.map_map]; simp
  have := bestVal_mono inter _ _ _ (rel_covs _ _ hr) (covs_ok hcs) (covs_ok hcs')
    (dec_deltas_neg b _ (sortProgs_sorted' b ps) (fun p hp => hneg p (hperm.mem_iff.mp hp)))
  have key : ∀ cs, bestVal inter cs (deltas b (sortProgs b ps))
      = - bestVal inter cs ((deltas b (sortProgs b ps)).map (fun d => -d)) := by
    intro cs
    have h := bestVal_neg inter cs ((deltas b (sortProgs b ps)).map (fun d => -d))
    rw [← hdd] at h
    exact h
  rw [key, key]
  linarith

/-! ### the nested loop of the code does not depend on the tie order of `np.argsort` -/

/-- **nested loop**: for *every* index order `idx` that sorts the coverages ascending (numpy's default sort is
    not stable, so ties may come in any order) the loop of `get_outcome` computes the same value, namely the
    permutation-free weighted sum `Σ_S max(0, min_{i∈S} c_i − max_{i∉S} c_i) · outcome(S)` the model uses -/
theorem nested_loop_eq (b : Rat) (sp : List Prog) (ex : List (Nat × Rat)) (hc : ProgsOK sp) (idx : List Nat)
    (hperm : idx.Perm (List.range sp.length))
    (hsort : idx.Pairwise (fun i j => (covs sp).getD i 0 ≤ (covs sp).getD j 0)) :
    b + nestedLoop (covs sp) (comboOut b ex (ids sp) (deltas b sp)) idx 0 (List.replicate sp.length true)
      = b + tableSum sp.length (nestedG 0 1 (covs sp)) (comboOut b ex (ids sp) (deltas b sp)) := by
  have hlen : (covs sp).length = sp.length := by simp [covs]
  rw [tableSum_eq, ← hlen]
  rw [nestedLoop_eq (covs sp) _ (fun m hm => comboOut_noTrue b ex _ _ m hm) (covs_ok hc) idx
    (by rw [hlen]; exact hperm) hsort]

/-- … in particular for the stable ascending argsort, and that is the value of `get_outcome` (≥ 2 programs) -/
theorem nested_loop_argsort (b : Rat) (p q : Prog) (rest : List Prog) (ex : List (Nat × Rat))
    (hc : ProgsOK (p :: q :: rest)) :
    b + nestedLoop (covs (p :: q :: rest)) (comboOut b ex (ids (p :: q :: rest)) (deltas b (p :: q :: rest)))
        (argsortAsc (covs (p :: q :: rest))) 0 (List.replicate (p :: q :: rest).length true)
      = outcomeSorted .nested b (p :: q :: rest) ex := by
  have hlen : (covs (p :: q :: rest)).length = (p :: q :: rest).length := by simp [covs]
  rw [nested_loop_eq b _ ex hc _ (by rw [← hlen]; exact argsortAsc_perm _) (argsortAsc_sorted _)]
  simp only [outcomeSorted]

/-! ### monotone tables (explicit values allowed): random and nested are monotone, additive is not -/

theorem rel_ids (sp sp' : List Prog) (h : List.Forall₂ CovLe sp sp') : ids sp = ids sp' := by
  induction h with
  | nil => rfl
  | @cons p p' ps ps' hp _ ih => simp only [ids, List.map_cons] at *; rw [ih, hp.1]

theorem noSingle_rel {sp sp' : List Prog} {ex : List (Nat × Rat)} (h : List.Forall₂ CovLe sp sp')
    (hex : NoSingleEx sp ex) : NoSingleEx sp' ex := by
  intro p hp
  have : p.id ∈ ids sp := by rw [rel_ids sp sp' h]; exact List.mem_map_of_mem hp
  exact ids_noSingle hex _ this

theorem sorted_mono_table (inter : Interaction) (hi : inter = .random ∨ inter = .nested) (b : Rat)
    (sp sp' : List Prog) (ex : List (Nat × Rat)) (hrel : List.Forall₂ CovLe sp sp') (hc : ProgsOK sp)
    (hc' : ProgsOK sp') (hex : NoSingleEx sp ex) (hmono : MonoT sp.length (comboOut b ex (ids sp) (deltas b sp))) :
    outcomeSorted inter b sp ex ≤ outcomeSorted inter b sp' ex := by
  rw [outcomeSorted_eq_weighted inter b sp ex hc hex,
    outcomeSorted_eq_weighted inter b sp' ex hc' (noSingle_rel hrel hex),
    ← rel_ids sp sp' hrel, ← rel_deltas b sp sp' hrel, ← hrel.length_eq]
  have hl : (covs sp).length = sp.length := by simp [covs]
  rcases hi with rfl | rfl
  · rw [weight_random, weight_random]
    have := random_mono_table sp.length (covs sp) (covs sp') _ (rel_covs sp sp' hrel) (covs_ok hc) (covs_ok hc') hl hmono
    linarith
  · rw [weight_nested, weight_nested]
    have := nested_mono_table sp.length 0 1 (covs sp) (covs sp') _ (rel_covs sp sp' hrel) hl (by norm_num) hmono
    unfold G at this
    linarith

/-- **random is monotone for every monotone table**: if no combination is worth less than a sub-combination
    (explicit values included), raising coverages does not lower the value -/
theorem random_mono_monotone_table (b : Rat) (ps ps' : List Prog) (ex : List (Nat × Rat))
    (hrel : List.Forall₂ CovLe ps ps') (hc : ProgsOK ps) (hc' : ProgsOK ps') (hex : NoSingleEx ps ex)
    (hmono : MonoT ps.length (comboOut b ex (ids (sortProgs b ps)) (deltas b (sortProgs b ps)))) :
    outcome .random b ps ex ≤ outcome .random b ps' ex := by
  have hperm := sortProgs_perm' b ps
  have hperm' := sortProgs_perm' b ps'
  exact sorted_mono_table .random (Or.inl rfl) b _ _ ex (sortProgs_rel b ps ps' hrel)
    (fun p hp => hc p (hperm.mem_iff.mp hp)) (fun p hp => hc' p (hperm'.mem_iff.mp hp))
    (fun p hp => hex p (hperm.mem_iff.mp hp)) (by rw [sortProgs_length]; exact hmono)

/-- **nested is monotone for every monotone table** -/
theorem nested_mono_monotone_table (b : Rat) (ps ps' : List Prog) (ex : List (Nat × Rat))
    (hrel : List.Forall₂ CovLe ps ps') (hc : ProgsOK ps) (hc' : ProgsOK ps') (hex : NoSingleEx ps ex)
    (hmono : MonoT ps.length (comboOut b ex (ids (sortProgs b ps)) (deltas b (sortProgs b ps)))) :
    outcome .nested b ps ex ≤ outcome .nested b ps' ex := by
  have hperm := sortProgs_perm' b ps
  have hperm' := sortProgs_perm' b ps'
  exact sorted_mono_table .nested (Or.inr rfl) b _ _ ex (sortProgs_rel b ps ps' hrel)
    (fun p hp => hc p (hperm.mem_iff.mp hp)) (fun p hp => hc' p (hperm'.mem_iff.mp hp))
    (fun p hp => hex p (hperm.mem_iff.mp hp)) (by rw [sortProgs_length]; exact hmono)

theorem sumC_neg_right (n : Nat) (w g : List Bool → Rat) :
    sumC n (fun m => w m * (fun m => - g m) m) = - sumC n (fun m => w m * g m) := by
  have : sumC n (fun m => w m * (fun m => - g m) m) = sumC n (fun m => (-1) * (w m * g m)) := by
    apply sumC_congr; intro m _; ring
  rw [this, sumC_mul_left]; ring

/-- programs that lower the parameter: an *antitone* table (larger combination, lower or equal value) makes the value
    non-increasing in every coverage, random and nested interaction -/
theorem sorted_mono_table_neg (inter : Interaction) (hi : inter = .random ∨ inter = .nested) (b : Rat)
    (sp sp' : List Prog) (ex : List (Nat × Rat)) (hrel : List.Forall₂ CovLe sp sp') (hc : ProgsOK sp)
    (hc' : ProgsOK sp') (hex : NoSingleEx sp ex)
    (hmono : MonoT sp.length (fun m => - comboOut b ex (ids sp) (deltas b sp) m)) :
    outcomeSorted inter b sp' ex ≤ outcomeSorted inter b sp ex := by
  rw [outcomeSorted_eq_weighted inter b sp ex hc hex,
    outcomeSorted_eq_weighted inter b sp' ex hc' (noSingle_rel hrel hex),
    ← rel_ids sp sp' hrel, ← rel_deltas b sp sp' hrel, ← hrel.length_eq]
  have hl : (covs sp).length = sp.length := by simp [covs]
  rcases hi with rfl | rfl
  · rw [weight_random, weight_random]
    have := random_mono_table sp.length (covs sp) (covs sp') _ (rel_covs sp sp' hrel) (covs_ok hc) (covs_ok hc') hl hmono
    rw [sumC_neg_right, sumC_neg_right] at this
    linarith
  · rw [weight_nested, weight_nested]
    have := nested_mono_table sp.length 0 1 (covs sp) (covs sp') _ (rel_covs sp sp' hrel) hl (by norm_num) hmono
    unfold G at this
    rw [sumC_neg_right, sumC_neg_right] at this
    linarith

theorem random_nested_mono_antitone_table (inter : Interaction) (hi : inter = .random ∨ inter = .nested) (b : Rat)
    (ps ps' : List Prog) (ex : List (Nat × Rat))
    (hrel : List.Forall₂ CovLe ps ps') (hc : ProgsOK ps) (hc' : ProgsOK ps') (hex : NoSingleEx ps ex)
    (hmono : MonoT ps.length (fun m => - comboOut b ex (ids (sortProgs b ps)) (deltas b (sortProgs b ps)) m)) :
    outcome inter b ps' ex ≤ outcome inter b ps ex := by
  have hperm := sortProgs_perm' b ps
  have hperm' := sortProgs_perm' b ps'
  exact sorted_mono_table_neg inter hi b _ _ ex (sortProgs_rel b ps ps' hrel)
    (fun p hp => hc p (hperm.mem_iff.mp hp)) (fun p hp => hc' p (hperm'.mem_iff.mp hp))
    (fun p hp => hex p (hperm.mem_iff.mp hp)) (by rw [sortProgs_length]; exact hmono)

/-- the four programs of the witness: outcomes 10, 5, 4, 1 above baseline 0; coverage of the second is `c1` -/
def witPs (c1 : Rat) : List Prog :=
  [⟨0, 10, 1/2⟩, ⟨1, 5, c1⟩, ⟨2, 4, 1/2⟩, ⟨3, 1, 1⟩]

/-- explicit values `P2+P3 = 9`, `P1+P2+P3 = 9` (bit sets 4+8, 2+4+8): a monotone table, all values above baseline -/
def witEx : List (Nat × Rat) := [(12, 9), (14, 9)]

/-- **additive above 100 % is not monotone once explicit values are present**, even for a monotone table whose
    values all lie above the baseline: raising the coverage of the second program from 1/10 to 1/5 lowers the value
    from 55/6 to 125/14 (the additive share it gains is taken from the third program, which is worth more in
    combination with the fourth).  The implementation agrees (harness/props/c12.py replays this input). -/
theorem additive_mono_fails_with_interactions :
    outcome .additive 0 (witPs (1/10)) witEx = 55/6 ∧ outcome .additive 0 (witPs (1/5)) witEx = 125/14 ∧
    MonoT 4 (comboOut 0 witEx (ids (sortProgs 0 (witPs (1/10)))) (deltas 0 (sortProgs 0 (witPs (1/10))))) ∧
    (∀ m ∈ combos 4, 0 ≤ comboOut 0 witEx (ids (sortProgs 0 (witPs (1/10)))) (deltas 0 (sortProgs 0 (witPs (1/10)))) m) ∧
    ProgsOK (witPs (1/10)) ∧ ProgsOK (witPs (1/5)) ∧ NoSingleEx (witPs (1/10)) witEx ∧
    List.Forall₂ CovLe (witPs (1/10)) (witPs (1/5)) := by
  refine ⟨by decide +kernel, by decide +kernel, MonoT.of_combos (by decide +kernel), by decide +kernel,
    by unfold ProgsOK; decide +kernel, by unfold ProgsOK; decide +kernel, by unfold NoSingleEx; decide +kernel, ?_⟩
  unfold witPs
  refine List.Forall₂.cons ⟨rfl, rfl, le_refl _⟩ (List.Forall₂.cons ⟨rfl, rfl, by norm_num⟩
    (List.Forall₂.cons ⟨rfl, rfl, le_refl _⟩ (List.Forall₂.cons ⟨rfl, rfl, le_refl _⟩ List.Forall₂.nil)))

/-! ### non-vacuity: the hypotheses of the theorems above are satisfiable and the conclusions are not trivial -/

/-- the same table with the random / nested interaction: hypotheses of `random_mono_monotone_table` hold and the
    value strictly increases -/
example : outcome .random 0 (witPs (1/10)) witEx < outcome .random 0 (witPs (1/5)) witEx ∧
    outcome .nested 0 (witPs (1/10)) witEx ≤ outcome .nested 0 (witPs (1/5)) witEx := by
  constructor <;> decide +kernel

/-- 'best' interaction (hypotheses of `outcome_mono_best`): strictly increasing here, for all three interactions -/
example : outcome .additive 0 (witPs (1/10)) [] < outcome .additive 0 (witPs (1/5)) [] ∧
    outcome .random 0 (witPs (1/10)) [] < outcome .random 0 (witPs (1/5)) [] ∧
    outcome .nested 0 (witPs (1/10)) [] ≤ outcome .nested 0 (witPs (1/5)) [] := by
  refine ⟨?_, ?_, ?_⟩ <;> decide +kernel

/-- programs lowering the parameter (hypothesis of `outcome_mono_best_neg`) -/
example : outcome .additive 1 [⟨0, 0, 3/4⟩, ⟨1, 1/2, 3/4⟩] [] < outcome .additive 1 [⟨0, 0, 1/2⟩, ⟨1, 1/2, 3/4⟩] [] := by
  decide +kernel

/-- weights (additive above 100 %, coverages 1/2 and 3/4): {P0} 1/4, {P1} 1/2, both 1/4, none 0; marginals 1/2 and 3/4 -/
example : (combos 2).map (weight .additive [1/2, 3/4]) = [0, 1/2, 1/4, 1/4] ∧ CovOK [1/2, 3/4] ∧
    margC 2 0 (weight .additive [1/2, 3/4]) = 1/2 ∧ margC 2 1 (weight .additive [1/2, 3/4]) = 3/4 := by
  refine ⟨by decide +kernel, by unfold CovOK; decide +kernel, by decide +kernel, by decide +kernel⟩

/-- nested with a tie in coverage: both index orders `[0,1,2]` and `[1,0,2]` are ascending and give the same value -/
example :
    nestedLoop [1/2, 1/2, 3/4] (comboOut 0 [] [0, 1, 2] [3, 2, 1]) [0, 1, 2] 0 [true, true, true]
      = nestedLoop [1/2, 1/2, 3/4] (comboOut 0 [] [0, 1, 2] [3, 2, 1]) [1, 0, 2] 0 [true, true, true] := by
  decide +kernel

/-- one covered program (hypotheses of `outcome_single`) and zero coverage -/
example : outcome .nested 1 [⟨0, 3, 0⟩, ⟨1, 2, 1/4⟩, ⟨2, 5, 0⟩] [(5, 7)] = 1 + 1/4 * (2 - 1) ∧
    [(⟨0, 3, 0⟩ : Prog), ⟨1, 2, 1/4⟩, ⟨2, 5, 0⟩].Nodup ∧
    NoSingleEx [⟨0, 3, 0⟩, ⟨1, 2, 1/4⟩, ⟨2, 5, 0⟩] [(5, 7)] := by
  refine ⟨by decide +kernel, ?_, by unfold NoSingleEx; decide +kernel⟩
  simp

/-- best = farthest with members on both sides of the baseline; an explicit value overrides it -/
example : comboOut 1 [] [0, 1] [2, -3] [true, true] = -3 ∧ comboOut 1 [(3, 5)] [0, 1] [2, -3] [true, true] = 4 := by
  constructor <;> decide +kernel

end Atomica.C12
