/-
  C09 — Interventions have no effect before they start.

  "An intervention that begins at year Y - the program start year, a spending/capacity/coverage change dated Y in a series
   that also states the value in force before Y, or a parameter-scenario overwrite whose first point is Y - leaves every
   output strictly before Y identical to the run without it; after a program stop year, data-driven targeted parameters take
   their non-program values again.  Extending the simulation end year does not change outputs at earlier times."

  Part 1 (layer L1, the frozen `Engine.runFrom`): `run_causal`, `end_extension`.
  Part 2 (closed loop, `Scenario.runClosed` = `runFrom` on the parameter stream a policy produces): `closed_causal`,
         `closed_end_extension`, `process_causal`.
  Part 3 (what makes the policies agree before Y): `gating_before_start`, `gating_after_stop`, `gating_after_stop_data`,
         `previous_prefix_many` (on top of `Atomica.C06.previous_prefix`), `scenario_prefix`.
  Part 4 corollaries per kind of intervention: `no_effect_before_start_program`, `no_effect_before_start_series`,
         `no_effect_before_start_scenario`, `grid_extension`.
-/
import AtomicaModel.Scenario
import AtomicaModel.Grid
import AtomicaProofs.Properties.C06Series
import AtomicaProofs.Properties.C03Grid
import Mathlib.Tactic.Linarith
import Mathlib.Tactic.NormNum

namespace Atomica.C09
open Atomica Atomica.Engine Atomica.Scenario Atomica.Series

variable {net : Net}

/-! ## Part 1: `Engine.runFrom` is causal -/

theorem runFrom_cons_some {dt : Rat} {pv : Nat → Rat} {pvs : List (Nat → Rat)} {x : Stock} {r : List (Stock × Flow)}
    (h : runFrom net dt (pv :: pvs) x = some r) :
    ∃ fl x' rest, step net dt pv x = some (fl, x') ∧ runFrom net dt pvs x' = some rest ∧ r = (x, fl) :: rest := by
  unfold runFrom at h
  split at h
  · exact absurd h (by simp)
  · rename_i fl x' hs
    split at h
    · exact absurd h (by simp)
    · rename_i rest hrest
      exact ⟨fl, x', rest, hs, hrest, (Option.some.inj h).symm⟩

theorem runFrom_length {dt : Rat} {pvs : List (Nat → Rat)} {x : Stock} {r : List (Stock × Flow)}
    (h : runFrom net dt pvs x = some r) : r.length = pvs.length := by
  induction pvs generalizing x r with
  | nil => simp [runFrom] at h; simp [← h]
  | cons pv ps ih =>
    obtain ⟨fl, x', rest, _, hrest, hr⟩ := runFrom_cons_some h
    rw [hr, List.length_cons, List.length_cons, ih hrest]

/-- the first entry of a run holds the stocks the run started from -/
theorem runFrom_head {dt : Rat} {pvs : List (Nat → Rat)} {x : Stock} {r : List (Stock × Flow)}
    (h : runFrom net dt pvs x = some r) {e : Stock × Flow} (he : r[0]? = some e) : e.1 = x := by
  cases pvs with
  | nil => simp [runFrom] at h; simp [← h] at he
  | cons pv ps =>
    obtain ⟨fl, x', rest, _, _, hr⟩ := runFrom_cons_some h
    rw [hr] at he
    simp at he
    rw [← he]

/-- **run_causal**: two parameter streams that agree at all indices `< n` (i.e. `≤ i` with `n = i+1`) give runs with
    equal stocks *and* flows at all indices `< n`, and equal stocks at index `n`. -/
theorem run_causal (dt : Rat) (pvs pvs' : List (Nat → Rat)) (x : Stock) (n : Nat)
    (h : pvs.take n = pvs'.take n) {r r' : List (Stock × Flow)}
    (hr : runFrom net dt pvs x = some r) (hr' : runFrom net dt pvs' x = some r') :
    r.take n = r'.take n ∧ (∀ e e', r[n]? = some e → r'[n]? = some e' → e.1 = e'.1) := by
  induction n generalizing pvs pvs' x r r' with
  | zero =>
    refine ⟨by simp, ?_⟩
    intro e e' he he'
    rw [runFrom_head hr he, runFrom_head hr' he']
  | succ n ih =>
    cases pvs with
    | nil =>
      cases pvs' with
      | nil =>
        simp [runFrom] at hr hr'
        subst hr; subst hr'
        exact ⟨rfl, by simp⟩
      | cons pv' ps' => simp at h
    | cons pv ps =>
      cases pvs' with
      | nil => simp at h
      | cons pv' ps' =>
        rw [List.take_succ_cons, List.take_succ_cons] at h
        obtain ⟨hpv, hps⟩ := List.cons.inj h
        obtain ⟨fl, x1, rest, hs, hrest, hr1⟩ := runFrom_cons_some hr
        obtain ⟨fl', x1', rest', hs', hrest', hr1'⟩ := runFrom_cons_some hr'
        rw [← hpv, hs] at hs'
        obtain ⟨hfl, hx1⟩ := Prod.mk.inj (Option.some.inj hs')
        subst hfl; subst hx1
        obtain ⟨h1, h2⟩ := ih ps ps' x1 hps hrest hrest'
        subst hr1; subst hr1'
        refine ⟨by rw [List.take_succ_cons, List.take_succ_cons, h1], ?_⟩
        intro e e' he he'
        rw [List.getElem?_cons_succ] at he he'
        exact h2 e e' he he'

/-- a run on a prefix of the parameter stream is the prefix of the run -/
theorem runFrom_take (dt : Rat) (pvs : List (Nat → Rat)) (x : Stock) (n : Nat) {r : List (Stock × Flow)}
    (hr : runFrom net dt pvs x = some r) : runFrom net dt (pvs.take n) x = some (r.take n) := by
  induction n generalizing pvs x r with
  | zero => simp [runFrom]
  | succ n ih =>
    cases pvs with
    | nil => simp [runFrom] at hr; subst hr; simp [runFrom]
    | cons pv ps =>
      obtain ⟨fl, x1, rest, hs, hrest, hr1⟩ := runFrom_cons_some hr
      subst hr1
      rw [List.take_succ_cons, List.take_succ_cons]
      unfold runFrom
      rw [hs]
      simp only
      rw [ih ps x1 hrest]

/-- **end_extension** (L1): the run on the longer parameter stream (later end year), restricted to the length of the
    shorter one, *is* the shorter run — provided the shorter stream is the prefix (`Atomica.C03.grid_prefix`: the shorter
    grid is a prefix of the longer one, so parameter values that are functions of time and stocks coincide there). -/
theorem end_extension (dt : Rat) (pvsShort pvsLong : List (Nat → Rat)) (x : Stock) (n : Nat)
    (hp : pvsShort = pvsLong.take n) {rL : List (Stock × Flow)}
    (hL : runFrom net dt pvsLong x = some rL) :
    runFrom net dt pvsShort x = some (rL.take n) := by
  rw [hp]
  exact runFrom_take dt pvsLong x n hL

/-! ## Part 2: the closed loop -/

theorem runClosed_succ_some {dt : Rat} {P : Nat → Stock → (Nat → Rat)} {i n : Nat} {x : Stock} {r : List (Stock × Flow)}
    (h : runClosed net dt P i (n + 1) x = some r) :
    ∃ fl x' rest, step net dt (P i x) x = some (fl, x') ∧ runClosed net dt P (i + 1) n x' = some rest ∧ r = (x, fl) :: rest := by
  unfold runClosed at h
  split at h
  · exact absurd h (by simp)
  · rename_i fl x' hs
    split at h
    · exact absurd h (by simp)
    · rename_i rest hrest
      exact ⟨fl, x', rest, hs, hrest, (Option.some.inj h).symm⟩

/-- the closed loop is `Engine.runFrom` on the parameter stream the policy produced along the trajectory -/
theorem runClosed_runFrom {dt : Rat} {P : Nat → Stock → (Nat → Rat)} {i n : Nat} {x : Stock} {r : List (Stock × Flow)}
    (h : runClosed net dt P i n x = some r) : runFrom net dt (pvsOf P i r) x = some r := by
  induction n generalizing i x r with
  | zero => simp [runClosed] at h; subst h; simp [pvsOf, runFrom]
  | succ n ih =>
    obtain ⟨fl, x', rest, hs, hrest, hr⟩ := runClosed_succ_some h
    subst hr
    simp only [pvsOf]
    unfold runFrom
    rw [hs]
    simp only
    rw [ih hrest]

theorem runClosed_length {dt : Rat} {P : Nat → Stock → (Nat → Rat)} {i n : Nat} {x : Stock} {r : List (Stock × Flow)}
    (h : runClosed net dt P i n x = some r) : r.length = n := by
  induction n generalizing i x r with
  | zero => simp [runClosed] at h; simp [← h]
  | succ n ih =>
    obtain ⟨fl, x', rest, _, hrest, hr⟩ := runClosed_succ_some h
    rw [hr, List.length_cons, ih hrest]

/-- policies that agree at the indices `i, …, i+n-1` (for every stock) give the same `n`-step run (same definedness too) -/
theorem runClosed_congr (dt : Rat) (P P' : Nat → Stock → (Nat → Rat)) (i n : Nat) (x : Stock)
    (h : ∀ j, j < n → ∀ y, P (i + j) y = P' (i + j) y) :
    runClosed net dt P i n x = runClosed net dt P' i n x := by
  induction n generalizing i x with
  | zero => simp [runClosed]
  | succ n ih =>
    unfold runClosed
    have h0 : P i x = P' i x := by simpa using h 0 (Nat.succ_pos n) x
    rw [h0]
    cases hs : step net dt (P' i x) x with
    | none => rfl
    | some p =>
      obtain ⟨fl, x'⟩ := p
      simp only
      rw [ih (i + 1) x' (fun j hj y => by
        have := h (j + 1) (Nat.succ_lt_succ hj) y
        rwa [show i + (j + 1) = i + 1 + j by omega] at this)]

/-- a shorter closed-loop run is the prefix of a longer one -/
theorem runClosed_take (dt : Rat) (P : Nat → Stock → (Nat → Rat)) (i N n : Nat) (x : Stock) (hn : n ≤ N)
    {r : List (Stock × Flow)} (hr : runClosed net dt P i N x = some r) :
    runClosed net dt P i n x = some (r.take n) := by
  induction n generalizing i N x r with
  | zero => simp [runClosed]
  | succ n ih =>
    cases N with
    | zero => omega
    | succ N =>
      obtain ⟨fl, x', rest, hs, hrest, hr1⟩ := runClosed_succ_some hr
      subst hr1
      unfold runClosed
      rw [hs]
      simp only
      rw [ih (i + 1) N x' (by omega) hrest, List.take_succ_cons]

theorem runClosed_head {dt : Rat} {P : Nat → Stock → (Nat → Rat)} {i n : Nat} {x : Stock} {r : List (Stock × Flow)}
    (h : runClosed net dt P i n x = some r) {e : Stock × Flow} (he : r[0]? = some e) : e.1 = x := by
  have := runClosed_runFrom h
  exact runFrom_head this he

/-- stocks at index `n` of a closed-loop run are determined by the policy at indices `< n` -/
theorem runClosed_stock_at (dt : Rat) (P P' : Nat → Stock → (Nat → Rat)) (i N N' n : Nat) (x : Stock)
    (h : ∀ j, j < n → ∀ y, P (i + j) y = P' (i + j) y)
    {r r' : List (Stock × Flow)} (hr : runClosed net dt P i N x = some r) (hr' : runClosed net dt P' i N' x = some r')
    {e e' : Stock × Flow} (he : r[n]? = some e) (he' : r'[n]? = some e') : e.1 = e'.1 := by
  induction n generalizing i N N' x r r' with
  | zero => rw [runClosed_head hr he, runClosed_head hr' he']
  | succ n ih =>
    cases N with
    | zero => simp [runClosed] at hr; subst hr; simp at he
    | succ N =>
      cases N' with
      | zero => simp [runClosed] at hr'; subst hr'; simp at he'
      | succ N' =>
        obtain ⟨fl, x1, rest, hs, hrest, hr1⟩ := runClosed_succ_some hr
        obtain ⟨fl', x1', rest', hs', hrest', hr1'⟩ := runClosed_succ_some hr'
        have h0 : P i x = P' i x := by simpa using h 0 (Nat.succ_pos n) x
        rw [← h0, hs] at hs'
        obtain ⟨hfl, hx1⟩ := Prod.mk.inj (Option.some.inj hs')
        subst hfl; subst hx1; subst hr1; subst hr1'
        rw [List.getElem?_cons_succ] at he he'
        exact ih (i + 1) N N' x1 (fun j hj y => by
          have := h (j + 1) (Nat.succ_lt_succ hj) y
          rwa [show i + (j + 1) = i + 1 + j by omega] at this) hrest hrest' he he'

/-- **closed_causal** (`no_effect_before_start`, generic form): if the way parameter values are produced agrees at all
    indices `< n` (the indices with `t_i < Y`), then — whatever happens from index `n` on, and whatever the two end years
    are — stocks and flows at all indices `< n` coincide, and so do the stocks at index `n`. -/
theorem closed_causal (dt : Rat) (P P' : Nat → Stock → (Nat → Rat)) (N N' n : Nat) (x : Stock)
    (hn : n ≤ N) (hn' : n ≤ N') (h : ∀ j, j < n → ∀ y, P j y = P' j y)
    {r r' : List (Stock × Flow)} (hr : runClosed net dt P 0 N x = some r) (hr' : runClosed net dt P' 0 N' x = some r') :
    r.take n = r'.take n ∧ (∀ e e', r[n]? = some e → r'[n]? = some e' → e.1 = e'.1) := by
  have h' : ∀ j, j < n → ∀ y, P (0 + j) y = P' (0 + j) y := by simpa using h
  refine ⟨?_, fun e e' he he' => runClosed_stock_at dt P P' 0 N N' n x h' hr hr' he he'⟩
  have h1 := runClosed_take dt P 0 N n x hn hr
  have h2 := runClosed_take dt P' 0 N' n x hn' hr'
  rw [runClosed_congr dt P P' 0 n x h', h2] at h1
  exact (Option.some.inj h1).symm

/-- **closed_end_extension**: running the same model to a later end year (`N' ≥ N` steps) and looking at the first `N`
    indices gives the shorter run. -/
theorem closed_end_extension (dt : Rat) (P : Nat → Stock → (Nat → Rat)) (N N' : Nat) (x : Stock) (h : N ≤ N')
    {r' : List (Stock × Flow)} (hr' : runClosed net dt P 0 N' x = some r') :
    runClosed net dt P 0 N x = some (r'.take N) :=
  runClosed_take dt P 0 N' N x h hr'

/-- the start-up sequence (parameters at index 0, junction flush) is covered as soon as one index lies before `Y` -/
theorem process_causal (dt : Rat) (P P' : Nat → Stock → (Nat → Rat)) (N N' n : Nat) (xinit : Stock)
    (hn : n ≤ N) (hn' : n ≤ N') (hpos : 0 < n) (h : ∀ j, j < n → ∀ y, P j y = P' j y)
    {r r' : List (Stock × Flow)} (hr : processClosed net dt P N xinit = some r)
    (hr' : processClosed net dt P' N' xinit = some r') :
    r.take n = r'.take n ∧ (∀ e e', r[n]? = some e → r'[n]? = some e' → e.1 = e'.1) := by
  unfold processClosed at hr hr'
  rw [← h 0 hpos xinit] at hr'
  cases hf : flushAll net (P 0 xinit) xinit net.jorder with
  | none => rw [hf] at hr; simp at hr
  | some x0 =>
    rw [hf] at hr hr'
    simp only [Option.bind_some] at hr hr'
    exact closed_causal dt P P' N N' n x0 hn hn' h hr hr'

/-! ## Part 3a: program gating -/

theorem active_before_start {start : Rat} {stop : Option Rat} {t : Rat} (h : t < start) : active start stop t = false := by
  unfold active
  have : ¬ start ≤ t := not_le.mpr h
  simp [this]

theorem active_after_stop {start s t : Rat} (h : s < t) : active start (some s) t = false := by
  unfold active
  have : ¬ t ≤ s := not_le.mpr h
  simp [this]

theorem active_between {start : Rat} {stop : Option Rat} {t : Rat} (h1 : start ≤ t) (h2 : ∀ s, stop = some s → t ≤ s) :
    active start stop t = true := by
  unfold active
  cases stop with
  | none => simp [h1]
  | some s => simp [h1, h2 s rfl]

/-- not active: the program outcome is not looked at -/
theorem evalOne_inactive (t dt n st : Rat) (fn : Option Rat) (skip : Option (Rat × Option Rat)) (u : PUnits) (lim : Limits)
    (prog prog' : Option Rat) :
    evalOne false t dt n st fn skip u lim prog = evalOne false t dt n st fn skip u lim prog' := by
  simp [evalOne]

/-- active but not targeted = not active -/
theorem evalOne_untargeted (act : Bool) (t dt n st : Rat) (fn : Option Rat) (skip : Option (Rat × Option Rat)) (u : PUnits)
    (lim : Limits) (prog : Option Rat) :
    evalOne act t dt n st fn skip u lim none = evalOne false t dt n st fn skip u lim prog := by
  cases act <;> simp [evalOne]

theorem evalFrom_inactive (t dt : Rat) (i : Nat) (x : Stock) (prog prog' : Nat → Option Rat) (specs : List ParSpec)
    (k : Nat) (env : Nat → Rat) :
    evalFrom false t dt i x prog specs k env = evalFrom false t dt i x prog' specs k env := by
  induction specs generalizing k env with
  | nil => rfl
  | cons s rest ih =>
    simp only [evalFrom]
    rw [evalOne_inactive t dt _ _ _ _ _ _ (prog k) (prog' k)]
    exact ih _ _

theorem evalFrom_untargeted (act : Bool) (t dt : Rat) (i : Nat) (x : Stock) (prog : Nat → Option Rat) (specs : List ParSpec)
    (k : Nat) (env : Nat → Rat) :
    evalFrom act t dt i x (fun _ => none) specs k env = evalFrom false t dt i x prog specs k env := by
  induction specs generalizing k env with
  | nil => rfl
  | cons s rest ih =>
    simp only [evalFrom]
    rw [evalOne_untargeted act t dt _ _ _ _ _ _ (prog k)]
    exact ih _ _

/-- the same model without a program set -/
def withoutProgs (S : Setup) : Setup := { S with progs := noProgs }

/-- without a program set, start and stop year are irrelevant -/
theorem policy_noProgs (S : Setup) (start' : Rat) (stop' : Option Rat) (i : Nat) (x : Stock) :
    policy { withoutProgs S with start := start', stop := stop' } i x = policy (withoutProgs S) i x := by
  unfold policy withoutProgs noProgs
  simp only
  rw [evalFrom_untargeted (active start' stop' (S.tg i)) _ _ _ _ (fun _ => none),
    evalFrom_untargeted (active S.start S.stop (S.tg i)) _ _ _ _ (fun _ => none)]

/-- **gating_before_start**: at a time before the start year, the parameter values (all of them, for every stock) are
    those of the model without the program set: outcomes, coverage, capacity, spending are not looked at. -/
theorem gating_before_start (S : Setup) (i : Nat) (x : Stock) (h : S.tg i < S.start) :
    policy S i x = policy (withoutProgs S) i x := by
  unfold policy withoutProgs noProgs
  simp only
  rw [active_before_start h, evalFrom_untargeted _ _ _ _ _ (S.progs i x)]

/-- **gating_after_stop** (same stocks): after the stop year every parameter is computed as without programs -/
theorem gating_after_stop (S : Setup) (s : Rat) (hs : S.stop = some s) (i : Nat) (x : Stock) (h : s < S.tg i) :
    policy S i x = policy (withoutProgs S) i x := by
  unfold policy withoutProgs noProgs
  simp only
  rw [hs, active_after_stop h, evalFrom_untargeted _ _ _ _ _ (S.progs i x)]

/-- value of a data-driven parameter (no function) after `evalFrom`: it depends neither on the stocks nor on other
    parameters -/
theorem evalFrom_data (act : Bool) (t dt : Rat) (i : Nat) (x : Stock) (prog : Nat → Option Rat) (specs : List ParSpec)
    (k0 : Nat) (env : Nat → Rat) (m : Nat) (s : ParSpec) (hs : specs[m]? = some s) (hf : s.fn = none) :
    evalFrom act t dt i x prog specs k0 env (k0 + m)
      = constrain s.lim (if act then (match prog (k0 + m) with
                                      | some o => progConv s.units dt (s.popsize x) o
                                      | none => s.stored i) else s.stored i) := by
  have keep : ∀ (specs : List ParSpec) (k : Nat) (env : Nat → Rat) (j : Nat), j < k →
      evalFrom act t dt i x prog specs k env j = env j := by
    intro specs
    induction specs with
    | nil => intro k env j _; rfl
    | cons s' rest ih =>
      intro k env j hj
      simp only [evalFrom]
      rw [ih (k + 1) _ j (by omega)]
      simp [Nat.ne_of_lt hj]
  induction specs generalizing k0 env m with
  | nil => simp at hs
  | cons s' rest ih =>
    cases m with
    | zero =>
      simp at hs
      subst hs
      simp only [evalFrom, Nat.add_zero]
      rw [keep rest (k0 + 1) _ k0 (by omega)]
      simp only [evalOne, hf, if_true, Option.map_none]
      rfl
    | succ m =>
      simp only [List.getElem?_cons_succ] at hs
      simp only [evalFrom]
      have := ih (k0 + 1) (fun j => if j = k0 then
        evalOne act t dt (s'.popsize x) (s'.stored i) (s'.fn.map (fun f => f env x i)) s'.skip s'.units s'.lim (prog k0)
        else env j) m hs
      rw [show k0 + 1 + m = k0 + (m + 1) by omega] at this
      exact this

/-- **gating_after_stop_data**: after the stop year a data-driven targeted parameter has its non-program value again
    (limits applied to the parset value) — whatever the stocks have become under the program, and whatever the program says. -/
theorem gating_after_stop_data (S : Setup) (s : Rat) (hs : S.stop = some s) (i : Nat) (x : Stock) (h : s < S.tg i)
    (k : Nat) (p : ParSpec) (hp : S.specs[k]? = some p) (hf : p.fn = none) :
    policy S i x k = constrain p.lim (p.stored i)
      ∧ ∀ x', policy (withoutProgs S) i x' k = constrain p.lim (p.stored i) := by
  constructor
  · unfold policy
    rw [hs, active_after_stop h]
    have := evalFrom_data false (S.tg i) S.dt i x (S.progs i x) S.specs 0 (initEnv S.specs i) k p hp hf
    simpa using this
  · intro x'
    unfold policy withoutProgs noProgs
    simp only
    have := evalFrom_data (active S.start S.stop (S.tg i)) (S.tg i) S.dt i x' (fun _ => none) S.specs 0
      (initEnv S.specs i) k p hp hf
    simp only [Nat.zero_add] at this
    rw [this]
    cases active S.start S.stop (S.tg i) <;> simp

/-! ## Part 3b: stepped (`previous`) series of spending, capacity and coverage -/

/-- **previous_prefix_many**: any number of changes dated after `t` leave the stepped value at `t` unchanged, provided
    the series already states the value in force at `t` (has a non-NaN point dated at or before `t`). -/
theorem previous_prefix_many (s : TS) (hs : C06.WF s.raw) (t : Rat) (pts : List (Rat × Option Rat))
    (hY : ∀ p ∈ pts, t < p.1) (hp : ∃ p ∈ clean s.raw, p.1 ≤ t) :
    interpPrevious { s with raw := insertAll pts s.raw } t = interpPrevious s t := by
  induction pts generalizing s with
  | nil => rfl
  | cons p rest ih =>
    have hlt : t < p.1 := hY p (by simp)
    have h1 := C06.previous_prefix s hs t p.1 p.2 hlt hp
    have hwf : C06.WF (s.insertAt p.1 p.2).raw := C06.insert_wf p.1 p.2 s.raw hs
    have hp' : ∃ q ∈ clean (s.insertAt p.1 p.2).raw, q.1 ≤ t := by
      obtain ⟨q, hq, hqt⟩ := hp
      have hf := C06.filter_clean_insertRaw s.raw t p.1 p.2 hlt
      have hqf : q ∈ (clean s.raw).filter (fun p => decide (p.1 ≤ t)) := List.mem_filter.mpr ⟨hq, by simpa using hqt⟩
      rw [← hf] at hqf
      exact ⟨q, (List.mem_filter.mp hqf).1, hqt⟩
    have h2 := ih (s.insertAt p.1 p.2) hwf (fun q hq => hY q (List.mem_cons_of_mem _ hq)) hp'
    rw [← h1, ← h2]
    rfl

/-! ## Part 3c: `ParameterScenario.get_parset` keeps the baseline on every simulation time before `Y` -/

theorem minL_le {l : List Rat} {a : Rat} (h : minL l = some a) : ∀ b ∈ l, a ≤ b := by
  induction l generalizing a with
  | nil => simp [minL] at h
  | cons c rest ih =>
    unfold minL at h
    cases hm : minL rest with
    | none =>
      rw [hm] at h
      simp only [Option.some.injEq] at h
      subst h
      intro b hb
      rcases List.mem_cons.mp hb with hb | hb
      · rw [hb]
      · cases rest with
        | nil => simp at hb
        | cons d r => unfold minL at hm; split at hm <;> simp at hm
    | some m0 =>
      rw [hm] at h
      simp only [Option.some.injEq] at h
      intro b hb
      have hrest := ih hm
      rcases List.mem_cons.mp hb with hb | hb
      · subst hb
        rw [← h]
        split
        · rename_i hlt; exact hlt.le
        · exact le_refl _
      · have := hrest b hb
        rw [← h]
        split
        · exact this
        · rename_i hnl; exact le_trans (not_lt.mp hnl) this

theorem minL_mem {l : List Rat} {a : Rat} (h : minL l = some a) : a ∈ l := by
  induction l generalizing a with
  | nil => simp [minL] at h
  | cons c rest ih =>
    unfold minL at h
    cases hm : minL rest with
    | none => rw [hm] at h; simp only [Option.some.injEq] at h; subst h; simp
    | some m0 =>
      rw [hm] at h
      simp only [Option.some.injEq] at h
      rw [← h]
      split
      · exact List.mem_cons_of_mem _ (ih hm)
      · simp

theorem sample_cons_some {m : Method} {s : TS} {t : Rat} {ts : List Rat} {l : List Raw}
    (h : sample m s (t :: ts) = some l) :
    ∃ r rs, outRaw t (interp m s t) = some r ∧ sample m s ts = some rs ∧ l = r :: rs := by
  unfold sample at h
  split at h
  · rename_i r rs h1 h2
    exact ⟨r, rs, h1, h2, (Option.some.inj h).symm⟩
  · exact absurd h (by simp)

theorem outRaw_time {t : Rat} {o : Out} {r : Raw} (h : outRaw t o = some r) : r.1 = some t := by
  cases o <;> simp [outRaw] at h <;> rw [← h]

/-- the stored times of a sample are the requested times -/
theorem sample_times {m : Method} {s : TS} {ts : List Rat} {l : List Raw} (h : sample m s ts = some l) :
    l.map (·.1) = ts.map some := by
  induction ts generalizing l with
  | nil => simp [sample] at h; subst h; rfl
  | cons t rest ih =>
    obtain ⟨r, rs, h1, h2, hl⟩ := sample_cons_some h
    subst hl
    simp [outRaw_time h1, ih h2]

theorem sample_mem {m : Method} {s : TS} {ts : List Rat} {l : List Raw} (h : sample m s ts = some l)
    {t v : Rat} (ht : t ∈ ts) (hv : interp m s t = .val v) : (some t, some v) ∈ l := by
  induction ts generalizing l with
  | nil => simp at ht
  | cons t0 rest ih =>
    obtain ⟨r, rs, h1, h2, hl⟩ := sample_cons_some h
    subst hl
    rcases List.mem_cons.mp ht with ht | ht
    · subst ht
      rw [hv] at h1
      simp [outRaw] at h1
      simp [← h1]
    · exact List.mem_cons_of_mem _ (ih h2 ht)

theorem sample_wf {m : Method} {s : TS} {ts : List Rat} {l : List Raw} (h : sample m s ts = some l)
    (hts : ts.Pairwise (· < ·)) : C06.WF l := by
  have ht := sample_times h
  constructor
  · intro r hr
    have : r.1 ∈ l.map (·.1) := List.mem_map.mpr ⟨r, hr, rfl⟩
    rw [ht] at this
    obtain ⟨t, _, htt⟩ := List.mem_map.mp this
    rw [← htt]; rfl
  · have h2 : (l.map (·.1)).Pairwise (fun a b => a.getD 0 < b.getD 0) := by
      rw [ht, List.pairwise_map]
      exact hts
    rw [List.pairwise_map] at h2
    exact h2

theorem insertAll_wf (pts : List (Rat × Option Rat)) (raw : List Raw) (h : C06.WF raw) : C06.WF (insertAll pts raw) := by
  induction pts generalizing raw with
  | nil => exact h
  | cons p rest ih => exact ih _ (C06.insert_wf p.1 p.2 raw h)

/-- inserts dated differently from an entry leave the entry in place -/
theorem insertAll_keep (pts : List (Rat × Option Rat)) (raw : List Raw) (h : C06.WF raw) (r : Raw) (hr : r ∈ raw)
    (hne : ∀ p ∈ pts, r.1 ≠ some p.1) : r ∈ insertAll pts raw := by
  induction pts generalizing raw with
  | nil => exact hr
  | cons p rest ih =>
    refine ih _ (C06.insert_wf p.1 p.2 raw h) ?_ (fun q hq => hne q (List.mem_cons_of_mem _ hq))
    exact (C06.insert_spec p.1 p.2 raw h r).mpr (Or.inr ⟨hr, hne p (by simp)⟩)

theorem removeBetween_wf (lo hi : Rat) (raw : List Raw) (h : C06.WF raw) : C06.WF (removeBetween lo hi raw) := by
  unfold removeBetween
  exact ⟨fun r hr => h.1 r (List.mem_filter.mp hr).1, List.Pairwise.filter _ h.2⟩

theorem removeBetween_keep (lo hi : Rat) (raw : List Raw) (r : Raw) (hr : r ∈ raw) (t : Rat) (ht : r.1 = some t)
    (hlo : t ≤ lo) : r ∈ removeBetween lo hi raw := by
  unfold removeBetween
  refine List.mem_filter.mpr ⟨hr, ?_⟩
  rw [ht]
  have : ¬ lo < t := not_lt.mpr hlo
  simp [this]

theorem rawPts_time {raw : List Raw} {p : Rat × Option Rat} (hp : p ∈ rawPts raw) : some p.1 ∈ raw.map (·.1) := by
  unfold rawPts at hp
  obtain ⟨r, hr, hrp⟩ := List.mem_filterMap.mp hp
  cases h1 : r.1 with
  | none => rw [h1] at hrp; simp at hrp
  | some t =>
    rw [h1] at hrp
    simp at hrp
    rw [← hrp]
    exact List.mem_map.mpr ⟨r, hr, h1⟩

/-- **scenario_prefix** (given `Y`): the series stored by `get_parset` holds, for every simulation time `t < Y` at which
    the baseline has a value, exactly that value at exactly that time, and interpolates (default method) to it there. -/
theorem applyAt_prefix (s : TS) (tvec : List Rat) (ov : List (Rat × Rat)) (m : Method) (Y : Rat)
    (htv : tvec.Pairwise (· < ·)) (hY : ∀ p ∈ ov, Y ≤ p.1) {raw' : List Raw} (h : applyAt s tvec ov m Y = some raw')
    (t : Rat) (ht : t ∈ tvec) (htY : t < Y) (v : Rat) (hv : interpLinear s t = .val v) :
    C06.WF raw' ∧ (some t, some v) ∈ raw' ∧ interpLinear { raw := raw', assumption := s.assumption } t = .val v := by
  unfold applyAt at h
  split at h
  · exact absurd h (by simp)
  · rename_i pinned hpin
    split at h
    · rename_i lo hi hlo hhi
      unfold smooth at h
      split at h
      · exact absurd h (by simp)
      · rename_i v2 hv2
        have hraw : raw' = insertAll (rawPts v2)
            (removeBetween lo hi (insertAll (ov.map (fun p => (p.1, some p.2))) pinned)) := (Option.some.inj h).symm
        -- the pinned entry
        have hpre : t ∈ tvec.filter (fun t => decide (t < Y)) := List.mem_filter.mpr ⟨ht, by simpa using htY⟩
        have hmem0 : (some t, some v) ∈ pinned := sample_mem hpin hpre hv
        have hwf0 : C06.WF pinned := sample_wf hpin (List.Pairwise.filter _ htv)
        -- overwrites are dated at or after Y
        have hwf1 := insertAll_wf (ov.map (fun p => (p.1, some p.2))) pinned hwf0
        have hmem1 : (some t, some v) ∈ insertAll (ov.map (fun p => (p.1, some p.2))) pinned := by
          refine insertAll_keep _ _ hwf0 _ hmem0 ?_
          intro p hp
          obtain ⟨q, hq, hqp⟩ := List.mem_map.mp hp
          have := hY q hq
          rw [← hqp]
          simp only [ne_eq, Option.some.injEq]
          intro heq
          rw [heq] at htY
          exact absurd this (not_le.mpr htY)
        -- remove_between starts at the first simulation time at or after Y
        have hloY : Y ≤ lo := by
          have := (List.mem_filter.mp (minL_mem hlo)).2
          simpa using this
        have hwf2 := removeBetween_wf lo hi _ hwf1
        have hmem2 := removeBetween_keep lo hi _ _ hmem1 t rfl (le_trans htY.le hloY)
        -- the smoothed values are dated at simulation times at or after Y
        have hwf3 := insertAll_wf (rawPts v2) _ hwf2
        have hmem3 : (some t, some v) ∈ insertAll (rawPts v2) (removeBetween lo hi
            (insertAll (ov.map (fun p => (p.1, some p.2))) pinned)) := by
          refine insertAll_keep _ _ hwf2 _ hmem2 ?_
          intro p hp
          have h1 := rawPts_time hp
          rw [sample_times hv2] at h1
          obtain ⟨u, hu, hup⟩ := List.mem_map.mp h1
          have huY : Y ≤ u := by
            have := (List.mem_filter.mp hu).2
            simpa using this
          simp only [ne_eq, Option.some.injEq]
          intro heq
          have hup' : u = p.1 := Option.some.inj hup
          rw [hup', ← heq] at huY
          exact absurd huY (not_le.mpr htY)
        rw [hraw]
        refine ⟨hwf3, hmem3, ?_⟩
        have hcl : ((t, v) : Pt) ∈ clean (insertAll (rawPts v2) (removeBetween lo hi
            (insertAll (ov.map (fun p => (p.1, some p.2))) pinned))) := by
          unfold clean
          exact List.mem_filterMap.mpr ⟨_, hmem3, rfl⟩
        exact C06.interp_knot _ (C06.clean_sorted _ hwf3) (t, v) hcl
    · exact absurd h (by simp)

/-- **scenario_prefix**: for every simulation time `t < Y` (`Y` the first overwrite point) the scenario parset
    interpolates to the baseline value at `t` — for linear and for stepped overwrites —, and the parameter function is
    not skipped at `t` (the skip window is `[Y, ∞)`). -/
theorem scenario_prefix (s : TS) (tvec : List Rat) (ov : List (Rat × Rat)) (m : Method)
    (htv : tvec.Pairwise (· < ·)) {raw' : List Raw} {Y : Rat} (h : apply s tvec ov m = some (raw', Y)) :
    (∀ p ∈ ov, Y ≤ p.1) ∧ (∃ p ∈ ov, p.1 = Y) ∧
    ∀ t ∈ tvec, t < Y →
      skipped (some (Y, none)) t = false ∧
      ∀ v, interpLinear s t = .val v → interpLinear { raw := raw', assumption := s.assumption } t = .val v := by
  unfold apply at h
  split at h
  · exact absurd h (by simp)
  · rename_i Y0 hmin
    cases ha : applyAt s tvec ov m Y0 with
    | none => rw [ha] at h; simp at h
    | some r0 =>
      rw [ha] at h
      simp only [Option.map_some, Option.some.injEq, Prod.mk.injEq] at h
      obtain ⟨hr, hYY⟩ := h
      subst hr; subst hYY
      have hle : ∀ p ∈ ov, Y0 ≤ p.1 := fun p hp => minL_le hmin p.1 (List.mem_map.mpr ⟨p, hp, rfl⟩)
      refine ⟨hle, ?_, ?_⟩
      · obtain ⟨p, hp, hpe⟩ := List.mem_map.mp (minL_mem hmin)
        exact ⟨p, hp, hpe⟩
      · intro t ht htY
        refine ⟨?_, fun v hv => (applyAt_prefix s tvec ov m Y0 htv hle ha t ht htY v hv).2.2⟩
        have : ¬ Y0 ≤ t := not_le.mpr htY
        simp [skipped, this]

/-! ## Part 4: every kind of intervention -/

/-- the grid of `Atomica.Grid`: index `i` is at `start + i*dt` whatever the end year is -/
theorem grid_times_increasing (s d : Rat) (hd : 0 < d) {i j : Nat} (h : i < j) : Grid.point s d i < Grid.point s d j := by
  unfold Grid.point
  have : (i : Rat) < (j : Rat) := by exact_mod_cast h
  nlinarith

/-- **no_effect_before_start (program start year)**: a program set that starts at `Y` — with any spending, capacity,
    coverage, outcomes, stop year — gives the same stocks and flows as the model without programs at every index with
    `t_i < Y`, and the same stocks at the first index at or after `Y`. -/
theorem no_effect_before_start_program (S : Setup) (N N' n : Nat) (x : Stock) (hn : n ≤ N) (hn' : n ≤ N')
    (hbefore : ∀ j, j < n → S.tg j < S.start)
    {r r' : List (Stock × Flow)} (hr : runClosed net S.dt (policy S) 0 N x = some r)
    (hr' : runClosed net S.dt (policy (withoutProgs S)) 0 N' x = some r') :
    r.take n = r'.take n ∧ (∀ e e', r[n]? = some e → r'[n]? = some e' → e.1 = e'.1) :=
  closed_causal S.dt (policy S) (policy (withoutProgs S)) N N' n x hn hn'
    (fun j hj y => gating_before_start S j y (hbefore j hj)) hr hr'

/-- a later start year changes nothing before the earlier one either (both runs have the program set) -/
theorem no_effect_before_start_shift (S : Setup) (start' : Rat) (N N' n : Nat) (x : Stock) (hn : n ≤ N) (hn' : n ≤ N')
    (hbefore : ∀ j, j < n → S.tg j < S.start) (hbefore' : ∀ j, j < n → S.tg j < start')
    {r r' : List (Stock × Flow)} (hr : runClosed net S.dt (policy S) 0 N x = some r)
    (hr' : runClosed net S.dt (policy { S with start := start' }) 0 N' x = some r') :
    r.take n = r'.take n ∧ (∀ e e', r[n]? = some e → r'[n]? = some e' → e.1 = e'.1) :=
  closed_causal S.dt (policy S) (policy { S with start := start' }) N N' n x hn hn'
    (fun j hj y => by
      rw [gating_before_start S j y (hbefore j hj),
        gating_before_start { S with start := start' } j y (hbefore' j hj)]
      exact (policy_noProgs S start' S.stop j y).symm) hr hr'

/-- a model whose program outcomes are a function `G` of the stepped value of an instruction series `ser` (spending,
    capacity or coverage of one program) at the current time — and of index, stocks and parameter -/
def withSeries (S : Setup) (G : Out → Nat → Stock → Nat → Option Rat) (ser : TS) : Setup :=
  { S with progs := fun i x k => G (interpPrevious ser (S.tg i)) i x k }

/-- **no_effect_before_start (spending / capacity / coverage change dated `Y`)**: changes of the instruction series dated
    after every `t_i` with `i < n` — in a series that states the value in force at those `t_i` — change no stock and no
    flow at the indices `< n`, and not the stocks at index `n`. -/
theorem no_effect_before_start_series (S : Setup) (ser : TS) (hwf : C06.WF ser.raw) (pts : List (Rat × Option Rat))
    (G : Out → Nat → Stock → Nat → Option Rat)
    (N N' n : Nat) (x : Stock) (hn : n ≤ N) (hn' : n ≤ N')
    (hafter : ∀ j, j < n → ∀ p ∈ pts, S.tg j < p.1)
    (hstated : ∀ j, j < n → ∃ p ∈ clean ser.raw, p.1 ≤ S.tg j)
    {r r' : List (Stock × Flow)} (hr : runClosed net S.dt (policy (withSeries S G ser)) 0 N x = some r)
    (hr' : runClosed net S.dt (policy (withSeries S G { ser with raw := insertAll pts ser.raw })) 0 N' x = some r') :
    r.take n = r'.take n ∧ (∀ e e', r[n]? = some e → r'[n]? = some e' → e.1 = e'.1) := by
  refine closed_causal S.dt _ _ N N' n x hn hn' (fun j hj y => ?_) hr hr'
  unfold policy withSeries
  simp only
  rw [previous_prefix_many ser hwf (S.tg j) pts (hafter j hj) (hstated j hj)]

/-- two parameter specifications that cannot be told apart at index `i` / time `t` -/
def AgreeAt (i : Nat) (t : Rat) (a b : ParSpec) : Prop :=
  a.stored i = b.stored i ∧ a.fn = b.fn ∧ skipped a.skip t = skipped b.skip t ∧ a.units = b.units ∧ a.lim = b.lim
    ∧ a.popsize = b.popsize

theorem evalFrom_agree (act : Bool) (t dt : Rat) (i : Nat) (x : Stock) (prog : Nat → Option Rat)
    (specs specs' : List ParSpec) (h : List.Forall₂ (AgreeAt i t) specs specs') (k : Nat) (env : Nat → Rat) :
    evalFrom act t dt i x prog specs k env = evalFrom act t dt i x prog specs' k env := by
  induction h generalizing k env with
  | nil => rfl
  | cons hab _ ih =>
    obtain ⟨h1, h2, h3, h4, h5, h6⟩ := hab
    simp only [evalFrom]
    rw [ih]
    simp only [evalOne, h1, h2, h3, h4, h5, h6]

theorem initEnv_agree (i : Nat) (t : Rat) (specs specs' : List ParSpec) (h : List.Forall₂ (AgreeAt i t) specs specs') :
    initEnv specs i = initEnv specs' i := by
  funext k
  unfold initEnv
  induction h generalizing k with
  | nil => rfl
  | cons hab _ ih =>
    cases k with
    | zero => simp [hab.1]
    | succ k => simpa using ih k

/-- **no_effect_before_start (parameter scenario)**: the scenario parset differs from the baseline parset in the stored
    values and the skip windows of the overwritten parameters.  If at every index with `t_i < Y` the stored values
    coincide and no skip window differs (`scenario_prefix` gives both for `get_parset`), all stocks and flows at those
    indices coincide, and the stocks at the first index at or after `Y`. -/
theorem no_effect_before_start_scenario (S : Setup) (specs' : List ParSpec) (N N' n : Nat) (x : Stock)
    (hn : n ≤ N) (hn' : n ≤ N')
    (hagree : ∀ j, j < n → List.Forall₂ (AgreeAt j (S.tg j)) S.specs specs')
    {r r' : List (Stock × Flow)} (hr : runClosed net S.dt (policy S) 0 N x = some r)
    (hr' : runClosed net S.dt (policy { S with specs := specs' }) 0 N' x = some r') :
    r.take n = r'.take n ∧ (∀ e e', r[n]? = some e → r'[n]? = some e' → e.1 = e'.1) := by
  refine closed_causal S.dt _ _ N N' n x hn hn' (fun j hj y => ?_) hr hr'
  unfold policy
  simp only
  rw [initEnv_agree j (S.tg j) _ _ (hagree j hj), evalFrom_agree _ _ _ _ _ _ _ _ (hagree j hj)]

/-- a parameter whose stored series went through `get_parset` agrees with the baseline one at every grid time before `Y`:
    the link between `scenario_prefix` and `AgreeAt` -/
theorem scenario_agreeAt (s : TS) (tvec : List Rat) (ov : List (Rat × Rat)) (m : Method) (htv : tvec.Pairwise (· < ·))
    {raw' : List Raw} {Y : Rat} (h : apply s tvec ov m = some (raw', Y))
    (val : TS → Rat → Rat) (hval : ∀ (a b : TS) (t : Rat), interpLinear a t = interpLinear b t → val a t = val b t)
    (base : ParSpec) (tg : Nat → Rat) (hbase : base.stored = fun i => val s (tg i)) (hskip : base.skip = none)
    (i : Nat) (hi : tg i ∈ tvec) (hlt : tg i < Y) (v : Rat) (hv : interpLinear s (tg i) = .val v) :
    AgreeAt i (tg i) base
      { base with stored := fun i => val { raw := raw', assumption := s.assumption } (tg i), skip := some (Y, none) } := by
  obtain ⟨_, _, hpre⟩ := scenario_prefix s tvec ov m htv h
  obtain ⟨hsk, hvv⟩ := hpre (tg i) hi hlt
  refine ⟨?_, rfl, ?_, rfl, rfl, rfl⟩
  · rw [hbase]
    simp only
    exact hval _ _ _ (by rw [hv, hvv v hv])
  · rw [hskip, hsk]
    rfl

/-- `nSteps` is monotone in the end year -/
theorem nSteps_mono (s e e' d : Rat) (hd : 0 < d) (he : e ≤ e') : Grid.nSteps s e d ≤ Grid.nSteps s e' d := by
  unfold Grid.nSteps Grid.ceilTol
  apply Int.toNat_le_toNat
  have hx : (e - s) / d - Grid.tol ≤ (e' - s) / d - Grid.tol := by
    have : (e - s) / d ≤ (e' - s) / d := div_le_div_of_nonneg_right (by linarith) hd.le
    linarith
  by_contra hc
  have hc' : ((e' - s) / d - Grid.tol).ceil + 1 ≤ ((e - s) / d - Grid.tol).ceil := by omega
  have h1 : (((e - s) / d - Grid.tol).ceil : Rat) < (e - s) / d - Grid.tol + 1 := Rat.ceil_lt
  have h2 : (e' - s) / d - Grid.tol ≤ (((e' - s) / d - Grid.tol).ceil : Rat) := Rat.le_ceil
  have h3 : ((((e' - s) / d - Grid.tol).ceil + 1 : Int) : Rat) ≤ (((e - s) / d - Grid.tol).ceil : Rat) := by
    exact_mod_cast hc'
  push_cast at h3
  linarith

/-- **grid_extension**: a later end year only appends grid points (with `Atomica.C03.grid_prefix`) -/
theorem grid_extension (s e e' d : Rat) (hd : 0 < d) (he : e ≤ e') :
    Grid.tvec s e d = (Grid.tvec s e' d).take (Grid.nSteps s e d + 1) :=
  C03.grid_prefix s e e' d (nSteps_mono s e e' d hd he)

/-- **end_extension (closed loop on the grid)**: with parameter values that are functions of the grid index (time
    `start + i*dt`) and the stocks, the run to the later end year restricted to the shorter grid is the shorter run. -/
theorem end_extension_grid (s e e' d : Rat) (hd : 0 < d) (he : e ≤ e') (P : Nat → Stock → (Nat → Rat)) (x : Stock)
    {r' : List (Stock × Flow)} (hr' : runClosed net d P 0 (Grid.nSteps s e' d + 1) x = some r') :
    runClosed net d P 0 (Grid.nSteps s e d + 1) x = some (r'.take (Grid.nSteps s e d + 1)) :=
  closed_end_extension d P _ _ x (by have := nSteps_mono s e e' d hd he; omega) hr'

/-! ## non-vacuity: the hypotheses are satisfiable, the conclusions are the expected numbers -/

/-- one ordinary compartment, one sink, one rate link `0 → 1` driven by parameter 0 -/
def exNet : Net :=
  { nC := 2, nL := 1, nP := 1,
    kind := fun c => if c = 0 then .normal else .sink,
    nrows := fun _ => 1, src := fun _ => 0, dst := fun _ => 1, par := fun _ => some 0,
    tlink := fun _ => false, lrows := fun _ => 1, isFlush := fun _ => false, jgroup := fun _ => false,
    units := fun _ => .frac, tscale := fun _ => 1, jorder := [] }

def exStock : Stock := fun c r => if c = 0 ∧ r = 0 then 100 else 0

/-- a data-driven rate 1/10 that a program (outcome 1/2 per step… here per year with dt = 1) overwrites from 2002 to 2003 -/
def exSetup : Setup :=
  { specs := [{ stored := fun _ => 1 / 10, fn := none, skip := none, units := .other, lim := ⟨some 0, none⟩,
                popsize := fun x => x 0 0 }],
    tg := fun i => 2000 + i, dt := 1,
    progs := fun _ _ k => if k = 0 then some (1 / 2) else none,
    start := 2002, stop := some 2003 }

example : exNet.nL = 1 ∧ wfCheck exNet = true := by decide +kernel

/-- the program run and the no-program run exist, agree on the stocks of compartment 0 at the indices 0, 1, 2
    (2000, 2001 before the start year and the first index at it) and differ at index 3 -/
example :
    ((runClosed exNet 1 (policy exSetup) 0 5 exStock).map (fun r => r.map (fun e => e.1 0 0)))
      = some [100, 90, 81, 81 / 2, 81 / 4]
    ∧ ((runClosed exNet 1 (policy (withoutProgs exSetup)) 0 5 exStock).map (fun r => r.map (fun e => e.1 0 0)))
      = some [100, 90, 81, 729 / 10, 6561 / 100] := by
  constructor <;> decide +kernel

/-- after the stop year (2003) the data-driven parameter is back at 1/10: index 4 (2004) loses a tenth in both runs -/
example : policy exSetup 4 exStock 0 = 1 / 10 ∧ policy exSetup 3 exStock 0 = 1 / 2 ∧ policy exSetup 1 exStock 0 = 1 / 10 := by
  refine ⟨?_, ?_, ?_⟩ <;> decide +kernel

example : active 2002 (some 2003) 2001 = false ∧ active 2002 (some 2003) 2002 = true
    ∧ active 2002 (some 2003) 2003 = true ∧ active 2002 (some 2003) (20031 / 10) = false
    ∧ active 2002 none 3000 = true := by
  refine ⟨?_, ?_, ?_, ?_, ?_⟩ <;> decide +kernel

/-- `get_parset` on the baseline 2000 ↦ 1, 2004 ↦ 3 (linear), grid 2000..2004 step 1, overwrite (2002.5 ↦ 10), (2003.5 ↦ 20):
    2000, 2001, 2002 keep the baseline 1, 3/2, 2; the off-grid overwrite points stay; 2003 and 2004 are smoothed -/
example :
    apply ⟨[(some 2000, some 1), (some 2004, some 3)], none⟩ [2000, 2001, 2002, 2003, 2004]
        [(4005 / 2, 10), (4007 / 2, 20)] .linear
      = some ([(some 2000, some 1), (some 2001, some (3 / 2)), (some 2002, some 2), (some (4005 / 2), some 10),
               (some 2003, some 15), (some 2004, some 20)], 4005 / 2) := by
  decide +kernel

example :
    apply ⟨[(some 2000, some 1), (some 2004, some 3)], none⟩ [2000, 2001, 2002, 2003, 2004]
        [(4005 / 2, 10), (4007 / 2, 20)] .previous
      = some ([(some 2000, some 1), (some 2001, some (3 / 2)), (some 2002, some 2), (some (4005 / 2), some 10),
               (some 2003, some 10), (some 2004, some 20)], 4005 / 2) := by
  decide +kernel

/-- no simulation time at or after `Y`: the call raises -/
example : apply ⟨[(some 2000, some 1)], none⟩ [2000, 2001] [(2005, 10)] .linear = none := by decide +kernel

/-- the pinning is what makes `scenario_prefix` true: merely inserting the overwrite into the sparse baseline series
    changes the linear interpolant before `Y` (2002 would read 41/5 instead of 2) -/
example : interpLinear ⟨insertRaw (4005 / 2) (some 10) [(some 2000, some 1), (some 2004, some 3)], none⟩ 2002
    ≠ interpLinear ⟨[(some 2000, some 1), (some 2004, some 3)], none⟩ 2002 := by decide +kernel

/-- a spending series that states the value in force (2000 ↦ 5): changes dated 2003 and 2004 leave 2002.9 at 5 -/
example : interpPrevious ⟨insertAll [(2003, some 7), (2004, some 9)] [(some 2000, some 5)], none⟩ (20029 / 10) = .val 5
    ∧ interpPrevious ⟨insertAll [(2003, some 7), (2004, some 9)] [(some 2000, some 5)], none⟩ 2003 = .val 7 := by
  constructor <;> decide +kernel

/-- the hypotheses of `no_effect_before_start_program` hold for `exSetup` with `n = 2` (2000, 2001 are before 2002) … -/
example : ∀ j, j < 2 → exSetup.tg j < exSetup.start := by
  intro j hj
  match j, hj with
  | 0, _ => simp [exSetup]; norm_num
  | 1, _ => simp [exSetup]; norm_num

/-- … so the theorem applies to the two runs above: the first two entries coincide, and so do the stocks at index 2 -/
example {r r' : List (Stock × Flow)} (hr : runClosed exNet exSetup.dt (policy exSetup) 0 5 exStock = some r)
    (hr' : runClosed exNet exSetup.dt (policy (withoutProgs exSetup)) 0 5 exStock = some r') :
    r.take 2 = r'.take 2 :=
  (no_effect_before_start_program exSetup 5 5 2 exStock (by omega) (by omega)
    (by intro j hj
        match j, hj with
        | 0, _ => simp [exSetup]; norm_num
        | 1, _ => simp [exSetup]; norm_num) hr hr').1

/-- `scenario_prefix` applies to the concrete `get_parset` example (the grid is strictly increasing) -/
example : ([2000, 2001, 2002, 2003, 2004] : List Rat).Pairwise (· < ·) := by decide +kernel

example : Grid.nSteps 2000 2010 (3 / 10) ≤ Grid.nSteps 2000 2020 (3 / 10) := by decide +kernel

end Atomica.C09
