/-
  C13 — Active programs set targeted parameters exactly, and reports match the run.

  "While programs are active each targeted parameter in each targeted population takes exactly the value the program set
   implies at the coverage prevailing in that step - computed from that step's spending, unit cost and the current size of
   the targeted compartments, converted for number and per-year parameters, and clipped to limits.  The spending, capacity,
   number eligible and coverage reported from the finished result are the ones that produced those values.  Parameters and
   populations that no program targets are changed only through the model dynamics."

  Theorems about `Atomica.Params` (`stepValue`, `covUsed`, `eligUsed`, `evalOne`, `…Reported`), the model that
  harness/vlib/params_corr.py compares with `Model.update_pars` (every call of `ProgramSet.get_outcomes` /
  `Program.get_prop_covered` observed from outside), the finished parameter arrays and `Result.get_coverage / get_alloc`,
  and about `Atomica.Engine.convert` for the number round trip.
-/
import AtomicaModel.Params
import AtomicaModel.Engine
import AtomicaProofs.Properties.C06Params
import Mathlib.Tactic.Linarith
import Mathlib.Tactic.FieldSimp
import Mathlib.Tactic.Ring
import Mathlib.Tactic.NormNum
import Mathlib.Algebra.Order.Field.Basic

namespace Atomica.C13
open Atomica Atomica.Params

/-! ## the targeted value -/

/-- **program_value** — at an active time index a targeted (parameter, population) stores
    `clip (convert units (outcome (cov t)))`, where `cov t` is the list `covUsed` of this step (below: computed from this
    step's spending, unit cost and the current sizes of the target compartments), `outcome` is `Covout.get_outcome`. -/
theorem program_value (Es : Nat → Rat → Rat) (dt : Rat) (ps : List ProgStep) (c : CovoutSpec) (i : Inp) (o : Rat)
    (hl : i.inLoop = true) (ha : inWin i.active i.t = true) (hagg : i.agg = none) (hmode : i.mode ≠ .postcompute)
    (ho : outcomeFrom (ps.mapIdx (fun k p => covUsed (Es k) dt p)) c = some o) :
    stepValue Es dt ps c i = clipV i.lim (convert i o) := by
  unfold stepValue
  rw [ho]
  exact C06.precedence_program { i with outcome := some o } o hl ha rfl hagg hmode

/-- the three conversions -/
theorem convert_number (i : Inp) (o : Rat) (hu : i.units = .number) (hdt : i.dt ≠ 0) :
    convert i o = some (o * i.popsize / i.dt) := by
  simp [convert, hu, divQ, hdt]

theorem convert_perTime (i : Inp) (o : Rat) (hu : i.units = .perTime) (hdt : i.dt ≠ 0) :
    convert i o = some (o / i.dt) := by
  simp [convert, hu, divQ, hdt]

theorem convert_other (i : Inp) (o : Rat) (hu : i.units = .other) : convert i o = some o := by
  simp [convert, hu]

/-- the outcome of a covout with one program is `baseline + coverage · (outcome − baseline)` -/
theorem outcome_single (covs : List V) (inter : Covout.Interaction) (b o cv : Rat) (k : Nat) (ex : List (Nat × Rat))
    (hk : covs[k]? = some (some cv)) :
    outcomeFrom covs ⟨inter, b, [(k, o)], ex⟩ = some (b + cv * (o - b)) := by
  simp [outcomeFrom, hk, mkProgs, Covout.outcome, Covout.sortProgs, Covout.insByMag, Covout.outcomeSorted]

/-- **coverage_from_spending** — without overwrites the coverage of the step is `get_prop_covered` of
    `spending (·dt if one-off) / unit cost` (capped by the constraint) and the sum of the current target sizes -/
theorem coverage_from_spending (E : Rat → Rat) (dt : Rat) (p : ProgStep) (hi : p.instr = ⟨none, none, none⟩)
    (huc : p.book.unitCost ≠ 0) :
    covUsed E dt p =
      Coverage.propCovered E
        (let c := (if p.book.oneOff then p.book.spend * dt else p.book.spend) / p.book.unitCost
         match p.book.capCon with
         | none => c
         | some k => Coverage.minQ (if p.book.capPerYear then k * dt else k) c)
        (listSum (p.targets.map (·.size))) p.book.sat := by
  unfold covUsed capUsed Coverage.capacityAt Coverage.capacity Coverage.allocAt eligUsed
  rw [hi]
  simp only [Option.getD_none, divQ, huc, if_false]
  cases p.book.capCon <;> rfl

/-- overwrites enter at their stage: a coverage overwrite decides the coverage (`·dt` for one-off programs, at most 1) -/
theorem coverage_overwrite (E : Rat → Rat) (dt : Rat) (p : ProgStep) (c : Rat) (hc : p.instr.coverage = some c) :
    covUsed E dt p = some (Coverage.minQ (if p.book.oneOff then c * dt else c) 1) := by
  simp [covUsed, hc]

/-! ## frame -/

/-- **frame** — a (parameter, population) without a covout is computed exactly as with no program set at all:
    it changes only through the model dynamics (its function of the same-step dependencies, or its data) -/
theorem frame (i : Inp) (ho : i.outcome = none) : evalOne i = evalOne { i with active := none } := by
  have h1 : progApplies i = false := by simp [progApplies, ho]
  have h2 : progApplies { i with active := none } = false := by simp [progApplies, inWin]
  unfold evalOne afterPost afterAgg afterProg
  simp only [h1, h2]
  rfl

/-- outside `[start_year, stop_year]` a targeted parameter is computed as if it were not targeted -/
theorem frame_inactive (i : Inp) (ha : inWin i.active i.t = false) : evalOne i = evalOne { i with outcome := none } := by
  have h1 : progApplies i = false := by simp [progApplies, ha]
  have h2 : progApplies { i with outcome := none } = false := by simp [progApplies]
  unfold evalOne afterPost afterAgg afterProg
  simp only [h1, h2]
  rfl

/-- parameters whose name the loop does not visit are never overwritten -/
theorem frame_not_in_loop (i : Inp) (hl : i.inLoop = false) : evalOne i = evalOne { i with outcome := none } := by
  have h1 : progApplies i = false := by simp [progApplies, hl]
  have h2 : progApplies { i with outcome := none } = false := by simp [progApplies]
  unfold evalOne afterPost afterAgg afterProg
  simp only [h1, h2]
  rfl

/-! ## reports -/

theorem listSum_congr_map {α : Type} (l : List α) (f g : α → Rat) (h : ∀ a ∈ l, f a = g a) :
    listSum (l.map f) = listSum (l.map g) := by
  induction l with
  | nil => rfl
  | cons a l ih =>
    simp only [List.map_cons, listSum, List.foldr_cons]
    rw [h a List.mem_cons_self]
    have := ih (fun a ha => h a (List.mem_cons_of_mem _ ha))
    simp only [listSum] at this
    rw [this]

theorem listSum_nonneg_map {α : Type} (l : List α) (f : α → Rat) (h : ∀ a ∈ l, 0 ≤ f a) : 0 ≤ listSum (l.map f) := by
  induction l with
  | nil => simp [listSum]
  | cons a l ih =>
    simp only [List.map_cons, listSum, List.foldr_cons]
    have h1 := ih (fun a ha => h a (List.mem_cons_of_mem _ ha))
    simp only [listSum] at h1
    exact add_nonneg (h a List.mem_cons_self) h1

theorem minQ_idem (a : Rat) : Coverage.minQ (Coverage.minQ a 1) 1 = Coverage.minQ a 1 := by
  unfold Coverage.minQ
  by_cases h : a ≤ 1
  · simp [h]
  · simp [h]

/-- what `get_prop_covered` returns is already at most 1 (so the extra `np.minimum(·, 1)` of `get_prop_coverage` is idle) -/
theorem propCovered_min (E : Rat → Rat) (cap elig : Rat) (sat : Option Rat) (he : 0 ≤ elig) (v : Rat)
    (hv : Coverage.propCovered E cap elig sat = some v) : Coverage.minQ v 1 = v := by
  unfold Coverage.propCovered at hv
  cases sat with
  | none =>
    simp only at hv
    split at hv
    · rename_i hgt
      unfold divQ at hv
      split at hv
      · cases hv
      · rename_i hne
        have hpos : 0 < elig := lt_of_le_of_ne he (Ne.symm hne)
        cases hv
        unfold Coverage.minQ
        rw [if_pos]
        rw [div_le_one hpos]
        exact le_of_lt hgt
    · cases hv; simp [Coverage.minQ]
  | some s =>
    simp only at hv
    split at hv
    · cases hv
    · split at hv
      · cases hv; exact minQ_idem s
      · generalize Coverage.satCurve s (E (-2 * (cap / elig) / s)) = w at hv
        cases w with
        | none => cases hv
        | some w =>
          simp only [Option.map_some, Option.some.injEq] at hv
          subst hv
          exact minQ_idem w

/-- **report_eq_used** — if no target compartment is a junction (and no target is negative), the number eligible and the
    coverage that `Result.get_coverage` recomputes from the finished arrays are the ones the loop used at that index -/
theorem report_eq_used (E : Rat → Rat) (dt : Rat) (p : ProgStep) (hj : ∀ t ∈ p.targets, t.isJunction = false)
    (hs : ∀ t ∈ p.targets, 0 ≤ t.size) :
    eligReported p = eligUsed p ∧ covReported E dt p = covUsed E dt p := by
  have helig : eligReported p = eligUsed p := by
    unfold eligReported eligUsed
    apply listSum_congr_map
    intro t ht
    simp [hj t ht]
  refine ⟨helig, ?_⟩
  unfold covReported covUsed Coverage.effective capUsed
  rw [helig]
  cases p.instr.coverage with
  | some c => rfl
  | none =>
    simp only
    cases hcap : Coverage.capacityAt p.instr p.book dt with
    | none => rfl
    | some cap =>
      simp only [Option.bind_some]
      cases hpc : Coverage.propCovered E cap (eligUsed p) p.book.sat with
      | none => rfl
      | some v =>
        simp only [Option.map_some]
        congr 1
        exact propCovered_min E cap (eligUsed p) p.book.sat (listSum_nonneg_map _ _ hs) v hpc

/-- **report_capacity** — the reported capacity (people/year) is the capacity the loop used, annualised for one-off programs -/
theorem report_capacity (dt : Rat) (p : ProgStep) (hdt : dt ≠ 0) (cap : Rat) (hc : capUsed dt p = some cap) :
    capReported dt p = some (if p.book.oneOff then cap / dt else cap) := by
  unfold capUsed at hc
  unfold capReported
  rw [hc]
  by_cases h : p.book.oneOff = true
  · simp [h, divQ, hdt]
  · simp [h]

/-- **report_alloc** — the reported spending is the spending the capacity of the step was computed from -/
theorem report_alloc (dt : Rat) (p : ProgStep) (hcap : p.instr.capacity = none) :
    capUsed dt p = Coverage.capacity (allocReported p) p.book.unitCost dt p.book.oneOff p.book.capCon p.book.capPerYear := by
  simp [capUsed, Coverage.capacityAt, hcap, allocReported]

/-- and a spending overwrite of the instructions is what is reported -/
theorem report_alloc_overwrite (p : ProgStep) (a : Rat) (h : p.instr.alloc = some a) : allocReported p = a := by
  simp [allocReported, Coverage.allocAt, h]

/-- **report_number** — number covered = coverage · eligible (per year for one-off programs) -/
theorem report_number (E : Rat → Rat) (dt : Rat) (p : ProgStep) (hdt : dt ≠ 0) (c : Rat) (hc : covReported E dt p = some c) :
    numReported E dt p = some (if p.book.oneOff then c * eligReported p / dt else c * eligReported p) := by
  unfold numReported
  rw [hc]
  by_cases h : p.book.oneOff = true
  · simp [h, divQ, hdt]
  · simp [h]

/-- the documented gap: a junction target is reported by its outflow but counted as its (empty) stock in the loop -/
def junctionEx : ProgStep :=
  ⟨⟨100, 1, false, none, false, none⟩, ⟨none, none, none⟩, [⟨true, 0, 50⟩, ⟨false, 150, 0⟩]⟩

theorem junction_gap : eligReported junctionEx ≠ eligUsed junctionEx ∧
    covReported (fun _ => 1) 1 junctionEx ≠ covUsed (fun _ => 1) 1 junctionEx := by
  decide +kernel

/-! non-vacuity of `report_eq_used`, `report_capacity`, `coverage_from_spending` -/
def progEx : ProgStep :=
  ⟨⟨1000, 10, true, some 80, true, none⟩, ⟨none, none, none⟩, [⟨false, 60, 0⟩, ⟨false, 70, 0⟩]⟩

example : covUsed (fun _ => 1) (1/2) progEx = some (4/13) := by decide +kernel
example : covReported (fun _ => 1) (1/2) progEx = some (4/13) := by
  rw [(report_eq_used _ _ progEx (by decide) (by decide +kernel)).2]; decide +kernel
example : capReported (1/2) progEx = some 80 := by
  rw [report_capacity (1/2) progEx (by norm_num) 40 (by decide +kernel)]; simp [progEx]; norm_num

/-! ## number parameters: the round trip through `update_links` -/

open Engine in
/-- **number_units_roundtrip** — a number parameter set by a program to `outcome · source_popsize / dt` (clip idle) makes
    `update_links` move the fraction `outcome / timescale` of every source compartment in that step: the `· popsize / dt`
    of the program stage and the `· dt / timescale / popsize` of the link stage cancel.  (The people moved from row `r` are then
    `outcome/T · rescale · x c r`, `Engine.baseFlow`.) -/
theorem number_units_roundtrip (net : Net) (dt : Rat) (pv : Nat → Rat) (x : Stock) (l p : Nat) (i : Inp) (o : Rat)
    (hpar : net.par l = some p) (hu : net.units p = .num) (hsrc : net.kind (net.src l) ≠ .source)
    (hiu : i.units = .number) (hidt : i.dt = dt) (hin : i.popsize = popsize net x p)
    (hpv : convert i o = some (pv p))
    (ho : 0 < o) (hn : 0 < popsize net x p) (hdt : 0 < dt) (hT : net.tscale p ≠ 0) :
    Engine.convert net dt pv x l = o / net.tscale p := by
  have hdt0 : dt ≠ 0 := ne_of_gt hdt
  have hn0 : popsize net x p ≠ 0 := ne_of_gt hn
  have hval : pv p = o * popsize net x p / dt := by
    rw [convert_number i o hiu (by rw [hidt]; exact hdt0), hidt, hin] at hpv
    exact (Option.some.inj hpv).symm
  have hpos : ¬ pv p ≤ 0 := by
    rw [hval]
    exact not_le.mpr (div_pos (mul_pos ho hn) hdt)
  unfold Engine.convert
  simp only [hpar, hpos, if_false, hu, hsrc, hn0]
  rw [hval]
  field_simp

/-- non-vacuity: one compartment, one number link -/
def rtNet : Engine.Net :=
  { nC := 2, nL := 1, nP := 1, kind := fun _ => .normal, nrows := fun _ => 1, src := fun _ => 0, dst := fun _ => 1,
    par := fun _ => some 0, tlink := fun _ => false, lrows := fun _ => 1, isFlush := fun _ => false, jgroup := fun _ => false,
    units := fun _ => .num, tscale := fun _ => 1, jorder := [] }

example : Engine.convert rtNet (1/4) (fun _ => (1/10) * 200 / (1/4)) (fun c _ => if c = 0 then 200 else 0) 0 = 1/10 := by
  decide +kernel

end Atomica.C13
