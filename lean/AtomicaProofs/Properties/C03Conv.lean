/-
  C03 (conversion half) — "At every step the people moved by each transition equal the documented conversion of its driving
  parameter's current value: a probability or rate p with timescale T moves the fraction p*dt/T of the source, a duration d moves the
  fraction dt/(d*T), a number N moves N*dt/T people shared over the parameter's source compartments in proportion to their sizes
  (a source compartment emits exactly N*dt/T), and fractions leaving one compartment that sum to more than 1 are divided by their sum."

  `Spec.*` below is the documented rule written on its own (docs/general/Parameters.rst, "Timescales"), independent of the layered
  engine model; the theorems say that `Engine.convert` / `Engine.resolveFlow` (which mirror `Model.update_links` and
  `resolve_outflows`, and are tied to the code by the step-level correspondence) compute exactly that.
-/
import AtomicaModel.Engine
import AtomicaProofs.Properties.C02

namespace Atomica.C03
open Atomica Atomica.Engine

variable {net : Net}

namespace Spec
/-- fraction of the source moved in one step by a probability / rate `p` with timescale `T` -/
def fracRate (p dt T : Rat) : Rat := p * dt / T
/-- fraction moved by a duration `d` with timescale `T` -/
def fracDuration (d dt T : Rat) : Rat := dt / (d * T)
/-- people moved in one step by a number parameter `N` with timescale `T` -/
def amountNumber (N dt T : Rat) : Rat := N * dt / T
end Spec

/-- the per-step fraction the engine caches for a probability / rate parameter is the documented `p*dt/T` -/
theorem convert_rate (dt : Rat) (pv : Nat → Rat) (x : Stock) {l p : Nat} (hp : net.par l = some p)
    (hu : net.units p = .frac) (hpos : 0 < pv p) :
    convert net dt pv x l = Spec.fracRate (pv p) dt (net.tscale p) := by
  unfold convert Spec.fracRate
  simp only [hp, hu, not_le.mpr hpos, if_false]
  ring

/-- … for a duration parameter it is the documented `dt/(d*T)` -/
theorem convert_duration (dt : Rat) (pv : Nat → Rat) (x : Stock) {l p : Nat} (hp : net.par l = some p)
    (hu : net.units p = .dur) (hpos : 0 < pv p) :
    convert net dt pv x l = Spec.fracDuration (pv p) dt (net.tscale p) := by
  unfold convert Spec.fracDuration
  simp only [hp, hu, not_le.mpr hpos, if_false]

/-- … for a number parameter out of ordinary compartments it is `N*dt/T` divided by the summed size of the parameter's source
    compartments (so each source compartment gives up people in proportion to its size) -/
theorem convert_number (dt : Rat) (pv : Nat → Rat) (x : Stock) {l p : Nat} (hp : net.par l = some p)
    (hu : net.units p = .num) (hpos : 0 < pv p) (hs : net.kind (net.src l) ≠ .source) (hn : popsize net x p ≠ 0) :
    convert net dt pv x l = Spec.amountNumber (pv p) dt (net.tscale p) / popsize net x p := by
  unfold convert Spec.amountNumber
  simp only [hp, hu, not_le.mpr hpos, if_false, hs, hn]
  ring

/-- … nobody in any source compartment of the parameter: nothing moves -/
theorem convert_number_empty (dt : Rat) (pv : Nat → Rat) (x : Stock) {l p : Nat} (hp : net.par l = some p)
    (hu : net.units p = .num) (hs : net.kind (net.src l) ≠ .source) (hn : popsize net x p = 0) :
    convert net dt pv x l = 0 := by
  unfold convert
  simp only [hp, hu, hs, hn, if_true, if_false]
  split <;> rfl

/-- a source compartment emits exactly `N*dt/T` -/
theorem flow_source_number (dt : Rat) (pv : Nat → Rat) (x : Stock) {l p : Nat} (hp : net.par l = some p)
    (hu : net.units p = .num) (hpos : 0 < pv p) (hs : net.kind (net.src l) = .source) :
    resolveFlow net (convert net dt pv x) x l 0 = Spec.amountNumber (pv p) dt (net.tscale p) := by
  have hc : convert net dt pv x l = Spec.amountNumber (pv p) dt (net.tscale p) := by
    unfold convert Spec.amountNumber
    simp only [hp, hu, not_le.mpr hpos, if_false, hs, if_true]
    ring
  unfold resolveFlow
  simp only [hs]
  rw [if_neg (by simp)]
  unfold baseFlow
  simp only [hs, if_true, hc]

/-- fractions leaving one compartment (row) that sum to at most 1: the flow is `stock × fraction` -/
theorem flow_is_stock_times_fraction (cache : Nat → Rat) (x : Stock) {l r : Nat}
    (hk : net.kind (net.src l) = .normal ∨ net.kind (net.src l) = .timed) (hr : r < net.nrows (net.src l))
    (ha : acts net l r = true) (hle : outReq net cache (net.src l) r ≤ 1) :
    resolveFlow net cache x l r = x (net.src l) r * cache l := by
  obtain ⟨k, _, _, h1, _, hf⟩ := C02.resolve_common_factor (net := net) cache x r hk
  rw [hf l rfl hr ha, h1 hle]; ring

/-- fractions that sum to `Σ > 1` are divided by their sum: the flow is `stock × fraction / Σ` -/
theorem flow_normalised (cache : Nat → Rat) (x : Stock) {l r : Nat}
    (hk : net.kind (net.src l) = .normal ∨ net.kind (net.src l) = .timed) (hr : r < net.nrows (net.src l))
    (ha : acts net l r = true) (hgt : 1 < outReq net cache (net.src l) r) :
    resolveFlow net cache x l r = x (net.src l) r * cache l / outReq net cache (net.src l) r := by
  obtain ⟨k, _, _, _, h2, hf⟩ := C02.resolve_common_factor (net := net) cache x r hk
  rw [hf l rfl hr ha, h2 hgt]; ring

/-- the documented rules combined, for a probability / rate parameter out of an ordinary compartment whose requests sum to at most 1:
    people moved = stock × p·dt/T -/
theorem flow_probability (dt : Rat) (pv : Nat → Rat) (x : Stock) {l p : Nat} (hp : net.par l = some p)
    (hu : net.units p = .frac) (hpos : 0 < pv p) (hk : net.kind (net.src l) = .normal) (hn : 0 < net.nrows (net.src l))
    (ha : acts net l 0 = true) (hle : outReq net (convert net dt pv x) (net.src l) 0 ≤ 1) :
    resolveFlow net (convert net dt pv x) x l 0 = x (net.src l) 0 * Spec.fracRate (pv p) dt (net.tscale p) := by
  rw [flow_is_stock_times_fraction _ x (Or.inl hk) hn ha hle, convert_rate dt pv x hp hu hpos]

theorem flow_duration (dt : Rat) (pv : Nat → Rat) (x : Stock) {l p : Nat} (hp : net.par l = some p)
    (hu : net.units p = .dur) (hpos : 0 < pv p) (hk : net.kind (net.src l) = .normal) (hn : 0 < net.nrows (net.src l))
    (ha : acts net l 0 = true) (hle : outReq net (convert net dt pv x) (net.src l) 0 ≤ 1) :
    resolveFlow net (convert net dt pv x) x l 0 = x (net.src l) 0 * Spec.fracDuration (pv p) dt (net.tscale p) := by
  rw [flow_is_stock_times_fraction _ x (Or.inl hk) hn ha hle, convert_duration dt pv x hp hu hpos]

/-- a number parameter moves `N·dt/T` people shared over its source compartments in proportion to their sizes -/
theorem flow_number (dt : Rat) (pv : Nat → Rat) (x : Stock) {l p : Nat} (hp : net.par l = some p)
    (hu : net.units p = .num) (hpos : 0 < pv p) (hk : net.kind (net.src l) = .normal) (hn : 0 < net.nrows (net.src l))
    (ha : acts net l 0 = true) (hpop : popsize net x p ≠ 0) (hle : outReq net (convert net dt pv x) (net.src l) 0 ≤ 1) :
    resolveFlow net (convert net dt pv x) x l 0
      = Spec.amountNumber (pv p) dt (net.tscale p) * (x (net.src l) 0 / popsize net x p) := by
  rw [flow_is_stock_times_fraction _ x (Or.inl hk) hn ha hle,
      convert_number dt pv x hp hu hpos (by rw [hk]; simp) hpop]
  ring

/-! non-vacuity: on the concrete net of C02 (compartment 0 holds 100 people; link 0 is a rate 3/yr, link 1 a duration 1/2 yr, dt = 1:
    requests 3 + 2 = 5 > 1) the normalised rule gives 100·3/5 = 60 and 100·2/5 = 40 -/
example : resolveFlow C02.exNet (convert C02.exNet 1 C02.exPv C02.exX) C02.exX 0 0 = 100 * 3 / 5 := by decide +kernel
example : convert C02.exNet 1 C02.exPv C02.exX 0 = Spec.fracRate 3 1 1 ∧ convert C02.exNet 1 C02.exPv C02.exX 1 = Spec.fracDuration (1/2) 1 1 := by
  decide +kernel

end Atomica.C03
