/-
  C20 — "Reported aggregates depend only on what was asked for and add up."

  Theorems about `Atomica.Aggregate` / `Atomica.Cascade` (lean/AtomicaModel/Aggregate.lean).  The
  specification-shaped `plotData` is what harness/props/c20.py compares `PlotData(...)` with, entry by entry;
  `plotDataCurrent` is the code as written (default method carried over, D8) and is proved equal to the
  specification whenever every requested aggregation resolves to one and the same method (`plotDataCurrent_eq_map`),
  with kernel-checked witnesses that it differs otherwise (`carry_over_witness`, `carry_over_pop_witness`).
-/
import AtomicaModel.Aggregate
import AtomicaProofs.Lemmas.Aggregate
import Mathlib.Tactic.Linarith
import Mathlib.Tactic.Ring
import Mathlib.Tactic.FieldSimp
import Mathlib.Tactic.NormNum
import Mathlib.Algebra.Order.BigOperators.Group.List
import Mathlib.Algebra.BigOperators.Group.List.Basic
import Mathlib.Data.List.Perm.Subperm

namespace Atomica.C20
open Atomica Atomica.Aggregate Atomica.Cascade

/-! ### Sums add up -/

/-- A summed output aggregate equals the sum of the series of its parts (same population, same call options). -/
theorem sum_of_parts (d : Data) (oa pa : Option Method) (ls : List Nat) (p : Nat)
    (h : method oa (aggUnits d ls) = .sum) :
    seriesValue d oa pa (.agg ls) (.single p)
      = osum (ls.map fun l => seriesValue d oa pa (.plain l) (.single p)) := by
  have : (ls.map fun l => seriesValue d oa pa (.plain l) (.single p)) = (ls.map (cell d p)).map some := by
    simp [seriesValue, outValue, outValueWith]
  rw [this, osum_map_some]
  simp [seriesValue, outValue, outValueWith, h, aggregate, outParts, Function.comp_def]

/-- A summed population aggregate equals the sum over its populations of the same output's series. -/
theorem sum_of_parts_pops (d : Data) (oa pa : Option Method) (o : OutSpec) (ps : List Nat)
    (h : method pa (outUnits d o) = .sum) :
    seriesValue d oa pa o (.agg ps) = osum (ps.map fun p => seriesValue d oa pa o (.single p)) := by
  simp only [seriesValue, h, aggregateO, popParts]
  induction ps with
  | nil => simp [allSome, aggregate, osum]
  | cons p t ih =>
      cases hv : outValue d oa o p with
      | none => simp [allSome, hv, osum, oadd]
      | some v =>
          simp only [List.map_cons, allSome, hv, osum]
          rw [← ih]
          cases allSome (t.map fun p => (outValue d oa o p, d.popsize.getD p 0)) with
          | none => simp [oadd]
          | some l => simp [aggregate, oadd]

/-- The total of a number quantity (units outside the dimensionless list) with the *default* population
aggregation equals the sum over populations. -/
theorem total_number_is_sum (d : Data) (oa : Option Method) (o : OutSpec) (ps : List Nat)
    (hu : dimless (outUnits d o) = false) :
    seriesValue d oa none o (.agg ps) = osum (ps.map fun p => seriesValue d oa none o (.single p)) :=
  sum_of_parts_pops d oa none o ps (by simp [method, defaultMethod, hu])

/-! ### Averages lie between the smallest and the largest part -/

/-- An unweighted average of a non-empty list of parts exists and lies between any bounds on the parts
(in particular between the smallest and the largest part). -/
theorem average_between (parts : List (Rat × Rat)) (hne : parts ≠ []) (lo hi : Rat)
    (h : ∀ p ∈ parts, lo ≤ p.1 ∧ p.1 ≤ hi) :
    ∃ a, aggregate .average parts = some a ∧ lo ≤ a ∧ a ≤ hi := by
  have hlen : (0 : Rat) < (parts.length : Rat) := by
    have : 0 < parts.length := List.length_pos_iff.mpr hne
    exact_mod_cast this
  refine ⟨(parts.map (·.1)).sum / parts.length, ?_, ?_, ?_⟩
  · simp [aggregate, divQ, hlen.ne']
  all_goals
    have hb := sum_bounds (parts.map (·.1)) lo hi (by
      intro v hv
      obtain ⟨p, hp, rfl⟩ := List.mem_map.mp hv
      exact h p hp)
    simp only [List.length_map] at hb
  · rw [le_div_iff₀ hlen]; linarith [hb.1]
  · rw [div_le_iff₀ hlen]; linarith [hb.2]

/-- A weighted average with non-negative weights, not all zero, exists and lies between the smallest and
the largest part. -/
theorem weighted_between (parts : List (Rat × Rat)) (hw : ∀ p ∈ parts, 0 ≤ p.2)
    (hpos : (parts.map (·.2)).sum ≠ 0) (lo hi : Rat) (h : ∀ p ∈ parts, lo ≤ p.1 ∧ p.1 ≤ hi) :
    ∃ a, aggregate .weighted parts = some a ∧ lo ≤ a ∧ a ≤ hi := by
  have hnn : 0 ≤ (parts.map (·.2)).sum := List.sum_nonneg (by
    intro x hx
    obtain ⟨p, hp, rfl⟩ := List.mem_map.mp hx
    exact hw p hp)
  have hW : 0 < (parts.map (·.2)).sum := lt_of_le_of_ne hnn (Ne.symm hpos)
  have hb := wsum_bounds parts lo hi h hw
  refine ⟨(parts.map fun p => p.1 * p.2).sum / (parts.map (·.2)).sum, ?_, ?_, ?_⟩
  · simp [aggregate, divQ, hpos]
  · rw [le_div_iff₀ hW]; exact hb.1
  · rw [div_le_iff₀ hW]; exact hb.2

/-- Series level: the default aggregate over populations of a plain dimensionless output is the average of
the populations' series and lies between the smallest and the largest of them. -/
theorem pop_average_between (d : Data) (oa : Option Method) (l : Nat) (ps : List Nat) (hne : ps ≠ [])
    (hu : dimless (unitOf d l) = true) (lo hi : Rat) (h : ∀ p ∈ ps, lo ≤ cell d p l ∧ cell d p l ≤ hi) :
    ∃ a, seriesValue d oa none (.plain l) (.agg ps) = some a ∧ lo ≤ a ∧ a ≤ hi := by
  have hm : method none (outUnits d (.plain l)) = .average := by simp [method, defaultMethod, outUnits, hu]
  have hparts : popParts d (outValue d oa (.plain l)) ps
      = (ps.map fun p => (cell d p l, d.popsize.getD p 0)).map fun q => (some q.1, q.2) := by
    simp [popParts, outValue, outValueWith]
  simp only [seriesValue, hm, aggregateO, hparts, allSome_map_some, Option.bind_some]
  apply average_between _ (by simpa using hne) lo hi
  intro q hq
  obtain ⟨p, hp, rfl⟩ := List.mem_map.mp hq
  exact h p hp

/-- non-vacuity: average and weighted average of (1, 3) with weights (1, 3) -/
example : aggregate .average [(1, 1), (3, 3)] = some 2 ∧ aggregate .weighted [(1, 1), (3, 3)] = some (5 / 2) := by
  constructor <;> (simp [aggregate, divQ]; norm_num)

/-- the guard is needed: all weights zero gives NaN (0/0), not a value between the parts -/
example : aggregate .weighted [(1, 0), (3, 0)] = none := by simp [aggregate, divQ]

/-- D19: the code's weighted population average is NaN wherever the numerator is 0 (e.g. a prevalence of
exactly 0 in every population), where the specification gives 0. -/
theorem weighted_zero_witness :
    aggregatePopCurrent .weighted [(some 0, 5), (some 0, 7)] = none
      ∧ aggregateO .weighted [(some 0, 5), (some 0, 7)] = some 0 := by
  constructor
  · simp [aggregatePopCurrent, allSome]
  · simp [aggregateO, allSome, aggregate, divQ]; norm_num

/-! ### The reported value depends only on the request -/

/-- The entry of a call for (population group at position `i`, output at position `j`) is `seriesValue` of
exactly that output and that group. -/
theorem plotData_entry (d : Data) (oa pa : Option Method) (outs : List OutSpec) (pops : List PopSpec)
    (i j : Nat) (g : PopSpec) (o : OutSpec) (hg : pops[i]? = some g) (ho : outs[j]? = some o) :
    (plotData d oa pa outs pops)[i * outs.length + j]? = some (seriesValue d oa pa o g) :=
  flatMap_map_getElem? (fun g o => seriesValue d oa pa o g) outs pops i j g o hg ho

/-- **Depends only on what was asked for.**  The same (output, population group) with the same options has the
same reported value in every call that requests it — whatever else is requested, in whatever order. -/
theorem depends_only_on_request (d : Data) (oa pa : Option Method)
    (outs outs' : List OutSpec) (pops pops' : List PopSpec) (i j i' j' : Nat) (g : PopSpec) (o : OutSpec)
    (hg : pops[i]? = some g) (ho : outs[j]? = some o) (hg' : pops'[i']? = some g) (ho' : outs'[j']? = some o) :
    (plotData d oa pa outs pops)[i * outs.length + j]?
      = (plotData d oa pa outs' pops')[i' * outs'.length + j']? := by
  rw [plotData_entry d oa pa outs pops i j g o hg ho, plotData_entry d oa pa outs' pops' i' j' g o hg' ho']

/-- non-vacuity: a request at positions (0,1) of one call and (1,0) of another -/
example (d : Data) (a b : OutSpec) (g h : PopSpec) :
    (plotData d none none [a, b] [g])[0 * 2 + 1]? = (plotData d none none [b] [h, g])[1 * 1 + 0]? :=
  depends_only_on_request d none none [a, b] [b] [g] [h, g] 0 1 1 0 g b rfl rfl rfl rfl

/-! ### Interpolation and time aggregation commute with summation -/

theorem interp_linear_additive (l : List (Rat × Rat × Rat)) (t : Rat) :
    interp (addS l) t = oadd (interp (fstS l) t) (interp (sndS l) t) := by
  induction l with
  | nil => simp [addS, fstS, sndS, interp, oadd]
  | cons a rest ih =>
      cases rest with
      | nil =>
          simp only [addS, fstS, sndS, List.map_cons, List.map_nil, interp]
          split <;> simp [oadd]
      | cons b rest' =>
          simp only [addS, fstS, sndS, List.map_cons, interp] at ih ⊢
          split
          · simp [oadd]
          · split
            · simp only [oadd, Option.some.injEq]; ring
            · exact ih

theorem trapz_additive (l : List (Rat × Rat × Rat)) :
    trapz (addS l) = trapz (fstS l) + trapz (sndS l) := by
  induction l with
  | nil => simp [addS, fstS, sndS, trapz]
  | cons a rest ih =>
      cases rest with
      | nil => simp [addS, fstS, sndS, trapz]
      | cons b rest' =>
          simp only [addS, fstS, sndS, List.map_cons, trapz] at ih ⊢
          rw [ih]; ring

theorem sampleAll_cons (pts : List (Rat × Rat)) (x : Rat) (xs : List Rat) :
    sampleAll pts (x :: xs) = (interp pts x).bind fun v => (sampleAll pts xs).map ((x, v) :: ·) := by
  simp only [sampleAll, List.mapM_cons]
  cases interp pts x <;> simp
  cases List.mapM (fun x => Option.map (fun v => (x, v)) (interp pts x)) xs <;> simp

theorem sample_add (l : List (Rat × Rat × Rat)) (xs : List Rat) :
    match sampleAll (fstS l) xs, sampleAll (sndS l) xs with
    | some sa, some sb => ∃ tri, sa = fstS tri ∧ sb = sndS tri ∧ sampleAll (addS l) xs = some (addS tri)
    | _, _ => sampleAll (addS l) xs = none := by
  induction xs with
  | nil => exact ⟨[], by simp [fstS], by simp [sndS], by simp [sampleAll, addS]⟩
  | cons x xs ih =>
      simp only [sampleAll_cons, interp_linear_additive]
      cases ha : interp (fstS l) x with
      | none => simp [oadd]
      | some a =>
        cases hb : interp (sndS l) x with
        | none =>
            cases hsa : sampleAll (fstS l) xs <;> simp [oadd]
        | some b =>
            cases hsa : sampleAll (fstS l) xs with
            | none => simp [hsa] at ih; simp [oadd, ih]
            | some sa =>
              cases hsb : sampleAll (sndS l) xs with
              | none => simp [hsa, hsb] at ih; simp [oadd, ih]
              | some sb =>
                  simp only [hsa, hsb] at ih
                  obtain ⟨tri, h1, h2, h3⟩ := ih
                  exact ⟨(x, a, b) :: tri, by simp [fstS, h1], by simp [sndS, h2], by rw [h3]; simp [addS, oadd]⟩

theorem times_addS (l : List (Rat × Rat × Rat)) :
    (addS l).map (·.1) = (fstS l).map (·.1) ∧ (sndS l).map (·.1) = (fstS l).map (·.1) := by
  simp [addS, fstS, sndS, Function.comp_def]

/-- time aggregation (integrate) of a sum of two series on one time vector = sum of the time aggregates -/
theorem bin_integral_additive (l : List (Rat × Rat × Rat)) (scale lo hi : Rat) :
    binIntegral (addS l) scale lo hi
      = oadd (binIntegral (fstS l) scale lo hi) (binIntegral (sndS l) scale lo hi) := by
  unfold binIntegral
  rw [(times_addS l).1, (times_addS l).2]
  have h := sample_add l (linspace lo hi (refine ((fstS l).map (·.1)) lo hi))
  revert h
  cases sampleAll (fstS l) (linspace lo hi (refine ((fstS l).map (·.1)) lo hi)) <;>
    cases sampleAll (sndS l) (linspace lo hi (refine ((fstS l).map (·.1)) lo hi)) <;>
    intro h <;> simp only at h
  · simp [h, oadd]
  · simp [h, oadd]
  · simp [h, oadd]
  · obtain ⟨tri, rfl, rfl, h3⟩ := h
    simp only [h3, Option.map_some, oadd, Option.some.injEq]
    have := trapz_additive (tri.map fun x => (x.1, x.2.1 / scale, x.2.2 / scale))
    simp only [addS, fstS, sndS, List.map_map, Function.comp_def] at this ⊢
    rw [← this]
    congr 1
    apply List.map_congr_left
    intro x _
    simp [add_div]

/-! ### Cascades -/

/-- If stage `s1`'s compartments all occur in stage `s0` and `s1` has no repeated compartment, `s1 ≤ s0`. -/
theorem cascade_pair (x : Nat → Rat) (hx : ∀ i, 0 ≤ x i) (s0 s1 : Stage)
    (hsub : ∀ i ∈ expand s1, i ∈ expand s0) (hnd : (expand s1).Nodup) :
    stageVal x s1 ≤ stageVal x s0 := by
  rw [stageVal_expand, stageVal_expand]
  obtain ⟨l, hperm, hsl⟩ := hnd.subperm hsub
  have h1 : ((expand s1).map x).sum = (l.map x).sum := ((hperm.map x).sum_eq).symm
  rw [h1]
  exact (hsl.map x).sum_le_sum (fun a ha => by
    obtain ⟨i, _, rfl⟩ := List.mem_map.mp ha
    exact hx i)

/-- **Cascade stage values never increase along a valid cascade.**  For a cascade accepted by the set-based
nesting test of `validate_cascade`, whose stages after the first have no repeated compartment after expansion,
and non-negative compartment sizes, every stage is ≥ every later stage — at every time (the statement is for
an arbitrary time point `x`), for any selection of populations. -/
theorem cascade_monotone (x : Nat → Nat → Rat) (hx : ∀ p i, 0 ≤ x p i) (pops : List Nat) (stages : List Stage)
    (hn : nested stages = true) (hnd : ∀ s ∈ stages.tail, (expand s).Nodup) :
    (vals x pops stages).Pairwise (fun a b => b ≤ a) := by
  unfold vals
  induction stages with
  | nil => simp
  | cons s0 rest ih =>
      simp only [List.map_cons, List.pairwise_cons]
      constructor
      · intro b hb
        obtain ⟨s, hs, rfl⟩ := List.mem_map.mp hb
        apply List.sum_le_sum
        intro p _
        exact cascade_pair (x p) (hx p) s0 s (nested_head s0 rest hn s hs) (hnd s hs)
      · exact ih (nested_tail s0 rest hn) (fun s hs => hnd s (List.mem_of_mem_tail hs))

/-- non-vacuity: all ⊇ {1,2} ⊇ {2} with sizes 5, 3, 2 gives 10 ≥ 5 ≥ 2 -/
example : nested [[[0, 1, 2]], [[1], [2]], [[2]]] = true
    ∧ vals (fun _ i => [5, 3, 2].getD i 0) [0] [[[0, 1, 2]], [[1], [2]], [[2]]] = [10, 5, 2] := by
  constructor
  · decide
  · simp [vals, stageVal]; norm_num

/-- D17: the `Nodup` hypothesis is forced.  The stage `a, a` passes the set-based nesting test under the
stage `a`, and doubles it. -/
theorem duplicate_stage_witness :
    nested [[[0]], [[0], [0]]] = true ∧ vals (fun _ _ => 1) [0] [[[0]], [[0], [0]]] = [1, 2] := by
  constructor
  · decide
  · simp [vals, stageVal]; norm_num

/-! ### The code is the map form when no default is carried over; witnesses that it is not otherwise -/

/-- **`PlotData.__init__` as written equals the specification** whenever every requested output aggregation
resolves to one method `m` and every output's population aggregation resolves to one method `m'` (sum or
average): in particular with explicit `output_aggregation` / `pop_aggregation`, or with defaults when all the
requested outputs have units of one kind.  (`req` = `pops_required` must cover the requested populations.) -/
theorem plotDataCurrent_eq_map (d : Data) (oa pa : Option Method) (m m' : Method) (hm' : m' ≠ .weighted)
    (outs : List OutSpec) (pops : List PopSpec) (req : List Nat)
    (hOA : ∀ ls, OutSpec.agg ls ∈ outs → method oa (aggUnits d ls) = m)
    (hPA : ∀ o ∈ outs, method pa (outUnits d o) = m')
    (hreq : ∀ g ∈ pops, ∀ p ∈ popsOf g, p ∈ req) :
    plotDataCurrent d oa pa outs pops req = plotData d oa pa outs pops := by
  unfold plotDataCurrent plotData
  rw [allPasses_spec d oa m outs hOA req oa (Or.inl rfl)]
  have hjs : ∀ x ∈ (outs.zipIdx.map fun x => (x.2, x.1)), outs[x.1]? = some x.2 := by
    intro x hx
    obtain ⟨y, hy, rfl⟩ := List.mem_map.mp hx
    obtain ⟨o, i⟩ := y
    simpa [List.mem_zipIdx_iff_getElem?] using hy
  have hPA' : ∀ x ∈ (outs.zipIdx.map fun x => (x.2, x.1)), method pa (outUnits d x.2) = m' := by
    intro x hx
    have := hjs x hx
    exact hPA x.2 (List.mem_of_getElem? this)
  rw [popLoop_spec d oa pa m' hm' outs req pops hreq _ hjs hPA' pa (Or.inl rfl)]
  congr 1
  funext g
  rw [List.map_map]
  have : ((fun x : Nat × OutSpec => seriesValue d oa pa x.2 g) ∘ fun x : OutSpec × Nat => (x.2, x.1))
      = (fun o => seriesValue d oa pa o g) ∘ Prod.fst := by
    funext x; rfl
  rw [this, ← List.map_map, List.zipIdx_map_fst]

/-- non-vacuity of `plotDataCurrent_eq_map`: explicit methods satisfy the hypotheses for every request -/
example (d : Data) (a b : Method) (hb : b ≠ .weighted) (outs : List OutSpec) :
    plotDataCurrent d (some a) (some b) outs [.agg [0, 1]] [0, 1] = plotData d (some a) (some b) outs [.agg [0, 1]] :=
  plotDataCurrent_eq_map d (some a) (some b) a b hb outs _ _ (fun _ _ => rfl) (fun _ _ => rfl)
    (by simp [popsOf])

/-- the data of the D8 counter-example: label 0 is a probability (1/2 in the only population), labels 1, 2 are
numbers (100, 200) -/
def d8 : Data := { units := [3, 5, 5], vals := [[1/2, 100, 200]], wts := [[1, 1, 1]], popsize := [10] }

/-- **D8 (carry-over witness).**  On the unchanged code, requesting a probability aggregate first halves the
number aggregate that follows: `[probAgg, numAgg]` reports 150 for `numAgg` where `[numAgg]` alone reports 300. -/
theorem carry_over_witness :
    plotDataCurrent d8 none none [.agg [0], .agg [1, 2]] [.single 0] [0] = [some (1/2), some 150]
      ∧ plotDataCurrent d8 none none [.agg [1, 2]] [.single 0] [0] = [some 300]
      ∧ plotData d8 none none [.agg [0], .agg [1, 2]] [.single 0] = [some (1/2), some 300] := by
  refine ⟨?_, ?_, ?_⟩ <;> decide +kernel

/-- … and the same for the population default: after a probability, the total of a number is averaged -/
def d8p : Data := { units := [3, 5], vals := [[1/2, 100], [1/4, 300]], wts := [[1, 1], [1, 1]], popsize := [10, 30] }

theorem carry_over_pop_witness :
    plotDataCurrent d8p none none [.plain 0, .plain 1] [.agg [0, 1]] [0, 1] = [some (3/8), some 200]
      ∧ plotData d8p none none [.plain 0, .plain 1] [.agg [0, 1]] = [some (3/8), some 400] := by
  refine ⟨?_, ?_⟩ <;> decide +kernel

/-! ### Cascade values from data -/

/-- **Cascade values taken from data equal the sum of the databook entries of each stage's constituents** —
for the code as written (`dataCurrent`, with its in-place `+=` on an aliased array) this holds when no stage's
first constituent recurs later in the stage or in a later stage; `data` is that sum by definition. -/
theorem cascade_data_sum (entry : List (Option Rat)) (stages : List (List Nat))
    (hr : ∀ s ∈ stages, ∀ c ∈ s, c < entry.length) (hne : ∀ s ∈ stages, s ≠ [])
    (hf : FreshHeads stages) :
    dataCurrent entry stages = stages.map fun s => osum (s.map fun c => entry.getD c none) := by
  unfold dataCurrent
  apply List.map_congr_left
  intro s hs
  cases s with
  | nil => exact absurd rfl (hne _ hs)
  | cons c0 rest => exact (dataCurrentStore_spec stages entry hr hf).2 _ hs c0 rest rfl

theorem data_def (entry : List (Option Rat)) (stages : List (List Nat)) :
    data entry stages = stages.map fun s => osum (s.map fun c => entry.getD c none) := rfl

/-- non-vacuity: stages `a,b` then `b,c` (the later head `b` occurs in the earlier stage — allowed) -/
example : FreshHeads [[0, 1], [1, 2]] ∧ dataCurrent [some 1, some 2, some 4] [[0, 1], [1, 2]] = [some 3, some 6] := by
  refine ⟨⟨fun c0 rest h => ?_, ⟨fun c0 rest h => ?_, trivial⟩⟩, by decide +kernel⟩
  · cases h; simp
  · cases h; simp

/-- D8b: stages `a,b` then `a` — the second stage reports `a+b` instead of `a`;
stages `a,b` then `a,c` — both report `a+b+c`. -/
theorem data_alias_witness :
    dataCurrent [some 1, some 2, some 4] [[0, 1], [0]] = [some 3, some 3]
      ∧ data [some 1, some 2, some 4] [[0, 1], [0]] = [some 3, some 1]
      ∧ dataCurrent [some 1, some 2, some 4] [[0, 1], [0, 2]] = [some 7, some 7]
      ∧ data [some 1, some 2, some 4] [[0, 1], [0, 2]] = [some 3, some 5] := by
  refine ⟨?_, ?_, ?_, ?_⟩ <;> decide +kernel

end Atomica.C20
