/-
  C05 — "Timed compartments release every cohort exactly when its duration expires."

  Part A  `Atomica.Timed.nrows` (rows the keyring is specified to have): `rows_spec*`.
  Part B  the abstract keyring `Atomica.Timed.krows` (any `n ≥ 1`, any arrival stream, any survival factors):
          `keyring_closed_form`, `flush_exact`, `flush_exact_pure`, `no_early_release`, `release_linear`,
          `occupancy_bound`, `occupancy_eq`, `short_duration_empties`.
  Part C  one step of the real engine model (`Atomica.Engine.resolveFlow` / `updateComps`, any well-formed net):
          `timed_step`, `keyring_refines_engine`, `keyring_refines_engine_pure`, `flush_link_value`,
          `tlink_keeps_row`, `untimed_restarts`, `short_duration_empties_engine`, `group_mismatch_total`.
  Part D  every reachable state of the engine (`IsRun` = a sequence of successful `Engine.step`s; `run` folds `step`
          over a list of per-step parameter values): `engine_keyring_traj`, `engine_flush_exact`,
          `engine_release_exact`, `engine_occupancy_bound`, `engine_occupancy_bound_general`; whole duration groups
          (compartments joined by timed links): `group_step`, `engine_group_release_exact`.

  Hypotheses are `wfCheck net = true` (evaluated by the driver on every net extracted from a real Model), the
  property's own domain (`0 < dt`, the compartment is timed, initial stocks are non-negative) and, where stated,
  the restriction of the particular theorem ("only untimed inflow", "no other outflow").
-/
import AtomicaModel.Timed
import AtomicaModel.Engine
import AtomicaProofs.Lemmas.Sums
import AtomicaProofs.Lemmas.Keyring
import AtomicaProofs.Lemmas.TimedEngine
import Mathlib.Tactic.Linarith
import Mathlib.Tactic.Ring
import Mathlib.Tactic.FieldSimp
import Mathlib.Tactic.NormNum
import Mathlib.Algebra.Order.Field.Basic

namespace Atomica.C05
open Atomica Atomica.Timed Atomica.Grid Atomica.Engine Finset

/-! ## Part A — number of rows -/

theorem tol_pos : (0 : Rat) < tol := by unfold tol; norm_num
theorem tol_small : (2 : Rat) * tol < 1 := by unfold tol; norm_num

/-- characterisation: `nrows D dt = k` exactly on the band `k-1+tol < D/dt ≤ k+tol` (for `k ≥ 1`) -/
theorem rows_spec_band (D dt : Rat) (k : Nat) (hk : 1 ≤ k)
    (hlo : (k : Rat) - 1 + tol < D / dt) (hhi : D / dt ≤ (k : Rat) + tol) : nrows D dt = k := by
  unfold nrows ceilTol
  have h1 : (D / dt - tol).ceil ≤ (k : Int) := Rat.ceil_le_iff.mpr (by push_cast; linarith)
  have h2 : ((k : Int) - 1) < (D / dt - tol).ceil := Rat.lt_ceil_iff.mpr (by push_cast; linarith)
  have : (D / dt - tol).ceil = (k : Int) := by omega
  rw [this]
  simp only [Int.toNat_natCast]
  omega

/-- `n = k` when `D` is `k` steps up to rounding error -/
theorem rows_spec (D dt : Rat) (k : Nat) (hk : 1 ≤ k) (h : |D / dt - k| ≤ tol) : nrows D dt = k := by
  have h' := abs_le.mp h
  have := tol_small
  exact rows_spec_band D dt k hk (by linarith [h'.1]) (by linarith [h'.2])

/-- a duration shorter than one step: a single row -/
theorem rows_spec_short (D dt : Rat) (hdt : 0 < dt) (hD : D < dt) : nrows D dt = 1 := by
  unfold nrows ceilTol
  have hx : D / dt < 1 := (div_lt_one hdt).mpr hD
  have h1 : (D / dt - tol).ceil ≤ (1 : Int) := Rat.ceil_le_iff.mpr (by push_cast; linarith [tol_pos])
  have : (D / dt - tol).ceil.toNat ≤ 1 := by omega
  omega

theorem rows_pos (D dt : Rat) : 1 ≤ nrows D dt := by unfold nrows; omega

/-- the rows cover the duration: `n·dt ≥ D` up to the rounding tolerance (nobody is released early by the row count) -/
theorem rows_cover (D dt : Rat) (hdt : 0 < dt) : D - tol * dt ≤ (nrows D dt : Rat) * dt := by
  unfold nrows ceilTol
  have h1 : D / dt - tol ≤ ((D / dt - tol).ceil : Rat) := Rat.le_ceil
  have h2 : ((D / dt - tol).ceil : Rat) ≤ ((max 1 (D / dt - tol).ceil.toNat : Nat) : Rat) := by
    have : (D / dt - tol).ceil ≤ ((max 1 (D / dt - tol).ceil.toNat : Nat) : Int) := by omega
    exact_mod_cast this
  have h3 : D / dt * dt = D := by field_simp
  nlinarith

/-- … and no more than needed: one row fewer would be shorter than `D` (when more than one row is allocated) -/
theorem rows_minimal (D dt : Rat) (hdt : 0 < dt) (h : 1 < nrows D dt) : ((nrows D dt : Rat) - 1) * dt < D := by
  unfold nrows ceilTol at *
  have hc : (1 : Int) < (D / dt - tol).ceil := by omega
  have hcast : ((max 1 (D / dt - tol).ceil.toNat : Nat) : Rat) = ((D / dt - tol).ceil : Rat) := by
    have : ((max 1 (D / dt - tol).ceil.toNat : Nat) : Int) = (D / dt - tol).ceil := by omega
    exact_mod_cast this
  rw [hcast]
  have h1 : ((D / dt - tol).ceil : Rat) < D / dt - tol + 1 := Rat.ceil_lt
  have h3 : D / dt * dt = D := by field_simp
  have := tol_pos
  nlinarith

/-- non-vacuity / the float hazard D3: with `D = fl(3*0.1)`, `dt = fl(0.1)` (the exact rationals of the doubles) the
    specification gives 3 rows, while `math.ceil(D/dt)` without tolerance gives 4; same for `5/12`, `1/12`: 5 vs 6 -/
example : nrows (1351079888211149/4503599627370496) (3602879701896397/36028797018963968) = 3
    ∧ nrowsCurrent (1351079888211149/4503599627370496) (3602879701896397/36028797018963968) = 4 := by
  constructor <;> decide +kernel

example : nrows (7505999378950827/18014398509481984) (6004799503160661/72057594037927936) = 5
    ∧ nrowsCurrent (7505999378950827/18014398509481984) (6004799503160661/72057594037927936) = 6 := by
  constructor <;> decide +kernel

example : nrows (5/2) 1 = 3 ∧ nrows (1/2) 1 = 1 ∧ nrows 0 1 = 1 ∧ nrows 100 (1/52) = 5200 := by
  refine ⟨?_, ?_, ?_, ?_⟩ <;> decide +kernel

example : |(1351079888211149/4503599627370496 : Rat) / (3602879701896397/36028797018963968) - (3 : Nat)| ≤ tol := by
  unfold tol; rw [abs_le]; constructor <;> norm_num

/-! ## Part B — the abstract keyring -/

/-- **closed form**: at step `t` row `r` holds the cohort that arrived at step `t-(n-r)`, multiplied by the survival
    factors it met while moving from row `n-1` down to row `r`; before that, the surviving share of the initial
    occupants of row `r+t`. -/
theorem keyring_closed_form (n : Nat) (σ : Nat → Nat → Rat) (a init : Nat → Rat) (t r : Nat) (hr : r < n) :
    krows n σ a init t r =
      if n - r ≤ t then a (t - (n - r)) * cohortSurv n σ (t - (n - r)) (n - 1 - r)
      else init (r + t) * initSurv σ (r + t) t :=
  krows_closed n σ a init t r hr

/-- closed form of the timed outflow -/
theorem flush_closed (n : Nat) (hn : 1 ≤ n) (σ : Nat → Nat → Rat) (a init : Nat → Rat) (t : Nat) :
    flushAt n σ a init t =
      σ t 0 * (if n ≤ t then a (t - n) * cohortSurv n σ (t - n) (n - 1) else init t * initSurv σ t t) := by
  unfold flushAt kflush
  rw [krows_closed n σ a init t 0 (by omega)]
  simp

/-- **flush_exact**: the cohort that enters at step `s` is flushed at step `s+n`: the timed outflow of step `s+n`
    is that cohort times the survival factors of the ordinary outflows it met -/
theorem flush_exact (n : Nat) (hn : 1 ≤ n) (σ : Nat → Nat → Rat) (a init : Nat → Rat) (s : Nat) :
    flushAt n σ a init (s + n) = σ (s + n) 0 * (a s * cohortSurv n σ s (n - 1)) := by
  rw [flush_closed n hn]
  simp

/-- before step `n` the timed outflow is the surviving share of the initial occupants of row `t` -/
theorem flush_initial (n : Nat) (hn : 1 ≤ n) (σ : Nat → Nat → Rat) (a init : Nat → Rat) (t : Nat) (ht : t < n) :
    flushAt n σ a init t = σ t 0 * (init t * initSurv σ t t) := by
  rw [flush_closed n hn]
  have : ¬ n ≤ t := by omega
  simp [this]

/-- with no other outflow a cohort entering at step `s` leaves exactly at step `s+n`, whole -/
theorem flush_exact_pure (n : Nat) (hn : 1 ≤ n) (σ : Nat → Nat → Rat) (hσ : ∀ u r, σ u r = 1) (a init : Nat → Rat) (s : Nat) :
    flushAt n σ a init (s + n) = a s := by
  rw [flush_exact n hn, cohortSurv_one n σ hσ, hσ]; ring

/-- … and the uniformly spread initial occupants leave at `I/n` per step during the first `n` steps -/
theorem flush_initial_pure (n : Nat) (hn : 1 ≤ n) (σ : Nat → Nat → Rat) (hσ : ∀ u r, σ u r = 1) (a : Nat → Rat) (I : Rat)
    (t : Nat) (ht : t < n) : flushAt n σ a (uniformInit n I) t = I / n := by
  rw [flush_initial n hn σ a _ t ht, initSurv_one σ hσ, hσ]
  simp [uniformInit, ht]

/-- **no_early_release** (and no late release): changing the arrivals of step `s` changes the timed outflow of no step
    other than `s+n` -/
theorem no_early_release (n : Nat) (hn : 1 ≤ n) (σ : Nat → Nat → Rat) (a a' init : Nat → Rat) (s : Nat)
    (h : ∀ u, u ≠ s → a u = a' u) (t : Nat) (ht : t ≠ s + n) :
    flushAt n σ a init t = flushAt n σ a' init t := by
  rw [flush_closed n hn, flush_closed n hn]
  by_cases hnt : n ≤ t
  · have : t - n ≠ s := by omega
    rw [if_pos hnt, if_pos hnt, h _ this]
  · rw [if_neg hnt, if_neg hnt]

/-- the contribution of `a s` to the timed outflow: linear, and located at step `s+n` only -/
theorem release_linear (n : Nat) (hn : 1 ≤ n) (σ : Nat → Nat → Rat) (a a' init : Nat → Rat) (s : Nat)
    (h : ∀ u, u ≠ s → a u = a' u) (t : Nat) :
    flushAt n σ a init t - flushAt n σ a' init t =
      if t = s + n then σ (s + n) 0 * cohortSurv n σ s (n - 1) * (a s - a' s) else 0 := by
  by_cases ht : t = s + n
  · subst ht
    rw [if_pos rfl, flush_exact n hn, flush_exact n hn]; ring
  · rw [if_neg ht, no_early_release n hn σ a a' init s h t ht]; ring

/-- nobody is ever beyond the last row -/
theorem rows_within (n : Nat) (σ : Nat → Nat → Rat) (a init : Nat → Rat) (hinit : ∀ r, n ≤ r → init r = 0)
    (t r : Nat) (h : n ≤ r) : krows n σ a init t r = 0 :=
  krows_beyond n σ a init hinit t r h

/-- **occupancy_bound** (any initial distribution): occupancy ≤ arrivals of the preceding `n` steps + the initial
    occupants whose time has not yet expired -/
theorem occupancy_bound_init (n : Nat) (σ : Nat → Nat → Rat) (a init : Nat → Rat)
    (h0 : ∀ u r, 0 ≤ σ u r) (h1 : ∀ u r, σ u r ≤ 1) (ha : ∀ u, 0 ≤ a u) (hi : ∀ r, 0 ≤ init r) (t : Nat) :
    total n σ a init t ≤ window a n t + sumTo n (fun r => if r + t < n then init (r + t) else 0) := by
  rw [total_split]
  unfold window
  apply add_le_add
  · apply sumTo_le
    intro j _
    split
    · have := cohortSurv_le_one n σ h0 h1 (t - (j + 1)) j
      have := ha (t - (j + 1))
      nlinarith
    · exact le_refl 0
  · apply sumTo_le
    intro r _
    split
    · have := initSurv_le_one σ h0 h1 (r + t) t
      have := hi (r + t)
      nlinarith
    · exact le_refl 0

/-- **occupancy_bound**: with `I` initial occupants spread uniformly,
    `total t ≤ Σ_{j=1..n} a (t-j) + max 0 (n-t)/n · I` -/
theorem occupancy_bound (n : Nat) (σ : Nat → Nat → Rat) (a : Nat → Rat) (I : Rat)
    (h0 : ∀ u r, 0 ≤ σ u r) (h1 : ∀ u r, σ u r ≤ 1) (ha : ∀ u, 0 ≤ a u) (hI : 0 ≤ I) (t : Nat) :
    total n σ a (uniformInit n I) t ≤ window a n t + ((n - t : Nat) : Rat) / n * I := by
  have hi : ∀ r, 0 ≤ uniformInit n I r := by
    intro r; unfold uniformInit; split
    · positivity
    · exact le_refl 0
  have := occupancy_bound_init n σ a (uniformInit n I) h0 h1 ha hi t
  have e : sumTo n (fun r => if r + t < n then uniformInit n I (r + t) else 0)
      = sumTo n (fun r => if r + t < n then I / n else 0) := by
    apply sumTo_congr; intro r _
    by_cases h : r + t < n
    · simp [h, uniformInit]
    · simp [h]
  rw [e, init_count] at this
  calc total n σ a (uniformInit n I) t ≤ window a n t + ((n - t : Nat) : Rat) * (I / n) := this
    _ = window a n t + ((n - t : Nat) : Rat) / n * I := by ring

/-- … with equality when there is no other outflow -/
theorem occupancy_eq (n : Nat) (σ : Nat → Nat → Rat) (hσ : ∀ u r, σ u r = 1) (a : Nat → Rat) (I : Rat) (t : Nat) :
    total n σ a (uniformInit n I) t = window a n t + ((n - t : Nat) : Rat) / n * I := by
  rw [total_split]
  unfold window
  have e1 : ∀ j, (if j + 1 ≤ t then a (t - (j + 1)) * cohortSurv n σ (t - (j + 1)) j else 0)
      = (if j + 1 ≤ t then a (t - (j + 1)) else 0) := by
    intro j; rw [cohortSurv_one n σ hσ]; simp
  have e2 : sumTo n (fun r => if r + t < n then uniformInit n I (r + t) * initSurv σ (r + t) t else 0)
      = sumTo n (fun r => if r + t < n then I / n else 0) := by
    apply sumTo_congr; intro r _
    by_cases h : r + t < n
    · simp [h, uniformInit, initSurv_one σ hσ]
    · simp [h]
  simp only [e1]
  rw [e2, init_count]
  ring

/-- **short_duration_empties** (abstract): one row — whatever the ordinary outflows take, the flush takes the rest, and
    the next stock is exactly that step's arrivals -/
theorem short_duration_empties (σ : Nat → Nat → Rat) (a init : Nat → Rat) (t : Nat) :
    krows 1 σ a init (t + 1) 0 = a t
    ∧ flushAt 1 σ a init t + (1 - σ t 0) * krows 1 σ a init t 0 = krows 1 σ a init t 0 := by
  constructor
  · rw [krows_succ]; exact kstep_last rfl
  · unfold flushAt kflush; ring

/-- non-vacuity of the hypotheses of `occupancy_bound` and a worked instance of the closed form -/
example : total 3 (fun _ _ => 1) (fun u => (u : Rat) + 1) (uniformInit 3 6) 2 = (2 + 1) + 2 := by
  rw [occupancy_eq 3 _ (fun _ _ => rfl)]
  unfold window
  simp [sumTo]; norm_num

example : flushAt 3 (fun _ _ => 1) (fun u => if u = 4 then 1 else 0) (uniformInit 3 0) 7 = 1 := by
  have := flush_exact_pure 3 (by norm_num) (fun _ _ => 1) (fun _ _ => rfl) (fun u => if u = 4 then 1 else 0) (uniformInit 3 0) 4
  simpa using this

/-! ## Part C — one step of the engine on a timed compartment -/

variable (net : Net)

/-- **timed_step**: the complete update rule of a timed compartment in terms of its own rows.  For every timed
    compartment `c` of a well-formed net, every stock with a non-negative row 0, every `link._cache`, and every flow
    that agrees with `resolve_outflows` on the out-links of `c` (junction balancing only rewrites junction out-links):
    row `r+1` keeps the fraction `surv (r+1)`, receives the timed-link inflow of row `r+1`, and moves to row `r`;
    the last row receives all untimed inflow (with a single row also the timed-link inflow, which then has no
    elapsed time left to keep); rows beyond the last stay empty. -/
theorem timed_step (hwf : wfCheck net = true) (cache : Nat → Rat) (x : Stock) (fl : Flow) (c : Nat)
    (hc : c < net.nC) (hk : net.kind c = .timed) (hx : 0 ≤ x c 0)
    (hfl : ∀ l, l < net.nL → net.src l = c → ∀ r, fl l r = resolveFlow net cache x l r) (r : Nat) :
    updateComps net x fl c r =
      if r + 1 < net.nrows c then clip0 (surv net cache c (r + 1) * x c (r + 1) + inTimedRow net fl c (r + 1))
      else if r + 1 = net.nrows c then clip0 ((if net.nrows c = 1 then inTimedRow net fl c 0 else 0) + inUntimed net fl c)
      else 0 :=
  Engine.timed_step net (wfTimed_of_wfCheck net hwf) cache x fl c hc hk hx hfl r

/-- **flush_link_value**: the flush link carries exactly what remains in row 0 after the other outflows
    (`surv 0 · row 0`), all of it drawn from row 0 -/
theorem flush_link_value (hwf : wfCheck net = true) (cache : Nat → Rat) (x : Stock) (l : Nat) (hl : l < net.nL)
    (hf : net.isFlush l = true) (hx : 0 ≤ x (net.src l) 0) :
    (∀ r, resolveFlow net cache x l r = if r = 0 then kflush (surv net cache (net.src l)) (x (net.src l)) else 0)
    ∧ recorded net (resolveFlow net cache x) l = kflush (surv net cache (net.src l)) (x (net.src l)) := by
  have w := wfTimed_of_wfCheck net hwf
  have hk := w.flush_timed l hl hf
  have hn := w.nrows_pos _ (w.src_lt l hl)
  have h1 : ∀ r, resolveFlow net cache x l r = if r = 0 then kflush (surv net cache (net.src l)) (x (net.src l)) else 0 :=
    fun r => resolveFlow_flush net cache x l hk hf hn hx r
  refine ⟨h1, ?_⟩
  unfold recorded
  rw [w.lrows_timed l hl hk, sumTo_congr (fun r _ => h1 r)]
  exact sumTo_single 0 (by omega) _

/-- **keyring_refines_engine**: a timed compartment with only untimed inflow *is* the abstract keyring — one engine
    step on its rows is `Timed.kstep` with survival factors `surv` (the effect of the ordinary outflows) and arrivals
    = the untimed inflow; the total removed from row 0 is the whole row (flush = the rest). -/
theorem keyring_refines_engine (hwf : wfCheck net = true) (cache : Nat → Rat) (x : Stock) (fl : Flow) (c : Nat)
    (hc : c < net.nC) (hk : net.kind c = .timed) (hx : ∀ r, 0 ≤ x c r)
    (hfl : ∀ l, l < net.nL → net.src l = c → ∀ r, fl l r = resolveFlow net cache x l r)
    (hin : ∀ l, l < net.nL → net.dst l = c → net.tlink l = false) :
    updateComps net x fl c = kstep (net.nrows c) (surv net cache c) (clip0 (inUntimed net fl c)) (x c)
    ∧ outRow net fl c 0 = x c 0 := by
  have w := wfTimed_of_wfCheck net hwf
  constructor
  · funext r
    rw [timed_step net hwf cache x fl c hc hk (hx 0) hfl r]
    unfold kstep
    simp only [inTimedRow_zero net fl c _ hin, add_zero, ite_self, zero_add]
    by_cases h1 : r + 1 < net.nrows c
    · rw [if_pos h1, if_pos h1]
      exact clip0_of_nonneg (mul_nonneg (surv_nonneg net cache c _) (hx _))
    · rw [if_neg h1, if_neg h1]
  · have := outRow_resolve_timed net w cache x fl c 0 hc hk (w.nrows_pos c hc) (hx 0) hfl
    simpa using this

/-- … and with no other outflow (every non-flush out-link has `_cache = 0`) the rows simply advance:
    `rows' r = rows (r+1)`, last row = inflow, flush link value = row 0 -/
theorem keyring_refines_engine_pure (hwf : wfCheck net = true) (cache : Nat → Rat) (x : Stock) (fl : Flow) (c : Nat)
    (hc : c < net.nC) (hk : net.kind c = .timed) (hx : ∀ r, 0 ≤ x c r)
    (hfl : ∀ l, l < net.nL → net.src l = c → ∀ r, fl l r = resolveFlow net cache x l r)
    (hin : ∀ l, l < net.nL → net.dst l = c → net.tlink l = false)
    (hout : ∀ l, l < net.nL → net.src l = c → net.isFlush l = false → cache l = 0) :
    (∀ r, r + 1 < net.nrows c → updateComps net x fl c r = x c (r + 1))
    ∧ (∀ r, r + 1 = net.nrows c → updateComps net x fl c r = clip0 (inUntimed net fl c))
    ∧ (∀ l, l < net.nL → net.src l = c → net.isFlush l = true → fl l 0 = x c 0 ∧ recorded net fl l = x c 0) := by
  have w := wfTimed_of_wfCheck net hwf
  have hs : ∀ r, surv net cache c r = 1 := by
    intro r
    apply surv_eq_one
    intro l hl hsrc ha
    apply hout l hl hsrc
    simp only [acts, Bool.and_eq_true, Bool.not_eq_true'] at ha
    exact ha.1
  have h := (keyring_refines_engine net hwf cache x fl c hc hk hx hfl hin).1
  refine ⟨?_, ?_, ?_⟩
  · intro r hr; rw [h, kstep_lt hr, hs]; ring
  · intro r hr; rw [h, kstep_last hr]
  · intro l hl hsrc hf
    subst hsrc
    have hv := flush_link_value net hwf cache x l hl hf (hx 0)
    have e : ∀ r, fl l r = resolveFlow net cache x l r := hfl l hl rfl
    constructor
    · rw [e 0, hv.1 0]; simp [kflush, hs]
    · have : recorded net fl l = recorded net (resolveFlow net cache x) l := by
        unfold recorded; exact sumTo_congr (fun r _ => e r)
      rw [this, hv.2]; simp [kflush, hs]

/-- **tlink_keeps_row**: moves inside a duration group keep the elapsed time.  If every timed link into the timed
    compartment `d` has as many rows as `d` (same group, same duration), then what the timed links take out of row `r`
    of their sources joins row `r` of `d` and advances with it to row `r-1` — exactly as it would have advanced in
    the source.  (Timed links draw nothing from row 0: `fl l 0 = 0`, see `tlink_row0`.) -/
theorem tlink_keeps_row (hwf : wfCheck net = true) (cache : Nat → Rat) (x : Stock) (fl : Flow) (d : Nat)
    (hd : d < net.nC) (hk : net.kind d = .timed) (hx : 0 ≤ x d 0)
    (hfl : ∀ l, l < net.nL → net.src l = d → ∀ r, fl l r = resolveFlow net cache x l r)
    (hsame : ∀ l, l < net.nL → net.dst l = d → net.tlink l = true → net.lrows l = net.nrows d)
    (r : Nat) (hr : r + 1 < net.nrows d) :
    updateComps net x fl d r =
      clip0 (surv net cache d (r + 1) * x d (r + 1)
        + sumTo net.nL (fun l => if net.dst l = d ∧ net.tlink l = true then fl l (r + 1) else 0)) := by
  rw [timed_step net hwf cache x fl d hd hk hx hfl r, if_pos hr, inTimedRow_same net fl d (r + 1) hr hsame]

/-- a timed link out of a timed compartment draws nothing from row 0 (the row that is being flushed) -/
theorem tlink_row0 (cache : Nat → Rat) (x : Stock) (l : Nat) (hk : net.kind (net.src l) = .timed)
    (ht : net.tlink l = true) (hf : net.isFlush l = false) : resolveFlow net cache x l 0 = 0 := by
  rw [resolveFlow_nonflush net cache x l 0 hf, baseFlow_timed net cache x l 0 hk]
  simp [acts, ht]

/-- **untimed_restarts**: every link that is not a `TimedLink` — links from other compartments, from other duration
    groups, and every flush link (`flush_is_untimed`) — enters the *last* row of a timed destination, i.e. restarts
    the clock; the rows below the last receive nothing from such links (`timed_step`: they contain no `inUntimed`). -/
theorem untimed_restarts (hwf : wfCheck net = true) (cache : Nat → Rat) (x : Stock) (fl : Flow) (d : Nat)
    (hd : d < net.nC) (hk : net.kind d = .timed) (hx : 0 ≤ x d 0)
    (hfl : ∀ l, l < net.nL → net.src l = d → ∀ r, fl l r = resolveFlow net cache x l r) (hn : 2 ≤ net.nrows d) :
    updateComps net x fl d (net.nrows d - 1) = clip0 (inUntimed net fl d) := by
  rw [timed_step net hwf cache x fl d hd hk hx hfl]
  have h1 : ¬ net.nrows d - 1 + 1 < net.nrows d := by omega
  have h2 : net.nrows d - 1 + 1 = net.nrows d := by omega
  have h3 : ¬ net.nrows d = 1 := by omega
  rw [if_neg h1, if_pos h2, if_neg h3, zero_add]

theorem flush_is_untimed (hwf : wfCheck net = true) (l : Nat) (hl : l < net.nL) (hf : net.isFlush l = true) :
    net.tlink l = false :=
  (wfTimed_of_wfCheck net hwf).flush_untimed l hl hf

/-- **short_duration_empties** (engine): a timed compartment with a single row (duration shorter than one step) is
    emptied every step — flush + other outflows = the stock — and its next stock is exactly that step's inflow -/
theorem short_duration_empties_engine (hwf : wfCheck net = true) (cache : Nat → Rat) (x : Stock) (fl : Flow) (c : Nat)
    (hc : c < net.nC) (hk : net.kind c = .timed) (hx : 0 ≤ x c 0)
    (hfl : ∀ l, l < net.nL → net.src l = c → ∀ r, fl l r = resolveFlow net cache x l r) (h1 : net.nrows c = 1) :
    outRow net fl c 0 = x c 0 ∧ updateComps net x fl c 0 = clip0 (inAll net fl c) := by
  have w := wfTimed_of_wfCheck net hwf
  constructor
  · have := outRow_resolve_timed net w cache x fl c 0 hc hk (by omega) hx hfl
    simpa using this
  · rw [timed_step net hwf cache x fl c hc hk hx hfl 0]
    have h2 : ¬ 0 + 1 < net.nrows c := by omega
    have h3 : 0 + 1 = net.nrows c := by omega
    rw [if_neg h2, if_pos h3, if_pos h1]
    congr 1
    unfold inTimedRow inUntimed inAll
    rw [← sumTo_add]
    apply sumTo_congr
    intro l _
    by_cases hd : net.dst l = c
    · by_cases ht : net.tlink l = true
      · have := tlinkInto_total net fl l 1 (le_refl 1)
        simp only [sumTo, zero_add] at this
        simp [hd, ht, h1, this]
      · simp [hd, ht]
    · simp [hd]

/-- **group_mismatch_total**: a timed link between compartments whose keyrings differ in length (a transfer between
    populations with different group durations) delivers its whole recorded flow and never places people beyond the
    destination's last row -/
theorem group_mismatch_total (fl : Flow) (l n : Nat) (hn : 1 ≤ n) :
    sumTo n (tlinkInto net fl l n) = recorded net fl l ∧ (∀ r, n ≤ r → tlinkInto net fl l n r = 0) :=
  ⟨tlinkInto_total net fl l n hn, fun r h => tlinkInto_beyond net fl l n r h⟩

/-- … so the stock of a timed compartment never extends beyond its last row, whatever flows in -/
theorem rows_within_engine (x : Stock) (fl : Flow) (c r : Nat) (hk : net.kind c = .timed) (h : net.nrows c ≤ r) :
    updateComps net x fl c r = 0 := by
  rw [updateComps_timed net x fl c r hk]
  have : ¬ r < net.nrows c := by omega
  rw [if_neg this]

/-! ## Part D — every reachable state -/

variable (net : Net)

/-- fold `Engine.step` over a list of per-step parameter values (the simulation loop of `Model.process`) -/
def run (dt : Rat) : List (Nat → Rat) → Stock → Option Stock
  | [], x => some x
  | pv :: pvs, x => (step net dt pv x).bind (fun p => run dt pvs p.2)

/-- `X 0, X 1, …, X T` with flows `F 0 … F (T-1)` is an execution of the engine under the parameter stream `pvs` -/
def IsRun (dt : Rat) (pvs : Nat → Nat → Rat) (X : Nat → Stock) (F : Nat → Flow) (T : Nat) : Prop :=
  ∀ t, t < T → step net dt (pvs t) (X t) = some (F t, X (t + 1))

/-- every successful `run` is such an execution (so the theorems below cover every reachable state) -/
theorem run_isRun (dt : Rat) (pvs : List (Nat → Rat)) : ∀ (x0 xT : Stock), run net dt pvs x0 = some xT →
    ∃ X F, X 0 = x0 ∧ X pvs.length = xT ∧ IsRun net dt (fun t => pvs.getD t (fun _ => 0)) X F pvs.length := by
  induction pvs with
  | nil =>
    intro x0 xT h
    simp only [run, Option.some.injEq] at h
    exact ⟨fun _ => x0, fun _ _ _ => 0, rfl, h, fun t ht => absurd ht (by simp)⟩
  | cons pv pvs ih =>
    intro x0 xT h
    simp only [run] at h
    cases hs : step net dt pv x0 with
    | none => rw [hs] at h; simp at h
    | some p =>
      rw [hs] at h
      simp only [Option.bind_some] at h
      obtain ⟨X, F, hX0, hXT, hrun⟩ := ih p.2 xT h
      refine ⟨fun t => match t with | 0 => x0 | t + 1 => X t, fun t => match t with | 0 => p.1 | t + 1 => F t, rfl, ?_, ?_⟩
      · simpa using hXT
      · intro t ht
        cases t with
        | zero => simp only [List.getD_cons_zero]; rw [hs, hX0]
        | succ t =>
          have := hrun t (by simpa using ht)
          simpa using this

theorem step_unfold (dt : Rat) (pv : Nat → Rat) (x x' : Stock) (fl : Flow) (h : step net dt pv x = some (fl, x')) :
    flows net dt pv x = some fl ∧ x' = updateComps net x fl := by
  unfold step at h
  cases hf : flows net dt pv x with
  | none => rw [hf] at h; simp at h
  | some fl0 =>
    rw [hf] at h
    simp only [Option.map_some, Option.some.injEq, Prod.mk.injEq] at h
    exact ⟨by rw [h.1], by rw [← h.2, h.1]⟩

/-- stocks stay non-negative outside sinks along every execution -/
theorem run_nonneg (dt : Rat) (pvs : Nat → Nat → Rat) (X : Nat → Stock) (F : Nat → Flow) (T : Nat)
    (hrun : IsRun net dt pvs X F T) (h0 : NonnegOffSink net (X 0)) : ∀ t, t ≤ T → NonnegOffSink net (X t) := by
  intro t
  induction t with
  | zero => intro _; exact h0
  | succ t ih =>
    intro ht
    have := (step_unfold net dt (pvs t) (X t) (X (t + 1)) (F t) (hrun t (by omega))).2
    rw [this]
    exact updateComps_nonneg net (X t) (F t) (ih (by omega))

/-- survival factors of compartment `c` at step `u` of an execution -/
def survAt (dt : Rat) (pvs : Nat → Nat → Rat) (X : Nat → Stock) (c : Nat) : Nat → Nat → Rat :=
  fun u => surv net (convert net dt (pvs u) (X u)) c

/-- arrivals (untimed inflow) of compartment `c` at step `u` -/
def arrivals (F : Nat → Flow) (c : Nat) : Nat → Rat := fun u => clip0 (inUntimed net (F u) c)

theorem survAt_nonneg (dt : Rat) (pvs : Nat → Nat → Rat) (X : Nat → Stock) (c u r : Nat) : 0 ≤ survAt net dt pvs X c u r :=
  surv_nonneg net _ c r

/-- **engine_keyring_traj**: along every execution of a well-formed net, the rows of a timed compartment with only
    untimed inflow are the abstract keyring driven by its arrivals and survival factors -/
theorem engine_keyring_traj (hwf : wfCheck net = true) (dt : Rat) (pvs : Nat → Nat → Rat)
    (X : Nat → Stock) (F : Nat → Flow) (T : Nat) (hrun : IsRun net dt pvs X F T)
    (c : Nat) (hc : c < net.nC) (hk : net.kind c = .timed) (hx0 : ∀ r, 0 ≤ X 0 c r)
    (hin : ∀ l, l < net.nL → net.dst l = c → net.tlink l = false) :
    ∀ t, t ≤ T → X t c = krows (net.nrows c) (survAt net dt pvs X c) (arrivals net F c) (X 0 c) t
      ∧ ∀ r, 0 ≤ X t c r := by
  intro t
  induction t with
  | zero => intro _; exact ⟨rfl, hx0⟩
  | succ t ih =>
    intro ht
    obtain ⟨ihx, ihn⟩ := ih (by omega)
    obtain ⟨hfl, hx'⟩ := step_unfold net dt (pvs t) (X t) (X (t + 1)) (F t) (hrun t (by omega))
    have hj : isJunction net c = false := by simp [isJunction, hk]
    have hflc : ∀ l, l < net.nL → net.src l = c → ∀ r, F t l r = resolveFlow net (convert net dt (pvs t) (X t)) (X t) l r := by
      intro l _ hs r
      exact flows_nonjunction net dt (pvs t) (X t) (F t) hfl l r (by rw [hs]; exact hj)
    have h := (keyring_refines_engine net hwf _ (X t) (F t) c hc hk ihn hflc hin).1
    have e : X (t + 1) c = kstep (net.nrows c) (survAt net dt pvs X c t) (arrivals net F c t) (X t c) := by
      rw [hx']; exact h
    constructor
    · rw [krows_succ, ← ihx]; exact e
    · intro r
      rw [e]
      unfold kstep
      split
      · exact mul_nonneg (survAt_nonneg net dt pvs X c t _) (ihn _)
      · split
        · exact clip0_nonneg _
        · exact le_refl 0

/-- **engine_flush_exact**: in every execution the timed outflow of step `s+n` is the cohort that arrived at step `s`
    times the survival factors of the ordinary outflows it met: it leaves at step `s+n` and at no other step -/
theorem engine_flush_exact (hwf : wfCheck net = true) (dt : Rat) (pvs : Nat → Nat → Rat)
    (X : Nat → Stock) (F : Nat → Flow) (T : Nat) (hrun : IsRun net dt pvs X F T)
    (c : Nat) (hc : c < net.nC) (hk : net.kind c = .timed) (hx0 : ∀ r, 0 ≤ X 0 c r)
    (hin : ∀ l, l < net.nL → net.dst l = c → net.tlink l = false)
    (l : Nat) (hl : l < net.nL) (hsrc : net.src l = c) (hf : net.isFlush l = true) (t : Nat) (ht : t < T) :
    recorded net (F t) l = flushAt (net.nrows c) (survAt net dt pvs X c) (arrivals net F c) (X 0 c) t
    ∧ (∀ s, t = s + net.nrows c → recorded net (F t) l
        = survAt net dt pvs X c t 0 * (arrivals net F c s * cohortSurv (net.nrows c) (survAt net dt pvs X c) s (net.nrows c - 1))) := by
  have w := wfTimed_of_wfCheck net hwf
  obtain ⟨htraj, hnn⟩ := engine_keyring_traj net hwf dt pvs X F T hrun c hc hk hx0 hin t (by omega)
  obtain ⟨hfl, _⟩ := step_unfold net dt (pvs t) (X t) (X (t + 1)) (F t) (hrun t ht)
  have hj : isJunction net (net.src l) = false := by rw [hsrc]; simp [isJunction, hk]
  have e : recorded net (F t) l = recorded net (resolveFlow net (convert net dt (pvs t) (X t)) (X t)) l := by
    unfold recorded
    exact sumTo_congr (fun r _ => flows_nonjunction net dt (pvs t) (X t) (F t) hfl l r hj)
  have hv := (flush_link_value net hwf (convert net dt (pvs t) (X t)) (X t) l hl hf (by rw [hsrc]; exact hnn 0)).2
  have h1 : recorded net (F t) l = flushAt (net.nrows c) (survAt net dt pvs X c) (arrivals net F c) (X 0 c) t := by
    rw [e, hv, hsrc, htraj]; rfl
  refine ⟨h1, ?_⟩
  intro s hs
  rw [h1, hs, flush_exact _ (w.nrows_pos c hc)]

/-- **engine_release_exact**: a timed compartment whose only out-link is its flush link and whose inflow is untimed:
    in every execution, whoever enters at step `s` leaves through the timed outflow exactly at step `s+n`, whole;
    and during the first `n` steps the initial occupants of row `t` leave at step `t` -/
theorem engine_release_exact (hwf : wfCheck net = true) (dt : Rat) (pvs : Nat → Nat → Rat)
    (X : Nat → Stock) (F : Nat → Flow) (T : Nat) (hrun : IsRun net dt pvs X F T)
    (c : Nat) (hc : c < net.nC) (hk : net.kind c = .timed) (hx0 : ∀ r, 0 ≤ X 0 c r)
    (hin : ∀ l, l < net.nL → net.dst l = c → net.tlink l = false)
    (hout : ∀ l, l < net.nL → net.src l = c → net.isFlush l = true)
    (l : Nat) (hl : l < net.nL) (hsrc : net.src l = c) (t : Nat) (ht : t < T) :
    recorded net (F t) l = if net.nrows c ≤ t then arrivals net F c (t - net.nrows c) else X 0 c t := by
  have w := wfTimed_of_wfCheck net hwf
  have hs : ∀ u r, survAt net dt pvs X c u r = 1 := by
    intro u r
    apply surv_eq_one
    intro l' hl' hsrc' ha
    have := hout l' hl' hsrc'
    simp [acts, this] at ha
  rw [(engine_flush_exact net hwf dt pvs X F T hrun c hc hk hx0 hin l hl hsrc (hout l hl hsrc) t ht).1,
    flush_closed _ (w.nrows_pos c hc), hs]
  by_cases h : net.nrows c ≤ t
  · rw [if_pos h, if_pos h, cohortSurv_one _ _ hs]; ring
  · rw [if_neg h, if_neg h, initSurv_one _ hs]; ring

/-- **engine_occupancy_bound**: in every execution the occupancy of a timed compartment with untimed inflow never
    exceeds the arrivals of the preceding `n` steps plus the initial occupants whose time has not expired -/
theorem engine_occupancy_bound (hwf : wfCheck net = true) (dt : Rat) (hdt : 0 < dt) (pvs : Nat → Nat → Rat)
    (X : Nat → Stock) (F : Nat → Flow) (T : Nat) (hrun : IsRun net dt pvs X F T) (h0 : NonnegOffSink net (X 0))
    (c : Nat) (hc : c < net.nC) (hk : net.kind c = .timed)
    (hin : ∀ l, l < net.nL → net.dst l = c → net.tlink l = false) (t : Nat) (ht : t ≤ T) :
    stockTotal net (X t) c ≤ window (arrivals net F c) (net.nrows c) t
      + sumTo (net.nrows c) (fun r => if r + t < net.nrows c then X 0 c (r + t) else 0) := by
  have w := wfTimed_of_wfCheck net hwf
  have hks : net.kind c ≠ .sink := by rw [hk]; simp
  have hx0 : ∀ r, 0 ≤ X 0 c r := fun r => h0 c r hks
  obtain ⟨htraj, _⟩ := engine_keyring_traj net hwf dt pvs X F T hrun c hc hk hx0 hin t ht
  unfold stockTotal
  rw [htraj]
  -- survival factors may be taken in [0,1] on the steps that matter; outside the execution they are irrelevant,
  -- so bound with the factors clamped to 1 beyond `T`
  let σ' : Nat → Nat → Rat := fun u r => if u < T then survAt net dt pvs X c u r else 1
  have hagree : ∀ u, u ≤ T → ∀ r, krows (net.nrows c) (survAt net dt pvs X c) (arrivals net F c) (X 0 c) u r
      = krows (net.nrows c) σ' (arrivals net F c) (X 0 c) u r := by
    intro u
    induction u with
    | zero => intro _ r; rfl
    | succ u ih =>
      intro hu r
      have hu' : u < T := by omega
      rw [krows_succ, krows_succ]
      have e : σ' u = survAt net dt pvs X c u := by funext r'; simp [σ', hu']
      rw [e]
      unfold kstep
      split
      · rw [ih (by omega)]
      · rfl
  rw [sumTo_congr (fun r _ => hagree t ht r)]
  have hσ0 : ∀ u r, 0 ≤ σ' u r := by
    intro u r; simp only [σ']; split
    · exact survAt_nonneg net dt pvs X c u r
    · norm_num
  have hσ1 : ∀ u r, σ' u r ≤ 1 := by
    intro u r; simp only [σ']; split
    · rename_i hu
      have hnn := run_nonneg net dt pvs X F T hrun h0 u (by omega)
      exact surv_le_one net _ (fun l hl => convert_nonneg net w dt hdt (pvs u) (X u) hnn l hl) c r
    · norm_num
  exact occupancy_bound_init (net.nrows c) σ' (arrivals net F c) (X 0 c) hσ0 hσ1 (fun u => clip0_nonneg _) hx0 t

/-! ### duration groups: compartments that also receive timed links -/

theorem clip0_add_le (u v : Rat) : clip0 (u + v) ≤ clip0 u + clip0 v := by
  unfold clip0
  split <;> split <;> split <;> linarith

theorem clip0_le_add (u v : Rat) (hu : 0 ≤ u) : clip0 (u + v) ≤ u + clip0 v := by
  have := clip0_add_le u v
  rw [clip0_of_nonneg hu] at this
  exact this

/-- everything that arrives in timed compartment `c` at step `u`: untimed inflow + timed-link inflow of every row
    (negative parts, which only junction links with negative proportions can produce, clipped as `update` does) -/
def arrivalsAll (F : Nat → Flow) (c : Nat) : Nat → Rat :=
  fun u => clip0 (inUntimed net (F u) c) + ∑ r ∈ range (net.nrows c), clip0 (inTimedRow net (F u) c r)

/-- **engine_occupancy_bound_general**: for *every* timed compartment (members of duration groups included: timed
    links put people below the last row, where they have less time left), in every execution, the occupancy at step
    `t` is at most the arrivals of the preceding `min t n` steps plus the initial occupants of rows `≥ t` -/
theorem engine_occupancy_bound_general (hwf : wfCheck net = true) (dt : Rat) (hdt : 0 < dt) (pvs : Nat → Nat → Rat)
    (X : Nat → Stock) (F : Nat → Flow) (T : Nat) (hrun : IsRun net dt pvs X F T) (h0 : NonnegOffSink net (X 0))
    (c : Nat) (hc : c < net.nC) (hk : net.kind c = .timed) (t : Nat) (ht : t ≤ T) :
    stockTotal net (X t) c ≤ ∑ j ∈ range t, (if j < net.nrows c then arrivalsAll net F c (t - 1 - j) else 0)
      + ∑ r ∈ Ico t (net.nrows c), X 0 c r := by
  have w := wfTimed_of_wfCheck net hwf
  have hks : net.kind c ≠ .sink := by rw [hk]; simp
  have hj : isJunction net c = false := by simp [isJunction, hk]
  set n := net.nrows c with hn
  let B : Nat → Nat → Rat := fun u r =>
    if r + 1 < n then clip0 (inTimedRow net (F u) c (r + 1))
    else if r + 1 = n then (if n = 1 then clip0 (inTimedRow net (F u) c 0) else 0) + clip0 (inUntimed net (F u) c)
    else 0
  have hB0 : ∀ u r, 0 ≤ B u r := by
    intro u r
    simp only [B]
    split
    · exact clip0_nonneg _
    · split
      · split
        · exact add_nonneg (clip0_nonneg _) (clip0_nonneg _)
        · simpa using clip0_nonneg _
      · exact le_refl 0
  have hn1 : 1 ≤ n := w.nrows_pos c hc
  have hBarr : ∀ u, u < T → ∑ r ∈ range n, B u r ≤ arrivalsAll net F c u := by
    intro u _
    unfold arrivalsAll
    rw [← hn]
    obtain ⟨m, hm⟩ : ∃ m, n = m + 1 := ⟨n - 1, by omega⟩
    rw [hm, Finset.sum_range_succ, Finset.sum_range_succ']
    have e1 : ∑ r ∈ range m, B u r = ∑ r ∈ range m, clip0 (inTimedRow net (F u) c (r + 1)) := by
      apply Finset.sum_congr rfl
      intro r hr
      have : r + 1 < n := by have := Finset.mem_range.mp hr; omega
      simp only [B, this, if_true]
    have e2 : B u m = (if n = 1 then clip0 (inTimedRow net (F u) c 0) else 0) + clip0 (inUntimed net (F u) c) := by
      have h1 : ¬ m + 1 < n := by omega
      have h2 : m + 1 = n := by omega
      simp only [B, h2, lt_irrefl, if_false, if_true]
    rw [e1, e2]
    have := clip0_nonneg (inTimedRow net (F u) c 0)
    split <;> linarith
  have hstep : ∀ u, u < T → ∀ r, r < n →
      X (u + 1) c r ≤ (if r + 1 < n then X u c (r + 1) else 0) + B u r := by
    intro u hu r hr
    obtain ⟨hfl, hx'⟩ := step_unfold net dt (pvs u) (X u) (X (u + 1)) (F u) (hrun u hu)
    have hnn := run_nonneg net dt pvs X F T hrun h0 u (by omega)
    have hflc : ∀ l, l < net.nL → net.src l = c → ∀ r, F u l r = resolveFlow net (convert net dt (pvs u) (X u)) (X u) l r := by
      intro l _ hs r
      exact flows_nonjunction net dt (pvs u) (X u) (F u) hfl l r (by rw [hs]; exact hj)
    rw [hx', timed_step net hwf _ (X u) (F u) c hc hk (hnn c 0 hks) hflc r]
    by_cases h1 : r + 1 < n
    · rw [if_pos (by rw [← hn]; exact h1), if_pos h1]
      simp only [B, h1, if_true]
      have hs0 := surv_nonneg net (convert net dt (pvs u) (X u)) c (r + 1)
      have hs1 := surv_le_one net (convert net dt (pvs u) (X u))
        (fun l hl => convert_nonneg net w dt hdt (pvs u) (X u) hnn l hl) c (r + 1)
      have hxr := hnn c (r + 1) hks
      have := clip0_le_add _ (inTimedRow net (F u) c (r + 1)) (mul_nonneg hs0 hxr)
      nlinarith
    · have h2 : r + 1 = n := by omega
      rw [if_neg (by rw [← hn]; exact h1), if_pos (by rw [← hn]; exact h2), if_neg h1, zero_add]
      simp only [B, h2, lt_irrefl, if_false, if_true]
      rw [← hn]
      split
      · exact clip0_add_le _ _
      · simp
  have hmain := window_bound_general n T (fun u r => X u c r) B (arrivalsAll net F c) hB0 hBarr hstep t ht 0
  simp only [zero_add] at hmain
  unfold stockTotal
  rw [sumTo_eq_sum, ← hn, Finset.range_eq_Ico]
  exact hmain

/-- when no flow into `c` is negative, `arrivalsAll` is simply the total recorded inflow of the step -/
theorem arrivalsAll_eq_inAll (hwf : wfCheck net = true) (F : Nat → Flow) (c : Nat) (hc : c < net.nC) (u : Nat)
    (hpos : ∀ l, l < net.nL → net.dst l = c → ∀ r, 0 ≤ F u l r) :
    arrivalsAll net F c u = inAll net (F u) c := by
  have w := wfTimed_of_wfCheck net hwf
  have hn1 : 1 ≤ net.nrows c := w.nrows_pos c hc
  have hrec : ∀ l, l < net.nL → net.dst l = c → 0 ≤ recorded net (F u) l := by
    intro l hl hd; unfold recorded; exact sumTo_nonneg (fun r _ => hpos l hl hd r)
  have hT : ∀ l, l < net.nL → net.dst l = c → ∀ r, 0 ≤ tlinkInto net (F u) l (net.nrows c) r := by
    intro l hl hd r
    unfold tlinkInto
    simp only
    split
    · split
      · exact hpos l hl hd r
      · exact le_refl 0
    · apply add_nonneg
      · split
        · exact hpos l hl hd r
        · exact le_refl 0
      · split
        · exact sumTo_nonneg (fun k _ => hpos l hl hd _)
        · exact le_refl 0
  have h1 : 0 ≤ inUntimed net (F u) c := by
    unfold inUntimed
    apply sumTo_nonneg; intro l hl
    split
    · rename_i hh; exact hrec l hl hh.1
    · exact le_refl 0
  have h2 : ∀ r, 0 ≤ inTimedRow net (F u) c r := by
    intro r; unfold inTimedRow
    apply sumTo_nonneg; intro l hl
    split
    · rename_i hh; exact hT l hl hh.1 r
    · exact le_refl 0
  unfold arrivalsAll
  rw [clip0_of_nonneg h1, Finset.sum_congr rfl (fun r _ => clip0_of_nonneg (h2 r)), ← sumTo_eq_sum]
  unfold inTimedRow
  rw [sumTo_comm]
  unfold inUntimed inAll
  rw [← sumTo_add]
  apply sumTo_congr
  intro l _
  by_cases hd : net.dst l = c
  · by_cases htl : net.tlink l = true
    · have := tlinkInto_total net (F u) l (net.nrows c) hn1
      simp [hd, htl, this]
    · have htl' : net.tlink l = false := by simpa using htl
      have : sumTo (net.nrows c) (fun _ => (0 : Rat)) = 0 := sumTo_zero (fun _ _ => rfl)
      simp [hd, htl', this]
  · have : sumTo (net.nrows c) (fun _ => (0 : Rat)) = 0 := sumTo_zero (fun _ _ => rfl)
    simp [hd, this]

/-! ### a whole duration group (compartments joined by timed links) -/

/-- people of the group `G` who sit in row `r` -/
def groupRow (G : Nat → Bool) (x : Stock) (r : Nat) : Rat := sumTo net.nC (fun c => if G c = true then x c r else 0)

/-- `G` is a closed duration group of length `n`: its members are timed compartments with `n` rows, and the links that
    leave a member other than its flush link are exactly the timed links that enter a member -/
structure ClosedGroup (G : Nat → Bool) (n : Nat) : Prop where
  timed : ∀ c, c < net.nC → G c = true → net.kind c = .timed
  rows : ∀ c, c < net.nC → G c = true → net.nrows c = n
  closed : ∀ l, l < net.nL → ((G (net.src l) = true ∧ net.isFlush l = false) ↔ (G (net.dst l) = true ∧ net.tlink l = true))

theorem baseFlow_nonneg_timed (cache : Nat → Rat) (x : Stock) (l r : Nat) (hk : net.kind (net.src l) = .timed)
    (hc : ∀ l, l < net.nL → 0 ≤ cache l) (hl : l < net.nL) (hx : ∀ r, 0 ≤ x (net.src l) r) : 0 ≤ baseFlow net cache x l r := by
  rw [baseFlow_timed net cache x l r hk]
  split
  · apply mul_nonneg (hc l hl)
    apply mul_nonneg _ (hx r)
    unfold rescale; split
    · have : 0 ≤ outReq net cache (net.src l) r := outReq_nonneg net cache hc _ r
      positivity
    · norm_num
  · exact le_refl 0

/-- **group_step**: inside a closed duration group nobody's elapsed time changes — the number of group members in row
    `r+1` (whatever compartment of the group they are in, and wherever inside the group they move this step) is the
    number in row `r` after the step; the last row receives the untimed inflow of all members; and the flush links
    of the group together carry exactly row 0 of the group. -/
theorem group_step (hwf : wfCheck net = true) (G : Nat → Bool) (n : Nat) (hG : ClosedGroup net G n)
    (cache : Nat → Rat) (hcache : ∀ l, l < net.nL → 0 ≤ cache l) (x : Stock) (fl : Flow)
    (hx : ∀ c, c < net.nC → G c = true → ∀ r, 0 ≤ x c r)
    (hfl : ∀ l, l < net.nL → G (net.src l) = true → ∀ r, fl l r = resolveFlow net cache x l r) :
    (∀ r, r + 1 < n → groupRow net G (updateComps net x fl) r = groupRow net G x (r + 1))
    ∧ (∀ r, r + 1 = n → groupRow net G (updateComps net x fl) r
        = sumTo net.nC (fun c => if G c = true then clip0 (inUntimed net fl c) else 0))
    ∧ sumTo net.nL (fun l => if G (net.src l) = true ∧ net.isFlush l = true then fl l 0 else 0) = groupRow net G x 0 := by
  have w := wfTimed_of_wfCheck net hwf
  -- flows on the out-links of members
  have hflow_nonflush : ∀ l, l < net.nL → G (net.src l) = true → net.isFlush l = false → ∀ r, fl l r = baseFlow net cache x l r := by
    intro l hl hg hf r
    rw [hfl l hl hg r, resolveFlow_nonflush net cache x l r hf]
  have hsrc_timed : ∀ l, l < net.nL → G (net.src l) = true → net.kind (net.src l) = .timed :=
    fun l hl hg => hG.timed _ (w.src_lt l hl) hg
  -- every timed link into a member comes from a member, has `n` rows and carries non-negative amounts
  have htl : ∀ l, l < net.nL → G (net.dst l) = true → net.tlink l = true →
      G (net.src l) = true ∧ net.isFlush l = false ∧ net.lrows l = n := by
    intro l hl hd ht
    obtain ⟨hs, hf⟩ := (hG.closed l hl).mpr ⟨hd, ht⟩
    exact ⟨hs, hf, by rw [w.lrows_timed l hl (hsrc_timed l hl hs), hG.rows _ (w.src_lt l hl) hs]⟩
  have hfl_nonneg : ∀ l, l < net.nL → G (net.dst l) = true → net.tlink l = true → ∀ r, 0 ≤ fl l r := by
    intro l hl hd ht r
    obtain ⟨hs, hf, _⟩ := htl l hl hd ht
    rw [hflow_nonflush l hl hs hf r]
    exact baseFlow_nonneg_timed net cache x l r (hsrc_timed l hl hs) hcache hl (hx _ (w.src_lt l hl) hs)
  -- timed inflow of a member, row by row
  have hinT : ∀ c, c < net.nC → G c = true → ∀ r, r < n →
      inTimedRow net fl c r = sumTo net.nL (fun l => if net.dst l = c then (if net.tlink l = true then fl l r else 0) else 0) := by
    intro c hc hg r hr
    have := inTimedRow_same net fl c r (by rw [hG.rows c hc hg]; exact hr)
      (fun l hl hd ht => by rw [hG.rows c hc hg]; exact (htl l hl (by rw [hd]; exact hg) ht).2.2)
    rw [this]
    apply sumTo_congr; intro l _
    by_cases h1 : net.dst l = c <;> by_cases h2 : net.tlink l = true <;> simp [h1, h2]
  have hinT_nonneg : ∀ c, c < net.nC → G c = true → ∀ r, r < n → 0 ≤ inTimedRow net fl c r := by
    intro c hc hg r hr
    rw [hinT c hc hg r hr]
    apply sumTo_nonneg; intro l hl
    split
    · rename_i hd
      split
      · rename_i ht; exact hfl_nonneg l hl (by rw [hd]; exact hg) ht r
      · exact le_refl 0
    · exact le_refl 0
  have hflc : ∀ c, c < net.nC → G c = true → ∀ l, l < net.nL → net.src l = c → ∀ r, fl l r = resolveFlow net cache x l r :=
    fun c _ hg l hl hs r => hfl l hl (by rw [hs]; exact hg) r
  -- the exchange inside the group cancels
  have hexch : ∀ r, 1 ≤ r → r < n →
      sumTo net.nC (fun c => if G c = true then outRow net fl c r else 0)
        = sumTo net.nC (fun c => if G c = true then inTimedRow net fl c r else 0) := by
    intro r hr1 hrn
    have e1 : sumTo net.nC (fun c => if G c = true then outRow net fl c r else 0)
        = sumTo net.nL (fun l => if G (net.src l) = true then fl l r else 0) := by
      unfold outRow
      exact sumTo_fiber_filter net.nC net.nL net.src (fun l => fl l r) (fun c => G c = true) w.src_lt
    have e2 : sumTo net.nC (fun c => if G c = true then inTimedRow net fl c r else 0)
        = sumTo net.nL (fun l => if G (net.dst l) = true then (if net.tlink l = true then fl l r else 0) else 0) := by
      have : ∀ c, c < net.nC → (if G c = true then inTimedRow net fl c r else 0)
          = (if G c = true then sumTo net.nL (fun l => if net.dst l = c then (if net.tlink l = true then fl l r else 0) else 0) else 0) := by
        intro c hc
        by_cases hg : G c = true
        · rw [if_pos hg, if_pos hg, hinT c hc hg r hrn]
        · rw [if_neg hg, if_neg hg]
      rw [sumTo_congr this]
      exact sumTo_fiber_filter net.nC net.nL net.dst (fun l => if net.tlink l = true then fl l r else 0) (fun c => G c = true) w.dst_lt
    rw [e1, e2]
    apply sumTo_congr
    intro l hl
    by_cases hs : G (net.src l) = true
    · by_cases hf : net.isFlush l = true
      · -- a flush link carries nothing from rows ≥ 1, and it is not a timed link into the group
        have hnot : ¬ (G (net.dst l) = true ∧ net.tlink l = true) := by
          intro h
          have := (hG.closed l hl).mpr h
          rw [hf] at this; exact absurd this.2 (by simp)
        have hzero : fl l r = 0 := by
          rw [hfl l hl hs r, resolveFlow_flush net cache x l (hsrc_timed l hl hs) hf (w.nrows_pos _ (w.src_lt l hl))
            (hx _ (w.src_lt l hl) hs 0) r]
          have : r ≠ 0 := by omega
          simp [this]
        rw [if_pos hs, hzero]
        by_cases hd : G (net.dst l) = true
        · have : net.tlink l ≠ true := fun ht => hnot ⟨hd, ht⟩
          simp [hd, this]
        · simp [hd]
      · have hf' : net.isFlush l = false := by simpa using hf
        obtain ⟨hd, ht⟩ := (hG.closed l hl).mp ⟨hs, hf'⟩
        simp [hs, hd, ht]
    · have hnot : ¬ (G (net.dst l) = true ∧ net.tlink l = true) := by
        intro h; exact hs ((hG.closed l hl).mpr h).1
      rw [if_neg hs]
      by_cases hd : G (net.dst l) = true
      · have : net.tlink l ≠ true := fun ht => hnot ⟨hd, ht⟩
        simp [hd, this]
      · simp [hd]
  refine ⟨?_, ?_, ?_⟩
  · intro r hr
    unfold groupRow
    have hmember : ∀ c, c < net.nC → (if G c = true then updateComps net x fl c r else 0)
        = (if G c = true then x c (r + 1) else 0) - (if G c = true then outRow net fl c (r + 1) else 0)
          + (if G c = true then inTimedRow net fl c (r + 1) else 0) := by
      intro c hc
      by_cases hg : G c = true
      · simp only [hg, if_true]
        have hk := hG.timed c hc hg
        have hn := hG.rows c hc hg
        rw [timed_step net hwf cache x fl c hc hk (hx c hc hg 0) (hflc c hc hg) r, if_pos (by rw [hn]; exact hr)]
        have ho := outRow_resolve_timed net w cache x fl c (r + 1) hc hk (by rw [hn]; exact hr) (hx c hc hg 0) (hflc c hc hg)
        simp only [Nat.succ_ne_zero, if_false] at ho
        rw [ho, clip0_of_nonneg]
        · ring
        · exact add_nonneg (mul_nonneg (surv_nonneg net cache c _) (hx c hc hg _)) (hinT_nonneg c hc hg (r + 1) hr)
      · simp [hg]
    rw [sumTo_congr hmember, sumTo_add, sumTo_sub, hexch (r + 1) (by omega) hr]
    ring
  · intro r hr
    unfold groupRow
    apply sumTo_congr
    intro c hc
    by_cases hg : G c = true
    · simp only [hg, if_true]
      have hk := hG.timed c hc hg
      have hn := hG.rows c hc hg
      rw [timed_step net hwf cache x fl c hc hk (hx c hc hg 0) (hflc c hc hg) r,
        if_neg (by rw [hn]; omega), if_pos (by rw [hn]; exact hr)]
      congr 1
      by_cases h1 : net.nrows c = 1
      · rw [if_pos h1]
        have h0 : inTimedRow net fl c 0 = 0 := by
          rw [hinT c hc hg 0 (by omega)]
          apply sumTo_zero; intro l hl
          split
          · rename_i hd
            split
            · rename_i ht
              obtain ⟨hs, hf, _⟩ := htl l hl (by rw [hd]; exact hg) ht
              rw [hfl l hl hs 0]
              exact tlink_row0 net cache x l (hsrc_timed l hl hs) ht hf
            · rfl
          · rfl
        rw [h0, zero_add]
      · rw [if_neg h1, zero_add]
    · simp [hg]
  · -- the flush links of the group
    have hsurv0 : ∀ c, c < net.nC → G c = true → surv net cache c 0 = 1 := by
      intro c hc hg
      apply surv_eq_one
      intro l hl hs ha
      -- an active link at row 0 is neither a flush link nor a timed link; but every non-flush out-link is a timed link
      simp only [acts, Bool.and_eq_true, Bool.not_eq_true', Bool.and_eq_false_imp] at ha
      have hf : net.isFlush l = false := ha.1
      have ht := ((hG.closed l hl).mp ⟨by rw [hs]; exact hg, hf⟩).2
      have := ha.2 ht
      simp at this
    have e : ∀ l, l < net.nL → (if G (net.src l) = true ∧ net.isFlush l = true then fl l 0 else 0)
        = (if G (net.src l) = true then (if (net.src l == net.src l && net.isFlush l) = true then x (net.src l) 0 else 0) else 0) := by
      intro l hl
      by_cases hs : G (net.src l) = true
      · by_cases hf : net.isFlush l = true
        · have hc := w.src_lt l hl
          rw [if_pos ⟨hs, hf⟩, if_pos hs, hfl l hl hs 0,
            resolveFlow_flush net cache x l (hsrc_timed l hl hs) hf (w.nrows_pos _ hc) (hx _ hc hs 0) 0, hsurv0 _ hc hs]
          simp [hf]
        · simp [hs, hf]
      · simp [hs]
    rw [sumTo_congr e]
    -- regroup by source compartment: each member has exactly one flush link
    have e2 : sumTo net.nL (fun l => if G (net.src l) = true then (if (net.src l == net.src l && net.isFlush l) = true then x (net.src l) 0 else 0) else 0)
        = sumTo net.nC (fun c => if G c = true then sumTo net.nL (fun l => if net.src l = c then (if net.isFlush l = true then x c 0 else 0) else 0) else 0) := by
      calc sumTo net.nL (fun l => if G (net.src l) = true then (if (net.src l == net.src l && net.isFlush l) = true then x (net.src l) 0 else 0) else 0)
          = sumTo net.nL (fun l => if G (net.src l) = true then (if net.isFlush l = true then x (net.src l) 0 else 0) else 0) := by
            apply sumTo_congr; intro l _
            by_cases hs : G (net.src l) = true <;> simp [hs]
        _ = sumTo net.nC (fun c => if G c = true then sumTo net.nL (fun l => if net.src l = c then (if net.isFlush l = true then x (net.src l) 0 else 0) else 0) else 0) :=
            (sumTo_fiber_filter net.nC net.nL net.src (fun l => if net.isFlush l = true then x (net.src l) 0 else 0) (fun c => G c = true) w.src_lt).symm
        _ = _ := by
            apply sumTo_congr; intro c _
            by_cases hg : G c = true
            · simp only [hg, if_true]
              apply sumTo_congr; intro l _
              by_cases hs : net.src l = c
              · subst hs; simp
              · simp [hs]
            · simp [hg]
    rw [e2]
    unfold groupRow
    apply sumTo_congr
    intro c hc
    by_cases hg : G c = true
    · simp only [hg, if_true]
      have hone := w.one_flush c hc (hG.timed c hc hg)
      have : sumTo net.nL (fun l => if net.src l = c then (if net.isFlush l = true then x c 0 else 0) else 0)
          = sumTo net.nL (fun l => if (net.src l == c && net.isFlush l) = true then x c 0 else 0) := by
        apply sumTo_congr; intro l _
        by_cases hs : net.src l = c <;> by_cases hf : net.isFlush l = true <;> simp [hs, hf]
      rw [this, sumTo_filter_const, hone]
      simp
    · simp [hg]

/-- what the flush links of the group record together -/
def groupFlush (G : Nat → Bool) (fl : Flow) : Rat :=
  sumTo net.nL (fun l => if G (net.src l) = true ∧ net.isFlush l = true then recorded net fl l else 0)

/-- untimed inflow of all members at step `u` -/
def groupArrivals (G : Nat → Bool) (F : Nat → Flow) : Nat → Rat :=
  fun u => sumTo net.nC (fun c => if G c = true then clip0 (inUntimed net (F u) c) else 0)

/-- **engine_group_release_exact**: in every execution a closed duration group of length `n` behaves as one pure
    keyring — whoever enters the group at step `s` leaves it through a flush link exactly at step `s+n`, whatever
    moves between the members happened in between; during the first `n` steps the initial occupants of row `t` leave
    at step `t`. -/
theorem engine_group_release_exact (hwf : wfCheck net = true) (dt : Rat) (hdt : 0 < dt) (pvs : Nat → Nat → Rat)
    (X : Nat → Stock) (F : Nat → Flow) (T : Nat) (hrun : IsRun net dt pvs X F T) (h0 : NonnegOffSink net (X 0))
    (G : Nat → Bool) (n : Nat) (hn : 1 ≤ n) (hG : ClosedGroup net G n) (t : Nat) (ht : t < T) :
    groupFlush net G (F t) = if n ≤ t then groupArrivals net G F (t - n) else groupRow net G (X 0) t := by
  have w := wfTimed_of_wfCheck net hwf
  have hmem_nonneg : ∀ u, u ≤ T → ∀ c, c < net.nC → G c = true → ∀ r, 0 ≤ X u c r := by
    intro u hu c hc hg r
    exact run_nonneg net dt pvs X F T hrun h0 u hu c r (by rw [hG.timed c hc hg]; simp)
  have hstepfacts : ∀ u, u < T →
      (∀ l, l < net.nL → 0 ≤ convert net dt (pvs u) (X u) l)
      ∧ (∀ l, l < net.nL → G (net.src l) = true → ∀ r, F u l r = resolveFlow net (convert net dt (pvs u) (X u)) (X u) l r)
      ∧ X (u + 1) = updateComps net (X u) (F u) := by
    intro u hu
    obtain ⟨hfl, hx'⟩ := step_unfold net dt (pvs u) (X u) (X (u + 1)) (F u) (hrun u hu)
    refine ⟨fun l hl => convert_nonneg net w dt hdt (pvs u) (X u) (run_nonneg net dt pvs X F T hrun h0 u (by omega)) l hl, ?_, hx'⟩
    intro l hl hg r
    apply flows_nonjunction net dt (pvs u) (X u) (F u) hfl l r
    simp [isJunction, hG.timed _ (w.src_lt l hl) hg]
  -- the group rows are a pure keyring
  have htraj : ∀ u, u ≤ T → groupRow net G (X u)
      = krows n (fun _ _ => 1) (groupArrivals net G F) (groupRow net G (X 0)) u := by
    intro u
    induction u with
    | zero => intro _; rfl
    | succ u ih =>
      intro hu
      obtain ⟨hc0, hflu, hx'⟩ := hstepfacts u (by omega)
      obtain ⟨g1, g2, _⟩ := group_step net hwf G n hG _ hc0 (X u) (F u) (hmem_nonneg u (by omega)) hflu
      rw [krows_succ, ← ih (by omega)]
      funext r
      rw [hx']
      unfold kstep
      by_cases h1 : r + 1 < n
      · rw [if_pos h1, g1 r h1]; ring
      · rw [if_neg h1]
        by_cases h2 : r + 1 = n
        · rw [if_pos h2, g2 r h2]; rfl
        · rw [if_neg h2]
          unfold groupRow
          apply sumTo_zero
          intro c hc
          split
          · rename_i hg
            exact rows_within_engine net (X u) (F u) c r (hG.timed c hc hg) (by rw [hG.rows c hc hg]; omega)
          · rfl
  -- the flush links
  obtain ⟨hc0, hflu, _⟩ := hstepfacts t ht
  obtain ⟨_, _, g3⟩ := group_step net hwf G n hG _ hc0 (X t) (F t) (hmem_nonneg t (by omega)) hflu
  have hrec : groupFlush net G (F t)
      = sumTo net.nL (fun l => if G (net.src l) = true ∧ net.isFlush l = true then F t l 0 else 0) := by
    unfold groupFlush
    apply sumTo_congr
    intro l hl
    by_cases h : G (net.src l) = true ∧ net.isFlush l = true
    · rw [if_pos h, if_pos h]
      have hc := w.src_lt l hl
      have hv := flush_link_value net hwf (convert net dt (pvs t) (X t)) (X t) l hl h.2 (hmem_nonneg t (by omega) _ hc h.1 0)
      have e : recorded net (F t) l = recorded net (resolveFlow net (convert net dt (pvs t) (X t)) (X t)) l := by
        unfold recorded; exact sumTo_congr (fun r _ => hflu l hl h.1 r)
      rw [e, hv.2, hflu l hl h.1 0, hv.1 0]; simp
    · rw [if_neg h, if_neg h]
  rw [hrec, g3, htraj t (by omega), keyring_closed_form n _ _ _ t 0 (by omega)]
  simp only [Nat.sub_zero, zero_add]
  rw [cohortSurv_one n _ (fun _ _ => rfl), initSurv_one _ (fun _ _ => rfl)]
  simp

/-! ## non-vacuity: a concrete well-formed net (source → timed compartment with 3 rows → sink) -/

def exNet : Net :=
  { nC := 3, nL := 2, nP := 1,
    kind := fun c => if c = 0 then .source else if c = 1 then .timed else .sink,
    nrows := fun c => if c = 1 then 3 else 1,
    src := fun l => if l = 0 then 0 else 1,
    dst := fun l => if l = 0 then 1 else 2,
    par := fun l => if l = 0 then some 0 else none,
    tlink := fun _ => false,
    lrows := fun l => if l = 0 then 1 else 3,
    isFlush := fun l => decide (l = 1),
    jgroup := fun _ => false,
    units := fun _ => .num,
    tscale := fun _ => 1,
    jorder := [] }

/-- initial stock: 6 people spread uniformly over the 3 rows of the timed compartment -/
def exX0 : Stock := fun c r => if c = 1 then uniformInit 3 6 r else 0

/-- all hypotheses of `engine_release_exact` / `engine_keyring_traj` / `engine_occupancy_bound` hold for `exNet`, compartment 1 -/
example : wfCheck exNet = true ∧ exNet.kind 1 = .timed ∧ (1 < exNet.nC)
    ∧ (∀ l, l < exNet.nL → exNet.dst l = 1 → exNet.tlink l = false)
    ∧ (∀ l, l < exNet.nL → exNet.src l = 1 → exNet.isFlush l = true) := by
  refine ⟨by decide +kernel, rfl, by decide, fun _ _ _ => rfl, ?_⟩
  intro l hl hs
  have : l = 0 ∨ l = 1 := by have : l < 2 := hl; omega
  rcases this with h | h <;> subst h
  · simp [exNet] at hs
  · rfl

example : NonnegOffSink exNet exX0 := by
  intro c r _
  unfold exX0 uniformInit
  split
  · split <;> norm_num
  · exact le_refl 0

/-- a 5-step run exists (7 people per step enter), so `IsRun` is inhabited by `run_isRun` -/
example : (run exNet 1 (List.replicate 5 (fun _ => 7)) exX0).isSome = true := by decide +kernel

/-- one concrete step: flush = row 0 = 2, rows advance, the 7 arrivals enter the last row -/
example : (step exNet 1 (fun _ => 7) exX0).map (fun p => (recorded exNet p.1 1, p.2 1 0, p.2 1 1, p.2 1 2, p.2 1 3))
    = some (2, 2, 2, 7, 0) := by decide +kernel

/-- after 4 steps the flush link carries the cohort that entered at step 1 (= 7), as `engine_release_exact` says -/
example : ((run exNet 1 (List.replicate 4 (fun _ => 7)) exX0).bind (fun x => step exNet 1 (fun _ => 7) x)).map
    (fun p => recorded exNet p.1 1) = some 7 := by decide +kernel

/-- a duration group of two timed compartments joined by a `TimedLink` (link 0, fraction 1/2 per step):
    rows 1 and 2 of compartment 0 give half their people to rows 1 and 2 of compartment 1, which after the shift sit
    in rows 0 and 1 — the elapsed time is kept (`tlink_keeps_row`); row 0 is not touched by the timed link -/
def exGroup : Net :=
  { nC := 3, nL := 3, nP := 1,
    kind := fun c => if c = 2 then .sink else .timed,
    nrows := fun c => if c = 2 then 1 else 3,
    src := fun l => if l = 2 then 1 else 0,
    dst := fun l => if l = 0 then 1 else 2,
    par := fun l => if l = 0 then some 0 else none,
    tlink := fun l => decide (l = 0),
    lrows := fun _ => 3,
    isFlush := fun l => decide (l ≠ 0),
    jgroup := fun _ => false,
    units := fun _ => .frac,
    tscale := fun _ => 1,
    jorder := [] }

def exGroupX : Stock := fun c r => if c = 0 then (if r = 0 then 4 else if r = 1 then 8 else if r = 2 then 12 else 0) else 0

example : wfCheck exGroup = true := by decide +kernel

example : (step exGroup 1 (fun _ => 1/2) exGroupX).map
    (fun p => ((p.1 0 0, p.1 0 1, p.1 0 2), recorded exGroup p.1 1, (p.2 0 0, p.2 0 1, p.2 0 2), (p.2 1 0, p.2 1 1, p.2 1 2)))
    = some ((0, 4, 6), 4, (4, 6, 0), (4, 6, 0)) := by decide +kernel

/-- the two timed compartments of `exGroup` form a closed duration group of length 3 (hypothesis of `group_step` and
    `engine_group_release_exact`) -/
example : ClosedGroup exGroup (fun c => decide (c ≠ 2)) 3 := by
  refine ⟨?_, ?_, ?_⟩
  · intro c hc hg
    have hc' : c < 3 := hc
    have : c = 0 ∨ c = 1 := by simp at hg; omega
    rcases this with h | h <;> subst h <;> rfl
  · intro c hc hg
    have hc' : c < 3 := hc
    have : c = 0 ∨ c = 1 := by simp at hg; omega
    rcases this with h | h <;> subst h <;> rfl
  · intro l hl
    have hl' : l < 3 := hl
    have : l = 0 ∨ l = 1 ∨ l = 2 := by omega
    rcases this with h | h | h <;> subst h <;> simp [exGroup]

example : NonnegOffSink exGroup exGroupX := by
  intro c r _
  unfold exGroupX
  split
  · split
    · norm_num
    · split
      · norm_num
      · split <;> norm_num
  · exact le_refl 0

end Atomica.C05
