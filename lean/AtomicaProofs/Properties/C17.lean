/-
  C17 — "Sampled runs are independent draws, serial or parallel, and do not alter sources."

  Theorems about `Atomica.Rng` (lean/AtomicaModel/Protocol/Rng.lean).  "Independent" is modelled as
  "reads a different segment of a generator stream"; the statistical quality of the generator and of the
  entropy source is the stated hypothesis (`Function.Injective (G seed)`, `Function.Injective ↿G`, or the
  coordinatewise form in `distinct_draws_distinct_samples`), checked on the real generator's output by the
  harness.

  Schedules: `s : List Slot`, sample `i` ran on worker `s[i].worker` as that worker's `s[i].pos`-th task.
  Every theorem quantifies over *all* schedules (any number of workers, any assignment).
-/
import AtomicaProofs.Lemmas.Rng
import Mathlib.Logic.Function.Basic

namespace Atomica.C17
open Atomica.Rng

universe u v
variable {Seed : Type u} {Block : Type v}

/-- the stream segment the sample in slot `x` reads: worker `w` starts from `seedOf w`, its `j`-th task reads
    `G (seedOf w) j` (well defined also with retries, because a task is a deterministic function of the
    generator state it starts from) -/
def consumed (G : Seed → Nat → Block) (seedOf : Nat → Seed) (x : Slot) : Block := G (seedOf x.worker) x.pos

/-! ## Serial execution -/

/-- Serial: sample `i` reads segment `i` of the caller's stream; different samples read different segments. -/
theorem serial_distinct_blocks (G : Seed → Nat → Block) (seedOf : Nat → Seed)
    (hG : ∀ sd, Function.Injective (G sd)) (n i j : Nat) (x y : Slot)
    (hi : (serialSchedule n)[i]? = some x) (hj : (serialSchedule n)[j]? = some y) (hij : i ≠ j) :
    consumed G seedOf x ≠ consumed G seedOf y := by
  simp only [serialSchedule, List.getElem?_map, Option.map_eq_some_iff] at hi hj
  obtain ⟨a, ha, rfl⟩ := hi
  obtain ⟨b, hb, rfl⟩ := hj
  have ha' : a = i := by
    obtain ⟨_, h⟩ := List.getElem?_eq_some_iff.mp ha
    simpa using h.symm
  have hb' : b = j := by
    obtain ⟨_, h⟩ := List.getElem?_eq_some_iff.mp hb
    simpa using h.symm
  subst ha' hb'
  intro h
  exact hij (hG _ h)

/-- the executable check the driver answers with agrees: the serial loop never repeats a segment -/
theorem serial_allDistinct (n : Nat) : allDistinct .inherited (serialSchedule n) = true := by
  rw [allDistinct_iff]
  unfold serialSchedule
  rw [List.map_map]
  apply List.Nodup.map
  · intro a b h
    simpa [blockId, seedId] using h
  · exact List.nodup_range

/-- with `len` draws per sample, sample `i` reads stream positions `i*len … i*len+len-1`; no position is read
    by two samples (so "segment `i`" really is a set of draws of its own) -/
theorem serial_segments_disjoint (len i j a b : Nat) (hij : i ≠ j) (ha : a < len) (hb : b < len) :
    i * len + a ≠ j * len + b :=
  segment_disjoint len i j a b hij ha hb

example : (0 : Nat) * 3 + 2 ≠ 1 * 3 + 0 := serial_segments_disjoint 3 0 1 2 0 (by decide) (by decide) (by decide)

/-! ## Parallel execution, workers reseeded (the specification) -/

/-- For **every** schedule (no two samples in the same slot) and any number of workers: if the workers' start
    states are pairwise different, no two samples read the same (state, position). -/
theorem parallel_reseeded_slots (s : List Slot) (hnd : nodupB s = true) (seedOf : Nat → Seed)
    (hseed : Function.Injective seedOf) (i j : Nat) (x y : Slot)
    (hi : s[i]? = some x) (hj : s[j]? = some y) (hij : i ≠ j) :
    (seedOf x.worker, x.pos) ≠ (seedOf y.worker, y.pos) := by
  have hn : s.Nodup := (nodupB_iff s).mp hnd
  intro h
  have hw : x.worker = y.worker := hseed (Prod.mk.inj h).1
  have hp : x.pos = y.pos := (Prod.mk.inj h).2
  have hxy : x = y := by cases x; cases y; simp_all
  subst hxy
  obtain ⟨hi', hxi⟩ := List.getElem?_eq_some_iff.mp hi
  obtain ⟨hj', hxj⟩ := List.getElem?_eq_some_iff.mp hj
  exact hij ((List.Nodup.getElem_inj_iff hn).mp (hxi.trans hxj.symm))

/-- … hence, the generator being injective in (state, position) — the trusted property of generator and
    entropy source — no two samples of one call share a perturbation block. -/
theorem parallel_reseeded_distinct (G : Seed → Nat → Block) (hG : Function.Injective (Function.uncurry G))
    (s : List Slot) (hnd : nodupB s = true) (seedOf : Nat → Seed) (hseed : Function.Injective seedOf)
    (i j : Nat) (x y : Slot) (hi : s[i]? = some x) (hj : s[j]? = some y) (hij : i ≠ j) :
    consumed G seedOf x ≠ consumed G seedOf y := by
  intro h
  exact parallel_reseeded_slots s hnd seedOf hseed i j x y hi hj hij (hG h)

/-- the executable check agrees: with reseeded workers every duplicate-free schedule is collision free -/
theorem reseeded_allDistinct (s : List Slot) (hnd : nodupB s = true) : allDistinct .reseeded s = true := by
  rw [allDistinct_iff]
  apply List.Nodup.map
  · intro a b h
    cases a; cases b
    simp [blockId, seedId] at h
    simp [h.1, h.2]
  · exact (nodupB_iff s).mp hnd

/-- non-vacuity: 6 samples on 4 workers (the schedule observed on the real pool) -/
example : validSchedule 4 [⟨0,0⟩, ⟨1,0⟩, ⟨2,0⟩, ⟨3,0⟩, ⟨0,1⟩, ⟨1,1⟩] = true ∧
    allDistinct .reseeded [⟨0,0⟩, ⟨1,0⟩, ⟨2,0⟩, ⟨3,0⟩, ⟨0,1⟩, ⟨1,1⟩] = true := by decide

/-! ## Parallel execution, workers inheriting the parent's state (the code as it stands, D4) -/

/-- With inherited start states, **every** schedule that uses two different workers makes the first task of
    each read the *same* segment — whatever the generator `G` is.  The property is false of the faithful
    model of `parallel_progress` / `sc.parallelize` with forked workers. -/
theorem parallel_inherited_collides (G : Seed → Nat → Block) (seedOf : Nat → Seed) (p : Seed)
    (hinh : ∀ w, seedOf w = p) (s : List Slot) (hc : contiguous s = true)
    (x y : Slot) (hx : x ∈ s) (hy : y ∈ s) (hw : x.worker ≠ y.worker) :
    ∃ (i j : Nat) (a b : Slot), i ≠ j ∧ s[i]? = some a ∧ s[j]? = some b ∧ consumed G seedOf a = consumed G seedOf b := by
  have hx0 : (⟨x.worker, 0⟩ : Slot) ∈ s := first_task_mem s hc x.worker x.pos (by cases x; exact hx)
  have hy0 : (⟨y.worker, 0⟩ : Slot) ∈ s := first_task_mem s hc y.worker y.pos (by cases y; exact hy)
  obtain ⟨i, hi⟩ := List.mem_iff_getElem?.mp hx0
  obtain ⟨j, hj⟩ := List.mem_iff_getElem?.mp hy0
  refine ⟨i, j, _, _, ?_, hi, hj, ?_⟩
  · rintro rfl
    rw [hi] at hj
    have : x.worker = y.worker := by simpa using hj
    exact hw this
  · simp [consumed, hinh]

/-- the executable check agrees: such a schedule is never collision free -/
theorem inherited_not_allDistinct (s : List Slot) (hc : contiguous s = true)
    (x y : Slot) (hx : x ∈ s) (hy : y ∈ s) (hw : x.worker ≠ y.worker) :
    allDistinct .inherited s = false := by
  rw [Bool.eq_false_iff]
  intro h
  have hn := (allDistinct_iff .inherited s).mp h
  obtain ⟨i, j, a, b, hij, hi, hj, hab⟩ :=
    parallel_inherited_collides (fun (_ : Unit) (p : Nat) => p) (fun _ => ()) () (fun _ => rfl) s hc x y hx hy hw
  have hab' : blockId .inherited a = blockId .inherited b := by
    simpa [consumed, blockId, seedId] using hab
  have hi' : (s.map (blockId .inherited))[i]? = some (blockId .inherited a) := by simp [hi]
  have hj' : (s.map (blockId .inherited))[j]? = some (blockId .inherited b) := by simp [hj]
  obtain ⟨hil, hie⟩ := List.getElem?_eq_some_iff.mp hi'
  obtain ⟨hjl, hje⟩ := List.getElem?_eq_some_iff.mp hj'
  exact hij ((List.Nodup.getElem_inj_iff hn).mp (by rw [hie, hje, hab']))

/-- exact collision pattern under inheritance (what the harness compares the real pool with): two samples
    share their draws **iff** they were the same-numbered task of their workers -/
theorem inherited_collision_iff (G : Seed → Nat → Block) (seedOf : Nat → Seed) (p : Seed)
    (hinh : ∀ w, seedOf w = p) (hG : Function.Injective (G p)) (a b : Slot) :
    consumed G seedOf a = consumed G seedOf b ↔ a.pos = b.pos := by
  simp only [consumed, hinh]
  exact ⟨fun h => hG h, fun h => by rw [h]⟩

/-- the replayed witness: 6 samples, 4 workers → only 2 different draws (positions 0 and 1); valid schedule -/
example : validSchedule 4 [⟨0,0⟩, ⟨1,0⟩, ⟨2,0⟩, ⟨3,0⟩, ⟨0,1⟩, ⟨1,1⟩] = true ∧
    nDistinct .inherited [⟨0,0⟩, ⟨1,0⟩, ⟨2,0⟩, ⟨3,0⟩, ⟨0,1⟩, ⟨1,1⟩] = 2 ∧
    classes .inherited [⟨0,0⟩, ⟨1,0⟩, ⟨2,0⟩, ⟨3,0⟩, ⟨0,1⟩, ⟨1,1⟩] = [0, 0, 0, 0, 4, 4] := by decide

/-! ## σ = None or 0: the sample equals the source -/

/-- no uncertainty entered: `sigma is None` or `sigma == 0` -/
def ZeroSigma (s : Series) : Prop := s.sigma = none ∨ s.sigma = some 0

/-- what a simulation reads of a series -/
def _root_.Atomica.Rng.Series.data (s : Series) : List Rat × Option Rat := (s.vals, s.assumption)

theorem perturb_zero_sigma (s : Series) (c : Bool) (z : Draws) (off : Nat) (h : ZeroSigma s) :
    Series.data (s.perturb c z off) = Series.data s := by
  rcases h with h | h
  · simp [Series.perturb, h]
  · cases hc : c <;> cases ha : s.assumption <;>
      simp [Series.perturb, Series.data, h, ha, perturbEach_zero]

/-- `TimeSeries.sample` with σ ∈ {None, 0}: values and assumption are those of the source, for every stream -/
theorem series_zero_sigma (s : Series) (c : Bool) (z : Draws) (off : Nat) (h : ZeroSigma s)
    (hs : s.sampled = false) :
    ∃ s', s.sample c z off = .ok s' ∧ Series.data s' = Series.data s := by
  refine ⟨_, sample_ok s c z off hs, ?_⟩
  have := perturb_zero_sigma s c z off h
  simpa [finish, Series.data] using this

theorem perturbList_zero_sigma (c : Bool) (z : Draws) (off : Nat) (l : List Series)
    (h : ∀ s ∈ l, ZeroSigma s) : (perturbList c z off l).map Series.data = l.map Series.data := by
  induction l generalizing off with
  | nil => rfl
  | cons s rest ih =>
      have h1 := perturb_zero_sigma s c z off (h s (by simp))
      have h2 := ih (off + s.nDraws c) (fun t ht => h t (by simp [ht]))
      simp only [perturbList, List.map_cons, h2]
      congr 1

/-- what a simulation reads of a program set -/
def _root_.Atomica.Rng.ProgSet.data (g : ProgSet) : List (List (List Rat × Option Rat)) × List (List Rat × List Rat) :=
  (g.programs.map fun p => p.toList.map Series.data, g.covouts.map fun c => (c.progs, c.interactions))

def CovZero (c : Covout) : Prop := c.sigma = none ∨ c.sigma = some 0

theorem covout_zero_sigma (c : Covout) (z : Draws) (off : Nat) (h : CovZero c) :
    ((c.sample z off).progs, (c.sample z off).interactions) = (c.progs, c.interactions) := by
  rcases h with h | h <;> simp [Covout.sample, h, perturbEach_zero]

theorem sampleCovouts_zero (z : Draws) (off : Nat) (l : List Covout) (h : ∀ c ∈ l, CovZero c) :
    (sampleCovouts z off l).map (fun c => (c.progs, c.interactions)) = l.map (fun c => (c.progs, c.interactions)) := by
  induction l generalizing off with
  | nil => rfl
  | cons c rest ih =>
      have h1 := covout_zero_sigma c z off (h c (by simp))
      have h2 := ih (off + c.nDraws) (fun t ht => h t (by simp [ht]))
      simp only [sampleCovouts, List.map_cons, h2, h1]

theorem program_sample_ok (p : Program) (c : Bool) (z : Draws) (off : Nat)
    (h : ∀ s ∈ p.toList, s.sampled = false) :
    ∃ p', p.sample c z off = .ok p' ∧ p'.toList = perturbList c z off p.toList := by
  have := sampleList_ok c z off p.toList h
  simp only [Program.sample, this]
  simp [Program.toList, perturbList]

theorem samplePrograms_ok (c : Bool) (z : Draws) (off : Nat) (l : List Program)
    (h : ∀ p ∈ l, ∀ s ∈ p.toList, s.sampled = false) :
    ∃ l', samplePrograms c z off l = .ok l' ∧ l'.length = l.length ∧
      ((∀ p ∈ l, ∀ s ∈ p.toList, ZeroSigma s) →
        l'.map (fun p => p.toList.map Series.data) = l.map (fun p => p.toList.map Series.data)) := by
  induction l generalizing off with
  | nil => exact ⟨[], rfl, rfl, fun _ => rfl⟩
  | cons p rest ih =>
      obtain ⟨p', hp', hl'⟩ := program_sample_ok p c z off (h p (by simp))
      obtain ⟨r', hr', hlen, hz⟩ := ih (off + p.nDraws c) (fun q hq => h q (by simp [hq]))
      refine ⟨p' :: r', ?_, by simp [hlen], ?_⟩
      · simp only [samplePrograms, hp', hr']
      · intro hzero
        have h1 := perturbList_zero_sigma c z off p.toList (hzero p (by simp))
        have h2 := hz (fun q hq => hzero q (by simp [hq]))
        simp only [List.map_cons, h2, hl', h1]

/-- **`sample_zero_sigma`** — no uncertainty entered anywhere (σ = None or 0 on every series and covout):
    for every stream and both `constant` modes, `ParameterSet.sample` and `ProgramSet.sample` succeed and
    everything a simulation reads is that of the sources; hence any run that is a function of its inputs
    (C08) gives the unsampled result. -/
theorem sample_zero_sigma {R : Type} (p : ParSet) (g : ProgSet) (c : Bool) (z : Draws) (off off' : Nat)
    (hp : ∀ s ∈ p, ZeroSigma s ∧ s.sampled = false)
    (hg : ∀ q ∈ g.programs, ∀ s ∈ q.toList, ZeroSigma s ∧ s.sampled = false)
    (hc : ∀ k ∈ g.covouts, CovZero k)
    (run : List (List Rat × Option Rat) → (List (List (List Rat × Option Rat)) × List (List Rat × List Rat)) → R) :
    ∃ p' g', p.sample c z off = .ok p' ∧ g.sample c z off' = .ok g' ∧
      run (p'.map Series.data) g'.data = run (p.map Series.data) g.data := by
  have h1 := sampleList_ok c z off p (fun s hs => (hp s hs).2)
  obtain ⟨l', hl', _, hz⟩ := samplePrograms_ok c z off' g.programs (fun q hq s hs => (hg q hq s hs).2)
  refine ⟨_, ⟨l', sampleCovouts z (off' + nDrawsPrograms c g.programs) g.covouts⟩, h1, ?_, ?_⟩
  · simp only [ProgSet.sample, hl']
  · have e1 := perturbList_zero_sigma c z off p (fun s hs => (hp s hs).1)
    have e2 := hz (fun q hq s hs => (hg q hq s hs).1)
    have e3 := sampleCovouts_zero z (off' + nDrawsPrograms c g.programs) g.covouts hc
    simp only [ProgSet.data, e1, e2, e3]

/-- non-vacuity: a series with σ = 0 and one with σ = None, sampled from a stream of ones -/
example : ∃ p', ParSet.sample [⟨[3, 4], some 1, some 0, false⟩, ⟨[], some 2, none, false⟩] false (fun _ => 1) 0 = .ok p' ∧
    p'.map Series.data = [([3, 4], some 1), ([], some 2)] := by
  refine ⟨_, sampleList_ok _ _ _ _ (by simp), ?_⟩
  simp [perturbList, Series.perturb, finish, Series.data, perturbEach]

/-! ## `ProgramSet.sample` is total — also with explicit interaction outcomes (D5) -/

/-- **`sample_total`** — every program set whose series have not been sampled yet can be sampled, whatever its
    covouts contain (explicit interactions, σ None/0/positive); the copy has the same shape. -/
theorem sample_total (g : ProgSet) (c : Bool) (z : Draws) (off : Nat)
    (h : ∀ p ∈ g.programs, ∀ s ∈ p.toList, s.sampled = false) :
    ∃ g', g.sample c z off = .ok g' ∧ g'.programs.length = g.programs.length ∧
      g'.covouts = sampleCovouts z (off + nDrawsPrograms c g.programs) g.covouts := by
  obtain ⟨l', hl', hlen, _⟩ := samplePrograms_ok c z off g.programs h
  exact ⟨⟨l', _⟩, by simp only [ProgSet.sample, hl'], hlen, rfl⟩

/-- the code as it stands raises `AttributeError` on a covout with uncertainty and an explicit interaction … -/
theorem sampleCurrent_fails (c : Covout) (z : Draws) (off : Nat) (sg : Rat) (hs : c.sigma = some sg)
    (hi : c.interactions ≠ []) : c.sampleCurrent z off = .error .attributeError := by
  cases hint : c.interactions with
  | nil => exact absurd hint hi
  | cons a as => simp [Covout.sampleCurrent, hs, hint]

/-- … and agrees with the specification on every other covout -/
theorem sampleCurrent_eq_sample (c : Covout) (z : Draws) (off : Nat)
    (h : c.sigma = none ∨ c.interactions = []) : c.sampleCurrent z off = .ok (c.sample z off) := by
  cases hs : c.sigma with
  | none => simp [Covout.sampleCurrent, Covout.sample, hs]
  | some sg =>
      rcases h with h | h
      · simp [hs] at h
      · simp [Covout.sampleCurrent, Covout.sample, hs, h, perturbEach]

/-- D5 witness: one covout, two programs, the interaction `P1+P2`, σ = 1/10 -/
example : ProgSet.sampleCurrent ⟨[], [⟨[4/5, 7/10], [9/10], some (1/10)⟩]⟩ true (fun _ => 1) 0 = .error .attributeError ∧
    ∃ g', ProgSet.sample ⟨[], [⟨[4/5, 7/10], [9/10], some (1/10)⟩]⟩ true (fun _ => 1) 0 = .ok g' := by
  constructor
  · simp [ProgSet.sampleCurrent, samplePrograms, sampleCovoutsCurrent, Covout.sampleCurrent]
  · exact ⟨_, rfl⟩

/-! ## Different draws give different samples -/

/-- a quantity with uncertainty: σ ≠ 0 entered on a series that has data -/
def Uncertain (s : Series) : Prop := ∃ sg, s.sigma = some sg ∧ sg ≠ 0 ∧ s.hasData = true

theorem perturb_ne (s : Series) (c : Bool) (z z' : Draws) (off off' : Nat) (hu : Uncertain s)
    (hd : ∀ k < s.nDraws c, z (off + k) ≠ z' (off' + k)) :
    finish (s.perturb c z off) ≠ finish (s.perturb c z' off') := by
  obtain ⟨sg, hs, hsg, hdata⟩ := hu
  have hn : 1 ≤ s.nDraws c := by simp only [Series.nDraws, hs]; split <;> omega
  have h0 : z off ≠ z' off' := by simpa using hd 0 (by omega)
  have hdelta : sg * z off ≠ sg * z' off' := fun h => h0 (mul_left_cancel₀ hsg h)
  intro heq
  have hv : (s.perturb c z off).vals = (s.perturb c z' off').vals := by
    have := congrArg Series.vals heq; simpa [finish] using this
  have ha : (s.perturb c z off).assumption = (s.perturb c z' off').assumption := by
    have := congrArg Series.assumption heq; simpa [finish] using this
  simp only [Series.perturb, hs] at hv ha
  cases hass : s.assumption with
  | some a =>
      simp only [hass, Option.map_some, Option.some.injEq] at ha
      exact hdelta (add_left_cancel ha)
  | none =>
      cases hvals : s.vals with
      | nil => simp [Series.hasData, hass, hvals] at hdata
      | cons v vs =>
          cases hc : c with
          | true =>
              simp only [hvals, hc, if_true, List.map_cons, List.cons.injEq] at hv
              exact hdelta (add_left_cancel hv.1)
          | false =>
              have h1 : z (off + 1) ≠ z' (off' + 1) :=
                hd 1 (by simp only [Series.nDraws, hs, hc, hvals, List.length_cons]; simp)
              simp only [hvals, hc, Bool.false_eq_true, if_false, perturbEach, List.cons.injEq] at hv
              exact h1 (mul_left_cancel₀ hsg (add_left_cancel hv.1))

/-- **`distinct_draws_distinct_samples`** — if two samples of the same parameter set read stream segments that
    differ in every coordinate (probability-one event for continuous draws: the trusted generator property,
    evaluated on the real draws by the harness) and at least one quantity is uncertain, the two sampled
    parameter sets differ: no two samples share a perturbation unless the uncertainty is zero. -/
theorem distinct_draws_distinct_samples (l : ParSet) (c : Bool) (z z' : Draws) (off off' : Nat)
    (hun : ∀ s ∈ l, s.sampled = false) (hu : ∃ s ∈ l, Uncertain s)
    (hd : ∀ k < nDrawsList c l, z (off + k) ≠ z' (off' + k)) :
    l.sample c z off ≠ l.sample c z' off' := by
  unfold ParSet.sample
  rw [sampleList_ok c z off l hun, sampleList_ok c z' off' l hun]
  intro heq
  have heq' : perturbList c z off l = perturbList c z' off' l := by injection heq
  clear heq hun
  induction l generalizing off off' with
  | nil => obtain ⟨s, hs, _⟩ := hu; simp at hs
  | cons s rest ih =>
      simp only [perturbList, List.cons.injEq] at heq'
      obtain ⟨t, ht, htu⟩ := hu
      rcases List.mem_cons.mp ht with rfl | hrest
      · exact perturb_ne t c z z' off off' htu
          (fun k hk => hd k (by simp only [nDrawsList]; omega)) heq'.1
      · refine ih (off + s.nDraws c) (off' + s.nDraws c) ⟨t, hrest, htu⟩ ?_ heq'.2
        intro k hk
        have := hd (s.nDraws c + k) (by simp only [nDrawsList]; omega)
        simpa [Nat.add_assoc] using this

/-- non-vacuity of the hypotheses: one uncertain series, streams `k ↦ k` and `k ↦ k + 1` -/
example : ParSet.sample [⟨[3], none, some (1/2), false⟩] true (fun k => (k : Rat)) 0 ≠
    ParSet.sample [⟨[3], none, some (1/2), false⟩] true (fun k => (k : Rat) + 1) 0 := by
  apply distinct_draws_distinct_samples
  · simp
  · exact ⟨_, List.mem_cons_self, 1/2, rfl, by norm_num, by simp [Series.hasData]⟩
  · intro k _; simp

/-- the number of draws a sample consumes depends on the shape of the inputs only, and sampling preserves the
    shape — so all samples of one call read segments of the same length -/
theorem nDraws_structural (l : ParSet) (c : Bool) (z : Draws) (off : Nat) :
    nDrawsList c (perturbList c z off l) = nDrawsList c l := by
  induction l generalizing off with
  | nil => rfl
  | cons s rest ih =>
      simp only [perturbList, nDrawsList, ih]
      congr 1
      cases hs : s.sigma <;> cases hc : c <;>
        simp [finish, Series.perturb, Series.nDraws, hs, perturbEach_length]

/-! ## Retry on a bad initialisation reads fresh draws -/

/-- `_run_sampled_sim`: the attempt that succeeds is the first one whose draws give a good initialisation;
    all earlier attempts were bad; at most `fuel` attempts are made. -/
theorem retry_result (bad : Nat → Bool) (len off fuel k r : Nat)
    (h : retryFrom bad len off fuel k = .ok r) :
    k ≤ r ∧ r < k + fuel ∧ bad (off + r * len) = false ∧ ∀ j, k ≤ j → j < r → bad (off + j * len) = true := by
  induction fuel generalizing k with
  | zero => simp [retryFrom] at h
  | succ fuel ih =>
      unfold retryFrom at h
      by_cases hb : bad (off + k * len) = true
      · simp only [hb, if_true] at h
        obtain ⟨h1, h2, h3, h4⟩ := ih (k + 1) h
        refine ⟨by omega, by omega, h3, ?_⟩
        intro j hj hjr
        rcases Nat.eq_or_lt_of_le hj with rfl | hlt
        · exact hb
        · exact h4 j hlt hjr
      · simp only [hb, Bool.false_eq_true, if_false] at h
        injection h with h
        subst h
        exact ⟨le_refl _, by omega, by simpa using hb, fun j hj hjr => by omega⟩

/-- the loop gives up only after `fuel` bad attempts, with the documented error -/
theorem retry_exhausted (bad : Nat → Bool) (len off fuel k : Nat) (e : Err)
    (h : retryFrom bad len off fuel k = .error e) :
    e = .exhausted ∧ ∀ j, k ≤ j → j < k + fuel → bad (off + j * len) = true := by
  induction fuel generalizing k with
  | zero =>
      simp only [retryFrom] at h
      injection h with h
      exact ⟨h.symm, fun j hj hjr => by omega⟩
  | succ fuel ih =>
      unfold retryFrom at h
      by_cases hb : bad (off + k * len) = true
      · simp only [hb, if_true] at h
        obtain ⟨h1, h2⟩ := ih (k + 1) h
        refine ⟨h1, ?_⟩
        intro j hj hjr
        rcases Nat.eq_or_lt_of_le hj with rfl | hlt
        · exact hb
        · exact h2 j hlt (by omega)
      · simp [hb] at h

/-- two attempts of one sampled run never read the same draw (each retry is a *new* draw of the inputs) -/
theorem retry_fresh_draws (len off j j' a b : Nat) (hjj : j ≠ j') (ha : a < len) (hb : b < len) :
    off + j * len + a ≠ off + j' * len + b := by
  have := segment_disjoint len j j' a b hjj ha hb
  omega

/-- serial loop with retries: every sample ends on a block of its own, strictly after the blocks (good and
    bad) of all earlier samples, and that block gives a good initialisation -/
theorem serialRuns_sorted (bad : Nat → Bool) (len mx n off : Nat) (r : List (Nat × Nat))
    (h : serialRuns bad len mx n off = .ok r) :
    r.length = n ∧ (∀ x ∈ r, off ≤ x.1 ∧ bad x.1 = false) ∧ r.Pairwise (fun a b => a.1 + len ≤ b.1) := by
  induction n generalizing off r with
  | zero =>
      simp only [serialRuns] at h
      injection h with h
      subst h
      simp
  | succ n ih =>
      unfold serialRuns at h
      cases hrun : runSampled bad len off mx with
      | error e => simp [hrun] at h
      | ok k =>
          simp only [hrun] at h
          cases hrest : serialRuns bad len mx n (off + (k + 1) * len) with
          | error e => simp [hrest] at h
          | ok r' =>
              simp only [hrest] at h
              injection h with h
              subst h
              obtain ⟨hl, hall, hpw⟩ := ih (off + (k + 1) * len) r' hrest
              obtain ⟨_, _, hgood, _⟩ := retry_result bad len off mx 0 k hrun
              refine ⟨by simp [hl], ?_, ?_⟩
              · intro x hx
                rcases List.mem_cons.mp hx with rfl | hx'
                · exact ⟨by simp, hgood⟩
                · have := hall x hx'
                  refine ⟨?_, this.2⟩
                  have h2 : (k + 1) * len = k * len + len := by ring
                  omega
              · rw [List.pairwise_cons]
                refine ⟨?_, hpw⟩
                intro b hb
                have := (hall b hb).1
                have h2 : (k + 1) * len = k * len + len := by ring
                simp only
                omega

/-- non-vacuity: blocks 0, 3, 4 bad, 2 draws per block, 3 samples, up to 3 attempts -/
example : serialRuns (fun p => p / 2 == 0 || p / 2 == 3 || p / 2 == 4) 2 3 3 0 = .ok [(2, 1), (4, 0), (10, 2)] := by
  decide

end Atomica.C17
