/-
  C18 (part): no formatting `TypeError` can replace the dedicated error.

  `Atomica.Generated.ErrorsFmt.table` is regenerated from the source text of `framework.py`, `data.py`, `excel.py`,
  `programs.py`, `parameters.py`, `cascade.py` on every run of the check (translator `errors_fmt`,
  harness/vlib/c18errfmt.py).  The quantifier is that finite table, so `decide +kernel` is a proof about the
  current source text.
-/
import AtomicaModel.Generated.ErrorsFmt
namespace Atomica.C18
open Atomica.Generated.ErrorsFmt

theorem errors_table_all : table.all Row.wellformed = true := by decide +kernel

/-- Every string-formatting expression of the input readers has as many arguments as placeholders, and the
    argument tuple is parenthesised. -/
theorem errors_wellformed : ∀ r ∈ table, r.wellformed = true := by
  have h := errors_table_all
  rw [List.all_eq_true] at h
  exact h

/-- non-vacuity: the table is not empty, and the predicate does reject the mis-parenthesised form -/
example : table ≠ [] := by decide +kernel
example : (⟨"framework.py", 1168, "InvalidFramework", .percent, 2, 1, false⟩ : Row).wellformed = false := by decide

end Atomica.C18
