/-
  C07 — Initial state matches the databook or the run is refused; sums stay consistent.

  "At the first time point compartment sizes are non-negative and reproduce every databook quantity used for initialization
   (each entered compartment or characteristic value at the start year times its calibration factors, fractions multiplied by
   their denominator) to within the stated tolerance of 1e-6; if no such assignment exists the run is refused with the dedicated
   bad-initialization error instead of being started from different numbers.  Throughout the run every reported characteristic
   equals the sum of its member compartments, divided by its denominator where one is defined (reported as 0 when the numerator
   is below 1e-6 people, so 0/0 is 0)."

  The least-squares solver is an oracle: every theorem about `accept` / `acceptCurrent` holds for EVERY candidate `x`.
  `accept` is the specification-shaped acceptance (tolerance also required of the clipped vector the run starts from);
  `acceptCurrent` is the code as it is (tests on the unclipped vector, then `max(0, x)`), for which only the weaker bound
  `tol * (1 + k_i)` holds — `clip_after_accept_witness` is the kernel-checked input on which they differ (finding D13).
-/
import AtomicaModel.Init
import AtomicaProofs.Lemmas.Sums
import Mathlib.Tactic.NormNum
import Mathlib.Tactic.FieldSimp
import Mathlib.Algebra.Order.Field.Basic

namespace Atomica.C07
open Atomica Atomica.Init

/-! ### small helpers -/

theorem absQ_eq_abs (r : Rat) : absQ r = |r| := by
  unfold absQ
  split
  · rename_i h; exact (abs_of_neg h).symm
  · rename_i h; exact (abs_of_nonneg (not_lt.mp h)).symm

theorem max0_eq_max (r : Rat) : max0 r = max 0 r := by
  unfold max0
  split
  · rename_i h; exact (max_eq_right (le_of_lt h)).symm
  · rename_i h; exact (max_eq_left (not_lt.mp h)).symm

theorem max0_nonneg (r : Rat) : 0 ≤ max0 r := by
  rw [max0_eq_max]; exact le_max_left _ _

theorem max0_of_nonneg {r : Rat} (h : 0 ≤ r) : max0 r = r := by
  rw [max0_eq_max]; exact max_eq_right h

theorem anyBelow_true {n : Nat} {p : Nat → Bool} : anyBelow n p = true ↔ ∃ i, i < n ∧ p i = true := by
  simp [anyBelow, List.any_eq_true, List.mem_range]

theorem anyBelow_false {n : Nat} {p : Nat → Bool} : anyBelow n p = false ↔ ∀ i, i < n → p i = false := by
  simp [anyBelow, List.any_eq_false, List.mem_range]

theorem rowBad_false {S : Sys} {x : Nat → Rat} :
    rowBad S x = false ↔ ∀ i, i < S.m → |row S x i - S.b i| ≤ tol := by
  unfold rowBad
  rw [anyBelow_false]
  constructor
  · intro h i hi
    have := h i hi
    simp only [decide_eq_false_iff_not, not_lt, absQ_eq_abs] at this
    exact this
  · intro h i hi
    simp only [decide_eq_false_iff_not, not_lt, absQ_eq_abs]
    exact h i hi

theorem rowBad_true {S : Sys} {x : Nat → Rat} :
    rowBad S x = true ↔ ∃ i, i < S.m ∧ tol < |row S x i - S.b i| := by
  unfold rowBad
  rw [anyBelow_true]
  constructor
  · rintro ⟨i, hi, h⟩
    refine ⟨i, hi, ?_⟩
    simpa [absQ_eq_abs] using h
  · rintro ⟨i, hi, h⟩
    refine ⟨i, hi, ?_⟩
    simpa [absQ_eq_abs] using h

theorem anyNeg_false {S : Sys} {x : Nat → Rat} : anyNeg S x = false ↔ ∀ j, j < S.n → -tol ≤ x j := by
  unfold anyNeg
  rw [anyBelow_false]
  constructor
  · intro h j hj
    have := h j hj
    simpa using this
  · intro h j hj
    simpa using h j hj

theorem anyNeg_true {S : Sys} {x : Nat → Rat} : anyNeg S x = true ↔ ∃ j, j < S.n ∧ x j < -tol := by
  unfold anyNeg
  rw [anyBelow_true]
  constructor
  · rintro ⟨j, hj, h⟩; exact ⟨j, hj, by simpa using h⟩
  · rintro ⟨j, hj, h⟩; exact ⟨j, hj, by simpa using h⟩

theorem tol_pos : (0 : Rat) < tol := by unfold tol; norm_num

/-! ### acceptance: characterisation -/

/-- what the code's acceptance means: the three tests pass on the solver output and the stocks are `max(0, x)` -/
theorem acceptCurrent_ok_iff (S : Sys) (x s : Nat → Rat) :
    acceptCurrent S x = .ok s ↔
      residual S x ≤ tol ∧ (∀ j, j < S.n → -tol ≤ x j) ∧ (∀ i, i < S.m → |row S x i - S.b i| ≤ tol) ∧ s = clipped x := by
  unfold acceptCurrent
  by_cases h1 : residual S x > tol
  · simp only [h1, if_true]
    constructor
    · intro h; cases h
    · rintro ⟨h, _⟩; exact absurd h1 (not_lt.mpr h)
  · simp only [h1, if_false]
    cases h2 : anyNeg S x
    · cases h3 : rowBad S x
      · simp only [Bool.false_eq_true, if_false]
        constructor
        · intro h
          injection h with h
          exact ⟨not_lt.mp h1, anyNeg_false.mp h2, rowBad_false.mp h3, h.symm⟩
        · rintro ⟨_, _, _, rfl⟩; rfl
      · simp only [Bool.false_eq_true, if_false, if_true]
        constructor
        · intro h; cases h
        · rintro ⟨_, _, h, _⟩
          have := rowBad_false.mpr h
          rw [h3] at this; cases this
    · simp only [if_true]
      constructor
      · intro h; cases h
      · rintro ⟨_, h, _⟩
        have := anyNeg_false.mpr h
        rw [h2] at this; cases this

theorem accept_ok_iff (S : Sys) (x s : Nat → Rat) :
    accept S x = .ok s ↔
      acceptCurrent S x = .ok s ∧ (∀ i, i < S.m → |row S s i - S.b i| ≤ tol) := by
  unfold accept
  cases h : acceptCurrent S x with
  | error r => simp
  | ok s' =>
    simp only
    cases h3 : rowBad S s'
    · simp only [Bool.false_eq_true, if_false]
      constructor
      · intro e; injection e with e; subst e
        exact ⟨rfl, rowBad_false.mp h3⟩
      · rintro ⟨e, _⟩; exact e
    · simp only [if_true]
      constructor
      · intro e; cases e
      · rintro ⟨e, hb⟩
        injection e with e; subst e
        have := rowBad_false.mpr hb
        rw [h3] at this; cases this

/-! ### accept_sound: the literal property, for every candidate solution -/

/-- **accept_sound.**  For EVERY candidate `x` (whatever the solver returns): if the run is accepted, the stocks it starts from
    are non-negative and reproduce every databook quantity used for initialisation to within 1e-6. -/
theorem accept_sound (S : Sys) (x s : Nat → Rat) (h : accept S x = .ok s) :
    (∀ j, 0 ≤ s j) ∧ (∀ i, i < S.m → |row S s i - S.b i| ≤ tol) := by
  obtain ⟨hc, hb⟩ := (accept_ok_iff S x s).mp h
  obtain ⟨_, _, _, rfl⟩ := (acceptCurrent_ok_iff S x s).mp hc
  exact ⟨fun j => max0_nonneg _, hb⟩

/-- the run is not started from different numbers: the stocks are the solver output with negative dust removed, and the
    solver output itself passed the code's three tests -/
theorem accept_stocks (S : Sys) (x s : Nat → Rat) (h : accept S x = .ok s) :
    (∀ j, s j = max 0 (x j)) ∧ residual S x ≤ tol ∧ (∀ j, j < S.n → -tol ≤ x j) ∧
      (∀ i, i < S.m → |row S x i - S.b i| ≤ tol) := by
  obtain ⟨hc, _⟩ := (accept_ok_iff S x s).mp h
  obtain ⟨h1, h2, h3, rfl⟩ := (acceptCurrent_ok_iff S x s).mp hc
  exact ⟨fun j => max0_eq_max _, h1, h2, h3⟩

/-- non-vacuity: a consistent system is accepted with its exact solution -/
def exSys : Sys := { m := 2, n := 2, A := fun i j => if i = 0 then 1 else if j = 0 then 1 else 0, b := fun i => if i = 0 then 10 else 4 }
def exX : Nat → Rat := fun j => if j = 0 then 4 else 6

example : ∃ s, accept exSys exX = .ok s := by
  refine ⟨clipped exX, ?_⟩
  rw [accept_ok_iff, acceptCurrent_ok_iff]
  have hrow : ∀ y : Nat → Rat, ∀ i, row exSys y i = if i = 0 then y 0 + y 1 else y 0 := by
    intro y i
    by_cases hi : i = 0 <;> simp [row, exSys, sumTo, hi]
  have hm : exSys.m = 2 := rfl
  have hn : exSys.n = 2 := rfl
  have hb : ∀ i, exSys.b i = if i = 0 then 10 else 4 := fun _ => rfl
  have hcl : ∀ j, clipped exX j = exX j := by
    intro j; unfold clipped exX; split <;> simp [max0]
  refine ⟨⟨?_, ?_, ?_, rfl⟩, ?_⟩
  · simp [residual, hm, sumTo, hrow, hb, exX, tol]
    norm_num
  · intro j _; unfold exX tol; split <;> norm_num
  · intro i hi
    have : i = 0 ∨ i = 1 := by rw [hm] at hi; omega
    rcases this with rfl | rfl <;> (simp [hrow, hb, exX, tol]; try norm_num)
  · intro i hi
    have : i = 0 ∨ i = 1 := by rw [hm] at hi; omega
    rcases this with rfl | rfl <;> (simp [hrow, hcl, hb, exX, tol]; try norm_num)

/-! ### the code as it is: the weaker bound -/

theorem row_sub (S : Sys) (s x : Nat → Rat) (i : Nat) :
    row S s i - row S x i = sumTo S.n (fun j => S.A i j * (s j - x j)) := by
  unfold row
  rw [← sumTo_sub]
  apply sumTo_congr; intro j _; ring

theorem clip_diff {x : Nat → Rat} {j : Nat} (h : -tol ≤ x j) :
    0 ≤ clipped x j - x j ∧ clipped x j - x j ≤ (if x j < 0 then tol else 0) := by
  unfold clipped max0
  by_cases hp : x j > 0
  · have : ¬ x j < 0 := not_lt.mpr (le_of_lt hp)
    simp [hp, this]
  · by_cases hn : x j < 0
    · simp only [hp, hn, if_false, if_true]
      constructor <;> linarith
    · have : x j = 0 := le_antisymm (not_lt.mp hp) (not_lt.mp hn)
      simp [this]

/-- `k_i` in general form: the total weight of the members of row `i` that were clipped from `(−tol, 0)` to 0 -/
def clipWeight (S : Sys) (x : Nat → Rat) (i : Nat) : Rat :=
  sumTo S.n (fun j => if x j < 0 then |S.A i j| else 0)

theorem clip_row_bound (S : Sys) (x : Nat → Rat) (i : Nat) (hneg : ∀ j, j < S.n → -tol ≤ x j) :
    |row S (clipped x) i - row S x i| ≤ tol * clipWeight S x i := by
  rw [row_sub, sumTo_eq_sum]
  refine le_trans (Finset.abs_sum_le_sum_abs _ _) ?_
  unfold clipWeight
  rw [← sumTo_mul_left, sumTo_eq_sum]
  apply Finset.sum_le_sum
  intro j hj
  have hj' := Finset.mem_range.mp hj
  obtain ⟨h0, h1⟩ := clip_diff (hneg j hj')
  rw [abs_mul, abs_of_nonneg h0]
  by_cases hn : x j < 0
  · simp only [hn, if_true] at h1 ⊢
    calc |S.A i j| * (clipped x j - x j) ≤ |S.A i j| * tol := mul_le_mul_of_nonneg_left h1 (abs_nonneg _)
      _ = tol * |S.A i j| := mul_comm _ _
  · simp only [hn, if_false] at h1 ⊢
    have : clipped x j - x j = 0 := le_antisymm h1 h0
    simp [this]

/-- **acceptCurrent_sound** (what the unchanged code guarantees, for every `x`): accepted ⇒ stocks ≥ 0, the *unclipped*
    solution reproduces every row to `tol`, and the stocks reproduce row `i` to `tol * (1 + k_i)`. -/
theorem acceptCurrent_sound (S : Sys) (x s : Nat → Rat) (h : acceptCurrent S x = .ok s) :
    (∀ j, 0 ≤ s j) ∧ (∀ i, i < S.m → |row S x i - S.b i| ≤ tol) ∧
      (∀ i, i < S.m → |row S s i - S.b i| ≤ tol * (1 + clipWeight S x i)) := by
  obtain ⟨_, h2, h3, rfl⟩ := (acceptCurrent_ok_iff S x s).mp h
  refine ⟨fun j => max0_nonneg _, h3, ?_⟩
  intro i hi
  have e : row S (clipped x) i - S.b i = (row S (clipped x) i - row S x i) + (row S x i - S.b i) := by ring
  rw [e]
  refine le_trans (abs_add_le _ _) ?_
  have := clip_row_bound S x i h2
  have := h3 i hi
  linarith

/-- for an includes matrix (entries 0/1) the weight is the number of clipped members of the row -/
theorem clipWeight_binary (S : Sys) (x : Nat → Rat) (i : Nat) (hb : ∀ j, j < S.n → S.A i j = 0 ∨ S.A i j = 1) :
    clipWeight S x i = sumTo S.n (fun j => if S.A i j = 1 ∧ x j < 0 then 1 else 0) := by
  unfold clipWeight
  apply sumTo_congr
  intro j hj
  rcases hb j hj with h | h <;> by_cases hn : x j < 0 <;> simp [h, hn]

/-- **accept_sound_exact.**  If no component of the solver output is negative, the code's acceptance gives the literal bound
    (and coincides with the specification-shaped acceptance). -/
theorem acceptCurrent_sound_exact (S : Sys) (x s : Nat → Rat) (hx : ∀ j, j < S.n → 0 ≤ x j)
    (h : acceptCurrent S x = .ok s) : ∀ i, i < S.m → |row S s i - S.b i| ≤ tol := by
  obtain ⟨_, _, h3⟩ := acceptCurrent_sound S x s h
  intro i hi
  have hw : clipWeight S x i = 0 := by
    unfold clipWeight
    apply sumTo_zero; intro j hj
    simp [not_lt.mpr (hx j hj)]
  have := h3 i hi
  rw [hw] at this
  linarith

theorem accept_eq_current_of_nonneg (S : Sys) (x : Nat → Rat) (hx : ∀ j, j < S.n → 0 ≤ x j) :
    accept S x = acceptCurrent S x := by
  unfold accept
  cases h : acceptCurrent S x with
  | error r => rfl
  | ok s =>
    have := rowBad_false.mpr (acceptCurrent_sound_exact S x s hx h)
    simp [this]

/-! ### refusals -/

/-- **refuse_kinds.**  A refusal is one of the three dedicated kinds and names its cause, in the code's order. -/
theorem refuse_kinds (S : Sys) (x : Nat → Rat) (r : Refusal) (h : accept S x = .error r) :
    (r = .residual ∧ tol < residual S x) ∨
    (r = .negative ∧ residual S x ≤ tol ∧ ∃ j, j < S.n ∧ x j < -tol) ∨
    (r = .tolerance ∧ residual S x ≤ tol ∧ (∀ j, j < S.n → -tol ≤ x j) ∧
      ((∃ i, i < S.m ∧ tol < |row S x i - S.b i|) ∨ (∃ i, i < S.m ∧ tol < |row S (clipped x) i - S.b i|))) := by
  unfold accept acceptCurrent at h
  by_cases h1 : residual S x > tol
  · simp only [h1, if_true] at h
    injection h with h; subst h
    exact Or.inl ⟨rfl, h1⟩
  · simp only [h1, if_false] at h
    cases h2 : anyNeg S x
    · simp only [h2, Bool.false_eq_true, if_false] at h
      cases h3 : rowBad S x
      · simp only [h3, Bool.false_eq_true, if_false] at h
        cases h4 : rowBad S (clipped x)
        · simp [h4] at h
        · simp only [h4, if_true] at h
          injection h with h; subst h
          exact Or.inr (Or.inr ⟨rfl, not_lt.mp h1, anyNeg_false.mp h2, Or.inr (rowBad_true.mp h4)⟩)
      · simp only [h3, if_true] at h
        injection h with h; subst h
        exact Or.inr (Or.inr ⟨rfl, not_lt.mp h1, anyNeg_false.mp h2, Or.inl (rowBad_true.mp h3)⟩)
    · simp only [h2, if_true] at h
      injection h with h; subst h
      exact Or.inr (Or.inl ⟨rfl, not_lt.mp h1, anyNeg_true.mp h2⟩)

/-- **refuse_complete.**  If any of the code's three tests fails, the run is refused (there is no silent start). -/
theorem refuse_complete (S : Sys) (x : Nat → Rat)
    (h : tol < residual S x ∨ (∃ j, j < S.n ∧ x j < -tol) ∨ (∃ i, i < S.m ∧ tol < |row S x i - S.b i|)) :
    ∃ r, accept S x = .error r := by
  cases hacc : accept S x with
  | error r => exact ⟨r, rfl⟩
  | ok s =>
    exfalso
    obtain ⟨_, h1, h2, h3⟩ := accept_stocks S x s hacc
    rcases h with h | ⟨j, hj, h⟩ | ⟨i, hi, h⟩
    · exact absurd h (not_lt.mpr h1)
    · exact absurd h (not_lt.mpr (h2 j hj))
    · exact absurd h (not_lt.mpr (h3 i hi))

/-- the same for the unchanged code -/
theorem refuse_complete_current (S : Sys) (x : Nat → Rat)
    (h : tol < residual S x ∨ (∃ j, j < S.n ∧ x j < -tol) ∨ (∃ i, i < S.m ∧ tol < |row S x i - S.b i|)) :
    ∃ r, acceptCurrent S x = .error r := by
  cases hacc : acceptCurrent S x with
  | error r => exact ⟨r, rfl⟩
  | ok s =>
    exfalso
    obtain ⟨h1, h2, h3, _⟩ := (acceptCurrent_ok_iff S x s).mp hacc
    rcases h with h | ⟨j, hj, h⟩ | ⟨i, hi, h⟩
    · exact absurd h (not_lt.mpr h1)
    · exact absurd h (not_lt.mpr (h2 j hj))
    · exact absurd h (not_lt.mpr (h3 i hi))

/-- **no_assignment_refused.**  If no non-negative assignment reproduces the databook to the tolerance, every candidate
    solution is refused — whatever the solver returns. -/
theorem no_assignment_refused (S : Sys)
    (h : ¬ ∃ s : Nat → Rat, (∀ j, 0 ≤ s j) ∧ ∀ i, i < S.m → |row S s i - S.b i| ≤ tol) (x : Nat → Rat) :
    ∃ r, accept S x = .error r := by
  cases hacc : accept S x with
  | error r => exact ⟨r, rfl⟩
  | ok s => exact absurd ⟨s, accept_sound S x s hacc⟩ h

/-- non-vacuity of `refuse_complete` / `refuse_kinds`: alive = 100, vac = 120 (the documentation's example) is refused as
    "negative" when the solver returns the exact solution (-20, 120) -/
def exNeg : Sys := { m := 2, n := 2, A := fun i j => if i = 0 then 1 else if j = 1 then 1 else 0, b := fun i => if i = 0 then 100 else 120 }

example : accept exNeg (fun j => if j = 0 then -20 else 120) = .error .negative := by
  have hrow : ∀ y : Nat → Rat, ∀ i, row exNeg y i = if i = 0 then y 0 + y 1 else y 1 := by
    intro y i
    by_cases hi : i = 0 <;> simp [row, exNeg, sumTo, hi]
  have hm : exNeg.m = 2 := rfl
  have hb : ∀ i, exNeg.b i = if i = 0 then 100 else 120 := fun _ => rfl
  have h1 : ¬ residual exNeg (fun j => if j = 0 then -20 else 120) > tol := by
    simp [residual, hm, sumTo, hrow, hb, tol]
    norm_num
  have h2 : anyNeg exNeg (fun j => if j = 0 then -20 else 120) = true := by
    rw [anyNeg_true]; exact ⟨0, by decide, by simp [tol]; norm_num⟩
  simp [accept, acceptCurrent, h1, h2]

/-! ### D13: the input on which the code and the specification differ -/

/-- databook: total = 10, first compartment = 10.0000018; the minimum-norm solution puts −0.9e-6 in the other two -/
def d13 : Sys := { m := 2, n := 3, A := fun i j => if i = 0 then 1 else if j = 0 then 1 else 0,
                   b := fun i => if i = 0 then 10 else 50000009 / 5000000 }
def d13x : Nat → Rat := fun j => if j = 0 then 50000009 / 5000000 else -9 / 10000000

theorem d13_row (y : Nat → Rat) (i : Nat) : row d13 y i = if i = 0 then y 0 + y 1 + y 2 else y 0 := by
  by_cases hi : i = 0 <;> simp [row, d13, sumTo, hi]

/-- **clip_after_accept_witness.**  The unchanged code accepts this input and starts the run with a total that is 1.8e-6 away
    from the databook value (> 1e-6); the specification-shaped acceptance refuses it. -/
theorem clip_after_accept_witness :
    (∃ s, acceptCurrent d13 d13x = .ok s ∧ |row d13 s 0 - d13.b 0| = 18 / 10000000 ∧ tol < |row d13 s 0 - d13.b 0|) ∧
    accept d13 d13x = .error .tolerance := by
  have hm : d13.m = 2 := rfl
  have hb : ∀ i, d13.b i = if i = 0 then 10 else 50000009 / 5000000 := fun _ => rfl
  have hc : acceptCurrent d13 d13x = .ok (clipped d13x) := by
    rw [acceptCurrent_ok_iff]
    refine ⟨?_, ?_, ?_, rfl⟩
    · simp [residual, hm, sumTo, d13_row, hb, d13x, tol]; norm_num
    · intro j _; unfold d13x tol; split <;> norm_num
    · intro i hi
      have : i = 0 ∨ i = 1 := by rw [hm] at hi; omega
      rcases this with rfl | rfl <;> (simp [d13_row, hb, d13x, tol]; try norm_num)
  have hcl : ∀ j, clipped d13x j = if j = 0 then 50000009 / 5000000 else 0 := by
    intro j; unfold clipped d13x max0; split <;> norm_num
  have hval : |row d13 (clipped d13x) 0 - d13.b 0| = 18 / 10000000 := by
    simp [d13_row, hcl, hb]; norm_num
  refine ⟨⟨clipped d13x, hc, hval, ?_⟩, ?_⟩
  · rw [hval]; unfold tol; norm_num
  · have hbad : rowBad d13 (clipped d13x) = true := by
      rw [rowBad_true]; exact ⟨0, by decide, by rw [hval]; unfold tol; norm_num⟩
    simp [accept, hc, hbad]

/-! ### right-hand side, row spreading, saved initialisation -/

/-- the right-hand side scales with both calibration factors (and a fraction with its denominator's scaled value) -/
theorem rhs_scaled (v y ym : Rat) : rhs v y ym none = v * (y * ym) := by unfold rhs; ring

theorem rhs_fraction (v y ym dv dy dym : Rat) :
    rhs v y ym (some (dv, dy, dym)) = rhs v y ym none * rhs dv dy dym none := by unfold rhs; ring

/-- a timed compartment initialised with `v` holds `v` in total, for every number of rows -/
theorem spread_total (n : Nat) (v : Rat) (hn : 1 ≤ n) : sumTo n (spread n v) = v := by
  have h : sumTo n (spread n v) = sumTo n (fun _ => v / (n : Rat)) := by
    apply sumTo_congr; intro r hr; simp [spread, hr]
  rw [h, sumTo_eq_sum, Finset.sum_const, Finset.card_range, nsmul_eq_mul]
  have : (n : Rat) ≠ 0 := by exact_mod_cast (by omega : n ≠ 0)
  field_simp

theorem spread_nonneg (n : Nat) (v : Rat) (hv : 0 ≤ v) (r : Nat) : 0 ≤ spread n v r := by
  unfold spread; split
  · exact div_nonneg hv (by exact_mod_cast Nat.zero_le n)
  · exact le_refl 0

/-- **saved_init_identity.**  With a saved initialisation the stocks are exactly the saved ones (zero where nothing was saved). -/
theorem saved_init_identity (saved : Nat → Option (Nat → Rat)) (c : Nat) :
    (∀ v, saved c = some v → ∀ r, applySaved saved c r = v r) ∧ (saved c = none → ∀ r, applySaved saved c r = 0) := by
  constructor
  · intro v h r; simp [applySaved, h]
  · intro h r; simp [applySaved, h]

example : applySaved (fun c => if c = 0 then some (fun r => (r : Rat) + 1) else none) 0 2 = 3 := by
  simp [applySaved]; norm_num

/-! ### characteristics: expansion = transitive closure -/

/-- compartment `j` is a member of characteristic `k` (transitive closure of the include relation) -/
inductive Reach (D : Defs) : Nat → Nat → Prop
  | direct {k j : Nat} : Ref.comp j ∈ (D k).includes → Reach D k j
  | nested {k k' j : Nat} : Ref.charac k' ∈ (D k).includes → Reach D k' j → Reach D k j

theorem expandRefs_mem (rec : Nat → Option (List Nat)) (j : Nat) :
    ∀ (rs : List Ref) (l : List Nat), expandRefs rec rs = some l →
      (j ∈ l ↔ (Ref.comp j ∈ rs ∨ ∃ k' a, Ref.charac k' ∈ rs ∧ rec k' = some a ∧ j ∈ a)) := by
  intro rs
  induction rs with
  | nil =>
    intro l h
    simp [expandRefs] at h
    subst h; simp
  | cons r rs ih =>
    intro l h
    cases r with
    | comp j' =>
      simp only [expandRefs, Option.map_eq_some_iff] at h
      obtain ⟨l', hl', rfl⟩ := h
      rw [List.mem_cons, ih l' hl']
      constructor
      · rintro (rfl | h | ⟨k', a, h1, h2, h3⟩)
        · exact Or.inl (List.mem_cons_self)
        · exact Or.inl (List.mem_cons_of_mem _ h)
        · exact Or.inr ⟨k', a, List.mem_cons_of_mem _ h1, h2, h3⟩
      · rintro (h | ⟨k', a, h1, h2, h3⟩)
        · rcases List.mem_cons.mp h with h | h
          · injection h with h; exact Or.inl h
          · exact Or.inr (Or.inl h)
        · rcases List.mem_cons.mp h1 with h | h
          · cases h
          · exact Or.inr (Or.inr ⟨k', a, h, h2, h3⟩)
    | charac k =>
      simp only [expandRefs] at h
      cases hk : rec k with
      | none => simp [hk] at h
      | some a =>
        cases hr : expandRefs rec rs with
        | none => simp [hk, hr] at h
        | some b =>
          simp only [hk, hr, Option.some.injEq] at h
          subst h
          rw [List.mem_append, ih b hr]
          constructor
          · rintro (h | h | ⟨k', a', h1, h2, h3⟩)
            · exact Or.inr ⟨k, a, List.mem_cons_self, hk, h⟩
            · exact Or.inl (List.mem_cons_of_mem _ h)
            · exact Or.inr ⟨k', a', List.mem_cons_of_mem _ h1, h2, h3⟩
          · rintro (h | ⟨k', a', h1, h2, h3⟩)
            · rcases List.mem_cons.mp h with h | h
              · cases h
              · exact Or.inr (Or.inl h)
            · rcases List.mem_cons.mp h1 with h | h
              · injection h with h; subst h
                rw [hk] at h2; injection h2 with h2; subst h2
                exact Or.inl h3
              · exact Or.inr (Or.inr ⟨k', a', h, h2, h3⟩)

/-- a successful expansion expanded every included characteristic -/
theorem expandRefs_sub (rec : Nat → Option (List Nat)) :
    ∀ (rs : List Ref) (l : List Nat), expandRefs rec rs = some l → ∀ k', Ref.charac k' ∈ rs → ∃ a, rec k' = some a := by
  intro rs
  induction rs with
  | nil => intro l _ k' hk; cases hk
  | cons r rs ih =>
    intro l h k' hk
    cases r with
    | comp j' =>
      simp only [expandRefs, Option.map_eq_some_iff] at h
      obtain ⟨l', hl', _⟩ := h
      rcases List.mem_cons.mp hk with h | h
      · cases h
      · exact ih l' hl' k' h
    | charac k =>
      simp only [expandRefs] at h
      cases hk2 : rec k with
      | none => simp [hk2] at h
      | some a =>
        cases hr : expandRefs rec rs with
        | none => simp [hk2, hr] at h
        | some b =>
          rcases List.mem_cons.mp hk with h' | h'
          · injection h' with h'; subst h'; exact ⟨a, hk2⟩
          · exact ih b hr k' h'

/-- **expand_correct.**  Whenever `get_included_comps` terminates, the compartments it lists are exactly the transitive
    closure of the include relation. -/
theorem expand_correct (D : Defs) : ∀ (fuel k : Nat) (l : List Nat), expand D fuel k = some l → ∀ j, (j ∈ l ↔ Reach D k j) := by
  intro fuel
  induction fuel with
  | zero => intro k l h; simp [expand] at h
  | succ fuel ih =>
    intro k l h j
    simp only [expand] at h
    rw [expandRefs_mem (expand D fuel) j _ l h]
    constructor
    · rintro (h1 | ⟨k', a, h1, h2, h3⟩)
      · exact Reach.direct h1
      · exact Reach.nested h1 ((ih k' a h2 j).mp h3)
    · intro hr
      cases hr with
      | direct h1 => exact Or.inl h1
      | nested h1 h2 =>
        rename_i k'
        obtain ⟨a, ha⟩ := expandRefs_sub (expand D fuel) _ l h k' h1
        exact Or.inr ⟨k', a, h1, ha, (ih k' a ha j).mpr h2⟩

/-! ### characteristics: nested sums -/

theorem listSum_cons (a : Rat) (l : List Rat) : listSum (a :: l) = a + listSum l := rfl

theorem listSum_append (l1 l2 : List Rat) : listSum (l1 ++ l2) = listSum l1 + listSum l2 := by
  induction l1 with
  | nil => simp [listSum]
  | cons a l ih => simp only [List.cons_append, listSum_cons, ih]; ring

/-- sum with multiplicity = sum over the set, when nothing is listed twice -/
theorem nodup_sum (nC : Nat) (x : Nat → Rat) :
    ∀ l : List Nat, l.Nodup → (∀ j, j ∈ l → j < nC) → expSum x l = memberSum nC x l := by
  intro l
  unfold expSum
  induction l with
  | nil =>
    intro _ _
    simp only [List.map_nil, memberSum]
    rw [sumTo_zero]
    · rfl
    · intro i _; simp
  | cons a l ih =>
    intro hnd hb
    rw [List.nodup_cons] at hnd
    rw [List.map_cons, listSum_cons, ih hnd.2 (fun j hj => hb j (List.mem_cons_of_mem _ hj))]
    unfold memberSum
    have hsplit : ∀ j, (if (a :: l).contains j then x j else 0)
        = (if j = a then x a else 0) + (if l.contains j then x j else 0) := by
      intro j
      by_cases hja : j = a
      · subst hja
        simp [hnd.1]
      · simp [hja]
    rw [sumTo_congr (fun j _ => hsplit j), sumTo_add, sumTo_single a (hb a List.mem_cons_self)]

/-- **row_expSum.**  The specification's matrix row (multiplicities) applied to a stock vector is the sum of the member
    compartments exactly as the reported value counts them — for every include structure, overlapping or not. -/
theorem count_sum (n : Nat) (x : Nat → Rat) :
    ∀ l : List Nat, (∀ j, j ∈ l → j < n) → sumTo n (fun j => (l.count j : Rat) * x j) = expSum x l := by
  intro l
  unfold expSum
  induction l with
  | nil => intro _; simp only [List.map_nil]; rw [sumTo_zero]; · rfl
           intro i _; simp
  | cons a l ih =>
    intro hb
    rw [List.map_cons, listSum_cons, ← ih (fun j hj => hb j (List.mem_cons_of_mem _ hj))]
    have hsplit : ∀ j, (((a :: l).count j : Nat) : Rat) * x j = (if j = a then x a else 0) + (l.count j : Rat) * x j := by
      intro j
      rw [List.count_cons]
      by_cases hja : j = a
      · subst hja; simp; ring
      · have : (a == j) = false := by simpa using (fun h => hja h.symm)
        simp [this, hja]
    rw [sumTo_congr (fun j _ => hsplit j), sumTo_add, sumTo_single a (hb a List.mem_cons_self)]

theorem row_expSum (S : Sys) (x : Nat → Rat) (i : Nat) (l : List Nat) (hA : ∀ j, S.A i j = sysRow l j)
    (hb : ∀ j, j ∈ l → j < S.n) : row S x i = expSum x l := by
  rw [← count_sum S.n x l hb]
  unfold row
  apply sumTo_congr; intro j _
  rw [hA j]; rfl

/-- the code's indicator row applied to a stock vector is the sum over the member *set* -/
theorem rowCurrent_memberSum (S : Sys) (x : Nat → Rat) (i : Nat) (l : List Nat) (hA : ∀ j, S.A i j = sysRowCurrent l j) :
    row S x i = memberSum S.n x l := by
  unfold row memberSum
  apply sumTo_congr; intro j _
  rw [hA j]; unfold sysRowCurrent
  split <;> simp

/-- **sysRow_current_of_nodup.**  When no compartment is reached along two include paths, the matrix row the code builds is
    the specification's row. -/
theorem sysRow_current_of_nodup (l : List Nat) (h : l.Nodup) (j : Nat) : sysRowCurrent l j = sysRow l j := by
  unfold sysRowCurrent sysRow
  induction l with
  | nil => simp
  | cons a l ih =>
    rw [List.nodup_cons] at h
    rw [List.count_cons]
    by_cases hja : j = a
    · subst hja
      have hc : l.count j = 0 := List.count_eq_zero_of_not_mem h.1
      simp [hc]
    · have hne : (a == j) = false := by simpa using (fun h' => hja h'.symm)
      have := ih h.2
      simp only [List.contains_cons, hne] at this ⊢
      have hja' : (j == a) = false := by simpa using hja
      simp only [hja', Bool.false_or]
      simpa using this

theorem allBelowList_iff {nC : Nat} {l : List Nat} : allBelowList nC l = true ↔ ∀ j, j ∈ l → j < nC := by
  simp [allBelowList, List.all_eq_true]

/-- inner induction of `expand_sum`: the code's nested sum over an include list equals the sum (with multiplicity) over its
    expansion, when the included characteristics carry no denominators -/
theorem sumRefs_expand (f : Rat → Option Rat → Rep) (D : Defs) (x : Nat → Rat) (fuel : Nat)
    (ih : ∀ k l, denFree D fuel k = true → expand D fuel k = some l → valsWith f D x fuel k = .val (expSum x l)) :
    ∀ (rs : List Ref) (l : List Nat),
      rs.all (fun r => match r with | .comp _ => true | .charac k' => denFree D fuel k') = true →
      expandRefs (expand D fuel) rs = some l →
      sumRefs (valsWith f D x fuel) x rs = .val (expSum x l) := by
  intro rs
  unfold expSum at ih ⊢
  induction rs with
  | nil =>
    intro l _ h
    simp [expandRefs] at h
    subst h
    simp [sumRefs, listSum]
  | cons r rs ihr =>
    intro l hall h
    rw [List.all_cons, Bool.and_eq_true] at hall
    cases r with
    | comp j =>
      simp only [expandRefs, Option.map_eq_some_iff] at h
      obtain ⟨l', hl', rfl⟩ := h
      simp only [sumRefs, refVal, ihr l' hall.2 hl', List.map_cons, listSum_cons]
    | charac k =>
      simp only [expandRefs] at h
      cases hk : expand D fuel k with
      | none => simp [hk] at h
      | some a =>
        cases hr : expandRefs (expand D fuel) rs with
        | none => simp [hk, hr] at h
        | some b =>
          simp only [hk, hr, Option.some.injEq] at h
          subst h
          have hv := ih k a (by simpa using hall.1) hk
          simp only [sumRefs, refVal, hv, ihr b hall.2 hr, List.map_append, listSum_append]

/-- **expand_sum.**  For a denominator-free characteristic, the value the code computes by nested summation is the sum over
    the expansion `get_included_comps` returns (any nesting depth, with multiplicities). -/
theorem expand_sum (f : Rat → Option Rat → Rep) (D : Defs) (x : Nat → Rat) :
    ∀ (fuel k : Nat) (l : List Nat), denFree D fuel k = true → expand D fuel k = some l →
      valsWith f D x fuel k = .val (expSum x l) := by
  intro fuel
  induction fuel with
  | zero => intro k l h; simp [denFree] at h
  | succ fuel ih =>
    intro k l hd he
    simp only [denFree, Bool.and_eq_true, Option.isNone_iff_eq_none] at hd
    simp only [expand] at he
    have hs := sumRefs_expand f D x fuel ih (D k).includes l hd.2 he
    simp only [valsWith, hs, hd.1, Option.map_none, applyDen]

/-- **charac_sum.**  For every well-formed characteristic (nested to any depth, overlapping or not, with or without a
    denominator) the value the code reports (`Characteristic.vals`, `f = value`) and the value it uses inside the loop
    (`Characteristic.update`, `f = valueStep`) is: the sum of its member compartments, divided by the sum of the denominator's
    member compartments. -/
theorem charac_sum (f : Rat → Option Rat → Rep) (D : Defs) (nC fuel k : Nat) (x : Nat → Rat)
    (h : wfCharac D nC fuel k = true) :
    valsWith f D x (fuel + 1) k = reportedWith f D x (fuel + 1) k := by
  unfold wfCharac at h
  simp only [Bool.and_eq_true] at h
  obtain ⟨⟨h1, h2⟩, h3⟩ := h
  cases he : expand D (fuel + 1) k with
  | none => simp [he] at h1
  | some l =>
    have he' : expandRefs (expand D fuel) (D k).includes = some l := by simpa [expand] using he
    have hs := sumRefs_expand f D x fuel (fun k l => expand_sum f D x fuel k l) (D k).includes l h2 he'
    simp only [valsWith, reportedWith, he, hs]
    cases hden : (D k).denom with
    | none => simp [applyDen]
    | some r =>
      simp only [hden] at h3
      cases r with
      | comp j =>
        have hm : expSum x [j] = x j := by simp [expSum, listSum]
        simp only [Option.map_some, refVal, applyDen, members, hm]
      | charac kd =>
        simp only [Bool.and_eq_true] at h3
        obtain ⟨hdf, hexp⟩ := h3
        cases hed : expand D fuel kd with
        | none => simp [hed] at hexp
        | some ld =>
          have hv := expand_sum f D x fuel kd ld hdf hed
          simp only [Option.map_some, refVal, hv, applyDen, members, hed]

/-- non-vacuity: `tot = c0 + c1 + c2`, `inf = c1 + c2` nested in `tot`, `prev = inf / tot` -/
def exDefs : Defs := fun k =>
  if k = 0 then { includes := [.comp 1, .comp 2], denom := none }
  else if k = 1 then { includes := [.comp 0, .charac 0], denom := none }
  else { includes := [.charac 0], denom := some (.charac 1) }

example : wfCharac exDefs 3 3 2 = true := by decide +kernel
example : wfCharac exDefs 3 3 1 = true := by decide +kernel
example : expand exDefs 4 1 = some [0, 1, 2] := by decide +kernel

/-- a compartment reached along two include paths (`xx = c0 + yy`, `yy = c0 + c1`; stocks 10, 20): the reported value counts it
    twice (40), the matrix row the code builds counts it once (30) — so the initialisation does not aim at the reported value.
    The specification's row (`sysRow`, multiplicities) gives 40. -/
def exOverlap : Defs := fun k =>
  if k = 0 then { includes := [.comp 0, .comp 1], denom := none }
  else { includes := [.comp 0, .charac 0], denom := none }

def exOverlapX : Nat → Rat := fun j => if j = 0 then 10 else 20

theorem overlap_counts_twice :
    expand exOverlap 3 1 = some [0, 0, 1] ∧
    valsWith value exOverlap exOverlapX 3 1 = .val 40 ∧
    sumTo 2 (fun j => sysRow [0, 0, 1] j * exOverlapX j) = 40 ∧
    sumTo 2 (fun j => sysRowCurrent [0, 0, 1] j * exOverlapX j) = 30 ∧
    nodupCharac exOverlap 2 1 = false := by
  refine ⟨by decide +kernel, ?_, ?_, ?_, by decide +kernel⟩
  · simp [valsWith, sumRefs, refVal, applyDen, exOverlap, exOverlapX]; norm_num
  · simp [sumTo, sysRow, exOverlapX]; norm_num
  · simp [sumTo, sysRowCurrent, exOverlapX]; norm_num

/-- **accept_reproduces_charac** (end to end).  If the run is accepted, every well-formed denominator-free characteristic that
    is a row of the system (with the specification's row) is *reported* at the first time point within 1e-6 of its databook
    value — for every nesting depth, overlapping or not, and every candidate solution. -/
theorem accept_reproduces_charac (S : Sys) (x s : Nat → Rat) (D : Defs) (fuel k i : Nat) (l : List Nat)
    (hacc : accept S x = .ok s) (hi : i < S.m)
    (hl : expand D (fuel + 1) k = some l) (hA : ∀ j, S.A i j = sysRow l j)
    (hwf : wfCharac D S.n fuel k = true) (hden : (D k).denom = none) :
    ∃ v, valsWith value D s (fuel + 1) k = .val v ∧ |v - S.b i| ≤ tol := by
  refine ⟨expSum s l, ?_, ?_⟩
  · rw [charac_sum value D S.n fuel k s hwf]
    simp only [reportedWith, hl, hden]
  · have hb : ∀ j, j ∈ l → j < S.n := by
      unfold wfCharac at hwf
      simp only [Bool.and_eq_true, hl] at hwf
      exact allBelowList_iff.mp hwf.1.1
    rw [← row_expSum S s i l hA hb]
    exact (accept_sound S x s hacc).2 i hi

/-- the same for the matrix the code builds, when no compartment is reached twice -/
theorem accept_reproduces_charac_current (S : Sys) (x s : Nat → Rat) (D : Defs) (fuel k i : Nat) (l : List Nat)
    (hacc : accept S x = .ok s) (hi : i < S.m)
    (hl : expand D (fuel + 1) k = some l) (hA : ∀ j, S.A i j = sysRowCurrent l j) (hnd : l.Nodup)
    (hwf : wfCharac D S.n fuel k = true) (hden : (D k).denom = none) :
    ∃ v, valsWith value D s (fuel + 1) k = .val v ∧ |v - S.b i| ≤ tol :=
  accept_reproduces_charac S x s D fuel k i l hacc hi hl
    (fun j => by rw [hA j, sysRow_current_of_nodup l hnd j]) hwf hden

/-! ### the reported value of a fraction -/

/-- 0/0 is 0: a numerator below 1e-6 people is reported as 0 whatever the denominator -/
theorem value_small_numerator (num d : Rat) (h : num < tol) : value num (some d) = .val 0 := by
  simp [value, h]

theorem value_zero_over_zero : value 0 (some 0) = .val 0 := value_small_numerator 0 0 tol_pos

/-- otherwise it is the quotient -/
theorem value_quotient (num d : Rat) (h : tol ≤ num) (hd : 0 < d) : value num (some d) = .val (num / d) := by
  simp [value, not_lt.mpr h, hd]

theorem value_no_denominator (num : Rat) : value num none = .val num := rfl

/-- the two forms agree except for a numerator below the tolerance over a positive denominator -/
theorem value_step_agree (num d : Rat) (h : tol ≤ num ∨ d ≤ 0) : valueStep num (some d) = value num (some d) := by
  unfold valueStep value
  rcases h with h | h
  · simp [not_lt.mpr h]
  · simp [not_lt.mpr h]

/-- … where the in-loop form keeps the tiny quotient and the reported form is 0 -/
theorem value_step_differs : valueStep (1 / 2000000) (some 1) ≠ value (1 / 2000000) (some 1) := by
  simp [valueStep, value, tol]
  norm_num

end Atomica.C07
