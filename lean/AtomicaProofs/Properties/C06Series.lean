/-
  C06 (time-series half) — "The value of every parameter at every simulation time is the databook
  series interpolated at that time (exact at entered years, linear in between, constant outside the
  data range, or the constant assumption) …".  Also `previous_prefix` (used by C09): a stepped
  series that already states the value in force at `t` is not changed at `t` by a later-dated insert.

  Theorems about `Atomica.Series` (`interpLinear`, `interpPrevious`, `insertRaw`), the model that
  harness/props/c06.py compares `TimeSeries.interpolate` / `TimeSeries.insert` against, value by value.

  Hypothesis `Sorted (clean s.raw)`: the entered years that survive the NaN filter are strictly
  increasing.  It is the `TimeSeries` invariant (`insert` keeps `self.t` strictly increasing:
  `insert_wf`, `clean_sorted`) and is evaluated on every generated series by the harness.
-/
import AtomicaModel.Series
import Mathlib.Tactic.Linarith
import Mathlib.Tactic.Ring
import Mathlib.Tactic.FieldSimp
import Mathlib.Tactic.NormNum
import Mathlib.Algebra.Order.Field.Basic

namespace Atomica.C06
open Atomica Atomica.Series

/-- strictly increasing times -/
def Sorted (l : List Pt) : Prop := l.Pairwise (fun a b => a.1 < b.1)

/-- the point on the straight line through `p0` and `p1` at time `x` -/
def chordVal (p0 p1 : Pt) (x : Rat) : Rat := p0.2 + (p1.2 - p0.2) * (x - p0.1) / (p1.1 - p0.1)

/-! ## generic lemmas about the two walks -/

theorem sorted_tail {p : Pt} {l : List Pt} (h : Sorted (p :: l)) : Sorted l :=
  (List.pairwise_cons.mp h).2

theorem sorted_head_lt {p : Pt} {l : List Pt} (h : Sorted (p :: l)) {b : Pt} (hb : b ∈ l) : p.1 < b.1 :=
  (List.pairwise_cons.mp h).1 b hb

theorem sorted_append_right {l₁ l₂ : List Pt} (h : Sorted (l₁ ++ l₂)) : Sorted l₂ :=
  (List.pairwise_append.mp h).2.1

theorem sorted_append_lt {l₁ l₂ : List Pt} (h : Sorted (l₁ ++ l₂)) {a b : Pt} (ha : a ∈ l₁) (hb : b ∈ l₂) :
    a.1 < b.1 :=
  (List.pairwise_append.mp h).2.2 a ha b hb

theorem linClean_cons (p0 : Pt) (rest : List Pt) (x : Rat) :
    linClean (p0 :: rest) x = if x < p0.1 then .val p0.2 else Out.ofOpt (linFrom p0 rest x) := by
  cases rest with
  | nil => simp [linClean, linFrom, Out.ofOpt]
  | cons p1 r => rfl

theorem prevClean_cons (p0 : Pt) (rest : List Pt) (x : Rat) :
    prevClean (p0 :: rest) x = if x < p0.1 then .val p0.2 else .val (prevFrom p0.2 rest x) := by
  cases rest with
  | nil => simp [prevClean, prevFrom]
  | cons p1 r => rfl

/-- points strictly before the point `a` with `a.1 ≤ x` are walked over -/
theorem linFrom_skip (p0 : Pt) (pre : List Pt) (a : Pt) (post : List Pt) (x : Rat)
    (hs : Sorted (p0 :: (pre ++ a :: post))) (hx : a.1 ≤ x) :
    linFrom p0 (pre ++ a :: post) x = linFrom a post x := by
  induction pre generalizing p0 with
  | nil =>
    simp only [List.nil_append, linFrom]
    rw [if_neg (not_lt.mpr hx)]
  | cons p1 pre ih =>
    have hs' : Sorted (p1 :: (pre ++ a :: post)) := sorted_tail hs
    have h1a : p1.1 < a.1 := sorted_head_lt hs' (by simp)
    simp only [List.cons_append, linFrom]
    rw [if_neg (by linarith)]
    exact ih p1 hs'

theorem prevFrom_skip (v : Rat) (pre : List Pt) (a : Pt) (post : List Pt) (x : Rat)
    (hs : Sorted (pre ++ a :: post)) (hx : a.1 ≤ x) :
    prevFrom v (pre ++ a :: post) x = prevFrom a.2 post x := by
  induction pre generalizing v with
  | nil =>
    simp only [List.nil_append, prevFrom]
    rw [if_neg (not_lt.mpr hx)]
  | cons p1 pre ih =>
    have h1a : p1.1 < a.1 := sorted_head_lt hs (by simp)
    simp only [List.cons_append, prevFrom]
    rw [if_neg (by linarith)]
    exact ih p1.2 (sorted_tail hs)

/-- the walk reaches the last point at or before `x` -/
theorem linClean_at (pre : List Pt) (a : Pt) (post : List Pt) (x : Rat)
    (hs : Sorted (pre ++ a :: post)) (hx : a.1 ≤ x) :
    linClean (pre ++ a :: post) x = Out.ofOpt (linFrom a post x) := by
  cases pre with
  | nil =>
    rw [List.nil_append, linClean_cons, if_neg (not_lt.mpr hx)]
  | cons p0 pre =>
    have h0a : p0.1 < a.1 := sorted_head_lt hs (by simp)
    rw [List.cons_append, linClean_cons, if_neg (by linarith), linFrom_skip p0 pre a post x hs hx]

theorem prevClean_at (pre : List Pt) (a : Pt) (post : List Pt) (x : Rat)
    (hs : Sorted (pre ++ a :: post)) (hx : a.1 ≤ x) :
    prevClean (pre ++ a :: post) x = .val (prevFrom a.2 post x) := by
  cases pre with
  | nil =>
    rw [List.nil_append, prevClean_cons, if_neg (not_lt.mpr hx)]
  | cons p0 pre =>
    have h0a : p0.1 < a.1 := sorted_head_lt hs (by simp)
    rw [List.cons_append, prevClean_cons, if_neg (by linarith),
      prevFrom_skip p0.2 pre a post x (sorted_tail hs) hx]

theorem linFrom_head (a : Pt) (post : List Pt) (hs : Sorted (a :: post)) :
    linFrom a post a.1 = some a.2 := by
  cases post with
  | nil => rfl
  | cons b r =>
    have hab : a.1 < b.1 := sorted_head_lt hs (by simp)
    simp [linFrom, hab]

theorem chord_eq (a b : Pt) (x : Rat) (hab : a.1 < b.1) : chord a b x = some (chordVal a b x) := by
  have hne : b.1 - a.1 ≠ 0 := by linarith [sub_pos.mpr hab] |> ne_of_gt
  unfold chord divQ chordVal
  rw [if_neg hne]
  simp only [Option.map_some, Option.some.injEq]
  ring

theorem chordVal_left (a b : Pt) : chordVal a b a.1 = a.2 := by
  simp [chordVal]

theorem chordVal_right (a b : Pt) (hab : a.1 < b.1) : chordVal a b b.1 = b.2 := by
  have hne : b.1 - a.1 ≠ 0 := ne_of_gt (sub_pos.mpr hab)
  unfold chordVal
  field_simp
  ring

theorem linFrom_between (a b : Pt) (post : List Pt) (x : Rat) (hs : Sorted (a :: b :: post))
    (h0 : a.1 ≤ x) (h1 : x ≤ b.1) : linFrom a (b :: post) x = some (chordVal a b x) := by
  have hab : a.1 < b.1 := sorted_head_lt hs (by simp)
  by_cases hx : x < b.1
  · by_cases hxa : x = a.1
    · subst hxa
      simp [linFrom, hab, chordVal_left]
    · simp only [linFrom, if_pos hx, if_neg hxa]
      exact chord_eq a b x hab
  · have hxb : x = b.1 := le_antisymm h1 (not_lt.mp hx)
    subst hxb
    simp only [linFrom, if_neg hx]
    rw [linFrom_head b post (sorted_tail hs), chordVal_right a b hab]

/-- the chord stays between the two neighbouring values -/
theorem chordVal_bounds (a b : Pt) (x : Rat) (hab : a.1 < b.1) (h0 : a.1 ≤ x) (h1 : x ≤ b.1) :
    min a.2 b.2 ≤ chordVal a b x ∧ chordVal a b x ≤ max a.2 b.2 := by
  have hd : 0 < b.1 - a.1 := sub_pos.mpr hab
  have hl0 : 0 ≤ (x - a.1) / (b.1 - a.1) := div_nonneg (by linarith) hd.le
  have hl1 : (x - a.1) / (b.1 - a.1) ≤ 1 := (div_le_one hd).mpr (by linarith)
  have hc : chordVal a b x = a.2 + (b.2 - a.2) * ((x - a.1) / (b.1 - a.1)) := by
    unfold chordVal; ring
  rw [hc]
  rcases le_total a.2 b.2 with h | h
  · rw [min_eq_left h, max_eq_right h]
    constructor <;> nlinarith
  · rw [min_eq_right h, max_eq_left h]
    constructor <;> nlinarith

/-- when a dated, non-NaN point exists the series is interpolated from the cleaned points -/
theorem interpWith_clean (f : List Pt → Rat → Out) (s : TS) (x : Rat) (h : clean s.raw ≠ []) :
    interpWith f s x = f (clean s.raw) x := by
  unfold interpWith
  split
  · rename_i heq
    simp [heq, clean] at h
  · rfl

theorem interpWith_raw (f : List Pt → Rat → Out) (s : TS) (x : Rat) (h : s.raw ≠ []) :
    interpWith f s x = f (clean s.raw) x := by
  unfold interpWith
  split
  · rename_i heq
    exact absurd heq h
  · rfl

/-! ## C06: linear interpolation -/

/-- **exact at entered years**: at the time of any entered (non-NaN) point the value is that point's value -/
theorem interp_knot (s : TS) (hs : Sorted (clean s.raw)) (p : Pt) (hp : p ∈ clean s.raw) :
    interpLinear s p.1 = .val p.2 := by
  have hne : clean s.raw ≠ [] := List.ne_nil_of_mem hp
  obtain ⟨pre, post, hl⟩ := List.append_of_mem hp
  unfold interpLinear
  rw [interpWith_clean _ _ _ hne]
  rw [hl] at hs ⊢
  rw [linClean_at pre p post p.1 hs le_rfl, linFrom_head p post (sorted_append_right hs)]
  rfl

/-- **linear in between**: between two neighbouring entered points `a`, `b` the value is on the
    straight line through them, hence between their two values -/
theorem interp_between (s : TS) (hs : Sorted (clean s.raw)) (pre : List Pt) (a b : Pt) (post : List Pt)
    (x : Rat) (hl : clean s.raw = pre ++ a :: b :: post) (h0 : a.1 ≤ x) (h1 : x ≤ b.1) :
    interpLinear s x = .val (chordVal a b x)
      ∧ min a.2 b.2 ≤ chordVal a b x ∧ chordVal a b x ≤ max a.2 b.2 := by
  have hne : clean s.raw ≠ [] := by rw [hl]; simp
  rw [hl] at hs
  have hs2 : Sorted (a :: b :: post) := sorted_append_right hs
  have hab : a.1 < b.1 := sorted_head_lt hs2 (by simp)
  refine ⟨?_, chordVal_bounds a b x hab h0 h1⟩
  unfold interpLinear
  rw [interpWith_clean _ _ _ hne, hl, linClean_at pre a (b :: post) x hs h0,
    linFrom_between a b post x hs2 h0 h1]
  rfl

/-- **constant outside the data range**: at or before the first entered point its value, at or
    after the last entered point its value -/
theorem interp_outside (s : TS) (hs : Sorted (clean s.raw)) (x : Rat) :
    (∀ p0 rest, clean s.raw = p0 :: rest → x ≤ p0.1 → interpLinear s x = .val p0.2)
    ∧ (∀ pre pl, clean s.raw = pre ++ [pl] → pl.1 ≤ x → interpLinear s x = .val pl.2) := by
  constructor
  · intro p0 rest hl hx
    have hne : clean s.raw ≠ [] := by rw [hl]; simp
    unfold interpLinear
    rw [interpWith_clean _ _ _ hne, hl, linClean_cons]
    by_cases hlt : x < p0.1
    · rw [if_pos hlt]
    · have hxe : x = p0.1 := le_antisymm hx (not_lt.mp hlt)
      rw [if_neg hlt, hxe, linFrom_head p0 rest (hl ▸ hs)]
      rfl
  · intro pre pl hl hx
    have hne : clean s.raw ≠ [] := by rw [hl]; simp
    unfold interpLinear
    rw [interpWith_clean _ _ _ hne, hl, linClean_at pre pl [] x (hl ▸ hs) hx]
    rfl

/-- **one entered year**: the value is that year's value at every time (both methods) -/
theorem interp_single (s : TS) (p : Pt) (hl : clean s.raw = [p]) (x : Rat) :
    interpLinear s x = .val p.2 ∧ interpPrevious s x = .val p.2 := by
  have hne : clean s.raw ≠ [] := by rw [hl]; simp
  unfold interpLinear interpPrevious
  rw [interpWith_clean _ _ _ hne, interpWith_clean _ _ _ hne, hl]
  exact ⟨rfl, rfl⟩

/-- **assumption only**: with no dated entry the value is the constant assumption at every time,
    and NaN when there is no assumption either (both methods) -/
theorem interp_assumption (s : TS) (hr : s.raw = []) (x : Rat) :
    interpLinear s x = Out.ofOpt s.assumption ∧ interpPrevious s x = Out.ofOpt s.assumption := by
  unfold interpLinear interpPrevious interpWith
  rw [hr]
  cases s.assumption <;> exact ⟨rfl, rfl⟩

/-- a dated entry takes precedence over the assumption, whatever the assumption is -/
theorem interp_ignores_assumption (s : TS) (hr : s.raw ≠ []) (a : Option Rat) (x : Rat) :
    interpLinear (s.setAssumption a) x = interpLinear s x
      ∧ interpPrevious (s.setAssumption a) x = interpPrevious s x := by
  unfold interpLinear interpPrevious
  have hr' : (s.setAssumption a).raw ≠ [] := hr
  rw [interpWith_raw _ _ _ hr, interpWith_raw _ _ _ hr', interpWith_raw _ _ _ hr, interpWith_raw _ _ _ hr']
  exact ⟨rfl, rfl⟩

/-- dated entries that are all NaN: the call raises (both methods) -/
theorem interp_all_nan (s : TS) (hr : s.raw ≠ []) (hc : clean s.raw = []) (x : Rat) :
    interpLinear s x = .err ∧ interpPrevious s x = .err := by
  unfold interpLinear interpPrevious
  rw [interpWith_raw _ _ _ hr, interpWith_raw _ _ _ hr, hc]
  exact ⟨rfl, rfl⟩

/-- **NaN points are dropped**: an entry whose time or value is NaN does not influence any value,
    as long as another dated entry remains stored -/
theorem interp_nan_dropped (s : TS) (r₁ r₂ : List Raw) (e : Raw) (hs : s.raw = r₁ ++ e :: r₂)
    (he : e.1 = none ∨ e.2 = none) (hne : r₁ ++ r₂ ≠ []) (x : Rat) :
    interpLinear s x = interpLinear { s with raw := r₁ ++ r₂ } x
      ∧ interpPrevious s x = interpPrevious { s with raw := r₁ ++ r₂ } x := by
  have hk : keep e = none := by
    rcases e with ⟨t, v⟩
    rcases he with h | h
    · simp only at h; subst h; cases v <;> rfl
    · simp only at h; subst h; cases t <;> rfl
  have hc : clean s.raw = clean (r₁ ++ r₂) := by
    rw [hs]; simp [clean, List.filterMap_append, hk]
  have h1 : s.raw ≠ [] := by rw [hs]; simp
  unfold interpLinear interpPrevious
  rw [interpWith_raw _ _ _ h1, interpWith_raw _ _ _ h1,
    interpWith_raw _ { s with raw := r₁ ++ r₂ } _ hne, interpWith_raw _ { s with raw := r₁ ++ r₂ } _ hne, hc]
  exact ⟨rfl, rfl⟩

/-! ## stepped interpolation -/

/-- between two neighbouring entered points the stepped value is the earlier one's (closed on the
    left, open on the right) -/
theorem previous_between (s : TS) (hs : Sorted (clean s.raw)) (pre : List Pt) (a b : Pt) (post : List Pt)
    (x : Rat) (hl : clean s.raw = pre ++ a :: b :: post) (h0 : a.1 ≤ x) (h1 : x < b.1) :
    interpPrevious s x = .val a.2 := by
  have hne : clean s.raw ≠ [] := by rw [hl]; simp
  unfold interpPrevious
  rw [interpWith_clean _ _ _ hne, hl, prevClean_at pre a (b :: post) x (hl ▸ hs) h0]
  simp [prevFrom, h1]

/-- before the first entered point its value; at or after the last entered point its value -/
theorem previous_outside (s : TS) (hs : Sorted (clean s.raw)) (x : Rat) :
    (∀ p0 rest, clean s.raw = p0 :: rest → x < p0.1 → interpPrevious s x = .val p0.2)
    ∧ (∀ pre pl, clean s.raw = pre ++ [pl] → pl.1 ≤ x → interpPrevious s x = .val pl.2) := by
  constructor
  · intro p0 rest hl hx
    have hne : clean s.raw ≠ [] := by rw [hl]; simp
    unfold interpPrevious
    rw [interpWith_clean _ _ _ hne, hl, prevClean_cons, if_pos hx]
  · intro pre pl hl hx
    have hne : clean s.raw ≠ [] := by rw [hl]; simp
    unfold interpPrevious
    rw [interpWith_clean _ _ _ hne, hl, prevClean_at pre pl [] x (hl ▸ hs) hx]
    rfl

/-- exact at entered years (stepped) -/
theorem previous_knot (s : TS) (hs : Sorted (clean s.raw)) (p : Pt) (hp : p ∈ clean s.raw) :
    interpPrevious s p.1 = .val p.2 := by
  have hne : clean s.raw ≠ [] := List.ne_nil_of_mem hp
  obtain ⟨pre, post, hl⟩ := List.append_of_mem hp
  unfold interpPrevious
  rw [interpWith_clean _ _ _ hne, hl, prevClean_at pre p post p.1 (hl ▸ hs) le_rfl]
  cases post with
  | nil => rfl
  | cons b r =>
    have hpb : p.1 < b.1 := sorted_head_lt (sorted_append_right (hl ▸ hs)) (by simp)
    simp [prevFrom, hpb]

/-! ## `TimeSeries.insert` keeps the times strictly increasing -/

def timeOf (r : Raw) : Rat := r.1.getD 0

/-- the `TimeSeries` storage invariant: no NaN time, times strictly increasing -/
def WF (raw : List Raw) : Prop :=
  (∀ r ∈ raw, r.1.isSome) ∧ raw.Pairwise (fun a b => timeOf a < timeOf b)

theorem mem_insertRaw (Y : Rat) (w : Option Rat) (raw : List Raw) (r : Raw)
    (h : r ∈ insertRaw Y w raw) : r = (some Y, w) ∨ r ∈ raw := by
  induction raw with
  | nil => simp [insertRaw] at h; exact Or.inl h
  | cons e rest ih =>
    rcases e with ⟨_ | t', w'⟩
    · simp only [insertRaw, List.mem_cons] at h ⊢
      rcases h with h | h | h
      · exact Or.inl h
      · exact Or.inr (Or.inl h)
      · exact Or.inr (Or.inr h)
    · simp only [insertRaw] at h
      split at h
      · simp only [List.mem_cons] at h ⊢
        rcases h with h | h
        · exact Or.inr (Or.inl h)
        · rcases ih h with h' | h'
          · exact Or.inl h'
          · exact Or.inr (Or.inr h')
      · split at h
        · simp only [List.mem_cons] at h ⊢
          rcases h with h | h
          · exact Or.inl h
          · exact Or.inr (Or.inr h)
        · simp only [List.mem_cons] at h ⊢
          rcases h with h | h | h
          · exact Or.inl h
          · exact Or.inr (Or.inl h)
          · exact Or.inr (Or.inr h)

/-- `insert` preserves the storage invariant -/
theorem insert_wf (Y : Rat) (w : Option Rat) (raw : List Raw) (h : WF raw) : WF (insertRaw Y w raw) := by
  induction raw with
  | nil =>
    refine ⟨?_, ?_⟩
    · intro r hr; simp [insertRaw] at hr; subst hr; rfl
    · simp [insertRaw]
  | cons e rest ih =>
    obtain ⟨hsome, hpw⟩ := h
    have hrest : WF rest := ⟨fun r hr => hsome r (List.mem_cons_of_mem _ hr), (List.pairwise_cons.mp hpw).2⟩
    have hhead : ∀ b ∈ rest, timeOf e < timeOf b := (List.pairwise_cons.mp hpw).1
    rcases e with ⟨_ | t', w'⟩
    · have := hsome (none, w') (by simp)
      simp at this
    · have ht : timeOf (some t', w') = t' := rfl
      simp only [insertRaw]
      split
      · rename_i hlt
        obtain ⟨ih1, ih2⟩ := ih hrest
        refine ⟨?_, ?_⟩
        · intro r hr
          rcases List.mem_cons.mp hr with h | h
          · subst h; rfl
          · exact ih1 r h
        · refine List.pairwise_cons.mpr ⟨?_, ih2⟩
          intro b hb
          rcases mem_insertRaw Y w rest b hb with h | h
          · subst h; exact hlt
          · exact hhead b h
      · rename_i hnlt
        split
        · rename_i heq
          refine ⟨?_, ?_⟩
          · intro r hr
            rcases List.mem_cons.mp hr with h | h
            · subst h; rfl
            · exact hrest.1 r h
          · refine List.pairwise_cons.mpr ⟨?_, hrest.2⟩
            intro b hb
            have := hhead b hb
            rw [ht, heq] at this
            exact this
        · rename_i hne
          have hgt : Y < t' := lt_of_le_of_ne (not_lt.mp hnlt) (fun h => hne h.symm)
          refine ⟨?_, ?_⟩
          · intro r hr
            rcases List.mem_cons.mp hr with h | h
            · subst h; rfl
            · exact hsome r h
          · refine List.pairwise_cons.mpr ⟨?_, hpw⟩
            intro b hb
            rcases List.mem_cons.mp hb with h | h
            · subst h; exact hgt
            · have := hhead b h
              rw [ht] at this
              exact lt_trans hgt this

theorem time_ne_of_lt {Y : Rat} {r : Raw} (h : Y < timeOf r) : r.1 ≠ some Y := by
  intro h'
  have : timeOf r = Y := by simp [timeOf, h']
  rw [this] at h
  exact lt_irrefl _ h

/-- what `insert` stores: the new dated value, and every old entry dated differently — nothing else
    (an old entry with the same date is overwritten) -/
theorem insert_spec (Y : Rat) (w : Option Rat) (raw : List Raw) (h : WF raw) (r : Raw) :
    r ∈ insertRaw Y w raw ↔ r = (some Y, w) ∨ (r ∈ raw ∧ r.1 ≠ some Y) := by
  induction raw with
  | nil => simp [insertRaw]
  | cons e rest ih =>
    obtain ⟨hsome, hpw⟩ := h
    have hrest : WF rest := ⟨fun r hr => hsome r (List.mem_cons_of_mem _ hr), (List.pairwise_cons.mp hpw).2⟩
    have hhead : ∀ b ∈ rest, timeOf e < timeOf b := (List.pairwise_cons.mp hpw).1
    rcases e with ⟨_ | t', w'⟩
    · have := hsome (none, w') (by simp)
      simp at this
    · have ht : timeOf (some t', w') = t' := rfl
      simp only [insertRaw]
      split
      · rename_i hlt
        have hne : ((some t', w') : Raw).1 ≠ some Y := by
          intro h'; simp at h'; rw [h'] at hlt; exact lt_irrefl _ hlt
        rw [List.mem_cons, ih hrest, List.mem_cons]
        constructor
        · rintro (h | h | ⟨h1, h2⟩)
          · exact Or.inr ⟨Or.inl h, h ▸ hne⟩
          · exact Or.inl h
          · exact Or.inr ⟨Or.inr h1, h2⟩
        · rintro (h | ⟨h1 | h1, h2⟩)
          · exact Or.inr (Or.inl h)
          · exact Or.inl h1
          · exact Or.inr (Or.inr ⟨h1, h2⟩)
      · rename_i hnlt
        split
        · rename_i heq
          rw [List.mem_cons, List.mem_cons]
          constructor
          · rintro (h | h)
            · exact Or.inl h
            · have := hhead r h
              rw [ht, heq] at this
              exact Or.inr ⟨Or.inr h, time_ne_of_lt this⟩
          · rintro (h | ⟨h1 | h1, h2⟩)
            · exact Or.inl h
            · exfalso; apply h2; rw [h1, heq]
            · exact Or.inr h1
        · rename_i hne
          have hgt : Y < t' := lt_of_le_of_ne (not_lt.mp hnlt) (fun h => hne h.symm)
          rw [List.mem_cons]
          constructor
          · rintro (h | h)
            · exact Or.inl h
            · refine Or.inr ⟨h, ?_⟩
              rcases List.mem_cons.mp h with h' | h'
              · rw [h']; exact time_ne_of_lt (by rw [ht]; exact hgt)
              · have := hhead r h'
                rw [ht] at this
                exact time_ne_of_lt (lt_trans hgt this)
          · rintro (h | ⟨h1, _⟩)
            · exact Or.inl h
            · exact Or.inr h1

theorem keep_some {r : Raw} {p : Pt} (h : keep r = some p) : r = (some p.1, some p.2) := by
  rcases r with ⟨_ | t, _ | v⟩ <;> simp [keep] at h
  subst h; rfl

/-- a well-formed stored series has strictly increasing cleaned points -/
theorem clean_sorted (raw : List Raw) (h : WF raw) : Sorted (clean raw) := by
  induction raw with
  | nil => simp [Sorted, clean]
  | cons e rest ih =>
    obtain ⟨hsome, hpw⟩ := h
    have hrest : WF rest := ⟨fun r hr => hsome r (List.mem_cons_of_mem _ hr), (List.pairwise_cons.mp hpw).2⟩
    have hhead : ∀ b ∈ rest, timeOf e < timeOf b := (List.pairwise_cons.mp hpw).1
    unfold clean
    rw [List.filterMap_cons]
    cases hk : keep e with
    | none => exact ih hrest
    | some p =>
      refine List.pairwise_cons.mpr ⟨?_, ih hrest⟩
      intro b hb
      obtain ⟨r, hr, hkr⟩ := List.mem_filterMap.mp hb
      have := hhead r hr
      rw [keep_some hk, keep_some hkr] at this
      exact this

/-! ## `previous_prefix` -/

/-- value of the last point dated at or before `x` -/
def inForce (l : List Pt) (x : Rat) : Option Rat :=
  ((l.filter (fun p => decide (p.1 ≤ x))).getLast?).map (·.2)

theorem prevFrom_inForce (v : Rat) (l : List Pt) (x : Rat) (hs : Sorted l) :
    prevFrom v l x = (inForce l x).getD v := by
  induction l generalizing v with
  | nil => rfl
  | cons p1 rest ih =>
    by_cases hx : x < p1.1
    · have hnone : (p1 :: rest).filter (fun p => decide (p.1 ≤ x)) = [] := by
        rw [List.filter_eq_nil_iff]
        intro b hb
        have : p1.1 ≤ b.1 := by
          rcases List.mem_cons.mp hb with h | h
          · rw [h]
          · exact (sorted_head_lt hs h).le
        simp only [decide_eq_true_eq, not_le]
        linarith
      simp [prevFrom, hx, inForce, hnone]
    · have hle : p1.1 ≤ x := not_lt.mp hx
      simp only [prevFrom, if_neg hx]
      rw [ih p1.2 (sorted_tail hs)]
      unfold inForce
      rw [List.filter_cons_of_pos (by simpa using hle), List.getLast?_cons]
      cases (rest.filter (fun p => decide (p.1 ≤ x))).getLast? <;> rfl

/-- with a point dated at or before `x`, the stepped value is the value of the last such point -/
theorem prevClean_inForce (l : List Pt) (x : Rat) (hs : Sorted l) (hp : ∃ p ∈ l, p.1 ≤ x) :
    prevClean l x = Out.ofOpt (inForce l x) := by
  obtain ⟨p, hpl, hpx⟩ := hp
  cases l with
  | nil => simp at hpl
  | cons p0 rest =>
    have h0 : p0.1 ≤ x := by
      rcases List.mem_cons.mp hpl with h | h
      · rw [← h]; exact hpx
      · exact le_trans (sorted_head_lt hs h).le hpx
    rw [prevClean_cons, if_neg (not_lt.mpr h0), prevFrom_inForce _ _ _ (sorted_tail hs)]
    unfold inForce
    rw [List.filter_cons_of_pos (by simpa using h0), List.getLast?_cons]
    cases (rest.filter (fun p => decide (p.1 ≤ x))).getLast? <;> rfl

/-- an insert dated after `t` does not touch the points dated at or before `t` -/
theorem filter_clean_insertRaw (raw : List Raw) (t Y : Rat) (w : Option Rat) (h : t < Y) :
    (clean (insertRaw Y w raw)).filter (fun p => decide (p.1 ≤ t))
      = (clean raw).filter (fun p => decide (p.1 ≤ t)) := by
  have hnew : (clean [(some Y, w)]).filter (fun p => decide (p.1 ≤ t)) = [] := by
    cases w with
    | none => rfl
    | some v =>
      simp only [clean, List.filterMap_cons, keep, List.filterMap_nil]
      rw [List.filter_cons_of_neg (by simpa using h)]
      rfl
  have hcons : ∀ (e : Raw) (l : List Raw), clean (e :: l) = clean [e] ++ clean l := by
    intro e l; simp [clean, List.filterMap_cons]; cases keep e <;> rfl
  induction raw with
  | nil =>
    simp only [insertRaw]
    rw [hnew]
    rfl
  | cons e rest ih =>
    rcases e with ⟨_ | t', w'⟩
    · simp only [insertRaw]
      rw [hcons (some Y, w), List.filter_append, hnew, List.nil_append]
    · simp only [insertRaw]
      split
      · rw [hcons (some t', w') (insertRaw Y w rest), hcons (some t', w') rest, List.filter_append,
          List.filter_append, ih]
      · split
        · rename_i heq
          have hold : (clean [(some t', w')]).filter (fun p => decide (p.1 ≤ t)) = [] := by
            rw [heq]; exact hnew_any w'
          rw [hcons (some Y, w) rest, hcons (some t', w') rest, List.filter_append, List.filter_append,
            hnew, hold]
        · rw [hcons (some Y, w), List.filter_append, hnew, List.nil_append]
where
  hnew_any (w' : Option Rat) : (clean [(some Y, w')]).filter (fun p => decide (p.1 ≤ t)) = [] := by
    cases w' with
    | none => rfl
    | some v =>
      simp only [clean, List.filterMap_cons, keep, List.filterMap_nil]
      rw [List.filter_cons_of_neg (by simpa using h)]
      rfl

/-- **previous_prefix** (C09): if the stepped series already has a (non-NaN) point dated at or
    before `t`, inserting or overwriting a point dated `Y > t` (any value, even NaN) leaves the
    stepped value at `t` unchanged -/
theorem previous_prefix (s : TS) (hs : WF s.raw) (t Y : Rat) (w : Option Rat) (hY : t < Y)
    (hp : ∃ p ∈ clean s.raw, p.1 ≤ t) :
    interpPrevious (s.insertAt Y w) t = interpPrevious s t := by
  obtain ⟨p, hpl, hpt⟩ := hp
  have hne : clean s.raw ≠ [] := List.ne_nil_of_mem hpl
  have hf := filter_clean_insertRaw s.raw t Y w hY
  have hpf : p ∈ (clean s.raw).filter (fun p => decide (p.1 ≤ t)) :=
    List.mem_filter.mpr ⟨hpl, by simpa using hpt⟩
  have hpl' : p ∈ clean (insertRaw Y w s.raw) := by
    rw [← hf] at hpf
    exact (List.mem_filter.mp hpf).1
  have hne' : clean (s.insertAt Y w).raw ≠ [] := List.ne_nil_of_mem hpl'
  unfold interpPrevious
  rw [interpWith_clean _ _ _ hne, interpWith_clean _ _ _ hne']
  show prevClean (clean (insertRaw Y w s.raw)) t = prevClean (clean s.raw) t
  rw [prevClean_inForce _ _ (clean_sorted _ (insert_wf Y w s.raw hs)) ⟨p, hpl', hpt⟩,
    prevClean_inForce _ _ (clean_sorted _ hs) ⟨p, hpl, hpt⟩]
  unfold inForce
  rw [hf]

/-- the hypothesis of `previous_prefix` is necessary: (1) a series holding only an assumption
    changes at every earlier time when its first dated point is inserted; (2) so does a series
    whose only point is dated after `t` -/
theorem previous_prefix_needs_point :
    (∃ (s : TS) (t Y : Rat) (w : Option Rat), WF s.raw ∧ t < Y ∧ s.raw = []
        ∧ interpPrevious (s.insertAt Y w) t ≠ interpPrevious s t)
    ∧ (∃ (s : TS) (t Y : Rat) (w : Option Rat), WF s.raw ∧ t < Y ∧ s.raw ≠ []
        ∧ interpPrevious (s.insertAt Y w) t ≠ interpPrevious s t) := by
  constructor
  · refine ⟨⟨[], some 1⟩, 2000, 2005, some 2, ⟨by simp, by simp⟩, by norm_num, rfl, ?_⟩
    decide +kernel
  · refine ⟨⟨[(some 2010, some 5)], none⟩, 2000, 2005, some 7, ⟨?_, by simp⟩, by norm_num, by simp, ?_⟩
    · intro r hr; simp at hr; subst hr; rfl
    · decide +kernel

/-! ## non-vacuity: the hypotheses are satisfiable and the conclusions are the expected numbers -/

/-- the series 2000 ↦ 2, 2005 ↦ 4, 2007 ↦ NaN, 2010 ↦ 3 with an (ignored) assumption 9 -/
def ex : TS := ⟨[(some 2000, some 2), (some 2005, some 4), (some 2007, none), (some 2010, some 3)], some 9⟩

theorem ex_wf : WF ex.raw := by
  refine ⟨?_, ?_⟩
  · intro r hr
    simp [ex] at hr
    rcases hr with h | h | h | h <;> subst h <;> rfl
  · simp [ex, timeOf]; norm_num

theorem ex_clean : clean ex.raw = [(2000, 2), (2005, 4), (2010, 3)] := rfl

theorem ex_sorted : Sorted (clean ex.raw) := clean_sorted _ ex_wf

example : interpLinear ex 2005 = .val 4 := interp_knot ex ex_sorted (2005, 4) (by simp [ex_clean])

example : interpLinear ex (4005 / 2) = .val 3 := by
  have h := (interp_between ex ex_sorted [] (2000, 2) (2005, 4) [(2010, 3)] (4005 / 2) ex_clean
    (by norm_num) (by norm_num)).1
  rw [h]; unfold chordVal; norm_num

example : interpLinear ex 1990 = .val 2 ∧ interpLinear ex 2030 = .val 3 :=
  ⟨(interp_outside ex ex_sorted 1990).1 (2000, 2) _ ex_clean (by norm_num),
   (interp_outside ex ex_sorted 2030).2 [(2000, 2), (2005, 4)] (2010, 3) ex_clean (by norm_num)⟩

example : interpLinear ⟨[(some 2000, none), (some 2001, some 5)], some 9⟩ 1234 = .val 5 :=
  (interp_single ⟨[(some 2000, none), (some 2001, some 5)], some 9⟩ (2001, 5) rfl 1234).1

example : interpLinear ⟨[], some 9⟩ 2000 = .val 9 ∧ interpLinear ⟨[], none⟩ 2000 = .nan :=
  ⟨(interp_assumption ⟨[], some 9⟩ rfl 2000).1, (interp_assumption ⟨[], none⟩ rfl 2000).1⟩

example : interpLinear ⟨[(some 2000, none)], some 9⟩ 2000 = .err :=
  (interp_all_nan ⟨[(some 2000, none)], some 9⟩ (by simp) rfl 2000).1

example : interpPrevious ex 2006 = .val 4 :=
  previous_between ex ex_sorted [(2000, 2)] (2005, 4) (2010, 3) [] 2006 ex_clean (by norm_num) (by norm_num)

/-- `previous_prefix` applies to `ex` at `t = 2006`, `Y = 2008` (the point 2005 ↦ 4 is in force) -/
example : interpPrevious (ex.insertAt 2008 (some 100)) 2006 = interpPrevious ex 2006 :=
  previous_prefix ex ex_wf 2006 2008 (some 100) (by norm_num) ⟨(2005, 4), by simp [ex_clean], by norm_num⟩

/-- … whereas linear interpolation at 2006 *does* change under that insert (why scenarios pin
    the baseline value at the last grid time before `Y`) -/
example : interpLinear (ex.insertAt 2008 (some 100)) 2006 ≠ interpLinear ex 2006 := by
  decide +kernel

end Atomica.C06
