/-
  C16 — "Round trips preserve content and behaviour; objects behave as their visible data."

  Three pieces of logic carry theorems (the Excel / pickle layer carries none; it is sampled by mode E of
  harness/props/c16.py):
    * Part 1: the `Covout` cache (`AtomicaModel.Protocol.Cache`): coherence invariant, behaviour as a function of the
      visible data, kernel-checked witnesses that the operations as the code performs them break it (D7, D18);
    * Part 2: the y-factor table (`AtomicaModel.Tables.YF`): round trip, unknown entries skipped, missing kept (D6);
    * Part 3: the `TimeDependentValuesEntry` table (`AtomicaModel.Tables`): decode ∘ encode on well-formed entries.
-/
import AtomicaModel.Tables
import AtomicaModel.Protocol.Cache
import AtomicaProofs.Lemmas.YFactors
import AtomicaProofs.Lemmas.Tables

namespace Atomica.C16

/-! ## Part 1 — the Covout cache -/
section Cache
open Atomica.Protocol.Cache

/-- a freshly constructed `Covout` (what `from_spreadsheet` builds) is coherent -/
theorem init_coherent (v : Visible) (s : State) (h : init v = some s) : CacheInv s := by
  unfold init at h
  split at h
  · cases h; rfl
  · cases h

/-- exporting and re-importing yields a coherent object with the same visible data -/
theorem reimport_coherent (s : State) : CacheInv (reimport s) ∧ (reimport s).visible = s.visible :=
  ⟨rfl, rfl⟩

theorem step_spec_coherent (op : Op) (s : State) (h : CacheInv s) : CacheInv (stepSpec op s) := by
  cases op with
  | copy => exact h
  | updateOutcomes =>
      unfold CacheInv at *
      simp only [stepSpec]
      rw [h]
      rfl
  | removeProgram n => rfl
  | setBaseline x => rfl
  | setOutcome n x => rfl

/-- `cache_coherent`: with every library operation performing the `update_outcomes` the property needs, the invariant
    `cache = derive visible` holds after **every** sequence of operations (any length, any order). -/
theorem cache_coherent (ops : List Op) (s : State) (h : CacheInv s) : CacheInv (runSpec ops s) := by
  induction ops generalizing s with
  | nil => exact h
  | cons op ops ih =>
      simp only [runSpec, List.foldl_cons]
      exact ih _ (step_spec_coherent op s h)

/-- `cache_coherent_partial`: as the code is written, only copying, `update_outcomes()` and zero-uncertainty sampling
    preserve the invariant.  (Full statement — for every `op` — is false: see the witnesses below.) -/
theorem cache_coherent_partial (op : Op) (s : State) (hs : op.safe = true) (h : CacheInv s) :
    CacheInv (stepCurrent op s) := by
  cases op with
  | copy => exact h
  | updateOutcomes =>
      unfold CacheInv at *
      simp only [stepCurrent]
      rw [h]
      rfl
  | removeProgram n => simp [Op.safe] at hs
  | setBaseline x => simp [Op.safe] at hs
  | setOutcome n x => simp [Op.safe] at hs

theorem step_current_eq_spec (op : Op) (s : State) (hs : op.safe = true) : stepCurrent op s = stepSpec op s := by
  cases op with
  | copy => rfl
  | updateOutcomes => rfl
  | removeProgram n => simp [Op.safe] at hs
  | setBaseline x => simp [Op.safe] at hs
  | setOutcome n x => simp [Op.safe] at hs

/-- on sequences of cache-preserving operations the code and the specification coincide -/
theorem current_eq_spec_on_safe (ops : List Op) (s : State) (hs : ∀ op ∈ ops, op.safe = true) :
    runCurrent ops s = runSpec ops s := by
  induction ops generalizing s with
  | nil => rfl
  | cons op ops ih =>
      simp only [runCurrent, runSpec, List.foldl_cons]
      rw [step_current_eq_spec op s (hs op (by simp))]
      exact ih _ (fun o ho => hs o (by simp [ho]))

/-- `behaves_as_visible`: under the invariant the outcome is a function of the visible data only -/
theorem behaves_as_visible (s₁ s₂ : State) (h₁ : CacheInv s₁) (h₂ : CacheInv s₂) (hv : s₁.visible = s₂.visible)
    (cov : List (String × Rat)) : outcome s₁ cov = outcome s₂ cov := by
  have : s₁ = s₂ := by
    cases s₁; cases s₂
    simp only [CacheInv] at h₁ h₂
    simp only at hv
    subst hv
    rw [h₁, h₂]
  rw [this]

/-- … so after any sequence of (specification-shaped) operations the object simulates exactly like the object rebuilt
    from its own exported spreadsheet -/
theorem behaves_as_reimport (ops : List Op) (s : State) (h : CacheInv s) (cov : List (String × Rat)) :
    outcome (runSpec ops s) cov = outcome (reimport (runSpec ops s)) cov :=
  behaves_as_visible _ _ (cache_coherent ops s h) (reimport_coherent _).1 (reimport_coherent _).2.symm cov

/-- the code never touches `_interactions`, and never the interaction string -/
theorem current_keeps_interactions (ops : List Op) (s : State) :
    (runCurrent ops s).cache.inter = s.cache.inter ∧ (runCurrent ops s).visible.inter = s.visible.inter := by
  induction ops generalizing s with
  | nil => exact ⟨rfl, rfl⟩
  | cons op ops ih =>
      simp only [runCurrent, List.foldl_cons]
      have h := ih (stepCurrent op s)
      simp only [runCurrent] at h
      rw [h.1, h.2]
      cases op <;> exact ⟨rfl, rfl⟩

/-- What a minimal repair needs: calling `update_outcomes()` after the edit restores the invariant **when the Covout has
    no explicit interaction outcomes** … -/
theorem update_outcomes_repairs (v : Visible) (ops : List Op) (hno : v.inter = []) :
    CacheInv (stepCurrent .updateOutcomes (runCurrent ops ⟨v, derive v⟩)) := by
  obtain ⟨hc, hv⟩ := current_keeps_interactions ops ⟨v, derive v⟩
  generalize runCurrent ops ⟨v, derive v⟩ = s at hc hv
  have hc' : s.cache.inter = [] := by rw [hc]; simp [derive, updateOutcomes, hno]
  have hv' : s.visible.inter = [] := by rw [hv]; exact hno
  show updateOutcomes s.visible s.cache.inter = derive s.visible
  rw [hc']
  unfold derive
  rw [hv']
  rfl

/-! ### kernel-checked witnesses: the operations as the code performs them break the invariant and the behaviour -/

def w0 : Visible := { baseline := 1/10, progs := [("A", 1/2), ("B", 3/10)], inter := [], covInt := .additive }
def s0 : State := ⟨w0, derive w0⟩

example : CacheInv s0 := by decide +kernel

/-- D7: `ProgramSet.remove_program` leaves `_cached_progs` / `_deltas` untouched -/
theorem remove_program_breaks : ¬ CacheInv (stepCurrent (.removeProgram "A") s0) := by decide +kernel

/-- … and `get_outcome` then looks up the removed program in the coverage dict (KeyError) while the rebuilt object works -/
theorem remove_program_keyerror :
    outcome (stepCurrent (.removeProgram "A") s0) [("B", 1/2)] = .error .keyError
    ∧ outcome (reimport (stepCurrent (.removeProgram "A") s0)) [("B", 1/2)] = .ok (1/5) := by decide +kernel

/-- D18: `reconciliation._update_progset` writes `baseline` / `progs` without `update_outcomes` -/
theorem update_progset_breaks :
    ¬ CacheInv (stepCurrent (.setBaseline (1/5)) s0) ∧ ¬ CacheInv (stepCurrent (.setOutcome "B" (2/5)) s0) := by
  decide +kernel

/-- … and the returned program set gives other outcomes than the one rebuilt from its own export -/
theorem update_progset_changes_outcome :
    outcome (stepCurrent (.setBaseline (1/5)) s0) [("A", 1/2), ("B", 1/4)] = .ok (9/20)
    ∧ outcome (reimport (stepCurrent (.setBaseline (1/5)) s0)) [("A", 1/2), ("B", 1/4)] = .ok (3/8) := by decide +kernel

def w1 : Visible := { w0 with inter := [(["A", "B"], 7/10)] }

/-- … and with an explicit interaction outcome even a following `update_outcomes()` does not repair a changed baseline,
    because `_interactions` holds differences to the baseline at construction time -/
theorem update_outcomes_does_not_repair_interactions :
    ¬ CacheInv (stepCurrent .updateOutcomes (stepCurrent (.setBaseline (1/5)) ⟨w1, derive w1⟩)) := by decide +kernel

/-- removing a program that an interaction term names leaves an export that `Covout.__init__` rejects -/
theorem remove_program_leaves_bad_interaction :
    interOK (stepCurrent (.removeProgram "A") ⟨w1, derive w1⟩).visible = false
    ∧ interOK (stepSpec (.removeProgram "A") ⟨w1, derive w1⟩).visible = true := by decide +kernel

end Cache

/-! ## Part 2 — the y-factor table -/
section YFactors
open Atomica.Tables.YF

/-- `yfactor_roundtrip`: loading the file a parameter set wrote restores exactly that parameter set's y-factors. -/
theorem yfactor_roundtrip (p : ParSet) (h : WFp p) : load (save p) p = .ok p := by
  have hd : hasDup (save p) = false := by
    unfold hasDup
    rw [save_keys]
    simpa using h.1
  unfold load
  simp only [hd, Bool.false_eq_true, if_false]
  apply loadRows_self
  intro r hr
  obtain ⟨e, he, rfl⟩ := List.mem_map.mp hr
  obtain ⟨i, hi⟩ := List.mem_iff_getElem?.mp he
  exact ⟨i, e, find_own p h i e hi, hi, applyCells_own e _ (h.2.2 e he)⟩

/-- `yfactor_transfer` (stronger): the file written for `p`, loaded into **any** parameter set of the same shape (same
    entries and populations — e.g. the parameter set rebuilt from the re-imported databook), gives exactly `p`. -/
theorem yfactor_transfer (p p' : ParSet) (h : WFp p) (hy : ∀ e ∈ p, (e.y.map (·.1)).Nodup) (hs : SameShape p p') :
    load (save p) p' = .ok p := load_save_transfer p p' h hy hs

/-- `load_skips_unknown`: "If y-factors are present in the spreadsheet and not in the ParameterSet then they will be
    skipped" — the rows that `get_par` does not find can be deleted from the file without changing the result
    (in particular they raise nothing, wherever they stand). -/
theorem load_skips_unknown (t : Table) (p : ParSet) (hd : hasDup t = false) :
    load t p = load (t.filter (isKnown p)) p := by
  have hd' : hasDup (t.filter (isKnown p)) = false := by
    unfold hasDup at *
    simp only [decide_eq_false_iff_not, not_not] at *
    exact List.Nodup.sublist (List.Sublist.map keyOf List.filter_sublist) hd
  unfold load
  simp only [hd, hd', Bool.false_eq_true, if_false]
  exact loadRows_filter_known t p p rfl

/-- `load_keeps_missing` (entries): "If y-factors are missing in the spreadsheet, the existing values will be
    maintained" — an entry that no row addresses is unchanged … -/
theorem load_keeps_missing (t : Table) (p p' : ParSet) (i : Nat) (h : load t p = .ok p')
    (hno : ∀ r ∈ t, find p r.par r.pop ≠ .entry i) : p'[i]? = p[i]? := by
  unfold load at h
  split at h
  · cases h
  · exact loadRows_keeps t p p' i h hno

/-- … (cells) and within an addressed entry, a population whose cell is blank keeps its y-factor, and the meta factor is
    kept when its cell is blank -/
theorem load_keeps_blank (e : Entry) (cells : List (String × Option Rat)) (k : String)
    (h : ∀ c ∈ cells, c.1 = k → c.2 = none) :
    (applyCells e cells).y.lookup k = e.y.lookup k ∧ (k = metaCol → (applyCells e cells).metaY = e.metaY) :=
  applyCells_keeps e cells k h

/-- loading never adds, removes or renames entries or populations -/
theorem load_preserves_shape (t : Table) (p p' : ParSet) (h : load t p = .ok p') : keys p' = keys p := by
  unfold load at h
  split at h
  · cases h
  · exact loadRows_keys t p p' h

/-! non-vacuity and the defect D6 -/

def yp : ParSet :=
  [ { par := "b_rate", pop := none, metaY := 1, y := [("0-4", 1), ("5-14", 2)] },
    { par := "age", pop := some "0-4", metaY := 3/2, y := [("5-14", 1/2)] } ]

example : WFp yp := by decide +kernel
example : load (save yp) yp = .ok yp := yfactor_roundtrip yp (by decide +kernel)

def yp' : ParSet := yp.map fun e => { e with metaY := 7, y := e.y.map fun kv => (kv.1, 9) }

example : load (save yp) yp' = .ok yp :=
  yfactor_transfer yp yp' (by decide +kernel) (by decide +kernel) (by decide +kernel)

def unknownRow : TRow := { par := "zzz", pop := none, cells := [(metaCol, some 2)] }

/-- D6: as the code is written, an unknown entry that precedes every known one raises `UnboundLocalError`, whereas the
    documented behaviour (and `load`) skips it -/
theorem load_current_unbound :
    loadCurrent (unknownRow :: save yp) yp = .error .unbound ∧ load (unknownRow :: save yp) yp = .ok yp := by
  decide +kernel

/-- … the same entry at the end of the file is skipped by the code too -/
theorem load_current_unknown_last : loadCurrent (save yp ++ [unknownRow]) yp = .ok yp := by decide +kernel

end YFactors

/-! ## Part 3 — the TimeDependentValuesEntry table -/
section TDVE
open Atomica.Tables

/-- `tdve_roundtrip`: for a well-formed entry (`Tables.WF`: names stripped, attribute headings that read back as
    themselves with "Provenance" first, strictly increasing year vector, every series dated inside the year vector,
    units normalised, no value behind a switched-off column, at least one value column) reading back what `write`
    wrote gives the entry itself up to the three layout flags (`canon` records which optional columns exist). -/
theorem tdve_roundtrip (e : TDVE) (h : WF e) : decode (encode e) = .ok (canon e) := decode_encode e h

/-- … and `canon` touches nothing that the property calls content: name, years, attribute headings, and every row
    (series name, values, years, assumption, uncertainty, units, attribute values, order of rows) are unchanged. -/
theorem tdve_content (e : TDVE) :
    (canon e).name = e.name ∧ (canon e).tvec = e.tvec ∧ (canon e).attrNames = e.attrNames ∧ (canon e).rows = e.rows :=
  ⟨rfl, rfl, rfl, rfl⟩

/-- `tdve_idempotent`: a second round trip is the identity — the re-read entry is written to the same cells, is
    well-formed again, reads back as itself, and `canon` has nothing left to change. -/
theorem tdve_idempotent (e : TDVE) (h : WF e) :
    encode (canon e) = encode e ∧ WF (canon e) ∧ decode (encode (canon e)) = .ok (canon e) ∧ canon (canon e) = canon e := by
  have hrows := h.2.2.2.2.2.2.2
  refine ⟨encode_canon e hrows, wf_canon e h, ?_, canon_idem e hrows⟩
  rw [encode_canon e hrows]
  exact decode_encode e h

/-! non-vacuity: a databook-style table and a progbook-style table are well-formed -/

def eData : TDVE :=
  { name := "Number of deaths", tvec := [2000, 2001, 2003], attrNames := ["Provenance", "Source"],
    rows := [ { name := "0-4", ts := { pts := [(2000, 15/2), (2003, 8)], units := some "number", assumption := none,
                                       sigma := some (1/10) }, attrs := [.str "WHO", .blank] },
              { name := "5-14", ts := { pts := [], units := some "number", assumption := some 3, sigma := none },
                attrs := [.blank, .num 2019] } ],
    writeUnits := some true, writeUnc := some true, writeAssump := some true, ahead := .constant }

example : WF eData := by decide +kernel
example : decode (encode eData) = .ok (canon eData) := tdve_roundtrip eData (by decide +kernel)

def eSpend : TDVE :=
  { name := "BCG", tvec := [], attrNames := ["Provenance"],
    rows := [ { name := "Annual spend", ts := { pts := [], units := some "$/year", assumption := some 1000, sigma := none }, attrs := [.blank] },
              { name := "Unit cost", ts := { pts := [], units := some "$/person (one-off)", assumption := some 12, sigma := none }, attrs := [.blank] } ],
    writeUnits := some true, writeUnc := some true, writeAssump := some true, ahead := .assumption }

example : WF eSpend := by decide +kernel

/-- the reader as the code is written rejects this table (its only value column is headed "Assumption" and there are
    no year columns), the specification-shaped reader returns it -/
theorem tdve_assumption_heading_witness :
    decodeCurrent (encode eSpend) = .error .noValues ∧ decode (encode eSpend) = .ok (canon eSpend) := by
  decide +kernel

/-- `tdve_drop_witness`: the hypothesis "series dated inside the year vector" is forced — `write` silently drops a
    value dated outside `tvec` (here 2005 with `tvec = [2000]`) -/
def eDrop : TDVE :=
  { name := "x", tvec := [2000], attrNames := ["Provenance"],
    rows := [ { name := "pop", ts := { pts := [(2000, 1), (2005, 2)], units := some "number", assumption := none, sigma := none },
                attrs := [.blank] } ],
    writeUnits := some true, writeUnc := none, writeAssump := none, ahead := .constant }

theorem tdve_drop_witness :
    ¬ WF eDrop ∧ (decode (encode eDrop)).toOption.map (fun e => e.rows.map (·.ts.pts)) = some [[(2000, 1)]] := by
  decide +kernel

/-- a missing unit is written as "N.A." and read back as the string "N.A." (why `WF` asks for normalised units) -/
theorem tdve_units_none_witness :
    (decode (encode { eDrop with tvec := [2000, 2005], rows := eDrop.rows.map fun r => { r with ts := { r.ts with units := none } } })).toOption.map
      (fun e => e.rows.map (·.ts.units)) = some [some "N.A."] := by
  decide +kernel

/-- `cell_get_number` as written never treats "N.A." as an empty cell, although its docstring says so -/
theorem cell_get_number_na_witness :
    cellGetNumber (.str "N.A.") = .error .needNumber ∧ cellGetNumberDoc (.str "N.A.") = .ok none := by decide +kernel

end TDVE

end Atomica.C16
