/-
  C14 — Constrained allocations meet the total and every bound, or are rejected.
  Theorems about `Atomica.Alloc` (harness/props/c14.py compares the real `constrain_sum_bounded`,
  `TotalSpendConstraint`, `SpendingPackageAdjustment` with this model, SLSQP's answer being an oracle input).
  Every theorem holds for an ARBITRARY solver answer.
-/
import AtomicaModel.Alloc
import AtomicaProofs.Lemmas.Alloc
import Mathlib.Tactic.Linarith
import Mathlib.Tactic.Ring
import Mathlib.Tactic.FieldSimp
import Mathlib.Tactic.NormNum

namespace Atomica.C14
open Atomica Atomica.Alloc

/-- every entry within its bounds -/
def Within (n : Nat) (lb : Nat → Rat) (ub : Nat → UB) (y : Nat → Rat) : Prop :=
  ∀ i, i < n → lb i ≤ y i ∧ leUB (y i) (ub i) = true

/-- the normalised proposal sums to 1, or the proposal sums to 0 and is left as it is -/
theorem normalise_sum (n : Nat) (x : Nat → Rat) :
    sumTo n (normalise n x) = 1 ∨ sumTo n (normalise n x) = 0 := by
  unfold normalise
  rw [sumTo_div]
  by_cases hz : sumTo n x = 0
  · right; simp [hz]
  · left; simp only [hz, if_false]; exact div_self hz

theorem early_post (close : Rat → Rat → Bool) (h01 : close 0 1 = false)
    (n : Nat) (x : Nat → Rat) (s : Rat) (lb : Nat → Rat) (ub : Nat → UB) (hs : 0 < s)
    (h : earlyOK close n (normalise n x) (fun i => lb i / s) (fun i => divUB (ub i) s) = true) :
    Within n lb ub (fun i => normalise n x i * s) ∧ sumTo n (fun i => normalise n x i * s) = s := by
  unfold earlyOK at h
  rw [Bool.and_eq_true] at h
  obtain ⟨hall, hcl⟩ := h
  constructor
  · intro i hi
    have := (allTo_iff n _).mp hall i hi
    rw [Bool.and_eq_true, decide_eq_true_eq] at this
    exact ⟨scale_lo _ _ _ hs this.1, scale_hi _ _ _ hs this.2⟩
  · rw [sumTo_mul]
    rcases normalise_sum n x with h1 | h0
    · rw [h1, one_mul]
    · rw [h0, h01] at hcl
      exact absurd hcl Bool.false_ne_true

theorem finish_post (close : Rat → Rat → Bool) (A R : Rat)
    (hclose : ∀ a b, close a b = true → |a - b| ≤ A + R * |b|)
    (n : Nat) (s : Rat) (lb : Nat → Rat) (ub : Nat → UB) (a : SolverAns)
    (hs : 0 < s) (hb : ∀ i, i < n → leUB (lb i) (ub i) = true)
    (b : Branch) (y : Nat → Rat)
    (h : finish close n s (fun i => lb i / s) (fun i => divUB (ub i) s) a = .ok b y) :
    b = .solver ∧ Within n lb ub y ∧ |sumTo n y - s| ≤ A + R * s := by
  unfold finish at h
  split at h
  · exact Result.noConfusion h
  · simp only at h
    split at h
    · rename_i hcl
      simp only [Result.ok.injEq] at h
      obtain ⟨hb', hy⟩ := h
      subst hy
      refine ⟨hb'.symm, ?_, ?_⟩
      · intro i hi
        constructor
        · exact scale_lo _ _ _ hs (clip_ge _ _ _ (leUB_div _ _ _ hs (hb i hi)))
        · exact scale_hi _ _ _ hs (clip_le _ _ _)
      · have := hclose _ _ hcl
        rwa [abs_of_pos hs] at this
    · exact Result.noConfusion h

/-- generic post-condition of the body of `constrain_sum_bounded` for a closeness test with tolerance `A + R·|b|` -/
theorem constrainWith_post (close : Rat → Rat → Bool) (A R : Rat) (hA : 0 ≤ A) (hR : 0 ≤ R)
    (hclose : ∀ a b, close a b = true → |a - b| ≤ A + R * |b|)
    (h01 : close 0 1 = false)
    (n : Nat) (x : Nat → Rat) (s : Rat) (lb : Nat → Rat) (ub : Nat → UB) (solver : Solver)
    (hs : 0 < s) (hb : ∀ i, i < n → leUB (lb i) (ub i) = true)
    (b : Branch) (y : Nat → Rat) (h : constrainWith close n x s lb ub solver = .ok b y) :
    Within n lb ub y ∧ |sumTo n y - s| ≤ A + R * s ∧ (b = .early → sumTo n y = s) := by
  unfold constrainWith at h
  simp only at h
  split at h
  · rename_i hc
    simp only [Result.ok.injEq] at h
    obtain ⟨_, hy⟩ := h
    subst hy
    obtain ⟨hw, hsum⟩ := early_post close h01 n x s lb ub hs hc
    refine ⟨hw, ?_, fun _ => hsum⟩
    rw [hsum, sub_self, abs_zero]
    have : 0 ≤ R * s := mul_nonneg hR hs.le
    linarith
  · obtain ⟨hb', hw, hsum⟩ := finish_post close A R hclose n s lb ub _ hs hb b y h
    exact ⟨hw, hsum, fun he => by rw [hb'] at he; exact Branch.noConfusion he⟩


theorem closeSpec_spec (a b : Rat) (h : closeSpec a b = true) : |a - b| ≤ 0 + tolSpec * |b| := by
  unfold closeSpec at h
  rw [decide_eq_true_eq, absQ_eq_abs, absQ_eq_abs] at h
  linarith

theorem closeNp_spec (a b : Rat) (h : closeNp a b = true) : |a - b| ≤ 1 / 100000000 + 1 / 100000 * |b| := by
  unfold closeNp at h
  rwa [decide_eq_true_eq, absQ_eq_abs, absQ_eq_abs] at h

theorem closeSpec_01 : closeSpec 0 1 = false := by
  unfold closeSpec absQ tolSpec; norm_num

theorem closeNp_01 : closeNp 0 1 = false := by
  unfold closeNp absQ; norm_num

/-- **constrain_post** (the property's tolerance).  Whatever the solver answers, an allocation returned by the
    specification-shaped `constrain` lies within every bound and sums to the total to 1e-6 relative
    (exactly, on the early-return and `s = 0` branches). -/
theorem constrain_post (n : Nat) (x : Nat → Rat) (s : Rat) (lb : Nat → Rat) (ub : Nat → UB) (solver : Solver)
    (hs : 0 ≤ s) (hb : ∀ i, i < n → leUB (lb i) (ub i) = true)
    (b : Branch) (y : Nat → Rat) (h : constrain n x s lb ub solver = .ok b y) :
    Within n lb ub y ∧ |sumTo n y - s| ≤ 1 / 1000000 * s ∧ (b ≠ .solver → sumTo n y = s) := by
  unfold constrain at h
  split at h
  · rename_i hz
    split at h
    · rename_i hall
      simp only [Result.ok.injEq] at h
      obtain ⟨_, hy⟩ := h
      subst hy
      refine ⟨?_, ?_, fun _ => by rw [sumTo_zero, hz]⟩
      · intro i hi
        have := (allTo_iff n _).mp hall i hi
        rw [Bool.and_eq_true, decide_eq_true_eq] at this
        exact this
      · rw [sumTo_zero, hz]; norm_num
    · exact Result.noConfusion h
  · rename_i hz
    have hs' : 0 < s := lt_of_le_of_ne hs (Ne.symm hz)
    obtain ⟨hw, hsum, he⟩ := constrainWith_post closeSpec 0 tolSpec (le_refl 0) (by unfold tolSpec; norm_num)
      closeSpec_spec closeSpec_01 n x s lb ub solver hs' hb b y h
    refine ⟨hw, ?_, ?_⟩
    · unfold tolSpec at hsum; linarith
    · intro hne
      cases b with
      | early => exact he rfl
      | solver => exact absurd rfl hne
      | zero =>
        -- `constrainWith` never answers with the `zero` branch
        exfalso
        unfold constrainWith at h
        simp only at h
        split at h
        · simp only [Result.ok.injEq] at h; exact Branch.noConfusion h.1
        · have := (finish_post closeSpec 0 tolSpec closeSpec_spec n s lb ub _ hs' hb _ y h).1
          exact Branch.noConfusion this

/-- **constrain_current_post**: what the code's own assertion (numpy.isclose, 1e-8 + 1e-5·s) guarantees. -/
theorem constrain_current_post (n : Nat) (x : Nat → Rat) (s : Rat) (lb : Nat → Rat) (ub : Nat → UB) (solver : Solver)
    (hs : 0 < s) (hb : ∀ i, i < n → leUB (lb i) (ub i) = true)
    (b : Branch) (y : Nat → Rat) (h : constrainCurrent n x s lb ub solver = .ok b y) :
    Within n lb ub y ∧ |sumTo n y - s| ≤ 1 / 100000000 + 1 / 100000 * s ∧ (b = .early → sumTo n y = s) := by
  unfold constrainCurrent at h
  rw [if_neg (ne_of_gt hs)] at h
  exact constrainWith_post closeNp _ _ (by norm_num) (by norm_num) closeNp_spec closeNp_01 n x s lb ub solver hs hb b y h

/-- **constrain_post_1e6_partial**: the property's 1e-6 bound holds for the current code on the early-return branch
    and whenever the clipped solver answer happens to be within it.  The full statement
    `constrainCurrent … = ok b y → |Σy − s| ≤ 1e-6·s` is FALSE (see `constrain_gap`). -/
theorem constrain_post_1e6_partial (n : Nat) (x : Nat → Rat) (s : Rat) (lb : Nat → Rat) (ub : Nat → UB) (solver : Solver)
    (hs : 0 < s) (hb : ∀ i, i < n → leUB (lb i) (ub i) = true)
    (y : Nat → Rat) (h : constrainCurrent n x s lb ub solver = .ok .early y) :
    |sumTo n y - s| ≤ 1 / 1000000 * s := by
  have := (constrain_current_post n x s lb ub solver hs hb .early y h).2.2 rfl
  rw [this, sub_self, abs_zero]
  have : 0 ≤ 1 / 1000000 * s := by positivity
  linarith


/-! ### The tolerance gap: a kernel-checked witness, replayed on the implementation by the harness -/

/-- observable summary of a result: class, and the returned sum -/
def tag : Result → Nat
  | .ok .early _ => 0 | .ok .solver _ => 1 | .ok .zero _ => 2 | .failed => 3 | .assertFail => 4
def total (n : Nat) : Result → Option Rat
  | .ok _ y => some (sumTo n y)
  | _ => none

def gapX : Nat → Rat := fun i => [0, 600, 400].getD i 0
def gapLb : Nat → Rat := fun i => [1/200, 0, 0].getD i 0
def gapUb : Nat → UB := fun _ => none
/-- what SLSQP answers on this input (scipy 1.17: the start is clipped into the bounds and accepted, constraint residual 5e-6 < ftol) -/
def gapAns : SolverAns := { success := true, x := fun i => [1/200000, 3/5, 2/5].getD i 0 }

/-- **constrain_gap**: proposal (0, 600, 400), total 1000, lower bounds (0.005, 0, 0): with the recorded solver answer
    the current code returns (0.005, 600, 400), whose sum 1000.005 is off by 5e-6 relative (> 1e-6), while the
    specification-shaped function rejects it. -/
theorem constrain_gap :
    tag (constrainCurrent 3 gapX 1000 gapLb gapUb (constSolver gapAns)) = 1 ∧
    total 3 (constrainCurrent 3 gapX 1000 gapLb gapUb (constSolver gapAns)) = some (1000005 / 1000) ∧
    ¬ (|(1000005 / 1000 : Rat) - 1000| ≤ 1 / 1000000 * 1000) ∧
    tag (constrain 3 gapX 1000 gapLb gapUb (constSolver gapAns)) = 4 := by
  refine ⟨by decide +kernel, by decide +kernel, by norm_num, by decide +kernel⟩


theorem closeSpec_11 : closeSpec 1 1 = true := by
  unfold closeSpec absQ tolSpec; norm_num

theorem closeNp_11 : closeNp 1 1 = true := by
  unfold closeNp absQ; norm_num

theorem normalise_of_sum (n : Nat) (x : Nat → Rat) (s : Rat) (hs : s ≠ 0) (hx : sumTo n x = s) :
    normalise n x = fun i => x i / s := by
  unfold normalise
  rw [hx, if_neg hs]

/-- a proposal that already sums to the total inside the bounds passes the early-return test (any reflexive closeness) -/
theorem early_of_feasible (close : Rat → Rat → Bool) (h11 : close 1 1 = true)
    (n : Nat) (x : Nat → Rat) (s : Rat) (lb : Nat → Rat) (ub : Nat → UB)
    (hs : 0 < s) (hx : sumTo n x = s) (hw : Within n lb ub x) :
    earlyOK close n (normalise n x) (fun i => lb i / s) (fun i => divUB (ub i) s) = true := by
  rw [normalise_of_sum n x s (ne_of_gt hs) hx]
  unfold earlyOK
  rw [Bool.and_eq_true]
  constructor
  · rw [allTo_iff]
    intro i hi
    obtain ⟨h1, h2⟩ := hw i hi
    rw [Bool.and_eq_true, decide_eq_true_eq]
    exact ⟨div_le_div_of_nonneg_right h1 hs.le, leUB_div _ _ _ hs h2⟩
  · rw [sumTo_div, hx, div_self (ne_of_gt hs)]
    exact h11

/-- **constrain_idempotent**: an allocation that already sums to the total within the bounds is returned unchanged
    (the solver is not consulted). -/
theorem constrain_idempotent (n : Nat) (x : Nat → Rat) (s : Rat) (lb : Nat → Rat) (ub : Nat → UB) (solver : Solver)
    (hs : 0 < s) (hx : sumTo n x = s) (hw : Within n lb ub x) :
    ∃ y, constrain n x s lb ub solver = .ok .early y ∧ ∀ i, y i = x i := by
  refine ⟨fun i => normalise n x i * s, ?_, ?_⟩
  · unfold constrain
    rw [if_neg (ne_of_gt hs)]
    unfold constrainWith
    simp only
    rw [if_pos (early_of_feasible closeSpec closeSpec_11 n x s lb ub hs hx hw)]
  · intro i
    rw [normalise_of_sum n x s (ne_of_gt hs) hx]
    simp only
    field_simp

/-- the same for the code as it is (`s > 0`) -/
theorem constrain_current_idempotent (n : Nat) (x : Nat → Rat) (s : Rat) (lb : Nat → Rat) (ub : Nat → UB) (solver : Solver)
    (hs : 0 < s) (hx : sumTo n x = s) (hw : Within n lb ub x) :
    ∃ y, constrainCurrent n x s lb ub solver = .ok .early y ∧ ∀ i, y i = x i := by
  refine ⟨fun i => normalise n x i * s, ?_, ?_⟩
  · unfold constrainCurrent
    rw [if_neg (ne_of_gt hs)]
    unfold constrainWith
    simp only
    rw [if_pos (early_of_feasible closeNp closeNp_11 n x s lb ub hs hx hw)]
  · intro i
    rw [normalise_of_sum n x s (ne_of_gt hs) hx]
    simp only
    field_simp

/-- **constrain_idempotent_zero**: total 0, spending lower bounds (≥ 0): an allocation already satisfying the
    constraints is all zero and is returned unchanged by the specification-shaped function. -/
theorem constrain_idempotent_zero (n : Nat) (x : Nat → Rat) (lb : Nat → Rat) (ub : Nat → UB) (solver : Solver)
    (hlb : ∀ i, i < n → 0 ≤ lb i) (hx : sumTo n x = 0) (hw : Within n lb ub x) :
    ∃ y, constrain n x 0 lb ub solver = .ok .zero y ∧ ∀ i, i < n → y i = x i := by
  have hx0 : ∀ i, i < n → x i = 0 :=
    sumTo_eq_zero n x (fun i hi => le_trans (hlb i hi) (hw i hi).1) hx
  refine ⟨fun _ => 0, ?_, fun i hi => (hx0 i hi).symm⟩
  unfold constrain
  rw [if_pos rfl, if_pos]
  rw [allTo_iff]
  intro i hi
  obtain ⟨h1, h2⟩ := hw i hi
  rw [hx0 i hi] at h1 h2
  rw [Bool.and_eq_true, decide_eq_true_eq]
  exact ⟨h1, h2⟩

/-- **s_zero**: the code as it is divides by the total: with total 0 every input ends in the final assertion
    (NaN sum), even the all-zero allocation that already satisfies the constraints. -/
theorem s_zero (n : Nat) (x : Nat → Rat) (lb : Nat → Rat) (ub : Nat → UB) (solver : Solver) :
    tag (constrainCurrent n x 0 lb ub solver) = 4 := by
  unfold constrainCurrent
  rw [if_pos rfl]
  rfl

/-- … whereas the specification-shaped function returns the zero allocation (witness that the two differ) -/
example : tag (constrain 2 (fun _ => 0) 0 (fun _ => 0) (fun _ => none) (constSolver gapAns)) = 2 ∧
    tag (constrainCurrent 2 (fun _ => 0) 0 (fun _ => 0) (fun _ => none) (constSolver gapAns)) = 4 := by
  constructor <;> decide +kernel

/-- **constrain_signals**: for every input and every solver answer the outcome is an allocation satisfying the
    post-condition, or one of the two rejection signals — never an allocation violating the total or a bound. -/
theorem constrain_signals (n : Nat) (x : Nat → Rat) (s : Rat) (lb : Nat → Rat) (ub : Nat → UB) (solver : Solver)
    (hs : 0 ≤ s) (hb : ∀ i, i < n → leUB (lb i) (ub i) = true) :
    (∃ b y, constrain n x s lb ub solver = .ok b y ∧ Within n lb ub y ∧ |sumTo n y - s| ≤ 1 / 1000000 * s) ∨
    constrain n x s lb ub solver = .failed ∨ constrain n x s lb ub solver = .assertFail := by
  cases h : constrain n x s lb ub solver with
  | ok b y =>
    left
    obtain ⟨hw, hsum, _⟩ := constrain_post n x s lb ub solver hs hb b y h
    exact ⟨b, y, rfl, hw, hsum⟩
  | failed => right; left; rfl
  | assertFail => right; right; rfl

/-- a failing solver is always reported as `failed` once the early return does not apply (never an allocation) -/
theorem constrain_solver_failure (n : Nat) (x : Nat → Rat) (s : Rat) (lb : Nat → Rat) (ub : Nat → UB) (solver : Solver)
    (hs : s ≠ 0) (hf : ∀ a b c, (solver a b c).success = false) :
    (∃ y, constrain n x s lb ub solver = .ok .early y) ∨ constrain n x s lb ub solver = .failed := by
  unfold constrain
  rw [if_neg hs]
  unfold constrainWith
  simp only
  split
  · left; exact ⟨_, rfl⟩
  · right
    unfold finish
    rw [hf]
    rfl

/-- non-vacuity of `constrain_post` / `constrain_idempotent`: (1,2,3) with total 6 inside [0,∞) is returned as it is -/
example : tag (constrain 3 (fun i => [1, 2, 3].getD i 0) 6 (fun _ => 0) (fun _ => none) (constSolver gapAns)) = 0 ∧
    total 3 (constrain 3 (fun i => [1, 2, 3].getD i 0) 6 (fun _ => 0) (fun _ => none) (constSolver gapAns)) = some 6 := by
  constructor <;> decide +kernel

/-- non-vacuity of the solver branch: (0,0) with total 10 and solver answer (1/2,1/2) gives (5,5) -/
example : tag (constrain 2 (fun _ => 0) 10 (fun _ => 0) (fun _ => none)
      (constSolver { success := true, x := fun _ => 1/2 })) = 1 ∧
    total 2 (constrain 2 (fun _ => 0) 10 (fun _ => 0) (fun _ => none)
      (constSolver { success := true, x := fun _ => 1/2 })) = some 10 := by
  constructor <;> decide +kernel


/-! ### Feasibility pre-check -/

/-- sum of extended upper bounds over `0..n-1` -/
def sumUBTo : Nat → (Nat → UB) → UB
  | 0, _ => some 0
  | n + 1, ub => addUB (sumUBTo n ub) (ub n)

theorem checkYear_none (t : Nat) (total minS : Rat) (maxS : UB) :
    checkYear t total minS maxS = none ↔ minS ≤ total ∧ leUB total maxS = true := by
  unfold checkYear
  constructor
  · intro h
    split at h
    · cases h
    · split at h
      · cases h
      · rename_i h1 h2
        exact ⟨not_lt.mp h1, by simpa using h2⟩
  · rintro ⟨h1, h2⟩
    rw [if_neg (not_lt.mpr h1), h2]
    rfl

theorem sumLB_le_sumUB (n : Nat) (lb : Nat → Rat) (ub : Nat → UB)
    (hb : ∀ i, i < n → leUB (lb i) (ub i) = true) : leUB (sumTo n lb) (sumUBTo n ub) = true := by
  induction n with
  | zero => simp [sumTo, sumUBTo, leUB]
  | succ n ih =>
    have h1 := ih (fun i hi => hb i (Nat.lt_succ_of_lt hi))
    have h2 := hb n (Nat.lt_succ_self n)
    simp only [sumTo, sumUBTo]
    cases hu : sumUBTo n ub with
    | none => simp [addUB, leUB]
    | some a =>
      cases hv : ub n with
      | none => simp [addUB, leUB]
      | some c =>
        rw [hu] at h1; rw [hv] at h2
        simp only [leUB, decide_eq_true_eq, addUB] at h1 h2 ⊢
        linarith

/-- a point of the box has its sum between the sums of the bounds -/
theorem within_sum_bounds (n : Nat) (lb : Nat → Rat) (ub : Nat → UB) (y : Nat → Rat) (hw : Within n lb ub y) :
    sumTo n lb ≤ sumTo n y ∧ leUB (sumTo n y) (sumUBTo n ub) = true := by
  constructor
  · exact sumTo_le n lb y (fun i hi => (hw i hi).1)
  · exact sumLB_le_sumUB n y ub (fun i hi => (hw i hi).2)

/-- **precheck_exact** (⇐): when the total lies between the sum of the lower and the sum of the upper bounds the box
    meets the hyperplane — so a constraint the pre-check lets through is satisfiable. -/
theorem feasible_of_sums (n : Nat) (lb : Nat → Rat) (ub : Nat → UB)
    (hb : ∀ i, i < n → leUB (lb i) (ub i) = true) :
    ∀ s : Rat, sumTo n lb ≤ s → leUB s (sumUBTo n ub) = true → ∃ y, Within n lb ub y ∧ sumTo n y = s := by
  induction n with
  | zero =>
    intro s h1 h2
    simp only [sumTo, sumUBTo, leUB, decide_eq_true_eq] at h1 h2
    exact ⟨fun _ => 0, fun i hi => absurd hi (Nat.not_lt_zero i), by simp only [sumTo]; linarith⟩
  | succ n ih =>
    intro s h1 h2
    have hb' : ∀ i, i < n → leUB (lb i) (ub i) = true := fun i hi => hb i (Nat.lt_succ_of_lt hi)
    have hbn := hb n (Nat.lt_succ_self n)
    simp only [sumTo, sumUBTo] at h1 h2
    have hrest := sumLB_le_sumUB n lb ub hb'
    -- value given to the last entry, and what is left for the others
    have key : ∃ v : Rat, lb n ≤ v ∧ leUB v (ub n) = true ∧ sumTo n lb ≤ s - v ∧ leUB (s - v) (sumUBTo n ub) = true := by
      cases hv : ub n with
      | none =>
        refine ⟨s - sumTo n lb, by linarith, by simp [leUB], by linarith, ?_⟩
        simpa using hrest
      | some c =>
        rw [hv] at hbn
        simp only [leUB, decide_eq_true_eq] at hbn
        by_cases hc : c ≤ s - sumTo n lb
        · refine ⟨c, hbn, by simp [leUB], by linarith, ?_⟩
          cases hu : sumUBTo n ub with
          | none => simp [leUB]
          | some a =>
            rw [hu, hv] at h2
            simp only [addUB, leUB, decide_eq_true_eq] at h2 ⊢
            linarith
        · have hc' : s - sumTo n lb < c := not_le.mp hc
          refine ⟨s - sumTo n lb, by linarith, by simp only [leUB, decide_eq_true_eq]; linarith, by linarith, ?_⟩
          simpa using hrest
    obtain ⟨v, hv1, hv2, hv3, hv4⟩ := key
    obtain ⟨y', hw', hs'⟩ := ih hb' (s - v) hv3 hv4
    refine ⟨fun i => if i = n then v else y' i, ?_, ?_⟩
    · intro i hi
      by_cases hin : i = n
      · subst hin; simp only [if_true]; exact ⟨hv1, hv2⟩
      · simp only [if_neg hin]
        exact hw' i (lt_of_le_of_ne (Nat.lt_succ_iff.mp hi) hin)
    · simp only [sumTo, if_true]
      rw [sumTo_congr n _ y' (fun i hi => by simp only [if_neg (Nat.ne_of_lt hi)]), hs']
      ring

/-- **precheck_exact**: the pre-check criterion `Σlb ≤ total ≤ Σub` is exactly satisfiability of the constraint. -/
theorem precheck_exact (n : Nat) (lb : Nat → Rat) (ub : Nat → UB) (s : Rat)
    (hb : ∀ i, i < n → leUB (lb i) (ub i) = true) :
    (∃ y, Within n lb ub y ∧ sumTo n y = s) ↔ (sumTo n lb ≤ s ∧ leUB s (sumUBTo n ub) = true) := by
  constructor
  · rintro ⟨y, hw, hs⟩
    rw [← hs]
    exact within_sum_bounds n lb ub y hw
  · rintro ⟨h1, h2⟩
    exact feasible_of_sums n lb ub hb s h1 h2

/-- a year is constrained when no years were named or it is one of the named years -/
def Constrained (cs : ConSpec) (t : Nat) : Prop := cs.years = [] ∨ cs.years.contains t = true

def entriesAt (es : List Entry) (t : Nat) : List Entry := es.filter (·.year = t)
def minSpendOf (es : List Entry) (t : Nat) : Rat := listSum ((entriesAt es t).map relLo)
def maxSpendOf (es : List Entry) (t : Nat) : UB := (entriesAt es t).foldr (fun e acc => addUB (relHi e) acc) (some 0)

/-- the record of a constrained year holds exactly what the year's adjustments and the constraint specify -/
def RecordOf (cs : ConSpec) (es : List Entry) (yc : YearCon) : Prop :=
  totalFor cs es yc.year = some yc.total ∧ yc.minSpend = minSpendOf es yc.year ∧
  yc.maxSpend = maxSpendOf es yc.year ∧ yc.bounds = boundsOf (entriesAt es yc.year)

theorem hard_years_feasible (cs : ConSpec) (es : List Entry) :
    ∀ (ts : List Nat) (ycs : List YearCon), hardYears cs es ts = .ok ycs →
      (∀ yc, yc ∈ ycs → yc.minSpend ≤ yc.total ∧ leUB yc.total yc.maxSpend = true ∧ yc.year ∈ ts ∧
          Constrained cs yc.year ∧ RecordOf cs es yc) ∧
      (∀ t, t ∈ ts → Constrained cs t → ∃ yc, yc ∈ ycs ∧ yc.year = t) := by
  intro ts
  induction ts with
  | nil =>
    intro ycs h
    simp only [hardYears, Except.ok.injEq] at h
    subst h
    exact ⟨fun yc hyc => absurd hyc (List.not_mem_nil), fun t ht => absurd ht (List.not_mem_nil)⟩
  | cons t ts ih =>
    intro ycs h
    unfold hardYears at h
    split at h
    · -- year not constrained: skipped
      rename_i hskip
      obtain ⟨h1, h2⟩ := ih ycs h
      refine ⟨fun yc hyc => ?_, fun t' ht' hc => ?_⟩
      · obtain ⟨a, b, c, d⟩ := h1 yc hyc
        exact ⟨a, b, List.mem_cons_of_mem _ c, d⟩
      · rcases List.mem_cons.mp ht' with heq | hmem
        · subst heq
          rcases hc with hc | hc
          · exact absurd hc hskip.1
          · exact absurd hc hskip.2
        · exact h2 t' hmem hc
    · rename_i hcon
      have hcons : Constrained cs t := by
        unfold Constrained
        by_cases he : cs.years = []
        · exact Or.inl he
        · right
          by_contra hn
          exact hcon ⟨he, hn⟩
      split at h
      · cases h
      · rename_i total htot
        simp only at h
        split at h
        · cases h
        · rename_i hchk
          split at h
          · cases h
          · rename_i rest hrest
            simp only [Except.ok.injEq] at h
            subst h
            obtain ⟨h1, h2⟩ := ih rest hrest
            obtain ⟨hmin, hmax⟩ := (checkYear_none _ _ _ _).mp hchk
            refine ⟨fun yc hyc => ?_, fun t' ht' hc => ?_⟩
            · rcases List.mem_cons.mp hyc with heq | hmem
              · subst heq
                exact ⟨hmin, hmax, List.mem_cons_self, hcons, htot, rfl, rfl, rfl⟩
              · obtain ⟨a, b, c, d⟩ := h1 yc hmem
                exact ⟨a, b, List.mem_cons_of_mem _ c, d⟩
            · rcases List.mem_cons.mp ht' with heq | hmem
              · subst heq
                exact ⟨_, List.mem_cons_self, rfl⟩
              · obtain ⟨yc, hyc, hy⟩ := h2 t' hmem hc
                exact ⟨yc, List.mem_cons_of_mem _ hyc, hy⟩

/-- **hard_feasible**: if `get_hard_constraint` does not raise, every constrained year with adjustments got a record
    (holding the year's total, bounds and accumulated minimum/maximum spend) whose total lies between the accumulated
    minimum and maximum: `Σlb ≤ total ≤ Σub`. -/
theorem hard_feasible (cs : ConSpec) (es : List Entry) (ycs : List YearCon)
    (h : hardConstraint cs es = .ok ycs) :
    (∀ yc, yc ∈ ycs → yc.minSpend ≤ yc.total ∧ leUB yc.total yc.maxSpend = true ∧ RecordOf cs es yc) ∧
    (∀ t, t ∈ yearsOf es → Constrained cs t → ∃ yc, yc ∈ ycs ∧ yc.year = t) := by
  unfold hardConstraint at h
  simp only at h
  split at h
  · cases h
  · obtain ⟨h1, h2⟩ := hard_years_feasible cs es _ ycs h
    exact ⟨fun yc hyc => ⟨(h1 yc hyc).1, (h1 yc hyc).2.1, (h1 yc hyc).2.2.2.2⟩, h2⟩

/-- **hard_reports**: a constrained year whose total is below the minimum or above the maximum spend its adjustments
    allow makes `get_hard_constraint` raise (nothing is returned to optimise with). -/
theorem hard_reports (cs : ConSpec) (es : List Entry) (t : Nat) (total : Rat)
    (ht : t ∈ yearsOf es) (hc : Constrained cs t) (htot : totalFor cs es t = some total)
    (hbad : total < minSpendOf es t ∨ leUB total (maxSpendOf es t) = false) :
    ∃ err, hardConstraint cs es = .error err := by
  cases h : hardConstraint cs es with
  | error err => exact ⟨err, rfl⟩
  | ok ycs =>
    exfalso
    obtain ⟨h1, h2⟩ := hard_feasible cs es ycs h
    obtain ⟨yc, hyc, hy⟩ := h2 t ht hc
    obtain ⟨hmin, hmax, hrt, hrmin, hrmax, _⟩ := h1 yc hyc
    rw [hy] at hrt hrmin hrmax
    rw [htot] at hrt
    cases hrt
    rw [hrmin] at hmin
    rw [hrmax] at hmax
    rcases hbad with hb | hb
    · linarith
    · rw [hb] at hmax; cases hmax

def errOf {α : Type} : Except HardErr α → Option HardErr
  | .error e => some e
  | .ok _ => none

/-- non-vacuity: programs 0 and 1 in year 2020, minimum spends 3 + 3 > total 0 + 4: reported -/
example : errOf (hardConstraint { years := [], totals := [], bf := [1] }
    [ { year := 2020, item := 0, rel := false, lo := 3, hi := some 10, cur := 0 },
      { year := 2020, item := 1, rel := false, lo := 3, hi := some 10, cur := 4 } ]) = some (.unresolvableMin 2020) := by
  decide +kernel

/-! #### The bounds dictionary sums to the accumulators when no program is reached twice in a year -/

theorem foldl_dictSet (es : List Entry) :
    ∀ d : List (Nat × Rat × UB), (es.map (·.item)).Nodup → (∀ e, e ∈ es → ∀ p, p ∈ d → p.1 ≠ e.item) →
      es.foldl (fun d e => dictSet d e.item (relLo e, relHi e)) d = d ++ es.map (fun e => (e.item, relLo e, relHi e)) := by
  induction es with
  | nil => intro d _ _; simp
  | cons e es ih =>
    intro d hnd hdis
    rw [List.map_cons, List.nodup_cons] at hnd
    have hnot : d.any (fun p => decide (p.1 = e.item)) = false := by
      rw [List.any_eq_false]
      intro p hp
      simpa using hdis e List.mem_cons_self p hp
    simp only [List.foldl_cons, List.map_cons]
    have hset : dictSet d e.item (relLo e, relHi e) = d ++ [(e.item, relLo e, relHi e)] := by
      unfold dictSet
      rw [hnot]
      rfl
    rw [hset, ih _ hnd.2]
    · simp
    · intro e' he' p hp
      rcases List.mem_append.mp hp with hp | hp
      · exact hdis e' (List.mem_cons_of_mem _ he') p hp
      · simp only [List.mem_singleton] at hp
        subst hp
        intro heq
        have heq' : e.item = e'.item := heq
        apply hnd.1
        rw [heq']
        exact List.mem_map_of_mem (f := fun x : Entry => x.item) he'

theorem boundsOf_nodup (es : List Entry) (hnd : (es.map (·.item)).Nodup) :
    boundsOf es = es.map (fun e => (e.item, relLo e, relHi e)) := by
  unfold boundsOf
  rw [foldl_dictSet es [] hnd (fun _ _ p hp => absurd hp List.not_mem_nil)]
  simp

/-- **hard_bounds_sum**: when every program / package is reached by one adjustment in the year (the documented usage),
    the recorded bounds sum to the accumulated minimum and maximum, so `Σ lb ≤ total ≤ Σ ub` over the recorded bounds. -/
theorem hard_bounds_sum (cs : ConSpec) (es : List Entry) (ycs : List YearCon)
    (h : hardConstraint cs es = .ok ycs) (yc : YearCon) (hyc : yc ∈ ycs)
    (hnd : ((entriesAt es yc.year).map (·.item)).Nodup) :
    sumLo yc.bounds ≤ yc.total ∧ leUB yc.total (sumHi yc.bounds) = true := by
  obtain ⟨hmin, hmax, _, hrmin, hrmax, hrb⟩ := (hard_feasible cs es ycs h).1 yc hyc
  rw [hrb, boundsOf_nodup _ hnd]
  have e1 : sumLo ((entriesAt es yc.year).map (fun e => (e.item, relLo e, relHi e))) = minSpendOf es yc.year := by
    unfold sumLo minSpendOf
    rw [List.map_map]
    rfl
  have e2 : ∀ l : List Entry, sumHi (l.map (fun e => (e.item, relLo e, relHi e)))
      = l.foldr (fun e acc => addUB (relHi e) acc) (some 0) := by
    intro l
    induction l with
    | nil => rfl
    | cons a l ih => simp only [List.map_cons, sumHi, List.foldr_cons, ih]
  rw [e1, e2, ← hrmin]
  unfold maxSpendOf at hrmax
  rw [← hrmax]
  exact ⟨hmin, hmax⟩

/-- without that hypothesis the accumulators double-count: two adjustments on program 0 (upper bound 10 each) and one on
    program 1 (upper bound 10) pass a total of 25 although the recorded bounds allow at most 20 -/
example : (hardConstraint { years := [2020], totals := [some 25], bf := [1] }
    [ { year := 2020, item := 0, rel := false, lo := 0, hi := some 10, cur := 5 },
      { year := 2020, item := 0, rel := false, lo := 0, hi := some 10, cur := 5 },
      { year := 2020, item := 1, rel := false, lo := 0, hi := some 10, cur := 5 } ]).toOption.map
        (fun ycs => ycs.map (fun yc => (yc.total, sumHi yc.bounds))) = some [(25, some 20)] := by
  decide +kernel

/-- a relative bound with an infinite multiplier on a program without spending: `0·inf` is NaN in the code, infinite in the specification -/
example : relHiCurrent { year := 0, item := 0, rel := true, lo := 1/2, hi := none, cur := 0 } = none ∧
    relHi { year := 0, item := 0, rel := true, lo := 1/2, hi := none, cur := 0 } = none := by
  constructor <;> decide +kernel


/-! ### Spending packages -/

/-- **package_shares**: after `SpendingPackageAdjustment.update_instructions` (specification tolerance) every member's
    spend is `f_i · T` with `f_i` inside `[min_i, max_i]` (its share of the nominal package total `T`), and the members
    add up to `T` to 1e-6 relative — whatever the solver answered. -/
theorem package_shares (m : Nat) (fracs minP maxP : Nat → Rat) (T : Rat) (solver : Solver)
    (hT : 0 ≤ T) (hb : ∀ i, i < m → minP i ≤ maxP i)
    (b : Branch) (y : Nat → Rat) (h : packageUpdate m fracs minP maxP T solver = .ok b y) :
    (∀ i, i < m → minP i * T ≤ y i ∧ y i ≤ maxP i * T) ∧ |sumTo m y - T| ≤ 1 / 1000000 * T := by
  unfold packageUpdate packageUpdateWith at h
  split at h
  · rename_i b' f hf
    simp only [Result.ok.injEq] at h
    obtain ⟨_, hy⟩ := h
    subst hy
    obtain ⟨hw, hsum, _⟩ := constrainWith_post closeSpec 0 tolSpec (le_refl 0) (by unfold tolSpec; norm_num)
      closeSpec_spec closeSpec_01 m fracs 1 minP (fun i => some (maxP i)) solver (by norm_num)
      (fun i hi => by simp only [leUB, decide_eq_true_eq]; exact hb i hi) b' f hf
    constructor
    · intro i hi
      obtain ⟨h1, h2⟩ := hw i hi
      simp only [leUB, decide_eq_true_eq] at h2
      exact ⟨mul_le_mul_of_nonneg_right h1 hT, mul_le_mul_of_nonneg_right h2 hT⟩
    · rw [sumTo_mul]
      have : sumTo m f * T - T = (sumTo m f - 1) * T := by ring
      rw [this, abs_mul, abs_of_nonneg hT]
      unfold tolSpec at hsum
      have h3 : |sumTo m f - 1| ≤ 1 / 1000000 := by linarith
      exact mul_le_mul_of_nonneg_right h3 hT
  · rename_i hne
    cases hr : constrainWith closeSpec m fracs 1 minP (fun i => some (maxP i)) solver with
    | ok b' f => exact absurd hr (hne b' f)
    | failed => rw [hr] at h; cases h
    | assertFail => rw [hr] at h; cases h

/-- **set_total_sum**: `set_total_spend` makes the members add up to the requested package total
    (current total positive: common factor; otherwise the fallback proportions, which sum to 1). -/
theorem set_total_sum (m : Nat) (mem w : Nat → Rat) (val : Rat)
    (hw : sumTo m mem ≤ 0 → sumTo m w = 1) :
    sumTo m (setTotalSpend m mem w val) = val := by
  unfold setTotalSpend
  simp only
  split
  · rename_i hc
    rw [sumTo_mul]
    field_simp
  · rename_i hc
    rw [sumTo_mul, hw (not_lt.mp hc), one_mul]

/-- **set_total_keeps_shares**: with positive current spending every member keeps its share of the package:
    `new_i / val = old_i / old_total` (cross-multiplied, so that `val = 0` is covered). -/
theorem set_total_keeps_shares (m : Nat) (mem w : Nat → Rat) (val : Rat) (hc : 0 < sumTo m mem) (i : Nat) :
    setTotalSpend m mem w val i * sumTo m mem = mem i * val := by
  simp only [setTotalSpend, if_pos hc]
  field_simp

/-- shares inside proportion limits stay inside them after `set_total_spend` -/
theorem set_total_share_bounds (m : Nat) (mem w : Nat → Rat) (val lo hi : Rat) (hc : 0 < sumTo m mem) (hv : 0 ≤ val)
    (i : Nat) (h : lo * sumTo m mem ≤ mem i ∧ mem i ≤ hi * sumTo m mem) :
    lo * val ≤ setTotalSpend m mem w val i ∧ setTotalSpend m mem w val i ≤ hi * val := by
  have hpos : 0 ≤ val / sumTo m mem := div_nonneg hv hc.le
  have e : setTotalSpend m mem w val i = mem i * (val / sumTo m mem) := by
    simp only [setTotalSpend, if_pos hc]
  have e2 : ∀ a : Rat, a * sumTo m mem * (val / sumTo m mem) = a * val := by
    intro a; field_simp
  rw [e]
  constructor
  · rw [← e2 lo]; exact mul_le_mul_of_nonneg_right h.1 hpos
  · rw [← e2 hi]; exact mul_le_mul_of_nonneg_right h.2 hpos

/-- the code as it is leaves a package without current spending at zero whatever total it is asked to take:
    members (0,0), requested total 5: the code gives (0,0) (sum 0), the specification (5/2,5/2) -/
theorem set_total_current_gap :
    sumTo 2 (setTotalSpendCurrent 2 (fun _ => 0) 5) = 0 ∧ sumTo 2 (setTotalSpend 2 (fun _ => 0) (fun _ => 1/2) 5) = 5 := by
  constructor <;> decide +kernel

/-- with positive current spending the code and the specification agree -/
theorem set_total_current_eq (m : Nat) (mem w : Nat → Rat) (val : Rat) (hc : 0 < sumTo m mem) :
    setTotalSpendCurrent m mem val = setTotalSpend m mem w val := by
  unfold setTotalSpendCurrent setTotalSpend
  simp only
  rw [if_pos hc, if_pos hc]

/-! ### One constrained year of `TotalSpendConstraint.constrain_instructions` -/

theorem listSum_append (a b : List Rat) : listSum (a ++ b) = listSum a + listSum b := by
  unfold listSum
  induction a with
  | nil => simp
  | cons x a ih => simp only [List.cons_append, List.foldr_cons, ih]; ring

theorem listSum_range_map (n : Nat) (f : Nat → Rat) : listSum ((List.range n).map f) = sumTo n f := by
  induction n with
  | zero => rfl
  | succ n ih =>
    rw [List.range_succ, List.map_append, listSum_append, ih]
    simp [listSum, sumTo]

/-- the fallback proportions of every package without current spending sum to 1 -/
def FallbackOK (items : List Item) : Prop :=
  ∀ i, i < items.length → (getItem items i).isPkg = true → (getItem items i).total ≤ 0 →
    sumTo (getItem items i).m (getItem items i).w = 1

theorem writeBack_total (it : Item) (val : Rat)
    (h : it.isPkg = true → it.total ≤ 0 → sumTo it.m it.w = 1) : (writeBack true it val).total = val := by
  unfold writeBack
  by_cases hp : it.isPkg = true
  · rw [if_pos hp]
    simp only [Item.total, if_true]
    exact set_total_sum it.m it.mem it.w val (h hp)
  · rw [if_neg hp]
    simp [Item.total, sumTo]

/-- **constrain_year_post**: whenever one constrained year of `constrain_instructions` goes through (specification-shaped:
    property tolerance, packages without current spending split by fallback proportions), the spending written back —
    programs and package members together — adds up to the year's total to 1e-6 relative, and every program's spend /
    every package's total lies within its bounds.  For every solver answer. -/
theorem constrain_year_post (items : List Item) (total : Rat) (solver : Solver)
    (hs : 0 ≤ total)
    (hb : ∀ i, i < items.length → leUB (getItem items i).lo (getItem items i).hi = true)
    (hf : FallbackOK items)
    (b : Branch) (items' : List Item) (h : constrainYear items total solver = .ok b items') :
    items'.length = items.length ∧
    |yearTotal items' - total| ≤ 1 / 1000000 * total ∧
    (∀ i, i < items.length →
      (getItem items i).lo ≤ (getItem items' i).total ∧ leUB (getItem items' i).total (getItem items i).hi = true) := by
  unfold constrainYear constrainYearWith at h
  simp only [if_true] at h
  split at h
  · rename_i b' y hc
    simp only [YearResult.ok.injEq] at h
    obtain ⟨_, hi'⟩ := h
    subst hi'
    obtain ⟨hw, hsum, _⟩ := constrain_post items.length _ total _ _ solver hs hb b' y hc
    have hget : ∀ i, i < items.length →
        (getItem ((List.range items.length).map (fun i => writeBack true (getItem items i) (y i))) i).total = y i := by
      intro i hi
      unfold getItem
      rw [← List.getElem_eq_getD (h := by simpa using hi)]
      simp only [List.getElem_map, List.getElem_range]
      exact writeBack_total _ _ (hf i hi)
    refine ⟨by simp, ?_, ?_⟩
    · have : yearTotal ((List.range items.length).map (fun i => writeBack true (getItem items i) (y i)))
          = sumTo items.length y := by
        unfold yearTotal
        rw [List.map_map, listSum_range_map]
        apply sumTo_congr
        intro i hi
        exact writeBack_total _ _ (hf i hi)
      rw [this]
      exact hsum
    · intro i hi
      rw [hget i hi]
      exact hw i hi
  · cases h
  · cases h

/-- non-vacuity (and the package defect): package (members 0, 0; limits [0,100]) and program (0; limits [0,7]), total 10,
    solver answer (1/2, 1/2): the specification gives package members (5/2, 5/2) and program 5 — total 10;
    the code as it is leaves the package at 0 — total 5. -/
def demoItems : List Item :=
  [ { m := 2, mem := fun _ => 0, w := fun _ => 1/2, lo := 0, hi := some 100, isPkg := true },
    { m := 1, mem := fun _ => 0, w := fun _ => 1, lo := 0, hi := some 7, isPkg := false } ]

def yearSum : YearResult → Option Rat
  | .ok _ its => some (yearTotal its)
  | _ => none

theorem constrain_year_current_gap :
    yearSum (constrainYear demoItems 10 (constSolver { success := true, x := fun _ => 1/2 })) = some 10 ∧
    yearSum (constrainYearCurrent demoItems 10 (constSolver { success := true, x := fun _ => 1/2 })) = some 5 := by
  constructor <;> decide +kernel

/-! ### Order of events in `optimize` -/

/-- **hard_reports_first**: in `optimize` the feasibility pre-check precedes every objective evaluation, and when it
    raises there is none. -/
theorem hard_reports_first (hardOk initFinite : Bool) (k : Nat) :
    (∀ pre post, optimizeTrace hardOk initFinite k = pre ++ Ev.objective :: post → Ev.hardConstraint ∈ pre) ∧
    (hardOk = false → Ev.objective ∉ optimizeTrace hardOk initFinite k) := by
  constructor
  · intro pre post h
    unfold optimizeTrace at h
    cases pre with
    | nil => simp at h
    | cons a pre =>
      cases pre with
      | nil => simp at h
      | cons c pre =>
        simp only [List.cons_append, List.cons.injEq] at h
        rw [← h.2.1]
        simp
  · intro h
    subst h
    simp [optimizeTrace]

end Atomica.C14
