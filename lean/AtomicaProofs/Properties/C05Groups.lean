/-
  C05 (duration groups WITH JUNCTIONS INSIDE) — "moves between compartments of the same duration group keep the elapsed
  time", including moves THROUGH a junction that belongs to the group (`net.jgroup`): an ordinary junction, whose stated
  proportions are normalised (`inflow · p_l / Σp`, row by row), or a residual junction.

  `ClosedGroupJ net G J n`   the closedness hypothesis (decidable; evaluated by the harness on every extracted net):
                             `G` timed members with `n` rows, `J` junctions of the group, all links that leave a member
                             other than its flush link and all links that leave a `J` junction stay inside `G ∪ J`,
                             all timed links into a member and all links into a `J` junction come from `G ∪ J`.
  `group_step_junctions`     ONE full engine step (`Engine.step` = resolve → balanceAll → updateComps): group row `r+1`
                             before = group row `r` after; last row = untimed inflow of the members; flush links = row 0.
  `engine_group_release_exact_junctions`   every reachable state (`IsRun`): the group's timed outflow at step `t` is the
                             group's arrivals of step `t-n` (initial group row `t` for `t < n`).
  Non-vacuity: `exJ` (t00 → g0 → {t01, t02}; plain junction with proportions 1/2 and 3/10, which sum to 4/5 and are
  normalised) and `exJR` (the same with a residual out-link), all hypotheses kernel-evaluated; `raw_rule_fails`: with the
  proportions used as they are (no normalisation) the conclusion fails on the same input.

  The pass-through of a group junction (row by row, chains/fans of any depth) is C04's `balance_chain`; the only new
  hypotheses relative to `group_step` are C04's `wfGroupRows`, `resCheck` and "proportions on the out-links of `J` are ≥ 0"
  (with a negative proportion a negative amount would enter a member and be clipped by `update`).
-/
import AtomicaProofs.Properties.C05
import AtomicaProofs.Properties.C04
import AtomicaModel.EngineGroups

namespace Atomica.C05
open Atomica Atomica.Timed Atomica.Engine Finset

variable (net : Net)

/-- `G ∪ J` is a closed duration group of length `n` with junctions inside: the members `G` are timed compartments with
    `n` rows, `J` are junctions of the duration group (`jgroup`: balanced row by row) whose out-links have `n` rows;
    every link that leaves a member, other than its flush link, is a timed link into a member or a link into a junction
    of `J`; every link that leaves a junction of `J` enters a member or another junction of `J` (acyclic: `jorder`);
    every timed link into a member and every link into a junction of `J` comes from a member or a junction of `J`. -/
structure ClosedGroupJ (G J : Nat → Bool) (n : Nat) : Prop where
  timed : ∀ c, c < net.nC → G c = true → net.kind c = .timed
  rows : ∀ c, c < net.nC → G c = true → net.nrows c = n
  junc : ∀ j, j < net.nC → J j = true → isJunction net j = true ∧ net.jgroup j = true
  jrows : ∀ l, l < net.nL → J (net.src l) = true → net.lrows l = n
  out_member : ∀ l, l < net.nL → G (net.src l) = true → net.isFlush l = false →
    net.tlink l = true ∧ (G (net.dst l) = true ∨ J (net.dst l) = true)
  out_junction : ∀ l, l < net.nL → J (net.src l) = true → (G (net.dst l) = true ∨ J (net.dst l) = true)
  in_member : ∀ l, l < net.nL → G (net.dst l) = true → net.tlink l = true →
    (G (net.src l) = true ∨ J (net.src l) = true)
  in_junction : ∀ l, l < net.nL → J (net.dst l) = true → (G (net.src l) = true ∨ J (net.src l) = true)

/-- a group without junctions is the special case `J = ∅` -/
theorem ClosedGroup.toJ (G : Nat → Bool) (n : Nat) (h : ClosedGroup net G n) :
    ClosedGroupJ net G (fun _ => false) n := by
  refine ⟨h.timed, h.rows, ?_, ?_, ?_, ?_, ?_, ?_⟩
  · intro j _ hj; cases hj
  · intro l _ hj; cases hj
  · intro l hl hs hf
    have := (h.closed l hl).mp ⟨hs, hf⟩
    exact ⟨this.2, Or.inl this.1⟩
  · intro l _ hj; cases hj
  · intro l hl hd ht
    exact Or.inl ((h.closed l hl).mpr ⟨hd, ht⟩).1
  · intro l _ hj; cases hj

/-- `wfCheck`: links into and out of a duration-group junction are timed links -/
theorem gj_links_timed (hwf : wfCheck net = true) (l : Nat) (hl : l < net.nL) :
    (isJunction net (net.dst l) = true → net.jgroup (net.dst l) = true → net.tlink l = true)
    ∧ (isJunction net (net.src l) = true → net.jgroup (net.src l) = true → net.tlink l = true) := by
  unfold wfCheck at hwf
  simp only [Bool.and_eq_true, allBelow_iff] at hwf
  obtain ⟨⟨⟨⟨⟨⟨hL, _⟩, _⟩, _⟩, _⟩, _⟩, _⟩ := hwf
  have h10 := (hL l hl).1.1.2
  have h11 := (hL l hl).1.2
  constructor
  · intro hj hg; simpa [hj, hg] using h10
  · intro hj hg; simpa [hj, hg] using h11

/-- `resolve_outflows` leaves the out-links of junctions unset (0) -/
theorem resolveFlow_junction (cache : Nat → Rat) (x : Stock) (l r : Nat) (hj : isJunction net (net.src l) = true) :
    resolveFlow net cache x l r = 0 := by
  unfold isJunction at hj
  unfold resolveFlow baseFlow
  cases hk : net.kind (net.src l) <;> simp_all

section core
variable {net}
variable {G J : Nat → Bool} {n : Nat}

theorem ClosedGroupJ.disjoint (hG : ClosedGroupJ net G J n) {c : Nat} (hc : c < net.nC) (hg : G c = true) : J c = false := by
  cases hj : J c with
  | false => rfl
  | true =>
    have h1 := (hG.junc c hc hj).1
    have h2 := hG.timed c hc hg
    simp [isJunction, h2] at h1

/-- flush links never enter a junction of the group, so every link into `G ∪ J` that counts comes from a member through a
    non-flush link or from a junction of `J` -/
theorem ClosedGroupJ.src_nonflush (hG : ClosedGroupJ net G J n) (hwf : wfCheck net = true) {l : Nat} (hl : l < net.nL)
    (h : (G (net.dst l) = true ∧ net.tlink l = true) ∨ J (net.dst l) = true) :
    (G (net.src l) = true ∧ net.isFlush l = false) ∨ J (net.src l) = true := by
  have w := wfTimed_of_wfCheck net hwf
  have ht : net.tlink l = true := by
    rcases h with h | h
    · exact h.2
    · have := hG.junc _ (w.dst_lt l hl) h
      exact (gj_links_timed net hwf l hl).1 this.1 this.2
  have hsrc : G (net.src l) = true ∨ J (net.src l) = true := by
    rcases h with h | h
    · exact hG.in_member l hl h.1 h.2
    · exact hG.in_junction l hl h
  rcases hsrc with hs | hs
  · left
    refine ⟨hs, ?_⟩
    cases hf : net.isFlush l with
    | false => rfl
    | true => have := w.flush_untimed l hl hf; rw [ht] at this; cases this
  · exact Or.inr hs

/-- what a step does to a closed group with junctions, given the flow facts that `Engine.step` provides
    (`group_step_junctions` below derives them): members' out-links are as `resolve_outflows` left them, every junction
    of `J` passes its inflow on row by row, flows inside the group are non-negative and draw nothing from row 0 -/
theorem group_core (hwf : wfCheck net = true) (hG : ClosedGroupJ net G J n)
    (cache : Nat → Rat) (x : Stock) (fl : Flow)
    (hx : ∀ c, c < net.nC → G c = true → ∀ r, 0 ≤ x c r)
    (hfl : ∀ l, l < net.nL → G (net.src l) = true → ∀ r, fl l r = resolveFlow net cache x l r)
    (hpass : ∀ j, j < net.nC → J j = true → ∀ r, outRow net fl j r = jInflow net fl j r)
    (hnn : ∀ l, l < net.nL → (G (net.src l) = true ∨ J (net.src l) = true) → ∀ r, 0 ≤ fl l r)
    (hrow0 : ∀ l, l < net.nL → ((G (net.src l) = true ∧ net.isFlush l = false) ∨ J (net.src l) = true) → fl l 0 = 0) :
    (∀ r, r + 1 < n → groupRow net G (updateComps net x fl) r = groupRow net G x (r + 1))
    ∧ (∀ r, r + 1 = n → groupRow net G (updateComps net x fl) r
        = sumTo net.nC (fun c => if G c = true then clip0 (inUntimed net fl c) else 0))
    ∧ sumTo net.nL (fun l => if G (net.src l) = true ∧ net.isFlush l = true then fl l 0 else 0) = groupRow net G x 0 := by
  have w := wfTimed_of_wfCheck net hwf
  have hsrc_timed : ∀ l, l < net.nL → G (net.src l) = true → net.kind (net.src l) = .timed :=
    fun l hl hg => hG.timed _ (w.src_lt l hl) hg
  -- every timed link into a member has `n` rows and carries non-negative amounts
  have htl : ∀ l, l < net.nL → G (net.dst l) = true → net.tlink l = true → net.lrows l = n := by
    intro l hl hd ht
    rcases hG.in_member l hl hd ht with hs | hs
    · rw [w.lrows_timed l hl (hsrc_timed l hl hs), hG.rows _ (w.src_lt l hl) hs]
    · exact hG.jrows l hl hs
  have hinT : ∀ c, c < net.nC → G c = true → ∀ r, r < n →
      inTimedRow net fl c r = sumTo net.nL (fun l => if net.dst l = c then (if net.tlink l = true then fl l r else 0) else 0) := by
    intro c hc hg r hr
    have := inTimedRow_same net fl c r (by rw [hG.rows c hc hg]; exact hr)
      (fun l hl hd ht => by rw [hG.rows c hc hg]; exact htl l hl (by rw [hd]; exact hg) ht)
    rw [this]
    apply sumTo_congr; intro l _
    by_cases h1 : net.dst l = c <;> by_cases h2 : net.tlink l = true <;> simp [h1, h2]
  have hinT_nonneg : ∀ c, c < net.nC → G c = true → ∀ r, r < n → 0 ≤ inTimedRow net fl c r := by
    intro c hc hg r hr
    rw [hinT c hc hg r hr]
    apply sumTo_nonneg; intro l hl
    split
    · rename_i hd
      split
      · rename_i ht; exact hnn l hl (hG.in_member l hl (by rw [hd]; exact hg) ht) r
      · exact le_refl 0
    · exact le_refl 0
  have hflc : ∀ c, c < net.nC → G c = true → ∀ l, l < net.nL → net.src l = c → ∀ r, fl l r = resolveFlow net cache x l r :=
    fun c _ hg l hl hs r => hfl l hl (by rw [hs]; exact hg) r
  -- the exchange inside the group cancels: what leaves the members in row `r ≥ 1` is what enters members in row `r`
  have hexch : ∀ r, 1 ≤ r → r < n →
      sumTo net.nC (fun c => if G c = true then outRow net fl c r else 0)
        = sumTo net.nC (fun c => if G c = true then inTimedRow net fl c r else 0) := by
    intro r hr1 hrn
    have eA : sumTo net.nC (fun c => if G c = true then outRow net fl c r else 0)
        = sumTo net.nL (fun l => if G (net.src l) = true then fl l r else 0) := by
      unfold outRow
      exact sumTo_fiber_filter net.nC net.nL net.src (fun l => fl l r) (fun c => G c = true) w.src_lt
    have eC : sumTo net.nC (fun c => if G c = true then inTimedRow net fl c r else 0)
        = sumTo net.nL (fun l => if G (net.dst l) = true then (if net.tlink l = true then fl l r else 0) else 0) := by
      have : ∀ c, c < net.nC → (if G c = true then inTimedRow net fl c r else 0)
          = (if G c = true then sumTo net.nL (fun l => if net.dst l = c then (if net.tlink l = true then fl l r else 0) else 0) else 0) := by
        intro c hc
        by_cases hg : G c = true
        · rw [if_pos hg, if_pos hg, hinT c hc hg r hrn]
        · rw [if_neg hg, if_neg hg]
      rw [sumTo_congr this]
      exact sumTo_fiber_filter net.nC net.nL net.dst (fun l => if net.tlink l = true then fl l r else 0) (fun c => G c = true) w.dst_lt
    -- junctions of the group: out = in
    have eB : sumTo net.nC (fun j => if J j = true then outRow net fl j r else 0)
        = sumTo net.nL (fun l => if J (net.src l) = true then fl l r else 0) := by
      unfold outRow
      exact sumTo_fiber_filter net.nC net.nL net.src (fun l => fl l r) (fun c => J c = true) w.src_lt
    have eD : sumTo net.nC (fun j => if J j = true then jInflow net fl j r else 0)
        = sumTo net.nL (fun l => if J (net.dst l) = true then fl l r else 0) := by
      have : ∀ j, j < net.nC → (if J j = true then jInflow net fl j r else 0)
          = (if J j = true then sumTo net.nL (fun l => if net.dst l = j then fl l r else 0) else 0) := by
        intro j hj
        by_cases hJ : J j = true
        · rw [if_pos hJ, if_pos hJ, C04.jInflow_group (hG.junc j hj hJ).2 r]
        · rw [if_neg hJ, if_neg hJ]
      rw [sumTo_congr this]
      exact sumTo_fiber_filter net.nC net.nL net.dst (fun l => fl l r) (fun c => J c = true) w.dst_lt
    have eBD : sumTo net.nL (fun l => if J (net.src l) = true then fl l r else 0)
        = sumTo net.nL (fun l => if J (net.dst l) = true then fl l r else 0) := by
      rw [← eB, ← eD]
      apply sumTo_congr; intro j hj
      by_cases hJ : J j = true
      · rw [if_pos hJ, if_pos hJ, hpass j hj hJ r]
      · rw [if_neg hJ, if_neg hJ]
    -- link by link: (leaves a member or a junction of the group) = (enters a member as a timed link, or a junction of the group)
    have hterm : ∀ l, l < net.nL →
        (if G (net.src l) = true then fl l r else 0) + (if J (net.src l) = true then fl l r else 0)
          = (if G (net.dst l) = true then (if net.tlink l = true then fl l r else 0) else 0)
            + (if J (net.dst l) = true then fl l r else 0) := by
      intro l hl
      have hsl := w.src_lt l hl
      have hdl := w.dst_lt l hl
      -- the right-hand side is `fl l r` when the link stays inside, else 0
      have hrhs_in : (G (net.dst l) = true ∨ J (net.dst l) = true) → net.tlink l = true →
          (if G (net.dst l) = true then (if net.tlink l = true then fl l r else 0) else 0)
            + (if J (net.dst l) = true then fl l r else 0) = fl l r := by
        intro hd ht
        rcases hd with hd | hd
        · have := hG.disjoint hdl hd
          simp [hd, ht, this]
        · have : G (net.dst l) ≠ true := fun hg => by have := hG.disjoint hdl hg; rw [hd] at this; cases this
          simp [hd, this]
      by_cases hs : G (net.src l) = true
      · have hnJ := hG.disjoint hsl hs
        rw [if_pos hs, hnJ]
        simp only [Bool.false_eq_true, if_false, add_zero]
        by_cases hf : net.isFlush l = true
        · -- a flush link carries nothing from rows ≥ 1
          have hzero : fl l r = 0 := by
            rw [hfl l hl hs r, resolveFlow_flush net cache x l (hsrc_timed l hl hs) hf (w.nrows_pos _ hsl) (hx _ hsl hs 0) r]
            have : r ≠ 0 := by omega
            simp [this]
          rw [hzero]; simp
        · have hf' : net.isFlush l = false := by simpa using hf
          obtain ⟨ht, hd⟩ := hG.out_member l hl hs hf'
          rw [hrhs_in hd ht]
      · by_cases hsJ : J (net.src l) = true
        · rw [if_neg hs, if_pos hsJ, zero_add]
          have hj := hG.junc _ hsl hsJ
          have ht := (gj_links_timed net hwf l hl).2 hj.1 hj.2
          rw [hrhs_in (hG.out_junction l hl hsJ) ht]
        · rw [if_neg hs, if_neg hsJ, zero_add]
          have hnot : ¬ ((G (net.dst l) = true ∧ net.tlink l = true) ∨ J (net.dst l) = true) := by
            intro h
            rcases hG.src_nonflush hwf hl h with h' | h'
            · exact hs h'.1
            · exact hsJ h'
          have h1 : ¬ J (net.dst l) = true := fun h => hnot (Or.inr h)
          rw [if_neg h1, add_zero]
          by_cases hd : G (net.dst l) = true
          · have : ¬ net.tlink l = true := fun ht => hnot (Or.inl ⟨hd, ht⟩)
            rw [if_pos hd, if_neg this]
          · rw [if_neg hd]
    have hsum := sumTo_congr hterm
    rw [sumTo_add, sumTo_add, eBD] at hsum
    rw [eA, eC]
    linarith
  refine ⟨?_, ?_, ?_⟩
  · intro r hr
    unfold groupRow
    have hmember : ∀ c, c < net.nC → (if G c = true then updateComps net x fl c r else 0)
        = (if G c = true then x c (r + 1) else 0) - (if G c = true then outRow net fl c (r + 1) else 0)
          + (if G c = true then inTimedRow net fl c (r + 1) else 0) := by
      intro c hc
      by_cases hg : G c = true
      · simp only [hg, if_true]
        have hk := hG.timed c hc hg
        have hn := hG.rows c hc hg
        rw [timed_step net hwf cache x fl c hc hk (hx c hc hg 0) (hflc c hc hg) r, if_pos (by rw [hn]; exact hr)]
        have ho := outRow_resolve_timed net w cache x fl c (r + 1) hc hk (by rw [hn]; exact hr) (hx c hc hg 0) (hflc c hc hg)
        simp only [Nat.succ_ne_zero, if_false] at ho
        rw [ho, clip0_of_nonneg]
        · ring
        · exact add_nonneg (mul_nonneg (surv_nonneg net cache c _) (hx c hc hg _)) (hinT_nonneg c hc hg (r + 1) hr)
      · simp [hg]
    rw [sumTo_congr hmember, sumTo_add, sumTo_sub, hexch (r + 1) (by omega) hr]
    ring
  · intro r hr
    unfold groupRow
    apply sumTo_congr
    intro c hc
    by_cases hg : G c = true
    · simp only [hg, if_true]
      have hk := hG.timed c hc hg
      have hn := hG.rows c hc hg
      rw [timed_step net hwf cache x fl c hc hk (hx c hc hg 0) (hflc c hc hg) r,
        if_neg (by rw [hn]; omega), if_pos (by rw [hn]; exact hr)]
      congr 1
      by_cases h1 : net.nrows c = 1
      · rw [if_pos h1]
        have h0 : inTimedRow net fl c 0 = 0 := by
          rw [hinT c hc hg 0 (by omega)]
          apply sumTo_zero; intro l hl
          split
          · rename_i hd
            split
            · rename_i ht
              exact hrow0 l hl (hG.src_nonflush hwf hl (Or.inl ⟨by rw [hd]; exact hg, ht⟩))
            · rfl
          · rfl
        rw [h0, zero_add]
      · rw [if_neg h1, zero_add]
    · simp [hg]
  · -- the flush links of the group
    have hsurv0 : ∀ c, c < net.nC → G c = true → surv net cache c 0 = 1 := by
      intro c hc hg
      apply surv_eq_one
      intro l hl hs ha
      simp only [acts, Bool.and_eq_true, Bool.not_eq_true', Bool.and_eq_false_imp] at ha
      have hf : net.isFlush l = false := ha.1
      have ht := (hG.out_member l hl (by rw [hs]; exact hg) hf).1
      have := ha.2 ht
      simp at this
    have e : ∀ l, l < net.nL → (if G (net.src l) = true ∧ net.isFlush l = true then fl l 0 else 0)
        = (if G (net.src l) = true then (if net.isFlush l = true then x (net.src l) 0 else 0) else 0) := by
      intro l hl
      by_cases hs : G (net.src l) = true
      · by_cases hf : net.isFlush l = true
        · have hc := w.src_lt l hl
          rw [if_pos ⟨hs, hf⟩, if_pos hs, hfl l hl hs 0,
            resolveFlow_flush net cache x l (hsrc_timed l hl hs) hf (w.nrows_pos _ hc) (hx _ hc hs 0) 0, hsurv0 _ hc hs]
          simp [hf]
        · simp [hs, hf]
      · simp [hs]
    rw [sumTo_congr e]
    have e2 : sumTo net.nL (fun l => if G (net.src l) = true then (if net.isFlush l = true then x (net.src l) 0 else 0) else 0)
        = sumTo net.nC (fun c => if G c = true then sumTo net.nL (fun l => if net.src l = c then (if net.isFlush l = true then x c 0 else 0) else 0) else 0) := by
      rw [← sumTo_fiber_filter net.nC net.nL net.src (fun l => if net.isFlush l = true then x (net.src l) 0 else 0) (fun c => G c = true) w.src_lt]
      apply sumTo_congr; intro c _
      by_cases hg : G c = true
      · simp only [hg, if_true]
        apply sumTo_congr; intro l _
        by_cases hs : net.src l = c
        · subst hs; simp
        · simp [hs]
      · simp [hg]
    rw [e2]
    unfold groupRow
    apply sumTo_congr
    intro c hc
    by_cases hg : G c = true
    · simp only [hg, if_true]
      have hone := w.one_flush c hc (hG.timed c hc hg)
      have : sumTo net.nL (fun l => if net.src l = c then (if net.isFlush l = true then x c 0 else 0) else 0)
          = sumTo net.nL (fun l => if (net.src l == c && net.isFlush l) = true then x c 0 else 0) := by
        apply sumTo_congr; intro l _
        by_cases hs : net.src l = c <;> by_cases hf : net.isFlush l = true <;> simp [hs, hf]
      rw [this, sumTo_filter_const, hone]
      simp
    · simp [hg]

/-- each member of the group, row by row, in terms of the per-row flows its links record: row `r` after the step is row `r+1`
    before it, minus what the member's out-links took from row `r+1`, plus what the timed links into the member carry in row `r+1` -/
theorem group_member_core (hwf : wfCheck net = true) (hG : ClosedGroupJ net G J n)
    (cache : Nat → Rat) (x : Stock) (fl : Flow)
    (hx : ∀ c, c < net.nC → G c = true → ∀ r, 0 ≤ x c r)
    (hfl : ∀ l, l < net.nL → G (net.src l) = true → ∀ r, fl l r = resolveFlow net cache x l r)
    (hnn : ∀ l, l < net.nL → (G (net.src l) = true ∨ J (net.src l) = true) → ∀ r, 0 ≤ fl l r)
    (c : Nat) (hc : c < net.nC) (hg : G c = true) (r : Nat) (hr : r + 1 < n) :
    updateComps net x fl c r = x c (r + 1) - outRow net fl c (r + 1)
      + sumTo net.nL (fun l => if net.dst l = c ∧ net.tlink l = true then fl l (r + 1) else 0) := by
  have w := wfTimed_of_wfCheck net hwf
  have hk := hG.timed c hc hg
  have hn := hG.rows c hc hg
  have hsame : ∀ l, l < net.nL → net.dst l = c → net.tlink l = true → net.lrows l = net.nrows c := by
    intro l hl hd ht
    rw [hn]
    rcases hG.in_member l hl (by rw [hd]; exact hg) ht with hs | hs
    · rw [w.lrows_timed l hl (hG.timed _ (w.src_lt l hl) hs), hG.rows _ (w.src_lt l hl) hs]
    · exact hG.jrows l hl hs
  have hflc : ∀ l, l < net.nL → net.src l = c → ∀ r, fl l r = resolveFlow net cache x l r :=
    fun l hl hs r => hfl l hl (by rw [hs]; exact hg) r
  have hin := inTimedRow_same net fl c (r + 1) (by rw [hn]; exact hr) hsame
  have hin_nonneg : 0 ≤ inTimedRow net fl c (r + 1) := by
    rw [hin]
    apply sumTo_nonneg; intro l hl
    split
    · rename_i hh; exact hnn l hl (hG.in_member l hl (by rw [hh.1]; exact hg) hh.2) (r + 1)
    · exact le_refl 0
  rw [timed_step net hwf cache x fl c hc hk (hx c hc hg 0) hflc r, if_pos (by rw [hn]; exact hr)]
  have ho := outRow_resolve_timed net w cache x fl c (r + 1) hc hk (by rw [hn]; exact hr) (hx c hc hg 0) hflc
  simp only [Nat.succ_ne_zero, if_false] at ho
  rw [ho, clip0_of_nonneg, hin]
  · ring
  · exact add_nonneg (mul_nonneg (surv_nonneg net cache c _) (hx c hc hg _)) hin_nonneg

end core

/-! ## the decidable form of the hypothesis (what the driver evaluates on every extracted net: request `egroupj`) -/

/-- `Engine.closedGroupJCheck` is exactly `ClosedGroupJ` -/
theorem closedGroupJCheck_iff (G J : Nat → Bool) (n : Nat) :
    closedGroupJCheck net G J n = true ↔ ClosedGroupJ net G J n := by
  unfold closedGroupJCheck
  simp only [Bool.and_eq_true, allBelow_iff]
  constructor
  · rintro ⟨⟨hC, hJ⟩, hL⟩
    refine ⟨?_, ?_, ?_, ?_, ?_, ?_, ?_, ?_⟩
    · intro c hc hg; have := hC c hc; simp [hg] at this; exact this.1
    · intro c hc hg; have := hC c hc; simp [hg] at this; exact this.2
    · intro j hj hJj; have := hJ j hj; simp [hJj] at this; exact this
    · intro l hl hs; have := (hL l hl).1.1.1; simp [hs] at this; exact this.1
    · intro l hl hs hf; have := (hL l hl).1.1.2; simp [hs, hf] at this; exact this
    · intro l hl hs; have := (hL l hl).1.1.1; simp [hs] at this; exact this.2
    · intro l hl hd ht; have := (hL l hl).1.2; simp [hd, ht] at this; exact this
    · intro l hl hd; have := (hL l hl).2; simp [hd] at this; exact this
  · intro h
    refine ⟨⟨?_, ?_⟩, ?_⟩
    · intro c hc
      cases hg : G c with
      | false => simp
      | true => simp [h.timed c hc hg, h.rows c hc hg]
    · intro j hj
      cases hJj : J j with
      | false => simp
      | true => simp [(h.junc j hj hJj).1, (h.junc j hj hJj).2]
    · intro l hl
      refine ⟨⟨⟨?_, ?_⟩, ?_⟩, ?_⟩
      · cases hs : J (net.src l) with
        | false => simp
        | true =>
          have h1 := h.jrows l hl hs
          have h2 := h.out_junction l hl hs
          simp only [Bool.not_true, Bool.false_or, Bool.and_eq_true, beq_iff_eq, Bool.or_eq_true]
          exact ⟨h1, h2⟩
      · cases hs : G (net.src l) with
        | false => simp
        | true =>
          cases hf : net.isFlush l with
          | true => simp
          | false =>
            have h1 := h.out_member l hl hs hf
            simp only [Bool.not_false, Bool.and_self, Bool.not_true, Bool.false_or, Bool.and_eq_true, Bool.or_eq_true]
            exact h1
      · cases hd : G (net.dst l) with
        | false => simp
        | true =>
          cases ht : net.tlink l with
          | false => simp
          | true =>
            have h1 := h.in_member l hl hd ht
            simp only [Bool.and_self, Bool.not_true, Bool.false_or, Bool.or_eq_true]
            exact h1
      · cases hd : J (net.dst l) with
        | false => simp
        | true =>
          have h1 := h.in_junction l hl hd
          simp only [Bool.not_true, Bool.false_or, Bool.or_eq_true]
          exact h1

/-- the field `jrows` of `ClosedGroupJ` is implied by `wfGroupRows` when every junction of `J` has an in-link
    (a junction of the group that nothing flows into is the only case in which the row count of its out-links is not
    forced by the links around it) -/
theorem ClosedGroupJ.of_fed (net : Net) (hwf : wfCheck net = true) (hgr : wfGroupRows net = true) (G J : Nat → Bool) (n : Nat)
    (timed : ∀ c, c < net.nC → G c = true → net.kind c = .timed)
    (rows : ∀ c, c < net.nC → G c = true → net.nrows c = n)
    (junc : ∀ j, j < net.nC → J j = true → isJunction net j = true ∧ net.jgroup j = true)
    (fed : ∀ j, j < net.nC → J j = true → ∃ l, l < net.nL ∧ net.dst l = j)
    (out_member : ∀ l, l < net.nL → G (net.src l) = true → net.isFlush l = false →
      net.tlink l = true ∧ (G (net.dst l) = true ∨ J (net.dst l) = true))
    (out_junction : ∀ l, l < net.nL → J (net.src l) = true → (G (net.dst l) = true ∨ J (net.dst l) = true))
    (in_member : ∀ l, l < net.nL → G (net.dst l) = true → net.tlink l = true → (G (net.src l) = true ∨ J (net.src l) = true))
    (in_junction : ∀ l, l < net.nL → J (net.dst l) = true → (G (net.src l) = true ∨ J (net.src l) = true)) :
    ClosedGroupJ net G J n := by
  have w := wfTimed_of_wfCheck net hwf
  have w4 := C04.wf_of_check net hwf
  have hg := C04.wfGroupRows_sound net hgr
  have key : ∀ k j, net.jorder.idxOf j = k → j < net.nC → J j = true → ∀ l, l < net.nL → net.src l = j → net.lrows l = n := by
    intro k
    induction k using Nat.strong_induction_on with
    | _ k ih =>
      intro j hk hj hJ l hl hs
      obtain ⟨l0, hl0, hd0⟩ := fed j hj hJ
      have hjj := junc j hj hJ
      have h0 : net.lrows l0 = n := by
        rcases in_junction l0 hl0 (by rw [hd0]; exact hJ) with hs0 | hs0
        · rw [w.lrows_timed l0 hl0 (timed _ (w.src_lt l0 hl0) hs0), rows _ (w.src_lt l0 hl0) hs0]
        · have hj' := junc _ (w.src_lt l0 hl0) hs0
          have hlt := w4.topo l0 hl0 hj'.1 (by rw [hd0]; exact hjj.1)
          rw [hd0, hk] at hlt
          exact ih _ hlt (net.src l0) rfl (w.src_lt l0 hl0) hs0 l0 hl0 rfl
      rw [hg j hj hjj.1 hjj.2 l hl l0 hl0 (Or.inl hs) (Or.inr hd0), h0]
  exact ⟨timed, rows, junc, fun l hl hs => key _ (net.src l) rfl (w.src_lt l hl) hs l hl rfl, out_member, out_junction, in_member, in_junction⟩

/-! ## one full engine step -/

/-- the two facts about the flows inside the group that hold after `resolve_outflows` and are kept by balancing every
    junction: they are non-negative, and they draw nothing from row 0 (the row that is being flushed) -/
def GroupFlowInv (G J : Nat → Bool) (fl : Flow) : Prop :=
  (∀ l, l < net.nL → (G (net.src l) = true ∨ J (net.src l) = true) → ∀ r, 0 ≤ fl l r)
  ∧ (∀ l, l < net.nL → ((G (net.src l) = true ∧ net.isFlush l = false) ∨ J (net.src l) = true) → fl l 0 = 0)

theorem pTot_nonneg_of (pv : Nat → Rat) (j : Nat) (hp : ∀ l, l < net.nL → net.src l = j → 0 ≤ pOf net pv l) :
    0 ≤ pTot net pv j := by
  unfold pTot
  apply sumTo_nonneg; intro l hl
  split
  · rename_i hs; exact hp l hl hs
  · exact le_refl 0

theorem groupFlowInv_resolve (hwf : wfCheck net = true) (G J : Nat → Bool) (n : Nat) (hG : ClosedGroupJ net G J n)
    (cache : Nat → Rat) (hcache : ∀ l, l < net.nL → 0 ≤ cache l) (x : Stock)
    (hx : ∀ c, c < net.nC → G c = true → ∀ r, 0 ≤ x c r) : GroupFlowInv net G J (resolveFlow net cache x) := by
  have w := wfTimed_of_wfCheck net hwf
  constructor
  · intro l hl hs r
    rcases hs with hs | hs
    · have hsl := w.src_lt l hl
      have hk := hG.timed _ hsl hs
      by_cases hf : net.isFlush l = true
      · rw [resolveFlow_flush net cache x l hk hf (w.nrows_pos _ hsl) (hx _ hsl hs 0) r]
        split
        · exact mul_nonneg (surv_nonneg net cache _ 0) (hx _ hsl hs 0)
        · exact le_refl 0
      · have hf' : net.isFlush l = false := by simpa using hf
        rw [resolveFlow_nonflush net cache x l r hf']
        exact baseFlow_nonneg_timed net cache x l r hk hcache hl (hx _ hsl hs)
    · rw [resolveFlow_junction net cache x l r (hG.junc _ (w.src_lt l hl) hs).1]
  · intro l hl hs
    rcases hs with hs | hs
    · have hk := hG.timed _ (w.src_lt l hl) hs.1
      exact tlink_row0 net cache x l hk (hG.out_member l hl hs.1 hs.2).1 hs.2
    · exact resolveFlow_junction net cache x l 0 (hG.junc _ (w.src_lt l hl) hs).1

/-- balancing any junction keeps `GroupFlowInv` (proportions on the out-links of `J` are ≥ 0) -/
theorem groupFlowInv_balanceOne (hwf : wfCheck net = true) (G J : Nat → Bool) (n : Nat) (hG : ClosedGroupJ net G J n)
    (pv : Nat → Rat) (hp : ∀ l, l < net.nL → J (net.src l) = true → 0 ≤ pOf net pv l)
    (j : Nat) (hj : j < net.nC) (hjn : isJunction net j = true) (fb fa : Flow)
    (hinv : GroupFlowInv net G J fb) (hb : balanceOne net pv fb j = some fa) : GroupFlowInv net G J fa := by
  have w := wfTimed_of_wfCheck net hwf
  have hnotG : ¬ G j = true := by
    intro hg
    have := hG.timed j hj hg
    simp [isJunction, this] at hjn
  -- the inflow of a junction of the group, row by row
  have hin_nonneg : J j = true → ∀ r, 0 ≤ jInflow net fb j r := by
    intro hJ r
    rw [C04.jInflow_group (hG.junc j hj hJ).2 r]
    apply sumTo_nonneg; intro l hl
    split
    · rename_i hd; exact hinv.1 l hl (hG.in_junction l hl (by rw [hd]; exact hJ)) r
    · exact le_refl 0
  have hin0 : J j = true → jInflow net fb j 0 = 0 := by
    intro hJ
    rw [C04.jInflow_group (hG.junc j hj hJ).2 0]
    apply sumTo_zero; intro l hl
    split
    · rename_i hd; exact hinv.2 l hl (hG.src_nonflush hwf hl (Or.inr (by rw [hd]; exact hJ)))
    · rfl
  constructor
  · intro l hl hs r
    by_cases hsj : net.src l = j
    · have hJ : J j = true := by
        rcases hs with hs | hs
        · rw [hsj] at hs; exact absurd hs hnotG
        · rw [hsj] at hs; exact hs
      have hpl : ∀ l', l' < net.nL → net.src l' = j → 0 ≤ pOf net pv l' :=
        fun l' hl' hs' => hp l' hl' (by rw [hs']; exact hJ)
      have hpt := pTot_nonneg_of net pv j hpl
      have hinn := hin_nonneg hJ r
      unfold isJunction at hjn
      cases hk : net.kind j <;> simp only [hk] at hjn <;> try exact absurd hjn (by decide)
      · by_cases hz : pTot net pv j = 0
        · rw [(C04.balanceOne_plain_zero net hk hb hz).2 l hsj r]
        · rw [C04.balanceOne_plain net hk hb hz l hsj r]
          have : 0 < pTot net pv j := lt_of_le_of_ne hpt (Ne.symm hz)
          exact div_nonneg (mul_nonneg hinn (hpl l hl hsj)) this.le
      · rw [C04.balanceOne_res net hk hb l hsj r]
        split
        · rename_i hc
          have hgt : ¬ pTot net pv j > 1 := by intro hh; linarith [hc.2]
          rw [C04.res_sum_le net _ hgt]
          have : 0 ≤ jInflow net fb j r * (1 - pTot net pv j) := mul_nonneg hinn (by linarith [hc.2])
          linarith
        · apply mul_nonneg hinn
          unfold resFrac
          split
          · exact div_nonneg (hpl l hl hsj) hpt
          · exact hpl l hl hsj
    · rw [C04.balanceOne_frame net hb hsj r]; exact hinv.1 l hl hs r
  · intro l hl hs
    by_cases hsj : net.src l = j
    · have hJ : J j = true := by
        rcases hs with hs | hs
        · have := hs.1; rw [hsj] at this; exact absurd this hnotG
        · rw [hsj] at hs; exact hs
      exact C04.balanceOne_zero_of_inflow_zero net hjn hb hsj (hin0 hJ)
    · rw [C04.balanceOne_frame net hb hsj 0]; exact hinv.2 l hl hs

/-- **group_step_junctions**: ONE full engine step (`resolve_outflows` → all junctions balanced along `jorder` →
    `update`) on a closed duration group with junctions inside keeps everybody's elapsed time:
    the people of the group in row `r+1` before the step — whatever member they are in, and wherever inside the group
    they move during the step, directly or THROUGH junctions of the group (plain: stated proportions normalised;
    residual) — are the people of the group in row `r` after it; the last row receives exactly the untimed inflow of the
    members; and the flush links of the group together carry exactly row 0 of the group. -/
theorem group_step_junctions (hwf : wfCheck net = true) (hgr : wfGroupRows net = true) (hres : resCheck net = true)
    (G J : Nat → Bool) (n : Nat) (hG : ClosedGroupJ net G J n)
    (dt : Rat) (hdt : 0 < dt) (pv : Nat → Rat) (x x' : Stock) (fl : Flow) (hx : NonnegOffSink net x)
    (hp : ∀ l, l < net.nL → J (net.src l) = true → 0 ≤ pOf net pv l)
    (hstep : step net dt pv x = some (fl, x')) :
    (∀ r, r + 1 < n → groupRow net G x' r = groupRow net G x (r + 1))
    ∧ (∀ r, r + 1 = n → groupRow net G x' r
        = sumTo net.nC (fun c => if G c = true then clip0 (inUntimed net fl c) else 0))
    ∧ sumTo net.nL (fun l => if G (net.src l) = true ∧ net.isFlush l = true then fl l 0 else 0) = groupRow net G x 0 := by
  have w := wfTimed_of_wfCheck net hwf
  have w4 := C04.wf_of_check net hwf
  obtain ⟨hbal, hx'⟩ := C04.step_eq hstep
  have hxG : ∀ c, c < net.nC → G c = true → ∀ r, 0 ≤ x c r :=
    fun c hc hg r => hx c r (by rw [hG.timed c hc hg]; simp)
  have hcache : ∀ l, l < net.nL → 0 ≤ convert net dt pv x l := fun l hl => convert_nonneg net w dt hdt pv x hx l hl
  have hinv : GroupFlowInv net G J fl :=
    C04.balanceAll_inv net pv (GroupFlowInv net G J) net.jorder _ fl
      (fun j hj fb fa hi hb => groupFlowInv_balanceOne net hwf G J n hG pv hp j (w4.jorder_lt j hj) (w4.jorder_junction j hj) fb fa hi hb)
      (groupFlowInv_resolve net hwf G J n hG _ hcache x hxG) hbal
  have hfl : ∀ l, l < net.nL → G (net.src l) = true → ∀ r, fl l r = resolveFlow net (convert net dt pv x) x l r := by
    intro l hl hg r
    exact C04.balanceAll_frame hbal l (by simp [isJunction, hG.timed _ (w.src_lt l hl) hg]) r
  have hpass : ∀ j, j < net.nC → J j = true → ∀ r, outRow net fl j r = jInflow net fl j r :=
    fun j hj hJ r => C04.balance_chain hwf hgr hres hstep j hj (hG.junc j hj hJ).1 r
  rw [hx']
  exact group_core hwf hG _ x fl hxG hfl hpass hinv.1 hinv.2

/-- **group_rows_recorded**: the same step seen through the per-row values the links RECORD (`TimedLink._vals`): every junction
    of the group passes each row on unchanged (`Σ out-links row r = Σ in-links row r`), and every member's row `r` after the step
    is its row `r+1` before, minus row `r+1` of its out-links, plus row `r+1` of the timed links into it -/
theorem group_rows_recorded (hwf : wfCheck net = true) (hgr : wfGroupRows net = true) (hres : resCheck net = true)
    (G J : Nat → Bool) (n : Nat) (hG : ClosedGroupJ net G J n)
    (dt : Rat) (hdt : 0 < dt) (pv : Nat → Rat) (x x' : Stock) (fl : Flow) (hx : NonnegOffSink net x)
    (hp : ∀ l, l < net.nL → J (net.src l) = true → 0 ≤ pOf net pv l)
    (hstep : step net dt pv x = some (fl, x')) :
    (∀ j, j < net.nC → J j = true → ∀ r, outRow net fl j r = sumTo net.nL (fun l => if net.dst l = j then fl l r else 0))
    ∧ (∀ c, c < net.nC → G c = true → ∀ r, r + 1 < n →
        x' c r = x c (r + 1) - outRow net fl c (r + 1)
          + sumTo net.nL (fun l => if net.dst l = c ∧ net.tlink l = true then fl l (r + 1) else 0)) := by
  have w := wfTimed_of_wfCheck net hwf
  have w4 := C04.wf_of_check net hwf
  obtain ⟨hbal, hx'⟩ := C04.step_eq hstep
  have hxG : ∀ c, c < net.nC → G c = true → ∀ r, 0 ≤ x c r :=
    fun c hc hg r => hx c r (by rw [hG.timed c hc hg]; simp)
  have hcache : ∀ l, l < net.nL → 0 ≤ convert net dt pv x l := fun l hl => convert_nonneg net w dt hdt pv x hx l hl
  have hinv : GroupFlowInv net G J fl :=
    C04.balanceAll_inv net pv (GroupFlowInv net G J) net.jorder _ fl
      (fun j hj fb fa hi hb => groupFlowInv_balanceOne net hwf G J n hG pv hp j (w4.jorder_lt j hj) (w4.jorder_junction j hj) fb fa hi hb)
      (groupFlowInv_resolve net hwf G J n hG _ hcache x hxG) hbal
  have hfl : ∀ l, l < net.nL → G (net.src l) = true → ∀ r, fl l r = resolveFlow net (convert net dt pv x) x l r := by
    intro l hl hg r
    exact C04.balanceAll_frame hbal l (by simp [isJunction, hG.timed _ (w.src_lt l hl) hg]) r
  constructor
  · intro j hj hJ r
    rw [C04.balance_chain hwf hgr hres hstep j hj (hG.junc j hj hJ).1 r, C04.jInflow_group (hG.junc j hj hJ).2 r]
  · intro c hc hg r hr
    rw [hx']
    exact group_member_core hwf hG _ x fl hxG hfl hinv.1 c hc hg r hr

/-! ## every reachable state -/

/-- **engine_group_release_exact_junctions**: in every execution (`IsRun`) a closed duration group of length `n` with
    junctions inside behaves as ONE pure keyring — whoever enters the group at step `s` (untimed inflow of a member)
    leaves it through a flush link exactly at step `s+n`, whatever moves between the members, directly or through the
    junctions of the group, happened in between; during the first `n` steps the initial occupants of group row `t`
    leave at step `t`. -/
theorem engine_group_release_exact_junctions (hwf : wfCheck net = true) (hgr : wfGroupRows net = true)
    (hres : resCheck net = true) (dt : Rat) (hdt : 0 < dt) (pvs : Nat → Nat → Rat)
    (X : Nat → Stock) (F : Nat → Flow) (T : Nat) (hrun : IsRun net dt pvs X F T) (h0 : NonnegOffSink net (X 0))
    (G J : Nat → Bool) (n : Nat) (hn : 1 ≤ n) (hG : ClosedGroupJ net G J n)
    (hp : ∀ u, u < T → ∀ l, l < net.nL → J (net.src l) = true → 0 ≤ pOf net (pvs u) l) (t : Nat) (ht : t < T) :
    groupFlush net G (F t) = if n ≤ t then groupArrivals net G F (t - n) else groupRow net G (X 0) t := by
  have w := wfTimed_of_wfCheck net hwf
  have hnn : ∀ u, u ≤ T → NonnegOffSink net (X u) := fun u hu => run_nonneg net dt pvs X F T hrun h0 u hu
  have hstepfacts : ∀ u, u < T →
      (∀ r, r + 1 < n → groupRow net G (X (u + 1)) r = groupRow net G (X u) (r + 1))
      ∧ (∀ r, r + 1 = n → groupRow net G (X (u + 1)) r = groupArrivals net G F u)
      ∧ sumTo net.nL (fun l => if G (net.src l) = true ∧ net.isFlush l = true then F u l 0 else 0) = groupRow net G (X u) 0 :=
    fun u hu => group_step_junctions net hwf hgr hres G J n hG dt hdt (pvs u) (X u) (X (u + 1)) (F u) (hnn u (by omega))
      (hp u hu) (hrun u hu)
  -- the group rows are a pure keyring
  have htraj : ∀ u, u ≤ T → groupRow net G (X u)
      = krows n (fun _ _ => 1) (groupArrivals net G F) (groupRow net G (X 0)) u := by
    intro u
    induction u with
    | zero => intro _; rfl
    | succ u ih =>
      intro hu
      obtain ⟨g1, g2, _⟩ := hstepfacts u (by omega)
      rw [krows_succ, ← ih (by omega)]
      funext r
      unfold kstep
      by_cases h1 : r + 1 < n
      · rw [if_pos h1, g1 r h1]; ring
      · rw [if_neg h1]
        by_cases h2 : r + 1 = n
        · rw [if_pos h2, g2 r h2]
        · rw [if_neg h2]
          obtain ⟨_, hx'⟩ := step_unfold net dt (pvs u) (X u) (X (u + 1)) (F u) (hrun u (by omega))
          rw [hx']
          unfold groupRow
          apply sumTo_zero
          intro c hc
          split
          · rename_i hg
            exact rows_within_engine net (X u) (F u) c r (hG.timed c hc hg) (by rw [hG.rows c hc hg]; omega)
          · rfl
  -- the flush links
  obtain ⟨_, _, g3⟩ := hstepfacts t ht
  obtain ⟨hflt, _⟩ := step_unfold net dt (pvs t) (X t) (X (t + 1)) (F t) (hrun t ht)
  have hrec : groupFlush net G (F t)
      = sumTo net.nL (fun l => if G (net.src l) = true ∧ net.isFlush l = true then F t l 0 else 0) := by
    unfold groupFlush
    apply sumTo_congr
    intro l hl
    by_cases h : G (net.src l) = true ∧ net.isFlush l = true
    · rw [if_pos h, if_pos h]
      have hc := w.src_lt l hl
      have hk := hG.timed _ hc h.1
      have hx0 : 0 ≤ X t (net.src l) 0 := hnn t (by omega) _ 0 (by rw [hk]; simp)
      have hv := flush_link_value net hwf (convert net dt (pvs t) (X t)) (X t) l hl h.2 hx0
      have hflu : ∀ r, F t l r = resolveFlow net (convert net dt (pvs t) (X t)) (X t) l r :=
        fun r => flows_nonjunction net dt (pvs t) (X t) (F t) hflt l r (by simp [isJunction, hk])
      have e : recorded net (F t) l = recorded net (resolveFlow net (convert net dt (pvs t) (X t)) (X t)) l := by
        unfold recorded; exact sumTo_congr (fun r _ => hflu r)
      rw [e, hv.2, hflu 0, hv.1 0]; simp
    · rw [if_neg h, if_neg h]
  rw [hrec, g3, htraj t (by omega), keyring_closed_form n _ _ _ t 0 (by omega)]
  simp only [Nat.sub_zero, zero_add]
  rw [cohortSurv_one n _ (fun _ _ => rfl), initSurv_one _ (fun _ _ => rfl)]
  simp

/-! ## non-vacuity: a duration group with a junction inside

    `5 (source) → 0 (t00, 3 rows) → 1 (g0, junction of the group) → {2 (t01), 3 (t02)}`, all three timed compartments flush
    into the sink `4`.  Parameters: `0` people per step entering t00, `1` fraction of t00 moved to g0 per step, `2`, `3`
    the stated proportions of g0's two outflows. -/

def exJ : Net :=
  { nC := 6, nL := 7, nP := 4,
    kind := fun c => match c with | 0 => .timed | 1 => .junction | 2 => .timed | 3 => .timed | 4 => .sink | _ => .source,
    nrows := fun c => match c with | 0 => 3 | 2 => 3 | 3 => 3 | _ => 1,
    src := fun l => match l with | 0 => 5 | 1 => 0 | 2 => 1 | 3 => 1 | 4 => 0 | 5 => 2 | _ => 3,
    dst := fun l => match l with | 0 => 0 | 1 => 1 | 2 => 2 | 3 => 3 | _ => 4,
    par := fun l => match l with | 0 => some 0 | 1 => some 1 | 2 => some 2 | 3 => some 3 | _ => none,
    tlink := fun l => match l with | 1 => true | 2 => true | 3 => true | _ => false,
    lrows := fun l => match l with | 0 => 1 | _ => 3,
    isFlush := fun l => match l with | 4 => true | 5 => true | 6 => true | _ => false,
    jgroup := fun c => c == 1,
    units := fun p => match p with | 0 => .num | 1 => .frac | _ => .prop,
    tscale := fun _ => 1,
    jorder := [1] }

/-- the same group with a residual junction: link 3 (g0 → t02) is the residual out-link -/
def exJR : Net :=
  { exJ with
    kind := fun c => match c with | 0 => .timed | 1 => .resjunction | 2 => .timed | 3 => .timed | 4 => .sink | _ => .source,
    par := fun l => match l with | 0 => some 0 | 1 => some 1 | 2 => some 2 | _ => none }

def exG : Nat → Bool := fun c => c == 0 || c == 2 || c == 3
def exJs : Nat → Bool := fun c => c == 1

/-- 6 people enter per step, half of t00 moves to g0, which sends on the stated proportions 1/2 and 3/10 (sum 4/5) -/
def exPv : Nat → Rat := fun p => match p with | 0 => 6 | 1 => 1/2 | 2 => 1/2 | _ => 3/10

def exX : Stock := fun c r => match c, r with
  | 0, 0 => 4 | 0, 1 => 8 | 0, 2 => 12 | 2, 0 => 1 | 2, 1 => 2 | 2, 2 => 3 | _, _ => 0

example : wfCheck exJ = true ∧ wfGroupRows exJ = true ∧ resCheck exJ = true := by decide +kernel
example : wfCheck exJR = true ∧ wfGroupRows exJR = true ∧ resCheck exJR = true := by decide +kernel

/-- all structural hypotheses of `group_step_junctions` / `engine_group_release_exact_junctions` hold for `exJ` -/
theorem exJ_closed : ClosedGroupJ exJ exG exJs 3 :=
  ⟨by decide +kernel, by decide +kernel, by decide +kernel, by decide +kernel, by decide +kernel, by decide +kernel,
   by decide +kernel, by decide +kernel⟩

/-- … and the driver's decidable form says the same -/
example : closedGroupJCheck exJ exG exJs 3 = true := by decide +kernel
/-- the check refuses a group that is not closed: `{t00, t01}` without `t02` (the junction feeds a non-member) -/
example : closedGroupJCheck exJ (fun c => c == 0 || c == 2) exJs 3 = false := by decide +kernel

theorem exJR_closed : ClosedGroupJ exJR exG exJs 3 :=
  ⟨by decide +kernel, by decide +kernel, by decide +kernel, by decide +kernel, by decide +kernel, by decide +kernel,
   by decide +kernel, by decide +kernel⟩

theorem exX_nonneg (net : Net) : NonnegOffSink net exX := by
  intro c r _
  unfold exX
  split <;> norm_num

theorem exPv_nonneg (net : Net) (l : Nat) : 0 ≤ pOf net exPv l := by
  unfold pOf exPv
  split
  · split <;> norm_num
  · exact le_refl 0

/-- the step the theorem is about exists, and really moves people through the junction: rows 1 and 2 of t00 give 4 and 6
    people to g0, which passes 4·(1/2)/(4/5) = 5/2, 15/4 on to t01 and 4·(3/10)/(4/5) = 3/2, 9/4 to t02, rows kept;
    group rows before (5, 10, 15), after (10, 15, 6); flush links 4 + 1 + 0 = 5 -/
example : (step exJ 1 exPv exX).map (fun p =>
      [[p.1 1 0, p.1 1 1, p.1 1 2], [p.1 2 0, p.1 2 1, p.1 2 2], [p.1 3 0, p.1 3 1, p.1 3 2],
       [groupRow exJ exG exX 0, groupRow exJ exG exX 1, groupRow exJ exG exX 2],
       [groupRow exJ exG p.2 0, groupRow exJ exG p.2 1, groupRow exJ exG p.2 2], [groupFlush exJ exG p.1]])
    = some [[0, 4, 6], [0, 5/2, 15/4], [0, 3/2, 9/4], [5, 10, 15], [10, 15, 6], [5]] := by decide +kernel

/-- the conclusion of `group_step_junctions` on `exJ`, obtained FROM THE THEOREM (its hypotheses are satisfiable) -/
example : ∀ fl x', step exJ 1 exPv exX = some (fl, x') →
    (∀ r, r + 1 < 3 → groupRow exJ exG x' r = groupRow exJ exG exX (r + 1)) := by
  intro fl x' h
  exact (group_step_junctions exJ (by decide +kernel) (by decide +kernel) (by decide +kernel) exG exJs 3 exJ_closed 1
    (by norm_num) exPv exX x' fl (exX_nonneg _) (fun l _ _ => exPv_nonneg _ l) h).1

/-- residual junction: 1/2 to t01, the remainder to t02 -/
example : (step exJR 1 exPv exX).map (fun p =>
      [[p.1 2 0, p.1 2 1, p.1 2 2], [p.1 3 0, p.1 3 1, p.1 3 2],
       [groupRow exJR exG p.2 0, groupRow exJR exG p.2 1, groupRow exJR exG p.2 2], [groupFlush exJR exG p.1]])
    = some [[0, 2, 3], [0, 2, 3], [10, 15, 6], [5]] := by decide +kernel

/-- a 7-step run exists (`IsRun` is inhabited through `run_isRun`), and at step 5 the group's flush links carry the 6
    people who entered at step 2, whatever way they took through the group -/
example : (run exJ 1 (List.replicate 7 exPv) exX).isSome = true := by decide +kernel
example : ((run exJ 1 (List.replicate 5 exPv) exX).bind (fun x => step exJ 1 exPv x)).map
    (fun p => groupFlush exJ exG p.1) = some 6 := by decide +kernel
example : ((run exJR 1 (List.replicate 5 exPv) exX).bind (fun x => step exJR 1 exPv x)).map
    (fun p => groupFlush exJR exG p.1) = some 6 := by decide +kernel

/-! ### the theorem is about the NORMALISING rule

    The same step with the stated proportions used as they are (out-link = inflow · p_l, no division by Σp): with
    1/2 and 3/10 one fifth of the people who pass through the junction disappear, and the group row sums no longer shift. -/

/-- `JunctionCompartment.balance` WITHOUT the division by the total proportion (not what the code does) -/
def balanceOneRaw (pv : Nat → Rat) (fl : Flow) (j : Nat) : Flow :=
  fun l r => if net.src l = j then jInflow net fl j r * pOf net pv l else fl l r

def stepRaw (dt : Rat) (pv : Nat → Rat) (x : Stock) : Flow × Stock :=
  let fl := net.jorder.foldl (balanceOneRaw net pv) (resolveFlow net (convert net dt pv x) x)
  (fl, updateComps net x fl)

/-- **raw_rule_fails**: on `exJ` (all hypotheses of `group_step_junctions` hold: `exJ_closed`) the un-normalised rule
    breaks conclusion 1: group row 1 before the step holds 10 people, group row 0 after it only 46/5 — whereas the real
    rule (`step`, normalising) gives 10 -/
theorem raw_rule_fails :
    groupRow exJ exG exX 1 = 10 ∧ groupRow exJ exG (stepRaw exJ 1 exPv exX).2 0 = 46/5
    ∧ (step exJ 1 exPv exX).map (fun p => groupRow exJ exG p.2 0) = some 10 := by
  refine ⟨?_, ?_, ?_⟩ <;> decide +kernel

/-- with proportions that sum to exactly 1 the two rules agree (so the difference above is the normalisation, nothing else) -/
example : (step exJ 1 (fun p => match p with | 0 => 6 | 1 => 1/2 | 2 => 5/8 | _ => 3/8) exX).map (fun p => groupRow exJ exG p.2 0)
    = some (groupRow exJ exG (stepRaw exJ 1 (fun p => match p with | 0 => 6 | 1 => 1/2 | 2 => 5/8 | _ => 3/8) exX).2 0) := by
  decide +kernel

end Atomica.C05
