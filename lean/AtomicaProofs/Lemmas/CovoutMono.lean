/-
  Lemmas for C12 (Covout): with the 'best' impact interaction (no explicit values) and programs cached by
  decreasing |delta|, the weighted sum over the table has a closed recursive form for each coverage
  interaction, and that form is monotone in every coverage when all deltas have the same sign.
-/
import AtomicaProofs.Lemmas.CovoutTable

namespace Atomica.Covout

/-- delta of the first member of a combination (0 for the empty one) -/
def firstD : List Rat → List Bool → Rat
  | d :: _, true :: _ => d
  | _ :: ds, false :: m => firstD ds m
  | _, _ => 0

theorem firstD_noTrue (ds : List Rat) (m : List Bool) (h : anyTrue m = false) : firstD ds m = 0 := by
  induction ds generalizing m with
  | nil => cases m <;> simp [firstD]
  | cons d ds ih =>
    cases m with
    | nil => simp [firstD]
    | cons b m =>
      simp only [anyTrue, Bool.or_eq_false_iff] at h
      rw [h.1]; simp only [firstD]; exact ih m h.2

theorem argmax_members_eq_firstD (ds : List Rat) (m : List Bool) (hs : ds.Pairwise (fun x y => |y| ≤ |x|))
    (ha : anyTrue m = true) : argmaxAbs (members ds m) = firstD ds m := by
  induction ds generalizing m with
  | nil => cases m <;> simp [members, firstD, argmaxAbs]
  | cons d ds ih =>
    cases m with
    | nil => simp [anyTrue] at ha
    | cons b m =>
      rw [List.pairwise_cons] at hs
      cases b with
      | true =>
        simp only [members, firstD]
        exact argmaxAbs_sorted d _ (fun y hy => hs.1 y ((members_sublist ds m).subset hy))
      | false =>
        simp only [members, firstD]
        exact ih m hs.2 (by simpa [anyTrue] using ha)

theorem comboOut_eq_firstD (b : Rat) (ids : List Nat) (ds : List Rat) (m : List Bool)
    (hs : ds.Pairwise (fun x y => |y| ≤ |x|)) : comboOut b [] ids ds m = firstD ds m := by
  by_cases ha : anyTrue m = true
  · simp only [comboOut, ha, if_true, lookupLast, List.foldl_nil]
    exact argmax_members_eq_firstD ds m hs ha
  · have ha' : anyTrue m = false := by simpa using ha
    rw [comboOut_noTrue _ _ _ _ _ ha', firstD_noTrue _ _ ha']

/-! ### closed forms -/

def Vr : List Rat → List Rat → Rat
  | c :: cs, d :: ds => c * d + (1 - c) * Vr cs ds
  | _, _ => 0

def Vn : Rat → Rat → List Rat → List Rat → Rat
  | lo, hi, c :: cs, d :: ds => d * max 0 (min hi c - lo) + Vn (max lo c) hi cs ds
  | _, _, _, _ => 0

def Va : List Rat → List Rat → List Rat → Rat
  | a :: as, r :: rs, d :: ds => d * (a + r * listSum as) + (1 - r) * Va as rs ds
  | _, _, _ => 0

theorem sumC_randomW_firstD (n : Nat) (cs ds : List Rat) (hc : cs.length = n) (hd : ds.length = n) :
    sumC n (fun m => randomW cs m * firstD ds m) = Vr cs ds := by
  induction n generalizing cs ds with
  | zero =>
    have : cs = [] := List.length_eq_zero_iff.mp hc
    subst this; simp [sumC, firstD, Vr]
  | succ n ih =>
    match cs, ds, hc, hd with
    | c :: cs', d :: ds', hc', hd' =>
      have hl : cs'.length = n := by simpa using hc'
      simp only [sumC, randomW, firstD, Vr, Bool.false_eq_true, if_false, if_true]
      have h1 : sumC n (fun m => (1 - c) * randomW cs' m * firstD ds' m) = (1 - c) * Vr cs' ds' := by
        rw [← ih cs' ds' hl (by simpa using hd'), ← sumC_mul_left]
        apply sumC_congr; intro m _; ring
      have h2 : sumC n (fun m => c * randomW cs' m * d) = c * d := by
        have : sumC n (fun m => c * randomW cs' m * d) = sumC n (fun m => (c * d) * randomW cs' m) := by
          apply sumC_congr; intro m _; ring
        rw [this, sumC_mul_left, sumC_randomW n cs' hl]; ring
      rw [h1, h2]; ring

theorem sumC_nestedG_firstD (n : Nat) (lo hi : Rat) (cs ds : List Rat) (hc : cs.length = n) (hd : ds.length = n) :
    sumC n (fun m => nestedG lo hi cs m * firstD ds m) = Vn lo hi cs ds := by
  induction n generalizing lo hi cs ds with
  | zero =>
    have : cs = [] := List.length_eq_zero_iff.mp hc
    subst this; simp [sumC, firstD, Vn]
  | succ n ih =>
    match cs, ds, hc, hd with
    | c :: cs', d :: ds', hc', hd' =>
      have hl : cs'.length = n := by simpa using hc'
      simp only [sumC, nestedG, firstD, Vn, minQ_eq, maxQ_eq]
      rw [ih _ _ cs' ds' hl (by simpa using hd'), sumC_mul_right, sumC_nestedG n _ _ cs' hl]
      ring

theorem sumC_addW_firstD (n : Nat) (as rs ds : List Rat) (ha : as.length = n) (hr : rs.length = n)
    (hd : ds.length = n) : sumC n (fun m => addW as rs m * firstD ds m) = Va as rs ds := by
  induction n generalizing as rs ds with
  | zero =>
    have : as = [] := List.length_eq_zero_iff.mp ha
    subst this; simp [sumC, addW, Va]
  | succ n ih =>
    match as, rs, ds, ha, hr, hd with
    | a :: as', r :: rs', d :: ds', ha', hr', hd' =>
      have hla : as'.length = n := by simpa using ha'
      have hlr : rs'.length = n := by simpa using hr'
      simp only [sumC, addW, firstD, Va, Bool.false_eq_true, if_false, if_true, zero_mul, zero_add]
      have h1 : sumC n (fun m => (1 - r) * addW as' rs' m * firstD ds' m) = (1 - r) * Va as' rs' ds' := by
        rw [← ih as' rs' ds' hla hlr (by simpa using hd'), ← sumC_mul_left]
        apply sumC_congr; intro m _; ring
      have h2 : sumC n (fun m => (a * randomW rs' m + r * addW as' rs' m) * d) = d * (a + r * listSum as') := by
        rw [sumC_mul_right, sumC_add, sumC_mul_left, sumC_mul_left, sumC_randomW n rs' hlr,
          sumC_addW n as' rs' hla hlr]
        ring
      rw [h1, h2]; ring

/-- once the prefix has reached 100 % nothing more is additive -/
theorem adds_zero (p : Rat) (cs : List Rat) (hp : 1 ≤ p) (hc : ∀ c ∈ cs, 0 ≤ c) : ∀ a ∈ adds p cs, a = 0 := by
  induction cs generalizing p with
  | nil => simp [adds]
  | cons c cs ih =>
    have hc0 := hc c (by simp)
    intro a ha
    simp only [adds, List.mem_cons] at ha
    rcases ha with rfl | ha
    · rw [addOf_eq p c hc0, min_eq_left (by linarith), min_eq_left hp]; ring
    · exact ih (p + c) (by linarith) (fun x hx => hc x (by simp [hx])) a ha

theorem listSum_eq_zero (l : List Rat) (h : ∀ x ∈ l, x = 0) : listSum l = 0 := by
  induction l with
  | nil => rfl
  | cons x xs ih => rw [listSum_cons, h x (by simp), ih (fun y hy => h y (by simp [hy]))]; ring

theorem dot_eq_zero (l ds : List Rat) (h : ∀ x ∈ l, x = 0) : dot l ds = 0 := by
  induction l generalizing ds with
  | nil => simp [dot]
  | cons x xs ih =>
    cases ds with
    | nil => simp [dot]
    | cons d ds => simp only [dot]; rw [h x (by simp), ih ds (fun y hy => h y (by simp [hy]))]; ring

/-- with 'best' outcomes in decreasing order only the additive shares matter -/
theorem Va_eq_dot (p : Rat) (cs ds : List Rat) (hp : 0 ≤ p) (hc : ∀ c ∈ cs, 0 ≤ c) :
    Va (adds p cs) (rps p cs) ds = dot (adds p cs) ds := by
  induction cs generalizing p ds with
  | nil => simp [adds, rps, Va, dot]
  | cons c cs ih =>
    have hc0 := hc c (by simp)
    have hcs : ∀ c ∈ cs, 0 ≤ c := fun x hx => hc x (by simp [hx])
    cases ds with
    | nil => simp [adds, rps, Va, dot]
    | cons d ds =>
      simp only [adds, rps, Va, dot]
      rw [ih (p + c) ds (by linarith) hcs]
      by_cases hr : rpOf p c = 0
      · rw [hr]; ring
      · have h1 := rpOf_ne_zero p c hc0 hr
        have hz := adds_zero (p + c) cs h1.le hcs
        rw [listSum_eq_zero _ hz, dot_eq_zero _ ds hz]; ring

theorem adds_eq_self (p : Rat) (cs : List Rat) (hp : 0 ≤ p) (hc : ∀ c ∈ cs, 0 ≤ c) (h : p + listSum cs ≤ 1) :
    adds p cs = cs := by
  induction cs generalizing p with
  | nil => rfl
  | cons c cs ih =>
    have hc0 := hc c (by simp)
    have hcs : ∀ c ∈ cs, 0 ≤ c := fun x hx => hc x (by simp [hx])
    have hs := listSum_nonneg cs hcs
    rw [listSum_cons] at h
    simp only [adds]
    rw [ih (p + c) (by linarith) hcs (by linarith), addOf_eq p c hc0, min_eq_right (by linarith),
      min_eq_right (by linarith)]
    congr 1; ring

/-! ### monotonicity of the closed forms -/

/-- decreasing and non-negative -/
def Dec (ds : List Rat) : Prop := ds.Pairwise (fun x y => y ≤ x) ∧ ∀ d ∈ ds, 0 ≤ d

theorem Dec.tail {d : Rat} {ds : List Rat} (h : Dec (d :: ds)) : Dec ds :=
  ⟨(List.pairwise_cons.mp h.1).2, fun x hx => h.2 x (by simp [hx])⟩

theorem Dec.bound {d : Rat} {ds : List Rat} (h : Dec (d :: ds)) : ∀ x ∈ ds, 0 ≤ x ∧ x ≤ d :=
  fun x hx => ⟨h.2 x (by simp [hx]), (List.pairwise_cons.mp h.1).1 x hx⟩

theorem Dec.head {d : Rat} {ds : List Rat} (h : Dec (d :: ds)) : 0 ≤ d := h.2 d (by simp)

theorem Vr_bounds (cs ds : List Rat) (D : Rat) (hc : ∀ c ∈ cs, 0 ≤ c ∧ c ≤ 1) (hd : ∀ d ∈ ds, 0 ≤ d ∧ d ≤ D)
    (hD : 0 ≤ D) : 0 ≤ Vr cs ds ∧ Vr cs ds ≤ D := by
  induction cs generalizing ds with
  | nil => simp [Vr, hD]
  | cons c cs ih =>
    cases ds with
    | nil => simp [Vr, hD]
    | cons d ds =>
      have hc0 := hc c (by simp)
      have hd0 := hd d (by simp)
      obtain ⟨h1, h2⟩ := ih ds (fun x hx => hc x (by simp [hx])) (fun x hx => hd x (by simp [hx]))
      simp only [Vr]
      constructor
      · have := mul_nonneg hc0.1 hd0.1
        have := mul_nonneg (by linarith : 0 ≤ 1 - c) h1
        linarith
      · nlinarith [mul_nonneg hc0.1 (by linarith : 0 ≤ D - d), mul_nonneg (by linarith : 0 ≤ 1 - c) (by linarith : 0 ≤ D - Vr cs ds)]

theorem Vr_mono (cs cs' ds : List Rat) (h : List.Forall₂ (· ≤ ·) cs cs') (hc : ∀ c ∈ cs, 0 ≤ c ∧ c ≤ 1)
    (hc' : ∀ c ∈ cs', 0 ≤ c ∧ c ≤ 1) (hd : Dec ds) : Vr cs ds ≤ Vr cs' ds := by
  induction h generalizing ds with
  | nil => exact le_refl _
  | @cons c c' cs cs' hcc _ ih =>
    cases ds with
    | nil => simp [Vr]
    | cons d ds =>
      have hc0 := hc c (by simp)
      have hc0' := hc' c' (by simp)
      have hcs : ∀ c ∈ cs, 0 ≤ c ∧ c ≤ 1 := fun x hx => hc x (by simp [hx])
      have hcs' : ∀ c ∈ cs', 0 ≤ c ∧ c ≤ 1 := fun x hx => hc' x (by simp [hx])
      have ih' := ih ds hcs hcs' hd.tail
      have hb := (Vr_bounds cs' ds d hcs' hd.bound hd.head).2
      simp only [Vr]
      nlinarith [mul_nonneg (by linarith : 0 ≤ c' - c) (by linarith : 0 ≤ d - Vr cs' ds),
        mul_nonneg (by linarith : 0 ≤ 1 - c) (by linarith : 0 ≤ Vr cs' ds - Vr cs ds)]

theorem Vn_lo (lo lo' : Rat) (cs ds : List Rat) (D : Rat) (hD : 0 ≤ D) (hl : lo ≤ lo')
    (hc : ∀ c ∈ cs, 0 ≤ c ∧ c ≤ 1) (hd : ∀ d ∈ ds, 0 ≤ d ∧ d ≤ D) :
    Vn lo' 1 cs ds ≤ Vn lo 1 cs ds ∧ Vn lo 1 cs ds ≤ Vn lo' 1 cs ds + D * (lo' - lo) := by
  have hDl : 0 ≤ D * (lo' - lo) := mul_nonneg hD (by linarith)
  induction cs generalizing lo lo' ds with
  | nil => simp only [Vn]; constructor <;> linarith
  | cons c cs ih =>
    cases ds with
    | nil => simp only [Vn]; constructor <;> linarith
    | cons d ds =>
      have hc0 := hc c (by simp)
      have hd0 := hd d (by simp)
      have hA : 0 ≤ max 0 (c - lo) - max 0 (c - lo') := by
        simp only [max_def]; split_ifs <;> linarith
      have hB : 0 ≤ max lo' c - max lo c := by
        simp only [max_def]; split_ifs <;> linarith
      have hAB : (max 0 (c - lo) - max 0 (c - lo')) + (max lo' c - max lo c) = lo' - lo := by
        simp only [max_def]; split_ifs <;> linarith
      have hml : max lo c ≤ max lo' c := by linarith
      obtain ⟨h1, h2⟩ := ih (max lo c) (max lo' c) ds hml (fun x hx => hc x (by simp [hx]))
        (fun x hx => hd x (by simp [hx])) (mul_nonneg hD (by linarith))
      simp only [Vn, min_eq_right hc0.2]
      have hdA : 0 ≤ d * (max 0 (c - lo) - max 0 (c - lo')) := mul_nonneg hd0.1 hA
      have hdA' : d * (max 0 (c - lo) - max 0 (c - lo')) ≤ D * (max 0 (c - lo) - max 0 (c - lo')) :=
        mul_le_mul_of_nonneg_right hd0.2 hA
      have hDAB : D * (lo' - lo) = D * (max 0 (c - lo) - max 0 (c - lo')) + D * (max lo' c - max lo c) := by
        rw [← hAB]; ring
      constructor <;> nlinarith

theorem Vn_mono (lo : Rat) (cs cs' ds : List Rat) (h : List.Forall₂ (· ≤ ·) cs cs')
    (hc : ∀ c ∈ cs, 0 ≤ c ∧ c ≤ 1) (hc' : ∀ c ∈ cs', 0 ≤ c ∧ c ≤ 1) (hd : Dec ds) :
    Vn lo 1 cs ds ≤ Vn lo 1 cs' ds := by
  induction h generalizing lo ds with
  | nil => exact le_refl _
  | @cons c c' cs cs' hcc _ ih =>
    cases ds with
    | nil => simp [Vn]
    | cons d ds =>
      have hc0 := hc c (by simp)
      have hc0' := hc' c' (by simp)
      have hcs : ∀ c ∈ cs, 0 ≤ c ∧ c ≤ 1 := fun x hx => hc x (by simp [hx])
      have hcs' : ∀ c ∈ cs', 0 ≤ c ∧ c ≤ 1 := fun x hx => hc' x (by simp [hx])
      have ih' := ih (max lo c) ds hcs hcs' hd.tail
      have hml : max lo c ≤ max lo c' := max_le_max (le_refl _) hcc
      have h2 := (Vn_lo (max lo c) (max lo c') cs' ds d hd.head hml hcs' hd.bound).2
      have hE : max 0 (c' - lo) - max 0 (c - lo) = max lo c' - max lo c := by
        simp only [max_def]; split_ifs <;> linarith
      simp only [Vn, min_eq_right hc0.2, min_eq_right hc0'.2]
      have : d * max 0 (c' - lo) - d * max 0 (c - lo) = d * (max lo c' - max lo c) := by
        rw [← hE]; ring
      linarith

/-- `T p cs ds = Σ_k d_k · additive_k` -/
theorem T_lo (p p' : Rat) (cs ds : List Rat) (D : Rat) (hD : 0 ≤ D) (hl : p ≤ p')
    (hc : ∀ c ∈ cs, 0 ≤ c) (hd : ∀ d ∈ ds, 0 ≤ d ∧ d ≤ D) :
    dot (adds p' cs) ds ≤ dot (adds p cs) ds ∧
      dot (adds p cs) ds ≤ dot (adds p' cs) ds + D * (min 1 p' - min 1 p) := by
  have hDl : 0 ≤ D * (min 1 p' - min 1 p) :=
    mul_nonneg hD (by have := min_le_min (le_refl (1 : Rat)) hl; linarith)
  induction cs generalizing p p' ds with
  | nil => simp only [adds, dot]; constructor <;> linarith
  | cons c cs ih =>
    cases ds with
    | nil => simp only [adds, dot]; constructor <;> linarith
    | cons d ds =>
      have hc0 := hc c (by simp)
      have hd0 := hd d (by simp)
      have hA : 0 ≤ (min 1 (p + c) - min 1 p) - (min 1 (p' + c) - min 1 p') := by
        simp only [min_def]; split_ifs <;> linarith
      have hB : 0 ≤ min 1 (p' + c) - min 1 (p + c) := by
        simp only [min_def]; split_ifs <;> linarith
      obtain ⟨h1, h2⟩ := ih (p + c) (p' + c) ds (by linarith) (fun x hx => hc x (by simp [hx]))
        (fun x hx => hd x (by simp [hx])) (mul_nonneg hD hB)
      simp only [adds, dot, addOf_eq _ c hc0]
      have hdA := mul_nonneg hd0.1 hA
      have hdA' : d * ((min 1 (p + c) - min 1 p) - (min 1 (p' + c) - min 1 p'))
          ≤ D * ((min 1 (p + c) - min 1 p) - (min 1 (p' + c) - min 1 p')) :=
        mul_le_mul_of_nonneg_right hd0.2 hA
      constructor <;> nlinarith

theorem T_mono (p : Rat) (cs cs' ds : List Rat) (h : List.Forall₂ (· ≤ ·) cs cs')
    (hc : ∀ c ∈ cs, 0 ≤ c) (hc' : ∀ c ∈ cs', 0 ≤ c) (hd : Dec ds) :
    dot (adds p cs) ds ≤ dot (adds p cs') ds := by
  induction h generalizing p ds with
  | nil => exact le_refl _
  | @cons c c' cs cs' hcc _ ih =>
    cases ds with
    | nil => simp [adds, dot]
    | cons d ds =>
      have hc0 := hc c (by simp)
      have hc0' := hc' c' (by simp)
      have hcs : ∀ c ∈ cs, 0 ≤ c := fun x hx => hc x (by simp [hx])
      have hcs' : ∀ c ∈ cs', 0 ≤ c := fun x hx => hc' x (by simp [hx])
      have ih' := ih (p + c) ds hcs hcs' hd.tail
      have h2 := (T_lo (p + c) (p + c') cs' ds d hd.head (by linarith) hcs' hd.bound).2
      simp only [adds, dot, addOf_eq _ _ hc0, addOf_eq _ _ hc0']
      nlinarith

/-! ### all deltas ≤ 0: negate -/

theorem Vr_neg (cs ds : List Rat) : Vr cs (ds.map (fun d => -d)) = - Vr cs ds := by
  induction cs generalizing ds with
  | nil => simp [Vr]
  | cons c cs ih =>
    cases ds with
    | nil => simp [Vr]
    | cons d ds => simp only [List.map_cons, Vr, ih ds]; ring

theorem Vn_neg (lo hi : Rat) (cs ds : List Rat) : Vn lo hi cs (ds.map (fun d => -d)) = - Vn lo hi cs ds := by
  induction cs generalizing lo ds with
  | nil => simp [Vn]
  | cons c cs ih =>
    cases ds with
    | nil => simp [Vn]
    | cons d ds => simp only [List.map_cons, Vn, ih _ ds]; ring

theorem dot_neg (as ds : List Rat) : dot as (ds.map (fun d => -d)) = - dot as ds := by
  induction as generalizing ds with
  | nil => simp [dot]
  | cons a as ih =>
    cases ds with
    | nil => simp [dot]
    | cons d ds => simp only [List.map_cons, dot, ih ds]; ring

/-! ### `get_outcome` with 'best' outcomes in closed form -/

/-- the value of the weighted sum over the table, 'best' impact interaction, programs in decreasing |delta| -/
def bestVal (inter : Interaction) (cov ds : List Rat) : Rat :=
  match inter with
  | .random => Vr cov ds
  | .nested => Vn 0 1 cov ds
  | .additive => dot (adds 0 cov) ds

theorem bestVal_mono (inter : Interaction) (cs cs' ds : List Rat) (h : List.Forall₂ (· ≤ ·) cs cs')
    (hc : ∀ c ∈ cs, 0 ≤ c ∧ c ≤ 1) (hc' : ∀ c ∈ cs', 0 ≤ c ∧ c ≤ 1) (hd : Dec ds) :
    bestVal inter cs ds ≤ bestVal inter cs' ds := by
  cases inter with
  | random => exact Vr_mono cs cs' ds h hc hc' hd
  | nested => exact Vn_mono 0 cs cs' ds h hc hc' hd
  | additive => exact T_mono 0 cs cs' ds h (fun c hx => (hc c hx).1) (fun c hx => (hc' c hx).1) hd

theorem bestVal_neg (inter : Interaction) (cs ds : List Rat) :
    bestVal inter cs (ds.map (fun d => -d)) = - bestVal inter cs ds := by
  cases inter with
  | random => exact Vr_neg cs ds
  | nested => exact Vn_neg 0 1 cs ds
  | additive => exact dot_neg _ ds

theorem outcomeSorted_best_eq (inter : Interaction) (b : Rat) (sp : List Prog)
    (hc : ∀ p ∈ sp, 0 ≤ p.cov ∧ p.cov ≤ 1) (hs : MagSorted b sp) :
    outcomeSorted inter b sp [] = b + bestVal inter (covs sp) (deltas b sp) := by
  have hsd : (deltas b sp).Pairwise (fun x y => |y| ≤ |x|) := by
    unfold deltas; rw [List.pairwise_map]; exact hs
  have hcov : ∀ c ∈ covs sp, 0 ≤ c ∧ c ≤ 1 := by
    intro c hx
    simp only [covs, List.mem_map] at hx
    obtain ⟨p, hp, rfl⟩ := hx
    exact hc p hp
  match sp, hc, hsd, hcov with
  | [], _, _, _ => cases inter <;> simp [outcomeSorted, bestVal, covs, deltas, Vr, Vn, adds, dot]
  | [p], hc, _, _ =>
    have hp := hc p (by simp)
    cases inter with
    | random => simp [outcomeSorted, bestVal, covs, deltas, Vr]
    | nested =>
      simp only [outcomeSorted, bestVal, covs, deltas, Vn, List.map_cons, List.map_nil]
      rw [min_eq_right hp.2, sub_zero, max_eq_right hp.1]; ring
    | additive =>
      simp only [outcomeSorted, bestVal, covs, deltas, adds, dot, List.map_cons, List.map_nil]
      rw [addOf_eq 0 p.cov hp.1, zero_add, min_eq_right hp.2, min_eq_right (by norm_num : (0 : Rat) ≤ 1)]; ring
  | p :: q :: rest, hc, hsd, hcov =>
    have hf : ∀ (w : List Bool → Rat),
        sumC (p :: q :: rest).length (fun m => w m * comboOut b [] (ids (p :: q :: rest)) (deltas b (p :: q :: rest)) m)
        = sumC (p :: q :: rest).length (fun m => w m * firstD (deltas b (p :: q :: rest)) m) := by
      intro w; apply sumC_congr; intro m _; rw [comboOut_eq_firstD b _ _ m hsd]
    have hl1 : (covs (p :: q :: rest)).length = (p :: q :: rest).length := by simp [covs]
    have hl2 : (deltas b (p :: q :: rest)).length = (p :: q :: rest).length := by simp [deltas]
    cases inter with
    | random =>
      simp only [outcomeSorted, tableSum_eq, bestVal]
      rw [hf, sumC_randomW_firstD _ _ _ hl1 hl2]
    | nested =>
      simp only [outcomeSorted, tableSum_eq, bestVal]
      rw [hf, sumC_nestedG_firstD _ 0 1 _ _ hl1 hl2]
    | additive =>
      simp only [outcomeSorted, tableSum_eq, bestVal]
      split_ifs with hsum
      · rw [hf, sumC_addW_firstD _ _ _ _ (by rw [adds_length]; exact hl1) (by rw [rps_length]; exact hl1) hl2,
          Va_eq_dot 0 _ _ (le_refl _) (fun c hx => (hcov c hx).1)]
      · rw [adds_eq_self 0 _ (le_refl _) (fun c hx => (hcov c hx).1) (by linarith)]

/-! ### sorting commutes with changing coverages -/

/-- same program (identity and outcome), coverage not smaller -/
def CovLe (p p' : Prog) : Prop := p.id = p'.id ∧ p.out = p'.out ∧ p.cov ≤ p'.cov

theorem insByMag_rel (b : Rat) (x x' : Prog) (l l' : List Prog) (hx : CovLe x x') (h : List.Forall₂ CovLe l l') :
    List.Forall₂ CovLe (insByMag b x l) (insByMag b x' l') := by
  induction h with
  | nil => exact List.Forall₂.cons hx List.Forall₂.nil
  | @cons y y' ys ys' hy hys ih =>
    simp only [insByMag]
    rw [← hx.2.1, ← hy.2.1]
    split_ifs
    · exact List.Forall₂.cons hy ih
    · exact List.Forall₂.cons hx (List.Forall₂.cons hy hys)

theorem sortProgs_rel (b : Rat) (ps ps' : List Prog) (h : List.Forall₂ CovLe ps ps') :
    List.Forall₂ CovLe (sortProgs b ps) (sortProgs b ps') := by
  induction h with
  | nil => exact List.Forall₂.nil
  | @cons p p' ps ps' hp _ ih =>
    simp only [sortProgs, List.foldr_cons] at *
    exact insByMag_rel b p p' _ _ hp ih

theorem rel_deltas (b : Rat) (sp sp' : List Prog) (h : List.Forall₂ CovLe sp sp') : deltas b sp = deltas b sp' := by
  induction h with
  | nil => rfl
  | @cons p p' ps ps' hp _ ih => simp only [deltas, List.map_cons] at *; rw [ih, hp.2.1]

theorem rel_covs (sp sp' : List Prog) (h : List.Forall₂ CovLe sp sp') :
    List.Forall₂ (· ≤ ·) (covs sp) (covs sp') := by
  induction h with
  | nil => exact List.Forall₂.nil
  | @cons p p' ps ps' hp _ ih => simp only [covs, List.map_cons] at *; exact List.Forall₂.cons hp.2.2 ih

end Atomica.Covout
