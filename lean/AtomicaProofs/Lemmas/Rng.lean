/-
  Helper lemmas for C17 (AtomicaModel.Protocol.Rng): total "perturb" view of the sampling functions,
  duplicate-free lists, arithmetic of stream segments.
-/
import AtomicaModel.Protocol.Rng
import Mathlib.Data.List.Nodup
import Mathlib.Tactic.Linarith
import Mathlib.Tactic.Ring

namespace Atomica.Rng

/-! ### stream segments -/

/-- segments `[i*len, (i+1)*len)` of one stream are pairwise disjoint -/
theorem segment_disjoint (len i j a b : Nat) (hij : i ≠ j) (ha : a < len) (hb : b < len) :
    i * len + a ≠ j * len + b := by
  intro h
  rcases Nat.lt_or_gt_of_ne hij with hlt | hgt
  · have : (i + 1) * len ≤ j * len := Nat.mul_le_mul_right len hlt
    have h2 : (i + 1) * len = i * len + len := by ring
    omega
  · have : (j + 1) * len ≤ i * len := Nat.mul_le_mul_right len hgt
    have h2 : (j + 1) * len = j * len + len := by ring
    omega

/-! ### perturbation of lists -/

theorem perturbEach_length (sg : Rat) (z : Draws) (off : Nat) (l : List Rat) :
    (perturbEach sg z off l).length = l.length := by
  induction l generalizing off with
  | nil => rfl
  | cons v vs ih => simp [perturbEach, ih]

theorem perturbEach_zero (z : Draws) (off : Nat) (l : List Rat) : perturbEach 0 z off l = l := by
  induction l generalizing off with
  | nil => rfl
  | cons v vs ih => simp [perturbEach, ih]

theorem map_add_zero (l : List Rat) : l.map (· + (0 : Rat)) = l := by
  induction l with
  | nil => rfl
  | cons v vs ih => simp

/-! ### the total view of `Series.sample` / `sampleList` -/

/-- set the `_sampled` flag the way `TimeSeries.sample` does -/
def finish (s : Series) : Series := { s with sampled := s.hasData }

def perturbList (c : Bool) (z : Draws) : Nat → List Series → List Series
  | _, [] => []
  | off, s :: rest => finish (s.perturb c z off) :: perturbList c z (off + s.nDraws c) rest

theorem sample_ok (s : Series) (c : Bool) (z : Draws) (off : Nat) (h : s.sampled = false) :
    s.sample c z off = .ok (finish (s.perturb c z off)) := by
  simp [Series.sample, h, finish]

theorem sample_err (s : Series) (c : Bool) (z : Draws) (off : Nat) (h : s.sampled = true) :
    s.sample c z off = .error .alreadySampled := by
  simp [Series.sample, h]

theorem sampleList_ok (c : Bool) (z : Draws) (off : Nat) (l : List Series)
    (h : ∀ s ∈ l, s.sampled = false) : sampleList c z off l = .ok (perturbList c z off l) := by
  induction l generalizing off with
  | nil => rfl
  | cons s rest ih =>
      have hs : s.sampled = false := h s (by simp)
      have hr : ∀ t ∈ rest, t.sampled = false := fun t ht => h t (by simp [ht])
      simp only [sampleList, sample_ok s c z off hs, ih (off + s.nDraws c) hr, perturbList]

theorem perturbList_length (c : Bool) (z : Draws) (off : Nat) (l : List Series) :
    (perturbList c z off l).length = l.length := by
  induction l generalizing off with
  | nil => rfl
  | cons s rest ih => simp [perturbList, ih]

/-! ### duplicate-free lists -/

theorem nodupB_iff (s : List Slot) : nodupB s = true ↔ s.Nodup := by
  induction s with
  | nil => simp [nodupB]
  | cons x xs ih => simp [nodupB, ih, List.nodup_cons]

theorem dedup_mem (l : List (Nat × Nat)) (x : Nat × Nat) : x ∈ dedup l ↔ x ∈ l := by
  induction l with
  | nil => simp [dedup]
  | cons y ys ih =>
      unfold dedup
      by_cases hy : (dedup ys).contains y = true
      · simp only [hy, if_true, List.mem_cons]
        constructor
        · intro h; exact Or.inr (ih.mp h)
        · rintro (rfl | h)
          · simpa using hy
          · exact ih.mpr h
      · simp only [hy, List.mem_cons]
        simp only [Bool.false_eq_true, if_false, List.mem_cons, ih]

theorem dedup_length_le (l : List (Nat × Nat)) : (dedup l).length ≤ l.length := by
  induction l with
  | nil => simp [dedup]
  | cons y ys ih =>
      unfold dedup
      by_cases hy : (dedup ys).contains y = true
      · simp only [hy, if_true, List.length_cons]; omega
      · simp only [hy, Bool.false_eq_true, if_false, List.length_cons]; omega

theorem dedup_length_eq_iff (l : List (Nat × Nat)) : (dedup l).length = l.length ↔ l.Nodup := by
  induction l with
  | nil => simp [dedup]
  | cons y ys ih =>
      have hle := dedup_length_le ys
      unfold dedup
      by_cases hy : (dedup ys).contains y = true
      · have hmem : y ∈ ys := (dedup_mem ys y).mp (by simpa using hy)
        simp only [hy, if_true, List.length_cons, List.nodup_cons]
        constructor
        · intro h; omega
        · intro h; exact absurd hmem h.1
      · have hnm : y ∉ ys := fun h => hy (by simpa using (dedup_mem ys y).mpr h)
        simp only [hy, Bool.false_eq_true, if_false, List.length_cons, List.nodup_cons]
        constructor
        · intro h; exact ⟨hnm, ih.mp (by omega)⟩
        · intro h; have := ih.mpr h.2; omega

theorem allDistinct_iff (sd : Seeding) (s : List Slot) :
    allDistinct sd s = true ↔ (s.map (blockId sd)).Nodup := by
  unfold allDistinct nDistinct
  rw [beq_iff_eq]
  have := dedup_length_eq_iff (s.map (blockId sd))
  simpa using this

/-- a worker that ran a task at position `p` also ran one at position 0 -/
theorem first_task_mem (s : List Slot) (hc : contiguous s = true) (w : Nat) :
    ∀ p, (⟨w, p⟩ : Slot) ∈ s → (⟨w, 0⟩ : Slot) ∈ s := by
  intro p
  induction p with
  | zero => exact id
  | succ p ih =>
      intro h
      apply ih
      have hall := List.all_eq_true.mp hc ⟨w, p + 1⟩ h
      simpa using hall

end Atomica.Rng
