/-
  Helper lemmas for C20 (lean/AtomicaProofs/Properties/C20.lean): NaN-propagating sums, bounds of sums,
  indexing into the `flatMap`/`map` shape of `plotData`, sampling of a sum of two series, the loop invariants
  of `plotDataCurrent` (the carried default method is always either the caller's option or the single resolved
  method) and of `Cascade.dataCurrent` (only first-constituent cells are modified).
-/
import AtomicaModel.Aggregate
import Mathlib.Tactic.Linarith
import Mathlib.Tactic.Ring
import Mathlib.Tactic.FieldSimp
import Mathlib.Tactic.NormNum

namespace Atomica.C20
open Atomica Atomica.Aggregate Atomica.Cascade

theorem osum_map_some (l : List Rat) : osum (l.map some) = some l.sum := by
  induction l with
  | nil => rfl
  | cons a t ih => simp [osum, ih, oadd]

theorem allSome_map_some (l : List (Rat × Rat)) :
    allSome (l.map fun p => (some p.1, p.2)) = some l := by
  induction l with
  | nil => rfl
  | cons a t ih => simp [allSome, ih]

theorem sum_bounds (l : List Rat) (lo hi : Rat) (h : ∀ v ∈ l, lo ≤ v ∧ v ≤ hi) :
    (l.length : Rat) * lo ≤ l.sum ∧ l.sum ≤ (l.length : Rat) * hi := by
  induction l with
  | nil => simp
  | cons a t ih =>
      have ha := h a (by simp)
      have := ih (fun v hv => h v (by simp [hv]))
      simp only [List.length_cons, List.sum_cons, Nat.cast_add, Nat.cast_one]
      constructor <;> nlinarith

theorem wsum_bounds (l : List (Rat × Rat)) (lo hi : Rat) (h : ∀ p ∈ l, lo ≤ p.1 ∧ p.1 ≤ hi)
    (hw : ∀ p ∈ l, 0 ≤ p.2) :
    lo * (l.map (·.2)).sum ≤ (l.map fun p => p.1 * p.2).sum
      ∧ (l.map fun p => p.1 * p.2).sum ≤ hi * (l.map (·.2)).sum := by
  induction l with
  | nil => simp
  | cons a t ih =>
      have ha := h a (by simp)
      have hwa := hw a (by simp)
      have := ih (fun v hv => h v (by simp [hv])) (fun v hv => hw v (by simp [hv]))
      simp only [List.map_cons, List.sum_cons]
      constructor <;> nlinarith

theorem flatMap_map_getElem? {α β γ : Type} (f : α → β → γ) (outs : List β) (pops : List α) (i j : Nat)
    (g : α) (o : β) (hg : pops[i]? = some g) (ho : outs[j]? = some o) :
    (pops.flatMap fun g => outs.map fun o => f g o)[i * outs.length + j]? = some (f g o) := by
  have hj : j < outs.length := (List.getElem?_eq_some_iff.mp ho).1
  induction pops generalizing i with
  | nil => simp at hg
  | cons a t ih =>
      cases i with
      | zero =>
          simp only [List.getElem?_cons_zero, Option.some.injEq] at hg
          subst hg
          simp only [List.flatMap_cons, Nat.zero_mul, Nat.zero_add]
          rw [List.getElem?_append_left (by simpa using hj)]
          simp [ho]
      | succ i =>
          simp only [List.getElem?_cons_succ] at hg
          simp only [List.flatMap_cons]
          rw [List.getElem?_append_right (by simp; nlinarith)]
          have : (i + 1) * outs.length + j - (outs.map fun o => f a o).length = i * outs.length + j := by
            simp only [List.length_map]; rw [Nat.add_mul]; omega
          rw [this]
          exact ih i hg

/-- two series on one time vector, and their pointwise sum -/
def fstS (l : List (Rat × Rat × Rat)) : List (Rat × Rat) := l.map fun x => (x.1, x.2.1)

def sndS (l : List (Rat × Rat × Rat)) : List (Rat × Rat) := l.map fun x => (x.1, x.2.2)

def addS (l : List (Rat × Rat × Rat)) : List (Rat × Rat) := l.map fun x => (x.1, x.2.1 + x.2.2)

/-- a stage's value is the sum over its expansion into compartments (with multiplicity) -/
theorem stageVal_expand (x : Nat → Rat) (s : Stage) : stageVal x s = ((expand s).map x).sum := by
  unfold stageVal expand
  induction s with
  | nil => simp
  | cons c t ih => simp [ih]

theorem nested_head (s0 : Stage) (rest : List Stage) (h : nested (s0 :: rest) = true) :
    ∀ s ∈ rest, ∀ i ∈ expand s, i ∈ expand s0 := by
  induction rest generalizing s0 with
  | nil => simp
  | cons s1 t ih =>
      simp only [nested, Bool.and_eq_true, List.all_eq_true, List.contains_iff_mem] at h
      intro s hs i hi
      rcases List.mem_cons.mp hs with rfl | hs
      · exact h.1 i hi
      · exact h.1 i (ih s1 h.2 s hs i hi)

theorem nested_tail (s0 : Stage) (rest : List Stage) (h : nested (s0 :: rest) = true) : nested rest = true := by
  cases rest with
  | nil => rfl
  | cons s1 t => simp only [nested, Bool.and_eq_true] at h; exact h.2

def popsOf : PopSpec → List Nat
  | .single p => [p]
  | .agg ps => ps

theorem method_some (m : Method) (u : Nat) : method (some m) u = m := rfl

theorem outValue_plain (d : Data) (oa : Option Method) (l p : Nat) :
    outValue d oa (.plain l) p = outValueWith d .sum (.plain l) p := rfl

theorem outValue_formula (d : Data) (oa : Option Method) (vs : List (Option Rat)) (p : Nat) :
    outValue d oa (.formula vs) p = outValueWith d .sum (.formula vs) p := rfl

theorem outValue_agg (d : Data) (oa : Option Method) (ls : List Nat) (p : Nat) :
    outValue d oa (.agg ls) p = outValueWith d (method oa (aggUnits d ls)) (.agg ls) p := rfl

theorem thirdPass_spec (d : Data) (p : Nat) (oa : Option Method) (m : Method) (os : List OutSpec)
    (hOA : ∀ ls, OutSpec.agg ls ∈ os → method oa (aggUnits d ls) = m)
    (st : Option Method) (hst : st = oa ∨ st = some m) :
    (thirdPass d p st os).2 = os.map (fun o => outValue d oa o p)
      ∧ ((thirdPass d p st os).1 = oa ∨ (thirdPass d p st os).1 = some m) := by
  induction os generalizing st with
  | nil => exact ⟨rfl, hst⟩
  | cons o rest ih =>
      have hrest : ∀ ls, OutSpec.agg ls ∈ rest → method oa (aggUnits d ls) = m :=
        fun ls h => hOA ls (List.mem_cons_of_mem _ h)
      cases o with
      | plain l =>
          have := ih hrest st hst
          simp only [thirdPass, List.map_cons, outValue_plain]
          exact ⟨by rw [this.1], this.2⟩
      | formula vs =>
          have := ih hrest st hst
          simp only [thirdPass, List.map_cons, outValue_formula]
          exact ⟨by rw [this.1], this.2⟩
      | agg ls =>
          have hm : method st (aggUnits d ls) = m := by
            rcases hst with rfl | rfl
            · exact hOA ls (by simp)
            · rfl
          have := ih hrest (some m) (Or.inr rfl)
          simp only [thirdPass, List.map_cons, outValue_agg, hm]
          exact ⟨by rw [this.1, hOA ls (by simp)], this.2⟩

theorem allPasses_spec (d : Data) (oa : Option Method) (m : Method) (outs : List OutSpec)
    (hOA : ∀ ls, OutSpec.agg ls ∈ outs → method oa (aggUnits d ls) = m)
    (req : List Nat) (st : Option Method) (hst : st = oa ∨ st = some m) :
    allPasses d outs st req = req.map fun p => (p, outs.map fun o => outValue d oa o p) := by
  induction req generalizing st with
  | nil => rfl
  | cons p rest ih =>
      have h := thirdPass_spec d p oa m outs hOA st hst
      simp only [allPasses, List.map_cons, h.1]
      rw [ih _ h.2]

theorem lookupOut_table (row : Nat → List (Option Rat)) (req : List Nat) (p j : Nat) (hp : p ∈ req) :
    lookupOut (req.map fun p => (p, row p)) p j = (row p).getD j none := by
  induction req with
  | nil => simp at hp
  | cons q rest ih =>
      by_cases hq : p = q
      · subst hq; simp [lookupOut]
      · have : p ∈ rest := by simpa [hq] using hp
        have hbeq : (p == q) = false := by simpa using hq
        simp only [lookupOut, List.map_cons, List.lookup, hbeq] at ih ⊢
        exact ih this

theorem aggregatePopCurrent_eq (m : Method) (hm : m ≠ .weighted) (parts : List (Option Rat × Rat)) :
    aggregatePopCurrent m parts = aggregateO m parts := by
  cases m <;> simp_all [aggregatePopCurrent]

theorem popLoopOuts_spec (d : Data) (oa pa : Option Method) (m' : Method) (hm' : m' ≠ .weighted)
    (outs : List OutSpec) (req : List Nat) (g : PopSpec) (hg : ∀ p ∈ popsOf g, p ∈ req)
    (js : List (Nat × OutSpec)) (hjs : ∀ x ∈ js, outs[x.1]? = some x.2)
    (hPA : ∀ x ∈ js, method pa (outUnits d x.2) = m')
    (st : Option Method) (hst : st = pa ∨ st = some m') :
    let tbl := req.map fun p => (p, outs.map fun o => outValue d oa o p)
    (popLoopOuts d tbl g st js).2 = js.map (fun x => seriesValue d oa pa x.2 g)
      ∧ ((popLoopOuts d tbl g st js).1 = pa ∨ (popLoopOuts d tbl g st js).1 = some m') := by
  intro tbl
  have hlook : ∀ p ∈ popsOf g, ∀ x ∈ js, lookupOut tbl p x.1 = outValue d oa x.2 p := by
    intro p hp x hx
    rw [lookupOut_table (fun p => outs.map fun o => outValue d oa o p) req p x.1 (hg p hp)]
    have := hjs x hx
    simp [List.getD, List.getElem?_map, this]
  induction js generalizing st with
  | nil => exact ⟨rfl, hst⟩
  | cons x rest ih =>
      obtain ⟨j, o⟩ := x
      have hjs' : ∀ x ∈ rest, outs[x.1]? = some x.2 := fun x h => hjs x (List.mem_cons_of_mem _ h)
      have hPA' : ∀ x ∈ rest, method pa (outUnits d x.2) = m' := fun x h => hPA x (List.mem_cons_of_mem _ h)
      have hlook' : ∀ p ∈ popsOf g, ∀ x ∈ rest, lookupOut tbl p x.1 = outValue d oa x.2 p :=
        fun p hp x h => hlook p hp x (List.mem_cons_of_mem _ h)
      cases g with
      | single p =>
          have := ih hjs' hPA' st hst hlook'
          simp only [popLoopOuts, List.map_cons, seriesValue]
          refine ⟨?_, this.2⟩
          rw [this.1, hlook p (by simp [popsOf]) (j, o) (by simp)]
          rfl
      | agg ps =>
          have hm : method st (outUnits d o) = m' := by
            rcases hst with rfl | rfl
            · exact hPA (j, o) (by simp)
            · rfl
          have := ih hjs' hPA' (some m') (Or.inr rfl) hlook'
          simp only [popLoopOuts, List.map_cons, seriesValue, hm]
          refine ⟨?_, this.2⟩
          rw [this.1, aggregatePopCurrent_eq m' hm', hPA (j, o) (by simp)]
          congr 2
          simp only [popParts]
          apply List.map_congr_left
          intro p hp
          rw [hlook p (by simpa [popsOf] using hp) (j, o) (by simp)]

theorem popLoop_spec (d : Data) (oa pa : Option Method) (m' : Method) (hm' : m' ≠ .weighted)
    (outs : List OutSpec) (req : List Nat) (pops : List PopSpec) (hreq : ∀ g ∈ pops, ∀ p ∈ popsOf g, p ∈ req)
    (js : List (Nat × OutSpec)) (hjs : ∀ x ∈ js, outs[x.1]? = some x.2)
    (hPA : ∀ x ∈ js, method pa (outUnits d x.2) = m')
    (st : Option Method) (hst : st = pa ∨ st = some m') :
    popLoop d (req.map fun p => (p, outs.map fun o => outValue d oa o p)) js st pops
      = pops.flatMap fun g => js.map fun x => seriesValue d oa pa x.2 g := by
  induction pops generalizing st with
  | nil => rfl
  | cons g rest ih =>
      have h := popLoopOuts_spec d oa pa m' hm' outs req g (hreq g (by simp)) js hjs hPA st hst
      simp only [popLoop, List.flatMap_cons]
      rw [h.1, ih (fun g hg => hreq g (List.mem_cons_of_mem _ hg)) _ h.2]

theorem oadd_assoc (a b c : Option Rat) : oadd (oadd a b) c = oadd a (oadd b c) := by
  cases a <;> cases b <;> cases c <;> simp [oadd, add_assoc]

theorem getD_set_self (l : List (Option Rat)) (i : Nat) (v : Option Rat) (h : i < l.length) :
    (l.set i v).getD i none = v := by
  simp [List.getD, h]

theorem getD_set_ne (l : List (Option Rat)) (i j : Nat) (v : Option Rat) (h : i ≠ j) :
    (l.set i v).getD j none = l.getD j none := by
  simp [List.getD, h]

/-- one stage of the code, when the first constituent does not recur in the stage: only the first constituent's
cell changes, and it becomes the sum of the stage's entries -/
theorem dataCurrentStage_spec (store : List (Option Rat)) (c0 : Nat) (rest : List Nat)
    (h0 : c0 < store.length) (hnot : c0 ∉ rest) :
    dataCurrentStage store c0 rest
      = store.set c0 (oadd (store.getD c0 none) (osum (rest.map fun c => store.getD c none))) := by
  unfold dataCurrentStage
  induction rest generalizing store with
  | nil =>
      simp only [List.foldl_nil, List.map_nil, osum]
      have : oadd (store.getD c0 none) (some 0) = store.getD c0 none := by
        cases store.getD c0 none <;> simp [oadd]
      rw [this]
      apply List.ext_getElem? ; intro j
      by_cases hj : c0 = j
      · subst hj; simp [h0, List.getD]
      · simp [hj]
  | cons c t ih =>
      have hc : c0 ≠ c := fun h => hnot (by simp [h])
      have ht : c0 ∉ t := fun h => hnot (by simp [h])
      simp only [List.foldl_cons, List.map_cons, osum]
      rw [ih _ (by simpa using h0) ht, getD_set_self _ _ _ h0, List.set_set, oadd_assoc]
      congr 4
      apply List.map_congr_left
      intro c' hc'
      exact getD_set_ne _ _ _ _ (fun h => ht (h ▸ hc'))

/-- every stage's first constituent occurs neither later in that stage nor anywhere in a later stage -/
def FreshHeads : List (List Nat) → Prop
  | [] => True
  | s :: t => (∀ c0 rest, s = c0 :: rest → c0 ∉ rest ∧ ∀ s' ∈ t, c0 ∉ s') ∧ FreshHeads t

theorem dataCurrentStore_spec (stages : List (List Nat)) (store : List (Option Rat))
    (hr : ∀ s ∈ stages, ∀ c ∈ s, c < store.length) (hf : FreshHeads stages) :
    (∀ j, (∀ s ∈ stages, ∀ c0 rest, s = c0 :: rest → c0 ≠ j) →
        (dataCurrentStore store stages).getD j none = store.getD j none)
    ∧ (∀ s ∈ stages, ∀ c0 rest, s = c0 :: rest →
        (dataCurrentStore store stages).getD c0 none = osum (s.map fun c => store.getD c none)) := by
  induction stages generalizing store with
  | nil => simp [dataCurrentStore]
  | cons s t ih =>
      cases s with
      | nil =>
          have := ih store (fun s hs => hr s (List.mem_cons_of_mem _ hs)) hf.2
          simp only [dataCurrentStore, List.foldl_cons] at this ⊢
          refine ⟨fun j hj => this.1 j (fun s hs => hj s (List.mem_cons_of_mem _ hs)), ?_⟩
          intro s hs c0 rest hs'
          rcases List.mem_cons.mp hs with rfl | hs
          · cases hs'
          · exact this.2 s hs c0 rest hs'
      | cons c0 rest =>
          obtain ⟨hfr, hft⟩ := hf
          obtain ⟨hc0rest, hc0later⟩ := hfr c0 rest rfl
          have h0 : c0 < store.length := hr (c0 :: rest) (by simp) c0 (by simp)
          have hstep := dataCurrentStage_spec store c0 rest h0 hc0rest
          have hlen : (dataCurrentStage store c0 rest).length = store.length := by rw [hstep]; simp
          have := ih (dataCurrentStage store c0 rest)
            (fun s hs c hc => by rw [hlen]; exact hr s (List.mem_cons_of_mem _ hs) c hc) hft
          have hfold : dataCurrentStore store ((c0 :: rest) :: t)
              = dataCurrentStore (dataCurrentStage store c0 rest) t := by
            simp [dataCurrentStore]
          rw [hfold]
          constructor
          · intro j hj
            have hj0 : c0 ≠ j := hj _ (by simp) c0 rest rfl
            rw [this.1 j (fun s hs => hj s (List.mem_cons_of_mem _ hs)), hstep, getD_set_ne _ _ _ _ hj0]
          · intro s hs c0' rest' hs'
            rcases List.mem_cons.mp hs with rfl | hs
            · cases hs'
              rw [this.1 c0 (fun s' hs' c0'' rest'' h => by
                    intro heq
                    exact hc0later s' hs' (by rw [h, heq]; simp)),
                  hstep, getD_set_self _ _ _ h0]
              simp [osum]
            · rw [this.2 s hs c0' rest' hs']
              congr 1
              apply List.map_congr_left
              intro c hc
              rw [hstep]
              exact getD_set_ne _ _ _ _ (fun h => hc0later s hs (h ▸ hc))

end Atomica.C20
