/-
  Helper lemmas about `Atomica.Expr` (C19): induction over the rose tree, the sub-term relation,
  unfolding equations for the mutually recursive definitions.
-/
import AtomicaModel.Expr

namespace Atomica.Expr

/-! ### induction over `Py` -/

mutual
theorem Py.ind {P : Py → Prop} (h : ∀ k cs, (∀ c ∈ cs, P c) → P (.node k cs)) : ∀ e, P e
  | .node k cs => h k cs (Py.indL h cs)
theorem Py.indL {P : Py → Prop} (h : ∀ k cs, (∀ c ∈ cs, P c) → P (.node k cs)) : ∀ cs : List Py, ∀ c ∈ cs, P c
  | [], _, hc => by cases hc
  | d :: ds, c, hc => by
      rcases List.mem_cons.mp hc with h1 | h2
      · rw [h1]; exact Py.ind h d
      · exact Py.indL h ds c h2
end

/-! ### sub-terms -/

/-- `Sub t e`: `t` is `e` or occurs somewhere below `e` (any depth) -/
inductive Sub : Py → Py → Prop
  | refl (e : Py) : Sub e e
  | child {t : Py} {k : Kind} {cs : List Py} {c : Py} : c ∈ cs → Sub t c → Sub t (.node k cs)

theorem subterms_node (k : Kind) (cs : List Py) : subterms (.node k cs) = .node k cs :: subtermsL cs := by
  simp [subterms]

theorem mem_subtermsL {t : Py} : ∀ {cs : List Py}, t ∈ subtermsL cs ↔ ∃ c ∈ cs, t ∈ subterms c
  | [] => by simp [subtermsL]
  | c :: cs => by
      rw [subtermsL, List.mem_append, mem_subtermsL (cs := cs)]
      simp

theorem self_mem_subterms (e : Py) : e ∈ subterms e := by
  cases e with
  | node k cs => simp [subterms_node]

theorem mem_subterms_iff {t e : Py} : t ∈ subterms e ↔ Sub t e := by
  constructor
  · revert t
    induction e using Py.ind with
    | h k cs ih =>
      intro t ht
      rw [subterms_node, List.mem_cons] at ht
      rcases ht with rfl | ht
      · exact Sub.refl _
      · obtain ⟨c, hc, htc⟩ := mem_subtermsL.mp ht
        exact Sub.child hc (ih c hc htc)
  · intro h
    induction h with
    | refl => exact self_mem_subterms _
    | child hc _ ih =>
      rw [subterms_node, List.mem_cons]
      exact Or.inr (mem_subtermsL.mpr ⟨_, hc, ih⟩)

theorem Sub.trans {a b c : Py} (h1 : Sub a b) (h2 : Sub b c) : Sub a c := by
  induction h2 with
  | refl => exact h1
  | child hc _ ih => exact Sub.child hc ih

/-- a property holds on all sub-terms of a node iff it holds at the node and on all sub-terms of the children -/
theorem forall_subterms_node {p : Py → Prop} (k : Kind) (cs : List Py) :
    (∀ t ∈ subterms (.node k cs), p t) ↔ p (.node k cs) ∧ ∀ c ∈ cs, ∀ t ∈ subterms c, p t := by
  rw [subterms_node]
  simp only [List.mem_cons, forall_eq_or_imp]
  constructor
  · rintro ⟨h0, h⟩
    exact ⟨h0, fun c hc t ht => h t (mem_subtermsL.mpr ⟨c, hc, ht⟩)⟩
  · rintro ⟨h0, h⟩
    refine ⟨h0, fun t ht => ?_⟩
    obtain ⟨c, hc, htc⟩ := mem_subtermsL.mp ht
    exact h c hc t htc

/-! ### unfolding the mutual definitions -/

theorem divTransformL_eq_map (cs : List Py) : divTransformL cs = cs.map divTransform := by
  induction cs with
  | nil => simp [divTransformL]
  | cons c cs ih => simp [divTransformL, ih]

theorem evalL_eq_map (wl : List String) (env : Env) (cs : List Py) : evalL wl env cs = cs.map (eval wl env) := by
  induction cs with
  | nil => simp [evalL]
  | cons c cs ih => simp [evalL, ih]

theorem eval_node (wl : List String) (env : Env) (k : Kind) (cs : List Py) :
    eval wl env (.node k cs) = combine wl env k (headName cs) (cs.map (eval wl env)) := by
  rw [eval, evalL_eq_map]

theorem divTransform_div (cs : List Py) :
    divTransform (.node (.binOp .div) cs) = .node (.call cs.length []) (.node (.name "sdiv") [] :: cs.map divTransform) := by
  rw [divTransform, divTransformL_eq_map]

theorem divTransform_other (k : Kind) (cs : List Py) (hk : k ≠ .binOp .div) :
    divTransform (.node k cs) = .node k (cs.map divTransform) := by
  rw [divTransform, divTransformL_eq_map]
  exact hk

end Atomica.Expr
