/-
  Lemmas relating the loop-shaped objective (`Atomica.Protocol.Objective.measure/objective`) to the documented sum
  (`Spec.measure/objective`).
-/
import AtomicaModel.Protocol.Objective
import AtomicaProofs.Lemmas.Asd
import Mathlib.Tactic.Ring
import Mathlib.Tactic.FieldSimp

namespace Atomica.Protocol.Objective
open Atomica Atomica.Protocol

theorem listSum_cons (a : Rat) (l : List Rat) : listSum (a :: l) = a + listSum l := rfl
theorem listSum_nil : listSum [] = 0 := rfl

theorem listSum_append (a b : List Rat) : listSum (a ++ b) = listSum a + listSum b := by
  induction a with
  | nil => simp [listSum_nil]
  | cons x xs ih => simp [listSum_cons, ih, add_assoc]

theorem sumMasked_eq (w : Window) : ∀ (t vals : List Rat),
    sumMasked (t.map w.mem) vals = Spec.windowSum w t vals := by
  intro t
  induction t with
  | nil => intro vals; simp [sumMasked, Spec.windowSum, listSum_nil]
  | cons a t ih =>
    intro vals
    cases vals with
    | nil => simp [sumMasked, Spec.windowSum, listSum_nil]
    | cons v vs =>
      have := ih vs
      simp only [Spec.windowSum] at this
      by_cases h : w.mem a = true
      · simp [sumMasked, Spec.windowSum, h, listSum_cons, this]
      · have h' : w.mem a = false := by simpa using h
        simp [sumMasked, Spec.windowSum, h', this]

theorem sumMaskedDiv_eq (dt : Rat) : ∀ (m : List Bool) (vals : List Rat),
    sumMaskedDiv dt m vals = sumMasked m vals / dt := by
  intro m
  induction m with
  | nil => intro vals; simp [sumMaskedDiv, sumMasked]
  | cons b m ih =>
    intro vals
    cases vals with
    | nil => cases b <;> simp [sumMaskedDiv, sumMasked]
    | cons v vs =>
      cases b
      · simp [sumMaskedDiv, sumMasked, ih]
      · simp [sumMaskedDiv, sumMasked, ih, add_div]

theorem varLoop_eq (w : Window) (t : List Rat) (dt : Rat) : ∀ (vs : List Var) (val : Rat),
    varLoop (t.map w.mem) dt vs val = val + listSum (vs.map (Spec.varSum w t dt)) := by
  intro vs
  induction vs with
  | nil => intro val; simp [varLoop, listSum_nil]
  | cons v vs ih =>
    intro val
    simp only [varLoop, ih, List.map_cons, listSum_cons, Spec.varSum, sumMaskedDiv_eq, sumMasked_eq]
    split_ifs <;> ring

theorem selected_none_cons_none {p : Pop} (ps : List Pop) (hv : p.vars = none) :
    Spec.selected none (p :: ps) = Spec.selected none ps := by
  simp [Spec.selected, hv]

theorem selected_none_cons_some {p : Pop} {vs : List Var} (ps : List Pop) (hv : p.vars = some vs) :
    Spec.selected none (p :: ps) = p :: Spec.selected none ps := by
  simp [Spec.selected, hv]

theorem selected_some_cons_in {p : Pop} {names : List String} (ps : List Pop) (hc : names.contains p.name = true) :
    Spec.selected (some names) (p :: ps) = p :: Spec.selected (some names) ps := by
  simp only [Spec.selected, List.filter_cons, hc, if_true]

theorem selected_some_cons_out {p : Pop} {names : List String} (ps : List Pop) (hc : names.contains p.name = false) :
    Spec.selected (some names) (p :: ps) = Spec.selected (some names) ps := by
  simp only [Spec.selected, List.filter_cons, hc, Bool.false_eq_true, if_false]

theorem selected_none_any (l : List Pop) : (Spec.selected none l).any (fun p => p.vars.isNone) = false := by
  simp only [Spec.selected, List.any_eq_false, List.mem_filter]
  intro q hq
  cases hv : q.vars <;> simp_all

theorem popSum_some {p : Pop} {vs : List Var} (w : Window) (t : List Rat) (dt : Rat) (hv : p.vars = some vs) :
    Spec.popSum w t dt p = listSum (vs.map (Spec.varSum w t dt)) := by
  simp [Spec.popSum, hv]

/-- closed form of the population loop -/
theorem popLoop_eq (w : Window) (t : List Rat) (dt : Rat) (sel : Option (List String)) :
    ∀ (pops : List Pop) (val : Rat) (matched : Bool),
    popLoop sel (t.map w.mem) dt pops (val, matched) =
      if (Spec.selected sel pops).any (fun p => p.vars.isNone) then .error .notFound
      else .ok (val + listSum ((Spec.selected sel pops).map (Spec.popSum w t dt)),
                matched || !(Spec.selected sel pops).isEmpty) := by
  intro pops
  induction pops with
  | nil => intro val matched; cases sel <;> simp [popLoop, Spec.selected, listSum_nil]
  | cons p ps ih =>
    intro val matched
    cases sel with
    | none =>
      cases hv : p.vars with
      | none =>
        rw [selected_none_cons_none ps hv, ← ih val matched]
        simp only [popLoop, hv]
      | some vs =>
        have e1 : popLoop none (t.map w.mem) dt (p :: ps) (val, matched)
            = popLoop none (t.map w.mem) dt ps (varLoop (t.map w.mem) dt vs val, true) := by
          simp only [popLoop, hv]
        rw [e1, ih, varLoop_eq, selected_none_cons_some ps hv]
        simp only [selected_none_any, Bool.false_eq_true, if_false, List.map_cons, listSum_cons,
          popSum_some w t dt hv, List.isEmpty_cons, Bool.not_false, Bool.or_true, Bool.true_or, add_assoc,
          List.any_cons, hv, Option.isNone_some, Bool.false_or]
    | some names =>
      by_cases hc : names.contains p.name = true
      · cases hv : p.vars with
        | none =>
          have e1 : popLoop (some names) (t.map w.mem) dt (p :: ps) (val, matched) = .error .notFound := by
            simp only [popLoop, hc, hv, Bool.not_true, Bool.false_eq_true, if_false]
          rw [e1, selected_some_cons_in ps hc]
          simp [List.any_cons, hv]
        | some vs =>
          have e1 : popLoop (some names) (t.map w.mem) dt (p :: ps) (val, matched)
              = popLoop (some names) (t.map w.mem) dt ps (varLoop (t.map w.mem) dt vs val, true) := by
            simp only [popLoop, hc, hv, Bool.not_true, Bool.false_eq_true, if_false]
          rw [e1, ih, varLoop_eq, selected_some_cons_in ps hc]
          simp only [List.any_cons, hv, Option.isNone_some, Bool.false_or, List.map_cons, listSum_cons,
            popSum_some w t dt hv, List.isEmpty_cons, Bool.not_false, Bool.or_true, Bool.true_or, add_assoc]
      · have hc' : names.contains p.name = false := by simpa using hc
        have e1 : popLoop (some names) (t.map w.mem) dt (p :: ps) (val, matched)
            = popLoop (some names) (t.map w.mem) dt ps (val, matched) := by
          simp only [popLoop, hc', Bool.not_false, if_true]
        rw [e1, ih, selected_some_cons_out ps hc']

theorem measure_eq_spec (t : List Rat) (dt : Rat) (m : Measurable) :
    measure t dt m = Spec.measure t dt m := by
  unfold measure Spec.measure
  cases hs : m.src with
  | prog alloc => simp [sumMasked_eq]
  | vars pops =>
    simp only [popLoop_eq]
    split_ifs with h1 h2
    · rfl
    · simp [h2]
    · simp [h2]

namespace ObjL

theorem add_assoc (a b c : Obj) : Obj.add (Obj.add a b) c = Obj.add a (Obj.add b c) := by
  cases a <;> cases b <;> cases c <;> simp [Obj.add, _root_.add_assoc]

theorem zero_add (a : Obj) : Obj.add (.fin 0) a = a := by
  cases a <;> simp [Obj.add]

end ObjL

theorem evalM_eq_term (t : List Rat) (dt : Rat) (m : Measurable) : evalM t dt m = Spec.term t dt m := by
  unfold evalM Spec.term
  rw [measure_eq_spec]

theorem objLoop_eq (t : List Rat) (dt : Rat) : ∀ (ms : List Measurable) (acc : Obj),
    objLoop t dt ms acc =
      match Spec.terms t dt ms with
      | .error e => .error e
      | .ok vs => .ok (Obj.add acc (Spec.sumObj vs)) := by
  intro ms
  induction ms with
  | nil =>
    intro acc
    cases acc <;> simp [objLoop, Spec.terms, Spec.sumObj, Obj.add]
  | cons m ms ih =>
    intro acc
    simp only [objLoop, Spec.terms, evalM_eq_term]
    cases hterm : Spec.term t dt m with
    | error e => rfl
    | ok v =>
      simp only [ih]
      cases hts : Spec.terms t dt ms with
      | error e => rfl
      | ok vs => simp [Spec.sumObj, ObjL.add_assoc]

end Atomica.Protocol.Objective
