/-
  Bridging lemmas between the model's structural sum `Atomica.sumTo` and `Finset.sum` over `Finset.range`,
  plus the few sum manipulations the engine proofs need.
-/
import AtomicaModel.Basic
import Mathlib.Algebra.BigOperators.Group.Finset.Basic
import Mathlib.Algebra.BigOperators.Intervals
import Mathlib.Algebra.BigOperators.Ring.Finset
import Mathlib.Algebra.Order.BigOperators.Group.Finset
import Mathlib.Algebra.Order.Ring.Rat
import Mathlib.Tactic.Linarith
import Mathlib.Tactic.Ring

namespace Atomica
open Finset

theorem sumTo_eq_sum (n : Nat) (f : Nat → Rat) : sumTo n f = ∑ i ∈ range n, f i := by
  induction n with
  | zero => simp [sumTo]
  | succ n ih => simp [sumTo, ih, Finset.sum_range_succ]

theorem sumTo_congr {n : Nat} {f g : Nat → Rat} (h : ∀ i, i < n → f i = g i) : sumTo n f = sumTo n g := by
  rw [sumTo_eq_sum, sumTo_eq_sum]
  exact Finset.sum_congr rfl (fun i hi => h i (Finset.mem_range.mp hi))

theorem sumTo_nonneg {n : Nat} {f : Nat → Rat} (h : ∀ i, i < n → 0 ≤ f i) : 0 ≤ sumTo n f := by
  rw [sumTo_eq_sum]
  exact Finset.sum_nonneg (fun i hi => h i (Finset.mem_range.mp hi))

theorem sumTo_zero {n : Nat} {f : Nat → Rat} (h : ∀ i, i < n → f i = 0) : sumTo n f = 0 := by
  rw [sumTo_eq_sum]
  exact Finset.sum_eq_zero (fun i hi => h i (Finset.mem_range.mp hi))

theorem sumTo_add (n : Nat) (f g : Nat → Rat) : sumTo n (fun i => f i + g i) = sumTo n f + sumTo n g := by
  simp [sumTo_eq_sum, Finset.sum_add_distrib]

theorem sumTo_sub (n : Nat) (f g : Nat → Rat) : sumTo n (fun i => f i - g i) = sumTo n f - sumTo n g := by
  simp [sumTo_eq_sum, Finset.sum_sub_distrib]

theorem sumTo_mul_left (n : Nat) (a : Rat) (f : Nat → Rat) : sumTo n (fun i => a * f i) = a * sumTo n f := by
  simp [sumTo_eq_sum, Finset.mul_sum]

theorem sumTo_mul_right (n : Nat) (a : Rat) (f : Nat → Rat) : sumTo n (fun i => f i * a) = sumTo n f * a := by
  simp [sumTo_eq_sum, Finset.sum_mul]

theorem sumTo_le {n : Nat} {f g : Nat → Rat} (h : ∀ i, i < n → f i ≤ g i) : sumTo n f ≤ sumTo n g := by
  rw [sumTo_eq_sum, sumTo_eq_sum]
  exact Finset.sum_le_sum (fun i hi => h i (Finset.mem_range.mp hi))

/-- exchange the order of two structural sums -/
theorem sumTo_comm (n m : Nat) (f : Nat → Nat → Rat) :
    sumTo n (fun i => sumTo m (fun j => f i j)) = sumTo m (fun j => sumTo n (fun i => f i j)) := by
  simp only [sumTo_eq_sum]
  exact Finset.sum_comm

/-- "every link leaves exactly one compartment": summing over compartments the terms of the links that leave it
    gives the sum over all links -/
theorem sumTo_fiber (nC nL : Nat) (g : Nat → Nat) (a : Nat → Rat) (hg : ∀ l, l < nL → g l < nC) :
    sumTo nC (fun c => sumTo nL (fun l => if g l = c then a l else 0)) = sumTo nL a := by
  rw [sumTo_comm]
  apply sumTo_congr
  intro l hl
  rw [sumTo_eq_sum]
  rw [Finset.sum_ite_eq]
  simp [hg l hl]

/-- the same restricted to the compartments satisfying `p` -/
theorem sumTo_fiber_filter (nC nL : Nat) (g : Nat → Nat) (a : Nat → Rat) (p : Nat → Prop) [DecidablePred p]
    (hg : ∀ l, l < nL → g l < nC) :
    sumTo nC (fun c => if p c then sumTo nL (fun l => if g l = c then a l else 0) else 0)
      = sumTo nL (fun l => if p (g l) then a l else 0) := by
  have : ∀ c, (if p c then sumTo nL (fun l => if g l = c then a l else 0) else 0)
      = sumTo nL (fun l => if g l = c then (if p (g l) then a l else 0) else 0) := by
    intro c
    by_cases hc : p c
    · simp only [hc, if_true]
      apply sumTo_congr; intro l _
      by_cases h : g l = c
      · simp [h, hc]
      · simp [h]
    · simp only [hc, if_false]
      symm; apply sumTo_zero; intro l _
      by_cases h : g l = c
      · simp [h, hc]
      · simp [h]
  simp only [this]
  exact sumTo_fiber nC nL g (fun l => if p (g l) then a l else 0) hg

/-- dropping the first term and shifting: `Σ_{r<n} f (r+1) = Σ_{r<n+1} f r − f 0` -/
theorem sumTo_shift (n : Nat) (f : Nat → Rat) : sumTo n (fun r => f (r + 1)) = sumTo (n + 1) f - f 0 := by
  simp only [sumTo_eq_sum]
  rw [Finset.sum_range_succ' f n]
  ring

/-- split a sum at `n ≤ m` -/
theorem sumTo_split (n k : Nat) (f : Nat → Rat) : sumTo (n + k) f = sumTo n f + sumTo k (fun i => f (n + i)) := by
  simp only [sumTo_eq_sum]
  exact Finset.sum_range_add f n k

/-- terms vanish beyond `n` -/
theorem sumTo_of_le {n m : Nat} (h : n ≤ m) (f : Nat → Rat) (hz : ∀ i, n ≤ i → i < m → f i = 0) : sumTo m f = sumTo n f := by
  obtain ⟨k, rfl⟩ := Nat.exists_eq_add_of_le h
  rw [sumTo_split]
  have : sumTo k (fun i => f (n + i)) = 0 := sumTo_zero (fun i hi => hz (n + i) (by omega) (by omega))
  linarith

theorem sumTo_ite_lt {n m : Nat} (h : n ≤ m) (f : Nat → Rat) : sumTo m (fun i => if i < n then f i else 0) = sumTo n f := by
  rw [sumTo_of_le h]
  · apply sumTo_congr; intro i hi; simp [hi]
  · intro i hi _; simp [Nat.not_lt.mpr hi]

/-- a single non-zero term -/
theorem sumTo_single {n : Nat} (k : Nat) (hk : k < n) (a : Rat) : sumTo n (fun i => if i = k then a else 0) = a := by
  rw [sumTo_eq_sum, Finset.sum_ite_eq']
  simp [hk]

end Atomica
