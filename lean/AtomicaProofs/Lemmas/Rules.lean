/-
  Lemmas about the rule checker of `AtomicaModel.Rules` (C18): the checker combinators, the peeling algorithm for
  acyclicity, the name loops, the timed-transition bookkeeping.
-/
import AtomicaModel.Rules
import Mathlib.Tactic.Linarith
import Mathlib.Data.List.Basic
import Mathlib.Data.List.Nodup
import Mathlib.Logic.Relation

namespace Atomica.Rules

/-! ### combinators -/

@[simp] theorem req_eq_none {ε : Type} (b : Bool) (e : ε) : req b e = none ↔ b = true := by
  cases b <;> simp [req]

@[simp] theorem andThen_eq_none {ε : Type} (a b : Option ε) : andThen a b = none ↔ a = none ∧ b = none := by
  cases a <;> simp [andThen]

@[simp] theorem seqC_nil {ε : Type} : seqC ([] : List (Option ε)) = none := rfl

@[simp] theorem seqC_cons_eq_none {ε : Type} (c : Option ε) (cs : List (Option ε)) :
    seqC (c :: cs) = none ↔ c = none ∧ seqC cs = none := by
  simp [seqC]

theorem allC_eq_none {α ε : Type} (f : α → Option ε) (l : List α) : allC f l = none ↔ ∀ x ∈ l, f x = none := by
  induction l with
  | nil => simp [allC]
  | cons x xs ih => simp [allC, ih]

theorem req_eq_some {ε : Type} (b : Bool) (e e' : ε) (h : req b e = some e') : e' = e := by
  cases b <;> simp [req] at h
  exact h.symm

/-- every error of `andThen a b` is an error of `a` or of `b` -/
theorem andThen_eq_some {ε : Type} (a b : Option ε) (e : ε) (h : andThen a b = some e) : a = some e ∨ b = some e := by
  cases a with
  | none => right; simpa [andThen] using h
  | some x => left; simpa [andThen] using h

theorem seqC_eq_some {ε : Type} (cs : List (Option ε)) (e : ε) (h : seqC cs = some e) : ∃ c ∈ cs, c = some e := by
  induction cs with
  | nil => simp [seqC] at h
  | cons c cs ih =>
      rcases andThen_eq_some _ _ _ h with h1 | h1
      · exact ⟨c, by simp, h1⟩
      · obtain ⟨c', hc', he⟩ := ih h1
        exact ⟨c', by simp [hc'], he⟩

theorem allC_eq_some {α ε : Type} (f : α → Option ε) (l : List α) (e : ε) (h : allC f l = some e) : ∃ x ∈ l, f x = some e := by
  induction l with
  | nil => simp [allC] at h
  | cons x xs ih =>
      rcases andThen_eq_some _ _ _ h with h1 | h1
      · exact ⟨x, by simp, h1⟩
      · obtain ⟨y, hy, he⟩ := ih h1
        exact ⟨y, by simp [hy], he⟩

theorem seqC_append {ε : Type} (a b : List (Option ε)) : seqC (a ++ b) = andThen (seqC a) (seqC b) := by
  induction a with
  | nil => rfl
  | cons c cs ih =>
      cases c with
      | none => simpa [seqC, andThen] using ih
      | some e => simp [seqC, andThen]

theorem seqC_append_eq_none {ε : Type} (a b : List (Option ε)) : seqC (a ++ b) = none ↔ seqC a = none ∧ seqC b = none := by
  rw [seqC_append, andThen_eq_none]

/-! ### a timed parameter cannot vary: `grow` computes the reflexive-transitive closure of the dependency relation -/

/-- the function of `p` names `n` -/
def Mentions (p : Par) (n : String) : Prop := ∃ f, p.fn = .fn f ∧ Dep.var n ∈ f.deps

/-- parameter `a` depends directly on parameter `b`: the function of `a` names the (other) parameter `b` -/
def ParDep (fw : FrameworkAbs) (a b : String) : Prop :=
  ∃ pa ∈ fw.pars, pa.name = a ∧ Mentions pa b ∧ b ≠ a ∧ ∃ pb ∈ fw.pars, pb.name = b

/-- `a` depends on `b` directly or through other parameters (or `a = b`): `b ∈ {a} ∪ descendants(D, a)` -/
def Reaches (fw : FrameworkAbs) : String → String → Prop := Relation.ReflTransGen (ParDep fw)

/-- the predicate the code evaluates on a reached parameter: a derivative parameter, or one whose function names something
    that is neither a parameter nor an interaction -/
def VariesImpl (fw : FrameworkAbs) (q : Par) : Prop :=
  q.deriv = true ∨ ∃ n, Mentions q n ∧ findPar fw n = none ∧ findInter fw n = none

theorem findPar_isSome_iff (fw : FrameworkAbs) (n : String) : (findPar fw n).isSome = true ↔ ∃ p ∈ fw.pars, p.name = n := by
  simp [findPar, List.find?_isSome]

theorem findPar_eq_none_iff (fw : FrameworkAbs) (n : String) : findPar fw n = none ↔ ∀ p ∈ fw.pars, p.name ≠ n := by
  simp [findPar, List.find?_eq_none]

theorem mem_parDepsOf (fw : FrameworkAbs) (pa : Par) (b : String) :
    b ∈ parDepsOf fw pa ↔ Mentions pa b ∧ b ≠ pa.name ∧ ∃ pb ∈ fw.pars, pb.name = b := by
  unfold parDepsOf Mentions
  cases hf : pa.fn with
  | none => simp
  | notString => simp
  | invalid => simp
  | fn f =>
      simp only [List.mem_filterMap, FnCell.fn.injEq, exists_eq_left']
      constructor
      · rintro ⟨d, hd, hb⟩
        cases d with
        | var n =>
            by_cases hc : ((findPar fw n).isSome && n != pa.name) = true
            · simp only [hc, if_true, Option.some.injEq] at hb
              subst hb
              simp only [Bool.and_eq_true, bne_iff_ne, ne_eq] at hc
              exact ⟨hd, hc.2, (findPar_isSome_iff fw n).1 hc.1⟩
            · simp [hc] at hb
        | parFlow q => simp at hb
        | compFlow a c => simp at hb
      · rintro ⟨hm, hne, hex⟩
        refine ⟨.var b, hm, ?_⟩
        have : ((findPar fw b).isSome && b != pa.name) = true := by
          simp only [Bool.and_eq_true, bne_iff_ne, ne_eq]
          exact ⟨(findPar_isSome_iff fw b).2 hex, hne⟩
        simp [this]

theorem mem_varEdges (fw : FrameworkAbs) (a b : String) : (a, b) ∈ varEdges fw ↔ ParDep fw a b := by
  unfold varEdges ParDep
  simp only [List.mem_flatMap, List.mem_map, Prod.mk.injEq]
  constructor
  · rintro ⟨pa, hpa, d, hd, rfl, rfl⟩
    obtain ⟨h1, h2, h3⟩ := (mem_parDepsOf fw pa d).1 hd
    exact ⟨pa, hpa, rfl, h1, h2, h3⟩
  · rintro ⟨pa, hpa, rfl, h1, h2, h3⟩
    exact ⟨pa, hpa, b, (mem_parDepsOf fw pa b).2 ⟨h1, h2, h3⟩, rfl, rfl⟩

theorem variesPar_iff (fw : FrameworkAbs) (q : Par) : variesPar fw q = true ↔ VariesImpl fw q := by
  unfold variesPar VariesImpl mentionsVarying Mentions isVaryingName
  cases hf : q.fn with
  | none => simp
  | notString => simp
  | invalid => simp
  | fn f =>
      simp only [Bool.or_eq_true, List.any_eq_true, FnCell.fn.injEq, exists_eq_left']
      constructor
      · rintro (h | ⟨d, hd, hv⟩)
        · exact Or.inl h
        · cases d with
          | var n =>
              simp only [Bool.and_eq_true, Option.isNone_iff_eq_none] at hv
              exact Or.inr ⟨n, hd, hv.1, hv.2⟩
          | parFlow q => simp at hv
          | compFlow a c => simp at hv
      · rintro (h | ⟨n, hd, h1, h2⟩)
        · exact Or.inl h
        · exact Or.inr ⟨.var n, hd, by simp [h1, h2]⟩

theorem mem_growStep (edges : List (String × String)) (U : List String) (v : String) :
    v ∈ growStep edges U ↔ v ∈ U ∧ ∀ e ∈ edges, e.2 = v → e.1 ∈ U := by
  unfold growStep
  rw [List.mem_filter]
  constructor
  · rintro ⟨hv, hk⟩
    refine ⟨hv, fun e he h2 => ?_⟩
    by_contra hn
    have : edges.any (fun e => e.2 == v && !(U.contains e.1)) = true := by
      rw [List.any_eq_true]
      exact ⟨e, he, by simp [h2, hn]⟩
    rw [this] at hk
    simp at hk
  · rintro ⟨hv, hk⟩
    refine ⟨hv, ?_⟩
    rw [Bool.not_eq_true', List.any_eq_false]
    intro e he
    by_cases h2 : e.2 = v
    · simp [h2, hk e he h2]
    · simp [h2]

theorem growStep_subset (edges : List (String × String)) (U : List String) : ∀ v ∈ growStep edges U, v ∈ U :=
  fun v hv => ((mem_growStep edges U v).1 hv).1

theorem growStep_eq_self (edges : List (String × String)) (U : List String) (h : (growStep edges U).length = U.length) :
    growStep edges U = U := by
  unfold growStep at h ⊢
  exact List.filter_eq_self.2 (List.length_filter_eq_length_iff.1 h)

theorem grow_subset (edges : List (String × String)) : ∀ (k : Nat) (U : List String), ∀ v ∈ grow edges k U, v ∈ U := by
  intro k
  induction k with
  | zero => intro U v hv; simpa [grow] using hv
  | succ k ih =>
      intro U v hv
      simp only [grow] at hv
      split at hv
      · exact hv
      · exact growStep_subset edges U v (ih _ v hv)

/-- after at most `U.length` productive steps nothing changes any more -/
theorem grow_fixed (edges : List (String × String)) : ∀ (k : Nat) (U : List String), U.length ≤ k →
    growStep edges (grow edges k U) = grow edges k U := by
  intro k
  induction k with
  | zero =>
      intro U hl
      have : U = [] := List.length_eq_zero_iff.1 (Nat.le_zero.1 hl)
      subst this
      simp [grow, growStep]
  | succ k ih =>
      intro U hl
      simp only [grow]
      split
      · rename_i heq
        exact growStep_eq_self edges U (by simpa using heq)
      · rename_i hne
        apply ih
        have hle : (growStep edges U).length ≤ U.length := by
          unfold growStep
          exact List.length_filter_le _ _
        have : (growStep edges U).length ≠ U.length := by simpa using hne
        omega

/-- everything that has left `U` was named by something that had left `U` before -/
theorem grow_sound (edges : List (String × String)) (univ : List String) (R : String → Prop)
    (hsrc : ∀ e ∈ edges, e.1 ∈ univ) (hedge : ∀ e ∈ edges, R e.1 → R e.2) :
    ∀ (k : Nat) (U : List String), (∀ v ∈ univ, v ∉ U → R v) → ∀ v ∈ univ, v ∉ grow edges k U → R v := by
  intro k
  induction k with
  | zero => intro U h v hv hn; exact h v hv (by simpa [grow] using hn)
  | succ k ih =>
      intro U h v hv hn
      simp only [grow] at hn
      split at hn
      · exact h v hv hn
      · refine ih (growStep edges U) ?_ v hv hn
        intro w hw hnw
        by_cases hwU : w ∈ U
        · rw [mem_growStep] at hnw
          have : ¬ ∀ e ∈ edges, e.2 = w → e.1 ∈ U := fun hall => hnw ⟨hwU, hall⟩
          push Not at this
          obtain ⟨e, he, h2, h1⟩ := this
          exact h2 ▸ hedge e he (h e.1 (hsrc e he) h1)
        · exact h w hw hwU

/-- the complement of a fixed point is closed under the edges -/
theorem grow_closed (edges : List (String × String)) (k : Nat) (U : List String) (hk : U.length ≤ k) (a b : String)
    (he : (a, b) ∈ edges) (ha : a ∉ grow edges k U) : b ∉ grow edges k U := by
  intro hb
  rw [← grow_fixed edges k U hk, mem_growStep] at hb
  exact ha (hb.2 (a, b) he rfl)

theorem not_mem_unreached_of_reaches (fw : FrameworkAbs) (start v : String) (hr : Reaches fw start v) : v ∉ unreached fw start := by
  unfold unreached
  induction hr with
  | refl =>
      intro hmem
      have := grow_subset _ _ _ _ hmem
      simp at this
  | tail _ hab ih =>
      exact grow_closed _ _ _ (Nat.le_refl _) _ _ ((mem_varEdges fw _ _).2 hab) ih

/-- `unreached fw start` is exactly the list of parameters that `start` does not reach -/
theorem not_mem_unreached_iff (fw : FrameworkAbs) (start v : String) (hv : ∃ q ∈ fw.pars, q.name = v) :
    v ∉ unreached fw start ↔ Reaches fw start v := by
  refine ⟨fun hn => ?_, not_mem_unreached_of_reaches fw start v⟩
  unfold unreached at hn
  refine grow_sound (varEdges fw) (fw.pars.map (·.name)) (Reaches fw start) ?_ ?_ _ _ ?_ v ?_ hn
  · rintro ⟨a, b⟩ he
    obtain ⟨pa, hpa, rfl, _⟩ := (mem_varEdges fw a b).1 he
    exact List.mem_map_of_mem hpa
  · rintro ⟨a, b⟩ he hr
    exact Relation.ReflTransGen.tail hr ((mem_varEdges fw a b).1 he)
  · intro w hw hnw
    have : w = start := by
      by_contra hne
      exact hnw (List.mem_filter.2 ⟨hw, by simpa using hne⟩)
    subst this
    exact Relation.ReflTransGen.refl
  · obtain ⟨q, hq, rfl⟩ := hv
    exact List.mem_map_of_mem hq

/-- The closure check accepts exactly when no timed parameter reaches (reflexive-transitive closure of `ParDep`) a
    parameter that varies. -/
theorem checkTimedVarying_eq_none (fw : FrameworkAbs) : checkTimedVarying fw = none ↔
    ∀ p ∈ fw.pars, p.timed = true → ∀ q ∈ fw.pars, Reaches fw p.name q.name → ¬ VariesImpl fw q := by
  unfold checkTimedVarying
  rw [allC_eq_none]
  constructor
  · intro h p hp ht q hq hr hvar
    have := h p hp
    simp only [checkTimedVaryingPar, ht, if_true, req_eq_none, List.all_eq_true, Bool.or_eq_true, Bool.not_eq_true'] at this
    rcases this q hq with hc | hc
    · exact (not_mem_unreached_iff fw p.name q.name ⟨q, hq, rfl⟩).2 hr (by simpa using hc)
    · rw [(variesPar_iff fw q).2 hvar] at hc
      exact absurd hc (by simp)
  · intro h p hp
    by_cases ht : p.timed = true
    · simp only [checkTimedVaryingPar, ht, if_true, req_eq_none, List.all_eq_true, Bool.or_eq_true, Bool.not_eq_true']
      intro q hq
      by_cases hc : q.name ∈ unreached fw p.name
      · left; simpa using hc
      · right
        have hr := (not_mem_unreached_iff fw p.name q.name ⟨q, hq, rfl⟩).1 hc
        have := h p hp ht q hq hr
        rw [← variesPar_iff] at this
        simpa using this
    · simp [checkTimedVaryingPar, ht]

theorem checkTimedVarying_eq_some (fw : FrameworkAbs) (e : RuleId) (h : checkTimedVarying fw = some e) : e = .timedVarying := by
  obtain ⟨p, _, hp⟩ := allC_eq_some _ _ _ h
  unfold checkTimedVaryingPar at hp
  split at hp
  · exact req_eq_some _ _ _ hp
  · simp at hp

/-! ### which rule a check can report -/

theorem req_ne {ε : Type} (b : Bool) (e r : ε) (h : e ≠ r) : req b e ≠ some r := by
  cases b <;> simp [req, h]

theorem seqC_ne {ε : Type} (cs : List (Option ε)) (r : ε) (h : ∀ c ∈ cs, c ≠ some r) : seqC cs ≠ some r := by
  intro hs
  obtain ⟨c, hc, he⟩ := seqC_eq_some _ _ hs
  exact h c hc he

theorem allC_ne {α ε : Type} (f : α → Option ε) (l : List α) (r : ε) (h : ∀ x ∈ l, f x ≠ some r) : allC f l ≠ some r := by
  intro hs
  obtain ⟨x, hx, he⟩ := allC_eq_some _ _ _ hs
  exact h x hx he

theorem checkCodeNames_ne_timedVarying : ∀ (names seen : List String), checkCodeNames names seen ≠ some .timedVarying := by
  intro names
  induction names with
  | nil => intro seen; simp [checkCodeNames]
  | cons n rest ih =>
      intro seen
      unfold checkCodeNames
      apply seqC_ne
      intro c hc
      simp only [List.mem_cons, List.not_mem_nil, or_false] at hc
      rcases hc with rfl | rfl | rfl | rfl
      · exact req_ne _ _ _ (by decide)
      · exact req_ne _ _ _ (by decide)
      · exact req_ne _ _ _ (by decide)
      · exact ih _

theorem checkDisplayNames_ne_timedVarying : ∀ (names seen : List String), checkDisplayNames names seen ≠ some .timedVarying := by
  intro names
  induction names with
  | nil => intro seen; simp [checkDisplayNames]
  | cons n rest ih =>
      intro seen
      unfold checkDisplayNames
      apply seqC_ne
      intro c hc
      simp only [List.mem_cons, List.not_mem_nil, or_false] at hc
      rcases hc with rfl | rfl
      · exact req_ne _ _ _ (by decide)
      · exact ih _

theorem checkStageSet_ne_timedVarying (fw : FrameworkAbs) (s : Stage) : checkStageSet fw s ≠ some .timedVarying := by
  unfold checkStageSet
  split
  · simp
  · apply seqC_ne
    intro c hc
    simp only [List.mem_cons, List.not_mem_nil, or_false] at hc
    rcases hc with rfl | rfl <;> exact req_ne _ _ _ (by decide)

theorem checkCascadeNested_ne_timedVarying (fw : FrameworkAbs) (c : Cascade) : checkCascadeNested fw c ≠ some .timedVarying := by
  unfold checkCascadeNested
  apply seqC_ne
  intro x hx
  simp only [List.mem_cons, List.not_mem_nil, or_false] at hx
  rcases hx with rfl | rfl
  · exact allC_ne _ _ _ (fun s _ => checkStageSet_ne_timedVarying fw s)
  · split
    · simp
    · apply seqC_ne
      intro y hy
      simp only [List.mem_cons, List.not_mem_nil, or_false] at hy
      rcases hy with rfl | rfl <;> exact req_ne _ _ _ (by decide)

theorem checkCascadeName_ne_timedVarying (fw : FrameworkAbs) (c : Cascade) : checkCascadeName fw c ≠ some .timedVarying := by
  unfold checkCascadeName
  apply seqC_ne
  intro x hx
  simp only [List.mem_cons, List.not_mem_nil, or_false] at hx
  rcases hx with rfl | rfl | rfl | rfl
  · exact req_ne _ _ _ (by decide)
  · exact req_ne _ _ _ (by decide)
  · exact req_ne _ _ _ (by decide)
  · exact allC_ne _ _ _ (fun s _ => req_ne _ _ _ (by decide))

theorem checkStageDefined_ne_timedVarying (fw : FrameworkAbs) (s : Stage) : checkStageDefined fw s ≠ some .timedVarying := by
  unfold checkStageDefined
  apply seqC_ne
  intro x hx
  simp only [List.mem_cons, List.not_mem_nil, or_false] at hx
  rcases hx with rfl | rfl
  · exact req_ne _ _ _ (by decide)
  · exact allC_ne _ _ _ (fun s _ => req_ne _ _ _ (by decide))

/-- none of the checks that come after the closure check reports `timedVarying` -/
theorem laterRules_ne_timedVarying (fw : FrameworkAbs) : seqC (laterRules fw) ≠ some .timedVarying := by
  unfold laterRules
  apply seqC_ne
  intro x hx
  simp only [List.mem_cons, List.not_mem_nil, or_false] at hx
  rcases hx with rfl | rfl | rfl | rfl | rfl | rfl | rfl
  · exact req_ne _ _ _ (by decide)
  · exact checkCodeNames_ne_timedVarying _ _
  · exact checkDisplayNames_ne_timedVarying _ _
  · exact req_ne _ _ _ (by decide)
  · exact allC_ne _ _ _ (fun c _ => checkCascadeName_ne_timedVarying fw c)
  · exact allC_ne _ _ _ (fun c _ => allC_ne _ _ _ (fun s _ => checkStageDefined_ne_timedVarying fw s))
  · exact allC_ne _ _ _ (fun c _ => checkCascadeNested_ne_timedVarying fw c)

/-- when every earlier rule passes, the verdict is the closure check's, else the first later failure -/
theorem firstError_of_earlier (fw : FrameworkAbs) (h : seqC (earlierRules fw) = none) :
    firstError fw = andThen (checkTimedVarying fw) (seqC (laterRules fw)) := by
  unfold firstError
  rw [seqC_append, h]
  rfl

/-! ### acyclicity: peeling ⇔ a rank function exists -/

/-- `rank` orders the graph restricted to `nodes` -/
def Ranked (edges : List (String × String)) (nodes : List String) (rank : String → Nat) : Prop :=
  ∀ e ∈ edges, e.1 ∈ nodes → e.2 ∈ nodes → rank e.1 < rank e.2

theorem mem_peelStep (edges : List (String × String)) (nodes : List String) (v : String) :
    v ∈ peelStep edges nodes ↔ v ∈ nodes ∧ ∃ e ∈ edges, e.2 = v ∧ e.1 ∈ nodes := by
  simp [peelStep, List.mem_filter, List.any_eq_true]

theorem peelStep_subset (edges : List (String × String)) (nodes : List String) : ∀ v ∈ peelStep edges nodes, v ∈ nodes := by
  intro v hv
  exact ((mem_peelStep edges nodes v).1 hv).1

theorem peel_nil (edges : List (String × String)) (k : Nat) : peel edges k [] = [] := by
  induction k with
  | zero => rfl
  | succ k ih => simpa [peel, peelStep] using ih

theorem peel_sound (edges : List (String × String)) : ∀ (k : Nat) (nodes : List String),
    peel edges k nodes = [] → ∃ rank, Ranked edges nodes rank := by
  intro k
  induction k with
  | zero =>
      intro nodes h
      simp [peel] at h
      subst h
      exact ⟨fun _ => 0, by intro e _ h1; simp at h1⟩
  | succ k ih =>
      intro nodes h
      simp only [peel] at h
      obtain ⟨rank', hr⟩ := ih _ h
      refine ⟨fun v => if v ∈ peelStep edges nodes then rank' v + 1 else 0, ?_⟩
      intro e he h1 h2
      have hb : e.2 ∈ peelStep edges nodes := (mem_peelStep edges nodes e.2).2 ⟨h2, e, he, rfl, h1⟩
      by_cases ha : e.1 ∈ peelStep edges nodes
      · have := hr e he ha hb
        simp only [ha, hb, if_true]
        omega
      · simp only [ha, hb, if_true, if_false]
        omega

theorem exists_min_rank (rank : String → Nat) : ∀ (l : List String), l ≠ [] → ∃ v ∈ l, ∀ w ∈ l, rank v ≤ rank w := by
  intro l
  induction l with
  | nil => intro h; exact absurd rfl h
  | cons x xs ih =>
      intro _
      by_cases hxs : xs = []
      · subst hxs
        exact ⟨x, by simp, by intro w hw; simp at hw; subst hw; exact Nat.le_refl _⟩
      · obtain ⟨v, hv, hmin⟩ := ih hxs
        by_cases hle : rank x ≤ rank v
        · refine ⟨x, by simp, ?_⟩
          intro w hw
          simp at hw
          rcases hw with rfl | hw
          · exact Nat.le_refl _
          · exact Nat.le_trans hle (hmin w hw)
        · refine ⟨v, by simp [hv], ?_⟩
          intro w hw
          simp at hw
          rcases hw with rfl | hw
          · omega
          · exact hmin w hw

theorem peelStep_length_lt (edges : List (String × String)) (nodes : List String) (rank : String → Nat)
    (hr : Ranked edges nodes rank) (hne : nodes ≠ []) : (peelStep edges nodes).length < nodes.length := by
  obtain ⟨v, hv, hmin⟩ := exists_min_rank rank nodes hne
  have hnot : v ∉ peelStep edges nodes := by
    intro hmem
    obtain ⟨_, e, he, h2, h1⟩ := (mem_peelStep edges nodes v).1 hmem
    have := hr e he h1 (by rw [h2]; exact hv)
    have := hmin e.1 h1
    rw [h2] at *
    omega
  unfold peelStep at hnot ⊢
  apply List.length_filter_lt_length_iff_exists.2
  refine ⟨v, hv, ?_⟩
  intro hp
  exact hnot (List.mem_filter.2 ⟨hv, hp⟩)

theorem Ranked.mono {edges : List (String × String)} {nodes nodes' : List String} {rank : String → Nat}
    (hr : Ranked edges nodes rank) (hsub : ∀ v ∈ nodes', v ∈ nodes) : Ranked edges nodes' rank := by
  intro e he h1 h2
  exact hr e he (hsub _ h1) (hsub _ h2)

theorem peel_complete (edges : List (String × String)) (rank : String → Nat) : ∀ (k : Nat) (nodes : List String),
    Ranked edges nodes rank → nodes.length ≤ k → peel edges k nodes = [] := by
  intro k
  induction k with
  | zero =>
      intro nodes _ hl
      simp [peel]
      exact List.length_eq_zero_iff.1 (Nat.le_zero.1 hl)
  | succ k ih =>
      intro nodes hr hl
      simp only [peel]
      by_cases hne : nodes = []
      · subst hne
        simpa [peelStep] using peel_nil edges k
      · apply ih
        · exact hr.mono (peelStep_subset edges nodes)
        · have := peelStep_length_lt edges nodes rank hr hne
          omega

/-- The peeling check succeeds exactly when the graph restricted to `nodes` can be ranked (evaluated in some order). -/
theorem acyclicB_iff_ranked (nodes : List String) (edges : List (String × String)) :
    acyclicB nodes edges = true ↔ ∃ rank, Ranked edges nodes rank := by
  unfold acyclicB
  rw [List.isEmpty_iff]
  constructor
  · exact peel_sound edges _ nodes
  · rintro ⟨rank, hr⟩
    exact peel_complete edges rank _ nodes hr (Nat.le_refl _)

/-! ### the name loops -/

theorem checkCodeNames_eq_none : ∀ (names seen : List String),
    checkCodeNames names seen = none ↔
      (∀ n ∈ names, hasReservedSymbol n = false ∧ reservedKeywords.contains n = false) ∧ names.Nodup ∧ ∀ n ∈ names, n ∉ seen := by
  intro names
  induction names with
  | nil => intro seen; simp [checkCodeNames]
  | cons n rest ih =>
      intro seen
      simp only [checkCodeNames, seqC_cons_eq_none, seqC_nil, req_eq_none, ih, List.nodup_cons, List.mem_cons, Bool.not_eq_true']
      constructor
      · rintro ⟨h1, h2, h3, ⟨h4, h5, h6⟩, _⟩
        refine ⟨?_, ⟨?_, h5⟩, ?_⟩
        · rintro m (rfl | hm)
          · exact ⟨h1, by simpa using h2⟩
          · exact h4 m hm
        · intro hmem
          exact (h6 n hmem) (by simp)
        · rintro m (rfl | hm)
          · simpa using h3
          · intro hs
            exact (h6 m hm) (by simp [hs])
      · rintro ⟨h1, ⟨h2, h3⟩, h4⟩
        refine ⟨(h1 n (Or.inl rfl)).1, by simpa using (h1 n (Or.inl rfl)).2, by simpa using h4 n (Or.inl rfl), ⟨?_, h3, ?_⟩, trivial⟩
        · intro m hm
          exact h1 m (Or.inr hm)
        · intro m hm hs
          rcases hs with rfl | hs
          · exact h2 hm
          · exact h4 m (Or.inr hm) hs

theorem checkDisplayNames_eq_none : ∀ (names seen : List String),
    checkDisplayNames names seen = none ↔ names.Nodup ∧ ∀ n ∈ names, n ∉ seen := by
  intro names
  induction names with
  | nil => intro seen; simp [checkDisplayNames]
  | cons n rest ih =>
      intro seen
      simp only [checkDisplayNames, seqC_cons_eq_none, seqC_nil, req_eq_none, ih, List.nodup_cons, List.mem_cons, Bool.not_eq_true']
      constructor
      · rintro ⟨h3, ⟨h5, h6⟩, _⟩
        refine ⟨⟨?_, h5⟩, ?_⟩
        · intro hmem
          exact (h6 n hmem) (by simp)
        · rintro m (rfl | hm)
          · simpa using h3
          · intro hs
            exact (h6 m hm) (by simp [hs])
      · rintro ⟨⟨h2, h3⟩, h4⟩
        refine ⟨by simpa using h4 n (Or.inl rfl), ⟨h3, ?_⟩, trivial⟩
        intro m hm hs
        rcases hs with rfl | hs
        · exact h2 hm
        · exact h4 m (Or.inr hm) hs

theorem nodupB_iff : ∀ (l : List String), nodupB l = true ↔ l.Nodup := by
  intro l
  induction l with
  | nil => simp [nodupB]
  | cons x xs ih => simp [nodupB, ih]

/-! ### timed transitions: the order-dependent bookkeeping accepts everything the documented rule accepts -/

theorem lookup_some_mem : ∀ (st : List (String × String)) (k v : String), st.lookup k = some v → (k, v) ∈ st := by
  intro st
  induction st with
  | nil => intro k v h; simp [List.lookup] at h
  | cons kv rest ih =>
      intro k v h
      obtain ⟨k', v'⟩ := kv
      by_cases hk : k = k'
      · subst hk
        simp [List.lookup] at h
        subst h
        simp
      · have hne : (k == k') = false := by simpa using hk
        simp [List.lookup, hne] at h
        exact List.mem_cons_of_mem _ (ih k v h)

/-- the three documented conditions for one timed outflow `t` of the list `all` -/
def TimedOK (special : String → Bool) (all : List TimedLink) (t : TimedLink) : Prop :=
  all.countP (fun u => u.src == t.src) ≤ 1 ∧ special t.src = false ∧ ∀ u ∈ all, ¬(u.src = t.dst ∧ u.par = t.par)

theorem timedSpec_eq_none (special : String → Bool) (tl : List TimedLink) :
    timedSpec special tl = none ↔ ∀ t ∈ tl, TimedOK special tl t := by
  unfold timedSpec TimedOK
  rw [allC_eq_none]
  constructor
  · intro h t ht
    have := h t ht
    simp only [seqC_cons_eq_none, seqC_nil, req_eq_none, decide_eq_true_eq, Bool.not_eq_true', List.any_eq_false, Bool.and_eq_true, beq_iff_eq, and_true] at this
    exact ⟨this.1, this.2.1, fun u hu => by simpa using this.2.2 u hu⟩
  · intro h t ht
    obtain ⟨h1, h2, h3⟩ := h t ht
    simp only [seqC_cons_eq_none, seqC_nil, req_eq_none, decide_eq_true_eq, Bool.not_eq_true', List.any_eq_false, Bool.and_eq_true, beq_iff_eq, and_true]
    exact ⟨h1, h2, fun u hu => by simpa using h3 u hu⟩

theorem timedCur_of_ok (special : String → Bool) : ∀ (rest pre : List TimedLink) (st : List (String × String)),
    (∀ kv ∈ st, ∃ u ∈ pre, u.src = kv.1 ∧ u.par = kv.2) →
    (∀ t ∈ rest, TimedOK special (pre ++ rest) t) →
    timedCur special rest st = none := by
  intro rest
  induction rest with
  | nil => intro pre st _ _; rfl
  | cons t rest ih =>
      intro pre st hinv hok
      obtain ⟨hcount, hspec, hgrp⟩ := hok t (by simp)
      have hlook : st.lookup t.src = none := by
        cases hl : st.lookup t.src with
        | none => rfl
        | some v =>
            exfalso
            obtain ⟨u, hu, hus, _⟩ := hinv _ (lookup_some_mem st _ _ hl)
            have h1 : 1 ≤ pre.countP (fun u => u.src == t.src) := by
              apply List.countP_pos_iff.2
              exact ⟨u, hu, by simpa using hus⟩
            have h2 : (pre ++ t :: rest).countP (fun u => u.src == t.src) = pre.countP (fun u => u.src == t.src) + (1 + rest.countP (fun u => u.src == t.src)) := by
              rw [List.countP_append, List.countP_cons]
              simp
              omega
            omega
      have hgroup : (((t.src, t.par) :: st).lookup t.dst == some t.par) = false := by
        cases hl : ((t.src, t.par) :: st).lookup t.dst with
        | none => simp
        | some v =>
            by_cases hv : v = t.par
            · exfalso
              subst hv
              have hm := lookup_some_mem _ _ _ hl
              simp only [List.mem_cons] at hm
              rcases hm with hm | hm
              · have : t.dst = t.src := by
                  have := congrArg Prod.fst hm
                  simpa using this
                exact hgrp t (by simp) ⟨this.symm, rfl⟩
              · obtain ⟨u, hu, hus, hup⟩ := hinv _ hm
                exact hgrp u (by simp [hu]) ⟨hus, hup⟩
            · simpa using hv
      simp only [timedCur, hlook, hspec, hgroup]
      apply ih (pre ++ [t]) ((t.src, t.par) :: st)
      · intro kv hkv
        simp only [List.mem_cons] at hkv
        rcases hkv with rfl | hkv
        · exact ⟨t, by simp, rfl, rfl⟩
        · obtain ⟨u, hu, h1, h2⟩ := hinv kv hkv
          exact ⟨u, by simp [hu], h1, h2⟩
      · intro t' ht'
        have := hok t' (by simp [ht'])
        simpa [List.append_assoc] using this

/-- Whatever the documented timed-transition rules accept, the order-dependent bookkeeping of `_process_transitions` accepts. -/
theorem timedCur_weaker (special : String → Bool) (tl : List TimedLink) (h : timedSpec special tl = none) :
    timedCur special tl [] = none := by
  apply timedCur_of_ok special tl [] []
  · intro kv hkv; simp at hkv
  · simpa using (timedSpec_eq_none special tl).1 h

end Atomica.Rules
