/-
  Lemmas about the rule checker of `AtomicaModel.Rules` (C18): the checker combinators, the peeling algorithm for
  acyclicity, the name loops, the timed-transition bookkeeping.
-/
import AtomicaModel.Rules
import Mathlib.Tactic.Linarith
import Mathlib.Data.List.Basic
import Mathlib.Data.List.Nodup

namespace Atomica.Rules

/-! ### combinators -/

@[simp] theorem req_eq_none {ε : Type} (b : Bool) (e : ε) : req b e = none ↔ b = true := by
  cases b <;> simp [req]

@[simp] theorem andThen_eq_none {ε : Type} (a b : Option ε) : andThen a b = none ↔ a = none ∧ b = none := by
  cases a <;> simp [andThen]

@[simp] theorem seqC_nil {ε : Type} : seqC ([] : List (Option ε)) = none := rfl

@[simp] theorem seqC_cons_eq_none {ε : Type} (c : Option ε) (cs : List (Option ε)) :
    seqC (c :: cs) = none ↔ c = none ∧ seqC cs = none := by
  simp [seqC]

theorem allC_eq_none {α ε : Type} (f : α → Option ε) (l : List α) : allC f l = none ↔ ∀ x ∈ l, f x = none := by
  induction l with
  | nil => simp [allC]
  | cons x xs ih => simp [allC, ih]

theorem req_eq_some {ε : Type} (b : Bool) (e e' : ε) (h : req b e = some e') : e' = e := by
  cases b <;> simp [req] at h
  exact h.symm

/-- every error of `andThen a b` is an error of `a` or of `b` -/
theorem andThen_eq_some {ε : Type} (a b : Option ε) (e : ε) (h : andThen a b = some e) : a = some e ∨ b = some e := by
  cases a with
  | none => right; simpa [andThen] using h
  | some x => left; simpa [andThen] using h

theorem seqC_eq_some {ε : Type} (cs : List (Option ε)) (e : ε) (h : seqC cs = some e) : ∃ c ∈ cs, c = some e := by
  induction cs with
  | nil => simp [seqC] at h
  | cons c cs ih =>
      rcases andThen_eq_some _ _ _ h with h1 | h1
      · exact ⟨c, by simp, h1⟩
      · obtain ⟨c', hc', he⟩ := ih h1
        exact ⟨c', by simp [hc'], he⟩

theorem allC_eq_some {α ε : Type} (f : α → Option ε) (l : List α) (e : ε) (h : allC f l = some e) : ∃ x ∈ l, f x = some e := by
  induction l with
  | nil => simp [allC] at h
  | cons x xs ih =>
      rcases andThen_eq_some _ _ _ h with h1 | h1
      · exact ⟨x, by simp, h1⟩
      · obtain ⟨y, hy, he⟩ := ih h1
        exact ⟨y, by simp [hy], he⟩

/-! ### acyclicity: peeling ⇔ a rank function exists -/

/-- `rank` orders the graph restricted to `nodes` -/
def Ranked (edges : List (String × String)) (nodes : List String) (rank : String → Nat) : Prop :=
  ∀ e ∈ edges, e.1 ∈ nodes → e.2 ∈ nodes → rank e.1 < rank e.2

theorem mem_peelStep (edges : List (String × String)) (nodes : List String) (v : String) :
    v ∈ peelStep edges nodes ↔ v ∈ nodes ∧ ∃ e ∈ edges, e.2 = v ∧ e.1 ∈ nodes := by
  simp [peelStep, List.mem_filter, List.any_eq_true]

theorem peelStep_subset (edges : List (String × String)) (nodes : List String) : ∀ v ∈ peelStep edges nodes, v ∈ nodes := by
  intro v hv
  exact ((mem_peelStep edges nodes v).1 hv).1

theorem peel_nil (edges : List (String × String)) (k : Nat) : peel edges k [] = [] := by
  induction k with
  | zero => rfl
  | succ k ih => simpa [peel, peelStep] using ih

theorem peel_sound (edges : List (String × String)) : ∀ (k : Nat) (nodes : List String),
    peel edges k nodes = [] → ∃ rank, Ranked edges nodes rank := by
  intro k
  induction k with
  | zero =>
      intro nodes h
      simp [peel] at h
      subst h
      exact ⟨fun _ => 0, by intro e _ h1; simp at h1⟩
  | succ k ih =>
      intro nodes h
      simp only [peel] at h
      obtain ⟨rank', hr⟩ := ih _ h
      refine ⟨fun v => if v ∈ peelStep edges nodes then rank' v + 1 else 0, ?_⟩
      intro e he h1 h2
      have hb : e.2 ∈ peelStep edges nodes := (mem_peelStep edges nodes e.2).2 ⟨h2, e, he, rfl, h1⟩
      by_cases ha : e.1 ∈ peelStep edges nodes
      · have := hr e he ha hb
        simp only [ha, hb, if_true]
        omega
      · simp only [ha, hb, if_true, if_false]
        omega

theorem exists_min_rank (rank : String → Nat) : ∀ (l : List String), l ≠ [] → ∃ v ∈ l, ∀ w ∈ l, rank v ≤ rank w := by
  intro l
  induction l with
  | nil => intro h; exact absurd rfl h
  | cons x xs ih =>
      intro _
      by_cases hxs : xs = []
      · subst hxs
        exact ⟨x, by simp, by intro w hw; simp at hw; subst hw; exact Nat.le_refl _⟩
      · obtain ⟨v, hv, hmin⟩ := ih hxs
        by_cases hle : rank x ≤ rank v
        · refine ⟨x, by simp, ?_⟩
          intro w hw
          simp at hw
          rcases hw with rfl | hw
          · exact Nat.le_refl _
          · exact Nat.le_trans hle (hmin w hw)
        · refine ⟨v, by simp [hv], ?_⟩
          intro w hw
          simp at hw
          rcases hw with rfl | hw
          · omega
          · exact hmin w hw

theorem peelStep_length_lt (edges : List (String × String)) (nodes : List String) (rank : String → Nat)
    (hr : Ranked edges nodes rank) (hne : nodes ≠ []) : (peelStep edges nodes).length < nodes.length := by
  obtain ⟨v, hv, hmin⟩ := exists_min_rank rank nodes hne
  have hnot : v ∉ peelStep edges nodes := by
    intro hmem
    obtain ⟨_, e, he, h2, h1⟩ := (mem_peelStep edges nodes v).1 hmem
    have := hr e he h1 (by rw [h2]; exact hv)
    have := hmin e.1 h1
    rw [h2] at *
    omega
  unfold peelStep at hnot ⊢
  apply List.length_filter_lt_length_iff_exists.2
  refine ⟨v, hv, ?_⟩
  intro hp
  exact hnot (List.mem_filter.2 ⟨hv, hp⟩)

theorem Ranked.mono {edges : List (String × String)} {nodes nodes' : List String} {rank : String → Nat}
    (hr : Ranked edges nodes rank) (hsub : ∀ v ∈ nodes', v ∈ nodes) : Ranked edges nodes' rank := by
  intro e he h1 h2
  exact hr e he (hsub _ h1) (hsub _ h2)

theorem peel_complete (edges : List (String × String)) (rank : String → Nat) : ∀ (k : Nat) (nodes : List String),
    Ranked edges nodes rank → nodes.length ≤ k → peel edges k nodes = [] := by
  intro k
  induction k with
  | zero =>
      intro nodes _ hl
      simp [peel]
      exact List.length_eq_zero_iff.1 (Nat.le_zero.1 hl)
  | succ k ih =>
      intro nodes hr hl
      simp only [peel]
      by_cases hne : nodes = []
      · subst hne
        simpa [peelStep] using peel_nil edges k
      · apply ih
        · exact hr.mono (peelStep_subset edges nodes)
        · have := peelStep_length_lt edges nodes rank hr hne
          omega

/-- The peeling check succeeds exactly when the graph restricted to `nodes` can be ranked (evaluated in some order). -/
theorem acyclicB_iff_ranked (nodes : List String) (edges : List (String × String)) :
    acyclicB nodes edges = true ↔ ∃ rank, Ranked edges nodes rank := by
  unfold acyclicB
  rw [List.isEmpty_iff]
  constructor
  · exact peel_sound edges _ nodes
  · rintro ⟨rank, hr⟩
    exact peel_complete edges rank _ nodes hr (Nat.le_refl _)

/-! ### the name loops -/

theorem checkCodeNames_eq_none : ∀ (names seen : List String),
    checkCodeNames names seen = none ↔
      (∀ n ∈ names, hasReservedSymbol n = false ∧ reservedKeywords.contains n = false) ∧ names.Nodup ∧ ∀ n ∈ names, n ∉ seen := by
  intro names
  induction names with
  | nil => intro seen; simp [checkCodeNames]
  | cons n rest ih =>
      intro seen
      simp only [checkCodeNames, seqC_cons_eq_none, seqC_nil, req_eq_none, ih, List.nodup_cons, List.mem_cons, Bool.not_eq_true']
      constructor
      · rintro ⟨h1, h2, h3, ⟨h4, h5, h6⟩, _⟩
        refine ⟨?_, ⟨?_, h5⟩, ?_⟩
        · rintro m (rfl | hm)
          · exact ⟨h1, by simpa using h2⟩
          · exact h4 m hm
        · intro hmem
          exact (h6 n hmem) (by simp)
        · rintro m (rfl | hm)
          · simpa using h3
          · intro hs
            exact (h6 m hm) (by simp [hs])
      · rintro ⟨h1, ⟨h2, h3⟩, h4⟩
        refine ⟨(h1 n (Or.inl rfl)).1, by simpa using (h1 n (Or.inl rfl)).2, by simpa using h4 n (Or.inl rfl), ⟨?_, h3, ?_⟩, trivial⟩
        · intro m hm
          exact h1 m (Or.inr hm)
        · intro m hm hs
          rcases hs with rfl | hs
          · exact h2 hm
          · exact h4 m (Or.inr hm) hs

theorem checkDisplayNames_eq_none : ∀ (names seen : List String),
    checkDisplayNames names seen = none ↔ names.Nodup ∧ ∀ n ∈ names, n ∉ seen := by
  intro names
  induction names with
  | nil => intro seen; simp [checkDisplayNames]
  | cons n rest ih =>
      intro seen
      simp only [checkDisplayNames, seqC_cons_eq_none, seqC_nil, req_eq_none, ih, List.nodup_cons, List.mem_cons, Bool.not_eq_true']
      constructor
      · rintro ⟨h3, ⟨h5, h6⟩, _⟩
        refine ⟨⟨?_, h5⟩, ?_⟩
        · intro hmem
          exact (h6 n hmem) (by simp)
        · rintro m (rfl | hm)
          · simpa using h3
          · intro hs
            exact (h6 m hm) (by simp [hs])
      · rintro ⟨⟨h2, h3⟩, h4⟩
        refine ⟨by simpa using h4 n (Or.inl rfl), ⟨h3, ?_⟩, trivial⟩
        intro m hm hs
        rcases hs with rfl | hs
        · exact h2 hm
        · exact h4 m (Or.inr hm) hs

theorem nodupB_iff : ∀ (l : List String), nodupB l = true ↔ l.Nodup := by
  intro l
  induction l with
  | nil => simp [nodupB]
  | cons x xs ih => simp [nodupB, ih]

/-! ### timed transitions: the order-dependent bookkeeping accepts everything the documented rule accepts -/

theorem lookup_some_mem : ∀ (st : List (String × String)) (k v : String), st.lookup k = some v → (k, v) ∈ st := by
  intro st
  induction st with
  | nil => intro k v h; simp [List.lookup] at h
  | cons kv rest ih =>
      intro k v h
      obtain ⟨k', v'⟩ := kv
      by_cases hk : k = k'
      · subst hk
        simp [List.lookup] at h
        subst h
        simp
      · have hne : (k == k') = false := by simpa using hk
        simp [List.lookup, hne] at h
        exact List.mem_cons_of_mem _ (ih k v h)

/-- the three documented conditions for one timed outflow `t` of the list `all` -/
def TimedOK (special : String → Bool) (all : List TimedLink) (t : TimedLink) : Prop :=
  all.countP (fun u => u.src == t.src) ≤ 1 ∧ special t.src = false ∧ ∀ u ∈ all, ¬(u.src = t.dst ∧ u.par = t.par)

theorem timedSpec_eq_none (special : String → Bool) (tl : List TimedLink) :
    timedSpec special tl = none ↔ ∀ t ∈ tl, TimedOK special tl t := by
  unfold timedSpec TimedOK
  rw [allC_eq_none]
  constructor
  · intro h t ht
    have := h t ht
    simp only [seqC_cons_eq_none, seqC_nil, req_eq_none, decide_eq_true_eq, Bool.not_eq_true', List.any_eq_false, Bool.and_eq_true, beq_iff_eq, and_true] at this
    exact ⟨this.1, this.2.1, fun u hu => by simpa using this.2.2 u hu⟩
  · intro h t ht
    obtain ⟨h1, h2, h3⟩ := h t ht
    simp only [seqC_cons_eq_none, seqC_nil, req_eq_none, decide_eq_true_eq, Bool.not_eq_true', List.any_eq_false, Bool.and_eq_true, beq_iff_eq, and_true]
    exact ⟨h1, h2, fun u hu => by simpa using h3 u hu⟩

theorem timedCur_of_ok (special : String → Bool) : ∀ (rest pre : List TimedLink) (st : List (String × String)),
    (∀ kv ∈ st, ∃ u ∈ pre, u.src = kv.1 ∧ u.par = kv.2) →
    (∀ t ∈ rest, TimedOK special (pre ++ rest) t) →
    timedCur special rest st = none := by
  intro rest
  induction rest with
  | nil => intro pre st _ _; rfl
  | cons t rest ih =>
      intro pre st hinv hok
      obtain ⟨hcount, hspec, hgrp⟩ := hok t (by simp)
      have hlook : st.lookup t.src = none := by
        cases hl : st.lookup t.src with
        | none => rfl
        | some v =>
            exfalso
            obtain ⟨u, hu, hus, _⟩ := hinv _ (lookup_some_mem st _ _ hl)
            have h1 : 1 ≤ pre.countP (fun u => u.src == t.src) := by
              apply List.countP_pos_iff.2
              exact ⟨u, hu, by simpa using hus⟩
            have h2 : (pre ++ t :: rest).countP (fun u => u.src == t.src) = pre.countP (fun u => u.src == t.src) + (1 + rest.countP (fun u => u.src == t.src)) := by
              rw [List.countP_append, List.countP_cons]
              simp
              omega
            omega
      have hgroup : (((t.src, t.par) :: st).lookup t.dst == some t.par) = false := by
        cases hl : ((t.src, t.par) :: st).lookup t.dst with
        | none => simp
        | some v =>
            by_cases hv : v = t.par
            · exfalso
              subst hv
              have hm := lookup_some_mem _ _ _ hl
              simp only [List.mem_cons] at hm
              rcases hm with hm | hm
              · have : t.dst = t.src := by
                  have := congrArg Prod.fst hm
                  simpa using this
                exact hgrp t (by simp) ⟨this.symm, rfl⟩
              · obtain ⟨u, hu, hus, hup⟩ := hinv _ hm
                exact hgrp u (by simp [hu]) ⟨hus, hup⟩
            · simpa using hv
      simp only [timedCur, hlook, hspec, hgroup]
      apply ih (pre ++ [t]) ((t.src, t.par) :: st)
      · intro kv hkv
        simp only [List.mem_cons] at hkv
        rcases hkv with rfl | hkv
        · exact ⟨t, by simp, rfl, rfl⟩
        · obtain ⟨u, hu, h1, h2⟩ := hinv kv hkv
          exact ⟨u, by simp [hu], h1, h2⟩
      · intro t' ht'
        have := hok t' (by simp [ht'])
        simpa [List.append_assoc] using this

/-- Whatever the documented timed-transition rules accept, the order-dependent bookkeeping of `_process_transitions` accepts. -/
theorem timedCur_weaker (special : String → Bool) (tl : List TimedLink) (h : timedSpec special tl = none) :
    timedCur special tl [] = none := by
  apply timedCur_of_ok special tl [] []
  · intro kv hkv; simp at hkv
  · simpa using (timedSpec_eq_none special tl).1 h

end Atomica.Rules
