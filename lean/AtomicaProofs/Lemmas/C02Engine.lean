/-
  Helper lemmas for C02 (non-negativity / no over-draw) about `Atomica.Engine`:
    * what `wfCheck net = true` provides (`WF` structure, `wf_of_check`),
    * counting sums (`sumTo_count`),
    * algebra of the rescale factor,
    * closed forms of `baseOut` / `outRow (resolveFlow …)`.
-/
import AtomicaModel.Engine
import AtomicaProofs.Lemmas.Sums
import Mathlib.Tactic.Linarith
import Mathlib.Tactic.Ring
import Mathlib.Tactic.FieldSimp
import Mathlib.Tactic.Positivity
import Mathlib.Algebra.Order.Field.Basic

namespace Atomica.C02
open Atomica Atomica.Engine

/-! ## facts extracted from `wfCheck` -/

/-- The part of `wfCheck` this property uses, as propositions. -/
structure WF (net : Net) : Prop where
  src_lt : ∀ l, l < net.nL → net.src l < net.nC
  dst_lt : ∀ l, l < net.nL → net.dst l < net.nC
  par_lt : ∀ l, l < net.nL → ∀ p, net.par l = some p → p < net.nP
  tscale_pos : ∀ p, p < net.nP → 0 < net.tscale p
  flush_timed : ∀ l, l < net.nL → net.isFlush l = true → net.kind (net.src l) = .timed
  flush_par : ∀ l, l < net.nL → net.isFlush l = true → net.par l = none
  nrows_pos : ∀ c, c < net.nC → 1 ≤ net.nrows c
  one_flush : ∀ c, c < net.nC → net.kind c = .timed →
    ((List.range net.nL).filter (fun l => net.src l == c && net.isFlush l)).length = 1
  jorder_junction : ∀ j, j ∈ net.jorder → isJunction net j = true

theorem allBelow_iff (n : Nat) (p : Nat → Bool) : allBelow n p = true ↔ ∀ i, i < n → p i = true := by
  simp [allBelow, List.all_eq_true]

theorem wf_of_check {net : Net} (h : wfCheck net = true) : WF net := by
  unfold wfCheck at h
  simp only [Bool.and_eq_true, allBelow_iff, List.all_eq_true] at h
  obtain ⟨⟨⟨⟨⟨⟨hL, hP⟩, hC⟩, hF⟩, hJ⟩, _⟩, _⟩ := h
  refine ⟨?_, ?_, ?_, ?_, ?_, ?_, ?_, ?_, ?_⟩
  · intro l hl
    obtain ⟨⟨⟨⟨⟨⟨⟨⟨⟨⟨⟨h1, h2⟩, h3⟩, h4⟩, h5⟩, h6⟩, h7⟩, h8⟩, h9⟩, h10⟩, h11⟩, h12⟩ := hL l hl
    simpa using h1
  · intro l hl
    obtain ⟨⟨⟨⟨⟨⟨⟨⟨⟨⟨⟨h1, h2⟩, h3⟩, h4⟩, h5⟩, h6⟩, h7⟩, h8⟩, h9⟩, h10⟩, h11⟩, h12⟩ := hL l hl
    simpa using h2
  · intro l hl p hp
    obtain ⟨⟨⟨⟨⟨⟨⟨⟨⟨⟨⟨h1, h2⟩, h3⟩, h4⟩, h5⟩, h6⟩, h7⟩, h8⟩, h9⟩, h10⟩, h11⟩, h12⟩ := hL l hl
    rw [hp] at h6
    simpa using h6
  · intro p hp
    simpa using hP p hp
  · intro l hl hf
    obtain ⟨⟨⟨⟨⟨⟨⟨⟨⟨⟨⟨h1, h2⟩, h3⟩, h4⟩, h5⟩, h6⟩, h7⟩, h8⟩, h9⟩, h10⟩, h11⟩, h12⟩ := hL l hl
    rw [hf] at h7
    simp at h7
    exact h7.1.1
  · intro l hl hf
    obtain ⟨⟨⟨⟨⟨⟨⟨⟨⟨⟨⟨h1, h2⟩, h3⟩, h4⟩, h5⟩, h6⟩, h7⟩, h8⟩, h9⟩, h10⟩, h11⟩, h12⟩ := hL l hl
    rw [hf] at h7
    simp at h7
    exact h7.2
  · intro c hc
    have := hC c hc
    simp at this
    exact this.1
  · intro c hc hk
    have := hF c hc
    rw [hk] at this
    simpa using this
  · intro j hj
    exact (hJ j hj).2

/-! ## counting sums -/

theorem sumTo_count (n : Nat) (p : Nat → Bool) (a : Rat) :
    sumTo n (fun l => if p l = true then a else 0) = (((List.range n).filter p).length : Rat) * a := by
  induction n with
  | zero => simp [sumTo]
  | succ n ih =>
    simp only [sumTo, ih, List.range_succ, List.filter_append, List.length_append]
    cases hp : p n <;> simp [List.filter, hp]; ring

/-! ## the rescale factor -/

theorem rescale_pos (t : Rat) : 0 < rescale t := by
  unfold rescale
  split
  · next h => have : (0 : Rat) < t := by linarith
              positivity
  · exact one_pos

theorem rescale_le_one (t : Rat) : rescale t ≤ 1 := by
  unfold rescale
  split
  · next h =>
      have h0 : (0 : Rat) < t := by linarith
      rw [div_le_one h0]; linarith
  · exact le_refl _

theorem mul_rescale_of_gt {t : Rat} (h : 1 < t) : t * rescale t = 1 := by
  unfold rescale
  rw [if_pos h]
  have : t ≠ 0 := by linarith
  field_simp

theorem mul_rescale_le_one (t : Rat) : t * rescale t ≤ 1 := by
  by_cases h : 1 < t
  · rw [mul_rescale_of_gt h]
  · unfold rescale
    rw [if_neg h]
    linarith

/-! ## closed forms of the resolve stage -/

variable (net : Net)

theorem baseFlow_nt {cache : Nat → Rat} {x : Stock} {l r : Nat}
    (hk : net.kind (net.src l) = .normal ∨ net.kind (net.src l) = .timed) :
    baseFlow net cache x l r =
      if r < net.nrows (net.src l) ∧ acts net l r = true
      then cache l * (rescale (outReq net cache (net.src l) r) * x (net.src l) r) else 0 := by
  unfold baseFlow
  rcases hk with hk | hk <;> simp only [hk]

theorem baseFlow_source {cache : Nat → Rat} {x : Stock} {l r : Nat}
    (hk : net.kind (net.src l) = .source) :
    baseFlow net cache x l r = if r = 0 then cache l else 0 := by
  unfold baseFlow
  simp only [hk]

theorem baseFlow_other {cache : Nat → Rat} {x : Stock} {l r : Nat}
    (h1 : net.kind (net.src l) ≠ .normal) (h2 : net.kind (net.src l) ≠ .timed)
    (h3 : net.kind (net.src l) ≠ .source) : baseFlow net cache x l r = 0 := by
  unfold baseFlow
  cases hk : net.kind (net.src l) <;> simp_all

/-- the flush link carries no `baseFlow` (it does not `act`) -/
theorem baseFlow_flush {cache : Nat → Rat} {x : Stock} {l r : Nat}
    (hk : net.kind (net.src l) = .timed) (hf : net.isFlush l = true) : baseFlow net cache x l r = 0 := by
  rw [baseFlow_nt net (Or.inr hk)]
  simp [acts, hf]

/-- `resolveFlow` = parameter-driven part + flush part -/
theorem resolveFlow_eq (cache : Nat → Rat) (x : Stock) (l r : Nat) :
    resolveFlow net cache x l r = baseFlow net cache x l r +
      (if net.kind (net.src l) = .timed ∧ net.isFlush l = true ∧ r = 0
       then clip0 (x (net.src l) 0 - baseOut net cache x (net.src l) 0) else 0) := by
  unfold resolveFlow
  by_cases h : net.kind (net.src l) = .timed ∧ net.isFlush l = true
  · simp only [h, and_self, if_true, true_and]
    rw [baseFlow_flush net h.1 h.2]
    by_cases hr : r = 0
    · simp only [hr, if_true, clip0, zero_add]
    · simp [hr]
  · rw [if_neg h]
    have : ¬ (net.kind (net.src l) = .timed ∧ net.isFlush l = true ∧ r = 0) := fun hh => h ⟨hh.1, hh.2.1⟩
    rw [if_neg this, add_zero]

/-- what leaves row `r` of an ordinary / timed compartment through parameter-driven links:
    requested fraction × common factor × content -/
theorem baseOut_eq {cache : Nat → Rat} {x : Stock} {c r : Nat}
    (hk : net.kind c = .normal ∨ net.kind c = .timed) :
    baseOut net cache x c r =
      if r < net.nrows c then outReq net cache c r * (rescale (outReq net cache c r) * x c r) else 0 := by
  unfold baseOut
  by_cases hr : r < net.nrows c
  · rw [if_pos hr]
    obtain ⟨K, hK⟩ : ∃ K, K = rescale (outReq net cache c r) * x c r := ⟨_, rfl⟩
    rw [← hK]
    unfold outReq
    rw [← sumTo_mul_right]
    apply sumTo_congr
    intro l _
    by_cases hs : net.src l = c
    · have hk' : net.kind (net.src l) = .normal ∨ net.kind (net.src l) = .timed := by rw [hs]; exact hk
      rw [if_pos hs, baseFlow_nt net hk', hs, ← hK]
      by_cases ha : acts net l r = true
      · simp [hr, ha]
      · simp [ha]
    · simp [hs]
  · rw [if_neg hr]
    apply sumTo_zero
    intro l _
    by_cases hs : net.src l = c
    · have hk' : net.kind (net.src l) = .normal ∨ net.kind (net.src l) = .timed := by rw [hs]; exact hk
      rw [if_pos hs, baseFlow_nt net hk', hs]
      simp [hr]
    · simp [hs]

/-- number of flush links of `c` -/
def nFlush (c : Nat) : Nat := ((List.range net.nL).filter (fun l => net.src l == c && net.isFlush l)).length

/-- total outflow of row `r` of `c` after `resolve_outflows` -/
theorem outRow_resolve (cache : Nat → Rat) (x : Stock) (c r : Nat) :
    outRow net (resolveFlow net cache x) c r = baseOut net cache x c r +
      (if net.kind c = .timed ∧ r = 0 then (nFlush net c : Rat) * clip0 (x c 0 - baseOut net cache x c 0) else 0) := by
  unfold outRow
  rw [show baseOut net cache x c r = sumTo net.nL (fun l => if net.src l = c then baseFlow net cache x l r else 0) from rfl]
  have h1 : ∀ l, (if net.src l = c then resolveFlow net cache x l r else 0)
      = (if net.src l = c then baseFlow net cache x l r else 0)
        + (if (net.src l == c && net.isFlush l) = true then
            (if net.kind c = .timed ∧ r = 0 then clip0 (x c 0 - baseOut net cache x c 0) else 0) else 0) := by
    intro l
    by_cases hs : net.src l = c
    · subst hs
      rw [if_pos rfl, if_pos rfl, resolveFlow_eq]
      congr 1
      by_cases hf : net.isFlush l = true
      · by_cases hkt : net.kind (net.src l) = .timed <;> by_cases hr : r = 0 <;> simp [hf, hkt, hr]
      · simp [hf]
    · simp [hs]
  simp only [h1, sumTo_add]
  congr 1
  rw [sumTo_count]
  unfold nFlush
  by_cases h : net.kind c = .timed ∧ r = 0
  · simp only [h, and_self, if_true]
  · simp [h]

theorem nFlush_one {net : Net} (wf : WF net) {c : Nat} (hc : c < net.nC) (hk : net.kind c = .timed) :
    nFlush net c = 1 := wf.one_flush c hc hk

theorem outReq_nonneg {cache : Nat → Rat} (hc : ∀ l, l < net.nL → 0 ≤ cache l) (c r : Nat) :
    0 ≤ outReq net cache c r := by
  unfold outReq
  apply sumTo_nonneg
  intro l hl
  split
  · exact hc l hl
  · exact le_refl _

theorem baseOut_le {cache : Nat → Rat} {x : Stock} {c r : Nat}
    (hk : net.kind c = .normal ∨ net.kind c = .timed) (hx : 0 ≤ x c r) :
    baseOut net cache x c r ≤ x c r := by
  rw [baseOut_eq net hk]
  split
  · have h := mul_rescale_le_one (outReq net cache c r)
    calc outReq net cache c r * (rescale (outReq net cache c r) * x c r)
        = (outReq net cache c r * rescale (outReq net cache c r)) * x c r := by ring
      _ ≤ 1 * x c r := mul_le_mul_of_nonneg_right h hx
      _ = x c r := one_mul _
  · exact hx

theorem baseOut_nonneg {cache : Nat → Rat} {x : Stock} {c r : Nat}
    (hk : net.kind c = .normal ∨ net.kind c = .timed)
    (hc : ∀ l, l < net.nL → 0 ≤ cache l) (hx : 0 ≤ x c r) :
    0 ≤ baseOut net cache x c r := by
  rw [baseOut_eq net hk]
  split
  · exact mul_nonneg (outReq_nonneg net hc c r) (mul_nonneg (le_of_lt (rescale_pos _)) hx)
  · exact le_refl _

theorem clip0_nonneg (v : Rat) : 0 ≤ clip0 v := by
  unfold clip0; split
  · next h => exact le_of_lt h
  · exact le_refl _

theorem clip0_of_nonneg {v : Rat} (h : 0 ≤ v) : clip0 v = v := by
  unfold clip0; split
  · rfl
  · next hn => linarith [not_lt.mp hn]

/-! ## predicates of the property -/

/-- every in-range compartment row is non-negative -/
def StockNonneg (x : Stock) : Prop := ∀ c, c < net.nC → ∀ r, r < net.nrows c → 0 ≤ x c r

/-- every flow value (per link, per row) is non-negative -/
def FlowNonneg (fl : Flow) : Prop := ∀ l, l < net.nL → ∀ r, 0 ≤ fl l r

/-- the proportions driving junction outflows are non-negative (domain restriction of `balance_nonneg`) -/
def PropsNonneg (pv : Nat → Rat) : Prop := ∀ l, l < net.nL → isJunction net (net.src l) = true → 0 ≤ pOf net pv l

/-- no plain junction of the execution order has proportions summing to zero (domain restriction: "well-posed") -/
def WellPosed (pv : Nat → Rat) : Prop := ∀ j, j ∈ net.jorder → net.kind j = .junction → pTot net pv j ≠ 0

theorem recorded_nonneg {fl : Flow} (h : FlowNonneg net fl) {l : Nat} (hl : l < net.nL) : 0 ≤ recorded net fl l :=
  sumTo_nonneg (fun r _ => h l hl r)

theorem inAll_nonneg {fl : Flow} (h : FlowNonneg net fl) (c : Nat) : 0 ≤ inAll net fl c := by
  unfold inAll
  apply sumTo_nonneg; intro l hl
  split
  · exact recorded_nonneg net h hl
  · exact le_refl _

theorem inUntimed_nonneg {fl : Flow} (h : FlowNonneg net fl) (c : Nat) : 0 ≤ inUntimed net fl c := by
  unfold inUntimed
  apply sumTo_nonneg; intro l hl
  split
  · exact recorded_nonneg net h hl
  · exact le_refl _

theorem tlinkInto_nonneg {fl : Flow} (h : FlowNonneg net fl) {l : Nat} (hl : l < net.nL) (n r : Nat) :
    0 ≤ tlinkInto net fl l n r := by
  unfold tlinkInto
  simp only
  split
  · split
    · exact h l hl r
    · exact le_refl _
  · apply add_nonneg
    · split
      · exact h l hl r
      · exact le_refl _
    · split
      · exact sumTo_nonneg (fun k _ => h l hl _)
      · exact le_refl _

theorem inTimedRow_nonneg {fl : Flow} (h : FlowNonneg net fl) (c r : Nat) : 0 ≤ inTimedRow net fl c r := by
  unfold inTimedRow
  apply sumTo_nonneg; intro l hl
  split
  · exact tlinkInto_nonneg net h hl _ _
  · exact le_refl _

theorem jInflow_nonneg {fl : Flow} (h : FlowNonneg net fl) (j r : Nat) : 0 ≤ jInflow net fl j r := by
  unfold jInflow
  split
  · apply sumTo_nonneg; intro l hl
    split
    · exact h l hl r
    · exact le_refl _
  · split
    · apply sumTo_nonneg; intro l hl
      split
      · exact recorded_nonneg net h hl
      · exact le_refl _
    · exact le_refl _

theorem pTot_nonneg {pv : Nat → Rat} {j : Nat} (h : ∀ l, l < net.nL → net.src l = j → 0 ≤ pOf net pv l) :
    0 ≤ pTot net pv j := by
  unfold pTot
  apply sumTo_nonneg; intro l hl
  split
  · next hs => exact h l hl hs
  · exact le_refl _

theorem resFrac_nonneg {pv : Nat → Rat} {j l : Nat} (hl : l < net.nL) (hs : net.src l = j)
    (h : ∀ l, l < net.nL → net.src l = j → 0 ≤ pOf net pv l) : 0 ≤ resFrac net pv j l := by
  unfold resFrac
  split
  · exact div_nonneg (h l hl hs) (pTot_nonneg net h)
  · exact h l hl hs

/-- what a residual junction sends through its parameter-driven links when `Σp ≤ 1` -/
theorem resSum_eq {pv : Nat → Rat} {j : Nat} (inn : Rat) (ht : ¬ pTot net pv j > 1) :
    sumTo net.nL (fun l' => if net.src l' = j then inn * resFrac net pv j l' else 0) = inn * pTot net pv j := by
  unfold pTot
  rw [← sumTo_mul_left]
  apply sumTo_congr; intro l _
  unfold resFrac
  rw [if_neg ht]
  split <;> simp

/-- one junction balance keeps flows non-negative -/
theorem balanceOne_nonneg {pv : Nat → Rat} {fl fl' : Flow} {j : Nat}
    (hfl : FlowNonneg net fl) (hp : ∀ l, l < net.nL → net.src l = j → 0 ≤ pOf net pv l)
    (hb : balanceOne net pv fl j = some fl') : FlowNonneg net fl' := by
  unfold balanceOne at hb
  split at hb
  · -- plain junction
    split at hb
    · -- Σp = 0: defined only when nothing flows in, and then every outflow is 0
      split at hb
      · injection hb with hb; subst hb
        intro l hl r
        simp only
        split
        · exact le_refl _
        · exact hfl l hl r
      · exact absurd hb (by simp)
    · injection hb with hb; subst hb
      intro l hl r
      simp only
      split
      · next hs =>
        exact div_nonneg (mul_nonneg (jInflow_nonneg net hfl j r) (hp l hl hs)) (pTot_nonneg net hp)
      · exact hfl l hl r
  · -- residual junction
    injection hb with hb; subst hb
    intro l hl r
    simp only
    split
    · next hs =>
      have hin := jInflow_nonneg net hfl j r
      split
      · next hres =>
        rw [resSum_eq net _ (by linarith [hres.2])]
        have : 0 ≤ jInflow net fl j r * (1 - pTot net pv j) := mul_nonneg hin (by linarith [hres.2])
        linarith
      · exact mul_nonneg hin (resFrac_nonneg net hl hs hp)
    · exact hfl l hl r
  · injection hb with hb; subst hb; exact hfl

/-- a junction balance is undefined exactly at a plain junction whose proportions sum to zero while somebody flows in
    (the code computes `inflow · p / 0`; with zero inflow it now sends 0) -/
theorem balanceOne_eq_none_iff (pv : Nat → Rat) (fl : Flow) (j : Nat) :
    balanceOne net pv fl j = none ↔ (net.kind j = .junction ∧ pTot net pv j = 0 ∧ inflowZero net fl j = false) := by
  unfold balanceOne
  split
  · next hk =>
    split
    · next h0 =>
      cases hz : inflowZero net fl j <;> simp [hk, h0]
    · next h0 => simp [h0]
  · next hk => simp [hk]
  · next h1 h2 =>
    constructor
    · intro h; exact absurd h (by simp)
    · intro h; exact absurd h.1 h1

/-- a junction balance only writes links leaving that junction -/
theorem balanceOne_unchanged {pv : Nat → Rat} {fl fl' : Flow} {j : Nat}
    (hb : balanceOne net pv fl j = some fl') {l : Nat} (hs : net.src l ≠ j) (r : Nat) : fl' l r = fl l r := by
  unfold balanceOne at hb
  split at hb
  · split at hb
    · split at hb
      · injection hb with hb; subst hb; simp [hs]
      · exact absurd hb (by simp)
    · injection hb with hb; subst hb; simp [hs]
  · injection hb with hb; subst hb; simp [hs]
  · injection hb with hb; subst hb; rfl

/-- … and only when `j` is a junction at all -/
theorem balanceOne_unchanged_of_not_junction {pv : Nat → Rat} {fl fl' : Flow} {j : Nat}
    (hb : balanceOne net pv fl j = some fl') (hj : isJunction net j = false) : fl' = fl := by
  unfold balanceOne at hb
  unfold isJunction at hj
  split at hb
  · next hk => simp [hk] at hj
  · next hk => simp [hk] at hj
  · injection hb with hb; exact hb.symm

end Atomica.C02
