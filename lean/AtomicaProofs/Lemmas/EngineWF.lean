/-
  Plain-Prop consequences of `Engine.wfCheck net = true` (the decidable well-formedness the driver evaluates on every
  net extracted from a real atomica Model).  Theorems take `wfCheck net = true` as hypothesis and use these projections.
-/
import AtomicaModel.Engine
import AtomicaProofs.Lemmas.Sums

namespace Atomica.Engine
open Atomica

variable {net : Net}

/-- per-link facts -/
structure LinkWF (net : Net) (l : Nat) : Prop where
  src_lt : net.src l < net.nC
  dst_lt : net.dst l < net.nC
  src_not_sink : net.kind (net.src l) ≠ .sink
  dst_not_source : net.kind (net.dst l) ≠ .source
  lrows_timed : net.kind (net.src l) = .timed → net.lrows l = net.nrows (net.src l)
  lrows_plain : net.kind (net.src l) = .normal ∨ net.kind (net.src l) = .source ∨ net.kind (net.src l) = .sink → net.lrows l = 1
  lrows_junction : isJunction net (net.src l) = true → net.jgroup (net.src l) = false → net.lrows l = 1
  flush_timed : net.isFlush l = true → net.kind (net.src l) = .timed ∧ net.tlink l = false ∧ net.par l = none
  tlink_src : net.tlink l = true → net.kind (net.src l) = .timed ∨ (isJunction net (net.src l) = true ∧ net.jgroup (net.src l) = true)
  gj_in_tlink : isJunction net (net.dst l) = true → net.jgroup (net.dst l) = true → net.tlink l = true
  gj_out_tlink : isJunction net (net.src l) = true → net.jgroup (net.src l) = true → net.tlink l = true

theorem wf_link (h : wfCheck net = true) (l : Nat) (hl : l < net.nL) : LinkWF net l := by
  simp only [wfCheck, Bool.and_eq_true, allBelow, List.all_eq_true, List.mem_range] at h
  obtain ⟨⟨⟨⟨⟨⟨hL, _⟩, _⟩, _⟩, _⟩, _⟩, _⟩ := h
  obtain ⟨⟨⟨⟨⟨⟨⟨⟨⟨⟨⟨h1, h2⟩, h3⟩, h4⟩, _h5⟩, _h6⟩, h7⟩, h8⟩, h9⟩, h10⟩, h11⟩, _h12⟩ := hL l hl
  refine ⟨by simpa using h1, by simpa using h2, by simpa using h3, by simpa using h4, ?_, ?_, ?_, ?_, ?_, ?_, ?_⟩
  · intro hk; rw [hk] at h8; simpa using h8
  · intro hk
    rcases hk with hk | hk | hk <;> (rw [hk] at h8; simpa using h8)
  · intro hj hg
    unfold isJunction at hj
    cases hk : net.kind (net.src l) <;> rw [hk] at hj h8 <;> simp_all
  · intro hf
    simp only [hf, Bool.not_true, Bool.false_or, Bool.and_eq_true, beq_iff_eq, Bool.not_eq_eq_eq_not] at h7
    obtain ⟨⟨a, b⟩, c⟩ := h7
    exact ⟨a, by simpa using b, c⟩
  · intro ht
    simp only [ht, Bool.not_true, Bool.false_or, Bool.or_eq_true, beq_iff_eq, Bool.and_eq_true] at h9
    exact h9
  · intro hj hg
    simpa [hj, hg] using h10
  · intro hj hg
    simpa [hj, hg] using h11

theorem wf_nrows_pos (h : wfCheck net = true) (c : Nat) (hc : c < net.nC) : 1 ≤ net.nrows c := by
  simp only [wfCheck, Bool.and_eq_true, allBelow, List.all_eq_true, List.mem_range] at h
  obtain ⟨⟨⟨⟨⟨⟨_, _⟩, hC⟩, _⟩, _⟩, _⟩, _⟩ := h
  have := (hC c hc).1
  simpa using this

theorem wf_nrows_one (h : wfCheck net = true) (c : Nat) (hc : c < net.nC) (hk : net.kind c ≠ .timed) : net.nrows c = 1 := by
  simp only [wfCheck, Bool.and_eq_true, allBelow, List.all_eq_true, List.mem_range] at h
  obtain ⟨⟨⟨⟨⟨⟨_, _⟩, hC⟩, _⟩, _⟩, _⟩, _⟩ := h
  have := (hC c hc).2
  simp only [Bool.or_eq_true, beq_iff_eq] at this
  rcases this with h1 | h1
  · exact absurd h1 hk
  · exact h1

theorem wf_tscale_pos (h : wfCheck net = true) (p : Nat) (hp : p < net.nP) : 0 < net.tscale p := by
  simp only [wfCheck, Bool.and_eq_true, allBelow, List.all_eq_true, List.mem_range] at h
  obtain ⟨⟨⟨⟨⟨⟨_, hP⟩, _⟩, _⟩, _⟩, _⟩, _⟩ := h
  simpa using hP p hp

end Atomica.Engine
