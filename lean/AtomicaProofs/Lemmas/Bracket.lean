/-
  Soundness of the static checks of `Atomica.Protocol.Bracket` with respect to `exec`.
-/
import AtomicaModel.Protocol.Bracket
import Mathlib.Tactic.Cases
import Mathlib.Tactic.SplitIfs

namespace Atomica.Protocol.Bracket

/-- concretisation of an abstract state for field `f` whose value at entry was `orig` -/
def Gam (f : Field) (orig : Int) (a : Abs) (σ : State) : Prop :=
  (a.clean = true → σ.settings f = orig) ∧ ∀ v ∈ a.good, σ.vars v = orig

/-- the abstract result has a state for this outcome and it describes `σ` -/
def Covers (f : Field) (orig : Int) (x : Option Abs) (σ : State) : Prop :=
  ∃ a, x = some a ∧ Gam f orig a σ

theorem Gam_top (f : Field) (orig : Int) (σ : State) : Gam f orig Abs.top σ := by
  constructor
  · intro h; simp [Abs.top] at h
  · intro v hv; simp [Abs.top] at hv

theorem Gam_join_left {f orig a σ} (b : Abs) (h : Gam f orig a σ) : Gam f orig (joinA a b) σ := by
  obtain ⟨h1, h2⟩ := h
  constructor
  · intro hc
    simp only [joinA, Bool.and_eq_true] at hc
    exact h1 hc.1
  · intro v hv
    simp only [joinA, List.mem_filter] at hv
    exact h2 v hv.1

theorem Gam_join_right {f orig b σ} (a : Abs) (h : Gam f orig b σ) : Gam f orig (joinA a b) σ := by
  obtain ⟨h1, h2⟩ := h
  constructor
  · intro hc
    simp only [joinA, Bool.and_eq_true] at hc
    exact h1 hc.2
  · intro v hv
    simp only [joinA, List.mem_filter, List.contains_iff_mem] at hv
    exact h2 v hv.2

theorem covers_left {f orig x σ} (y : Option Abs) (h : Covers f orig x σ) : Covers f orig (joinO x y) σ := by
  obtain ⟨a, rfl, hg⟩ := h
  cases y with
  | none => exact ⟨a, rfl, hg⟩
  | some b => exact ⟨joinA a b, rfl, Gam_join_left b hg⟩

theorem covers_right {f orig y σ} (x : Option Abs) (h : Covers f orig y σ) : Covers f orig (joinO x y) σ := by
  obtain ⟨b, rfl, hg⟩ := h
  cases x with
  | none => exact ⟨b, rfl, hg⟩
  | some a => exact ⟨joinA a b, rfl, Gam_join_right a hg⟩

theorem Gam_congr {f orig a σ σ'} (hs : σ'.settings = σ.settings) (hv : σ'.vars = σ.vars)
    (h : Gam f orig a σ) : Gam f orig a σ' := by
  obtain ⟨h1, h2⟩ := h
  exact ⟨fun hc => by rw [hs]; exact h1 hc, fun v hv' => by rw [hv]; exact h2 v hv'⟩

/-! ### statements that do not touch settings leave settings and saved variables alone -/

theorem iter_preserve {P : State → Prop} {g : State → Outcome × State}
    (hg : ∀ σ, P σ → P (g σ).2) : ∀ (n : Nat) (σ : State), P σ → P (iter g n σ).2 := by
  intro n
  induction n with
  | zero => intro σ h; exact h
  | succ n ih =>
    intro σ h
    have h1 := hg σ h
    simp only [iter]
    rcases hr : g σ with ⟨o1, σ1⟩
    rw [hr] at h1
    cases o1
    · exact ih σ1 h1
    · exact h1
    · exact h1

theorem exec_untouched (o : Oracle) : ∀ (s : Stmt), touches s = false →
    ∀ σ, (exec o s σ).2.settings = σ.settings ∧ (exec o s σ).2.vars = σ.vars := by
  intro s
  induction s with
  | skip => intro _ σ; simp [exec]
  | save v f => intro h; simp [touches] at h
  | setNew f => intro h; simp [touches] at h
  | restore f v => intro h; simp [touches] at h
  | call l => intro _ σ; simp [exec]
  | write r => intro _ σ; cases r <;> simp [exec]
  | raise => intro _ σ; simp [exec]
  | ret => intro _ σ; simp [exec]
  | seq a b iha ihb =>
    intro h σ
    simp only [touches, Bool.or_eq_false_iff] at h
    have ha := iha h.1 σ
    simp only [exec]
    rcases hr : exec o a σ with ⟨o1, σ1⟩
    rw [hr] at ha
    cases o1
    · have hb := ihb h.2 σ1
      exact ⟨hb.1.trans ha.1, hb.2.trans ha.2⟩
    · exact ha
    · exact ha
  | ite a b iha ihb =>
    intro h σ
    simp only [touches, Bool.or_eq_false_iff] at h
    simp only [exec]
    split_ifs
    · exact ihb h.2 _
    · exact iha h.1 _
  | loop b ih =>
    intro h σ
    simp only [touches] at h
    simp only [exec]
    have := iter_preserve (P := fun τ => τ.settings = σ.settings ∧ τ.vars = σ.vars) (g := exec o b)
      (fun τ hτ => ⟨(ih h τ).1.trans hτ.1, (ih h τ).2.trans hτ.2⟩) (o.choice σ.nx) { σ with nx := σ.nx + 1 } ⟨rfl, rfl⟩
    exact this
  | tryFinally a b iha ihb =>
    intro h σ
    simp only [touches, Bool.or_eq_false_iff] at h
    have ha := iha h.1 σ
    simp only [exec]
    rcases hr : exec o a σ with ⟨o1, σ1⟩
    rw [hr] at ha
    have hb := ihb h.2 σ1
    rcases hr2 : exec o b σ1 with ⟨o2, σ2⟩
    rw [hr2] at hb
    cases o2 <;> exact ⟨hb.1.trans ha.1, hb.2.trans ha.2⟩
  | tryExcept a b c iha ihb =>
    intro h σ
    simp only [touches, Bool.or_eq_false_iff] at h
    have ha := iha h.1 σ
    simp only [exec]
    rcases hr : exec o a σ with ⟨o1, σ1⟩
    rw [hr] at ha
    cases o1
    · exact ha
    · simp only
      split_ifs
      · have hb := ihb h.2 σ1
        exact ⟨hb.1.trans ha.1, hb.2.trans ha.2⟩
      · exact ha
      · have hb := ihb h.2 { σ1 with nx := σ1.nx + 1 }
        exact ⟨hb.1.trans ha.1, hb.2.trans ha.2⟩
    · exact ha

/-! ### soundness of the abstract interpretation -/

theorem absExec_sound (f : Field) (orig : Int) (o : Oracle) : ∀ (s : Stmt) (a : Abs) (σ : State),
    Gam f orig a σ → Covers f orig ((absExec f s a).sel (exec o s σ).1) (exec o s σ).2 := by
  intro s
  induction s with
  | skip => intro a σ h; exact ⟨a, rfl, h⟩
  | save v g =>
    intro a σ h
    obtain ⟨h1, h2⟩ := h
    simp only [exec, absExec]
    split_ifs with hc
    · refine ⟨_, rfl, ?_, ?_⟩
      · intro hcl; exact h1 hcl
      · intro w hw
        simp only [List.mem_cons] at hw
        simp only [upd]
        split_ifs with hwv
        · rw [hc.1]; exact h1 hc.2
        · rcases hw with hw | hw
          · exact absurd hw hwv
          · exact h2 w hw
    · refine ⟨_, rfl, ?_, ?_⟩
      · intro hcl; exact h1 hcl
      · intro w hw
        simp only [List.mem_filter, decide_eq_true_eq] at hw
        simp only [upd, if_neg hw.2]
        exact h2 w hw.1
  | setNew g =>
    intro a σ h
    obtain ⟨h1, h2⟩ := h
    simp only [exec, absExec]
    split_ifs with hg
    · refine ⟨_, rfl, ?_, ?_⟩
      · intro hcl; simp at hcl
      · intro w hw; exact h2 w hw
    · refine ⟨_, rfl, ?_, ?_⟩
      · intro hcl
        simp only [upd]
        rw [if_neg (fun e => hg e.symm)]
        exact h1 hcl
      · intro w hw; exact h2 w hw
  | restore g v =>
    intro a σ h
    obtain ⟨h1, h2⟩ := h
    simp only [exec, absExec]
    split_ifs with hg
    · refine ⟨_, rfl, ?_, ?_⟩
      · intro hcl
        simp only [List.contains_iff_mem] at hcl
        simp only [upd, hg, if_true]
        exact h2 v hcl
      · intro w hw; exact h2 w hw
    · refine ⟨_, rfl, ?_, ?_⟩
      · intro hcl
        simp only [upd]
        rw [if_neg (fun e => hg e.symm)]
        exact h1 hcl
      · intro w hw; exact h2 w hw
  | call l =>
    intro a σ h
    simp only [exec, absExec]
    split_ifs <;> exact ⟨a, rfl, h⟩
  | write r =>
    intro a σ h
    cases r <;> exact ⟨a, rfl, h⟩
  | raise => intro a σ h; exact ⟨a, rfl, h⟩
  | ret => intro a σ h; exact ⟨a, rfl, h⟩
  | seq s t ihs iht =>
    intro a σ h
    have hs := ihs a σ h
    simp only [exec, absExec]
    rcases hr : exec o s σ with ⟨o1, σ1⟩
    rw [hr] at hs
    obtain ⟨a1, ha1, hg1⟩ := hs
    cases o1 with
    | norm =>
      simp only [Res.sel] at ha1
      simp only [ha1]
      have ht := iht a1 σ1 hg1
      rcases hr2 : exec o t σ1 with ⟨o2, σ2⟩
      rw [hr2] at ht
      cases o2 with
      | norm => exact ht
      | exc => exact covers_right _ ht
      | ret => exact covers_right _ ht
    | exc =>
      simp only [Res.sel] at ha1
      cases hn : (absExec f s a).norm with
      | none => exact ⟨a1, by simp [Res.sel, ha1], hg1⟩
      | some an => exact covers_left _ ⟨a1, ha1, hg1⟩
    | ret =>
      simp only [Res.sel] at ha1
      cases hn : (absExec f s a).norm with
      | none => exact ⟨a1, by simp [Res.sel, ha1], hg1⟩
      | some an => exact covers_left _ ⟨a1, ha1, hg1⟩
  | ite s t ihs iht =>
    intro a σ h
    simp only [exec, absExec]
    have hg' : Gam f orig a { σ with nx := σ.nx + 1 } := Gam_congr rfl rfl h
    split_ifs
    · have ht := iht a _ hg'
      generalize (exec o t { σ with nx := σ.nx + 1 }) = r at ht ⊢
      rcases r with ⟨o2, σ2⟩
      cases o2 <;> exact covers_right _ ht
    · have hs := ihs a _ hg'
      generalize (exec o s { σ with nx := σ.nx + 1 }) = r at hs ⊢
      rcases r with ⟨o2, σ2⟩
      cases o2 <;> exact covers_left _ hs
  | loop b _ =>
    intro a σ h
    simp only [exec, absExec]
    by_cases ht : touches b = true
    · simp only [ht, if_true]
      generalize (iter (exec o b) (o.choice σ.nx) { σ with nx := σ.nx + 1 }) = r
      rcases r with ⟨o2, σ2⟩
      cases o2 <;> exact ⟨Abs.top, rfl, Gam_top _ _ _⟩
    · have ht' : touches b = false := by simpa using ht
      simp only [ht', Bool.false_eq_true, if_false]
      have hp := iter_preserve (P := fun τ => τ.settings = σ.settings ∧ τ.vars = σ.vars) (g := exec o b)
        (fun τ hτ => ⟨((exec_untouched o b ht' τ).1).trans hτ.1, ((exec_untouched o b ht' τ).2).trans hτ.2⟩)
        (o.choice σ.nx) { σ with nx := σ.nx + 1 } ⟨rfl, rfl⟩
      generalize (iter (exec o b) (o.choice σ.nx) { σ with nx := σ.nx + 1 }) = r at hp ⊢
      rcases r with ⟨o2, σ2⟩
      have hg2 : Gam f orig a σ2 := Gam_congr hp.1 hp.2 h
      cases o2 <;> exact ⟨a, rfl, hg2⟩
  | tryFinally b fin ihb ihf =>
    intro a σ h
    have hb := ihb a σ h
    simp only [exec, absExec]
    rcases hr : exec o b σ with ⟨o1, σ1⟩
    rw [hr] at hb
    obtain ⟨a1, ha1, hg1⟩ := hb
    have hf := ihf a1 σ1 hg1
    rcases hr2 : exec o fin σ1 with ⟨o2, σ2⟩
    rw [hr2] at hf
    cases o1 <;> cases o2 <;> simp only [Res.sel] at ha1 hf ⊢ <;> simp only [ha1]
    · exact hf
    · exact covers_right _ (covers_left _ hf)
    · exact covers_right _ (covers_left _ hf)
    · exact covers_left _ hf
    · exact covers_right _ (covers_right _ (covers_left _ hf))
    · exact covers_right _ (covers_right _ (covers_left _ hf))
    · exact covers_left _ hf
    · exact covers_right _ (covers_right _ (covers_right _ hf))
    · exact covers_right _ (covers_right _ (covers_right _ hf))
  | tryExcept b hd c ihb ihh =>
    intro a σ h
    have hb := ihb a σ h
    simp only [exec, absExec]
    rcases hr : exec o b σ with ⟨o1, σ1⟩
    rw [hr] at hb
    obtain ⟨a1, ha1, hg1⟩ := hb
    cases o1 with
    | norm =>
      simp only [Res.sel] at ha1 ⊢
      exact covers_left _ ⟨a1, ha1, hg1⟩
    | ret =>
      simp only [Res.sel] at ha1 ⊢
      exact covers_left _ ⟨a1, ha1, hg1⟩
    | exc =>
      simp only [Res.sel] at ha1
      simp only [ha1]
      split_ifs with hc hch
      · have hh := ihh a1 σ1 hg1
        generalize (exec o hd σ1) = r at hh ⊢
        rcases r with ⟨o2, σ2⟩
        cases o2 <;> simp only [Res.sel] at hh ⊢ <;> exact covers_right _ hh
      · simp only [Res.sel]
        exact covers_left _ ⟨a1, rfl, Gam_congr rfl rfl hg1⟩
      · have hh := ihh a1 { σ1 with nx := σ1.nx + 1 } (Gam_congr rfl rfl hg1)
        generalize (exec o hd { σ1 with nx := σ1.nx + 1 }) = r at hh ⊢
        rcases r with ⟨o2, σ2⟩
        cases o2 <;> exact covers_right _ hh

/-! ### fields that are never assigned keep their value -/

theorem exec_unassigned (o : Oracle) (f : Field) : ∀ (s : Stmt), f ∉ assignedFields s →
    ∀ σ, (exec o s σ).2.settings f = σ.settings f := by
  intro s
  induction s with
  | skip => intro _ σ; rfl
  | save v g => intro _ σ; rfl
  | setNew g =>
    intro h σ
    simp only [assignedFields, List.mem_singleton] at h
    simp only [exec, upd, if_neg h]
  | restore g v =>
    intro h σ
    simp only [assignedFields, List.mem_singleton] at h
    simp only [exec, upd, if_neg h]
  | call l => intro _ σ; rfl
  | write r => intro _ σ; cases r <;> rfl
  | raise => intro _ σ; rfl
  | ret => intro _ σ; rfl
  | seq a b iha ihb =>
    intro h σ
    simp only [assignedFields, List.mem_append, not_or] at h
    have ha := iha h.1 σ
    simp only [exec]
    rcases hr : exec o a σ with ⟨o1, σ1⟩
    rw [hr] at ha
    cases o1
    · exact (ihb h.2 σ1).trans ha
    · exact ha
    · exact ha
  | ite a b iha ihb =>
    intro h σ
    simp only [assignedFields, List.mem_append, not_or] at h
    simp only [exec]
    split_ifs
    · exact ihb h.2 _
    · exact iha h.1 _
  | loop b ih =>
    intro h σ
    simp only [assignedFields] at h
    simp only [exec]
    exact iter_preserve (P := fun τ => τ.settings f = σ.settings f) (g := exec o b)
      (fun τ hτ => (ih h τ).trans hτ) (o.choice σ.nx) { σ with nx := σ.nx + 1 } rfl
  | tryFinally a b iha ihb =>
    intro h σ
    simp only [assignedFields, List.mem_append, not_or] at h
    have ha := iha h.1 σ
    simp only [exec]
    rcases hr : exec o a σ with ⟨o1, σ1⟩
    rw [hr] at ha
    have hb := ihb h.2 σ1
    rcases hr2 : exec o b σ1 with ⟨o2, σ2⟩
    rw [hr2] at hb
    cases o2 <;> exact hb.trans ha
  | tryExcept a b c iha ihb =>
    intro h σ
    simp only [assignedFields, List.mem_append, not_or] at h
    have ha := iha h.1 σ
    simp only [exec]
    rcases hr : exec o a σ with ⟨o1, σ1⟩
    rw [hr] at ha
    cases o1
    · exact ha
    · simp only
      split_ifs
      · exact (ihb h.2 σ1).trans ha
      · exact ha
      · exact (ihb h.2 { σ1 with nx := σ1.nx + 1 }).trans ha
    · exact ha

/-! ### only the caller-owned objects named by `writesTo` are ever modified -/

def WritesWithin (names : List String) (σ σ' : State) : Prop :=
  ∃ ws, σ'.written = σ.written ++ ws ∧ ∀ w ∈ ws, w ∈ names

theorem WritesWithin.refl (names : List String) (σ : State) : WritesWithin names σ σ :=
  ⟨[], by simp, by simp⟩

theorem WritesWithin.trans {names : List String} {σ1 σ2 σ3 : State}
    (h1 : WritesWithin names σ1 σ2) (h2 : WritesWithin names σ2 σ3) : WritesWithin names σ1 σ3 := by
  obtain ⟨w1, e1, m1⟩ := h1
  obtain ⟨w2, e2, m2⟩ := h2
  refine ⟨w1 ++ w2, by rw [e2, e1, List.append_assoc], ?_⟩
  intro w hw
  rcases List.mem_append.mp hw with h | h
  · exact m1 w h
  · exact m2 w h

theorem WritesWithin.mono {n1 n2 : List String} {σ σ' : State} (hs : ∀ w ∈ n1, w ∈ n2)
    (h : WritesWithin n1 σ σ') : WritesWithin n2 σ σ' := by
  obtain ⟨ws, e, m⟩ := h
  exact ⟨ws, e, fun w hw => hs w (m w hw)⟩

theorem WritesWithin.of_written_eq {names : List String} {σ σ' : State} (h : σ'.written = σ.written) :
    WritesWithin names σ σ' := ⟨[], by simp [h], by simp⟩

theorem exec_writes (o : Oracle) : ∀ (s : Stmt) (σ : State), WritesWithin (writesTo s) σ (exec o s σ).2 := by
  intro s
  induction s with
  | skip => intro σ; exact WritesWithin.refl _ _
  | save v g => intro σ; exact WritesWithin.of_written_eq rfl
  | setNew g => intro σ; exact WritesWithin.of_written_eq rfl
  | restore g v => intro σ; exact WritesWithin.of_written_eq rfl
  | call l => intro σ; exact WritesWithin.of_written_eq rfl
  | write r =>
    intro σ
    cases r with
    | caller n => exact ⟨[n], rfl, by simp [writesTo]⟩
    | copy => exact WritesWithin.refl _ _
    | fresh => exact WritesWithin.refl _ _
  | raise => intro σ; exact WritesWithin.refl _ _
  | ret => intro σ; exact WritesWithin.refl _ _
  | seq a b iha ihb =>
    intro σ
    have ha := (iha σ).mono (n2 := writesTo (.seq a b)) (by intro w hw; simp [writesTo, hw])
    simp only [exec]
    rcases hr : exec o a σ with ⟨o1, σ1⟩
    rw [hr] at ha
    cases o1
    · exact ha.trans ((ihb σ1).mono (by intro w hw; simp [writesTo, hw]))
    · exact ha
    · exact ha
  | ite a b iha ihb =>
    intro σ
    simp only [exec]
    split_ifs
    · exact (WritesWithin.of_written_eq (σ := σ) (σ' := { σ with nx := σ.nx + 1 }) rfl).trans
        ((ihb _).mono (by intro w hw; simp [writesTo, hw]))
    · exact (WritesWithin.of_written_eq (σ := σ) (σ' := { σ with nx := σ.nx + 1 }) rfl).trans
        ((iha _).mono (by intro w hw; simp [writesTo, hw]))
  | loop b ih =>
    intro σ
    simp only [exec]
    exact iter_preserve (P := fun τ => WritesWithin (writesTo (.loop b)) σ τ) (g := exec o b)
      (fun τ hτ => hτ.trans ((ih τ).mono (by intro w hw; simpa [writesTo] using hw)))
      (o.choice σ.nx) { σ with nx := σ.nx + 1 } (WritesWithin.of_written_eq rfl)
  | tryFinally a b iha ihb =>
    intro σ
    have ha := (iha σ).mono (n2 := writesTo (.tryFinally a b)) (by intro w hw; simp [writesTo, hw])
    simp only [exec]
    rcases hr : exec o a σ with ⟨o1, σ1⟩
    rw [hr] at ha
    have hb := (ihb σ1).mono (n2 := writesTo (.tryFinally a b)) (by intro w hw; simp [writesTo, hw])
    rcases hr2 : exec o b σ1 with ⟨o2, σ2⟩
    rw [hr2] at hb
    cases o2 <;> exact ha.trans hb
  | tryExcept a b c iha ihb =>
    intro σ
    have ha := (iha σ).mono (n2 := writesTo (.tryExcept a b c)) (by intro w hw; simp [writesTo, hw])
    simp only [exec]
    rcases hr : exec o a σ with ⟨o1, σ1⟩
    rw [hr] at ha
    cases o1
    · exact ha
    · simp only
      split_ifs
      · exact ha.trans ((ihb σ1).mono (by intro w hw; simp [writesTo, hw]))
      · exact ha.trans (WritesWithin.of_written_eq rfl)
      · exact ha.trans ((WritesWithin.of_written_eq (σ' := { σ1 with nx := σ1.nx + 1 }) rfl).trans
          ((ihb _).mono (by intro w hw; simp [writesTo, hw])))
    · exact ha

end Atomica.Protocol.Bracket
