/-
  Lemmas about `Atomica.Protocol` (Asd.lean): the order on `Obj`, clipping, one step of the accept loop.
-/
import AtomicaModel.Protocol.Asd
import Mathlib.Tactic.Linarith

namespace Atomica.Protocol

namespace Obj

theorem le_refl (a : Obj) : le a a = true := by
  cases a <;> simp [le, lt]

theorem lt_imp_le {a b : Obj} (h : lt a b = true) : le a b = true := by
  cases a <;> cases b <;> simp_all [le, lt]
  exact le_of_lt h

theorem le_trans {a b c : Obj} (h1 : le a b = true) (h2 : le b c = true) : le a c = true := by
  cases a <;> cases b <;> cases c <;> simp_all [le, lt]
  exact _root_.le_trans h1 h2

theorem le_total (a b : Obj) : le a b = true ∨ le b a = true := by
  cases a <;> cases b <;> simp [le, lt]
  exact _root_.le_total _ _

theorem not_lt_imp_le {a b : Obj} (h : lt a b = false) : le b a = true := by
  simp [le, h]

theorem le_inf (a : Obj) : le a inf = true := by
  cases a <;> simp [le, lt]

theorem finite_of_le {a b : Obj} (h : le a b = true) (hb : b.isFinite = true) : a.isFinite = true := by
  cases a <;> cases b <;> simp_all [le, lt, isFinite]

end Obj

theorem clipB_within (b : Bound) (h : ∃ v, b.within v) (raw : Rat) : b.within (clipB b raw) := by
  obtain ⟨v0, hlo, hhi⟩ := h
  obtain ⟨lo, hi⟩ := b
  cases lo with
  | none =>
    cases hi with
    | none => exact ⟨by simp, by simp⟩
    | some h =>
      refine ⟨by simp, ?_⟩
      intro h' hh; simp at hh; subst hh
      simp only [clipB]
      split_ifs with c
      · exact _root_.le_refl _
      · exact not_lt.mp c
  | some l =>
    cases hi with
    | none =>
      refine ⟨?_, by simp⟩
      intro l' hl; simp at hl; subst hl
      simp only [clipB]
      split_ifs with c
      · exact _root_.le_refl _
      · exact not_lt.mp c
    | some h =>
      have hl0 : l ≤ v0 := hlo l rfl
      have hh0 : v0 ≤ h := hhi h rfl
      refine ⟨?_, ?_⟩
      · intro l' hl; simp at hl; subst hl
        simp only [clipB]
        split_ifs with c1 c2 c2
        · linarith
        · exact _root_.le_refl _
        · linarith
        · exact not_lt.mp c1
      · intro h' hh; simp at hh; subst hh
        simp only [clipB]
        split_ifs with c1 c2 c2
        · exact _root_.le_refl _
        · exact not_lt.mp c2
        · exact _root_.le_refl _
        · exact not_lt.mp c2

theorem propose_length (box : List Bound) (x : List Rat) (p : Nat) (raw : Rat) :
    (propose box x p raw).length = x.length := by
  simp [propose]

theorem inBox_propose {box : List Bound} {x : List Rat} (h : inBox box x) (p : Nat) (raw : Rat) :
    inBox box (propose box x p raw) := by
  obtain ⟨hlen, hw⟩ := h
  refine ⟨by simp [propose, hlen], ?_⟩
  intro i hx hb
  have hx' : i < x.length := by simpa [propose] using hx
  simp only [propose, List.getElem_set]
  split_ifs with hpi
  · subst hpi
    have : box.getD p Bound.free = box[p] := by simp [List.getD, hb]
    rw [this]
    exact clipB_within _ ⟨x[p], hw p hx' hb⟩ raw
  · exact hw i hx' hb

theorem step_le (box : List Bound) (s : St) (e : Eval) : Obj.le (step box s e).f s.f = true := by
  unfold step
  split_ifs with h
  · exact Obj.lt_imp_le h
  · exact Obj.le_refl _

theorem step_le_eval (box : List Bound) (s : St) (e : Eval) : Obj.le (step box s e).f e.f = true := by
  unfold step
  split_ifs with h
  · exact Obj.le_refl _
  · exact Obj.not_lt_imp_le (by simpa using h)

theorem step_inBox {box : List Bound} {s : St} (h : inBox box s.x) (e : Eval) : inBox box (step box s e).x := by
  unfold step
  split_ifs
  · exact inBox_propose h _ _
  · exact h

theorem run_cons (box : List Bound) (s : St) (e : Eval) (es : List Eval) :
    run box s (e :: es) = run box (step box s e) es := rfl

theorem run_le (box : List Bound) (es : List Eval) : ∀ s, Obj.le (run box s es).f s.f = true := by
  induction es with
  | nil => intro s; exact Obj.le_refl _
  | cons e es ih =>
    intro s
    rw [run_cons]
    exact Obj.le_trans (ih _) (step_le box s e)

theorem run_inBox (box : List Bound) (es : List Eval) : ∀ s, inBox box s.x → inBox box (run box s es).x := by
  induction es with
  | nil => intro s h; exact h
  | cons e es ih =>
    intro s h
    rw [run_cons]
    exact ih _ (step_inBox h e)

/-- the final point is the start or one of the evaluated points -/
theorem run_mem (box : List Bound) (es : List Eval) : ∀ s, run box s es ∈ s :: evaluated box s es := by
  induction es with
  | nil => intro s; simp [run]
  | cons e es ih =>
    intro s
    rw [run_cons]
    have := ih (step box s e)
    simp only [evaluated, List.mem_cons] at this ⊢
    rcases this with h | h
    · rw [h]
      unfold step
      split_ifs
      · right; left; rfl
      · left; rfl
    · right; right; exact h

/-- the final value is below every value returned along the way -/
theorem run_le_evaluated (box : List Bound) (es : List Eval) :
    ∀ s, ∀ p ∈ evaluated box s es, Obj.le (run box s es).f p.f = true := by
  induction es with
  | nil => intro s p hp; simp [evaluated] at hp
  | cons e es ih =>
    intro s p hp
    rw [run_cons]
    simp only [evaluated, List.mem_cons] at hp
    rcases hp with h | h
    · subst h
      exact Obj.le_trans (run_le box es _) (step_le_eval box s e)
    · exact ih _ p h

/-- nothing evaluated was strictly better than the start ⇒ the start is returned -/
theorem run_stays (box : List Bound) (es : List Eval) :
    ∀ s, (∀ e ∈ es, Obj.lt e.f s.f = false) → run box s es = s := by
  induction es with
  | nil => intro s _; rfl
  | cons e es ih =>
    intro s h
    rw [run_cons]
    have he : Obj.lt e.f s.f = false := h e (by simp)
    have hs : step box s e = s := by simp [step, he]
    rw [hs]
    exact ih s (fun e' he' => h e' (by simp [he']))

end Atomica.Protocol
